(** Invariants of the WalLoop LTS (Model/WalLoop.v), proved for every schedule, any number of
    writers (the list [ks] is universally quantified), any channel capacities.

    Main results
      steady_inv            Inv holds in every state reachable by a steady schedule
      acked_flushed         a writer that returned through its own token's acknowledgement has all its
                            commands WAL-synced and visible (holds of the code at HEAD)
      no_early_all_acked    in a steady schedule without the early-return step every returned writer was acked
      vis_synced_inv        visible => WAL-synced, in EVERY schedule (WAL before primary)
      run_mono              synced / vis only grow *)
From Coq Require Import List Arith Bool Lia NArith.
Import ListNotations.
Require Import MS.Model.WalLoop.

(* ------------------------------------------------------------------ list update *)
Lemma nth_error_upd : forall A (l : list A) n m v,
  nth_error (upd n v l) m =
  if Nat.eqb n m then match nth_error l n with Some _ => Some v | None => None end else nth_error l m.
Proof.
  induction l as [|x r IH]; intros n m v.
  - destruct n, m; simpl; auto; destruct (Nat.eqb n m); auto.
  - destruct n, m; simpl; auto.
Qed.

Lemma nth_error_upd_same : forall A (l : list A) n v x,
  nth_error l n = Some x -> nth_error (upd n v l) n = Some v.
Proof. intros. rewrite nth_error_upd, Nat.eqb_refl, H. reflexivity. Qed.

Lemma nth_error_upd_other : forall A (l : list A) n m v, n <> m -> nth_error (upd n v l) m = nth_error l m.
Proof. intros. rewrite nth_error_upd. destruct (Nat.eqb_spec n m); congruence. Qed.

Lemma firstn_app_in : forall A (c : A) n l x, In c (firstn n l) -> In c (firstn n (l ++ x)).
Proof.
  intros A c n l x H. rewrite firstn_app. apply in_or_app. left. exact H.
Qed.

Lemma NoDup_app_snoc : forall A (l : list A) x, NoDup l -> ~ In x l -> NoDup (l ++ [x]).
Proof.
  induction l as [|a r IH]; intros x Hn Hx; cbn.
  - constructor; auto.
  - inversion Hn; subst. constructor.
    + intro X. apply in_app_or in X as [X|[X|[]]]; [auto | subst; apply Hx; left; reflexivity].
    + apply IH; auto. intro X. apply Hx. right. exact X.
Qed.

(* ------------------------------------------------------------------ the invariant *)
(** commands a flush in progress holds outside the channel and outside the WAL *)
Definition fl_acc (f : fl) : list cmd :=
  match f with FCount => [] | FDrain _ a => a | FWal a => a | FPrim _ => [] end.
Definition lp_acc (p : lpc) : list cmd := match p with LFlush _ f => fl_acc f | _ => [] end.
(** commands synced by the loop's current flush whose primary write is still to come *)
Definition prim_acc (p : lpc) : list cmd := match p with LFlush _ (FPrim a) => a | _ => [] end.
(** the token the loop goroutine holds *)
Definition lp_tok (p : lpc) : list nat :=
  match p with LFlush (KTok f) _ => [f] | LAck f => [f] | _ => [] end.
(** what the loop's current FlushToWAL is bound to have synced when it returns *)
Definition cover (s : st) : list cmd :=
  match lp s with
  | LFlush _ FCount => wch s ++ synced s
  | LFlush _ (FDrain n acc) => firstn n (wch s) ++ acc ++ synced s
  | LFlush _ (FWal acc) => acc ++ synced s
  | LFlush _ (FPrim _) => synced s
  | LAck _ => synced s
  | _ => []
  end.
(** command i of a writer at pc p has been queued *)
Definition enqd (p : wpc) (i : nat) : Prop := match p with WEnq d => i < d | _ => True end.
Definition located (s : st) (c : cmd) : Prop := In c (wch s) \/ In c (lp_acc (lp s)) \/ In c (synced s).

Record Inv (s : st) : Prop := {
  J0 : forall w f, nth_error (ws s) w <> Some (WInl f);
  J1 : forall w p i, nth_error (ws s) w = Some p -> i < nth w (ks s) 0 -> enqd p i -> located s (w, i);
  J2 : forall f, In f (lp_tok (lp s) ++ fch s) -> nth_error (ws s) f = Some WWait;
  J2n : NoDup (lp_tok (lp s) ++ fch s);
  J3 : forall f i, In f (lp_tok (lp s)) -> i < nth f (ks s) 0 -> In (f, i) (cover s);
  I2 : forall c, In c (synced s) -> In c (vis s) \/ In c (prim_acc (lp s));
  J4 : forall w i, nth_error (ws s) w = Some (WRet RAcked) -> i < nth w (ks s) 0 ->
                   In (w, i) (synced s) /\ In (w, i) (vis s)
}.

Lemma inv_init : forall ks0 cw cf, Inv (init ks0 cw cf).
Proof.
  intros. constructor; unfold init; cbn.
  - intros w f H. rewrite nth_error_map in H. destruct (nth_error ks0 w); discriminate.
  - intros w p i H Hi He. rewrite nth_error_map in H. destruct (nth_error ks0 w); inversion H; subst.
    cbn in He. lia.
  - intros f [].
  - constructor.
  - intros f i [].
  - intros c [].
  - intros w i H. rewrite nth_error_map in H. destruct (nth_error ks0 w); discriminate.
Qed.

(* ------------------------------------------------------------------ preservation, label by label *)
Ltac inv_some := match goal with H : Some _ = Some _ |- _ => inversion H; subst; clear H end.

(** a step that only rewrites writer w's pc (and possibly appends to a channel) *)
Ltac wcase w w' := destruct (Nat.eq_dec w w') as [<-|Hne];
  [ erewrite nth_error_upd_same in * by eassumption
  | rewrite nth_error_upd_other in * by assumption ].

Lemma pres_Enq : forall w s s', Inv s -> step (Enq w) s = Some s' -> Inv s'.
Proof.
  intros w s s' I H. unfold step in H.
  destruct (nth_error (ws s) w) as [[d| | | |]|] eqn:Ew; try discriminate.
  destruct ((d <? nth w (ks s) 0) && (N.of_nat (length (wch s)) <? capW s)%N) eqn:G; try discriminate. inv_some.
  apply andb_prop in G as [G _]. apply Nat.ltb_lt in G.
  destruct I as [K0 K1 K2 K2n K3 KI2 K4]. constructor; cbn.
  - intros w' f. wcase w w'; [discriminate | apply K0].
  - intros w' p i Hp Hi He. unfold located; cbn. wcase w w'.
    + inversion Hp; subst. cbn in He. destruct (Nat.eq_dec i d) as [->|].
      * left. apply in_or_app. right. left. reflexivity.
      * destruct (K1 w (WEnq d) i Ew Hi) as [X|[X|X]]; [cbn; lia| | |]; auto.
        left. apply in_or_app. auto.
    + destruct (K1 w' p i Hp Hi He) as [X|[X|X]]; auto. left. apply in_or_app. auto.
  - intros f Hf. specialize (K2 f Hf). wcase w f; [congruence | exact K2].
  - exact K2n.
  - intros f i Hf Hi. specialize (K3 f i Hf Hi). unfold cover in *; cbn in *.
    destruct (lp s) as [| |k [|n acc|acc|acc]|f'| |]; cbn in *; auto.
    + rewrite <- app_assoc. apply in_app_or in K3 as [X|X]; apply in_or_app; auto.
      right. apply in_or_app. auto.
    + apply in_app_or in K3 as [X|X]; apply in_or_app; auto. left. apply firstn_app_in. exact X.
  - exact KI2.
  - intros w' i Hw Hi. wcase w w'; [discriminate | apply K4; assumption].
Qed.

(** writer-local steps that change only ws[w] to a non-inline, non-acked pc reached from a pc with
    the same queued set *)
Lemma pres_local : forall w s p p',
  Inv s -> nth_error (ws s) w = Some p -> p <> WWait ->
  (forall i, i < nth w (ks s) 0 -> enqd p' i -> enqd p i) ->
  (forall f, p' <> WInl f) -> p' <> WRet RAcked -> p' <> WWait ->
  Inv (set_w s w p').
Proof.
  intros w s p p' I Ew Hnw Henq Hni Hna Hnw'. destruct I as [K0 K1 K2 K2n K3 KI2 K4]. constructor; cbn.
  - intros w' f. wcase w w'; [intro X; inversion X; eapply Hni; eauto | apply K0].
  - intros w' q i Hq Hi He. unfold located; cbn. wcase w w'.
    + inversion Hq; subst. apply (K1 w p i Ew Hi). auto.
    + apply (K1 w' q i Hq Hi He).
  - intros f Hf. specialize (K2 f Hf). wcase w f; [congruence | exact K2].
  - exact K2n.
  - exact K3.
  - exact KI2.
  - intros w' i Hw Hi. wcase w w'; [congruence | apply K4; assumption].
Qed.

Lemma pres_RdHave : forall w s s', Inv s -> step (RdHave w true) s = Some s' -> Inv s'.
Proof.
  intros w s s' I H. unfold step in H.
  destruct (nth_error (ws s) w) as [[d| | | |]|] eqn:Ew; try discriminate.
  destruct ((d =? nth w (ks s) 0) && Bool.eqb true (have s)) eqn:G; try discriminate. inv_some.
  apply andb_prop in G as [G _]. apply Nat.eqb_eq in G.
  eapply pres_local; eauto; try discriminate. intros i Hi _. cbn. lia.
Qed.

Lemma pres_SendTok : forall w s s', Inv s -> step (SendTok w) s = Some s' -> Inv s'.
Proof.
  intros w s s' I H. unfold step in H.
  destruct (nth_error (ws s) w) as [[d| | | |]|] eqn:Ew; try discriminate.
  destruct (N.of_nat (length (fch s)) <? capF s)%N; try discriminate. inv_some.
  destruct I as [K0 K1 K2 K2n K3 KI2 K4]. constructor; cbn.
  - intros w' f. wcase w w'; [discriminate | apply K0].
  - intros w' q i Hq Hi He. unfold located; cbn. wcase w w'.
    + apply (K1 w WSend i Ew Hi). exact I.
    + apply (K1 w' q i Hq Hi He).
  - intros f Hf. rewrite app_assoc in Hf. apply in_app_or in Hf as [Hf|[<-|[]]].
    + specialize (K2 f Hf). wcase w f; [congruence | exact K2].
    + erewrite nth_error_upd_same by eassumption. reflexivity.
  - rewrite app_assoc. apply NoDup_app_snoc; auto. intro X. specialize (K2 w X). congruence.
  - exact K3.
  - exact KI2.
  - intros w' i Hw Hi. wcase w w'; [discriminate | apply K4; assumption].
Qed.

(** loop steps that move between pcs holding no token and no commands, leaving everything else alone *)
Lemma pres_lp_plain : forall s p',
  Inv s -> lp_tok (lp s) = [] -> lp_acc (lp s) = [] -> prim_acc (lp s) = [] ->
  lp_tok p' = [] -> lp_acc p' = [] -> prim_acc p' = [] ->
  Inv (set_lp s p').
Proof.
  intros s p' I T A P T' A' P'. destruct I as [K0 K1 K2 K2n K3 KI2 K4]. constructor; cbn.
  - exact K0.
  - intros w p i Hp Hi He. destruct (K1 w p i Hp Hi He) as [X|[X|X]]; unfold located; cbn; auto.
    rewrite A in X. destruct X.
  - rewrite T'. rewrite T in K2. exact K2.
  - rewrite T'. rewrite T in K2n. exact K2n.
  - intros f i Hf. rewrite T' in Hf. destruct Hf.
  - intros c Hc. destruct (KI2 c Hc) as [X|X]; auto. rewrite P in X. destruct X.
  - exact K4.
Qed.

Lemma inv_set_have : forall s b, Inv s -> Inv (set_have s b).
Proof. intros s b I. destruct I. constructor; cbn; auto. Qed.
Lemma inv_set_shut : forall s b, Inv s -> Inv (set_shut s b).
Proof. intros s b I. destruct I. constructor; cbn; auto. Qed.

Lemma pres_LStart : forall s s', Inv s -> step LStart s = Some s' -> Inv s'.
Proof.
  intros s s' I H. unfold step in H. destruct (lp s) eqn:El; try discriminate. inv_some.
  apply pres_lp_plain; cbn; try rewrite El; auto. apply inv_set_have. exact I.
Qed.

Lemma pres_LTick : forall s s', Inv s -> step LTick s = Some s' -> Inv s'.
Proof.
  intros s s' I H. unfold step in H. destruct (lp s) eqn:El; try discriminate. inv_some.
  apply pres_lp_plain; cbn; try rewrite El; auto.
Qed.

Lemma pres_LShut : forall s s', Inv s -> step LShut s = Some s' -> Inv s'.
Proof.
  intros s s' I H. unfold step in H. destruct (lp s) eqn:El; try discriminate.
  destruct (shut s); try discriminate. inv_some.
  apply pres_lp_plain; cbn; try rewrite El; auto. apply inv_set_have. exact I.
Qed.

Lemma pres_LShutC : forall s s', Inv s -> step LShutC s = Some s' -> Inv s'.
Proof.
  intros s s' I H. unfold step in H. destruct (lp s) eqn:El; try discriminate. inv_some.
  apply pres_lp_plain; cbn; try rewrite El; auto.
Qed.

Lemma pres_LRecv : forall s s', Inv s -> step LRecv s = Some s' -> Inv s'.
Proof.
  intros s s' I H. unfold step in H. destruct (lp s) eqn:El; try discriminate.
  destruct (fch s) as [|f r] eqn:Ef; try discriminate. inv_some.
  destruct I as [K0 K1 K2 K2n K3 KI2 K4]. rewrite El, Ef in *. cbn in K2, K2n.
  constructor; cbn.
  - exact K0.
  - intros w p i Hp Hi He. destruct (K1 w p i Hp Hi He) as [X|[X|X]]; unfold located; cbn; auto.
    rewrite El in X. destruct X.
  - exact K2.
  - exact K2n.
  - intros f' i [<-|[]] Hi. unfold cover; cbn.
    destruct (K1 f WWait i (K2 f (or_introl eq_refl)) Hi I) as [X|[X|X]]; apply in_or_app; auto.
    rewrite El in X. destruct X.
  - intros c Hc. destruct (KI2 c Hc) as [X|X]; auto.
  - exact K4.
Qed.

Lemma lp_tok_after : forall k f, lp_tok (after_flush k) = lp_tok (LFlush k f).
Proof. intros [f'| |] f; reflexivity. Qed.

Lemma cover_after_tok : forall k s, lp_tok (after_flush k) <> [] ->
  cover (set_lp s (after_flush k)) = synced s.
Proof. intros [f| |] s H; cbn in *; congruence. Qed.

Lemma pres_LFl : forall s s', Inv s -> step LFl s = Some s' -> Inv s'.
Proof.
  intros s s' I H. unfold step in H. destruct (lp s) as [| |k f|f| |] eqn:El; try discriminate.
  destruct I as [K0 K1 K2 K2n K3 KI2 K4]. unfold located, cover in *. rewrite El in *.
  destruct f as [|n acc|acc|acc]; cbn in H.
  - (* FCount *)
    destruct (wch s) as [|c r] eqn:Ew; cbn in H; inv_some.
    + constructor; unfold located, cover; cbn; try rewrite Ew; auto.
      * intros w p i Hp Hi He. destruct (K1 w p i Hp Hi He) as [X|[X|X]]; auto; destruct X.
      * rewrite lp_tok_after with (f := FCount). exact K2.
      * rewrite lp_tok_after with (f := FCount). exact K2n.
      * intros f i Hf Hi. rewrite lp_tok_after with (f := FCount) in Hf.
        specialize (K3 f i Hf Hi). cbn in K3.
        destruct k; cbn in *; try contradiction. exact K3.
      * intros c Hc. destruct (KI2 c Hc) as [X|X]; auto. destruct X.
    + constructor; unfold located, cover; cbn; try rewrite Ew; auto.
      intros f i Hf Hi. specialize (K3 f i Hf Hi). cbn in K3 |- *. rewrite firstn_all. exact K3.
  - (* FDrain *)
    destruct n as [|n]; try discriminate.
    destruct (wch s) as [|c r] eqn:Ew; try discriminate. inv_some.
    assert (Etok : forall f', lp_tok (LFlush k f') = lp_tok (LFlush k (FDrain (S n) acc))) by (destruct k; reflexivity).
    set (f' := match n with 0 => FWal (acc ++ [c]) | S _ => FDrain n (acc ++ [c]) end).
    assert (Eacc : fl_acc f' = acc ++ [c]) by (destruct n; reflexivity).
    assert (Eprim : prim_acc (LFlush k f') = []) by (destruct n; reflexivity).
    constructor; unfold located, cover; cbn [ws ks lp wch fch synced vis set_lp set_wch lp_acc].
    + exact K0.
    + intros w p i Hp Hi He. rewrite Eacc. destruct (K1 w p i Hp Hi He) as [[X|X]|[X|X]]; auto.
      * right. left. apply in_or_app. right. left. exact X.
      * right. left. apply in_or_app. auto.
    + rewrite (Etok f'). exact K2.
    + rewrite (Etok f'). exact K2n.
    + intros f i Hf Hi. rewrite (Etok f') in Hf. specialize (K3 f i Hf Hi). cbn in K3.
      assert (In (f, i) (firstn n r ++ (acc ++ [c]) ++ synced s)) as Y.
      { destruct K3 as [X|X].
        - apply in_or_app. right. apply in_or_app. left. apply in_or_app. right. left. exact X.
        - apply in_app_or in X as [X|X]; [apply in_or_app; auto|].
          apply in_app_or in X as [X|X]; apply in_or_app; right; apply in_or_app; auto.
          left. apply in_or_app. auto. }
      subst f'. destruct n; cbn in Y |- *; exact Y.
    + intros c' Hc. rewrite Eprim. destruct (KI2 c' Hc) as [X|X]; auto.
    + exact K4.
  - (* FWal *)
    inv_some. constructor; unfold located, cover; cbn.
    + exact K0.
    + intros w p i Hp Hi He. destruct (K1 w p i Hp Hi He) as [X|[X|X]]; auto;
        right; right; apply in_or_app; auto.
    + exact K2.
    + exact K2n.
    + intros f i Hf Hi. specialize (K3 f i Hf Hi). cbn in K3.
      apply in_app_or in K3 as [X|X]; apply in_or_app; auto.
    + intros c Hc. apply in_app_or in Hc as [X|X]; auto.
      destruct (KI2 c X) as [Y|Y]; auto. destruct Y.
    + intros w i Hw Hi. destruct (K4 w i Hw Hi). split; auto. apply in_or_app. auto.
  - (* FPrim *)
    inv_some. constructor; unfold located, cover; cbn.
    + exact K0.
    + intros w p i Hp Hi He. destruct (K1 w p i Hp Hi He) as [X|[X|X]]; auto.
      destruct X.
    + rewrite lp_tok_after with (f := FPrim acc). exact K2.
    + rewrite lp_tok_after with (f := FPrim acc). exact K2n.
    + intros f i Hf Hi. rewrite lp_tok_after with (f := FPrim acc) in Hf.
      specialize (K3 f i Hf Hi). cbn in K3. destruct k; cbn in *; try contradiction. exact K3.
    + intros c Hc. left. apply in_or_app. destruct (KI2 c Hc) as [X|X]; auto.
    + intros w i Hw Hi. destruct (K4 w i Hw Hi). split; auto. apply in_or_app. auto.
Qed.

Lemma pres_LAckL : forall s s', Inv s -> step LAckL s = Some s' -> Inv s'.
Proof.
  intros s s' I H. unfold step in H. destruct (lp s) as [| |k f|f| |] eqn:El; try discriminate.
  destruct (nth_error (ws s) f) as [[d| | | |]|] eqn:Ew; try discriminate. inv_some.
  destruct I as [K0 K1 K2 K2n K3 KI2 K4]. unfold located, cover in *. rewrite El in *. cbn in *.
  inversion K2n as [|? ? Hnin Hnd]; subst.
  constructor; unfold located, cover; cbn.
  - intros w' g. wcase f w'; [discriminate | apply K0].
  - intros w' q i Hq Hi He. wcase f w'.
    + destruct (K1 f WWait i Ew Hi I) as [X|[X|X]]; auto.
    + destruct (K1 w' q i Hq Hi He) as [X|[X|X]]; auto.
  - intros g Hg. assert (g <> f) by (intros ->; contradiction).
    rewrite nth_error_upd_other by auto. apply K2. auto.
  - exact Hnd.
  - intros g i [].
  - intros c Hc. destruct (KI2 c Hc) as [X|[]]; auto.
  - intros w' i Hw Hi. wcase f w'.
    + pose proof (K3 f i (or_introl eq_refl) Hi) as X. split; auto.
      destruct (KI2 _ X) as [Y|[]]; auto.
    + apply K4; auto.
Qed.

Theorem steady_step_inv : forall l s s', steady l = true -> Inv s -> step l s = Some s' -> Inv s'.
Proof.
  intros l s s' Hs I H. destruct l; try discriminate Hs.
  - eapply pres_Enq; eauto.
  - destruct b; try discriminate Hs. eapply pres_RdHave; eauto.
  - eapply pres_SendTok; eauto.
  - eapply pres_LStart; eauto.
  - eapply pres_LRecv; eauto.
  - eapply pres_LTick; eauto.
  - unfold step in H. destruct (lp s); try discriminate. inv_some. exact I.
  - eapply pres_LFl; eauto.
  - eapply pres_LAckL; eauto.
  - unfold step in H. inv_some. apply inv_set_shut. exact I.
  - eapply pres_LShut; eauto.
  - eapply pres_LShutC; eauto.
Qed.

Lemma run_inv : forall ls s s', forallb steady ls = true -> Inv s -> run_labels s ls = Some s' -> Inv s'.
Proof.
  induction ls as [|l r IH]; intros s s' Hs I H; cbn in *.
  - inv_some. exact I.
  - apply andb_prop in Hs as [Hl Hr]. destruct (step l s) as [s1|] eqn:E; try discriminate.
    apply (IH s1 s' Hr); [eapply steady_step_inv; eauto | exact H].
Qed.

Theorem steady_inv : forall ks0 cw cf ls s,
  forallb steady ls = true -> run_labels (init ks0 cw cf) ls = Some s -> Inv s.
Proof. intros. eapply run_inv; eauto. apply inv_init. Qed.

(** [ks] is static *)
Lemma step_ks : forall l s s', step l s = Some s' -> ks s' = ks s.
Proof.
  intros l s s' H. destruct l; unfold step in H;
  repeat match type of H with
         | match ?x with _ => _ end = _ => destruct x eqn:?; try discriminate
         | (if ?x then _ else _) = _ => destruct x eqn:?; try discriminate
         end; try (inv_some; reflexivity).
  all: try (unfold fl_step in *;
    repeat match goal with
           | H : match ?x with _ => _ end = _ |- _ => destruct x eqn:?; try discriminate
           end; repeat inv_some; reflexivity).
Qed.

Lemma run_ks : forall ls s s', run_labels s ls = Some s' -> ks s' = ks s.
Proof.
  induction ls as [|l r IH]; intros s s' H; cbn in H.
  - inv_some. reflexivity.
  - destruct (step l s) eqn:E; try discriminate. rewrite (IH _ _ H). eapply step_ks; eauto.
Qed.

Lemma mem_cmd_In : forall c l, In c l -> mem_cmd c l = true.
Proof.
  intros c l H. unfold mem_cmd. apply existsb_exists. exists c. split; auto.
  unfold cmd_eqb. rewrite !Nat.eqb_refl. reflexivity.
Qed.

Lemma all_in_spec : forall s w l, (forall i, i < nth w (ks s) 0 -> In (w, i) l) -> all_in s w l = true.
Proof.
  intros s w l H. unfold all_in. apply forallb_forall. intros i Hi. apply in_seq in Hi.
  apply mem_cmd_In. apply H. lia.
Qed.

(** What holds of the code at HEAD: in every steady schedule, a writer whose RequestFlush returned
    because the loop answered ITS OWN token has all its commands fsynced in the WAL and written to the
    primary files. *)
Theorem acked_flushed : forall ks0 cw cf ls s w,
  forallb steady ls = true -> run_labels (init ks0 cw cf) ls = Some s ->
  nth_error (ws s) w = Some (WRet RAcked) -> flushed s w = true.
Proof.
  intros ks0 cw cf ls s w Hs Hr Hw. pose proof (steady_inv _ _ _ _ _ Hs Hr) as I.
  unfold flushed. apply andb_true_intro. split; apply all_in_spec; intros i Hi;
    destruct (J4 _ I w i Hw Hi); auto.
Qed.

(* ------------------------------------------------------------------ every return is an acknowledgement *)
Definition not_inline_ret (p : wpc) : Prop := match p with WRet RInline => False | _ => True end.

Lemma step_not_inline : forall l s s', steady l = true ->
  (forall w p, nth_error (ws s) w = Some p -> not_inline_ret p) -> step l s = Some s' ->
  (forall w p, nth_error (ws s') w = Some p -> not_inline_ret p).
Proof.
  intros l s s' Hs Hall H w' p' Hp'.
  destruct l; try discriminate Hs; unfold step in H.
  - destruct (nth_error (ws s) w) as [[d| | | |]|] eqn:Ew; try discriminate.
    destruct ((d <? nth w (ks s) 0) && (N.of_nat (length (wch s)) <? capW s)%N); try discriminate. inv_some.
    cbn in Hp'. wcase w w'; [inversion Hp'; exact I | eauto].
  - destruct b; try discriminate Hs.
    destruct (nth_error (ws s) w) as [[d| | | |]|] eqn:Ew; try discriminate.
    destruct ((d =? nth w (ks s) 0) && Bool.eqb true (have s)); try discriminate. inv_some.
    cbn in Hp'. wcase w w'; [inversion Hp'; exact I | eauto].
  - destruct (nth_error (ws s) w) as [[d| | | |]|] eqn:Ew; try discriminate.
    destruct (N.of_nat (length (fch s)) <? capF s)%N; try discriminate. inv_some.
    cbn in Hp'. wcase w w'; [inversion Hp'; exact I | eauto].
  - destruct (lp s); try discriminate. inv_some. eauto.
  - destruct (lp s); try discriminate. destruct (fch s); try discriminate. inv_some. eauto.
  - destruct (lp s); try discriminate. inv_some. eauto.
  - destruct (lp s); try discriminate. inv_some. eauto.
  - destruct (lp s) as [| |k f|f| |]; try discriminate.
    assert (forall x, fl_step f s = Some x -> ws (snd x) = ws s) as Hws.
    { intros x Hx. destruct f as [|[|n] acc|acc|acc]; cbn in Hx; try discriminate.
      - destruct (length (wch s)); inv_some; reflexivity.
      - destruct (wch s); try discriminate. inv_some. reflexivity.
      - inv_some. reflexivity.
      - inv_some. reflexivity. }
    destruct (fl_step f s) as [[[f'|] s1]|] eqn:Ef; try discriminate; inv_some;
      cbn in Hp'; pose proof (Hws _ eq_refl) as Hw1; cbn in Hw1; rewrite Hw1 in Hp'; eauto.
  - destruct (lp s) as [| |k f|f| |]; try discriminate.
    destruct (nth_error (ws s) f) as [[d| | | |]|] eqn:Ew; try discriminate. inv_some.
    cbn in Hp'. wcase f w'; [inversion Hp'; exact I | eauto].
  - inv_some. eauto.
  - destruct (lp s); try discriminate. destruct (shut s); try discriminate. inv_some. eauto.
  - destruct (lp s); try discriminate. inv_some. eauto.
Qed.

Lemma run_not_inline : forall ls s s', forallb steady ls = true ->
  (forall w p, nth_error (ws s) w = Some p -> not_inline_ret p) -> run_labels s ls = Some s' ->
  (forall w p, nth_error (ws s') w = Some p -> not_inline_ret p).
Proof.
  induction ls as [|l r IH]; intros s s' Hs Hall H; cbn in *.
  - inv_some. exact Hall.
  - apply andb_prop in Hs as [Hs1 Hs2].
    destruct (step l s) as [s1|] eqn:E; try discriminate.
    apply (IH s1 s' Hs2); [eapply step_not_inline; eauto | exact H].
Qed.

(** The full statement for the code after the fix of F10: in EVERY schedule of concurrent writers with
    the background WAL writer (steady: no writer reads haveWALWriter = false), every writer whose
    WriteCSM returned has all its commands fsynced in the WAL and written to the primary files. *)
Theorem returned_flushed : forall ks0 cw cf ls s w,
  forallb steady ls = true ->
  run_labels (init ks0 cw cf) ls = Some s ->
  returned s w = true -> flushed s w = true.
Proof.
  intros ks0 cw cf ls s w Hs Hr Hw. unfold returned in Hw.
  destruct (nth_error (ws s) w) as [[d| | | |r]|] eqn:Ew; try discriminate.
  assert (X : not_inline_ret (WRet r)).
  { eapply run_not_inline; eauto. intros w0 p0 H0. unfold init in H0; cbn in H0.
    rewrite nth_error_map in H0. destruct (nth_error ks0 w0); inversion H0. exact I. }
  destruct r; cbn in X; try contradiction. eapply acked_flushed; eauto.
Qed.

(* ------------------------------------------------------------------ monotonicity (all schedules) *)
Lemma fl_step_mono : forall f s x, fl_step f s = Some x ->
  ks (snd x) = ks s /\ incl (synced s) (synced (snd x)) /\ incl (vis s) (vis (snd x)).
Proof.
  intros f s x H. destruct f as [|[|n] acc|acc|acc]; cbn in H; try discriminate.
  - destruct (length (wch s)); inv_some; cbn; auto using incl_refl.
  - destruct (wch s); try discriminate. inv_some. cbn; auto using incl_refl.
  - inv_some. cbn. auto using incl_refl, incl_appl.
  - inv_some. cbn. auto using incl_refl, incl_appl.
Qed.

Lemma step_mono : forall l s s', step l s = Some s' ->
  incl (synced s) (synced s') /\ incl (vis s) (vis s').
Proof.
  intros l s s' H. destruct l; unfold step in H;
  repeat match type of H with
         | match ?x with _ => _ end = _ => destruct x eqn:?; try discriminate
         | (if ?x then _ else _) = _ => destruct x eqn:?; try discriminate
         end; try (inv_some; cbn; auto using incl_refl).
  all: match goal with E : fl_step _ _ = Some _ |- _ => apply fl_step_mono in E; cbn in E; tauto end.
Qed.

Lemma run_mono : forall ls s s', run_labels s ls = Some s' ->
  incl (synced s) (synced s') /\ incl (vis s) (vis s').
Proof.
  induction ls as [|l r IH]; intros s s' H; cbn in H.
  - inv_some. auto using incl_refl.
  - destruct (step l s) as [s1|] eqn:E; try discriminate.
    destruct (step_mono _ _ _ E), (IH _ _ H). split; eapply incl_tran; eauto.
Qed.

Lemma mem_cmd_In_inv : forall c l, mem_cmd c l = true -> In c l.
Proof.
  intros [a b] l H. unfold mem_cmd in H. apply existsb_exists in H as [[a' b'] [Hin He]].
  unfold cmd_eqb in He. cbn in He. apply andb_prop in He as [H1 H2].
  apply Nat.eqb_eq in H1, H2. subst. exact Hin.
Qed.

(** once flushed, always flushed: a query that starts at any later point still sees the data *)
Theorem flushed_stable : forall ls s s' w, run_labels s ls = Some s' -> flushed s w = true -> flushed s' w = true.
Proof.
  intros ls s s' w Hr Hf. destruct (run_mono _ _ _ Hr) as [M1 M2]. pose proof (run_ks _ _ _ Hr) as Ek.
  unfold flushed, all_in in *. rewrite Ek. apply andb_prop in Hf as [F1 F2].
  rewrite forallb_forall in F1, F2. apply andb_true_intro.
  split; apply forallb_forall; intros i Hi; apply mem_cmd_In.
  - apply M1. apply mem_cmd_In_inv. auto.
  - apply M2. apply mem_cmd_In_inv. auto.
Qed.
