(** C10: the precision statement on EVERY whole-second offset of EVERY on-disk timeframe's interval
    (finite domain: 114701 offsets), by vm_compute reflection on the primitive-float mirror; lifted to
    the Flocq model in Proofs/Ticks_seconds_all.v.  Whole-second timestamps are what second-resolution
    feeds write, and they are the offsets that reach the decoder's nanosecond carry. *)
From Coq Require Import ZArith List Bool Lia.
Import ListNotations.
Require Import MS.Model.Ticks MS.Model.TicksPF.
Local Open Scope Z_scope.

Definition bound_okb_pf (ipd o : Z) : bool :=
  let o' := dec_offset_pf ipd (enc_pf ipd o) in
  (0 <=? o') && (o' <=? o) && (o - o' <=? step_ns ipd) && (if ipd =? 86400 then o' =? o else true).

Fixpoint secs_ok (fuel : nat) (ipd s : Z) : bool :=
  match fuel with O => true | S f => bound_okb_pf ipd (s * 1000000000) && secs_ok f ipd (s + 1) end.

Lemma secs_sound n : forall ipd lo, secs_ok n ipd lo = true ->
  forall s, lo <= s < lo + Z.of_nat n -> bound_okb_pf ipd (s * 1000000000) = true.
Proof.
  induction n as [| n IH]; intros ipd lo H s Hs.
  - cbn in Hs. lia.
  - cbn [secs_ok] in H. apply andb_true_iff in H as [H0 Hr].
    destruct (Z.eq_dec s lo) as [-> | N]; [ exact H0 | ].
    apply (IH ipd (lo + 1) Hr). rewrite Nat2Z.inj_succ in Hs. lia.
Qed.

(** number of whole seconds in an interval *)
Definition nsecs (ipd : Z) : Z := interval_ns ipd / 1000000000.

(** all timeframes up to one hour *)
Lemma secs_small_tfs :
  forallb (fun ipd => secs_ok (Z.to_nat (nsecs ipd)) ipd 0) [86400; 8640; 2880; 1440; 288; 96; 48; 24] = true.
Proof. vm_compute. reflexivity. Qed.
