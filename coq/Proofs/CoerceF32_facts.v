(** C14, integer -> float32 through float64 (CoerceColumnType) against Go's direct float32(v):
    for |v| < 2^53 the intermediate float64 is exact, so both are the one rounding of v to binary32.
    Proved on Flocq's binary_normalize (the executable definitions of Base/F32.v, Base/F64.v) through its
    real-number specification; hence the Coq.Reals axioms in Print Assumptions. *)
From Coq Require Import ZArith Reals Lia Lra.
From Flocq Require Import Core.Zaux Core.Raux Core.Defs Core.Float_prop Core.Generic_fmt Core.FLX Core.FLT Core.Round_NE
                          IEEE754.BinarySingleNaN.
Require Import MS.Base.FGen MS.Base.F32 MS.Base.F64.
Local Open Scope Z_scope.

Section Norm.
Variable prec emax : Z.
Context (Hp : Prec_gt_0 prec) (He : Prec_lt_emax prec emax).
Let fexp := SpecFloat.fexp prec emax.

Lemma F2R_int (v : Z) : F2R (Float radix2 v 0) = IZR v.
Proof. unfold F2R. cbn. ring. Qed.

(** normalising any representation (mx, ex) of a non-zero integer v bounded by 2^k (k within the format's range) *)
Lemma normalize_int (v mx ex k : Z) (sz : bool) :
  F2R (Float radix2 mx ex) = IZR v -> v <> 0 -> Z.abs v <= 2 ^ k -> 0 <= k ->
  (fexp (k + 1) <= k)%Z -> k < emax ->
  let z := binary_normalize prec emax Hp He mode_NE mx ex sz in
  B2R z = round radix2 fexp ZnearestE (IZR v) /\ is_finite z = true /\ Bsign z = (v <? 0).
Proof.
  intros Hx Hv Hb Hk Hf Hke z.
  pose proof (binary_normalize_correct prec emax Hp He mode_NE mx ex sz) as C.
  cbv zeta in C. fold z in C. rewrite Hx in C. fold fexp in C.
  assert (B : (Rabs (round radix2 fexp (round_mode mode_NE) (IZR v)) < bpow radix2 emax)%R).
  { apply Rle_lt_trans with (bpow radix2 k).
    - apply abs_round_le_generic; [apply (fexp_correct prec emax Hp)|apply valid_rnd_N| |].
      + apply generic_format_bpow. exact Hf.
      + rewrite <- abs_IZR, <- IZR_Zpower; auto. apply IZR_le. exact Hb.
    - apply bpow_lt. exact Hke. }
  rewrite (Rlt_bool_true _ _ B) in C. destruct C as (C1 & C2 & C3).
  repeat split; auto.
  rewrite C3. destruct (Rcompare_spec (IZR v) 0) as [L|E|G].
  - apply lt_IZR in L. symmetry. apply Z.ltb_lt. exact L.
  - apply eq_IZR in E. contradiction.
  - apply lt_IZR in G. symmetry. apply Z.ltb_ge. lia.
Qed.
End Norm.

Lemma int_format64 v : Z.abs v < 2 ^ 53 ->
  generic_format radix2 (SpecFloat.fexp 53 1024) (IZR v).
Proof.
  intros H. change (SpecFloat.fexp 53 1024) with (FLT_exp (SpecFloat.emin 53 1024) 53). apply generic_format_FLT. apply (FLT_spec radix2 (SpecFloat.emin 53 1024) 53 (IZR v) (Float radix2 v 0)).
  - symmetry. apply F2R_int.
  - exact H.
  - cbn. lia.
Qed.

Theorem f32_via_f64_exact : forall v : Z, Z.abs v < 2 ^ 53 -> f32_of_f64 (f64_of_Z v) = f32_of_Z v.
Proof.
  intros v Hv. destruct (Z.eq_dec v 0) as [->|Hn]; [vm_compute; reflexivity|].
  assert (Hb : Z.abs v <= 2 ^ 53) by lia.
  (* the float64 is exact *)
  pose proof (normalize_int 53 1024 p64_gt_0 p64_lt_emax v v 0 53 false (F2R_int v) Hn Hb ltac:(lia) ltac:(vm_compute; discriminate) ltac:(lia)) as N64.
  cbv zeta in N64. destruct N64 as (R64 & F64 & S64).
  rewrite round_generic in R64; [|apply valid_rnd_N|apply int_format64; exact Hv].
  (* the direct float32 *)
  pose proof (normalize_int 24 128 p32_gt_0 p32_lt_emax v v 0 53 false (F2R_int v) Hn Hb ltac:(lia) ltac:(vm_compute; discriminate) ltac:(lia)) as N32.
  cbv zeta in N32. destruct N32 as (R32 & F32 & S32).
  unfold f32_of_Z, f_of_Z. unfold f64_of_Z, f_of_Z in *.
  destruct (binary_normalize 53 1024 p64_gt_0 p64_lt_emax mode_NE v 0 false) as [s|s| |s m e Hme] eqn:X; try discriminate.
  - (* zero: impossible, its value is v <> 0 *)
    cbn in R64. exfalso. apply Hn. apply eq_IZR. symmetry. exact R64.
  - (* finite: the second rounding sees exactly v *)
    unfold f32_of_f64, f_conv.
    pose proof (normalize_int 24 128 p32_gt_0 p32_lt_emax v (cond_Zopp s (Zpos m)) e 53 s R64 Hn Hb ltac:(lia) ltac:(vm_compute; discriminate) ltac:(lia)) as N2.
    cbv zeta in N2. destruct N2 as (R2 & F2 & S2).
    apply B2R_Bsign_inj; auto; congruence.
Qed.
