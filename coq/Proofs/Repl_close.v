(** C25, VARIABLE buckets: the timestamp the replica shows for a re-encoded record stays within one
    resolution step of the master's.  Corollary of builder-B's analytic round-trip bound for the tick
    codec (Proofs/Ticks_decoder.v, roundtrip_nowrap).

    Master: a record with ticks [k] is shown at offset o_m = dec_offset ipd k from the interval start.
    Replica (since fix a9ae699): the record is re-encoded from that decoded time, k' = enc ipd o_m
    (Model/Repl.v retick_rec), and shown at o_r = dec_offset ipd k'. *)
From Coq Require Import ZArith Reals Lia Lra List Bool.
Require Import MS.Base.GoInt MS.Model.Ticks MS.Proofs.Ticks_decoder.
Local Open Scope Z_scope.

Lemma step_ns_covers ipd : 0 <= interval_ns ipd -> interval_ns ipd <= step_ns ipd * 4294967296.
Proof.
  intros H. unfold step_ns.
  pose proof (Z.div_mod (interval_ns ipd + 4294967295) 4294967296 ltac:(lia)) as E.
  pose proof (Z.mod_pos_bound (interval_ns ipd + 4294967295) 4294967296 ltac:(lia)) as B. lia.
Qed.

Theorem reencode_close ipd k :
  In ipd ipds ->
  let o_m := dec_offset ipd k in
  0 <= o_m < interval_ns ipd ->
  dec_nowrapb ipd (enc ipd o_m) = true ->
  let o_r := dec_offset ipd (enc ipd o_m) in
  0 <= o_r <= o_m /\ o_m - o_r <= step_ns ipd /\ (ipd = 86400 -> o_r = o_m).
Proof.
  intros Hin o_m Hr Hnw o_r.
  destruct (roundtrip_nowrap ipd o_m Hin Hr Hnw) as (Hle & Hgap & H1s). fold o_r in Hle, Hgap, H1s.
  split; [exact Hle|]. split; [|exact H1s].
  destruct (Z_le_gt_dec (o_m - o_r) (step_ns ipd)) as [Hok|Hgt]; [exact Hok|exfalso].
  pose proof (step_ns_covers ipd ltac:(lia)) as Hc.
  apply IZR_le in Hc. rewrite mult_IZR in Hc.
  assert (Hd : (IZR (step_ns ipd) + 1 <= IZR (o_m - o_r))%R).
  { rewrite <- plus_IZR. apply IZR_le. lia. }
  lra.
Qed.
