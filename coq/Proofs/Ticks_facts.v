(** Facts about Model/Ticks.v (C10): the encoder is monotone in the offset.
    The proofs go through Flocq's real-number specification of the binary64 operations, so the
    standard library's axioms of the real numbers appear in Print Assumptions (listed in the check's
    trusted base). *)
From Coq Require Import ZArith Reals Lia Lra List Bool.
From Flocq Require Import Core.Core IEEE754.BinarySingleNaN.
Require Import MS.Base.GoInt MS.Base.FGen MS.Base.F64 MS.Generated.Src_ticks MS.Model.Ticks.
Import ListNotations.
Local Open Scope R_scope.

Notation fexp64 := (SpecFloat.fexp 53 1024).
Notation RN := (round radix2 fexp64 ZnearestE).

#[local] Instance valid_fexp64 : Valid_exp fexp64 := fexp_correct 53 1024 p64_gt_0.
#[local] Instance valid_NE : Valid_rnd ZnearestE := valid_rnd_N _.

Lemma RN_le x y : x <= y -> RN x <= RN y.
Proof. apply round_le; typeclasses eauto. Qed.

Lemma RN_0 : RN 0 = 0.
Proof. apply round_0. typeclasses eauto. Qed.

Lemma RN_nonneg x : 0 <= x -> 0 <= RN x.
Proof. intros H. rewrite <- RN_0. apply RN_le. exact H. Qed.

Lemma format_bpow e : (-1000 <= e <= 1000)%Z -> generic_format radix2 fexp64 (bpow radix2 e).
Proof.
  intros He. apply generic_format_bpow. unfold SpecFloat.fexp, SpecFloat.emin. lia.
Qed.

(** rounding keeps power-of-two bounds *)
Lemma RN_le_bpow x e : (-1000 <= e <= 1000)%Z -> Rabs x <= bpow radix2 e -> Rabs (RN x) <= bpow radix2 e.
Proof.
  intros He H. apply abs_round_le_generic; try typeclasses eauto; [ apply format_bpow; exact He | exact H ].
Qed.

Lemma no_overflow x e : (-1000 <= e <= 1000)%Z -> Rabs x <= bpow radix2 e ->
  Rlt_bool (Rabs (RN x)) (bpow radix2 1024) = true.
Proof.
  intros He H. apply Rlt_bool_true. apply Rle_lt_trans with (bpow radix2 e).
  - apply RN_le_bpow; assumption.
  - apply bpow_lt. lia.
Qed.

(** a float that is finite, non-negative and at most 2^k *)
Definition bnd (k : Z) (x : f64) : Prop := is_finite x = true /\ 0 <= B2R x <= bpow radix2 k.

Lemma abs_nonneg_le x y : 0 <= x <= y -> Rabs x <= y.
Proof. intros H. rewrite Rabs_pos_eq; lra. Qed.

Lemma mul_spec x y a b : (0 <= a)%Z -> (0 <= b)%Z -> (a + b <= 1000)%Z -> bnd a x -> bnd b y ->
  B2R (f64_mul x y) = RN (B2R x * B2R y) /\ bnd (a + b) (f64_mul x y).
Proof.
  intros Ha Hb Hab [Fx Bx] [Fy By].
  assert (P : 0 <= B2R x * B2R y <= bpow radix2 (a + b)).
  { rewrite bpow_plus. split; [ apply Rmult_le_pos; lra | apply Rmult_le_compat; lra ]. }
  pose proof (Bmult_correct 53 1024 p64_gt_0 p64_lt_emax mode_NE x y) as C. cbn [round_mode] in C.
  rewrite (no_overflow _ (a + b) ltac:(lia) (abs_nonneg_le _ _ P)) in C.
  destruct C as (E & F & _). unfold f64_mul, f_mul. split; [ exact E | ]. split.
  - rewrite F, Fx, Fy. reflexivity.
  - rewrite E. split; [ apply RN_nonneg; lra | ].
    pose proof (RN_le_bpow _ (a + b) ltac:(lia) (abs_nonneg_le _ _ P)) as Q.
    rewrite Rabs_pos_eq in Q; [ exact Q | apply RN_nonneg; lra ].
Qed.

Lemma add_spec x y a : (0 <= a)%Z -> (a + 1 <= 1000)%Z -> bnd a x -> bnd a y ->
  B2R (f64_add x y) = RN (B2R x + B2R y) /\ bnd (a + 1) (f64_add x y).
Proof.
  intros Ha Hab [Fx Bx] [Fy By].
  assert (P : 0 <= B2R x + B2R y <= bpow radix2 (a + 1)).
  { rewrite bpow_plus. change (bpow radix2 1) with 2. lra. }
  pose proof (Bplus_correct 53 1024 p64_gt_0 p64_lt_emax mode_NE x y Fx Fy) as C. cbn [round_mode] in C.
  rewrite (no_overflow _ (a + 1) ltac:(lia) (abs_nonneg_le _ _ P)) in C.
  destruct C as (E & F & _). unfold f64_add, f_add. split; [ exact E | ]. split; [ exact F | ].
  rewrite E. split; [ apply RN_nonneg; lra | ].
  pose proof (RN_le_bpow _ (a + 1) ltac:(lia) (abs_nonneg_le _ _ P)) as Q.
  rewrite Rabs_pos_eq in Q; [ exact Q | apply RN_nonneg; lra ].
Qed.

(** division by a float >= 1 *)
Lemma div_spec x y a : (0 <= a <= 1000)%Z -> bnd a x -> is_finite y = true -> 1 <= B2R y ->
  B2R (f64_div x y) = RN (B2R x / B2R y) /\ bnd a (f64_div x y).
Proof.
  intros Ha [Fx Bx] Fy Hy.
  assert (P : 0 <= B2R x / B2R y <= bpow radix2 a).
  { split.
    - unfold Rdiv. apply Rmult_le_pos; [ lra | ]. left. apply Rinv_0_lt_compat. lra.
    - apply Rle_trans with (B2R x / 1); [ | lra ].
      unfold Rdiv. apply Rmult_le_compat_l; [ lra | ]. apply Rinv_le_contravar; lra. }
  pose proof (Bdiv_correct 53 1024 p64_gt_0 p64_lt_emax mode_NE x y ltac:(lra)) as C. cbn [round_mode] in C.
  rewrite (no_overflow _ a ltac:(lia) (abs_nonneg_le _ _ P)) in C.
  destruct C as (E & F & _). unfold f64_div, f_div. split; [ exact E | ]. split; [ rewrite F; exact Fx | ].
  rewrite E. split; [ apply RN_nonneg; lra | ].
  pose proof (RN_le_bpow _ a ltac:(lia) (abs_nonneg_le _ _ P)) as Q.
  rewrite Rabs_pos_eq in Q; [ exact Q | apply RN_nonneg; lra ].
Qed.

(** integers up to 2^53 are exactly representable *)
Lemma format_IZR z : (Z.abs z <= 2 ^ 53)%Z -> generic_format radix2 fexp64 (IZR z).
Proof.
  intros H. destruct (Z.eq_dec (Z.abs z) (2 ^ 53)) as [E | N].
  - (* a power of two *)
    assert (IZR z = bpow radix2 53 \/ IZR z = - bpow radix2 53) as [-> | ->].
    { change (bpow radix2 53) with (IZR (2 ^ 53)). rewrite <- opp_IZR.
      destruct (Z.abs_eq_or_opp z) as [A | A]; [ left | right ]; f_equal; lia. }
    + apply format_bpow. lia.
    + apply generic_format_opp. apply format_bpow. lia.
  - replace (IZR z) with (F2R (Float radix2 z 0)) by (unfold F2R; cbn; lra).
    apply generic_format_F2R. intros Hz. unfold cexp.
    assert (M : (mag radix2 (F2R (Float radix2 z 0)) <= 53)%Z).
    { apply mag_le_bpow.
      - unfold F2R; cbn. rewrite Rmult_1_r. apply not_0_IZR. exact Hz.
      - unfold F2R; cbn. rewrite Rmult_1_r. rewrite <- abs_IZR.
        change (bpow radix2 53) with (IZR (2 ^ 53)). apply IZR_lt. lia. }
    unfold SpecFloat.fexp, SpecFloat.emin. cbn [Fexp]. lia.
Qed.

Lemma RN_IZR z : (Z.abs z <= 2 ^ 53)%Z -> RN (IZR z) = IZR z.
Proof. intros H. apply round_generic; [ typeclasses eauto | apply format_IZR; exact H ]. Qed.

Lemma of_Z_spec z k : (0 <= z <= 2 ^ k)%Z -> (0 <= k <= 1000)%Z ->
  B2R (f64_of_Z z) = RN (IZR z) /\ bnd k (f64_of_Z z).
Proof.
  intros Hz Hk.
  assert (P : 0 <= IZR z <= bpow radix2 k).
  { split; [ apply IZR_le; lia | ]. rewrite <- (IZR_Zpower radix2 k) by lia.
    apply IZR_le. change (radix_val radix2) with 2%Z. lia. }
  pose proof (binary_normalize_correct 53 1024 p64_gt_0 p64_lt_emax mode_NE z 0 false) as C.
  cbn zeta in C. cbn [round_mode] in C.
  replace (F2R (Float radix2 z 0)) with (IZR z) in C by (unfold F2R; cbn; lra).
  rewrite (no_overflow _ k ltac:(lia) (abs_nonneg_le _ _ P)) in C.
  destruct C as (E & F & _). unfold f64_of_Z, f_of_Z. split; [ exact E | ]. split; [ exact F | ].
  rewrite E. split; [ apply RN_nonneg; lra | ].
  pose proof (RN_le_bpow _ k ltac:(lia) (abs_nonneg_le _ _ P)) as Q.
  rewrite Rabs_pos_eq in Q; [ exact Q | apply RN_nonneg; lra ].
Qed.

Lemma trunc_spec (x : f64) : f64_trunc x = Ztrunc (B2R x).
Proof.
  unfold f64_trunc. apply eq_IZR. rewrite Btrunc_correct; [ apply round_FIX_IZR | exact p64_lt_emax ].
Qed.
