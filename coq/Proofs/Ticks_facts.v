(** Facts about Model/Ticks.v (C10): the encoder is monotone in the offset.
    The proofs go through Flocq's real-number specification of the binary64 operations, so the
    standard library's axioms of the real numbers appear in Print Assumptions (listed in the check's
    trusted base). *)
From Coq Require Import ZArith Reals Lia Lra List Bool.
From Flocq Require Import Core.Core IEEE754.BinarySingleNaN.
Require Import MS.Base.GoInt MS.Base.FGen MS.Base.F64 MS.Generated.Src_ticks MS.Model.Ticks.
Import ListNotations.
Local Open Scope R_scope.

Notation fexp64 := (SpecFloat.fexp 53 1024).
Notation RN := (round radix2 fexp64 ZnearestE).

#[local] Instance valid_fexp64 : Valid_exp fexp64 := fexp_correct 53 1024 p64_gt_0.
#[local] Instance valid_NE : Valid_rnd ZnearestE := valid_rnd_N _.

Lemma RN_le x y : x <= y -> RN x <= RN y.
Proof. apply round_le; typeclasses eauto. Qed.

Lemma RN_0 : RN 0 = 0.
Proof. apply round_0. typeclasses eauto. Qed.

Lemma RN_nonneg x : 0 <= x -> 0 <= RN x.
Proof. intros H. rewrite <- RN_0. apply RN_le. exact H. Qed.

Lemma format_bpow e : (-1000 <= e <= 1000)%Z -> generic_format radix2 fexp64 (bpow radix2 e).
Proof.
  intros He. apply generic_format_bpow. unfold SpecFloat.fexp, SpecFloat.emin. lia.
Qed.

(** rounding keeps power-of-two bounds *)
Lemma RN_le_bpow x e : (-1000 <= e <= 1000)%Z -> Rabs x <= bpow radix2 e -> Rabs (RN x) <= bpow radix2 e.
Proof.
  intros He H. apply abs_round_le_generic; try typeclasses eauto; [ apply format_bpow; exact He | exact H ].
Qed.

Lemma no_overflow x e : (-1000 <= e <= 1000)%Z -> Rabs x <= bpow radix2 e ->
  Rlt_bool (Rabs (RN x)) (bpow radix2 1024) = true.
Proof.
  intros He H. apply Rlt_bool_true. apply Rle_lt_trans with (bpow radix2 e).
  - apply RN_le_bpow; assumption.
  - apply bpow_lt. lia.
Qed.

(** a float that is finite, non-negative and at most 2^k *)
Definition bnd (k : Z) (x : f64) : Prop := is_finite x = true /\ 0 <= B2R x <= bpow radix2 k.

Lemma abs_nonneg_le x y : 0 <= x <= y -> Rabs x <= y.
Proof. intros H. rewrite Rabs_pos_eq; lra. Qed.

Lemma mul_spec x y a b : (0 <= a)%Z -> (0 <= b)%Z -> (a + b <= 1000)%Z -> bnd a x -> bnd b y ->
  B2R (f64_mul x y) = RN (B2R x * B2R y) /\ bnd (a + b) (f64_mul x y).
Proof.
  intros Ha Hb Hab [Fx Bx] [Fy By].
  assert (P : 0 <= B2R x * B2R y <= bpow radix2 (a + b)).
  { rewrite bpow_plus. split; [ apply Rmult_le_pos; lra | apply Rmult_le_compat; lra ]. }
  pose proof (Bmult_correct 53 1024 p64_gt_0 p64_lt_emax mode_NE x y) as C. cbn [round_mode] in C.
  rewrite (no_overflow _ (a + b) ltac:(lia) (abs_nonneg_le _ _ P)) in C.
  destruct C as (E & F & _). unfold f64_mul, f_mul. split; [ exact E | ]. split.
  - rewrite F, Fx, Fy. reflexivity.
  - rewrite E. split; [ apply RN_nonneg; lra | ].
    pose proof (RN_le_bpow _ (a + b) ltac:(lia) (abs_nonneg_le _ _ P)) as Q.
    rewrite Rabs_pos_eq in Q; [ exact Q | apply RN_nonneg; lra ].
Qed.

Lemma add_spec x y a : (0 <= a)%Z -> (a + 1 <= 1000)%Z -> bnd a x -> bnd a y ->
  B2R (f64_add x y) = RN (B2R x + B2R y) /\ bnd (a + 1) (f64_add x y).
Proof.
  intros Ha Hab [Fx Bx] [Fy By].
  assert (P : 0 <= B2R x + B2R y <= bpow radix2 (a + 1)).
  { rewrite bpow_plus. change (bpow radix2 1) with 2. lra. }
  pose proof (Bplus_correct 53 1024 p64_gt_0 p64_lt_emax mode_NE x y Fx Fy) as C. cbn [round_mode] in C.
  rewrite (no_overflow _ (a + 1) ltac:(lia) (abs_nonneg_le _ _ P)) in C.
  destruct C as (E & F & _). unfold f64_add, f_add. split; [ exact E | ]. split; [ exact F | ].
  rewrite E. split; [ apply RN_nonneg; lra | ].
  pose proof (RN_le_bpow _ (a + 1) ltac:(lia) (abs_nonneg_le _ _ P)) as Q.
  rewrite Rabs_pos_eq in Q; [ exact Q | apply RN_nonneg; lra ].
Qed.

(** division by a float >= 1 *)
Lemma div_spec x y a : (0 <= a <= 1000)%Z -> bnd a x -> is_finite y = true -> 1 <= B2R y ->
  B2R (f64_div x y) = RN (B2R x / B2R y) /\ bnd a (f64_div x y).
Proof.
  intros Ha [Fx Bx] Fy Hy.
  assert (P : 0 <= B2R x / B2R y <= bpow radix2 a).
  { split.
    - unfold Rdiv. apply Rmult_le_pos; [ lra | ]. left. apply Rinv_0_lt_compat. lra.
    - apply Rle_trans with (B2R x / 1); [ | lra ].
      unfold Rdiv. apply Rmult_le_compat_l; [ lra | ]. apply Rinv_le_contravar; lra. }
  pose proof (Bdiv_correct 53 1024 p64_gt_0 p64_lt_emax mode_NE x y ltac:(lra)) as C. cbn [round_mode] in C.
  rewrite (no_overflow _ a ltac:(lia) (abs_nonneg_le _ _ P)) in C.
  destruct C as (E & F & _). unfold f64_div, f_div. split; [ exact E | ]. split; [ rewrite F; exact Fx | ].
  rewrite E. split; [ apply RN_nonneg; lra | ].
  pose proof (RN_le_bpow _ a ltac:(lia) (abs_nonneg_le _ _ P)) as Q.
  rewrite Rabs_pos_eq in Q; [ exact Q | apply RN_nonneg; lra ].
Qed.

(** integers up to 2^53 are exactly representable *)
Lemma format_IZR z : (Z.abs z <= 2 ^ 53)%Z -> generic_format radix2 fexp64 (IZR z).
Proof.
  intros H. destruct (Z.eq_dec (Z.abs z) (2 ^ 53)) as [E | N].
  - (* a power of two *)
    assert (IZR z = bpow radix2 53 \/ IZR z = - bpow radix2 53) as [-> | ->].
    { change (bpow radix2 53) with (IZR (2 ^ 53)). rewrite <- opp_IZR.
      destruct (Z.abs_eq_or_opp z) as [A | A]; [ left | right ]; f_equal; lia. }
    + apply format_bpow. lia.
    + apply generic_format_opp. apply format_bpow. lia.
  - replace (IZR z) with (F2R (Float radix2 z 0)) by (unfold F2R; cbn; lra).
    apply generic_format_F2R. intros Hz. unfold cexp.
    assert (M : (mag radix2 (F2R (Float radix2 z 0)) <= 53)%Z).
    { apply mag_le_bpow.
      - unfold F2R; cbn. rewrite Rmult_1_r. apply not_0_IZR. exact Hz.
      - unfold F2R; cbn. rewrite Rmult_1_r. rewrite <- abs_IZR.
        change (bpow radix2 53) with (IZR (2 ^ 53)). apply IZR_lt. lia. }
    unfold SpecFloat.fexp, SpecFloat.emin. cbn [Fexp]. lia.
Qed.

Lemma RN_IZR z : (Z.abs z <= 2 ^ 53)%Z -> RN (IZR z) = IZR z.
Proof. intros H. apply round_generic; [ typeclasses eauto | apply format_IZR; exact H ]. Qed.

Lemma of_Z_spec z k : (0 <= z <= 2 ^ k)%Z -> (0 <= k <= 1000)%Z ->
  B2R (f64_of_Z z) = RN (IZR z) /\ bnd k (f64_of_Z z).
Proof.
  intros Hz Hk.
  assert (P : 0 <= IZR z <= bpow radix2 k).
  { split; [ apply IZR_le; lia | ]. rewrite <- (IZR_Zpower radix2 k) by lia.
    apply IZR_le. change (radix_val radix2) with 2%Z. lia. }
  pose proof (binary_normalize_correct 53 1024 p64_gt_0 p64_lt_emax mode_NE z 0 false) as C.
  cbn zeta in C. cbn [round_mode] in C.
  replace (F2R (Float radix2 z 0)) with (IZR z) in C by (unfold F2R; cbn; lra).
  rewrite (no_overflow _ k ltac:(lia) (abs_nonneg_le _ _ P)) in C.
  destruct C as (E & F & _). unfold f64_of_Z, f_of_Z. split; [ exact E | ]. split; [ exact F | ].
  rewrite E. split; [ apply RN_nonneg; lra | ].
  pose proof (RN_le_bpow _ k ltac:(lia) (abs_nonneg_le _ _ P)) as Q.
  rewrite Rabs_pos_eq in Q; [ exact Q | apply RN_nonneg; lra ].
Qed.

Lemma trunc_spec (x : f64) : f64_trunc x = Ztrunc (B2R x).
Proof.
  unfold f64_trunc. apply eq_IZR. rewrite Btrunc_correct; [ apply round_FIX_IZR | exact p64_lt_emax ].
Qed.

(** a float constant given as mantissa * 2^exponent *)
Lemma cst_spec m e : (0 < m <= 2 ^ 53)%Z -> (-200 <= e <= 200)%Z ->
  bnd (53 + e) (f64_cst m e).
Proof.
  intros Hm He.
  assert (P : 0 <= F2R (Float radix2 m e) <= bpow radix2 (53 + e)).
  { unfold F2R. cbn [Fnum Fexp]. rewrite bpow_plus. split.
    - apply Rmult_le_pos; [ apply IZR_le; lia | apply bpow_ge_0 ].
    - apply Rmult_le_compat_r; [ apply bpow_ge_0 | ].
      change (bpow radix2 53) with (IZR (2 ^ 53)). apply IZR_le. lia. }
  pose proof (binary_normalize_correct 53 1024 p64_gt_0 p64_lt_emax mode_NE m e false) as C.
  cbn zeta in C. cbn [round_mode] in C.
  rewrite (no_overflow _ (53 + e) ltac:(lia) (abs_nonneg_le _ _ P)) in C.
  destruct C as (E & F & _). unfold f64_cst. split; [ exact F | ].
  rewrite E. split; [ apply RN_nonneg; lra | ].
  pose proof (RN_le_bpow _ (53 + e) ltac:(lia) (abs_nonneg_le _ _ P)) as Q.
  rewrite Rabs_pos_eq in Q; [ exact Q | apply RN_nonneg; lra ].
Qed.

Definition E9 : Z := 1000000000.

(** the real number Duration.Seconds() rounds: whole seconds plus the rounded fraction *)
Definition g (d : Z) : R := IZR (d / E9) + RN (IZR (d mod E9) / IZR E9).

Lemma frac_le_1 r : (0 <= r < E9)%Z -> 0 <= RN (IZR r / IZR E9) <= 1.
Proof.
  intros Hr. assert (0 <= IZR r / IZR E9 <= 1).
  { unfold E9 in *. assert (0 <= IZR r <= 1000000000) by (split; apply IZR_le; lia).
    split; [ apply Rmult_le_pos; lra | ]. apply Rmult_le_reg_r with 1000000000; [ lra | ].
    unfold Rdiv. rewrite Rmult_assoc, Rinv_l by lra. lra. }
  split; [ apply RN_nonneg; lra | ].
  replace 1 with (RN (IZR 1)) by (apply RN_IZR; cbn; lia). apply RN_le. cbn. lra.
Qed.

Lemma g_mono d1 d2 : (0 <= d1 <= d2)%Z -> g d1 <= g d2.
Proof.
  intros H. unfold g.
  assert (Hq : (d1 / E9 <= d2 / E9)%Z) by (apply Z.div_le_mono; unfold E9; lia).
  pose proof (Z.mod_pos_bound d1 E9 ltac:(unfold E9; lia)) as R1.
  pose proof (Z.mod_pos_bound d2 E9 ltac:(unfold E9; lia)) as R2.
  destruct (Z.eq_dec (d1 / E9) (d2 / E9)) as [E | N].
  - rewrite E. apply Rplus_le_compat_l. apply RN_le.
    assert (d1 mod E9 <= d2 mod E9)%Z.
    { pose proof (Z.div_mod d1 E9 ltac:(unfold E9; lia)). pose proof (Z.div_mod d2 E9 ltac:(unfold E9; lia)). nia. }
    unfold Rdiv. apply Rmult_le_compat_r; [ left; apply Rinv_0_lt_compat; unfold E9; lra | apply IZR_le; assumption ].
  - pose proof (frac_le_1 _ R1). pose proof (frac_le_1 _ R2).
    assert (IZR (d1 / E9) + 1 <= IZR (d2 / E9)) by (rewrite <- plus_IZR; apply IZR_le; lia). lra.
Qed.

Lemma g_bounds d : (0 <= d < 2 ^ 62)%Z -> 0 <= g d <= bpow radix2 34.
Proof.
  intros H. unfold g.
  pose proof (Z.mod_pos_bound d E9 ltac:(unfold E9; lia)) as R1. pose proof (frac_le_1 _ R1).
  assert (0 <= d / E9 < 2 ^ 33)%Z.
  { split; [ apply Z.div_pos; unfold E9; lia | apply Z.div_lt_upper_bound; unfold E9; lia ]. }
  assert (0 <= IZR (d / E9) <= IZR (2 ^ 33)) by (split; apply IZR_le; lia).
  change (bpow radix2 34) with (IZR (2 ^ 34)).
  assert (IZR (2 ^ 33) + 1 <= IZR (2 ^ 34)) by (rewrite <- plus_IZR; apply IZR_le; lia). lra.
Qed.

Lemma duration_seconds_spec d : (0 <= d < 2 ^ 62)%Z ->
  B2R (duration_seconds d) = RN (g d) /\ bnd 35 (duration_seconds d).
Proof.
  intros H. unfold duration_seconds.
  rewrite Z.quot_div_nonneg, Z.rem_mod_nonneg by lia. fold E9.
  pose proof (Z.mod_pos_bound d E9 ltac:(unfold E9; lia)) as R1.
  assert (Q : (0 <= d / E9 < 2 ^ 33)%Z).
  { split; [ apply Z.div_pos; unfold E9; lia | apply Z.div_lt_upper_bound; unfold E9; lia ]. }
  destruct (of_Z_spec (d / E9) 34 ltac:(lia) ltac:(lia)) as [Eq Bq].
  destruct (of_Z_spec (d mod E9) 34 ltac:(unfold E9 in *; lia) ltac:(lia)) as [Er Br].
  destruct (of_Z_spec E9 34 ltac:(unfold E9; lia) ltac:(lia)) as [E9v [F9 _]].
  rewrite RN_IZR in Eq by lia. rewrite RN_IZR in Er by (unfold E9 in *; lia).
  rewrite RN_IZR in E9v by (unfold E9; lia).
  destruct (div_spec (f64_of_Z (d mod E9)) (f64_of_Z E9) 34 ltac:(lia) Br F9
              ltac:(rewrite E9v; unfold E9; lra)) as [Ed Bd].
  destruct (add_spec (f64_of_Z (d / E9)) (f64_div (f64_of_Z (d mod E9)) (f64_of_Z E9)) 34 ltac:(lia) ltac:(lia) Bq Bd)
    as [Ea Ba].
  split; [ | exact Ba ].
  rewrite Ea, Eq, Ed, Er, E9v. reflexivity.
Qed.

Lemma tps_bnd ipd : (0 <= ipd <= 2 ^ 17)%Z -> bnd 33 (ticks_per_second ipd).
Proof.
  intros H. unfold ticks_per_second.
  destruct (of_Z_spec ipd 17 ltac:(lia) ltac:(lia)) as [_ Bi].
  assert (Bc : bnd 16 c_enc_tpi).
  { unfold c_enc_tpi. change 16%Z with (53 + enc_tpi_e)%Z. apply cst_spec; unfold enc_tpi_m, enc_tpi_e; lia. }
  destruct (mul_spec _ _ 17 16 ltac:(lia) ltac:(lia) ltac:(lia) Bi Bc) as [_ B]. exact B.
Qed.

(** the product before truncation is monotone in the offset, finite and non-negative *)
Theorem enc_float_mono ipd d1 d2 : (0 <= ipd <= 2 ^ 17)%Z -> (0 <= d1 <= d2)%Z -> (d2 < 2 ^ 62)%Z ->
  0 <= B2R (enc_float ipd d1) <= B2R (enc_float ipd d2).
Proof.
  intros Hi Hd H2. unfold enc_float.
  pose proof (tps_bnd ipd Hi) as BT.
  destruct (duration_seconds_spec d1 ltac:(lia)) as [E1 B1].
  destruct (duration_seconds_spec d2 ltac:(lia)) as [E2 B2].
  destruct (mul_spec _ _ 33 35 ltac:(lia) ltac:(lia) ltac:(lia) BT B1) as [M1 [_ [P1 _]]].
  destruct (mul_spec _ _ 33 35 ltac:(lia) ltac:(lia) ltac:(lia) BT B2) as [M2 _].
  split; [ exact P1 | ]. rewrite M1, M2. apply RN_le.
  destruct BT as [_ [T0 _]]. apply Rmult_le_compat_l; [ exact T0 | ].
  rewrite E1, E2. apply RN_le. apply g_mono. lia.
Qed.

Definition enc_raw (ipd d : Z) : Z := f64_trunc (enc_float ipd d).

Theorem enc_raw_mono ipd d1 d2 : (0 <= ipd <= 2 ^ 17)%Z -> (0 <= d1 <= d2)%Z -> (d2 < 2 ^ 62)%Z ->
  (0 <= enc_raw ipd d1 <= enc_raw ipd d2)%Z.
Proof.
  intros Hi Hd H2. unfold enc_raw. rewrite !trunc_spec.
  destruct (enc_float_mono ipd d1 d2 Hi Hd H2) as [P L]. split.
  - rewrite <- (Ztrunc_IZR 0) at 1. apply Ztrunc_le. exact P.
  - apply Ztrunc_le. exact L.
Qed.

(** the last offset of every on-disk timeframe's interval still encodes below 2^32 (evaluated) *)
Lemma enc_raw_last : forallb (fun ipd => enc_raw ipd (interval_ns ipd - 1) <=? 4294967295)%Z ipds = true.
Proof. vm_compute. reflexivity. Qed.

Open Scope Z_scope.

Lemma ipds_range ipd : In ipd ipds -> 1 <= ipd <= 2 ^ 17 /\ 0 < interval_ns ipd < 2 ^ 62.
Proof.
  unfold ipds. cbn [In]. intros H.
  repeat (destruct H as [<- | H]; [ split; [ lia | vm_compute; split; reflexivity ] | ]). contradiction.
Qed.

(** C10, order: GetIntervalTicks32Bit is monotone in the offset and stays below 2^32 *)
Theorem enc_mono ipd d1 d2 : In ipd ipds -> 0 <= d1 <= d2 -> d2 < interval_ns ipd ->
  0 <= enc ipd d1 <= enc ipd d2 /\ enc ipd d2 <= 4294967295.
Proof.
  intros Hin Hd H2. destruct (ipds_range ipd Hin) as [Hi Hn].
  pose proof enc_raw_last as L. rewrite forallb_forall in L. specialize (L ipd Hin). apply Z.leb_le in L.
  destruct (enc_raw_mono ipd d1 d2 ltac:(lia) Hd ltac:(lia)) as [P12 L12].
  destruct (enc_raw_mono ipd d2 (interval_ns ipd - 1) ltac:(lia) ltac:(lia) ltac:(lia)) as [_ L2].
  assert (W : forall v, 0 <= v <= 4294967295 -> wrap U32 (wrap I64 v) = v).
  { intros v Hv. rewrite (wrap_small I64), (wrap_small U32); [ reflexivity | | ];
      unfold in_ity, ity_min, ity_max; cbn [ity_signed ity_bits]; norm_pows; lia. }
  unfold enc. fold (enc_raw ipd d1). fold (enc_raw ipd d2). rewrite !W by lia. lia.
Qed.
