(** Proofs about Model/Dispatch.v: the matcher computes the regexp language; every flushed record reaches
    every matching trigger exactly once (per flush, per history, per interleaving of the LTS). *)
From Coq Require Import ZArith NArith List Bool Lia Permutation Arith.
From Coq.Strings Require Import Byte.
Import ListNotations.
Require Import MS.Base.Hex MS.Model.Dispatch.

(** * 1. match_here / match_search compute [lang] *)
Lemma byte_eqb_true a b : Byte.eqb a b = true <-> a = b.
Proof. split; [apply Byte.byte_dec_bl | intros ->; apply Byte.byte_dec_lb; reflexivity]. Qed.
Lemma byte_eqb_false a b : Byte.eqb a b = false <-> a <> b.
Proof.
  split.
  - intros H E. apply byte_eqb_true in E. congruence.
  - intros H. destruct (Byte.eqb a b) eqn:E; [apply byte_eqb_true in E; contradiction | reflexivity].
Qed.

Definition star_loop (p' : list tok) :=
  fix star (s : list byte) : bool :=
    match s with
    | [] => false
    | c :: s' => negb (Byte.eqb c slash) && (match_here p' s' || star s')
    end.

Lemma match_here_star p' s : match_here (Star :: p') s = star_loop p' s.
Proof. reflexivity. Qed.

Lemma star_loop_sound p' :
  (forall s, match_here p' s = true -> exists w post, s = w ++ post /\ lang p' w) ->
  forall s, star_loop p' s = true -> exists w post, s = w ++ post /\ lang (Star :: p') w.
Proof.
  intros IH s. induction s as [|c s IHs]; cbn; [discriminate|].
  intros H. apply andb_prop in H as [Hc H]. apply negb_true_iff, byte_eqb_false in Hc.
  apply orb_prop in H as [H|H].
  - destruct (IH _ H) as (w & post & -> & Hl). exists ([c] ++ w), post. split; [reflexivity|].
    apply L_star; [discriminate | constructor; [exact Hc | constructor] | exact Hl].
  - destruct (IHs H) as (w & post & -> & Hl). inversion Hl; subst.
    exists ((c :: u) ++ w0), post. split; [reflexivity|].
    apply L_star; [discriminate | constructor; assumption | assumption].
Qed.

Lemma star_loop_complete p' :
  (forall w post, lang p' w -> match_here p' (w ++ post) = true) ->
  forall u w post, u <> [] -> Forall (fun c => c <> slash) u -> lang p' w ->
    star_loop p' ((u ++ w) ++ post) = true.
Proof.
  intros IH u. induction u as [|c u IHu]; intros w post Hne Hall Hl; [contradiction|].
  inversion Hall; subst. cbn. apply andb_true_intro. split.
  - apply negb_true_iff, byte_eqb_false. assumption.
  - destruct u as [|c' u'].
    + cbn. rewrite (IH _ post Hl). reflexivity.
    + apply orb_true_intro. right. apply IHu; [discriminate | assumption | assumption].
Qed.

Lemma match_here_sound p : forall s, match_here p s = true -> exists w post, s = w ++ post /\ lang p w.
Proof.
  induction p as [|t p IH]; intros s H.
  - exists [], s. split; [reflexivity | constructor].
  - destruct t.
    + destruct s as [|c s]; cbn in H; [discriminate|]. apply andb_prop in H as [Hb H].
      apply byte_eqb_true in Hb; subst. destruct (IH _ H) as (w & post & -> & Hl).
      exists (c :: w), post. split; [reflexivity | constructor; assumption].
    + destruct s as [|c s]; cbn in H; [discriminate|]. apply andb_prop in H as [Hb H].
      apply negb_true_iff, byte_eqb_false in Hb. destruct (IH _ H) as (w & post & -> & Hl).
      exists (c :: w), post. split; [reflexivity | constructor; assumption].
    + rewrite match_here_star in H. apply (star_loop_sound p IH s H).
Qed.

Lemma match_here_complete p : forall w post, lang p w -> match_here p (w ++ post) = true.
Proof.
  induction p as [|t p IH]; intros w post Hl.
  - reflexivity.
  - inversion Hl; subst.
    + cbn. rewrite (Byte.byte_dec_lb eq_refl). cbn. apply IH. assumption.
    + cbn. apply andb_true_intro. split; [apply negb_true_iff, byte_eqb_false; assumption | apply IH; assumption].
    + rewrite match_here_star. apply star_loop_complete; assumption.
Qed.

Lemma match_here_spec p s : match_here p s = true <-> exists w post, s = w ++ post /\ lang p w.
Proof.
  split; [apply match_here_sound|]. intros (w & post & -> & Hl). apply match_here_complete. assumption.
Qed.

Lemma match_search_unfold p s :
  match_search p s = match_here p s || match s with [] => false | _ :: s' => match_search p s' end.
Proof. destruct s; reflexivity. Qed.

Lemma match_search_spec p s : match_search p s = true <-> Matches p s.
Proof.
  unfold Matches. induction s as [|c s IH].
  - rewrite match_search_unfold, orb_false_r, match_here_spec. split.
    + intros (w & post & E & Hl). exists [], w, post. split; [exact E | exact Hl].
    + intros (pre & w & post & E & Hl). destruct pre; [|discriminate]. exists w, post. split; assumption.
  - rewrite match_search_unfold. split.
    + intros H. apply orb_prop in H as [H|H].
      * apply match_here_spec in H as (w & post & E & Hl). exists [], w, post. split; assumption.
      * apply IH in H as (pre & w & post & E & Hl). exists (c :: pre), w, post. split; [cbn; congruence | assumption].
    + intros (pre & w & post & E & Hl). apply orb_true_intro. destruct pre as [|c' pre].
      * left. apply match_here_spec. exists w, post. split; assumption.
      * right. apply IH. cbn in E. injection E as -> E. exists pre, w, post. split; assumption.
Qed.

(** the match is unanchored: whatever surrounds a matching key still matches *)
Lemma match_search_unanchored p k pre post :
  match_search p k = true -> match_search p (pre ++ k ++ post) = true.
Proof.
  rewrite !match_search_spec. intros (a & w & b & -> & Hl).
  exists (pre ++ a), w, (b ++ post). split; [|assumption]. now rewrite <- !app_assoc.
Qed.

(** * 2. key/value view of a map, stable under the code's regroupings *)
Definition kv {T} (m : smap T) : list (key * T) := flat_map (fun e => map (pair (fst e)) (snd e)) m.

Lemma kv_app {T} (a b : smap T) : kv (a ++ b) = kv a ++ kv b.
Proof. unfold kv. apply flat_map_app. Qed.

Lemma kv_perm {T} (a b : smap T) : Permutation a b -> Permutation (kv a) (kv b).
Proof. intros H. unfold kv. apply Permutation_flat_map. assumption. Qed.

Lemma kv_map_append {T} (m : smap T) k r : Permutation (kv (map_append m k r)) (kv m ++ [(k, r)]).
Proof.
  induction m as [|[k' rs] m IH]; cbn.
  - reflexivity.
  - destruct (bytes_eqb k k') eqn:E.
    + apply bytes_eqb_eq in E; subst. cbn. rewrite map_app. cbn.
      rewrite <- !app_assoc. apply Permutation_app_head. cbn.
      apply Permutation_cons_append.
    + cbn. rewrite <- app_assoc. apply Permutation_app_head. exact IH.
Qed.

Definition ckr (c : cmd) : key * rec := (c_key c, c_rec c).

Lemma kv_fold_cmds cmds : forall m,
  Permutation (kv (fold_left (fun m c => map_append m (c_key c) (c_rec c)) cmds m)) (kv m ++ map ckr cmds).
Proof.
  induction cmds as [|c cmds IH]; intros m; cbn [fold_left map].
  - rewrite app_nil_r. reflexivity.
  - eapply perm_trans; [apply IH|]. rewrite kv_map_append, <- app_assoc. reflexivity.
Qed.

Lemma kv_writes_per_file cmds : Permutation (kv (writes_per_file cmds)) (map ckr cmds).
Proof. unfold writes_per_file. rewrite kv_fold_cmds. reflexivity. Qed.

Lemma kv_fold_recs k rs : forall m : smap rec,
  Permutation (kv (fold_left (fun m r => append_record m k r) rs m)) (kv m ++ map (pair k) rs).
Proof.
  induction rs as [|r rs IH]; intros m; cbn [fold_left map].
  - rewrite app_nil_r. reflexivity.
  - eapply perm_trans; [apply IH|]. unfold append_record. rewrite kv_map_append, <- app_assoc. reflexivity.
Qed.

Lemma kv_flush_m wpf : forall m0, Permutation (kv (flush_m wpf m0)) (kv m0 ++ kv wpf).
Proof.
  unfold flush_m. induction wpf as [|[k rs] wpf IH]; intros m0; cbn [fold_left fst snd].
  - cbn. rewrite app_nil_r. reflexivity.
  - eapply perm_trans; [apply IH|]. rewrite kv_fold_recs, <- app_assoc. reflexivity.
Qed.

Lemma flush_ok_kv cmds ord1 ord2 : flush_ok cmds ord1 ord2 -> Permutation (kv ord2) (map ckr cmds).
Proof.
  intros [H1 H2]. rewrite (kv_perm _ _ H2), kv_flush_m. cbn.
  rewrite (kv_perm _ _ H1). apply kv_writes_per_file.
Qed.

Lemma flush_det_ok cmds : flush_ok cmds (writes_per_file cmds) (flush_det cmds).
Proof. split; reflexivity. Qed.

(** * 3. the dispatcher's Match loop *)
Definition ev_kv (trigs : list (list tok)) (kr : key * rec) : list event :=
  map (fun t => (t, fst kr, snd kr)) (matching trigs (fst kr)).

Lemma run_from_matching trigs : forall i wr,
  run_from i trigs wr = map (fun t => mkfire t (fst wr) (snd wr)) (matching_from i trigs (fst wr)).
Proof.
  induction trigs as [|p r IH]; intros i wr; cbn; [reflexivity|].
  rewrite map_app, IH. destruct (match_search p (fst wr)); reflexivity.
Qed.

Lemma events_app a b : events (a ++ b) = events a ++ events b.
Proof. unfold events. apply flat_map_app. Qed.

Lemma flat_map_swap {A B C} (f : A -> B -> C) (la : list A) (lb : list B) :
  Permutation (flat_map (fun a => map (fun b => f a b) lb) la)
              (flat_map (fun b => map (fun a => f a b) la) lb).
Proof.
  induction la as [|a la IH]; cbn.
  - induction lb; cbn; [reflexivity | assumption].
  - rewrite IH. clear IH. induction lb as [|b lb IH]; cbn; [reflexivity|].
    constructor. rewrite <- IH.
    rewrite !app_assoc. apply Permutation_app_tail. apply Permutation_app_comm.
Qed.

Lemma events_run_entry trigs k rs :
  Permutation (events (run_entry trigs (k, rs))) (flat_map (ev_kv trigs) (map (pair k) rs)).
Proof.
  unfold run_entry. rewrite run_from_matching. cbn [fst snd].
  assert (A : forall ts, events (map (fun t => mkfire t k rs) ts) = flat_map (fun t => map (fun r => (t, k, r)) rs) ts).
  { induction ts as [|t ts IH]; [reflexivity|]. cbn [map]. change (events (?x :: ?l)) with (fire_events x ++ events l).
    rewrite IH. reflexivity. }
  assert (B : forall l, flat_map (ev_kv trigs) (map (pair k) l) = flat_map (fun r => map (fun t => (t, k, r)) (matching trigs k)) l).
  { induction l as [|r l IH]; [reflexivity|]. cbn [map flat_map]. rewrite IH. reflexivity. }
  rewrite A, B. apply (flat_map_swap (fun t r => (t, k, r))).
Qed.

Lemma events_fired_of_msgs trigs msgs :
  Permutation (events (fired_of_msgs trigs msgs)) (flat_map (ev_kv trigs) (kv msgs)).
Proof.
  unfold fired_of_msgs. induction msgs as [|[k rs] msgs IH]; cbn; [reflexivity|].
  rewrite events_app, flat_map_app. apply Permutation_app; [apply events_run_entry | exact IH].
Qed.

Lemma spec_events_kv trigs cmds : spec_events trigs cmds = flat_map (ev_kv trigs) (map ckr cmds).
Proof.
  unfold spec_events. rewrite (flat_map_concat_map (ev_kv trigs)), map_map, <- flat_map_concat_map. reflexivity.
Qed.

Lemma spec_events_app trigs a b : spec_events trigs (a ++ b) = spec_events trigs a ++ spec_events trigs b.
Proof. unfold spec_events. apply flat_map_app. Qed.

Lemma spec_events_perm trigs a b : Permutation a b -> Permutation (spec_events trigs a) (spec_events trigs b).
Proof. intros H. unfold spec_events. apply Permutation_flat_map. assumption. Qed.

(** * 4. one flush, then a history of flushes *)
Theorem flush_exactly_once trigs cmds ord1 ord2 :
  flush_ok cmds ord1 ord2 ->
  Permutation (events (fired_of_msgs trigs (flush_msgs ord2))) (spec_events trigs cmds).
Proof.
  intros H. unfold flush_msgs. rewrite events_fired_of_msgs, spec_events_kv.
  apply Permutation_flat_map. apply (flush_ok_kv _ _ _ H).
Qed.

(** a history: the i-th flush takes the commands [nth i flushes] and puts [nth i msgss] on tpd.c, for
    some admissible choice of the two map orders *)
Definition history_ok (flushes : list (list cmd)) (msgss : list (list wrecs)) : Prop :=
  Forall2 (fun cmds ord2 => exists ord1, flush_ok cmds ord1 ord2) flushes msgss.

Theorem history_exactly_once trigs flushes msgss fired :
  history_ok flushes msgss ->
  Permutation fired (flat_map (fired_of_msgs trigs) msgss) ->      (* fire goroutines complete in any order *)
  Permutation (events fired) (spec_events trigs (concat flushes)).
Proof.
  intros H Hp. unfold events at 1. rewrite (Permutation_flat_map fire_events Hp). fold (events (flat_map (fired_of_msgs trigs) msgss)).
  clear Hp fired. induction H as [|cmds ord2 flushes msgss (ord1 & Hf) _ IH]; cbn [flat_map concat]; [reflexivity|].
  rewrite events_app, spec_events_app. apply Permutation_app; [|exact IH].
  apply (flush_exactly_once trigs cmds ord1 ord2 Hf).
Qed.

Lemma history_det_ok flushes : history_ok flushes (map flush_det flushes).
Proof.
  induction flushes; cbn; constructor; [|assumption]. eexists. apply flush_det_ok.
Qed.

Lemma fired_det_eq trigs flushes : fired_det trigs flushes = flat_map (fired_of_msgs trigs) (map flush_det flushes).
Proof. unfold fired_det. rewrite (flat_map_concat_map _ (map _ _)), map_map, <- flat_map_concat_map. reflexivity. Qed.

(** * 5. "exactly once" as multiplicities *)
Definition trig_matches (trigs : list (list tok)) (t : nat) (k : key) : bool :=
  match nth_error trigs t with Some p => match_search p k | None => false end.

Lemma matching_from_In trigs : forall i t k,
  In t (matching_from i trigs k) <-> (i <= t /\ trig_matches trigs (t - i) k = true).
Proof.
  induction trigs as [|p r IH]; intros i t k; cbn.
  - unfold trig_matches. destruct (t - i); cbn; split; [tauto | intros [_ H]; discriminate | tauto | intros [_ H]; discriminate].
  - rewrite in_app_iff, IH. unfold trig_matches. split.
    + intros [H|[H1 H2]].
      * destruct (match_search p k) eqn:E; [|contradiction]. destruct H as [<-|[]].
        rewrite Nat.sub_diag. cbn. split; [lia | exact E].
      * split; [lia|]. replace (t - i) with (S (t - S i)) by lia. exact H2.
    + intros [H1 H2]. destruct (Nat.eq_dec t i) as [->|Hne].
      * left. rewrite Nat.sub_diag in H2. cbn in H2. rewrite H2. left. reflexivity.
      * right. split; [lia|]. replace (t - i) with (S (t - S i)) in H2 by lia. exact H2.
Qed.

Lemma matching_In trigs t k : In t (matching trigs k) <-> trig_matches trigs t k = true.
Proof. unfold matching. rewrite matching_from_In, Nat.sub_0_r. split; [tauto | intros; split; [lia | assumption]]. Qed.

Lemma matching_from_NoDup trigs : forall i k, NoDup (matching_from i trigs k).
Proof.
  induction trigs as [|p r IH]; intros i k; cbn; [constructor|].
  destruct (match_search p k); cbn; [|apply IH].
  constructor; [|apply IH]. rewrite matching_from_In. lia.
Qed.

Lemma count_occ_matching trigs t k :
  count_occ Nat.eq_dec (matching trigs k) t = if trig_matches trigs t k then 1 else 0.
Proof.
  destruct (trig_matches trigs t k) eqn:E.
  - apply NoDup_count_occ'; [apply matching_from_NoDup | apply matching_In; assumption].
  - apply count_occ_not_In. rewrite matching_In. congruence.
Qed.

Definition kr_eq_dec (a b : key * rec) : {a = b} + {a <> b}.
Proof. decide equality; [apply rec_eq_dec | apply (list_eq_dec Byte.byte_eq_dec)]. Defined.

Lemma count_occ_ev_kv trigs kr t k r :
  count_occ event_eq_dec (ev_kv trigs kr) (t, k, r) =
  if kr_eq_dec kr (k, r) then (if trig_matches trigs t k then 1 else 0) else 0.
Proof.
  unfold ev_kv. destruct kr as [k' r']. cbn [fst snd]. destruct (kr_eq_dec (k', r') (k, r)) as [E|NE].
  - injection E as -> ->. rewrite <- count_occ_matching.
    generalize (matching trigs k). intros l. induction l as [|a l IH]; [reflexivity|]. cbn [map].
    destruct (Nat.eq_dec a t) as [->|NE2].
    + rewrite !count_occ_cons_eq by reflexivity. f_equal. exact IH.
    + rewrite !count_occ_cons_neq by congruence. exact IH.
  - apply count_occ_not_In. rewrite in_map_iff. intros (a & E & _). apply NE. congruence.
Qed.

Lemma count_occ_flat_ev_kv trigs l t k r :
  count_occ event_eq_dec (flat_map (ev_kv trigs) l) (t, k, r) =
  if trig_matches trigs t k then count_occ kr_eq_dec l (k, r) else 0.
Proof.
  induction l as [|kr l IH]; cbn.
  - destruct (trig_matches trigs t k); reflexivity.
  - rewrite count_occ_app, IH, count_occ_ev_kv.
    destruct (kr_eq_dec kr (k, r)); destruct (trig_matches trigs t k); lia.
Qed.

(** every (trigger, key, index, payload) is seen as many times as (key, index, payload) was written in
    the flushed transaction groups if the trigger's pattern matches the key, and never otherwise *)
Theorem history_multiplicity trigs flushes msgss fired :
  history_ok flushes msgss ->
  Permutation fired (flat_map (fired_of_msgs trigs) msgss) ->
  forall t k r,
    count_occ event_eq_dec (events fired) (t, k, r) =
    if trig_matches trigs t k then count_occ kr_eq_dec (map ckr (concat flushes)) (k, r) else 0.
Proof.
  intros H Hp t k r.
  pose proof (history_exactly_once trigs flushes msgss fired H Hp) as HP.
  rewrite (proj1 (Permutation_count_occ event_eq_dec _ _) HP (t, k, r)).
  rewrite spec_events_kv. apply count_occ_flat_ev_kv.
Qed.

Corollary history_no_foreign trigs flushes msgss fired :
  history_ok flushes msgss ->
  Permutation fired (flat_map (fired_of_msgs trigs) msgss) ->
  forall t k r, In (t, k, r) (events fired) ->
    trig_matches trigs t k = true /\ In (k, r) (map ckr (concat flushes)).
Proof.
  intros H Hp t k r Hin.
  apply (count_occ_In event_eq_dec) in Hin.
  rewrite (history_multiplicity trigs flushes msgss fired H Hp) in Hin.
  destruct (trig_matches trigs t k); [|lia]. split; [reflexivity|].
  apply (count_occ_In kr_eq_dec). exact Hin.
Qed.

(** * 6. all interleavings of the background-mode LTS *)
Definition pending (trigs : list (list tok)) (s : sys) : list event :=
  events (s_fired s) ++ events (s_launched s) ++ flat_map (ev_kv trigs) (kv (s_c s))
  ++ spec_events trigs (s_q s) ++ spec_events trigs (concat (s_writers s)).

Lemma concat_set_nth (ws : list (list cmd)) : forall i c rest,
  nth_error ws i = Some (c :: rest) -> Permutation (concat ws) (c :: concat (set_nth ws i rest)).
Proof.
  induction ws as [|w ws IH]; intros i c rest H.
  - destruct i; discriminate.
  - destruct i as [|i]; cbn in H.
    + injection H as ->. cbn. reflexivity.
    + cbn. rewrite (IH _ _ _ H). symmetry. apply Permutation_middle.
Qed.

Lemma step_pending trigs s s' : step trigs s s' -> Permutation (pending trigs s) (pending trigs s').
Proof.
  intros H. destruct H; unfold pending; cbn [s_writers s_q s_c s_launched s_fired].
  - (* queue *)
    do 3 apply Permutation_app_head.
    rewrite spec_events_app, <- app_assoc. apply Permutation_app_head.
    rewrite (spec_events_perm trigs _ _ (concat_set_nth _ _ _ _ H)).
    change (c :: concat (set_nth (s_writers s) i rest)) with ([c] ++ concat (set_nth (s_writers s) i rest)).
    rewrite spec_events_app. reflexivity.
  - (* flush *)
    do 2 apply Permutation_app_head. unfold flush_msgs. rewrite H, kv_app, flat_map_app, spec_events_app, <- !app_assoc.
    apply Permutation_app_head. apply Permutation_app; [|reflexivity].
    rewrite (Permutation_flat_map (ev_kv trigs) (flush_ok_kv _ _ _ H1)), <- spec_events_kv. reflexivity.
  - (* dispatch *)
    apply Permutation_app_head. rewrite H, events_app, <- app_assoc. apply Permutation_app_head.
    destruct wr as [k rs]. cbn [kv flat_map fst snd]. rewrite flat_map_app, !app_assoc.
    do 3 apply Permutation_app_tail. symmetry. apply events_run_entry.
  - (* fire *)
    rewrite H, !events_app. cbn [events flat_map]. rewrite app_nil_r, <- !app_assoc.
    apply Permutation_app_head. rewrite !app_assoc. do 3 apply Permutation_app_tail.
    fold (events l1) (events l2). rewrite <- !app_assoc.
    rewrite (Permutation_app_comm (events l1) (fire_events f ++ events l2)), <- app_assoc.
    apply Permutation_app_head. apply Permutation_app_comm.
Qed.

Lemma steps_pending trigs s s' : steps trigs s s' -> Permutation (pending trigs s) (pending trigs s').
Proof. induction 1; [reflexivity|]. rewrite (step_pending _ _ _ H). assumption. Qed.

Lemma concat_all_nil {A} (l : list (list A)) : Forall (fun w => w = []) l -> concat l = [].
Proof. induction 1; cbn; [reflexivity | subst; assumption]. Qed.

Theorem lts_exactly_once trigs writers s :
  steps trigs (init_sys writers) s -> quiescent s ->
  Permutation (events (s_fired s)) (spec_events trigs (concat writers)).
Proof.
  intros Hs (Hw & Hq & Hc & Hl). apply steps_pending in Hs. unfold pending, init_sys in Hs.
  cbn [s_writers s_q s_c s_launched s_fired] in Hs. rewrite Hq, Hc, Hl, (concat_all_nil _ Hw) in Hs.
  cbn in Hs. rewrite !app_nil_r in Hs. symmetry. exact Hs.
Qed.

(** safety at EVERY reachable state (not only at quiescence): nothing is ever fired that was not
    written to a bucket the trigger matches, and never more often than written *)
Theorem lts_never_too_much trigs writers s :
  steps trigs (init_sys writers) s ->
  forall t k r,
    count_occ event_eq_dec (events (s_fired s)) (t, k, r) <=
    if trig_matches trigs t k then count_occ kr_eq_dec (map ckr (concat writers)) (k, r) else 0.
Proof.
  intros Hs t k r. apply steps_pending in Hs.
  pose proof (proj1 (Permutation_count_occ event_eq_dec _ _) Hs (t, k, r)) as Hc. clear Hs.
  assert (E : pending trigs (init_sys writers) = spec_events trigs (concat writers)) by reflexivity.
  rewrite E, spec_events_kv, count_occ_flat_ev_kv in Hc. rewrite Hc. unfold pending.
  rewrite count_occ_app. lia.
Qed.

(** progress: a state that is not quiescent can always take a step (no deadlock) *)
Theorem lts_progress trigs s : quiescent s \/ exists s', step trigs s s'.
Proof.
  destruct (s_launched s) as [|f l] eqn:El.
  2:{ right. eexists. apply (St_fire trigs s [] f l). exact El. }
  destruct (s_c s) as [|wr c] eqn:Ec.
  2:{ right. eexists. apply (St_dispatch trigs s wr c). exact Ec. }
  destruct (s_q s) as [|c q] eqn:Eq.
  2:{ right. eexists. apply (St_flush trigs s (c :: q) [] (writes_per_file (c :: q)) (flush_det (c :: q))).
      - rewrite app_nil_r. exact Eq.
      - discriminate.
      - apply flush_det_ok. }
  assert (H : Forall (fun w => w = []) (s_writers s) \/ exists i c rest, nth_error (s_writers s) i = Some (c :: rest)).
  { induction (s_writers s) as [|w ws IH].
    - left. constructor.
    - destruct w as [|c rest].
      + destruct IH as [IH|(i & c & rest & IH)]; [left; constructor; auto | right; exists (S i), c, rest; exact IH].
      + right. exists 0, c, rest. reflexivity. }
  destruct H as [H|(i & c & rest & H)].
  - left. repeat split; assumption.
  - right. eexists. apply (St_queue trigs s i c rest H).
Qed.

(** termination: every step strictly decreases a natural-number measure, so every execution is finite;
    together with [lts_progress] every maximal execution ends in a quiescent state, whatever the
    scheduler does (no fairness assumption is needed) *)
Lemma length_map_append {T} (m : smap T) k r : length (map_append m k r) <= S (length m).
Proof.
  induction m as [|[k' rs] m IH]; cbn; [lia|]. destruct (bytes_eqb k k'); cbn; lia.
Qed.

Lemma length_fold_cmds cmds : forall m : smap rec,
  length (fold_left (fun m c => map_append m (c_key c) (c_rec c)) cmds m) <= length m + length cmds.
Proof.
  induction cmds as [|c cmds IH]; intros m; cbn [fold_left length]; [lia|].
  specialize (IH (map_append m (c_key c) (c_rec c))). pose proof (length_map_append m (c_key c) (c_rec c)). lia.
Qed.

Lemma length_fold_recs k rs : forall m : smap rec,
  length (fold_left (fun m r => append_record m k r) rs m) <= length m + length rs.
Proof.
  induction rs as [|r rs IH]; intros m; cbn [fold_left length]; [lia|].
  specialize (IH (append_record m k r)). pose proof (length_map_append m k r). unfold append_record in *. lia.
Qed.

Lemma length_flush_m wpf : forall m0, length (flush_m wpf m0) <= length m0 + length (kv wpf).
Proof.
  unfold flush_m. induction wpf as [|[k rs] wpf IH]; intros m0; cbn [fold_left fst snd]; [cbn; lia|].
  specialize (IH (fold_left (fun m r => append_record m k r) rs m0)).
  pose proof (length_fold_recs k rs m0). cbn [kv flat_map fst snd]. rewrite app_length, map_length.
  fold (kv wpf). lia.
Qed.

Lemma flush_ok_length cmds ord1 ord2 : flush_ok cmds ord1 ord2 -> length ord2 <= length cmds.
Proof.
  intros [H1 H2]. rewrite (Permutation_length H2).
  pose proof (length_flush_m ord1 []) as L. cbn [length] in L.
  rewrite (Permutation_length (kv_perm _ _ H1)), (Permutation_length (kv_writes_per_file cmds)), map_length in L. lia.
Qed.

Lemma length_run_from trigs : forall i wr, length (run_from i trigs wr) <= length trigs.
Proof.
  induction trigs as [|p r IH]; intros i wr; cbn; [lia|]. rewrite app_length. specialize (IH (S i) wr).
  destruct (match_search p (fst wr)); cbn; lia.
Qed.

Definition measure (trigs : list (list tok)) (s : sys) : nat :=
  let T := length trigs in
  (T + 4) * length (concat (s_writers s)) + (T + 3) * length (s_q s) + (T + 1) * length (s_c s) + length (s_launched s).

Lemma step_measure trigs s s' : step trigs s s' -> measure trigs s' < measure trigs s.
Proof.
  intros H. destruct H; unfold measure; cbn [s_writers s_q s_c s_launched s_fired].
  - rewrite (Permutation_length (concat_set_nth _ _ _ _ H)), app_length. cbn [length]. nia.
  - rewrite H, !app_length. unfold flush_msgs. pose proof (flush_ok_length _ _ _ H1).
    assert (1 <= length taken) by (destruct taken; [contradiction | cbn; lia]). nia.
  - rewrite H, app_length. cbn [length]. pose proof (length_run_from trigs 0 wr). unfold run_entry. nia.
  - rewrite H, !app_length. cbn [length]. nia.
Qed.

Theorem lts_terminates trigs : well_founded (fun s' s => step trigs s s').
Proof.
  apply (well_founded_lt_compat _ (measure trigs)). intros s' s H. apply step_measure. exact H.
Qed.

(** consequently a quiescent state is reachable from every state *)
Theorem lts_reaches_quiescence trigs s : exists s', steps trigs s s' /\ quiescent s'.
Proof.
  induction s as [s IH] using (well_founded_induction (lts_terminates trigs)).
  destruct (lts_progress trigs s) as [Hq|(s1 & Hs)].
  - exists s. split; [constructor | exact Hq].
  - destruct (IH s1 Hs) as (s2 & Hss & Hq). exists s2. split; [econstructor; eassumption | exact Hq].
Qed.

(** * 7. synchronous mode with writing triggers (flushes serialised by syncFlushMu) *)
Section SyncFacts.
  Variable trigs : list (list tok).
  Variable react : nat -> wrecs -> list cmd.

  Definition spending (s : ssys) : list event := events (y_fired s) ++ flat_map (ev_kv trigs) (kv (y_c s)).

  Lemma sstep_inv s s' : sstep trigs react s s' ->
    Permutation (spending s) (spec_events trigs (y_appended s)) ->
    Permutation (spending s') (spec_events trigs (y_appended s')).
  Proof.
    intros H Inv. destruct H; unfold spending in *; cbn [y_c y_threads y_fired y_appended].
    - unfold flush_msgs. rewrite kv_app, flat_map_app, spec_events_app, app_assoc. apply Permutation_app; [exact Inv|].
      rewrite (Permutation_flat_map (ev_kv trigs) (flush_ok_kv _ _ _ H1)), <- spec_events_kv. reflexivity.
    - rewrite <- Inv, H, events_app, <- app_assoc. apply Permutation_app_head.
      destruct wr as [k rs]. cbn [kv flat_map fst snd]. rewrite flat_map_app. apply Permutation_app_tail.
      apply events_run_entry.
  Qed.

  Lemma ssteps_inv s s' : ssteps trigs react s s' ->
    Permutation (spending s) (spec_events trigs (y_appended s)) ->
    Permutation (spending s') (spec_events trigs (y_appended s')).
  Proof. induction 1; intros Inv; [exact Inv|]. apply IHssteps. apply (sstep_inv _ _ H Inv). Qed.

  (** at every reachable state: what has been delivered plus what waits on tpd.c is exactly the specification for
      everything passed to AppendRecord so far (by callers and by writing triggers alike) *)
  Theorem sync_invariant callers s : ssteps trigs react (sinit callers) s ->
    Permutation (events (y_fired s) ++ flat_map (ev_kv trigs) (kv (y_c s))) (spec_events trigs (y_appended s)).
  Proof. intros H. apply (ssteps_inv _ _ H). cbn. reflexivity. Qed.

  (** hence nothing is ever delivered more often than it was appended, nor to a non-matching trigger *)
  Theorem sync_never_too_much callers s : ssteps trigs react (sinit callers) s ->
    forall t k r,
      count_occ event_eq_dec (events (y_fired s)) (t, k, r) <=
      if trig_matches trigs t k then count_occ kr_eq_dec (map ckr (y_appended s)) (k, r) else 0.
  Proof.
    intros H t k r. pose proof (sync_invariant callers s H) as P.
    pose proof (proj1 (Permutation_count_occ event_eq_dec _ _) P (t, k, r)) as Hc.
    rewrite spec_events_kv, count_occ_flat_ev_kv, count_occ_app in Hc. lia.
  Qed.

  (** and once tpd.c is drained, exactly as often *)
  Theorem sync_exactly_once callers s : ssteps trigs react (sinit callers) s -> y_c s = [] ->
    Permutation (events (y_fired s)) (spec_events trigs (y_appended s)).
  Proof. intros H Hc. pose proof (sync_invariant callers s H) as P. rewrite Hc in P. cbn in P. rewrite app_nil_r in P. exact P. Qed.
End SyncFacts.
