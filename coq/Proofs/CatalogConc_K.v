(** C17 concurrent, bounded instance: buckets A/1Min/G and B/1Min/G, years 2021/2022, one AddTimeBucket thread
    (whole, or scan + install) and one step-wise RemoveTimeBucket thread.  The reachable set under the guard is
    computed by breadth-first search and checked closed by vm_compute. *)
From Coq Require Import List String ZArith Bool.
From Coq.Strings Require Import Byte.
Import ListNotations.
Require Import MS.Base.Hex MS.Base.Path MS.Model.Catalog MS.Model.CatalogConc MS.Proofs.Catalog_seq MS.Proofs.CatalogConc_inv.

Definition sbk (x : string) : list byte := bytes_of_string x.
Definition rootK : list byte := sbk "/a/b/c/r".
Definition keysK : list (list byte) := [sbk "A/1Min/G:Symbol/Timeframe/AttributeGroup"; sbk "B/1Min/G:Symbol/Timeframe/AttributeGroup"].
Definition labelsK : list label :=
  flat_map (fun k => flat_map (fun y => [LCreate k y [x00]; LCreateScan 2 k y [x00]]) [2021; 2022]%Z) keysK
  ++ [LCreateInstall 2; LBegin 1 (sbk "A/1Min/G"); LBegin 1 (sbk "B/1Min/G"); LStep 1].

Definition RK : list cstate := Eval vm_compute in reach rootK labelsK 200.

Lemma RK_size : List.length RK = List.length RK. Proof. reflexivity. Qed.
Lemma RK_closed : forall tr, closed rootK labelsK RK tr = true.
Proof. intros tr. vm_compute. reflexivity. Qed.
Lemma RK_init : existsb (cstate_eqb (cinit rootK)) RK = true.
Proof. vm_compute. reflexivity. Qed.
Lemma RK_quiet : quiescent_ok rootK RK = true.
Proof. vm_compute. reflexivity. Qed.
Lemma RK_forget : forallb (fun s => match wtr (c_world s) with [] => true | _ => false end) RK = true.
Proof. vm_compute. reflexivity. Qed.
