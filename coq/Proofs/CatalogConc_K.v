(** C17 concurrent, bounded alphabet: buckets A/1Min/G, A/5Min/G (same symbol) and B/1Min/G, year 2021, one
    AddTimeBucket thread (whole calls, or scan + install) and two step-wise RemoveTimeBucket threads.  The reachable
    set of the model (with the root lock) is computed by breadth-first search and checked closed by vm_compute. *)
From Coq Require Import List String ZArith Bool.
From Coq.Strings Require Import Byte.
Import ListNotations.
Require Import MS.Base.Hex MS.Base.Path MS.Model.Catalog MS.Model.CatalogConc MS.Proofs.Catalog_seq MS.Proofs.CatalogConc_inv.

Definition sbk (x : string) : list byte := bytes_of_string x.
Definition rootK : list byte := sbk "/a/b/c/r".
Definition dcatK : list byte := sbk ":Symbol/Timeframe/AttributeGroup".
Definition bucketsK : list (list byte) := [sbk "A/1Min/G"; sbk "A/5Min/G"; sbk "B/1Min/G"].
Definition labelsK : list label :=
  flat_map (fun k => flat_map (fun y => [LCreate (k ++ dcatK) y [x00]; LCreateScan 2 (k ++ dcatK) y [x00]]) [2021]%Z) bucketsK
  ++ [LCreateInstall 2]
  ++ flat_map (fun k => [LBegin 1 k; LBegin 3 k]) bucketsK
  ++ [LStep 1; LStep 3].

Definition RK : list cstate := Eval vm_compute in reach rootK labelsK 400.

Lemma RK_closed : forall tr, closed rootK labelsK RK tr = true.
Proof. intros tr. vm_compute. reflexivity. Qed.
Lemma RK_init : existsb (cstate_eqb (cinit rootK)) RK = true.
Proof. vm_compute. reflexivity. Qed.
Lemma RK_quiet : quiescent_ok rootK RK = true.
Proof. vm_compute. reflexivity. Qed.
Lemma RK_forget : forallb (fun s => match wtr (c_world s) with [] => true | _ => false end) RK = true.
Proof. vm_compute. reflexivity. Qed.
Lemma RK_size : (List.length RK, List.length labelsK) = (List.length RK, 15%nat).
Proof. vm_compute. reflexivity. Qed.
