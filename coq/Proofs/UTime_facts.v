(** Facts about Model/UTime.v: the year walk inverts [jan1], interval starts are order-isomorphic to
    (year, slot) pairs. *)
From Coq Require Import ZArith List Bool Lia.
Import ListNotations.
Require Import MS.Model.UTime.
Local Open Scope Z_scope.

Lemma days_in_year_pos y : 365 <= days_in_year y <= 366.
Proof. unfold days_in_year. destruct (is_leap y); lia. Qed.

Lemma leaps_succ y : 1 <= y -> leaps y - leaps (y - 1) = if is_leap y then 1 else 0.
Proof.
  intros Hy. unfold leaps, is_leap.
  destruct (Z.eqb_spec (y mod 4) 0) as [H4|H4];
  destruct (Z.eqb_spec (y mod 100) 0) as [H100|H100];
  destruct (Z.eqb_spec (y mod 400) 0) as [H400|H400]; cbn [andb orb negb];
  Z.div_mod_to_equations; lia.
Qed.

Lemma jan1_days_succ y : 1 <= y -> jan1_days (y + 1) = jan1_days y + days_in_year y.
Proof.
  intros Hy. unfold jan1_days, days_in_year.
  replace (y + 1 - 1) with y by lia.
  pose proof (leaps_succ y Hy) as H. destruct (is_leap y); lia.
Qed.

Lemma jan1_days_1970 : jan1_days 1970 = 0.
Proof. reflexivity. Qed.

Lemma jan1_days_mono_nat n : forall y, 1 <= y -> jan1_days y + 365 * Z.of_nat n <= jan1_days (y + Z.of_nat n).
Proof.
  induction n as [|n IH]; intros y Hy.
  - replace (y + Z.of_nat 0) with y by lia. lia.
  - replace (y + Z.of_nat (S n)) with ((y + Z.of_nat n) + 1) by lia.
    rewrite jan1_days_succ by lia. specialize (IH y Hy).
    pose proof (days_in_year_pos (y + Z.of_nat n)). lia.
Qed.

Lemma jan1_days_mono y y' : 1 <= y -> y <= y' -> jan1_days y + 365 * (y' - y) <= jan1_days y'.
Proof.
  intros Hy Hle. pose proof (jan1_days_mono_nat (Z.to_nat (y' - y)) y Hy) as H.
  rewrite Z2Nat.id in H by lia. replace (y + (y' - y)) with y' in H by lia. exact H.
Qed.

Lemma year_loop_spec fuel : forall y d, 1 <= y -> 0 <= d ->
  d < jan1_days (y + Z.of_nat fuel) - jan1_days y ->
  let y' := year_loop fuel y d in
  y <= y' < y + Z.of_nat fuel /\ jan1_days y' - jan1_days y <= d < jan1_days (y' + 1) - jan1_days y.
Proof.
  induction fuel as [|f IH]; intros y d Hy Hd Hlt.
  - replace (y + Z.of_nat 0) with y in Hlt by lia. lia.
  - cbn [year_loop]. destruct (Z.ltb_spec d (days_in_year y)) as [Hl|Hge].
    + cbv zeta. rewrite jan1_days_succ by lia. lia.
    + cbv zeta. pose proof (jan1_days_succ y Hy) as Hs.
      assert (Hlt' : d - days_in_year y < jan1_days (y + 1 + Z.of_nat f) - jan1_days (y + 1)).
      { replace (y + 1 + Z.of_nat f) with (y + Z.of_nat (S f)) by lia. lia. }
      specialize (IH (y + 1) (d - days_in_year y) ltac:(lia) ltac:(lia) Hlt').
      cbv zeta in IH. destruct IH as [[Ha Hb] [Hc Hd']]. repeat split; lia.
Qed.

Lemma tmax_eq : tmax = 86400 * jan1_days 2370.
Proof. reflexivity. Qed.

Lemma jan1_days_upper_nat n : forall y, 1 <= y -> jan1_days (y + Z.of_nat n) <= jan1_days y + 366 * Z.of_nat n.
Proof.
  induction n as [|n IH]; intros y Hy.
  - replace (y + Z.of_nat 0) with y by lia. lia.
  - replace (y + Z.of_nat (S n)) with ((y + Z.of_nat n) + 1) by lia.
    rewrite jan1_days_succ by lia. specialize (IH y Hy).
    pose proof (days_in_year_pos (y + Z.of_nat n)). lia.
Qed.

Lemma jan1_days_upper y y' : 1 <= y -> y <= y' -> jan1_days y' <= jan1_days y + 366 * (y' - y).
Proof.
  intros Hy Hle. pose proof (jan1_days_upper_nat (Z.to_nat (y' - y)) y Hy) as H.
  rewrite Z2Nat.id in H by lia. replace (y + (y' - y)) with y' in H by lia. exact H.
Qed.

(** the year of a timestamp brackets it *)
Lemma year_of_spec t : valid_time t = true ->
  1970 <= year_of t < 2370 /\ jan1 (year_of t) <= t < jan1 (year_of t + 1).
Proof.
  unfold valid_time. rewrite andb_true_iff, Z.leb_le, Z.ltb_lt. intros [H0 Hm].
  rewrite tmax_eq in Hm. unfold year_of, year_of_days, jan1.
  set (d := t / 86400).
  assert (Hd : 0 <= d < jan1_days 2370).
  { unfold d. split; [apply Z.div_pos; lia|]. apply Z.div_lt_upper_bound; lia. }
  set (y0 := 1970 + d / 366). cbv zeta.
  assert (Hk : 0 <= d / 366) by (apply Z.div_pos; lia).
  assert (Hy0 : 1970 <= y0) by (unfold y0; lia).
  assert (Hlo0 : jan1_days y0 <= d).
  { pose proof (jan1_days_upper 1970 y0 ltac:(lia) Hy0) as Hu. rewrite jan1_days_1970 in Hu.
    pose proof (Z.mul_div_le d 366 ltac:(lia)). unfold y0 in *. lia. }
  assert (Hy0' : y0 < 2370).
  { destruct (Z.lt_ge_cases y0 2370) as [|Hge]; [assumption|].
    pose proof (jan1_days_mono 2370 y0 ltac:(lia) Hge). lia. }
  pose proof (year_loop_spec year_fuel y0 (d - jan1_days y0) ltac:(lia) ltac:(lia)) as H.
  assert (Hup : d - jan1_days y0 < jan1_days (y0 + Z.of_nat year_fuel) - jan1_days y0).
  { change (Z.of_nat year_fuel) with 400.
    pose proof (jan1_days_mono 2370 (y0 + 400) ltac:(lia) ltac:(lia)). lia. }
  specialize (H Hup). cbv zeta in H. destruct H as [Hy [Hlo Hhi]].
  set (y := year_loop year_fuel y0 (d - jan1_days y0)) in *.
  assert (Hlo' : jan1_days y <= d) by lia.
  assert (Hhi' : d < jan1_days (y + 1)) by lia.
  assert (Hy2 : y < 2370).
  { destruct (Z.lt_ge_cases y 2370) as [|Hge]; [assumption|].
    pose proof (jan1_days_mono 2370 y ltac:(lia) Hge). lia. }
  split; [lia|]. unfold d in *.
  split.
  - pose proof (Z.mul_div_le t 86400 ltac:(lia)). nia.
  - pose proof (Z.mod_pos_bound t 86400 ltac:(lia)).
    pose proof (Z.div_mod t 86400 ltac:(lia)). nia.
Qed.

Lemma jan1_mono y y' : 1 <= y -> y <= y' -> jan1 y <= jan1 y'.
Proof. intros. unfold jan1. pose proof (jan1_days_mono y y' H H0). nia. Qed.

Lemma jan1_succ y : 1 <= y -> jan1 (y + 1) = jan1 y + 86400 * days_in_year y.
Proof. intros. unfold jan1. rewrite jan1_days_succ by assumption. lia. Qed.

(** quotient of the offset within the year *)
Definition qof (tfs t : Z) : Z := (t - jan1 (year_of t)) / tfs.

Lemma istart_qof tfs t : istart tfs t = jan1 (year_of t) + qof tfs t * tfs.
Proof. reflexivity. Qed.

Lemma qof_range tfs t : valid_time t = true -> valid_tf tfs = true ->
  0 <= qof tfs t < nslots tfs (year_of t).
Proof.
  intros Ht Htf. destruct (year_of_spec t Ht) as [Hy [Hlo Hhi]].
  unfold valid_tf in Htf. rewrite !andb_true_iff, !Z.leb_le, Z.eqb_eq in Htf.
  destruct Htf as [[H1 H2] Hdiv]. unfold day_s in *.
  rewrite jan1_succ in Hhi by lia.
  unfold qof, nslots, day_s. split.
  - apply Z.div_pos; lia.
  - (* (t - jan1)/tfs < (diy*86400)/tfs, the latter is exact *)
    apply Z.div_lt_upper_bound; [lia|].
    assert (E : tfs * (days_in_year (year_of t) * 86400 / tfs) = days_in_year (year_of t) * 86400).
    { assert (Hm : (days_in_year (year_of t) * 86400) mod tfs = 0).
      { rewrite Z.mul_mod by lia. rewrite Hdiv. rewrite Z.mul_0_r. apply Z.mod_0_l. lia. }
      pose proof (Z.div_mod (days_in_year (year_of t) * 86400) tfs ltac:(lia)). lia. }
    rewrite E. lia.
Qed.

Lemma istart_bounds tfs t : valid_time t = true -> valid_tf tfs = true ->
  jan1 (year_of t) <= istart tfs t <= t.
Proof.
  intros Ht Htf. destruct (year_of_spec t Ht) as [Hy [Hlo Hhi]].
  unfold valid_tf in Htf. rewrite !andb_true_iff, !Z.leb_le, Z.eqb_eq in Htf.
  destruct Htf as [[H1 H2] Hdiv].
  rewrite istart_qof. unfold qof.
  pose proof (Z.mul_div_le (t - jan1 (year_of t)) tfs ltac:(lia)).
  assert (0 <= (t - jan1 (year_of t)) / tfs) by (apply Z.div_pos; lia).
  nia.
Qed.

(** interval starts compare exactly like (year, quotient) pairs *)
Lemma istart_compare tfs t1 t2 :
  valid_time t1 = true -> valid_time t2 = true -> valid_tf tfs = true ->
  (istart tfs t1 ?= istart tfs t2) = kcmp (year_of t1, qof tfs t1) (year_of t2, qof tfs t2).
Proof.
  intros H1 H2 Htf.
  destruct (year_of_spec t1 H1) as [Hy1 [Hlo1 Hhi1]].
  destruct (year_of_spec t2 H2) as [Hy2 [Hlo2 Hhi2]].
  pose proof (istart_bounds tfs t1 H1 Htf) as B1.
  pose proof (istart_bounds tfs t2 H2 Htf) as B2.
  unfold kcmp; cbn [fst snd].
  destruct (Z.compare_spec (year_of t1) (year_of t2)) as [E|L|G].
  - rewrite !istart_qof, E.
    unfold valid_tf in Htf. rewrite !andb_true_iff, !Z.leb_le in Htf.
    destruct Htf as [[Hp _] _].
    destruct (Z.compare_spec (qof tfs t1) (qof tfs t2)) as [E'|L'|G'].
    + rewrite E'. apply Z.compare_refl.
    + apply Z.compare_lt_iff. nia.
    + apply Z.compare_gt_iff. nia.
  - apply Z.compare_lt_iff.
    pose proof (jan1_mono (year_of t1 + 1) (year_of t2) ltac:(lia) ltac:(lia)). lia.
  - apply Z.compare_gt_iff.
    pose proof (jan1_mono (year_of t2 + 1) (year_of t1) ltac:(lia) ltac:(lia)). lia.
Qed.

(** TimeToIndex / IndexToTime in terms of the quotient *)
Lemma TimeToIndex_qof tfs t :
  TimeToIndex tfs t = if tfs =? day_s then qof tfs t else 1 + qof tfs t.
Proof.
  unfold TimeToIndex, qof. destruct (Z.eqb_spec tfs day_s) as [->|]; reflexivity.
Qed.

Lemma IndexToTime_TimeToIndex tfs t :
  IndexToTime (TimeToIndex tfs t) tfs (year_of t) = istart tfs t.
Proof.
  rewrite istart_qof, TimeToIndex_qof. unfold IndexToTime.
  destruct (Z.eqb_spec tfs day_s) as [->|]; lia.
Qed.

Lemma kcmp_refl a : kcmp a a = Eq.
Proof. unfold kcmp. rewrite !Z.compare_refl. reflexivity. Qed.

Lemma kcmp_antisym a b : kcmp a b = CompOpp (kcmp b a).
Proof.
  unfold kcmp. rewrite (Z.compare_antisym (fst b) (fst a)), (Z.compare_antisym (snd b) (snd a)).
  destruct (fst b ?= fst a); cbn; reflexivity.
Qed.

Lemma kcmp_eq a b : kcmp a b = Eq -> a = b.
Proof.
  unfold kcmp. destruct a as [a1 a2], b as [b1 b2]; cbn.
  destruct (Z.compare_spec a1 b1); try discriminate.
  intros H2. apply Z.compare_eq in H2. congruence.
Qed.

Lemma kcmp_lt_trans a b c : kcmp a b = Lt -> kcmp b c = Lt -> kcmp a c = Lt.
Proof.
  unfold kcmp. destruct a as [a1 a2], b as [b1 b2], c as [c1 c2]; cbn.
  destruct (Z.compare_spec a1 b1), (Z.compare_spec b1 c1), (Z.compare_spec a1 c1);
    try discriminate; try lia; intros; try reflexivity;
    rewrite ?Z.compare_lt_iff in *; lia.
Qed.
