(** Facts about Model/VarStore.v, for ALL write histories and ALL tick codecs:
    - a slot always holds its records sorted by ticks (stable insertion = sort.Stable's result);
    - the store holds, slot by slot, exactly the records of the commands applied to it (Permutation) —
      nothing is lost or duplicated except commands with index 0 (F2);
    - the commands of a request carry every row under its own (year, index) key (F3 fixed);
    - the file state the store denotes lists the decoded records in key order. *)
From Coq Require Import ZArith List Bool Lia Permutation Sorting.Sorted.
From Coq.Strings Require Import Byte.
Import ListNotations.
Require Import MS.Base.GoInt MS.Base.Res MS.Base.Hex MS.Base.Bytes MS.Base.Civil
               MS.Generated.Src_query MS.Model.QTime MS.Model.Trim MS.Model.RangeRead MS.Model.RangeSpec
               MS.Model.VarStore MS.Proofs.Trim_facts.
Local Open Scope Z_scope.

(* ------------------------------------------------------------------ stable insertion sort by ticks *)

Fixpoint sorted_ticks (l : list rec) : bool :=
  match l with
  | [] => true
  | a :: rest => match rest with [] => true | b :: _ => (snd a <=? snd b) && sorted_ticks rest end
  end.

Lemma ins_perm x l : Permutation (ins x l) (x :: l).
Proof.
  induction l as [|y l IH]; cbn [ins]; [reflexivity|].
  destruct (snd x <? snd y); [reflexivity|].
  rewrite IH. apply perm_swap.
Qed.

Lemma isort_perm_acc l : forall acc, Permutation (fold_left (fun a x => ins x a) l acc) (acc ++ l).
Proof.
  induction l as [|x l IH]; intros acc; cbn [fold_left]; [now rewrite app_nil_r|].
  rewrite IH. rewrite (ins_perm x acc). rewrite (Permutation_middle acc l x). reflexivity.
Qed.

Lemma isort_perm l : Permutation (isort l) l.
Proof. unfold isort. now rewrite isort_perm_acc. Qed.

Lemma sorted_ticks_tail a l : sorted_ticks (a :: l) = true -> sorted_ticks l = true.
Proof. cbn [sorted_ticks]. destruct l; [reflexivity|]. now intros H%andb_prop. Qed.

Lemma ins_sorted x l : sorted_ticks l = true -> sorted_ticks (ins x l) = true.
Proof.
  induction l as [|y l IH]; intros S; [reflexivity|].
  cbn [ins]. destruct (Z.ltb_spec (snd x) (snd y)) as [L|G].
  - cbn [sorted_ticks]. apply andb_true_iff; split; [apply Z.leb_le; lia | exact S].
  - pose proof (sorted_ticks_tail _ _ S) as St. specialize (IH St).
    destruct l as [|z l'].
    + cbn [ins sorted_ticks]. apply andb_true_iff; split; [apply Z.leb_le; lia | reflexivity].
    + cbn [ins] in IH |- *. cbn [sorted_ticks] in S. apply andb_prop in S as [S1 S2].
      destruct (snd x <? snd z) eqn:E.
      * change (sorted_ticks (y :: x :: z :: l')) with ((snd y <=? snd x) && sorted_ticks (x :: z :: l')).
        apply andb_true_iff; split; [apply Z.leb_le; lia | exact IH].
      * change (sorted_ticks (y :: z :: ins x l')) with ((snd y <=? snd z) && sorted_ticks (z :: ins x l')).
        apply andb_true_iff; split; [exact S1 | exact IH].
Qed.

Lemma isort_sorted_acc l : forall acc, sorted_ticks acc = true ->
  sorted_ticks (fold_left (fun a x => ins x a) l acc) = true.
Proof. induction l as [|x l IH]; intros acc S; cbn [fold_left]; [exact S | apply IH; now apply ins_sorted]. Qed.

Lemma isort_sorted l : sorted_ticks (isort l) = true.
Proof. unfold isort. now apply isort_sorted_acc. Qed.

(* ------------------------------------------------------------------ the store *)

Definition key_lt (a b : key) : Prop := fst a < fst b \/ (fst a = fst b /\ snd a < snd b).

Lemma key_ltb_spec a b : key_ltb a b = true <-> key_lt a b.
Proof. unfold key_ltb, key_lt. rewrite orb_true_iff, andb_true_iff, !Z.ltb_lt, Z.eqb_eq. tauto. Qed.

Lemma key_eqb_spec a b : key_eqb a b = true <-> a = b.
Proof.
  unfold key_eqb. rewrite andb_true_iff, !Z.eqb_eq. destruct a, b; cbn. split; [intros [-> ->]; reflexivity | intros H; inversion H; auto].
Qed.

Lemma key_lt_trans a b c : key_lt a b -> key_lt b c -> key_lt a c.
Proof. unfold key_lt. lia. Qed.

Lemma key_total a b : key_ltb a b = false -> key_eqb a b = false -> key_lt b a.
Proof.
  intros H1 H2. destruct (key_ltb b a) eqn:E; [now apply key_ltb_spec|].
  exfalso. unfold key_ltb, key_eqb in *.
  rewrite orb_false_iff, andb_false_iff, !Z.ltb_ge, Z.eqb_neq in H1, E.
  rewrite andb_false_iff, !Z.eqb_neq in H2. lia.
Qed.

(** store invariant: keys strictly ascending, positions non-zero, every slot sorted by ticks *)
Definition store_ok (st : store) : Prop :=
  StronglySorted key_lt (map fst st)
  /\ Forall (fun e => snd (fst e) <> 0 /\ sorted_ticks (snd e) = true) st.

Lemma flatten_cons k l st : flatten ((k, l) :: st) = map (pair k) l ++ flatten st.
Proof. reflexivity. Qed.

Lemma upd_perm k recs st :
  Permutation (flatten (upd k recs st)) (flatten st ++ map (pair k) recs).
Proof.
  induction st as [|[k' l] rest IH]; cbn [upd].
  - rewrite flatten_cons. cbn [flatten flat_map app]. rewrite app_nil_r.
    apply Permutation_map. apply isort_perm.
  - destruct (key_ltb k k').
    + rewrite flatten_cons. rewrite (Permutation_map (pair k) (isort_perm recs)).
      apply Permutation_app_comm.
    + destruct (key_eqb k k') eqn:E.
      * apply key_eqb_spec in E. subst k'. rewrite !flatten_cons.
        etransitivity; [apply Permutation_app_tail; apply Permutation_map; apply isort_perm|].
        rewrite map_app, <- !app_assoc. apply Permutation_app_head. apply Permutation_app_comm.
      * rewrite !flatten_cons, IH, app_assoc. reflexivity.
Qed.

Lemma upd_keys k recs st x : In x (map fst (upd k recs st)) -> x = k \/ In x (map fst st).
Proof.
  induction st as [|[k' l] rest IH]; cbn [upd map fst In].
  - intros [H|[]]; auto.
  - destruct (key_ltb k k'); [cbn [map fst In]; intros [H|[H|H]]; auto|].
    destruct (key_eqb k k'); cbn [map fst In]; [intros [H|H]; auto|].
    intros [H|H]; [auto|]. apply IH in H as [H|H]; auto.
Qed.

Lemma upd_ok k recs st : snd k <> 0 -> store_ok st -> store_ok (upd k recs st).
Proof.
  intros Hk [S F]. induction st as [|[k' l] rest IH]; cbn [upd].
  - split; cbn [map fst]; [repeat constructor|]. constructor; [|constructor]. cbn. split; [exact Hk | apply isort_sorted].
  - cbn [map fst] in S. inversion S as [|? ? S' Fk]; subst. inversion F as [|? ? [N Sl] F']; subst. cbn [fst snd] in *.
    destruct (key_ltb k k') eqn:L.
    + apply key_ltb_spec in L. split.
      * cbn [map fst]. constructor; [exact S|]. constructor; [exact L|].
        eapply Forall_impl; [|exact Fk]. intros a Ha. eapply key_lt_trans; eauto.
      * constructor; [cbn; split; [exact Hk | apply isort_sorted] | exact F].
    + destruct (key_eqb k k') eqn:E.
      * split; [exact S|]. constructor; [cbn; split; [exact N | apply isort_sorted] | exact F'].
      * destruct (IH S' F') as [S2 F2]. split.
        -- cbn [map fst]. constructor; [exact S2|]. apply Forall_forall. intros x Hx.
           apply upd_keys in Hx as [->|Hx]; [now apply key_total|].
           rewrite Forall_forall in Fk. now apply Fk.
        -- constructor; [cbn; split; assumption | exact F2].
Qed.

(** the entries a command contributes *)
Definition cmd_entries (c : vcmd) : list (key * rec) := map (pair (c_year c, c_index c)) (c_recs c).
Definition cmd_live (c : vcmd) : bool := negb (c_index c =? 0).

Lemma apply_cmds_perm cmds : forall st,
  Permutation (flatten (fold_left apply_cmd cmds st)) (flatten st ++ flat_map cmd_entries (filter cmd_live cmds)).
Proof.
  induction cmds as [|c cmds IH]; intros st; cbn [fold_left filter flat_map]; [now rewrite app_nil_r|].
  rewrite IH. unfold apply_cmd at 1, cmd_live at 2.
  destruct (c_index c =? 0); cbn [negb]; [reflexivity|].
  cbn [flat_map]. rewrite upd_perm, <- app_assoc. reflexivity.
Qed.

Lemma apply_cmds_ok cmds : forall st, store_ok st -> store_ok (fold_left apply_cmd cmds st).
Proof.
  induction cmds as [|c cmds IH]; intros st S; cbn [fold_left]; [exact S|].
  apply IH. unfold apply_cmd. destruct (Z.eqb_spec (c_index c) 0); [exact S|].
  apply upd_ok; [exact n | exact S].
Qed.

Section WithTicks.
Variable encf : Z -> Z -> Z.
Variable decf : Z -> Z -> Z -> Z * Z.
Variable tf : Z.

Definition entry (r : wrow) : key * rec := (w_key tf r, rec_of encf tf r).

(** WriteRecords files every row under its own key, in request order *)
Lemma write_records_loop_entries rows : forall py pi cc,
  c_index cc = pi -> c_year cc = py ->
  flat_map cmd_entries (write_records_loop encf tf py pi cc rows) = cmd_entries cc ++ map entry rows.
Proof.
  induction rows as [|r rest IH]; intros py pi cc Hi Hy; cbn [write_records_loop] in *.
  - cbn [flat_map map]. now rewrite !app_nil_r.
  - destruct ((w_index tf r =? pi) && (w_year r =? py)) eqn:M.
    + apply andb_prop in M as [Mi My]. apply Z.eqb_eq in Mi, My.
      rewrite (IH py pi (mkCmd (c_year cc) (c_index cc) (c_recs cc ++ [rec_of encf tf r])) Hi Hy). cbn [c_year c_index c_recs].
      unfold cmd_entries at 1. cbn [c_year c_index c_recs]. rewrite map_app, <- app_assoc. cbn [map app].
      unfold cmd_entries, entry, w_key. rewrite Hy, Hi, Mi, My. reflexivity.
    + cbn [flat_map]. rewrite (IH (w_year r) (w_index tf r) (mkCmd (w_year r) (w_index tf r) [rec_of encf tf r]) eq_refl eq_refl).
      unfold cmd_entries at 2. cbn [c_year c_index c_recs map app]. reflexivity.
Qed.

Lemma write_records_entries rows :
  flat_map cmd_entries (write_records encf tf rows) = map entry rows.
Proof.
  destruct rows as [|r rest]; [reflexivity|]. cbn [write_records].
  rewrite (write_records_loop_entries rest (w_year r) (w_index tf r) (mkCmd (w_year r) (w_index tf r) [rec_of encf tf r]) eq_refl eq_refl). reflexivity.
Qed.

(** commands only carry indexes of rows *)
Lemma write_records_loop_index rows : forall y0 pi cc c,
  In c (write_records_loop encf tf y0 pi cc rows) -> c_index c = c_index cc \/ exists r, In r rows /\ c_index c = w_index tf r.
Proof.
  induction rows as [|r rest IH]; intros y0 pi cc c H; cbn [write_records_loop] in H.
  - destruct H as [<-|[]]. now left.
  - destruct ((w_index tf r =? pi) && (w_year r =? y0)).
    + apply IH in H as [H|(x & Hx & H)]; [left; exact H | right; exists x; split; [now right | exact H]].
    + destruct H as [<-|H]; [now left|]. apply IH in H as [H|(x & Hx & H)].
      * right. exists r. split; [now left | exact H].
      * right. exists x. split; [now right | exact H].
Qed.

Lemma write_records_live rows : existsb (f2_row tf) rows = false ->
  filter cmd_live (write_records encf tf rows) = write_records encf tf rows.
Proof.
  intros H. apply filter_all. apply Forall_forall. intros c Hc.
  assert (E : exists r, In r rows /\ c_index c = w_index tf r).
  { destruct rows as [|r rest]; [destruct Hc|]. cbn [write_records] in Hc.
    apply write_records_loop_index in Hc as [Hc|(x & Hx & Hc)].
    - exists r. split; [now left | exact Hc].
    - exists x. split; [now right | exact Hc]. }
  destruct E as (r & Hr & E). unfold cmd_live. rewrite E.
  destruct (w_index tf r =? 0) eqn:Z0; [|reflexivity].
  exfalso. assert (T : existsb (f2_row tf) rows = true) by (apply existsb_exists; exists r; split; [exact Hr | exact Z0]).
  congruence.
Qed.

(** the whole history: store = exactly the written rows under their keys *)
Lemma run_perm_ok hist : forall st, store_ok st ->
  existsb (f2_row tf) (concat hist) = false ->
  store_ok (fold_left (write_request encf tf) hist st)
  /\ Permutation (flatten (fold_left (write_request encf tf) hist st)) (flatten st ++ map entry (concat hist)).
Proof.
  induction hist as [|rows hist IH]; intros st S F2; cbn [fold_left concat].
  - cbn [map]. rewrite app_nil_r. split; [exact S | reflexivity].
  - cbn [concat] in F2. rewrite existsb_app in F2. apply orb_false_iff in F2 as [F2a F2b].
    assert (S' : store_ok (write_request encf tf st rows)) by (unfold write_request; now apply apply_cmds_ok).
    destruct (IH _ S' F2b) as [So P]. split; [exact So|].
    rewrite P. unfold write_request at 1. rewrite apply_cmds_perm.
    rewrite (write_records_live rows F2a), (write_records_entries rows).
    rewrite map_app, <- app_assoc. reflexivity.
Qed.

Theorem run_store hist :
  existsb (f2_row tf) (concat hist) = false ->
  store_ok (run encf tf hist) /\ Permutation (flatten (run encf tf hist)) (map entry (concat hist)).
Proof.
  intros F2. assert (S0 : store_ok []) by (split; constructor).
  destruct (run_perm_ok hist [] S0 F2) as [S P]. split; [exact S | exact P].
Qed.

(* ------------------------------------------------------------------ the file state of a store *)

Variable clen : key -> Z.

Definition dec_entry (e : key * rec) : vrow := dec_rec decf tf (fst e) (snd e).

Lemma group_years_rows st : Forall (fun e => snd (fst e) <> 0) st ->
  flat_map (fun f => flat_map s_recs (filter occupied (y_slots f))) (group_years decf tf clen st)
  = map dec_entry (flatten st).
Proof.
  induction st as [|[k l] rest IH]; intros F; [reflexivity|].
  inversion F as [|? ? Hk F']; subst. cbn [fst snd] in Hk. specialize (IH F').
  cbn [group_years]. rewrite flatten_cons, map_app.
  set (sl := mkSlot (snd k) (snd k) [] (clen k) (map (dec_rec decf tf k) l)).
  assert (Ho : occupied sl = true).
  { unfold occupied, sl. cbn [s_idx]. destruct (Z.eqb_spec (snd k) 0); [contradiction | reflexivity]. }
  transitivity (s_recs sl ++ map dec_entry (flatten rest));
    [| f_equal; unfold sl; cbn [s_recs]; rewrite map_map; reflexivity].
  destruct (group_years decf tf clen rest) as [|f fs] eqn:G.
  - cbn [flat_map y_slots filter]. rewrite Ho. cbn [flat_map]. rewrite <- IH. cbn [flat_map]. now rewrite !app_nil_r.
  - destruct (y_year f =? fst k).
    + cbn [flat_map y_slots filter]. rewrite Ho. cbn [flat_map]. rewrite <- IH. cbn [flat_map].
      now rewrite app_assoc.
    + cbn [flat_map y_slots filter]. rewrite Ho. cbn [flat_map]. rewrite <- IH. cbn [flat_map].
      now rewrite app_nil_r.
Qed.

Lemma store_ok_nonzero st : store_ok st -> Forall (fun e => snd (fst e) <> 0) st.
Proof. intros [_ F]. eapply Forall_impl; [|exact F]. cbv beta. tauto. Qed.

End WithTicks.
