From Coq Require Import ZArith.
Require Import MS.Proofs.Ticks_sweep.
Lemma sweep_block_7 : sweep_ok (Z.to_nat block) 999900000 = true.
Proof. vm_compute. reflexivity. Qed.
