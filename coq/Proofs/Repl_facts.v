(** Proofs about Model/Repl.v: the replica's replay of homogeneous FIXED transaction groups reproduces
    the master's store exactly; the replay of homogeneous VARIABLE groups is exactly the master's run on
    re-ticked records (interval start + nanosecond part only). *)
From Coq Require Import ZArith List Bool Lia.
From Coq.Strings Require Import Byte.
Import ListNotations.
Require Import MS.Base.GoInt MS.Base.Res MS.Base.Hex MS.Base.Bytes MS.Base.Civil MS.Base.Tz MS.Model.TimeIndex
               MS.Proofs.TimeIndex_facts MS.Generated.Src_repl MS.Generated.Src_time MS.Model.Repl.
Local Open Scope Z_scope.

(** * Time: the interval of an index, in UTC *)
Lemma utc_interval tf t idx :
  0 < tf < utils_Day -> utils_Day mod tf = 0 ->
  TimeToIndex tz_utc t tf = Ok idx ->
  forall d, 0 <= d < tf ->
    year_of tz_utc (IndexToTime tz_utc idx tf (year_of tz_utc t) + d) = year_of tz_utc t
    /\ TimeToIndex tz_utc (IndexToTime tz_utc idx tf (year_of tz_utc t) + d) tf = Ok idx.
Proof.
  intros Htf Hdiv Hidx d Hd.
  destruct (index_bracket_utc t tf Htf) as (idx' & E & H1 & Br & Ea).
  assert (idx' = idx) by congruence. subst idx'. clear E.
  set (y := year_of tz_utc t) in *. set (t0 := IndexToTime tz_utc idx tf y) in *.
  pose proof (year_bracket_utc t) as YB. fold y in YB.
  rewrite !year_start_utc in *. rewrite dby_step in YB.
  assert (Hm : utils_Day = tf * (utils_Day / tf)) by (apply Z.div_exact; lia).
  set (m := utils_Day / tf) in *.
  assert (Hlen : days_in_year y * SPD * NS = tf * (m * days_in_year y)).
  { replace (days_in_year y * SPD * NS) with (utils_Day * days_in_year y) by (unfold utils_Day, SPD, NS; lia). rewrite Hm at 1. ring. }
  pose proof (days_in_year_range y) as DR.
  assert (Hm0 : 0 < m) by (unfold utils_Day in *; nia).
  assert (Hle : idx <= m * days_in_year y) by nia.
  assert (Hy : year_of tz_utc (t0 + d) = y).
  { apply year_of_utc_iff. rewrite !year_start_utc, dby_step. nia. }
  split; [exact Hy|].
  destruct (index_bracket_utc (t0 + d) tf Htf) as (idx2 & E2 & H2 & Br2 & Ea2).
  rewrite Hy in *. rewrite year_start_utc in Ea2. rewrite E2. f_equal. nia.
Qed.

(** the same for the daily timeframe (index = day of the year, zero based) *)
Lemma utc_interval_daily t idx :
  TimeToIndex tz_utc t utils_Day = Ok idx ->
  let t0 := IndexToTime tz_utc idx utils_Day (year_of tz_utc t) in
  sec_of t0 * NS = t0 /\
  forall d, 0 <= d < utils_Day ->
    year_of tz_utc (t0 + d) = year_of tz_utc t /\ TimeToIndex tz_utc (t0 + d) utils_Day = Ok idx.
Proof.
  intros Hidx t0. rewrite TimeToIndex_daily in Hidx. injection Hidx as Hidx.
  set (L := local_days tz_utc t) in *. set (y := year_of tz_utc t) in *.
  assert (Ht0 : t0 = L * SPD * NS).
  { unfold t0. change tz_utc with (tz_fixed 0). rewrite IndexToTime_daily by apply fixed_regular.
    unfold day_utc. rewrite local_to_utc_fixed. replace (dby y + idx) with L by lia. lia. }
  assert (Hld : forall d, 0 <= d < utils_Day -> local_days tz_utc (t0 + d) = L).
  { intros d Hd. unfold local_days, local_secs. change tz_utc with (tz_fixed 0). rewrite offset_at_fixed, Z.add_0_r.
    unfold sec_of. rewrite Ht0. unfold utils_Day, SPD, NS in *.
    rewrite Z.div_div by lia. symmetry. apply Z.div_unique with (r := d); lia. }
  split.
  - unfold sec_of. rewrite Ht0. rewrite Z.div_mul by (unfold NS; lia). reflexivity.
  - intros d Hd. specialize (Hld d Hd). split.
    + unfold year_of. rewrite Hld. reflexivity.
    + rewrite TimeToIndex_daily. unfold year_of at 1. rewrite Hld. fold L. f_equal. unfold y, year_of, L in *. lia.
Qed.

Definition tf_ok (tf : Z) : Prop := 0 < tf <= utils_Day /\ utils_Day mod tf = 0 /\ tf mod NS = 0.

(** the write set's (year, index) is what a master computes from some instant *)
Definition derived_idx (w : ws) : Prop :=
  exists t, year_of tz_utc t = ws_year w /\ TimeToIndex tz_utc t (ws_tf w) = Ok (ws_idx w).

Lemma derived_interval w :
  tf_ok (ws_tf w) -> derived_idx w ->
  let t0 := IndexToTime tz_utc (ws_idx w) (ws_tf w) (ws_year w) in
  sec_of t0 * NS = t0 /\
  forall d, 0 <= d < ws_tf w -> year_of tz_utc (t0 + d) = ws_year w /\ TimeToIndex tz_utc (t0 + d) (ws_tf w) = Ok (ws_idx w).
Proof.
  intros (Htf & Hdiv & Hns) (t & Hy & Hi) t0.
  destruct (Z.eq_dec (ws_tf w) utils_Day) as [Eday|Nday].
  { subst t0. rewrite Eday in *. rewrite <- Hy. apply utc_interval_daily. exact Hi. }
  assert (Htf' : 0 < ws_tf w < utils_Day) by lia. clear Htf. rename Htf' into Htf.
  split.
  - destruct (index_bracket_utc t (ws_tf w) Htf) as (idx' & E & H1 & Br & Ea).
    assert (idx' = ws_idx w) by congruence. subst idx'. rewrite Hy in Ea. fold t0 in Ea.
    rewrite year_start_utc in Ea. unfold sec_of. rewrite Ea.
    assert (Hk : ws_tf w = NS * (ws_tf w / NS)) by (apply Z.div_exact; [unfold NS; lia | exact Hns]).
    set (k := ws_tf w / NS) in *. rewrite Hk.
    replace (dby (ws_year w) * SPD * NS + NS * k * (ws_idx w - 1)) with ((dby (ws_year w) * SPD + k * (ws_idx w - 1)) * NS) by ring.
    rewrite Z.div_mul by (unfold NS; lia); reflexivity || idtac.
  - intros d Hd. subst t0. rewrite <- Hy. apply utc_interval; assumption.
Qed.

(** * Store lemmas *)
Lemma find_set_same st b v : find_bucket (set_bucket st b v) b = Some v.
Proof.
  induction st as [|[k v'] st IH]; cbn.
  - rewrite (proj2 (bytes_eqb_eq b b) eq_refl). reflexivity.
  - destruct (bytes_eqb b k) eqn:E; cbn; rewrite E; [reflexivity | exact IH].
Qed.

Lemma shape_eqb_refl s : shape_eqb s s = true.
Proof. unfold shape_eqb. rewrite (proj2 (bytes_eqb_eq _ _) eq_refl), Z.eqb_refl. reflexivity. Qed.

Lemma schema_check_refl sh : schema_check sh sh = 0.
Proof.
  unfold schema_check. rewrite Nat.eqb_refl. cbn.
  assert (H : forallb (fun d => existsb (shape_eqb d) sh) sh = true).
  { apply forallb_forall. intros d Hd. apply existsb_exists. exists d. split; [exact Hd | apply shape_eqb_refl]. }
  rewrite H. reflexivity.
Qed.

Definition bucket_fits (st : store) (w : ws) : Prop :=
  match find_bucket st (ws_bucket w) with
  | None => True
  | Some v => b_rt v = ws_rt w /\ b_tf v = ws_tf w /\ b_shapes v = ws_shapes w
  end.

(** after ensure_bucket the bucket is there, with the write set's type, timeframe and columns *)
Lemma ensure_find st w : bucket_fits st w ->
  exists v, find_bucket (ensure_bucket st (ws_bucket w) (ws_rt w) (ws_tf w) (ws_shapes w)) (ws_bucket w) = Some v
            /\ b_rt v = ws_rt w /\ b_tf v = ws_tf w /\ b_shapes v = ws_shapes w.
Proof.
  unfold bucket_fits, ensure_bucket. destruct (find_bucket st (ws_bucket w)) as [v|] eqn:E.
  - intros H. exists v. rewrite E. split; [reflexivity | exact H].
  - intros _. eexists. rewrite find_set_same. split; [reflexivity|]. cbn. repeat split.
Qed.

Section Facts.
  Variable get_ticks : Z -> Z -> Z -> Z.
  Variable time_from_ticks : Z -> Z -> Z -> Z * Z.

  Notation wtset_to_cs := (wtset_to_cs time_from_ticks).
  Notation write_csm := (write_csm get_ticks).
  Notation replay_sets := (replay_sets get_ticks time_from_ticks).
  Notation replay_tg := (replay_tg get_ticks time_from_ticks).
  Notation replica_run := (replica_run get_ticks time_from_ticks).
  Notation retick_rec := (retick_rec get_ticks time_from_ticks).
  Notation retick_ws := (retick_ws get_ticks time_from_ticks).
  Notation retick := (retick get_ticks time_from_ticks).

  (** * FIXED write sets *)
  Definition fixed_ok (st : store) (w : ws) : Prop :=
    ws_rt w = RT_FIXED /\ tf_ok (ws_tf w)
    /\ has_name nanos_name (ws_shapes w) = false
    /\ Z.of_nat (length (ws_payload w)) = rowsize (ws_shapes w) - 8
    /\ derived_idx w /\ bucket_fits st w.

  Lemma fixed_ws st w : fixed_ok st w ->
    exists c, wtset_to_cs w = COk c /\ write_csm false st c = ROk (master_ws st w).
  Proof.
    intros (Hrt & Htf & Hnn & Hlen & Hd & Hfit).
    destruct (derived_interval w Htf Hd) as [Hsec Hint].
    destruct (Hint 0 ltac:(destruct Htf; lia)) as [Hy0 Hi0]. rewrite Z.add_0_r in Hy0, Hi0.
    set (t0 := IndexToTime tz_utc (ws_idx w) (ws_tf w) (ws_year w)) in *.
    eexists. split.
    - unfold Repl.wtset_to_cs. destruct Htf as (Htf & _).
      replace (ws_tf w =? 0) with false by (symmetry; apply Z.eqb_neq; lia).
      rewrite Hrt, Z.eqb_refl, Hnn, Hlen, Z.eqb_refl. reflexivity.
    - destruct (ensure_find st w Hfit) as (v & Hfind & Hvrt & Hvtf & Hvsh).
      unfold master_ws. rewrite Hrt in Hfind |- *.
      assert (Tail : forall st1, st1 = ensure_bucket st (ws_bucket w) RT_FIXED (ws_tf w) (ws_shapes w) ->
        match find_bucket st1 (ws_bucket w) with
        | None => RPanic
        | Some v =>
            match schema_check (b_shapes v) (ws_shapes w) with
            | 0 =>
                if negb (b_rt v =? RT_FIXED) && negb (b_rt v =? RT_VARIABLE) then RUnmodelled
                else if b_tf v =? 0 then RPanic
                else
                  match write_records get_ticks (b_rt v =? RT_FIXED) (utils_Day / b_tf v) (ws_tf w)
                          (combine [row_time (mkrow (sec_of t0) (ws_payload w) None)]
                                   [row_bytes (negb false) (mkrow (sec_of t0) (ws_payload w) None)]) with
                  | Ok cmds =>
                      ROk (fold_left (fun s c => apply_write s (ws_bucket w) (wc_year c) (wc_idx c) (wc_data c)) cmds st1)
                  | _ => RPanic
                  end
            | 1 => RErr st1
            | _ => RUnmodelled
            end
        end = ROk (apply_write st1 (ws_bucket w) (ws_year w) (ws_idx w) (ws_payload w))).
      { intros st1 ->. rewrite Hfind, Hvsh, schema_check_refl, Hvrt, Hrt. rewrite Z.eqb_refl. cbn [negb andb].
        replace (b_tf v =? 0) with false by (symmetry; apply Z.eqb_neq; destruct Htf; lia).
        unfold row_time, row_bytes. cbn [r_epoch r_nanos r_data combine map].
        rewrite Z.add_0_r, app_nil_r, Hsec. unfold write_records, z. rewrite Hi0, Hy0.
        cbn [group_rows fold_left wc_year wc_idx wc_data]. reflexivity. }
      unfold Repl.write_csm. cbn [cs_rows cs_bucket cs_shapes cs_tf map]. fold t0. unfold z.
      destruct (find_bucket st (ws_bucket w)) as [b0|] eqn:Efb.
      + assert (Ee : ensure_bucket st (ws_bucket w) RT_FIXED (ws_tf w) (ws_shapes w) = st)
          by (unfold ensure_bucket; rewrite Efb; reflexivity).
        rewrite Ee. pose proof (Tail st (eq_sym Ee)) as T. rewrite Efb in T. exact T.
      + apply Tail. reflexivity.
  Qed.

  (** * VARIABLE write sets: the replica stores re-ticked records *)
  Notation rec_time := (rec_time time_from_ticks).

  Definition time_in_interval (w : ws) : Prop :=
    let t0 := IndexToTime tz_utc (ws_idx w) (ws_tf w) (ws_year w) in
    Forall (fun rec => 0 <= rec_time (sec_of t0) (ipd_of (ws_tf w)) rec - t0 < ws_tf w)
           (chunks (length (ws_payload w)) (Z.to_nat (ws_vrl w)) (ws_payload w)).

  Definition var_ok (st : store) (w : ws) : Prop :=
    ws_rt w = RT_VARIABLE /\ tf_ok (ws_tf w)
    /\ has_name nanos_name (ws_shapes w) = false
    /\ ws_vrl w = rowsize (ws_shapes w) - 8 + 4 /\ 4 <= ws_vrl w
    /\ Z.of_nat (length (ws_payload w)) mod ws_vrl w = 0 /\ ws_vrl w <= Z.of_nat (length (ws_payload w))
    /\ derived_idx w /\ time_in_interval w /\ bucket_fits st w.

  Lemma remove_nanos_app sh : has_name nanos_name sh = false -> remove_name nanos_name (sh ++ [nanos_shape]) = sh.
  Proof.
    unfold remove_name, has_name. intros H.
    induction sh as [|s sh IH]; [reflexivity|]. cbn [app filter existsb] in H |- *.
    apply orb_false_elim in H as [H1 H2]. rewrite H1. cbn [negb]. f_equal. apply IH. exact H2.
  Qed.

  (** WriteRecords on rows that all fall into the interval (idx, year): one command *)
  Lemma group_rows_same ipd tf idx year rows : forall cur,
    Forall (fun td => TimeToIndex tz_utc (fst td) tf = Ok idx /\ year_of tz_utc (fst td) = year) rows ->
    group_rows get_ticks false ipd tf idx year cur rows
    = Ok [mkwcmd (wc_year cur) (wc_idx cur)
                 (wc_data cur ++ concat (map (fun td => snd td ++ le_bytes 4 (get_ticks (fst td) idx ipd)) rows))].
  Proof.
    induction rows as [|[t d] rows IH]; intros cur H.
    - cbn. rewrite app_nil_r. destruct cur; reflexivity.
    - inversion H as [|? ? Hhd Hr]; subst. destruct Hhd as [Hi Hy]. cbn [group_rows]. unfold z. cbn [fst snd] in Hi, Hy. rewrite Hi, Hy, !Z.eqb_refl.
      cbn [andb]. rewrite (IH _ Hr). cbn [wc_year wc_idx wc_data map concat fst snd]. rewrite <- app_assoc. reflexivity.
  Qed.

  Lemma chunks_nonempty fuel n l : (0 < n)%nat -> (n <= length l)%nat -> (length l <= fuel)%nat -> chunks fuel n l <> [].
  Proof.
    intros Hn Hl Hf. destruct fuel as [|f]; [lia|]. cbn [chunks].
    replace (length l <? n)%nat with false by (symmetry; apply Nat.ltb_ge; lia).
    replace (n =? 0)%nat with false by (symmetry; apply Nat.eqb_neq; lia). cbn [orb]. discriminate.
  Qed.

  Lemma write_records_same ipd tf idx year rows :
    rows <> [] ->
    Forall (fun td => TimeToIndex tz_utc (fst td) tf = Ok idx /\ year_of tz_utc (fst td) = year) rows ->
    write_records get_ticks false ipd tf rows
    = Ok [mkwcmd year idx (concat (map (fun td => snd td ++ le_bytes 4 (get_ticks (fst td) idx ipd)) rows))].
  Proof.
    intros Hne H. destruct rows as [|[t d] rows]; [contradiction|].
    inversion H as [|? ? Hhd Hr]; subst. destruct Hhd as [Hi Hy]. cbn [fst snd] in Hi, Hy.
    unfold write_records, z. rewrite Hi, Hy. rewrite (group_rows_same _ _ _ _ _ _ Hr). reflexivity.
  Qed.

  Lemma combine_map {A B C} (f : A -> B) (g : A -> C) l : combine (map f l) (map g l) = map (fun x => (f x, g x)) l.
  Proof. induction l; cbn; [reflexivity | f_equal; assumption]. Qed.

  Lemma var_ws st w : var_ok st w ->
    exists c, wtset_to_cs w = COk c /\ write_csm true st c = ROk (master_ws st (retick_ws w)).
  Proof.
    intros (Hrt & Htf & Hnn & Hvrl & H4 & Hmod & Hle & Hd & Hns & Hfit).
    destruct (derived_interval w Htf Hd) as [Hsec Hint].
    set (t0 := IndexToTime tz_utc (ws_idx w) (ws_tf w) (ws_year w)) in *.
    set (epoch := sec_of t0) in *.
    set (cks := chunks (length (ws_payload w)) (Z.to_nat (ws_vrl w)) (ws_payload w)) in *.
    assert (Hcne : cks <> []) by (apply chunks_nonempty; lia).
    eexists. split.
    - unfold Repl.wtset_to_cs. destruct Htf as (Htf & _).
      replace (ws_tf w =? 0) with false by (symmetry; apply Z.eqb_neq; lia).
      rewrite Hrt. change (RT_VARIABLE =? RT_FIXED) with false. rewrite Z.eqb_refl.
      replace (ws_vrl w =? 0) with false by (symmetry; apply Z.eqb_neq; lia).
      rewrite <- Hvrl, Z.eqb_refl, Hmod. replace (4 <=? ws_vrl w) with true by (symmetry; apply Z.leb_le; lia).
      cbn [andb Z.eqb]. reflexivity.
    - destruct (ensure_find st w Hfit) as (v & Hfind & Hvrt & Hvtf & Hvsh).
      unfold master_ws, Repl.retick_ws. cbn [ws_bucket ws_rt ws_tf ws_shapes ws_year ws_idx ws_payload].
      fold t0. fold epoch. fold cks. rewrite Hrt in Hfind |- *.
      unfold Repl.write_csm. cbn [cs_rows cs_bucket cs_shapes cs_tf]. unfold var_rows, z. fold t0. fold epoch. fold cks.
      rewrite (remove_nanos_app _ Hnn).
      set (mk := fun rec : list byte =>
                   let '(s, ns) := time_from_ticks epoch (ipd_of (ws_tf w)) (rec_ticks rec) in
                   mkrow (wrap I64 s) (firstn (length rec - 4) rec) (Some (wrap I32 ns))).
      assert (Hmk : forall rec, row_time (mk rec) = rec_time epoch (ipd_of (ws_tf w)) rec
                                /\ row_bytes false (mk rec) = firstn (length rec - 4) rec).
      { intros rec. unfold mk, Repl.rec_time, row_time, row_bytes.
        destruct (time_from_ticks epoch (ipd_of (ws_tf w)) (rec_ticks rec)) as [s0 ns0].
        cbn [r_epoch r_nanos r_data]. rewrite app_nil_r. split; reflexivity. }
      assert (Hrows : map mk cks <> []) by (destruct cks; [contradiction | discriminate]).
      assert (Tail : forall st1, st1 = ensure_bucket st (ws_bucket w) RT_VARIABLE (ws_tf w) (ws_shapes w) ->
        match find_bucket st1 (ws_bucket w) with
        | None => RPanic
        | Some v =>
            match schema_check (b_shapes v) (ws_shapes w) with
            | 0 =>
                if negb (b_rt v =? RT_FIXED) && negb (b_rt v =? RT_VARIABLE) then RUnmodelled
                else if b_tf v =? 0 then RPanic
                else
                  match write_records get_ticks (b_rt v =? RT_FIXED) (utils_Day / b_tf v) (ws_tf w)
                          (combine (map row_time (map mk cks)) (map (row_bytes (negb true)) (map mk cks))) with
                  | Ok cmds =>
                      ROk (fold_left (fun s c => apply_write s (ws_bucket w) (wc_year c) (wc_idx c) (wc_data c)) cmds st1)
                  | _ => RPanic
                  end
            | 1 => RErr st1
            | _ => RUnmodelled
            end
        end = ROk (apply_write st1 (ws_bucket w) (ws_year w) (ws_idx w)
                     (concat (map (retick_rec epoch (ipd_of (ws_tf w)) (ws_idx w) (utils_Day / ws_tf w)) cks)))).
      { intros st1 ->. rewrite Hfind, Hvsh, schema_check_refl, Hvrt, Hrt, Hvtf.
        change (RT_VARIABLE =? RT_FIXED) with false. rewrite Z.eqb_refl. cbn [negb andb].
        replace (ws_tf w =? 0) with false by (symmetry; apply Z.eqb_neq; destruct Htf; lia).
        rewrite combine_map, map_map.
        rewrite (write_records_same (utils_Day / ws_tf w) (ws_tf w) (ws_idx w) (ws_year w)).
        - cbn [fold_left wc_year wc_idx wc_data]. f_equal. f_equal. f_equal. rewrite map_map.
          apply map_ext. intros rec. cbn [fst snd negb]. destruct (Hmk rec) as [Ht Hb]. rewrite Ht, Hb.
          unfold Repl.retick_rec. reflexivity.
        - destruct cks; [contradiction | discriminate].
        - apply Forall_forall. intros td Hin. apply in_map_iff in Hin as (rec & <- & Hin).
          unfold time_in_interval in Hns. fold t0 in Hns. fold epoch in Hns. fold cks in Hns.
          rewrite Forall_forall in Hns. specialize (Hns rec Hin). cbn [fst].
          destruct (Hmk rec) as [Ht _]. rewrite Ht.
          replace (rec_time epoch (ipd_of (ws_tf w)) rec) with (t0 + (rec_time epoch (ipd_of (ws_tf w)) rec - t0)) by lia.
          destruct (Hint _ Hns) as [Hy Hi]. split; assumption. }
      destruct (find_bucket st (ws_bucket w)) as [b0|] eqn:Efb.
      + assert (Ee : ensure_bucket st (ws_bucket w) RT_VARIABLE (ws_tf w) (ws_shapes w) = st)
          by (unfold ensure_bucket; rewrite Efb; reflexivity).
        rewrite Ee. pose proof (Tail st (eq_sym Ee)) as T. rewrite Efb in T. exact T.
      + pose proof (Tail _ eq_refl) as T.
        destruct (map mk cks) as [|r0 rr] eqn:Emk; [contradiction|]. exact T.
  Qed.

  (** * Histories: every write set replayed with its own record type; a TG may mix FIXED and VARIABLE sets *)
  Definition ws_ok (st : store) (w : ws) : Prop := fixed_ok st w \/ var_ok st w.

  Lemma replay_ws st w : ws_ok st w ->
    exists c, wtset_to_cs w = COk c /\ write_csm (ws_rt w =? RT_VARIABLE) st c = ROk (master_ws st (retick w)).
  Proof.
    intros [H|H].
    - pose proof H as (Hrt & _). destruct (fixed_ws st w H) as (c & Ec & Ew). exists c. split; [exact Ec|].
      unfold Repl.retick. rewrite Hrt. change (RT_FIXED =? RT_VARIABLE) with false. exact Ew.
    - pose proof H as (Hrt & _). destruct (var_ws st w H) as (c & Ec & Ew). exists c. split; [exact Ec|].
      unfold Repl.retick. rewrite Hrt, Z.eqb_refl. exact Ew.
  Qed.

  Fixpoint tg_ok (st : store) (tg : list ws) : Prop :=
    match tg with [] => True | w :: r => ws_ok st w /\ tg_ok (master_ws st (retick w)) r end.

  Lemma replay_tg_ok tg : forall st, tg_ok st tg -> replay_tg st tg = ROk (master_tg st (map retick tg)).
  Proof.
    unfold Repl.replay_tg. induction tg as [|w tg IH]; intros st H; [reflexivity|].
    destruct H as [Hw Hr]. destruct (replay_ws st w Hw) as (c & Ec & Ew).
    cbn [Repl.replay_sets map]. rewrite Ec, Ew. apply IH. exact Hr.
  Qed.

  Fixpoint run_ok (st : store) (tgs : list (list ws)) : Prop :=
    match tgs with [] => True | tg :: r => tg_ok st tg /\ run_ok (master_tg st (map retick tg)) r end.

  (** every history of well-formed TGs: the replica replays all of it, and its store is exactly the store
      of a master that received the same history with every VARIABLE record re-ticked *)
  Theorem replica_characterised tgs : forall st,
    run_ok st tgs -> replica_run st tgs = ROk (master_run st (map (map retick) tgs)).
  Proof.
    induction tgs as [|tg tgs IH]; intros st H; [reflexivity|].
    destruct H as [Ht Hr]. cbn [Repl.replica_run map]. rewrite (replay_tg_ok tg st Ht).
    unfold master_run. cbn [fold_left]. apply IH. exact Hr.
  Qed.

  (** * The boolean guards imply the hypotheses *)
  Lemma tf_okb_spec tf : tf_okb tf = true -> tf_ok tf.
  Proof.
    unfold tf_okb, tf_ok. intros H. repeat (apply andb_prop in H as [H ?]).
    rewrite Z.ltb_lt in *. rewrite Z.leb_le in *. rewrite !Z.eqb_eq in *. lia.
  Qed.

  Lemma idx_okb_spec w : idx_okb w = true -> derived_idx w.
  Proof.
    unfold idx_okb, derived_idx, z. intros H.
    exists (IndexToTime tz_utc (ws_idx w) (ws_tf w) (ws_year w)).
    destruct (TimeToIndex tz_utc _ (ws_tf w)) as [i| |]; try discriminate.
    apply andb_prop in H as [H1 H2]. rewrite Z.eqb_eq in *. subst. split; [exact H2 | reflexivity].
  Qed.

  Lemma shapes_eqb_eq a : forall b, shapes_eqb a b = true -> a = b.
  Proof.
    induction a as [|[n t] a IH]; intros [|[n' t'] b] H; cbn in H; try discriminate; [reflexivity|].
    apply andb_prop in H as [H1 H2]. unfold shape_eqb in H1. cbn in H1. apply andb_prop in H1 as [Hn Ht].
    apply bytes_eqb_eq in Hn. apply Z.eqb_eq in Ht. subst. f_equal. apply IH. exact H2.
  Qed.

  Lemma bucket_fitsb_spec st w : bucket_fitsb st w = true -> bucket_fits st w.
  Proof.
    unfold bucket_fitsb, bucket_fits. destruct (find_bucket st (ws_bucket w)) as [v|]; [|trivial].
    intros H. apply andb_prop in H as [H H3]. apply andb_prop in H as [H1 H2].
    rewrite Z.eqb_eq in *. apply shapes_eqb_eq in H3. auto.
  Qed.

  Lemma fixed_okb_spec st w : fixed_okb st w = true -> fixed_ok st w.
  Proof.
    unfold fixed_okb, fixed_ok. intros H. repeat (apply andb_prop in H as [H ?]).
    rewrite Z.eqb_eq in *.
    split; [assumption|]. split; [apply tf_okb_spec; assumption|]. split; [apply negb_true_iff; assumption|].
    split; [assumption|]. split; [apply idx_okb_spec; assumption | apply bucket_fitsb_spec; assumption].
  Qed.

  Lemma time_okb_spec w : time_okb time_from_ticks w = true -> time_in_interval w.
  Proof.
    unfold time_okb, time_in_interval, z. intros H. rewrite forallb_forall in H. apply Forall_forall.
    intros rec Hin. specialize (H rec Hin). cbn zeta in H. apply andb_prop in H as [H1 H2].
    rewrite Z.leb_le in H1. rewrite Z.ltb_lt in H2. lia.
  Qed.

  Lemma var_okb_spec st w : var_okb time_from_ticks st w = true -> var_ok st w.
  Proof.
    unfold var_okb, var_wfb, var_ok. intros H. apply andb_prop in H as [H Ht]. repeat (apply andb_prop in H as [H ?]).
    rewrite !Z.eqb_eq in *. rewrite !Z.leb_le in *.
    split; [assumption|]. split; [apply tf_okb_spec; assumption|]. split; [apply negb_true_iff; assumption|].
    split; [assumption|]. split; [assumption|]. split; [assumption|]. split; [assumption|].
    split; [apply idx_okb_spec; assumption|]. split; [apply time_okb_spec; assumption | apply bucket_fitsb_spec; assumption].
  Qed.

  Lemma tg_okb_spec tg : forall st, tg_okb get_ticks time_from_ticks st tg = true -> tg_ok st tg.
  Proof.
    induction tg as [|w tg IH]; intros st H; [exact I|]. cbn in H. apply andb_prop in H as [H1 H2].
    split; [|apply IH; exact H2]. unfold ws_okb in H1. apply orb_prop in H1 as [H1|H1].
    - left. apply fixed_okb_spec. exact H1.
    - right. apply var_okb_spec. exact H1.
  Qed.

  Lemma run_okb_spec tgs : forall st, run_okb get_ticks time_from_ticks st tgs = true -> run_ok st tgs.
  Proof.
    induction tgs as [|tg tgs IH]; intros st H; [exact I|]. cbn in H. apply andb_prop in H as [H1 H2].
    split; [apply tg_okb_spec; exact H1 | apply IH; exact H2].
  Qed.
End Facts.

(** FIXED write sets are left alone by re-ticking *)
Lemma retick_all_fixed gt tft tgs :
  forallb (forallb (fun w => ws_rt w =? RT_FIXED)) tgs = true -> map (map (retick gt tft)) tgs = tgs.
Proof.
  intros H. induction tgs as [|tg tgs IH]; [reflexivity|]. cbn in H. apply andb_prop in H as [H1 H2].
  cbn [map]. f_equal; [|apply IH; exact H2]. clear IH H2.
  induction tg as [|w tg IH]; [reflexivity|]. cbn in H1. apply andb_prop in H1 as [Hw Hr].
  cbn [map]. f_equal; [|apply IH; exact Hr]. unfold retick. apply Z.eqb_eq in Hw. rewrite Hw. reflexivity.
Qed.

Theorem replica_guarded gt tft tgs st :
  run_okb gt tft st tgs = true ->
  replica_run gt tft st tgs = ROk (master_run st (map (map (retick gt tft)) tgs)).
Proof. intros H. apply replica_characterised. apply run_okb_spec. exact H. Qed.

Theorem replica_fixed_guarded gt tft tgs st :
  run_okb gt tft st tgs = true -> forallb (forallb (fun w => ws_rt w =? RT_FIXED)) tgs = true ->
  replica_run gt tft st tgs = ROk (master_run st tgs).
Proof. intros H F. rewrite (replica_guarded gt tft tgs st H), (retick_all_fixed gt tft tgs F). reflexivity. Qed.
