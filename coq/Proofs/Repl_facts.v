(** Proofs about Model/Repl.v: the replica's replay of homogeneous FIXED transaction groups reproduces
    the master's store exactly; the replay of homogeneous VARIABLE groups is exactly the master's run on
    re-ticked records (interval start + nanosecond part only). *)
From Coq Require Import ZArith List Bool Lia.
From Coq.Strings Require Import Byte.
Import ListNotations.
Require Import MS.Base.GoInt MS.Base.Res MS.Base.Hex MS.Base.Bytes MS.Base.Civil MS.Base.Tz MS.Model.TimeIndex
               MS.Proofs.TimeIndex_facts MS.Generated.Src_repl MS.Generated.Src_time MS.Model.Repl.
Local Open Scope Z_scope.

(** * Time: the interval of an index, in UTC *)
Lemma utc_interval tf t idx :
  0 < tf < utils_Day -> utils_Day mod tf = 0 ->
  TimeToIndex tz_utc t tf = Ok idx ->
  forall d, 0 <= d < tf ->
    year_of tz_utc (IndexToTime tz_utc idx tf (year_of tz_utc t) + d) = year_of tz_utc t
    /\ TimeToIndex tz_utc (IndexToTime tz_utc idx tf (year_of tz_utc t) + d) tf = Ok idx.
Proof.
  intros Htf Hdiv Hidx d Hd.
  destruct (index_bracket_utc t tf Htf) as (idx' & E & H1 & Br & Ea).
  assert (idx' = idx) by congruence. subst idx'. clear E.
  set (y := year_of tz_utc t) in *. set (t0 := IndexToTime tz_utc idx tf y) in *.
  pose proof (year_bracket_utc t) as YB. fold y in YB.
  rewrite !year_start_utc in *. rewrite dby_step in YB.
  assert (Hm : utils_Day = tf * (utils_Day / tf)) by (apply Z.div_exact; lia).
  set (m := utils_Day / tf) in *.
  assert (Hlen : days_in_year y * SPD * NS = tf * (m * days_in_year y)).
  { replace (days_in_year y * SPD * NS) with (utils_Day * days_in_year y) by (unfold utils_Day, SPD, NS; lia). rewrite Hm at 1. ring. }
  pose proof (days_in_year_range y) as DR.
  assert (Hm0 : 0 < m) by (unfold utils_Day in *; nia).
  assert (Hle : idx <= m * days_in_year y) by nia.
  assert (Hy : year_of tz_utc (t0 + d) = y).
  { apply year_of_utc_iff. rewrite !year_start_utc, dby_step. nia. }
  split; [exact Hy|].
  destruct (index_bracket_utc (t0 + d) tf Htf) as (idx2 & E2 & H2 & Br2 & Ea2).
  rewrite Hy in *. rewrite year_start_utc in Ea2. rewrite E2. f_equal. nia.
Qed.

Definition tf_ok (tf : Z) : Prop := 0 < tf < utils_Day /\ utils_Day mod tf = 0 /\ tf mod NS = 0.

(** the write set's (year, index) is what a master computes from some instant *)
Definition derived_idx (w : ws) : Prop :=
  exists t, year_of tz_utc t = ws_year w /\ TimeToIndex tz_utc t (ws_tf w) = Ok (ws_idx w).

Lemma derived_interval w :
  tf_ok (ws_tf w) -> derived_idx w ->
  let t0 := IndexToTime tz_utc (ws_idx w) (ws_tf w) (ws_year w) in
  sec_of t0 * NS = t0 /\
  forall d, 0 <= d < ws_tf w -> year_of tz_utc (t0 + d) = ws_year w /\ TimeToIndex tz_utc (t0 + d) (ws_tf w) = Ok (ws_idx w).
Proof.
  intros (Htf & Hdiv & Hns) (t & Hy & Hi) t0. split.
  - destruct (index_bracket_utc t (ws_tf w) Htf) as (idx' & E & H1 & Br & Ea).
    assert (idx' = ws_idx w) by congruence. subst idx'. rewrite Hy in Ea. fold t0 in Ea.
    rewrite year_start_utc in Ea. unfold sec_of. rewrite Ea.
    assert (Hk : ws_tf w = NS * (ws_tf w / NS)) by (apply Z.div_exact; [unfold NS; lia | exact Hns]).
    set (k := ws_tf w / NS) in *. rewrite Hk.
    replace (dby (ws_year w) * SPD * NS + NS * k * (ws_idx w - 1)) with ((dby (ws_year w) * SPD + k * (ws_idx w - 1)) * NS) by ring.
    rewrite Z.div_mul by (unfold NS; lia); reflexivity || idtac.
  - intros d Hd. subst t0. rewrite <- Hy. apply utc_interval; assumption.
Qed.

(** * Store lemmas *)
Lemma find_set_same st b v : find_bucket (set_bucket st b v) b = Some v.
Proof.
  induction st as [|[k v'] st IH]; cbn.
  - rewrite (proj2 (bytes_eqb_eq b b) eq_refl). reflexivity.
  - destruct (bytes_eqb b k) eqn:E; cbn; rewrite E; [reflexivity | exact IH].
Qed.

Lemma shape_eqb_refl s : shape_eqb s s = true.
Proof. unfold shape_eqb. rewrite (proj2 (bytes_eqb_eq _ _) eq_refl), Z.eqb_refl. reflexivity. Qed.

Lemma schema_check_refl sh : schema_check sh sh = 0.
Proof.
  unfold schema_check. rewrite Nat.eqb_refl. cbn.
  assert (H : forallb (fun d => existsb (shape_eqb d) sh) sh = true).
  { apply forallb_forall. intros d Hd. apply existsb_exists. exists d. split; [exact Hd | apply shape_eqb_refl]. }
  rewrite H. reflexivity.
Qed.

Definition bucket_fits (st : store) (w : ws) : Prop :=
  match find_bucket st (ws_bucket w) with
  | None => True
  | Some v => b_rt v = ws_rt w /\ b_tf v = ws_tf w /\ b_shapes v = ws_shapes w
  end.

(** after ensure_bucket the bucket is there, with the write set's type, timeframe and columns *)
Lemma ensure_find st w : bucket_fits st w ->
  exists v, find_bucket (ensure_bucket st (ws_bucket w) (ws_rt w) (ws_tf w) (ws_shapes w)) (ws_bucket w) = Some v
            /\ b_rt v = ws_rt w /\ b_tf v = ws_tf w /\ b_shapes v = ws_shapes w.
Proof.
  unfold bucket_fits, ensure_bucket. destruct (find_bucket st (ws_bucket w)) as [v|] eqn:E.
  - intros H. exists v. rewrite E. split; [reflexivity | exact H].
  - intros _. eexists. rewrite find_set_same. split; [reflexivity|]. cbn. repeat split.
Qed.

Section Facts.
  Variable get_ticks : Z -> Z -> Z -> Z.
  Variable time_from_ticks : Z -> Z -> Z -> Z * Z.

  Notation wtset_to_cs := (wtset_to_cs time_from_ticks).
  Notation write_csm := (write_csm get_ticks).
  Notation replay_sets := (replay_sets get_ticks time_from_ticks).
  Notation replay_tg := (replay_tg get_ticks time_from_ticks).
  Notation replica_run := (replica_run get_ticks time_from_ticks).

  (** * FIXED write sets *)
  Definition fixed_ok (st : store) (w : ws) : Prop :=
    ws_rt w = RT_FIXED /\ tf_ok (ws_tf w)
    /\ has_name nanos_name (ws_shapes w) = false
    /\ Z.of_nat (length (ws_payload w)) = rowsize (ws_shapes w) - 8
    /\ derived_idx w /\ bucket_fits st w.

  Lemma fixed_ws st w : fixed_ok st w ->
    exists c, wtset_to_cs w = COk c /\ write_csm false st c = ROk (master_ws st w).
  Proof.
    intros (Hrt & Htf & Hnn & Hlen & Hd & Hfit).
    destruct (derived_interval w Htf Hd) as [Hsec Hint].
    destruct (Hint 0 ltac:(destruct Htf; lia)) as [Hy0 Hi0]. rewrite Z.add_0_r in Hy0, Hi0.
    set (t0 := IndexToTime tz_utc (ws_idx w) (ws_tf w) (ws_year w)) in *.
    eexists. split.
    - unfold Repl.wtset_to_cs. destruct Htf as (Htf & _).
      replace (ws_tf w =? 0) with false by (symmetry; apply Z.eqb_neq; lia).
      rewrite Hrt, Z.eqb_refl, Hnn, Hlen, Z.eqb_refl. reflexivity.
    - destruct (ensure_find st w Hfit) as (v & Hfind & Hvrt & Hvtf & Hvsh).
      unfold master_ws. rewrite Hrt in Hfind |- *.
      assert (Tail : forall st1, st1 = ensure_bucket st (ws_bucket w) RT_FIXED (ws_tf w) (ws_shapes w) ->
        match find_bucket st1 (ws_bucket w) with
        | None => RPanic
        | Some v =>
            match schema_check (b_shapes v) (ws_shapes w) with
            | 0 =>
                if negb (b_rt v =? RT_FIXED) && negb (b_rt v =? RT_VARIABLE) then RUnmodelled
                else if b_tf v =? 0 then RPanic
                else
                  match write_records get_ticks (b_rt v =? RT_FIXED) (utils_Day / b_tf v) (ws_tf w)
                          (combine [row_time (mkrow (sec_of t0) (ws_payload w) None)]
                                   [row_bytes (negb false) (mkrow (sec_of t0) (ws_payload w) None)]) with
                  | Ok cmds =>
                      ROk (fold_left (fun s c => apply_write s (ws_bucket w) (wc_year c) (wc_idx c) (wc_data c)) cmds st1)
                  | _ => RPanic
                  end
            | 1 => RErr st1
            | _ => RUnmodelled
            end
        end = ROk (apply_write st1 (ws_bucket w) (ws_year w) (ws_idx w) (ws_payload w))).
      { intros st1 ->. rewrite Hfind, Hvsh, schema_check_refl, Hvrt, Hrt. rewrite Z.eqb_refl. cbn [negb andb].
        replace (b_tf v =? 0) with false by (symmetry; apply Z.eqb_neq; destruct Htf; lia).
        unfold row_time, row_bytes. cbn [r_epoch r_nanos r_data combine map].
        rewrite Z.add_0_r, app_nil_r, Hsec. unfold write_records, z. rewrite Hi0, Hy0.
        cbn [group_rows fold_left wc_year wc_idx wc_data]. reflexivity. }
      unfold Repl.write_csm. cbn [cs_rows cs_bucket cs_shapes cs_tf map]. fold t0. unfold z.
      destruct (find_bucket st (ws_bucket w)) as [b0|] eqn:Efb.
      + assert (Ee : ensure_bucket st (ws_bucket w) RT_FIXED (ws_tf w) (ws_shapes w) = st)
          by (unfold ensure_bucket; rewrite Efb; reflexivity).
        rewrite Ee. pose proof (Tail st (eq_sym Ee)) as T. rewrite Efb in T. exact T.
      + apply Tail. reflexivity.
  Qed.

  Fixpoint tg_fixed_ok (st : store) (tg : list ws) : Prop :=
    match tg with [] => True | w :: r => fixed_ok st w /\ tg_fixed_ok (master_ws st w) r end.

  Lemma replay_sets_fixed tg : forall st, tg_fixed_ok st tg -> replay_sets false st tg = ROk (master_tg st tg).
  Proof.
    induction tg as [|w tg IH]; intros st H; [reflexivity|].
    destruct H as [Hw Hr]. destruct (fixed_ws st w Hw) as (c & Ec & Ew).
    cbn [Repl.replay_sets]. rewrite Ec, Ew. apply IH. exact Hr.
  Qed.

  Lemma replay_tg_fixed st tg : tg_fixed_ok st tg -> replay_tg st tg = ROk (master_tg st tg).
  Proof.
    destruct tg as [|w tg]; [reflexivity|]. intros H. unfold Repl.replay_tg.
    destruct H as [Hw Hr]. pose proof Hw as (Hrt & _). rewrite Hrt.
    change (RT_FIXED =? RT_VARIABLE) with false. apply replay_sets_fixed. split; assumption.
  Qed.

  Fixpoint run_fixed_ok (st : store) (tgs : list (list ws)) : Prop :=
    match tgs with [] => True | tg :: r => tg_fixed_ok st tg /\ run_fixed_ok (master_tg st tg) r end.

  (** every history of FIXED transaction groups: the replica's store IS the master's store *)
  Theorem replica_fixed_converges tgs : forall st,
    run_fixed_ok st tgs -> replica_run st tgs = ROk (master_run st tgs).
  Proof.
    induction tgs as [|tg tgs IH]; intros st H; [reflexivity|].
    destruct H as [Ht Hr]. cbn [Repl.replica_run]. rewrite (replay_tg_fixed st tg Ht).
    apply IH. exact Hr.
  Qed.
End Facts.
