(** The scanner stays in step with a well-formed prefix: on [status ++ records ++ junk] the first pass
    frames the status record and then every record of the prefix exactly, whatever [junk] is — records
    are read with their own lengths, so nothing behind them is consulted (except the total size, which
    only makes the length sanity test easier to pass).  Combined with WalScan_facts.intact_framed_applied
    this gives C06 (iii) in its (good ++ junk) form. *)
From Coq Require Import ZArith NArith List Bool Lia.
From Coq.Strings Require Import Byte.
Import ListNotations.
Require Import MS.Base.GoInt MS.Base.Res MS.Base.Hex MS.Base.Bytes MS.Generated.Src_wal MS.Model.TGCodec
               MS.Proofs.TGCodec_facts MS.Model.WalScan MS.Proofs.WalScan_facts.
Local Open Scope Z_scope.

Section Frame.
Variable md5 : list byte -> list byte.
Hypothesis md5_len : forall x, length (md5 x) = 16%nat.
Variable root : list byte.
Variable apply_ok : Z -> list wtset -> bool.

(** the records the writer emits after the status record *)
Inductive rec := RTxn (id dest status : Z) | RTG (body : list byte).

Definition enc_rec (r : rec) : list byte :=
  match r with RTxn i d s => rec_txn i d s | RTG b => rec_tg md5 b end.
Definition enc (l : list rec) : list byte := flat_map enc_rec l.

Definition wf_rec (r : rec) : Prop :=
  match r with
  | RTxn i d s => in_ity I64 i /\ (d = DEST_WAL \/ d = DEST_CHECKPOINT)
                  /\ (s = TXN_PREPARING \/ s = TXN_COMMITINTENDED \/ s = TXN_COMMITCOMPLETE)
  | RTG b => (8 <= length b)%nat /\ Z.of_nat (length b) < 2 ^ 62
  end.

Definition ev_of (p' : nat) (r : rec) : ev :=
  match r with RTxn i d s => EvTxn p' i d s | RTG b => EvTG p' (tg_id_of b) b end.

(* ------------------------------------------------------------------ reading the middle of a file *)

Lemma rd_mid bs a x s pos n : bs = a ++ x ++ s -> pos = length a -> n = length x -> rd bs pos n = x.
Proof.
  intros -> -> ->. unfold rd. rewrite skipn_app, skipn_all, Nat.sub_diag. cbn [skipn app].
  rewrite firstn_app, firstn_all, Nat.sub_diag. cbn [firstn]. now rewrite app_nil_r.
Qed.

Lemma wal_read_mid bs a x s pos n :
  bs = a ++ x ++ s -> pos = length a -> n = length x -> (1 <= n)%nat -> wal_read bs pos n = RdOk x.
Proof.
  intros Hb Hp Hn H1. unfold wal_read.
  assert (L : length bs = (length a + (length x + length s))%nat) by (rewrite Hb, !app_length; reflexivity).
  destruct (Nat.leb_spec (length bs) pos); [lia|].
  destruct (Nat.ltb_spec (length bs - pos) n); [lia|].
  f_equal. eapply rd_mid; eassumption.
Qed.

Lemma file_read_full_mid bs a x s pos n :
  bs = a ++ x ++ s -> pos = length a -> n = Z.of_nat (length x) -> n <> 0 -> file_read_full bs pos n = Some x.
Proof.
  intros Hb Hp Hn H0. unfold file_read_full.
  assert (L : length bs = (length a + (length x + length s))%nat) by (rewrite Hb, !app_length; reflexivity).
  destruct (Z.eqb_spec n 0); [contradiction|].
  destruct (Z.ltb_spec (Z.of_nat (length bs - pos)) n); [lia|].
  f_equal. eapply rd_mid; [exact Hb|exact Hp|lia].
Qed.

Lemma firstn_exact {A} n (a b : list A) : length a = n -> firstn n (a ++ b) = a.
Proof. intros <-. rewrite firstn_app, firstn_all, Nat.sub_diag. cbn. apply app_nil_r. Qed.

Lemma mid_byte (v : Z) : 0 <= v < 128 -> wrap I8 (Z_of_byte (byte_of_Z v)) = v.
Proof.
  intros H. rewrite Z_of_byte_of_Z, Z.mod_small by lia. apply wrap_small. unfold in_ity. cbn. lia.
Qed.

(* ------------------------------------------------------------------ one record *)

Lemma frame_txn pre suf i d s :
  wf_rec (RTxn i d s) ->
  next_msg md5 (pre ++ rec_txn i d s ++ suf) (length pre) = EvTxn (length pre + 11) i d s.
Proof.
  intros (Hi & Hd & Hs). unfold rec_txn.
  set (bs := pre ++ ([byte_of_Z MID_TXNINFO] ++ le_bytes 8 i ++ [byte_of_Z d; byte_of_Z s]) ++ suf).
  unfold next_msg.
  rewrite (wal_read_mid bs pre [byte_of_Z MID_TXNINFO] ((le_bytes 8 i ++ [byte_of_Z d; byte_of_Z s]) ++ suf) _ 1)
    by (try reflexivity; try lia; subst bs; now rewrite <- !app_assoc).
  cbn [nth]. rewrite mid_byte by (unfold MID_TXNINFO; lia).
  change (MID_TXNINFO =? MID_TGDATA) with false. change (MID_TXNINFO =? MID_TXNINFO) with true. cbv iota.
  unfold read_txn.
  rewrite (wal_read_mid bs (pre ++ [byte_of_Z MID_TXNINFO]) (le_bytes 8 i ++ [byte_of_Z d; byte_of_Z s]) suf _ 10)
    by (try lia; subst bs; rewrite ?app_length, ?length_le_bytes; cbn [length]; try lia; now rewrite <- !app_assoc).
  cbv zeta. rewrite firstn_exact by apply length_le_bytes.
  rewrite le_val_le_bytes.
  replace (256 ^ Z.of_nat 8) with (2 ^ ity_bits I64) by reflexivity. rewrite wrap_mod, (wrap_small I64) by exact Hi.
  rewrite !app_nth2 by (rewrite length_le_bytes; lia). rewrite length_le_bytes.
  change (8 - 8)%nat with 0%nat. change (9 - 8)%nat with 1%nat. cbn [nth].
  assert (Ed : wrap I8 (Z_of_byte (byte_of_Z d)) = d)
    by (apply mid_byte; destruct Hd as [-> | ->]; unfold DEST_WAL, DEST_CHECKPOINT; lia).
  assert (Es : wrap I8 (Z_of_byte (byte_of_Z s)) = s)
    by (apply mid_byte; destruct Hs as [-> | [-> | ->]]; unfold TXN_PREPARING, TXN_COMMITINTENDED, TXN_COMMITCOMPLETE; lia).
  rewrite Ed, Es.
  replace ((d =? DEST_CHECKPOINT) || (d =? DEST_WAL)) with true
    by (destruct Hd as [-> | ->]; reflexivity).
  replace ((s =? TXN_PREPARING) || (s =? TXN_COMMITINTENDED) || (s =? TXN_COMMITCOMPLETE)) with true
    by (destruct Hs as [-> | [-> | ->]]; reflexivity).
  cbn [negb]. f_equal. lia.
Qed.

Lemma frame_tg pre suf body :
  wf_rec (RTG body) ->
  next_msg md5 (pre ++ rec_tg md5 body ++ suf) (length pre)
  = EvTG (length pre + (1 + 8 + length body + 16)) (tg_id_of body) body.
Proof.
  intros (H7 & Hlt). unfold rec_tg.
  set (l8 := le_bytes 8 (Z.of_nat (length body))).
  set (ck := md5 (l8 ++ body)).
  set (bs := pre ++ ([byte_of_Z MID_TGDATA] ++ l8 ++ body ++ ck) ++ suf).
  assert (Ll : length l8 = 8%nat) by (subst l8; apply length_le_bytes).
  assert (Lc : length ck = 16%nat) by (subst ck; apply md5_len).
  assert (Lbs : length bs = (length pre + (1 + 8 + length body + 16) + length suf)%nat).
  { subst bs. rewrite !app_length. cbn [length]. lia. }
  unfold next_msg.
  rewrite (wal_read_mid bs pre [byte_of_Z MID_TGDATA] ((l8 ++ body ++ ck) ++ suf) _ 1)
    by (try reflexivity; try lia; subst bs; now rewrite <- !app_assoc).
  cbn [nth]. rewrite mid_byte by (unfold MID_TGDATA; lia).
  change (MID_TGDATA =? MID_TGDATA) with true. cbv iota.
  unfold read_tg, tgLenBytes, checkSumBytes, tgIDBytes, safetyFactor.
  change (Z.to_nat 8) with 8%nat. change (Z.to_nat 16) with 16%nat.
  rewrite (wal_read_mid bs (pre ++ [byte_of_Z MID_TGDATA]) l8 ((body ++ ck) ++ suf) _ 8)
    by (try lia; subst bs; rewrite ?app_length; cbn [length]; try lia; now rewrite <- !app_assoc).
  assert (Elen : wrap I64 (le_val l8) = Z.of_nat (length body)).
  { subst l8. rewrite le_val_le_bytes.
    replace (256 ^ Z.of_nat 8) with (2 ^ ity_bits I64) by reflexivity. rewrite wrap_mod.
    apply wrap_small. unfold in_ity. cbn. change (2 ^ 62) with 4611686018427387904 in Hlt. lia. }
  rewrite Elen.
  unfold size_z. rewrite Lbs.
  destruct (Z.ltb_spec (Z.of_nat (length body)) (1000 * Z.of_nat (length pre + (1 + 8 + length body + 16) + length suf))) as [_|Hc]; [|lia].
  destruct (Z.ltb_spec (Z.of_nat (length body)) 8) as [Hc|_]; [lia|].
  cbn [negb orb].
  destruct (Z.ltb_spec (Z.of_nat (length body)) 0) as [Hc|_]; [lia|].
  rewrite (file_read_full_mid bs ((pre ++ [byte_of_Z MID_TGDATA]) ++ l8) body (ck ++ suf))
    by (try lia; subst bs; rewrite ?app_length; cbn [length]; try lia; now rewrite <- !app_assoc).
  destruct (Z.ltb_spec (Z.of_nat (length body)) (8 - 1)) as [Hc|_]; [lia|].
  rewrite (file_read_full_mid bs (((pre ++ [byte_of_Z MID_TGDATA]) ++ l8) ++ body) ck suf)
    by (try lia; subst bs; rewrite ?app_length; cbn [length]; try lia; now rewrite <- !app_assoc).
  fold ck.
  replace (bytes_eqb ck ck) with true by (symmetry; apply bytes_eqb_eq; reflexivity).
  f_equal. lia.
Qed.

Lemma length_enc_rec r : wf_rec r -> (11 <= length (enc_rec r))%nat.
Proof.
  destruct r as [i d s|b]; cbn [enc_rec]; intros H.
  - unfold rec_txn. rewrite !app_length, length_le_bytes. cbn [length]. lia.
  - unfold rec_tg. rewrite !app_length, length_le_bytes, md5_len. cbn [length]. lia.
Qed.

Lemma frame_rec pre suf r :
  wf_rec r ->
  next_msg md5 (pre ++ enc_rec r ++ suf) (length pre) = ev_of (length pre + length (enc_rec r)) r.
Proof.
  destruct r as [i d s|b]; intros H; cbn [enc_rec ev_of].
  - rewrite frame_txn by exact H. f_equal; try (unfold rec_txn; rewrite !app_length, length_le_bytes; cbn [length]; lia).
  - rewrite frame_tg by exact H. f_equal; try (unfold rec_tg; rewrite !app_length, length_le_bytes, md5_len; cbn [length]; lia).
Qed.

(* ------------------------------------------------------------------ a list of records *)

Fixpoint evs_of (pos : nat) (l : list rec) : list ev :=
  match l with
  | [] => []
  | r :: rs => let p' := (pos + length (enc_rec r))%nat in ev_of p' r :: evs_of p' rs
  end.

Lemma ev_next_ev_of p r : ev_next (ev_of p r) = Some p.
Proof. destruct r; reflexivity. Qed.

Lemma events_recs : forall recs pre suf fuel,
  Forall wf_rec recs -> (length recs <= fuel)%nat ->
  events md5 fuel (pre ++ enc recs ++ suf) (length pre)
  = evs_of (length pre) recs
    ++ events md5 (fuel - length recs) (pre ++ enc recs ++ suf) (length pre + length (enc recs)).
Proof.
  induction recs as [|r rs IH]; intros pre suf fuel Hwf Hf.
  - cbn [enc flat_map evs_of app length]. rewrite Nat.sub_0_r, Nat.add_0_r. reflexivity.
  - inversion Hwf as [|? ? Hr Hrs]; subst.
    destruct fuel as [|f]; [cbn [length] in Hf; lia|].
    cbn [length] in Hf. cbn [enc flat_map]. fold (enc rs).
    cbn [events evs_of].
    replace (pre ++ (enc_rec r ++ enc rs) ++ suf) with (pre ++ enc_rec r ++ (enc rs ++ suf)) by now rewrite <- !app_assoc.
    rewrite frame_rec by exact Hr. rewrite ev_next_ev_of. cbn [app]. f_equal.
    replace (pre ++ enc_rec r ++ enc rs ++ suf) with ((pre ++ enc_rec r) ++ enc rs ++ suf) by now rewrite <- !app_assoc.
    replace (length pre + length (enc_rec r))%nat with (length (pre ++ enc_rec r)) by now rewrite app_length.
    rewrite IH by (try assumption; lia).
    f_equal. cbn [length]. rewrite !app_length. f_equal. lia.
Qed.

Lemma frame_status fs rs owner rest :
  next_msg md5 (rec_status fs rs owner ++ rest) 0 = EvSkip 11.
Proof.
  unfold rec_status.
  set (bs := ([byte_of_Z MID_STATUS; byte_of_Z fs; byte_of_Z rs] ++ le_bytes 8 owner) ++ rest).
  unfold next_msg.
  rewrite (wal_read_mid bs [] [byte_of_Z MID_STATUS] (([byte_of_Z fs; byte_of_Z rs] ++ le_bytes 8 owner) ++ rest) 0 1)
    by (try reflexivity; lia).
  cbn [nth]. rewrite mid_byte by (unfold MID_STATUS; lia).
  change (MID_STATUS =? MID_TGDATA) with false. change (MID_STATUS =? MID_TXNINFO) with false.
  change (MID_STATUS =? MID_STATUS) with true. cbv iota.
  unfold read_status.
  rewrite (wal_read_mid bs [byte_of_Z MID_STATUS] ([byte_of_Z fs; byte_of_Z rs] ++ le_bytes 8 owner) rest _ 10)
    by (try reflexivity; try lia; rewrite app_length, length_le_bytes; reflexivity).
  reflexivity.
Qed.

(** the frames of [status ++ records ++ junk]: the status record, the records, then whatever the scanner
    makes of the junk from the first byte behind the prefix *)
Theorem frames_good_prefix : forall fs rs owner recs junk,
  Forall wf_rec recs ->
  let good := rec_status fs rs owner ++ enc recs in
  let bs := good ++ junk in
  frames md5 bs = EvSkip 11 :: evs_of 11 recs
                  ++ events md5 (length bs - length recs) bs (length good).
Proof.
  intros fs rs owner recs junk Hwf good bs. unfold frames.
  assert (Lh : length (rec_status fs rs owner) = 11%nat)
    by (unfold rec_status; rewrite app_length, length_le_bytes; reflexivity).
  assert (Lr : (length recs <= length (enc recs))%nat).
  { clear - Hwf md5_len. induction Hwf as [|r l Hr _ IH]; cbn [enc flat_map length]; [lia|].
    fold (enc l). rewrite app_length. pose proof (length_enc_rec r Hr). lia. }
  cbn [events]. subst bs good. rewrite <- app_assoc.
  rewrite frame_status. cbn [ev_next]. f_equal.
  replace 11%nat with (length (rec_status fs rs owner)) by exact Lh.
  rewrite events_recs by (try assumption; rewrite !app_length; lia).
  rewrite Lh. f_equal; try (f_equal; rewrite !app_length; lia).
Qed.

(* ------------------------------------------------------------------ C06 (iii), good ++ junk form *)

Definition harmless_rec (t : Z) (r : rec) : bool :=
  match r with
  | RTxn i d s => negb ((d =? DEST_CHECKPOINT) && (s =? TXN_COMMITCOMPLETE) && (t <=? i))
  | RTG _ => true
  end.

Lemma harmless_evs_of t : forall l pos, forallb (harmless_rec t) l = true -> forallb (harmless t) (evs_of pos l) = true.
Proof.
  induction l as [|r l IH]; intros pos H; [reflexivity|].
  cbn [forallb] in H. apply andb_prop in H as [Hr Hl]. cbn [evs_of forallb].
  rewrite IH by exact Hl. rewrite andb_true_r. destruct r; cbn [ev_of harmless harmless_rec] in *; [exact Hr|reflexivity].
Qed.

(** [good] = status record ++ well-formed records, among them the intact transaction [body] (id t <> 0)
    with no checkpoint-commit record for an id >= t behind it; [junk] = arbitrary bytes whose frames
    contain no checkpoint-commit >= t either (no_spurious_checkpoint, F9).  If the whole file has no
    duplicated TGDATA key, and its intact records replay, then t is applied. *)
Theorem good_prefix_applied : forall fs rs owner r1 body r2 junk t,
  Forall wf_rec (r1 ++ RTG body :: r2) ->
  t = tg_id_of body -> t <> 0 ->
  forallb (harmless_rec t) r2 = true ->
  let good := rec_status fs rs owner ++ enc (r1 ++ RTG body :: r2) in
  let bs := good ++ junk in
  forallb (harmless t) (events md5 (length bs - length (r1 ++ RTG body :: r2)) bs (length good)) = true ->
  NoDup (keys (frames md5 bs)) ->
  (forall q id b, intact_at md5 bs q id b ->
     exists wts, parseTGData b root = Ok (id, wts) /\ (wts = [] \/ apply_ok id wts = true)) ->
  exists n, In (t, n) (r_applied (replay_bytes md5 root apply_ok bs)).
Proof.
  intros fs rs owner r1 body r2 junk t Hwf Ht Ht0 Hr2 good bs Hjunk Hnd Hall.
  pose proof (frames_good_prefix fs rs owner (r1 ++ RTG body :: r2) junk Hwf) as Hfr.
  cbv zeta in Hfr. fold good in Hfr. fold bs in Hfr.
  assert (Hsplit : forall l1 l2 pos, evs_of pos (l1 ++ l2) = evs_of pos l1 ++ evs_of (pos + length (enc l1)) l2).
  { induction l1 as [|r l1 IH]; intros l2 pos; cbn [app evs_of enc flat_map length].
    - now rewrite Nat.add_0_r.
    - fold (enc l1). rewrite IH. rewrite app_length. cbn [app]. f_equal. f_equal. f_equal. lia. }
  rewrite Hsplit in Hfr. cbn [evs_of ev_of] in Hfr. rewrite <- Ht in Hfr.
  rewrite <- app_assoc in Hfr. cbn [app] in Hfr.
  eapply (intact_framed_applied md5 root apply_ok bs (EvSkip 11 :: evs_of 11 r1)); [exact Hfr | exact Ht0 | exact Hnd | | exact Hall].
  rewrite forallb_app. rewrite harmless_evs_of by exact Hr2. exact Hjunk.
Qed.

(** the same with "the replay returned nil" in place of "every intact record replays" *)
Theorem good_prefix_applied_code0 : forall fs rs owner r1 body r2 junk t,
  Forall wf_rec (r1 ++ RTG body :: r2) ->
  t = tg_id_of body -> t <> 0 ->
  forallb (harmless_rec t) r2 = true ->
  let good := rec_status fs rs owner ++ enc (r1 ++ RTG body :: r2) in
  let bs := good ++ junk in
  forallb (harmless t) (events md5 (length bs - length (r1 ++ RTG body :: r2)) bs (length good)) = true ->
  NoDup (keys (frames md5 bs)) ->
  parseTGData body root <> Rejected ->
  r_code (replay_bytes md5 root apply_ok bs) = 0%nat ->
  exists n, In (t, n) (r_applied (replay_bytes md5 root apply_ok bs)).
Proof.
  intros fs rs owner r1 body r2 junk t Hwf Ht Ht0 Hr2 good bs Hjunk Hnd Hdec Hc0.
  pose proof (frames_good_prefix fs rs owner (r1 ++ RTG body :: r2) junk Hwf) as Hfr.
  cbv zeta in Hfr. fold good in Hfr. fold bs in Hfr.
  assert (Hsplit : forall l1 l2 pos, evs_of pos (l1 ++ l2) = evs_of pos l1 ++ evs_of (pos + length (enc l1)) l2).
  { induction l1 as [|r l1 IH]; intros l2 pos; cbn [app evs_of enc flat_map length].
    - now rewrite Nat.add_0_r.
    - fold (enc l1). rewrite IH. rewrite app_length. cbn [app]. f_equal. f_equal. f_equal. lia. }
  rewrite Hsplit in Hfr. cbn [evs_of ev_of] in Hfr. rewrite <- Ht in Hfr.
  rewrite <- app_assoc in Hfr. cbn [app] in Hfr.
  eapply (intact_framed_applied_code0 md5 root apply_ok bs (EvSkip 11 :: evs_of 11 r1)); [exact Hfr | exact Ht0 | exact Hnd | | exact Hdec | exact Hc0].
  rewrite forallb_app. rewrite harmless_evs_of by exact Hr2. exact Hjunk.
Qed.

End Frame.
