(** Union of the sweep shards: the 1-second round trip on every offset of the quick-tier blocks. *)
From Coq Require Import ZArith List Bool Lia.
Import ListNotations.
Require Import MS.Model.Ticks MS.Model.TicksPF MS.Proofs.Ticks_sweep
  MS.Proofs.Ticks_sweep_0 MS.Proofs.Ticks_sweep_1 MS.Proofs.Ticks_sweep_2 MS.Proofs.Ticks_sweep_3
  MS.Proofs.Ticks_sweep_4 MS.Proofs.Ticks_sweep_5 MS.Proofs.Ticks_sweep_6 MS.Proofs.Ticks_sweep_7.
Local Open Scope Z_scope.

Theorem sweep_blocks o : (exists lo, In lo block_starts /\ lo <= o < lo + block) ->
  dec_offset_pf 86400 (enc_pf 86400 o) = o.
Proof.
  intros (lo & Hin & Ho). apply rt_ok_spec.
  assert (B : Z.of_nat (Z.to_nat block) = block) by (apply Z2Nat.id; unfold block; lia).
  unfold block_starts in Hin. cbn [In] in Hin.
  destruct Hin as [<- | [<- | [<- | [<- | [<- | [<- | [<- | [<- | []]]]]]]]].
  - apply (sweep_sound _ _ sweep_block_0). rewrite B. exact Ho.
  - apply (sweep_sound _ _ sweep_block_1). rewrite B. exact Ho.
  - apply (sweep_sound _ _ sweep_block_2). rewrite B. exact Ho.
  - apply (sweep_sound _ _ sweep_block_3). rewrite B. exact Ho.
  - apply (sweep_sound _ _ sweep_block_4). rewrite B. exact Ho.
  - apply (sweep_sound _ _ sweep_block_5). rewrite B. exact Ho.
  - apply (sweep_sound _ _ sweep_block_6). rewrite B. exact Ho.
  - apply (sweep_sound _ _ sweep_block_7). rewrite B. exact Ho.
Qed.

(** The same on the Flocq model (Model/Ticks.v), through the proved equivalence of the two models. *)
Require Import MS.Base.GoInt MS.Proofs.Ticks_equiv.

Lemma enc_small ipd d : Ticks_equiv.small (enc ipd d).
Proof.
  unfold Ticks_equiv.small, enc. pose proof (wrap_range U32 (wrap I64 (f64_trunc (enc_float ipd d)))) as R.
  unfold in_ity, ity_min, ity_max in R. cbn [ity_signed ity_bits] in R. norm_pows. lia.
Qed.

Theorem sweep_blocks_flocq o : (exists lo, In lo block_starts /\ lo <= o < lo + block) ->
  dec_offset 86400 (enc 86400 o) = o.
Proof.
  intros Hb.
  assert (Ho : 0 <= o < 9223372036854775808).
  { destruct Hb as (lo & Hin & Hr). unfold block_starts, block in *. cbn [In] in Hin.
    repeat (destruct Hin as [<- | Hin]; [ lia | ]). contradiction. }
  assert (S : Ticks_equiv.small 86400) by (unfold Ticks_equiv.small; lia).
  pose proof (enc_pf_eq 86400 o S Ho) as E.
  pose proof (sweep_blocks o Hb) as P. rewrite E in P.
  rewrite (dec_offset_pf_eq 86400 (enc 86400 o) S (enc_small _ _)) in P. exact P.
Qed.
