(** Union of the sweep shards: the 1-second round trip on every offset of the quick-tier blocks. *)
From Coq Require Import ZArith List Bool Lia.
Import ListNotations.
Require Import MS.Model.Ticks MS.Model.TicksPF MS.Proofs.Ticks_sweep
  MS.Proofs.Ticks_sweep_0 MS.Proofs.Ticks_sweep_1 MS.Proofs.Ticks_sweep_2 MS.Proofs.Ticks_sweep_3
  MS.Proofs.Ticks_sweep_4 MS.Proofs.Ticks_sweep_5 MS.Proofs.Ticks_sweep_6 MS.Proofs.Ticks_sweep_7.
Local Open Scope Z_scope.

Theorem sweep_blocks o : (exists lo, In lo block_starts /\ lo <= o < lo + block) ->
  guard_1sec_pf o = true -> dec_offset_pf 86400 (enc_pf 86400 o) = o.
Proof.
  intros (lo & Hin & Ho) G. apply rt_ok_spec; [ | exact G ].
  assert (B : Z.of_nat (Z.to_nat block) = block) by (apply Z2Nat.id; unfold block; lia).
  unfold block_starts in Hin. cbn [In] in Hin.
  destruct Hin as [<- | [<- | [<- | [<- | [<- | [<- | [<- | [<- | []]]]]]]]].
  - apply (sweep_sound _ _ sweep_block_0). rewrite B. exact Ho.
  - apply (sweep_sound _ _ sweep_block_1). rewrite B. exact Ho.
  - apply (sweep_sound _ _ sweep_block_2). rewrite B. exact Ho.
  - apply (sweep_sound _ _ sweep_block_3). rewrite B. exact Ho.
  - apply (sweep_sound _ _ sweep_block_4). rewrite B. exact Ho.
  - apply (sweep_sound _ _ sweep_block_5). rewrite B. exact Ho.
  - apply (sweep_sound _ _ sweep_block_6). rewrite B. exact Ho.
  - apply (sweep_sound _ _ sweep_block_7). rewrite B. exact Ho.
Qed.
