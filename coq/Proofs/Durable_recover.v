(** Proofs/Durable_recover.v — what start-up recovery does on an image whose only WAL file (number 0)
    holds a writer's log with an arbitrary torn tail: it succeeds, the old WAL is replayed and deleted,
    and the primary files are exactly the crash-time files with the pending TGs executed in id order.

    WAL numbers: the crashed instance's WAL is 0, the recovering instance's is 1 (names only). *)
From Coq Require Import ZArith NArith List Bool Lia Permutation.
From Coq.Strings Require Import Byte.
Import ListNotations.
Require Import MS.Base.Res MS.Generated.Src_durab MS.Model.Wal MS.Model.Replay
  MS.Proofs.Durable_wal MS.Proofs.Durable_files MS.Proofs.Durable_exec MS.Proofs.Durable_flush.
Local Open Scope Z_scope.

Definition cmds_of (ts : list tg) : list cmd := flat_map snd ts.

Lemma cmds_of_app a b : cmds_of (a ++ b) = cmds_of a ++ cmds_of b.
Proof. unfold cmds_of. apply flat_map_app. Qed.

(** checkpoint / status events never touch primary files *)
Lemma checkpoint_events_wal_only w id : forallb wal_only (checkpoint_events w id) = true.
Proof. unfold checkpoint_events. destruct (id =? 0); reflexivity. Qed.
Lemma status_events_wal_only w a b c : forallb wal_only (status_events w a b c) = true.
Proof. reflexivity. Qed.

(** events that keep the set of WAL file names *)
Definition keepk (e : event) : bool :=
  match e with EWalUnlink _ | EWalRename _ | EWalCreate _ => false | _ => true end.
Lemma is_write_keepk es : forallb is_write es = true -> forallb keepk es = true.
Proof.
  induction es as [|e es IH]; [reflexivity|]. cbn [forallb]. intros H. apply andb_prop in H as [H1 H2].
  rewrite IH by assumption. destruct e; try discriminate; reflexivity.
Qed.
Lemma checkpoint_events_keepk w id : forallb keepk (checkpoint_events w id) = true.
Proof. unfold checkpoint_events. destruct (id =? 0); reflexivity. Qed.

Lemma keepk_keys es : forall im, forallb keepk es = true ->
  map fst (i_wals (apply_events im es)) = map fst (i_wals im).
Proof.
  induction es as [|e es IH]; intros im Hall; [reflexivity|].
  cbn [forallb] in Hall. apply andb_prop in Hall as [H1 H2].
  cbn [apply_events fold_left]. fold (apply_events (apply_event im e) es). rewrite IH by exact H2.
  destruct e; try discriminate; cbn [apply_event upd_wal upd_file i_wals]; try reflexivity;
    (induction (i_wals im) as [|[k v] l IHl]; cbn [aupdate map fst];
     [reflexivity|destruct (N.eqb _ k); cbn [map fst]; [reflexivity|f_equal; exact IHl]]).
Qed.

Lemma body_in_size l id cs : recs_meta_ok l -> In (RBody id cs) l -> body_len cs <= recs_size l.
Proof.
  induction l as [|r l IH]; intros Hm Hin; [destruct Hin|].
  assert (Hl : recs_meta_ok l) by (intros ? ? ?; eapply Hm; right; eassumption).
  pose proof (recs_size_nonneg l Hl) as Hnn.
  change (recs_size (r :: l)) with (rec_size r + recs_size l).
  destruct Hin as [->|Hin].
  - cbn [rec_size]. lia.
  - specialize (IH Hl Hin).
    assert (0 <= rec_size r) by (apply rec_size_nonneg; intros; subst; eapply Hm; left; reflexivity). lia.
Qed.

Lemma in_log_of its id cs : In (ITG id cs) its -> In (RBody id cs) (log_of its).
Proof.
  intros H. unfold log_of. apply in_flat_map. exists (ITG id cs). split; [assumption|].
  cbn. right. right. right. left. reflexivity.
Qed.

Section WithClen.
  Variable clen : list record -> Z.
  Hypothesis clen_pos : forall x, 0 < clen x.

  (* ---------------------------------------------------------------- replaying a list of TGs *)

  Lemma replay_tgs_exact (S : list tg) : forall w im,
    files_vinv (i_files im) -> all_ok (i_files im) (cmds_of S) ->
    exists evs, replay_tgs clen w im (map tg_entry S) = (evs, ROk)
      /\ fapplys (i_files im) evs = fapplys (i_files im) (fexec clen (i_files im) (cmds_of S))
      /\ forallb keepk evs = true.
  Proof.
    induction S as [|[id cs] S IH]; intros w im Hv Hok.
    - exists []. repeat split; reflexivity.
    - cbn [map tg_entry fst snd replay_tgs]. unfold cmds_of in Hok. cbn [flat_map snd] in Hok.
      fold (cmds_of S) in Hok. unfold all_ok in Hok. apply Forall_app in Hok as [Hok1 Hok2].
      destruct (fexec_ok clen clen_pos cs _ Hv Hok1) as (Hw & Hv1 & _).
      assert (Hrt : exists evs1, replay_tg clen w im id cs = (evs1, ROk)
                 /\ fapplys (i_files im) evs1 = fapplys (i_files im) (fexec clen (i_files im) cs)
                 /\ forallb keepk evs1 = true).
      { unfold replay_tg. destruct cs as [|c cs'].
        - exists []. repeat split; reflexivity.
        - rewrite (replay_cmds_fexec clen clen_pos) by assumption.
          eexists. split; [reflexivity|]. split.
          + rewrite fapplys_app. apply fapplys_wal_only, checkpoint_events_wal_only.
          + rewrite forallb_app, (is_write_keepk _ Hw), checkpoint_events_keepk. reflexivity. }
      destruct Hrt as (evs1 & Hrt & Hf1 & Hk1). rewrite Hrt.
      set (im1 := apply_events im evs1).
      assert (Hfs1 : i_files im1 = fapplys (i_files im) (fexec clen (i_files im) cs)).
      { unfold im1. rewrite i_files_apply_events. exact Hf1. }
      destruct (IH w im1) as (evs2 & Hr2 & Hf2 & Hk2).
      + rewrite Hfs1. exact Hv1.
      + rewrite Hfs1. apply all_ok_writes; assumption.
      + rewrite Hr2. eexists. split; [reflexivity|].
        split; [|rewrite forallb_app, Hk1, Hk2; reflexivity].
        rewrite fapplys_app. rewrite <- i_files_apply_events. fold im1. rewrite Hf2.
        unfold cmds_of. cbn [flat_map snd]. fold (cmds_of S).
        rewrite (fexec_app clen clen_pos) by assumption. rewrite fapplys_app, <- Hfs1. reflexivity.
  Qed.

  (* ---------------------------------------------------------------- Replay of the old WAL *)

  (** the old WAL file: a writer's log plus a torn tail *)
  Record wal_shape (wf : walfile) (fs0 rs owner : Z) (S : list tg) : Prop := {
    ws_status : wf_status wf = Some (fs0, rs, owner);
    ws_owner : owner <> 0;
    ws_needs : needs_replay rs = true;
    ws_log : exists its lo, NoDup (item_ids its) /\ incr_from lo S /\ 0 <= lo /\
               ((exists tl b, wf_recs wf = log_of its ++ tl /\ torn tl b /\ pend its [] = map tg_entry S)
                \/ (exists S0 id cs, wf_recs wf = log_of its ++ sum_recs id cs /\ ~ In id (item_ids its)
                      /\ pend its [] = map tg_entry S0 /\ S = S0 ++ [(id, cs)]));
    ws_meta : recs_meta_ok (wf_recs wf)
  }.

  Lemma wal_size_pos wf a : wf_status wf = Some a -> recs_meta_ok (wf_recs wf) -> 11 <= wal_size wf.
  Proof.
    intros Hs Hm. unfold wal_size. rewrite Hs. pose proof (recs_size_nonneg _ Hm) as H.
    unfold recs_size in H. change walStatusLenBytes with 10. lia.
  Qed.

  Lemma replay_wal_exact wf fs0 rs owner S im :
    wal_shape wf fs0 rs owner S ->
    files_vinv (i_files im) -> all_ok (i_files im) (cmds_of S) ->
    exists evs, replay_wal clen 0%N im wf rs owner = (evs, ROk)
      /\ fapplys (i_files im) evs = fapplys (i_files im) (fexec clen (i_files im) (cmds_of S))
      /\ forallb keepk evs = true.
  Proof.
    intros [Hst Hown Hneed (its & lo & Hnd & Hincr & Hlo & Hshape) Hmeta] Hv Hok.
    unfold replay_wal. rewrite Hneed.
    pose proof (wal_size_pos wf _ Hst Hmeta) as Hsz.
    assert (Hbody : forall id cs, In (RBody id cs) (wf_recs wf) -> body_len cs < safetyFactor * wal_size wf).
    { intros id cs Hin. pose proof (body_in_size _ id cs Hmeta Hin) as H.
      unfold wal_size in *. rewrite Hst in *. unfold recs_size in H.
      change safetyFactor with 1000. change walStatusLenBytes with 10 in *. lia. }
    set (e1 := status_events 0%N WFS_OPEN WRS_REPLAYINPROCESS owner).
    assert (Hfe1 : i_files (apply_events im e1) = i_files im).
    { rewrite i_files_apply_events. apply fapplys_wal_only. reflexivity. }
    destruct (replay_tgs_exact S 0%N (apply_events im e1)) as (evs & Hr & Hf & Hk).
    { rewrite Hfe1. exact Hv. }
    { rewrite Hfe1. exact Hok. }
    rewrite Hfe1 in Hf.
    assert (Hscan : exists m, scan (wf_recs wf) (wal_size wf) [] [] = ScanOk m
                     /\ replay_tgs clen 0%N (apply_events im e1) (sort_tgs m) = (evs, ROk)).
    { destruct Hshape as [(tl & b & Hrecs & Htorn & Hpend)|(S0 & id & cs & Hrecs & Hni & Hpend & HS)].
      - assert (Hsane : sane_items its (wal_size wf)).
        { intros id cs Hin. apply (Hbody id). rewrite Hrecs. apply in_or_app. left. apply in_log_of, Hin. }
        rewrite Hrecs, (scan_log_torn its tl b _ Hsane Hnd Htorn), Hpend. eexists. split; [reflexivity|].
        destruct b.
        + rewrite (sort_tgs_with_nil lo) by assumption. cbn [replay_tgs]. exact Hr.
        + rewrite (sort_tgs_incr lo) by assumption. exact Hr.
      - assert (Hsane : sane_items its (wal_size wf)).
        { intros id' cs' Hin. apply (Hbody id'). rewrite Hrecs. apply in_or_app. left. apply in_log_of, Hin. }
        assert (Hb : body_len cs < safetyFactor * wal_size wf).
        { apply (Hbody id). rewrite Hrecs. apply in_or_app. right. cbn. right. right. right. left. reflexivity. }
        rewrite Hrecs, (scan_log_sum its id cs _ Hsane Hb Hnd Hni), Hpend. eexists. split; [reflexivity|].
        subst S. change id with (fst (id, cs)). change (Some cs) with (Some (snd (id, cs))).
        rewrite (tg_set_entries_fresh lo) by assumption.
        rewrite (sort_tgs_incr lo) by assumption. exact Hr. }
    destruct Hscan as (m & Hsc & Hrp). rewrite Hsc, Hrp.
    eexists. split; [reflexivity|]. split.
    - rewrite !fapplys_app. rewrite (fapplys_wal_only e1) by reflexivity.
      rewrite Hf. apply fapplys_wal_only. reflexivity.
    - rewrite !forallb_app, Hk. reflexivity.
  Qed.

  (* ---------------------------------------------------------------- the whole start-up *)

  (** the image has exactly one WAL file, number 0 *)
  Definition one_wal (im : img) (wf : walfile) : Prop := i_wals im = [(0%N, wf)].

  Lemma i_wals_wal_event_other im e :
    files_only e = true -> i_wals (apply_event im e) = i_wals im.
  Proof. apply i_wals_files_only. Qed.

  Theorem recover_exact im wf fs0 rs owner S owner2 :
    one_wal im wf -> wal_shape wf fs0 rs owner S ->
    files_vinv (i_files im) -> all_ok (i_files im) (cmds_of S) ->
    exists evs, recover clen 1%N owner2 im = (evs, StartOk)
      /\ i_files (apply_events im evs) = fapplys (i_files im) (fexec clen (i_files im) (cmds_of S))
      /\ map fst (i_wals (apply_events im evs)) = [1%N].
  Proof.
    intros Hone Hshape Hv Hok. pose proof Hshape as [Hst Hown Hneed _ Hmeta].
    unfold recover. set (e0 := start_events 1%N owner2). set (im0 := apply_events im e0).
    assert (Hw0 : i_wals im0 = [(0%N, wf); (1%N, {| wf_status := Some (WFS_OPEN, WRS_NOTREPLAYED, owner2); wf_recs := [] |})]).
    { unfold im0, e0, start_events, status_events, apply_events. cbn [fold_left apply_event upd_wal i_wals i_aside i_files].
      rewrite Hone. reflexivity. }
    assert (Hf0 : i_files im0 = i_files im).
    { unfold im0. rewrite i_files_apply_events. apply fapplys_wal_only. reflexivity. }
    rewrite Hw0. cbn [map fst cleanup N.eqb Pos.eqb]. rewrite Hw0. cbn [alookup N.eqb].
    pose proof (wal_size_pos wf _ Hst Hmeta) as Hsz.
    assert (wal_size wf <=? walStatusLenBytes = false) as -> by (apply Z.leb_gt; change walStatusLenBytes with 10; lia).
    rewrite Hst. assert (owner =? 0 = false) as -> by (apply Z.eqb_neq; assumption).
    set (e1 := status_events 0%N fs0 rs owner).
    assert (Hf1 : i_files (apply_events im0 e1) = i_files im).
    { rewrite i_files_apply_events, Hf0. apply fapplys_wal_only. reflexivity. }
    destruct (replay_wal_exact wf fs0 rs owner S (apply_events im0 e1) Hshape) as (evs & Hr & Hf & Hk).
    { rewrite Hf1. exact Hv. }
    { rewrite Hf1. exact Hok. }
    rewrite Hr. rewrite Hf1 in Hf.
    set (evs' := e1 ++ evs ++ delete_events 0%N owner).
    assert (Hfin : i_files (apply_events im0 evs') = fapplys (i_files im) (fexec clen (i_files im) (cmds_of S))).
    { unfold evs'. rewrite i_files_apply_events, Hf0, !fapplys_app.
      rewrite (fapplys_wal_only e1) by reflexivity. rewrite Hf. apply fapplys_wal_only. reflexivity. }
    (* after the old WAL is deleted only WAL 1 remains, which is the recovering instance's own *)
    assert (Hkeys : map fst (i_wals (apply_events im0 evs')) = [1%N]).
    { unfold evs', delete_events. rewrite !app_assoc, apply_events_app.
      cbn [apply_events fold_left apply_event i_wals].
      set (imx := apply_events im0 _).
      assert (Hx : map fst (i_wals imx) = [0%N; 1%N]).
      { unfold imx. rewrite keepk_keys; [rewrite Hw0; reflexivity|].
        rewrite !forallb_app, Hk. reflexivity. }
      destruct (i_wals imx) as [|[k0 v0] [|[k1 v1] [|? ?]]]; try discriminate.
      cbn [map fst] in Hx. inversion Hx; subst. reflexivity. }
    destruct (cleanup clen 1%N (apply_events im0 evs') [1%N]) as [rest o] eqn:Ecl.
    cbn [cleanup N.eqb Pos.eqb] in Ecl. inversion Ecl; subst rest o.
    eexists. split; [reflexivity|]. rewrite app_nil_r.
    rewrite apply_events_app. fold im0. split; [exact Hfin|exact Hkeys].
  Qed.
End WithClen.
