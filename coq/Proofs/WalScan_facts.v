(** Facts about Model/WalScan.v (all over an arbitrary [md5], root and replayTGData outcome):
    - the first-pass loop terminates on EVERY byte string (each iteration consumes at least one byte);
    - a run-time panic can only come from a framed message of one of three kinds, or from ParseTGData
      on an intact record;
    - only intact records (stored digest = md5 of stored length and body) are ever applied;
    - an intact transaction that is framed, not zero, not followed by a checkpoint-commit record >= it,
      is applied, provided the run meets no panic frame / duplicate id and intact records replay. *)
From Coq Require Import ZArith NArith List Bool Lia.
From Coq.Strings Require Import Byte.
Import ListNotations.
Require Import MS.Base.GoInt MS.Base.Res MS.Base.Hex MS.Base.Bytes MS.Generated.Src_wal MS.Model.TGCodec
               MS.Proofs.TGCodec_facts MS.Model.WalScan.
Local Open Scope Z_scope.

Section Facts.
Variable md5 : list byte -> list byte.
Variable root : list byte.
Variable apply_ok : Z -> list wtset -> bool.

Notation next_msg := (next_msg md5).
Notation read_tg := (read_tg md5).
Notation scan := (scan md5).
Notation replay_bytes := (replay_bytes md5 root apply_ok).
Notation apply_sched := (apply_sched root apply_ok).

(* ------------------------------------------------------------------ reading *)

Lemma rd_length bs pos n : (n <= length bs - pos)%nat -> length (rd bs pos n) = n.
Proof. intros H. unfold rd. rewrite firstn_length, skipn_length. lia. Qed.

Lemma wal_read_ok bs pos n d : wal_read bs pos n = RdOk d -> (pos + n <= length bs)%nat /\ d = rd bs pos n.
Proof.
  unfold wal_read. destruct (Nat.leb_spec (length bs) pos); [discriminate|].
  destruct (Nat.ltb_spec (length bs - pos) n); [discriminate|].
  intros E; inversion E; subst. split; [lia|reflexivity].
Qed.

Lemma file_read_full_some bs pos n d :
  file_read_full bs pos n = Some d -> 0 <= n ->
  Z.of_nat (length d) = n /\ (n = 0 \/ (pos + length d <= length bs)%nat) /\ d = rd bs pos (Z.to_nat n).
Proof.
  unfold file_read_full. intros H Hn.
  destruct (Z.eqb_spec n 0) as [->|Hz].
  - inversion H; subst. cbn. auto.
  - destruct (Z.ltb_spec (Z.of_nat (length bs - pos)) n); [discriminate|].
    inversion H; subst. rewrite rd_length by lia. split; [lia|]. split; [right; lia|reflexivity].
Qed.

(* ------------------------------------------------------------------ every framed message advances *)

Definition ev_next (e : ev) : option nat :=
  match e with
  | EvSkip p | EvTxn p _ _ _ | EvTGBad p | EvTG p _ _ => Some p
  | _ => None
  end.

Lemma read_tg_advances bs p p' : ev_next (read_tg bs p) = Some p' -> (p < p' <= length bs)%nat.
Proof.
  unfold read_tg. unfold tgLenBytes, checkSumBytes, tgIDBytes. change (Z.to_nat 8) with 8%nat. change (Z.to_nat 16) with 16%nat.
  destruct (wal_read bs p 8) as [| |d] eqn:Er; cbn [ev_next]; try discriminate.
  apply wal_read_ok in Er as [Hr _].
  destruct (_ || _); cbn [ev_next]. { intros E; inversion E; subst. lia. }
  destruct (Z.ltb_spec (wrap I64 (le_val d)) 0) as [|Hpos]; cbn [ev_next]; [discriminate|].
  destruct (file_read_full bs (p + 8) (wrap I64 (le_val d))) as [body|] eqn:Eb; cbn [ev_next]; [|discriminate].
  apply file_read_full_some in Eb as (Hl & Hb & _); [|exact Hpos].
  destruct (_ <? 8 - 1); cbn [ev_next]; [discriminate|].
  destruct (file_read_full bs (p + 8 + length body) 16) as [ck|] eqn:Ec; cbn [ev_next]; [|discriminate].
  apply file_read_full_some in Ec as (Hlc & Hc & _); [|lia].
  destruct Hc as [Hc|Hc]; [lia|].
  assert (length ck = 16%nat) by lia.
  destruct (bytes_eqb _ _); cbn [ev_next]; intros E; inversion E; subst; lia.
Qed.

Lemma next_msg_advances bs pos p' : ev_next (next_msg bs pos) = Some p' -> (pos < p' <= length bs)%nat.
Proof.
  unfold WalScan.next_msg.
  destruct (wal_read bs pos 1) as [| |d] eqn:Er; cbn [ev_next]; try discriminate.
  apply wal_read_ok in Er as [Hr _].
  destruct (_ =? MID_TGDATA).
  { intros H. apply read_tg_advances in H. lia. }
  destruct (_ =? MID_TXNINFO).
  { unfold read_txn. destruct (wal_read bs (pos + 1) 10) as [| |d2] eqn:E2; cbn [ev_next]; try discriminate.
    apply wal_read_ok in E2 as [H2 _].
    destruct (negb _); cbn [ev_next]. { intros E; inversion E; subst; lia. }
    destruct (negb _); cbn [ev_next]; intros E; inversion E; subst; lia. }
  destruct (_ =? MID_STATUS).
  { unfold read_status. destruct (wal_read bs (pos + 1) 10) as [| |d2] eqn:E2; cbn [ev_next]; try discriminate.
    apply wal_read_ok in E2 as [H2 _]. intros E; inversion E; subst; lia. }
  cbn [ev_next]. intros E; inversion E; subst; lia.
Qed.

(** C06 (i), the "nor hangs" half, for EVERY byte string: the loop never needs more iterations than
    there are bytes left *)
Lemma scan_fuel_enough : forall fuel bs pos m seen,
  (length bs - pos < fuel)%nat -> scan fuel bs pos m seen <> SFuel.
Proof.
  induction fuel as [|f IH]; intros bs pos m seen Hf; [lia|].
  cbn [WalScan.scan].
  destruct (next_msg bs pos) as [tg0|p'|p' id dest st|p'|p' id body|c] eqn:E; try discriminate.
  - assert (A : ev_next (next_msg bs pos) = Some p') by (rewrite E; reflexivity).
    apply next_msg_advances in A. apply IH. lia.
  - assert (A : ev_next (next_msg bs pos) = Some p') by (rewrite E; reflexivity).
    apply next_msg_advances in A. apply IH. lia.
  - assert (A : ev_next (next_msg bs pos) = Some p') by (rewrite E; reflexivity).
    apply next_msg_advances in A. destruct (zmem 0 seen); [discriminate|]. apply IH. lia.
  - assert (A : ev_next (next_msg bs pos) = Some p') by (rewrite E; reflexivity).
    apply next_msg_advances in A. destruct (zmem id seen); [discriminate|]. apply IH. lia.
Qed.

(* ------------------------------------------------------------------ the event list of a file *)

Fixpoint events (fuel : nat) (bs : list byte) (pos : nat) : list ev :=
  match fuel with
  | O => []
  | S f => let e := next_msg bs pos in
           e :: match ev_next e with Some p' => events f bs p' | None => [] end
  end.

(** layer 2 as a fold over events *)
Fixpoint run_evs (evs : list ev) (m : tgmap) (seen : list Z) : sout :=
  match evs with
  | [] => SFuel
  | e :: r =>
      match e with
      | EvStop tg0 => SDone (if tg0 then mset 0 None m else m)
      | EvSkip _ => run_evs r m seen
      | EvTxn _ id dest status =>
          let m' := if (dest =? DEST_CHECKPOINT) && (status =? TXN_COMMITCOMPLETE) && mmem id m
                    then mprune id m else m in
          run_evs r m' seen
      | EvTGBad _ => if zmem 0 seen then SAbort else run_evs r (mset 0 None m) (0 :: seen)
      | EvTG _ id body => if zmem id seen then SAbort else run_evs r (mset id (Some body) m) (id :: seen)
      | EvPanic c => SPanic c
      end
  end.

Lemma scan_run_evs : forall fuel bs pos m seen, scan fuel bs pos m seen = run_evs (events fuel bs pos) m seen.
Proof.
  induction fuel as [|f IH]; intros; [reflexivity|].
  cbn [WalScan.scan events]. destruct (next_msg bs pos); cbn [ev_next run_evs]; try reflexivity; try apply IH.
  - destruct (zmem 0 seen); [reflexivity|apply IH].
  - destruct (zmem id seen); [reflexivity|apply IH].
Qed.

Definition is_panic_ev (e : ev) : bool := match e with EvPanic _ => true | _ => false end.

(** the frames of the file as Replay's first pass meets them *)
Definition frames (bs : list byte) : list ev := events (S (length bs)) bs 0.
Definition no_panic_frames (bs : list byte) : bool := forallb (fun e => negb (is_panic_ev e)) (frames bs).

Lemma run_evs_no_panic : forall evs m seen c,
  forallb (fun e => negb (is_panic_ev e)) evs = true -> run_evs evs m seen <> SPanic c.
Proof.
  induction evs as [|e r IH]; intros m seen c H; cbn [run_evs]; [discriminate|].
  cbn [forallb] in H. apply andb_prop in H as [He Hr].
  destruct e; cbn [is_panic_ev negb] in He; try discriminate; try (apply IH; exact Hr).
  - destruct (zmem 0 seen); [discriminate|apply IH; exact Hr].
  - destruct (zmem id seen); [discriminate|apply IH; exact Hr].
Qed.

(* ------------------------------------------------------------------ intact records *)

(** an intact TGDATA record stands at offset [p]: message id, 8 length bytes, body, and a stored digest
    equal to md5 (length bytes ++ body) *)
Definition intact_at (bs : list byte) (p : nat) (id : Z) (body : list byte) : Prop :=
  exists d,
    wal_read bs (p + 1) 8 = RdOk d
    /\ wrap I64 (le_val d) = Z.of_nat (length body)
    /\ (7 <= length body)%nat
    /\ (p + 9 + length body + 16 <= length bs)%nat
    /\ rd bs (p + 9) (length body) = body
    /\ rd bs (p + 9 + length body) 16 = md5 (d ++ body)
    /\ id = tg_id_of body.

Lemma bytes_eqb_true a b : bytes_eqb a b = true -> a = b.
Proof. apply bytes_eqb_eq. Qed.

Lemma read_tg_intact bs p p' id body :
  read_tg bs (p + 1) = EvTG p' id body -> intact_at bs p id body.
Proof.
  unfold WalScan.read_tg. unfold tgLenBytes, checkSumBytes, tgIDBytes. change (Z.to_nat 8) with 8%nat. change (Z.to_nat 16) with 16%nat.
  destruct (wal_read bs (p + 1) 8) as [| |d] eqn:Er; try discriminate.
  destruct (_ || _); [discriminate|].
  destruct (Z.ltb_spec (wrap I64 (le_val d)) 0) as [|Hpos]; [discriminate|].
  destruct (file_read_full bs (p + 1 + 8) (wrap I64 (le_val d))) as [b|] eqn:Eb; [|discriminate].
  apply file_read_full_some in Eb as (Hl & Hb & Hbd); [|exact Hpos].
  destruct (Z.ltb_spec (wrap I64 (le_val d)) (8 - 1)) as [|H7]; [discriminate|].
  destruct (file_read_full bs (p + 1 + 8 + length b) 16) as [ck|] eqn:Ec; [|discriminate].
  apply file_read_full_some in Ec as (Hlc & Hc & Hcd); [|lia].
  destruct (bytes_eqb (md5 (d ++ b)) ck) eqn:Em; [|discriminate].
  intros E; inversion E; subst p' id body. clear E.
  apply bytes_eqb_true in Em.
  exists d. split; [exact Er|]. split; [lia|]. split; [lia|].
  destruct Hc as [Hc|Hc]; [lia|]. destruct Hb as [Hb|Hb]; [lia|].
  replace (p + 9)%nat with (p + 1 + 8)%nat by lia.
  split; [lia|]. split.
  - rewrite Hbd at 2. f_equal. lia.
  - split; [|reflexivity]. rewrite Em. rewrite Hcd. reflexivity.
Qed.

Lemma next_msg_intact bs pos p' id body :
  next_msg bs pos = EvTG p' id body -> intact_at bs pos id body.
Proof.
  unfold WalScan.next_msg.
  destruct (wal_read bs pos 1) as [| |d]; try discriminate.
  destruct (_ =? MID_TGDATA). { apply read_tg_intact. }
  destruct (_ =? MID_TXNINFO).
  { unfold read_txn. destruct (wal_read bs (pos + 1) 10); try discriminate.
    destruct (negb _); [discriminate|]. destruct (negb _); discriminate. }
  destruct (_ =? MID_STATUS).
  { unfold read_status. destruct (wal_read bs (pos + 1) 10); discriminate. }
  discriminate.
Qed.

Lemma events_intact : forall fuel bs pos p' id body,
  In (EvTG p' id body) (events fuel bs pos) -> exists p, intact_at bs p id body.
Proof.
  induction fuel as [|f IH]; intros bs pos p' id body H; [contradiction|].
  cbn [events] in H. destruct H as [H|H].
  - exists pos. eapply next_msg_intact. exact H.
  - destruct (ev_next (next_msg bs pos)); [eapply IH; exact H|contradiction].
Qed.

(* ------------------------------------------------------------------ the map only ever holds framed bodies *)

Definition map_from (evs : list ev) (m : tgmap) : Prop :=
  forall k b, In (k, Some b) m -> exists p', In (EvTG p' k b) evs.

Lemma In_mdel k e (m : tgmap) : In e (mdel k m) -> In e m.
Proof. unfold mdel. intros H. apply filter_In in H. tauto. Qed.
Lemma In_mprune k e (m : tgmap) : In e (mprune k m) -> In e m.
Proof. unfold mprune. intros H. apply filter_In in H. tauto. Qed.

Lemma run_evs_map_from : forall evs all m seen m',
  (forall e, In e evs -> In e all) -> map_from all m ->
  run_evs evs m seen = SDone m' -> map_from all m'.
Proof.
  induction evs as [|e r IH]; intros all m seen m' Hsub Hm H; cbn [run_evs] in H; [discriminate|].
  assert (Hr : forall e', In e' r -> In e' all) by (intros; apply Hsub; right; assumption).
  destruct e.
  - inversion H; subst. destruct tg0; [|exact Hm].
    intros k b Hin. destruct Hin as [Hin|Hin]; [inversion Hin|]. apply Hm. eapply In_mdel; eassumption.
  - eapply IH; eassumption.
  - eapply IH; [exact Hr| |exact H].
    destruct (_ && _); [|exact Hm]. intros k b Hin. apply Hm. eapply In_mprune; eassumption.
  - destruct (zmem 0 seen); [discriminate|]. eapply IH; [exact Hr| |exact H].
    intros k b Hin. destruct Hin as [Hin|Hin]; [inversion Hin|]. apply Hm. eapply In_mdel; eassumption.
  - destruct (zmem id seen); [discriminate|]. eapply IH; [exact Hr| |exact H].
    intros k b Hin. destruct Hin as [Hin|Hin].
    + inversion Hin; subst. exists pos'. apply Hsub. left. reflexivity.
    + apply Hm. eapply In_mdel; eassumption.
  - discriminate.
Qed.

(* ------------------------------------------------------------------ second pass *)

Lemma insert_key_In e x l : In x (insert_key e l) <-> x = e \/ In x l.
Proof.
  induction l as [|y r IH]; cbn [insert_key].
  - cbn. intuition.
  - destruct (fst e <=? fst y); cbn [In]; [intuition|]. rewrite IH. intuition.
Qed.

Lemma sort_keys_In x m : In x (sort_keys m) <-> In x m.
Proof.
  unfold sort_keys. induction m as [|y r IH]; cbn [fold_right]; [reflexivity|].
  rewrite insert_key_In, IH. cbn [In]. intuition.
Qed.

Lemma schedule_In k b m : In (k, b) (schedule m) <-> In (k, Some b) m.
Proof.
  unfold schedule. rewrite in_flat_map. split.
  - intros ((k', v) & Hin & Hx). apply (proj1 (sort_keys_In _ _)) in Hin. cbn [fst snd] in Hx.
    destruct v as [b'|]; [|contradiction]. destruct Hx as [Hx|[]]. inversion Hx; subst. exact Hin.
  - intros Hin. exists (k, Some b). split; [apply (proj2 (sort_keys_In _ _)); exact Hin|]. cbn. left. reflexivity.
Qed.

(** ParseTGData returns the id stored in the first eight bytes, which is the key readTGData computed *)
Lemma parse_id_is_key body tgid wts : parseTGData body root = Ok (tgid, wts) -> tg_id_of body = tgid.
Proof.
  intros H. apply parseTGData_ok in H. revert H.
  unfold ParseTGData, tgIDLenBytes, wtCountLenBytes. intros H.
  apply bind_ok in H as (b & Hs & H). apply bind_ok in H as (id & Hid & H).
  apply bind_ok in H as (b2 & Hs2 & H). apply bind_ok in H as (cnt & Hc & H).
  destruct (cnt <? 0); [discriminate|]. apply bind_ok in H as (ws & _ & H). inversion H; subst. clear H.
  pose proof (slice_ok_length _ _ _ _ Hs) as (_ & _ & Hlen & Hbl).
  assert (Hb : b = firstn 8 body).
  { unfold slice in Hs. destruct (_ && _); [|discriminate].
    change (Z.to_nat (8 - 0)) with 8%nat in Hs. change (Z.to_nat 0) with 0%nat in Hs.
    change (skipn 0 body) with body in Hs. congruence. }
  subst b.
  unfold to_int in Hid. change (ity_width I64) with 8%nat in Hid.
  destruct (length (firstn 8 body) <? 8)%nat; [discriminate|].
  assert (Hid' : tgid = wrap I64 (le_val (firstn 8 (firstn 8 body)))) by congruence.
  subst tgid. unfold tg_id_of. f_equal. f_equal.
  rewrite firstn_firstn. change (Init.Nat.min 8 8) with 8%nat.
  rewrite firstn_app. replace (8 - length body)%nat with 0%nat by lia. cbn [firstn]. now rewrite app_nil_r.
Qed.

Lemma apply_sched_applied : forall s tgid n,
  In (tgid, n) (r_applied (apply_sched s)) ->
  exists k body wts, In (k, body) s /\ parseTGData body root = Ok (tgid, wts) /\ n = length wts.
Proof.
  induction s as [|[k body] r IH]; intros tgid n H; cbn [WalScan.apply_sched] in H; [contradiction|].
  destruct (parseTGData body root) as [[id wts]| |] eqn:Ep; cbn [r_applied] in H; try contradiction.
  - destruct (_ || _); cbn [r_applied] in H; [|contradiction].
    destruct H as [H|H].
    + inversion H; subst. exists k, body, wts. split; [left; reflexivity|]. split; [exact Ep|reflexivity].
    + apply IH in H as (k' & b' & w' & Hin & Hp & Hn). exists k', b', w'. split; [right; exact Hin|]. split; assumption.
  - apply IH in H as (k' & b' & w' & Hin & Hp & Hn). exists k', b', w'. split; [right; exact Hin|]. split; assumption.
Qed.

(** C06 (ii): whatever the bytes, an applied transaction is an intact record of the file *)
Theorem applied_is_intact : forall bs tgid n,
  In (tgid, n) (r_applied (replay_bytes bs)) -> exists p body, intact_at bs p tgid body.
Proof.
  intros bs tgid n H. unfold WalScan.replay_bytes in H.
  destruct (scan (S (length bs)) bs 0 [] []) as [m| | |] eqn:Es; cbn [r_applied] in H; try contradiction.
  apply apply_sched_applied in H as (k & body & wts & Hin & Hp & _).
  apply (proj1 (schedule_In _ _ _)) in Hin.
  rewrite scan_run_evs in Es.
  eapply run_evs_map_from in Es; [| intros e He; exact He | intros ? ? []].
  apply Es in Hin as (p' & Hev). apply events_intact in Hev as (p & Hi).
  exists p, body. destruct Hi as (d & H1 & H2 & H3 & H4 & H5 & H6 & H7).
  exists d. repeat split; try assumption. apply parse_id_is_key in Hp. congruence.
Qed.

(* ------------------------------------------------------------------ (i): no panic, for every byte string *)

(** the two panic outcomes kept in [read_tg] (make with a negative length, [:7] of a shorter slice) lie
    behind the test [tgLen < tgIDBytes] and are unreachable *)
Lemma read_tg_no_panic bs p c : read_tg bs p <> EvPanic c.
Proof.
  unfold WalScan.read_tg. unfold tgLenBytes, checkSumBytes, tgIDBytes. change (Z.to_nat 8) with 8%nat. change (Z.to_nat 16) with 16%nat.
  destruct (wal_read bs p 8) as [| |d]; try discriminate.
  destruct (Z.ltb_spec (wrap I64 (le_val d)) 8) as [Hlt|Hge].
  - rewrite orb_true_r. discriminate.
  - rewrite orb_false_r. destruct (negb _); [discriminate|].
    destruct (Z.ltb_spec (wrap I64 (le_val d)) 0); [lia|].
    destruct (file_read_full bs (p + 8) (wrap I64 (le_val d))) as [body|]; [|discriminate].
    destruct (Z.ltb_spec (wrap I64 (le_val d)) (8 - 1)); [lia|].
    destruct (file_read_full bs (p + 8 + length body) 16) as [ck|]; [|discriminate].
    destruct (bytes_eqb _ _); discriminate.
Qed.

Lemma next_msg_no_panic bs pos c : next_msg bs pos <> EvPanic c.
Proof.
  unfold WalScan.next_msg.
  destruct (wal_read bs pos 1) as [| |d]; try discriminate.
  destruct (_ =? MID_TGDATA). { apply read_tg_no_panic. }
  destruct (_ =? MID_TXNINFO).
  { unfold read_txn. destruct (wal_read bs (pos + 1) 10); try discriminate.
    destruct (negb _); [discriminate|]. destruct (negb _); discriminate. }
  destruct (_ =? MID_STATUS).
  { unfold read_status. destruct (wal_read bs (pos + 1) 10); discriminate. }
  discriminate.
Qed.

Lemma events_no_panic : forall fuel bs pos, forallb (fun e => negb (is_panic_ev e)) (events fuel bs pos) = true.
Proof.
  induction fuel as [|f IH]; intros bs pos; cbn [events forallb]; [reflexivity|].
  apply andb_true_intro. split.
  - destruct (next_msg bs pos) eqn:E; try reflexivity. exfalso. eapply next_msg_no_panic. exact E.
  - destruct (ev_next (next_msg bs pos)); [apply IH|reflexivity].
Qed.

Lemma frames_no_panic bs : no_panic_frames bs = true.
Proof. apply events_no_panic. Qed.

Lemma apply_sched_no_panic : forall s, r_code (apply_sched s) <> 2%nat /\ r_code (apply_sched s) <> 4%nat.
Proof.
  induction s as [|[k body] r IH]; cbn [WalScan.apply_sched]; [cbn; split; discriminate|].
  destruct (parseTGData body root) as [[id wts]| |] eqn:Ep.
  - destruct (_ || _); cbn [r_code]; [exact IH|split; discriminate].
  - exact IH.
  - exfalso. eapply parseTGData_no_panic. exact Ep.
Qed.

(** C06 (i), UNGUARDED after the fix: whatever the bytes, startup replay neither panics nor hangs *)
Theorem replay_no_panic : forall bs,
  r_code (replay_bytes bs) <> 2%nat /\ r_code (replay_bytes bs) <> 4%nat.
Proof.
  intros bs. unfold WalScan.replay_bytes.
  destruct (scan (S (length bs)) bs 0 [] []) as [m| |c|] eqn:Es.
  - apply apply_sched_no_panic.
  - cbn. split; discriminate.
  - exfalso. rewrite scan_run_evs in Es. eapply run_evs_no_panic; [apply events_no_panic|exact Es].
  - exfalso. eapply scan_fuel_enough; [|exact Es]. lia.
Qed.

(** the unguarded half of (i): whatever the bytes, the model never runs out of fuel (no hang) *)
Theorem replay_terminates : forall bs, r_code (replay_bytes bs) <> 4%nat.
Proof. intros bs. apply replay_no_panic. Qed.

(* ------------------------------------------------------------------ (iii): an intact framed transaction is applied *)

(** the event neither prunes nor replaces transaction [t]: it is not a checkpoint-commit record for an id >= t *)
Definition harmless (t : Z) (e : ev) : bool :=
  match e with
  | EvTxn _ id dest st => negb ((dest =? DEST_CHECKPOINT) && (st =? TXN_COMMITCOMPLETE) && (t <=? id))
  | _ => true
  end.

(** the key under which a TGDATA frame enters the duplicate test (a failed read counts as id 0) *)
Definition ev_key (e : ev) : list Z :=
  match e with EvTGBad _ => [0] | EvTG _ id _ => [id] | _ => [] end.
Definition keys (evs : list ev) : list Z := flat_map ev_key evs.

Lemma zmem_In k l : zmem k l = true <-> In k l.
Proof.
  unfold zmem. rewrite existsb_exists. split.
  - intros (x & Hin & E). apply Z.eqb_eq in E. subst. exact Hin.
  - intros H. exists k. split; [exact H|apply Z.eqb_refl].
Qed.

Lemma run_evs_no_abort : forall evs m seen,
  NoDup (keys evs) -> (forall k, In k (keys evs) -> ~ In k seen) -> run_evs evs m seen <> SAbort.
Proof.
  induction evs as [|e r IH]; intros m seen Hnd Hs; cbn [run_evs]; [discriminate|].
  unfold keys in *. cbn [flat_map] in *.
  destruct e; cbn [ev_key app] in *; try discriminate; try (apply IH; assumption).
  - destruct (zmem 0 seen) eqn:Ez.
    + exfalso. apply zmem_In in Ez. eapply Hs; [left; reflexivity|exact Ez].
    + inversion Hnd; subst. apply IH; [assumption|].
      intros k Hk [Hk0|Hk0]; [subst; contradiction|]. eapply Hs; [right; exact Hk|exact Hk0].
  - destruct (zmem id seen) eqn:Ez.
    + exfalso. apply zmem_In in Ez. eapply Hs; [left; reflexivity|exact Ez].
    + inversion Hnd; subst. apply IH; [assumption|].
      intros k Hk [Hk0|Hk0]; [subst; contradiction|]. eapply Hs; [right; exact Hk|exact Hk0].
Qed.

Lemma In_mset_other t (b : list byte) k v (m : tgmap) : t <> k -> In (t, Some b) m -> In (t, Some b) (mset k v m).
Proof.
  intros Hne Hin. unfold mset. right. unfold mdel. apply filter_In. split; [exact Hin|].
  cbn [fst]. apply negb_true_iff. apply Z.eqb_neq. exact Hne.
Qed.

Lemma run_evs_keeps : forall evs t b m seen m',
  In (t, Some b) m -> t <> 0 -> forallb (harmless t) evs = true -> ~ In t (keys evs) ->
  run_evs evs m seen = SDone m' -> In (t, Some b) m'.
Proof.
  induction evs as [|e r IH]; intros t b m seen m' Hin Ht Hh Hk H; cbn [run_evs] in H; [discriminate|].
  cbn [forallb] in Hh. apply andb_prop in Hh as [He Hr].
  unfold keys in Hk. cbn [flat_map] in Hk. rewrite in_app_iff in Hk.
  assert (Hkr : ~ In t (keys r)) by (intros X; apply Hk; right; exact X).
  destruct e.
  - inversion H; subst. destruct tg0; [|exact Hin]. apply In_mset_other; assumption.
  - eapply IH; eassumption.
  - eapply IH; [| exact Ht | exact Hr | exact Hkr | exact H].
    cbn [harmless] in He.
    destruct ((dest =? DEST_CHECKPOINT) && (status =? TXN_COMMITCOMPLETE)) eqn:Ec; cbn [andb] in *.
    + destruct (mmem id m); [|exact Hin].
      apply negb_true_iff in He. apply Z.leb_gt in He.
      unfold mprune. apply filter_In. split; [exact Hin|]. cbn [fst]. apply Z.ltb_lt. exact He.
    + exact Hin.
  - destruct (zmem 0 seen); [discriminate|].
    eapply IH; [| exact Ht | exact Hr | exact Hkr | exact H]. apply In_mset_other; assumption.
  - destruct (zmem id seen); [discriminate|].
    eapply IH; [| exact Ht | exact Hr | exact Hkr | exact H].
    apply In_mset_other; [|exact Hin]. intros ->. apply Hk. left. cbn. left. reflexivity.
  - discriminate.
Qed.

(** every event before the last one of an event list continues the loop *)
Definition continuing (e : ev) : Prop := ev_next e <> None.

Lemma events_prefix_continuing : forall fuel bs pos pre e post,
  events fuel bs pos = pre ++ e :: post -> Forall continuing pre.
Proof.
  induction fuel as [|f IH]; intros bs pos pre e post H; cbn [events] in H.
  - destruct pre; discriminate.
  - destruct pre as [|x pre]; [constructor|].
    cbn [app] in H. inversion H as [[Hx Hrest]]. clear H.
    destruct (ev_next (next_msg bs pos)) as [p'|] eqn:En.
    + constructor; [unfold continuing; rewrite En; discriminate|]. eapply IH. exact Hrest.
    + destruct pre; discriminate.
Qed.

Lemma run_evs_through : forall pre rest m seen m',
  Forall continuing pre -> run_evs (pre ++ rest) m seen = SDone m' ->
  exists m1 seen1, run_evs rest m1 seen1 = SDone m'.
Proof.
  induction pre as [|e r IH]; intros rest m seen m' Hc H; [exists m, seen; exact H|].
  inversion Hc as [|? ? He Hr]; subst. cbn [app run_evs] in H.
  destruct e; unfold continuing in He; cbn [ev_next] in He; try congruence.
  - eapply IH; eassumption.
  - eapply IH; eassumption.
  - destruct (zmem 0 seen); [discriminate|]. eapply IH; eassumption.
  - destruct (zmem id seen); [discriminate|]. eapply IH; eassumption.
Qed.

Lemma apply_sched_all : forall s,
  (forall k b, In (k, b) s -> exists wts, parseTGData b root = Ok (k, wts) /\ (wts = [] \/ apply_ok k wts = true)) ->
  forall k b, In (k, b) s -> exists n, In (k, n) (r_applied (apply_sched s)).
Proof.
  induction s as [|[k0 b0] r IH]; intros Hall k b Hin; [contradiction|].
  cbn [WalScan.apply_sched].
  destruct (Hall k0 b0 (or_introl eq_refl)) as (wts & Hp & Hok). rewrite Hp.
  assert (E : ((length wts =? 0)%nat || apply_ok k0 wts) = true).
  { destruct Hok as [->|Hok]; [reflexivity|]. rewrite Hok. apply orb_true_r. }
  rewrite E. cbn [r_applied].
  destruct Hin as [Hin|Hin].
  - inversion Hin; subst. exists (length wts). left. reflexivity.
  - destruct (IH (fun k' b' H' => Hall k' b' (or_intror H')) k b Hin) as (n & Hn). exists n. right. exact Hn.
Qed.

(** C06 (iii), frame form: a transaction framed as an intact record, with a non-zero id, not followed by a
    checkpoint-commit frame for an id >= it, is applied — provided no TGDATA
    key occurs twice (a failed TGDATA read counts as key 0), and every intact record of the file parses
    and replays without error *)
Theorem intact_framed_applied : forall bs pre p t body post,
  frames bs = pre ++ EvTG p t body :: post ->
  t <> 0 ->
  NoDup (keys (frames bs)) ->
  forallb (harmless t) post = true ->
  (forall q id b, intact_at bs q id b ->
     exists wts, parseTGData b root = Ok (id, wts) /\ (wts = [] \/ apply_ok id wts = true)) ->
  exists n, In (t, n) (r_applied (replay_bytes bs)).
Proof.
  intros bs pre p t body post Hfr Ht Hnd Hh Hall.
  unfold WalScan.replay_bytes.
  destruct (scan (S (length bs)) bs 0 [] []) as [m'| |c|] eqn:Es.
  - rewrite scan_run_evs in Es. fold (frames bs) in Es.
    assert (Hmf : map_from (frames bs) m').
    { apply (run_evs_map_from (frames bs) (frames bs) [] [] m'); [intros e He; exact He | intros ? ? [] | exact Es]. }
    assert (Hin : In (t, Some body) m').
    { pose proof (events_prefix_continuing _ _ _ _ _ _ Hfr) as Hc.
      rewrite Hfr in Es. apply run_evs_through in Es as (m1 & seen1 & Es); [|exact Hc].
      cbn [run_evs] in Es. destruct (zmem t seen1); [discriminate|].
      apply (run_evs_keeps post t body (mset t (Some body) m1) (t :: seen1) m'); [left; reflexivity | exact Ht | exact Hh | | exact Es].
      rewrite Hfr in Hnd. unfold keys in Hnd. rewrite flat_map_app in Hnd. cbn [flat_map ev_key app] in Hnd.
      apply NoDup_remove_2 in Hnd. intros X. apply Hnd. apply in_or_app. right. exact X. }
    apply (apply_sched_all (schedule m')) with (b := body).
    + intros k b Hkb. apply (proj1 (schedule_In _ _ _)) in Hkb.
      apply Hmf in Hkb as (p' & Hev). apply events_intact in Hev as (q & Hi). eapply Hall. exact Hi.
    + apply (proj2 (schedule_In _ _ _)). exact Hin.
  - exfalso. rewrite scan_run_evs in Es. apply (run_evs_no_abort (frames bs) [] []); [exact Hnd | intros k _ [] | exact Es].
  - exfalso. rewrite scan_run_evs in Es. eapply run_evs_no_panic; [apply events_no_panic|exact Es].
  - exfalso. eapply scan_fuel_enough; [|exact Es]. lia.
Qed.

(** variant without the "every intact record replays" hypothesis: if the replay RETURNS NIL, then every
    scheduled transaction was applied *)
Lemma apply_sched_code0 : forall s,
  r_code (apply_sched s) = 0%nat ->
  forall k b, In (k, b) s -> parseTGData b root <> Rejected ->
  exists n, In (tg_id_of b, n) (r_applied (apply_sched s)).
Proof.
  induction s as [|[k0 b0] r IH]; intros Hc k b Hin Hnr; [contradiction|].
  cbn [WalScan.apply_sched] in *.
  destruct (parseTGData b0 root) as [[id wts]| |] eqn:Ep; cbn [r_code] in Hc; try discriminate.
  - destruct (_ || _); cbn [r_code r_applied] in *; [|discriminate].
    destruct Hin as [Hin|Hin].
    + inversion Hin; subst. exists (length wts). left. apply parse_id_is_key in Ep. rewrite Ep. reflexivity.
    + destruct (IH Hc k b Hin Hnr) as (n & Hn). exists n. right. exact Hn.
  - destruct Hin as [Hin|Hin].
    + inversion Hin; subst. contradiction.
    + exact (IH Hc k b Hin Hnr).
Qed.

Theorem intact_framed_applied_code0 : forall bs pre p t body post,
  frames bs = pre ++ EvTG p t body :: post ->
  t <> 0 ->
  NoDup (keys (frames bs)) ->
  forallb (harmless t) post = true ->
  parseTGData body root <> Rejected ->
  r_code (replay_bytes bs) = 0%nat ->
  exists n, In (t, n) (r_applied (replay_bytes bs)).
Proof.
  intros bs pre p t body post Hfr Ht Hnd Hh Hdec Hc0.
  unfold WalScan.replay_bytes in *.
  destruct (scan (S (length bs)) bs 0 [] []) as [m'| |c|] eqn:Es; cbn [r_code] in Hc0; try discriminate.
  rewrite scan_run_evs in Es. fold (frames bs) in Es.
  assert (Hid : t = tg_id_of body).
  { assert (Hev : In (EvTG p t body) (frames bs)) by (rewrite Hfr; apply in_or_app; right; left; reflexivity).
    apply events_intact in Hev as (q & d & _ & _ & _ & _ & _ & _ & E). exact E. }
  assert (Hin : In (t, Some body) m').
  { pose proof (events_prefix_continuing _ _ _ _ _ _ Hfr) as Hcn.
    rewrite Hfr in Es. apply run_evs_through in Es as (m1 & seen1 & Es); [|exact Hcn].
    cbn [run_evs] in Es. destruct (zmem t seen1); [discriminate|].
    apply (run_evs_keeps post t body (mset t (Some body) m1) (t :: seen1) m'); [left; reflexivity | exact Ht | exact Hh | | exact Es].
    rewrite Hfr in Hnd. unfold keys in Hnd. rewrite flat_map_app in Hnd. cbn [flat_map ev_key app] in Hnd.
    apply NoDup_remove_2 in Hnd. intros X. apply Hnd. apply in_or_app. right. exact X. }
  rewrite Hid. apply (apply_sched_code0 (schedule m') Hc0 t body); [|exact Hdec].
  apply (proj2 (schedule_In _ _ _)). exact Hin.
Qed.

End Facts.
