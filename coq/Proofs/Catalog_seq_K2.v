(** C17: the finite checks of Proofs/Catalog_seq.v for key space K2 = {A/1Min/G, A/1Min/H, B/1Min/G} x
    {2021, 2022} x two schema tags (one symbol and timeframe with two attribute groups, a second symbol): 730 specification
    states, 41 requests each, every successor computed by vm_compute (no native_compute). *)
From Coq Require Import List String ZArith Bool.
From Coq.Strings Require Import Byte.
Import ListNotations.
Require Import MS.Base.Hex MS.Base.Path MS.Model.Catalog MS.Proofs.Catalog_seq.

Definition sb (x : string) : list byte := bytes_of_string x.
Definition K2 : keyspace :=
  mkKS (sb "/a/b/c/r") [sb "A/1Min/G"; sb "A/1Min/H"; sb "B/1Min/G"] [2021; 2022]%Z [[x00]; [x01]].

Definition tab2 : list (spec * pstate) := Eval vm_compute in mk_tab K2.

Lemma K2_size : (List.length tab2, List.length (alphabet K2)) = (730, 41)%nat.
Proof. vm_compute. reflexivity. Qed.

Lemma K2_init : lookup (sp0 K2) tab2 = Some (wfs (init_world (ks_root K2)), init_cat (ks_root K2)).
Proof. vm_compute. reflexivity. Qed.

Lemma K2_closure : forall tr, closure_ok K2 tab2 tr = true.
Proof. intros tr. vm_compute. reflexivity. Qed.

Lemma K2_scan : scan_ok K2 tab2 = true.
Proof. vm_compute. reflexivity. Qed.

Lemma K2_listing : listing_ok K2 tab2 = true.
Proof. vm_compute. reflexivity. Qed.
