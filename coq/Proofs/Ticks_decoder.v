(** C10, decoder (post-fix GetTimeFromTicks): real-number analysis of the (sec, nanosec) extraction. *)
From Coq Require Import ZArith Reals Lia Lra List Bool Psatz.
From Flocq Require Import Core.Core IEEE754.BinarySingleNaN.
From Flocq.Prop Require Import Relative Sterbenz.
From Interval Require Import Tactic.
Require Import MS.Base.GoInt MS.Base.FGen MS.Base.F64 MS.Generated.Src_ticks MS.Model.Ticks MS.Proofs.Ticks_facts
  MS.Proofs.Ticks_accuracy.
Import ListNotations.
Local Open Scope R_scope.

#[local] Instance mono_fexp64 : Monotone_exp fexp64 := FLT_exp_monotone (-1074) 53.

Lemma floor_spec (x : f64) : is_finite x = true ->
  B2R (f64_floor x) = IZR (Zfloor (B2R x)) /\ is_finite (f64_floor x) = true.
Proof.
  intros F. unfold f64_floor.
  destruct (Bnearbyint_correct 53 1024 p64_lt_emax mode_DN x) as (E & Fi & _).
  cbn [round_mode] in E. rewrite round_FIX_IZR in E. split; [ exact E | rewrite Fi; exact F ].
Qed.

(** fs - Floor(fs) is computed exactly *)
Lemma frac_exact (x : f64) k : (0 <= k <= 900)%Z -> bnd k x ->
  B2R (f64_sub x (f64_floor x)) = B2R x - IZR (Zfloor (B2R x)) /\ is_finite (f64_sub x (f64_floor x)) = true.
Proof.
  intros Hk [Fx Bx]. destruct (floor_spec x Fx) as [Efl Ffl].
  pose proof (Zfloor_lb (B2R x)) as LB. pose proof (Zfloor_ub (B2R x)) as UB.
  set (N := Zfloor (B2R x)) in *.
  assert (N0 : 0 <= IZR N).
  { apply IZR_le. apply Zfloor_lub. simpl. lra. }
  assert (FMT : generic_format radix2 fexp64 (B2R x - IZR N)).
  { destruct (Rlt_or_le (B2R x) 1) as [L | G].
    - assert (N = 0%Z) as ->.
      { apply Zfloor_imp. simpl. lra. }
      simpl. rewrite Rminus_0_r. apply generic_format_B2R.
    - rewrite <- Efl. apply sterbenz; try typeclasses eauto; try apply generic_format_B2R.
      rewrite Efl. assert (1 <= IZR N) by (apply IZR_le; apply Zfloor_lub; simpl; lra). lra. }
  pose proof (Bminus_correct 53 1024 p64_gt_0 p64_lt_emax mode_NE x (f64_floor x) Fx Ffl) as C.
  cbn [round_mode] in C. rewrite Efl in C.
  assert (P : 0 <= B2R x - IZR N <= bpow radix2 k).
  { split; [ lra | ]. apply Rle_trans with (B2R x); lra. }
  rewrite (no_overflow _ k ltac:(lia) (abs_nonneg_le _ _ P)) in C.
  destruct C as (E & F & _). unfold f64_sub, f_sub. split; [ | exact F ].
  rewrite E. apply round_generic; [ typeclasses eauto | exact FMT ].
Qed.

Lemma c_1e9_value : B2R c_1e9 = 1000000000 /\ bnd 30 c_1e9.
Proof.
  split.
  - unfold c_1e9. rewrite cst_exact by (unfold dec_nanosecond_m, dec_nanosecond_e; lia).
    unfold dec_nanosecond_m, dec_nanosecond_e. change (bpow radix2 (-23)) with (/ IZR (2 ^ 23)).
    change (2 ^ 23)%Z with 8388608%Z. lra.
  - unfold c_1e9. change 30%Z with (53 + dec_nanosecond_e)%Z. apply cst_spec; unfold dec_nanosecond_m, dec_nanosecond_e; lia.
Qed.

Lemma c_half_value : B2R c_half = / 2 /\ bnd 0 c_half.
Proof.
  split.
  - unfold c_half. rewrite cst_exact by (unfold dec_round_m, dec_round_e; lia).
    unfold dec_round_m, dec_round_e. change (bpow radix2 (-53)) with (/ IZR (2 ^ 53)).
    change (2 ^ 53)%Z with 9007199254740992%Z. lra.
  - unfold c_half. change 0%Z with (53 + dec_round_e)%Z. apply cst_spec; unfold dec_round_m, dec_round_e; lia.
Qed.

Lemma bnd_weaken a b x : (a <= b)%Z -> bnd a x -> bnd b x.
Proof. intros H [F [L U]]. split; [ exact F | ]. split; [ exact L | ]. apply Rle_trans with (1 := U). apply bpow_le. exact H. Qed.

(** subseconds of the decoder for a given fractionalSeconds float *)
Definition dec_sub_of (fs : f64) : f64 := f64_mul c_1e9 (f64_sub fs (f64_floor fs)).

(** the decoder after fractionalSeconds, when the [subseconds >= 1e9] branch is not taken *)
Definition dec_tail (fs : f64) : Z * Z :=
  let sub := dec_sub_of fs in
  let sec := wrap U64 (0 + wrap U64 (f64_trunc (f64_floor fs))) in
  let nsec := wrap U32 (wrap I64 (f64_trunc (f64_add sub c_half))) in
  if (1000000000 <=? nsec)%Z then (wrap U64 (sec + 1), wrap U32 (nsec - 1000000000)) else (sec, nsec).

Lemma tiny_format : generic_format radix2 fexp64 tiny.
Proof.
  replace tiny with (bpow radix2 (-100)); [ apply format_bpow; lia | ].
  change (bpow radix2 (-100)) with (/ IZR (2 ^ 100)). change (2 ^ 100)%Z with 1267650600228229401496703205376%Z.
  unfold tiny. reflexivity.
Qed.

(** absolute rounding error on [0, B] *)
Lemma RN_abs x B : 0 <= x <= B -> x - (u * B + tiny) <= RN x <= x + (u * B + tiny).
Proof.
  intros Hx. pose proof u_pos as U. pose proof tiny_small as [_ T0].
  destruct (Rle_or_lt tiny x) as [G | L].
  - pose proof (RN_rel x ltac:(lra) (or_intror G)) as R. nra.
  - assert (0 <= RN x) by (apply RN_nonneg; lra).
    assert (RN x <= tiny) by (apply round_le_generic; [ typeclasses eauto | typeclasses eauto | apply tiny_format | lra ]).
    nra.
Qed.

Lemma dec_tail_total fs : bnd 17 fs -> B2R (dec_sub_of fs) < 1000000000 ->
  let F := B2R fs in
  let tot := (fst (dec_tail fs) * 1000000000 + snd (dec_tail fs))%Z in
  1000000000 * F - 6 / 10 <= IZR tot <= 1000000000 * F + 6 / 10.
Proof.
  intros Bf Hlt F tot.
  destruct (frac_exact fs 17 ltac:(lia) Bf) as [Efr Ffr]. destruct Bf as [Ff [F0 F1]]. fold F in Efr, F0, F1.
  destruct (floor_spec fs Ff) as [Efl Ffl]. fold F in Efl.
  pose proof (Zfloor_lb F) as LB. pose proof (Zfloor_ub F) as UB.
  set (N := Zfloor F) in *.
  assert (N0 : (0 <= N)%Z) by (apply Zfloor_lub; simpl; lra).
  assert (N1 : (N <= 131072)%Z).
  { apply le_IZR. apply Rle_trans with F; [ lra | ]. apply Rle_trans with (1 := F1). simpl. lra. }
  set (fr := F - IZR N) in *.
  assert (Bfr : bnd 0 (f64_sub fs (f64_floor fs))).
  { split; [ exact Ffr | ]. rewrite Efr. unfold fr. simpl. lra. }
  assert (FR : 0 <= fr < 1) by (unfold fr; lra).
  destruct c_1e9_value as [E9 B9]. destruct c_half_value as [Eh Bh].
  destruct (mul_spec _ _ 30 0 ltac:(lia) ltac:(lia) ltac:(lia) B9 Bfr) as [ES BS].
  fold (dec_sub_of fs) in ES, BS. rewrite E9, Efr in ES.
  set (S := B2R (dec_sub_of fs)) in *.
  pose proof u_pos as U. pose proof tiny_small as [TS _].
  assert (SR : 1000000000 * fr - / 1000000 <= S <= 1000000000 * fr + / 1000000).
  { rewrite ES. pose proof (RN_abs (1000000000 * fr) 1000000000 ltac:(lra)) as A. unfold u in *. lra. }
  assert (S0 : 0 <= S) by (rewrite ES; apply RN_nonneg; lra).
  (* subseconds + 0.5 *)
  destruct (add_spec (dec_sub_of fs) c_half 30 ltac:(lia) ltac:(lia) BS (bnd_weaken 0 30 c_half ltac:(lia) Bh))
    as [EA [_ [A0 _]]].
  rewrite Eh in EA. fold S in EA.
  set (T := B2R (f64_add (dec_sub_of fs) c_half)) in *.
  assert (TR : S + / 2 - / 1000000 <= T <= S + / 2 + / 1000000).
  { rewrite EA. pose proof (RN_abs (S + / 2) 1000000001 ltac:(lra)) as A. unfold u in *. lra. }
  assert (Etr : f64_trunc (f64_add (dec_sub_of fs) c_half) = Zfloor T).
  { rewrite trunc_spec. apply Ztrunc_floor. exact A0. }
  pose proof (Zfloor_lb T) as TL. pose proof (Zfloor_ub T) as TU.
  set (M := Zfloor T) in *.
  assert (M0 : (0 <= M)%Z) by (apply Zfloor_lub; simpl; lra).
  assert (M1 : (M <= 1000000001)%Z) by (apply le_IZR; lra).
  assert (Efloor : f64_trunc (f64_floor fs) = N).
  { rewrite trunc_spec, Efl. apply Ztrunc_IZR. }
  assert (W64 : forall v, (0 <= v <= 4294967296)%Z -> wrap U64 v = v).
  { intros v Hv. apply wrap_small. unfold in_ity, ity_min, ity_max. cbn [ity_signed ity_bits]. norm_pows. lia. }
  assert (W32 : forall v, (0 <= v <= 4294967295)%Z -> wrap U32 v = v).
  { intros v Hv. apply wrap_small. unfold in_ity, ity_min, ity_max. cbn [ity_signed ity_bits]. norm_pows. lia. }
  assert (WI : forall v, (0 <= v <= 4294967295)%Z -> wrap I64 v = v).
  { intros v Hv. apply wrap_small. unfold in_ity, ity_min, ity_max. cbn [ity_signed ity_bits]. norm_pows. lia. }
  assert (TOT : tot = (N * 1000000000 + M)%Z).
  { unfold tot, dec_tail. cbn zeta. rewrite Efloor, Etr.
    rewrite (W64 N) by lia. rewrite Z.add_0_l, (W64 N) by lia. rewrite (WI M), (W32 M) by lia.
    destruct (Z.leb_spec 1000000000 M); cbn [fst snd].
    - rewrite (W64 (N + 1)%Z), (W32 (M - 1000000000)%Z) by lia. lia.
    - reflexivity. }
  rewrite TOT, plus_IZR, mult_IZR.
  assert (EF : 1000000000 * F = IZR N * 1000000000 + 1000000000 * fr) by (unfold fr; lra).
  rewrite EF. lra.
Qed.

(** the decoder IS [dec_tail] of its fractionalSeconds when the [subseconds >= 1e9] branch is not taken *)
Definition dec_nowrapb (ipd k : Z) : bool := negb (f64_ge (dec_sub_of (dec_fs ipd k)) c_1e9).

Lemma dec_is_tail ipd k : dec_nowrapb ipd k = true -> dec 0 ipd k = dec_tail (dec_fs ipd k).
Proof.
  unfold dec_nowrapb. intros H. apply negb_true_iff in H.
  unfold dec, dec_tail, dec_sub_of, dec_fs in *. rewrite H. reflexivity.
Qed.

Lemma dec_fs_finite ipd k : (1 <= ipd <= 2 ^ 17)%Z -> (0 <= k < 2 ^ 32)%Z -> is_finite (dec_fs ipd k) = true.
Proof.
  intros Hi Hk. unfold dec_fs.
  destruct (of_Z_spec ipd 17 ltac:(lia) ltac:(lia)) as [Ei Bi]. rewrite RN_IZR in Ei by lia.
  destruct (of_Z_spec k 32 ltac:(lia) ltac:(lia)) as [Ek Bk].
  assert (Bc : bnd 16 c_dec_tpi).
  { unfold c_dec_tpi. change 16%Z with (53 + dec_tpi_e)%Z. apply cst_spec; unfold dec_tpi_m, dec_tpi_e; lia. }
  destruct (mul_spec _ _ 17 16 ltac:(lia) ltac:(lia) ltac:(lia) Bi Bc) as [ED [FD _]]. rewrite Ei in ED.
  pose proof c_dec_value as C. pose proof u_pos as U. pose proof tiny_small as [TS0 TS1].
  assert (I1 : 1 <= IZR ipd) by (apply IZR_le; lia).
  assert (D1 : 1 <= B2R (f64_mul (f64_of_Z ipd) c_dec_tpi)).
  { rewrite ED. assert (1 <= IZR ipd * B2R c_dec_tpi) by nra.
    pose proof (RN_rel (IZR ipd * B2R c_dec_tpi) ltac:(nra) ltac:(right; nra)). nra. }
  destruct (div_spec _ _ 32 ltac:(lia) Bk FD D1) as [_ [F _]]. exact F.
Qed.

(** decoded offset against the exact position of the tick, P = k * interval / 2^32 nanoseconds *)
Theorem dec_total ipd k : (1 <= ipd <= 2 ^ 17)%Z -> (0 <= k < 2 ^ 32)%Z -> dec_nowrapb ipd k = true ->
  let P := 1000000000 * (IZR k / tps_exact ipd) in
  P - 7 / 10 <= IZR (dec_offset ipd k) <= P + 7 / 10.
Proof.
  intros Hi Hk NW P.
  pose proof (dec_fs_accuracy ipd k Hi Hk) as A. cbn zeta in A.
  pose proof (dec_fs_finite ipd k Hi Hk) as Ff.
  assert (I1 : 1 <= IZR ipd <= 131072) by (split; apply IZR_le; lia).
  assert (K0 : 0 <= IZR k <= 4294967296) by (split; apply IZR_le; lia).
  assert (Ht : 49710 <= tps_exact ipd) by (unfold tps_exact; lra).
  set (p := IZR k / tps_exact ipd) in *.
  assert (P0 : 0 <= p <= 86400).
  { unfold p. split.
    - apply Rmult_le_pos; [ lra | left; apply Rinv_0_lt_compat; lra ].
    - apply Rmult_le_reg_r with (tps_exact ipd); [ lra | ]. unfold Rdiv. rewrite Rmult_assoc, Rinv_l by lra.
      unfold tps_exact in *. nra. }
  pose proof u_pos as U.
  assert (Bf : bnd 17 (dec_fs ipd k)).
  { split; [ exact Ff | ]. change (bpow radix2 17) with 131072. unfold u in *. nra. }
  assert (SL : B2R (dec_sub_of (dec_fs ipd k)) < 1000000000).
  { unfold dec_nowrapb in NW. apply negb_true_iff in NW. unfold f64_ge in NW.
    destruct (frac_exact _ 17 ltac:(lia) Bf) as [Efr Ffr].
    assert (Bfr : bnd 0 (f64_sub (dec_fs ipd k) (f64_floor (dec_fs ipd k)))).
    { split; [ exact Ffr | ]. rewrite Efr. pose proof (Zfloor_lb (B2R (dec_fs ipd k))). pose proof (Zfloor_ub (B2R (dec_fs ipd k))).
      simpl. lra. }
    destruct c_1e9_value as [E9 B9].
    destruct (mul_spec _ _ 30 0 ltac:(lia) ltac:(lia) ltac:(lia) B9 Bfr) as [_ [FS _]].
    fold (dec_sub_of (dec_fs ipd k)) in FS.
    rewrite (Bleb_correct 53 1024 _ _ (proj1 B9) FS) in NW. rewrite E9 in NW.
    destruct (Rle_bool_spec 1000000000 (B2R (dec_sub_of (dec_fs ipd k)))); [ discriminate | assumption ]. }
  pose proof (dec_tail_total _ Bf SL) as T. cbn zeta in T.
  unfold dec_offset. rewrite (dec_is_tail ipd k NW).
  destruct (dec_tail (dec_fs ipd k)) as [s n] eqn:ET. cbn [fst snd] in T.
  unfold P. unfold u in *. nra.
Qed.

(** round trip, all timeframes, all offsets — under the side condition that the decoder's
    [subseconds >= 1e9] branch is not taken for the produced tick (a boolean on (ipd, enc o)) *)
Theorem roundtrip_nowrap ipd o : In ipd ipds -> (0 <= o < interval_ns ipd)%Z ->
  dec_nowrapb ipd (enc ipd o) = true ->
  let o' := dec_offset ipd (enc ipd o) in
  (0 <= o' <= o)%Z
  /\ IZR (o - o') < IZR (interval_ns ipd) / 4294967296 + 76 / 100
  /\ (ipd = 86400%Z -> o' = o).
Proof.
  intros Hin Ho NW o'. destruct (ipds_range ipd Hin) as [Hi Hn].
  destruct (enc_mono ipd o o Hin ltac:(lia) ltac:(lia)) as [[K0 _] K1].
  pose proof (dec_total ipd (enc ipd o) ltac:(lia) ltac:(lia) NW) as D. cbn zeta in D. fold o' in D.
  pose proof (enc_position ipd o Hin Ho) as E. cbn zeta in E.
  pose proof (ipd_interval ipd Hin) as II.
  assert (N0 : 0 < IZR (interval_ns ipd) <= 86400000000000).
  { split; [ apply IZR_lt; lia | ]. assert (1 <= IZR ipd) by (apply IZR_le; lia). nra. }
  assert (I0 : 0 < IZR ipd) by (apply IZR_lt; lia).
  assert (EP : 1000000000 * (IZR (enc ipd o) / tps_exact ipd)
               = IZR (enc ipd o) * IZR (interval_ns ipd) / 4294967296).
  { unfold tps_exact. transitivity (IZR (enc ipd o) * (86400000000000 / IZR ipd) / 4294967296); [ field; lra | ].
    rewrite <- II. field. lra. }
  rewrite EP in D. set (pos := IZR (enc ipd o) * IZR (interval_ns ipd) / 4294967296) in *.
  assert (O0 : 0 <= IZR o < 86400000000000).
  { split; [ apply IZR_le; lia | ]. apply Rlt_le_trans with (IZR (interval_ns ipd)); [ apply IZR_lt; lia | lra ]. }
  assert (U6 : 6 * u * IZR o <= 6 / 100) by (unfold u; nra).
  assert (N1 : (0 <= o')%Z) by apply dec_offset_nonneg.
  assert (LE : (o' <= o)%Z).
  { apply Z.lt_succ_r. apply lt_IZR. rewrite succ_IZR. nra. }
  assert (GAP : IZR (o - o') < IZR (interval_ns ipd) / 4294967296 + 76 / 100).
  { rewrite minus_IZR. nra. }
  split; [ lia | ]. split; [ exact GAP | ].
  intros ->. assert (IN : IZR (interval_ns 86400) = 1000000000) by (vm_compute; reflexivity).
  rewrite IN in GAP.
  assert ((o - o' < 1)%Z) by (apply lt_IZR; lra). lia.
Qed.

(* ------------------------------------------------------------------------------------------ *)
(** * The [subseconds >= 1e9] branch of the decoder is dead code

    The fraction fs - Floor fs is itself a binary64 number below 1, hence at most 1 - 2^-53; then
    1e9 * fraction <= 1e9 - 1.11e-7, and rounding to nearest (half an ulp = 2^-24 = 5.96e-8 there)
    stays below 1e9. *)

Lemma below_one_le_pred x : generic_format radix2 fexp64 x -> x < 1 -> x <= 1 - / 9007199254740992.
Proof.
  intros G H.
  pose proof (pred_ge_gt radix2 fexp64 x 1 G ltac:(change 1 with (bpow radix2 0); apply format_bpow; lia) H) as P.
  change 1 with (bpow radix2 0) in P at 1. rewrite pred_bpow in P.
  change (fexp64 0) with (-53)%Z in P. change (bpow radix2 0) with 1 in P.
  change (bpow radix2 (-53)) with (/ IZR (2 ^ 53)) in P. change (2 ^ 53)%Z with 9007199254740992%Z in P. exact P.
Qed.

Lemma RN_below_1e9 x : 0 <= x <= 1000000000 * (1 - / 9007199254740992) -> RN x < 1000000000.
Proof.
  intros Hx. destruct (Rlt_or_le x 536870912) as [L | G].
  - (* below 2^29: rounds to at most 2^29 *)
    apply Rle_lt_trans with 536870912; [ | lra ].
    apply round_le_generic; [ typeclasses eauto | typeclasses eauto | | lra ].
    change 536870912 with (bpow radix2 29). apply format_bpow. lia.
  - pose proof (error_le_half_ulp radix2 fexp64 (fun z => negb (Z.even z)) x) as E.
    change (round radix2 fexp64 (Znearest (fun z => negb (Z.even z))) x) with (RN x) in E.
    rewrite ulp_neq_0 in E by lra.
    assert (M : mag radix2 x = 30%Z :> Z).
    { apply mag_unique_pos. change (bpow radix2 (30 - 1)) with 536870912. change (bpow radix2 30) with 1073741824. lra. }
    unfold cexp in E. rewrite M in E. change (fexp64 30) with (-23)%Z in E.
    change (bpow radix2 (-23)) with (/ IZR (2 ^ 23)) in E. change (2 ^ 23)%Z with 8388608%Z in E.
    apply Rabs_le_inv in E. lra.
Qed.

Lemma dec_sub_below fs : bnd 17 fs -> B2R (dec_sub_of fs) < 1000000000.
Proof.
  intros Bf. destruct (frac_exact fs 17 ltac:(lia) Bf) as [Efr Ffr].
  pose proof (Zfloor_lb (B2R fs)) as LB. pose proof (Zfloor_ub (B2R fs)) as UB.
  assert (G : generic_format radix2 fexp64 (B2R fs - IZR (Zfloor (B2R fs)))) by (rewrite <- Efr; apply generic_format_B2R).
  pose proof (below_one_le_pred _ G ltac:(lra)) as P.
  assert (Bfr : bnd 0 (f64_sub fs (f64_floor fs))) by (split; [ exact Ffr | rewrite Efr; simpl; lra ]).
  destruct c_1e9_value as [E9 B9].
  destruct (mul_spec _ _ 30 0 ltac:(lia) ltac:(lia) ltac:(lia) B9 Bfr) as [ES _].
  fold (dec_sub_of fs) in ES. rewrite ES, E9, Efr. apply RN_below_1e9. split; [ nra | nra ].
Qed.

Theorem dec_nowrap_always ipd k : (1 <= ipd <= 2 ^ 17)%Z -> (0 <= k < 2 ^ 32)%Z -> dec_nowrapb ipd k = true.
Proof.
  intros Hi Hk.
  pose proof (dec_fs_accuracy ipd k Hi Hk) as A. cbn zeta in A.
  pose proof (dec_fs_finite ipd k Hi Hk) as Ff.
  assert (I1 : 1 <= IZR ipd <= 131072) by (split; apply IZR_le; lia).
  assert (K0 : 0 <= IZR k <= 4294967296) by (split; apply IZR_le; lia).
  assert (Ht : 49710 <= tps_exact ipd) by (unfold tps_exact; lra).
  set (p := IZR k / tps_exact ipd) in *.
  assert (P0 : 0 <= p <= 86400).
  { unfold p. split.
    - apply Rmult_le_pos; [ lra | left; apply Rinv_0_lt_compat; lra ].
    - apply Rmult_le_reg_r with (tps_exact ipd); [ lra | ]. unfold Rdiv. rewrite Rmult_assoc, Rinv_l by lra.
      unfold tps_exact in *. nra. }
  pose proof u_pos as U.
  assert (Bf : bnd 17 (dec_fs ipd k)).
  { split; [ exact Ff | ]. change (bpow radix2 17) with 131072. unfold u in *. nra. }
  pose proof (dec_sub_below _ Bf) as SL.
  unfold dec_nowrapb. apply negb_true_iff. unfold f64_ge.
  destruct (frac_exact _ 17 ltac:(lia) Bf) as [Efr Ffr].
  assert (Bfr : bnd 0 (f64_sub (dec_fs ipd k) (f64_floor (dec_fs ipd k)))).
  { split; [ exact Ffr | ]. rewrite Efr. pose proof (Zfloor_lb (B2R (dec_fs ipd k))). pose proof (Zfloor_ub (B2R (dec_fs ipd k))).
    simpl. lra. }
  destruct c_1e9_value as [E9 B9].
  destruct (mul_spec _ _ 30 0 ltac:(lia) ltac:(lia) ltac:(lia) B9 Bfr) as [_ [FS _]].
  fold (dec_sub_of (dec_fs ipd k)) in FS.
  rewrite (Bleb_correct 53 1024 _ _ (proj1 B9) FS). rewrite E9.
  destruct (Rle_bool_spec 1000000000 (B2R (dec_sub_of (dec_fs ipd k)))); [ lra | reflexivity ].
Qed.

(** C10, the full statement: every timeframe, every offset, no side condition *)
Theorem roundtrip ipd o : In ipd ipds -> (0 <= o < interval_ns ipd)%Z ->
  let o' := dec_offset ipd (enc ipd o) in
  (0 <= o' <= o)%Z /\ (o - o' <= step_ns ipd)%Z /\ (ipd = 86400%Z -> o' = o).
Proof.
  intros Hin Ho o'. destruct (ipds_range ipd Hin) as [Hi Hn].
  destruct (enc_mono ipd o o Hin ltac:(lia) ltac:(lia)) as [[K0 _] K1].
  pose proof (dec_nowrap_always ipd (enc ipd o) ltac:(lia) ltac:(lia)) as NW.
  destruct (roundtrip_nowrap ipd o Hin Ho NW) as (R1 & R2 & R3). fold o' in R1, R2, R3.
  split; [ exact R1 | ]. split; [ | exact R3 ].
  (* step_ns = ceil (interval / 2^32) >= interval / 2^32 *)
  assert (S : IZR (interval_ns ipd) / 4294967296 <= IZR (step_ns ipd)).
  { unfold step_ns. set (n := interval_ns ipd) in *.
    assert (Z : (n <= (n + 4294967295) / 4294967296 * 4294967296)%Z) by (Z.div_mod_to_equations; lia).
    apply IZR_le in Z. rewrite mult_IZR in Z. lra. }
  assert ((o - o' < step_ns ipd + 1)%Z) by (apply lt_IZR; rewrite plus_IZR; lra). lia.
Qed.
