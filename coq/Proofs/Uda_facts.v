(** Proofs about Model/Uda.v (count, min, max, avg, gap). *)
From Coq Require Import ZArith List Bool Lia Permutation.
Import ListNotations.
From Flocq Require Import IEEE754.BinarySingleNaN.
Require Import MS.Base.GoInt MS.Base.Res MS.Base.FGen MS.Base.F32 MS.Base.F64 MS.Model.Uda MS.Proofs.F64_real.
Local Open Scope Z_scope.

(** [typed chunks vss]: every Accum call receives a column of a type ColumnToFloat32 handles, holding
    the float32 values [vs] (after conversion), and ColumnSeries.Len() equals their number. *)
Definition typed1 (ch : chunk) (vs : list f32) : Prop := column_to_f32 (snd ch) = Ok vs /\ fst ch = length vs.
Definition typed (chunks : list chunk) (vss : list (list f32)) : Prop := Forall2 typed1 chunks vss.

(** boolean version, used as guard by the harness *)
Definition supported (c : col) : bool :=
  match c with CF32 _ | CF64 _ | CI64 _ | CI32 _ | CInt _ => true | _ => false end.
Definition col_len (c : col) : nat :=
  match c with CF32 l => length l | CF64 l => length l | CI64 l | CI32 l | CInt l => length l | COther n => n | CMissing => 0%nat end.
Definition chunk_okb (ch : chunk) : bool := supported (snd ch) && (fst ch =? col_len (snd ch))%nat.
Definition vals_of (ch : chunk) : list f32 := match column_to_f32 (snd ch) with Ok l => l | _ => [] end.

Lemma chunk_okb_typed1 ch : chunk_okb ch = true -> typed1 ch (vals_of ch).
Proof.
  unfold chunk_okb, typed1, vals_of. destruct ch as [n c]. cbn [fst snd]. rewrite andb_true_iff, Nat.eqb_eq.
  intros [Hs Hl]. destruct c; try discriminate Hs; cbn [column_to_f32 col_len] in *; rewrite ?map_length; auto.
Qed.

Lemma chunks_okb_typed chunks : forallb chunk_okb chunks = true -> typed chunks (map vals_of chunks).
Proof.
  induction chunks as [|ch r IH]; cbn [forallb map]; intros H; [constructor|].
  apply andb_true_iff in H. destruct H as [H1 H2]. constructor; [apply chunk_okb_typed1; exact H1 | apply IH; exact H2].
Qed.

(** ------------------------------------------------------------------ count *)
Definition total_len (chunks : list chunk) : Z := fold_right (fun ch a => Z.of_nat (fst ch) + a) 0 chunks.

Lemma total_len_nonneg chunks : 0 <= total_len chunks.
Proof. induction chunks; cbn [total_len fold_right]; [lia|]. fold (total_len chunks). lia. Qed.

Lemma count_run_from s chunks : 0 <= s -> s + total_len chunks <= ity_max I64 ->
  run count_accum s chunks = Ok (s + total_len chunks).
Proof.
  revert s. induction chunks as [|ch r IH]; intros s Hs Hb; cbn [run total_len fold_right] in *.
  - f_equal. lia.
  - fold (total_len r) in *. pose proof (total_len_nonneg r).
    unfold count_accum at 1. cbn [bindR].
    rewrite wrap_small by (unfold in_ity; cbn [ity_min ity_max ity_signed ity_bits] in *; lia).
    rewrite IH by lia. f_equal. lia.
Qed.

Theorem count_correct chunks : total_len chunks <= ity_max I64 ->
  run count_accum count_init chunks = Ok (total_len chunks).
Proof. intros H. unfold count_init. rewrite count_run_from by lia. reflexivity. Qed.

Lemma total_len_typed chunks vss : typed chunks vss -> total_len chunks = Z.of_nat (length (concat vss)).
Proof.
  induction 1 as [|ch vs r vr [_ Hl] _ IH]; [reflexivity|].
  cbn [total_len fold_right concat]. fold (total_len r). rewrite app_length, IH, Hl. lia.
Qed.

(** ------------------------------------------------------------------ min / max *)
Section Ext.
Variable step : f32 -> f32 -> f32.
Hypothesis step_idem : forall v, step v v = v.

(** the state after the values [l] reached an object in state [st] *)
Definition ext_from (st : mstate) (l : list f32) : mstate :=
  if m_init st then {| m_init := true; m_val := fold_left step l (m_val st) |}
  else match l with
       | [] => st
       | v :: r => {| m_init := true; m_val := fold_left step r v |}
       end.

Lemma ext_from_app st a b : ext_from (ext_from st a) b = ext_from st (a ++ b).
Proof.
  unfold ext_from. destruct st as [i v]. cbn [m_init m_val]. destruct i.
  - cbn [m_init m_val]. rewrite fold_left_app. reflexivity.
  - destruct a as [|x a]; cbn [app m_init m_val]; [reflexivity|]. rewrite fold_left_app. reflexivity.
Qed.

Lemma ext_accum_typed st ch vs : typed1 ch vs -> ext_accum step st ch = Ok (ext_from st vs).
Proof.
  intros [Hc Hl]. unfold ext_accum. rewrite Hc, Hl. cbn [bindR].
  destruct vs as [|v r]; cbn [length Nat.eqb].
  - unfold ext_from. destruct st as [[|] x]; reflexivity.
  - unfold ext_from. destruct (m_init st); cbn [bindR m_val]; [reflexivity|].
    cbn [fold_left]. rewrite step_idem. reflexivity.
Qed.

Lemma ext_run_typed chunks vss : typed chunks vss ->
  forall st, run (ext_accum step) st chunks = Ok (ext_from st (concat vss)).
Proof.
  induction 1 as [|ch vs r vr H1 _ IH]; intros st; cbn [run concat].
  - unfold ext_from. destruct st as [[|] x]; reflexivity.
  - rewrite (ext_accum_typed st ch vs H1). cbn [bindR]. rewrite IH, ext_from_app. reflexivity.
Qed.
End Ext.

Lemma min_step_idem v : min_step v v = v.
Proof. unfold min_step. rewrite f32_lt_irrefl. reflexivity. Qed.
Lemma max_step_idem v : max_step v v = v.
Proof. unfold max_step. rewrite f32_gt_irrefl. reflexivity. Qed.

(** what Accum computes, as a plain fold: the first value initialises, the rest are folded in *)
Definition fold_ext (step : f32 -> f32 -> f32) (l : list f32) : mstate := ext_from step m_new l.

Theorem min_run_fold chunks vss : typed chunks vss ->
  run min_accum m_new chunks = Ok (fold_ext min_step (concat vss)).
Proof. intros H. apply (ext_run_typed min_step min_step_idem chunks vss H). Qed.

Theorem max_run_fold chunks vss : typed chunks vss ->
  run max_accum m_new chunks = Ok (fold_ext max_step (concat vss)).
Proof. intros H. apply (ext_run_typed max_step max_step_idem chunks vss H). Qed.

(** order-independent specification: a least / greatest element of the list w.r.t. Go's [<=] *)
Definition is_min (r : f32) (l : list f32) : Prop := In r l /\ forall x, In x l -> f32_le r x = true.
Definition is_max (r : f32) (l : list f32) : Prop := In r l /\ forall x, In x l -> f32_le x r = true.

Lemma nonan_in l x : f32_nonan l = true -> In x l -> f32_is_nan x = false.
Proof.
  unfold f32_nonan. rewrite forallb_forall. intros H Hi. specialize (H x Hi). apply negb_true_iff in H. exact H.
Qed.

Lemma fold_min_spec l : forall v, f32_is_nan v = false -> f32_nonan l = true ->
  let r := fold_left min_step l v in
  f32_is_nan r = false /\ (r = v \/ In r l) /\ f32_key r <= f32_key v /\ forall x, In x l -> f32_key r <= f32_key x.
Proof.
  induction l as [|a l IH]; intros v Hv Hl; cbn [fold_left].
  - repeat split; auto; try lia. intros x [].
  - cbn [f32_nonan forallb] in Hl. apply andb_true_iff in Hl. destruct Hl as [Ha Hl]. apply negb_true_iff in Ha.
    assert (Hs : f32_is_nan (min_step v a) = false /\ (min_step v a = v \/ min_step v a = a)
                 /\ f32_key (min_step v a) <= f32_key v /\ f32_key (min_step v a) <= f32_key a).
    { unfold min_step. rewrite (f32_lt_key a v Ha Hv). destruct (Z.ltb_spec (f32_key a) (f32_key v)); repeat split; auto; lia. }
    destruct Hs as (Hn & Hor & Hk1 & Hk2).
    destruct (IH (min_step v a) Hn Hl) as (Rn & Ror & Rk & Rall).
    repeat split; auto.
    + destruct Ror as [E|I]; [rewrite E; destruct Hor as [E'|E']; rewrite E'; [left; reflexivity | right; left; reflexivity] | right; right; exact I].
    + lia.
    + intros x [E|I]; [subst x; lia | apply Rall; exact I].
Qed.

Lemma fold_max_spec l : forall v, f32_is_nan v = false -> f32_nonan l = true ->
  let r := fold_left max_step l v in
  f32_is_nan r = false /\ (r = v \/ In r l) /\ f32_key v <= f32_key r /\ forall x, In x l -> f32_key x <= f32_key r.
Proof.
  induction l as [|a l IH]; intros v Hv Hl; cbn [fold_left].
  - repeat split; auto; try lia. intros x [].
  - cbn [f32_nonan forallb] in Hl. apply andb_true_iff in Hl. destruct Hl as [Ha Hl]. apply negb_true_iff in Ha.
    assert (Hs : f32_is_nan (max_step v a) = false /\ (max_step v a = v \/ max_step v a = a)
                 /\ f32_key v <= f32_key (max_step v a) /\ f32_key a <= f32_key (max_step v a)).
    { unfold max_step. rewrite (f32_gt_key a v Ha Hv). destruct (Z.ltb_spec (f32_key v) (f32_key a)); repeat split; auto; lia. }
    destruct Hs as (Hn & Hor & Hk1 & Hk2).
    destruct (IH (max_step v a) Hn Hl) as (Rn & Ror & Rk & Rall).
    repeat split; auto.
    + destruct Ror as [E|I]; [rewrite E; destruct Hor as [E'|E']; rewrite E'; [left; reflexivity | right; left; reflexivity] | right; right; exact I].
    + lia.
    + intros x [E|I]; [subst x; lia | apply Rall; exact I].
Qed.

Theorem min_fold_is_min l : l <> [] -> f32_nonan l = true ->
  m_init (fold_ext min_step l) = true /\ is_min (m_val (fold_ext min_step l)) l.
Proof.
  destruct l as [|v l]; [congruence|]. intros _ Hn. unfold fold_ext, ext_from. cbn [m_new m_init m_val].
  split; [reflexivity|].
  pose proof Hn as Hn'. cbn [f32_nonan forallb] in Hn'. apply andb_true_iff in Hn'. destruct Hn' as [Hv Hl]. apply negb_true_iff in Hv.
  destruct (fold_min_spec l v Hv Hl) as (Rn & Ror & Rk & Rall). split.
  - destruct Ror as [E|I]; [left; symmetry; exact E | right; exact I].
  - intros x Hx. rewrite f32_le_key; [| exact Rn | apply (nonan_in _ _ Hn Hx)]. apply Z.leb_le.
    destruct Hx as [E|I]; [subst x; exact Rk | apply Rall; exact I].
Qed.

Theorem max_fold_is_max l : l <> [] -> f32_nonan l = true ->
  m_init (fold_ext max_step l) = true /\ is_max (m_val (fold_ext max_step l)) l.
Proof.
  destruct l as [|v l]; [congruence|]. intros _ Hn. unfold fold_ext, ext_from. cbn [m_new m_init m_val].
  split; [reflexivity|].
  pose proof Hn as Hn'. cbn [f32_nonan forallb] in Hn'. apply andb_true_iff in Hn'. destruct Hn' as [Hv Hl]. apply negb_true_iff in Hv.
  destruct (fold_max_spec l v Hv Hl) as (Rn & Ror & Rk & Rall). split.
  - destruct Ror as [E|I]; [left; symmetry; exact E | right; exact I].
  - intros x Hx. rewrite f32_le_key; [| apply (nonan_in _ _ Hn Hx) | exact Rn]. apply Z.leb_le.
    destruct Hx as [E|I]; [subst x; exact Rk | apply Rall; exact I].
Qed.

(** a least element is unique up to Go's [==] (it identifies +0 and -0) *)
Lemma is_min_unique l r r' : f32_nonan l = true -> is_min r l -> is_min r' l -> f32_eq r r' = true.
Proof.
  intros Hn [I1 L1] [I2 L2]. pose proof (nonan_in _ _ Hn I1) as N1. pose proof (nonan_in _ _ Hn I2) as N2.
  pose proof (L1 _ I2) as A. pose proof (L2 _ I1) as B.
  rewrite f32_le_key in A, B by assumption. apply Z.leb_le in A, B.
  rewrite f32_eq_key by assumption. apply Z.eqb_eq. lia.
Qed.

Lemma is_max_unique l r r' : f32_nonan l = true -> is_max r l -> is_max r' l -> f32_eq r r' = true.
Proof.
  intros Hn [I1 L1] [I2 L2]. pose proof (nonan_in _ _ Hn I1) as N1. pose proof (nonan_in _ _ Hn I2) as N2.
  pose proof (L1 _ I2) as A. pose proof (L2 _ I1) as B.
  rewrite f32_le_key in A, B by assumption. apply Z.leb_le in A, B.
  rewrite f32_eq_key by assumption. apply Z.eqb_eq. lia.
Qed.

Lemma nonan_perm l l' : Permutation l l' -> f32_nonan l = true -> f32_nonan l' = true.
Proof.
  unfold f32_nonan. rewrite !forallb_forall. intros P H x Hx. apply H. apply (Permutation_in _ (Permutation_sym P) Hx).
Qed.

Theorem min_perm_invariant l l' : Permutation l l' -> l <> [] -> f32_nonan l = true ->
  f32_eq (m_val (fold_ext min_step l)) (m_val (fold_ext min_step l')) = true.
Proof.
  intros P Hne Hn. assert (Hne' : l' <> []) by (intro E; subst l'; apply Permutation_sym, Permutation_nil in P; contradiction).
  destruct (min_fold_is_min l Hne Hn) as [_ [I1 L1]].
  destruct (min_fold_is_min l' Hne' (nonan_perm _ _ P Hn)) as [_ [I2 L2]].
  apply (is_min_unique l); auto. split; auto.
  split; [apply (Permutation_in _ (Permutation_sym P) I2) | intros x Hx; apply L2, (Permutation_in _ P Hx)].
Qed.

Theorem max_perm_invariant l l' : Permutation l l' -> l <> [] -> f32_nonan l = true ->
  f32_eq (m_val (fold_ext max_step l)) (m_val (fold_ext max_step l')) = true.
Proof.
  intros P Hne Hn. assert (Hne' : l' <> []) by (intro E; subst l'; apply Permutation_sym, Permutation_nil in P; contradiction).
  destruct (max_fold_is_max l Hne Hn) as [_ [I1 L1]].
  destruct (max_fold_is_max l' Hne' (nonan_perm _ _ P Hn)) as [_ [I2 L2]].
  apply (is_max_unique l); auto. split; auto.
  split; [apply (Permutation_in _ (Permutation_sym P) I2) | intros x Hx; apply L2, (Permutation_in _ P Hx)].
Qed.

(** ------------------------------------------------------------------ avg *)
Definition sum64 (l : list f32) (s : f64) : f64 := fold_left (fun a v => f64_add a (f64_of_f32 v)) l s.

Lemma wrap_i64_nonneg z : 0 <= z <= ity_max I64 -> wrap I64 z = z.
Proof.
  intros H. apply wrap_small. unfold in_ity. split; [|lia].
  apply Z.le_trans with 0; [|lia]. vm_compute. discriminate.
Qed.

Lemma avg_fold_state l : forall st, 0 <= a_cnt st -> a_cnt st + Z.of_nat (length l) <= ity_max I64 ->
  fold_left avg_step l st = {| a_sum := sum64 l (a_sum st); a_cnt := a_cnt st + Z.of_nat (length l) |}.
Proof.
  induction l as [|v l IH]; intros st H0 Hb.
  - cbn [fold_left length sum64]. destruct st as [s c]; cbn [a_sum a_cnt]. f_equal. lia.
  - assert (Hb' : a_cnt st + 1 + Z.of_nat (length l) <= ity_max I64) by (cbn [length] in Hb; lia).
    assert (W : wrap I64 (a_cnt st + 1) = a_cnt st + 1) by (apply wrap_i64_nonneg; lia).
    cbn [fold_left]. rewrite IH.
    + unfold avg_step. cbn [a_sum a_cnt]. rewrite W. cbn [sum64 fold_left length]. f_equal. lia.
    + unfold avg_step. cbn [a_cnt]. rewrite W. lia.
    + unfold avg_step. cbn [a_cnt]. rewrite W. lia.
Qed.

Lemma avg_accum_typed st ch vs : typed1 ch vs -> avg_accum st ch = Ok (fold_left avg_step vs st).
Proof.
  intros [Hc Hl]. unfold avg_accum. rewrite Hc, Hl. cbn [bindR].
  destruct vs; cbn [length Nat.eqb fold_left]; reflexivity.
Qed.

Lemma avg_run_typed chunks vss : typed chunks vss ->
  forall st, run avg_accum st chunks = Ok (fold_left avg_step (concat vss) st).
Proof.
  induction 1 as [|ch vs r vr H1 _ IH]; intros st; cbn [run concat]; [reflexivity|].
  rewrite (avg_accum_typed st ch vs H1). cbn [bindR]. rewrite IH, fold_left_app. reflexivity.
Qed.

Theorem avg_correct chunks vss : typed chunks vss -> Z.of_nat (length (concat vss)) <= ity_max I64 ->
  exists st, run avg_accum a_new chunks = Ok st
    /\ avg_out st = f64_div (sum64 (concat vss) f64_zero) (f64_of_Z (Z.of_nat (length (concat vss)))).
Proof.
  intros H Hb. eexists. split; [apply (avg_run_typed _ _ H)|].
  rewrite avg_fold_state by (cbn [a_new a_cnt]; lia). unfold avg_out. cbn [a_sum a_cnt a_new]. reflexivity.
Qed.

(** ------------------------------------------------------------------ gap *)
(** specification: the consecutive pairs whose difference exceeds the threshold, in order *)
Fixpoint gaps_spec (thr : Z) (l : list Z) : list (Z * Z * Z) :=
  match l with
  | a :: ((b :: _) as r) => (if b - a >? thr then [(a, b, b - a)] else []) ++ gaps_spec thr r
  | _ => []
  end.

Fixpoint gap_idxs_Z (i : nat) (thr : Z) (l : list Z) : list nat :=
  match l with
  | a :: ((b :: _) as r) => (if b - a >? thr then [i] else []) ++ gap_idxs_Z (S i) thr r
  | _ => []
  end.

Definition small53 (z : Z) : Prop := Z.abs z < 2 ^ 53.
Definition small53b (z : Z) : bool := Z.abs z <? 2 ^ 53.

Lemma gap_idxs_exact thr l : 0 <= thr -> thr + 1 < 2 ^ 53 -> Forall small53 l ->
  forall i, gap_idxs_from i (f64_of_Z thr) (map f64_of_Z l) = gap_idxs_Z i thr l.
Proof.
  intros T0 T1. induction l as [|a l IH]; intros Hs i; [reflexivity|].
  destruct l as [|b r]; [reflexivity|].
  cbn [map gap_idxs_from gap_idxs_Z]. inversion Hs as [|? ? Ha Hs']; subst. inversion Hs' as [|? ? Hb _]; subst.
  rewrite (gap_pair_exact a b thr Ha Hb T0 T1). f_equal. apply (IH Hs').
Qed.

Lemma gaps_spec_cons2 thr a b r :
  gaps_spec thr (a :: b :: r) = (if b - a >? thr then [(a, b, b - a)] else []) ++ gaps_spec thr (b :: r).
Proof. reflexivity. Qed.
Lemma gap_idxs_Z_cons2 i thr a b r :
  gap_idxs_Z i thr (a :: b :: r) = (if b - a >? thr then [i] else []) ++ gap_idxs_Z (S i) thr (b :: r).
Proof. reflexivity. Qed.

Lemma gap_rows_spec thr l : Forall small53 l -> forall pre,
  map (fun i => let a := nth i (pre ++ l) 0 in let b := nth (S i) (pre ++ l) 0 in (a, b, wrap I64 (b - a)))
      (gap_idxs_Z (length pre) thr l) = gaps_spec thr l.
Proof.
  induction l as [|a l IH]; intros Hs pre; [reflexivity|].
  destruct l as [|b r]; [reflexivity|].
  rewrite gap_idxs_Z_cons2, gaps_spec_cons2, map_app.
  inversion Hs as [|? ? Ha Hs']; subst. inversion Hs' as [|? ? Hb _]; subst.
  f_equal.
  - destruct (b - a >? thr); [|reflexivity]. cbn [map].
    rewrite app_nth2 by lia. replace (length pre - length pre)%nat with 0%nat by lia.
    rewrite app_nth2 by lia. replace (S (length pre) - length pre)%nat with 1%nat by lia. cbn [nth].
    rewrite wrap_small; [reflexivity|].
    unfold small53 in *. unfold in_ity. cbn [ity_min ity_max ity_signed ity_bits]. lia.
  - specialize (IH Hs' (pre ++ [a])). rewrite app_length in IH. cbn [length] in IH.
    replace (length pre + 1)%nat with (S (length pre)) in IH by lia.
    rewrite <- IH. apply map_ext. intros i. rewrite <- app_assoc. reflexivity.
Qed.

Theorem gap_exact thr l : 0 <= thr -> thr + 1 < 2 ^ 53 -> Forall small53 l ->
  gap_accum thr (length l, CI64 l) = Ok (gaps_spec thr l).
Proof.
  intros T0 T1 Hs. unfold gap_accum. cbn [fst snd column_to_f64].
  destruct l as [|a l]; [reflexivity|]. cbn [length Nat.eqb].
  rewrite map_length. destruct l as [|b r]; [reflexivity|].
  replace (length (a :: b :: r) <? 2)%nat with false by (symmetry; apply Nat.ltb_ge; cbn [length]; lia).
  rewrite (gap_idxs_exact thr _ T0 T1 Hs 0%nat).
  pose proof (gap_rows_spec thr (a :: b :: r) Hs []) as R. cbn [app length] in R. unfold gap_rows.
  destruct (gap_idxs_Z 0 thr (a :: b :: r)) eqn:E.
  - rewrite <- R. reflexivity.
  - rewrite <- R. reflexivity.
Qed.

(** pointwise reading of the specification: exactly the consecutive pairs exceeding the threshold *)
Theorem gaps_spec_iff thr l a b d :
  In (a, b, d) (gaps_spec thr l) <->
  exists i, nth_error l i = Some a /\ nth_error l (S i) = Some b /\ d = b - a /\ b - a > thr.
Proof.
  revert a b d. induction l as [|x l IH]; intros a b d.
  - cbn [gaps_spec]. split; [intros [] | intros (i & H & _); destruct i; discriminate H].
  - destruct l as [|y r].
    + cbn [gaps_spec]. split; [intros [] | intros (i & H1 & H2 & _); destruct i as [|[|i]]; discriminate H2].
    + cbn [gaps_spec]. rewrite in_app_iff. split.
      * intros [H|H].
        -- destruct (Z.gtb_spec (y - x) thr) as [G|G]; [|destruct H].
           destruct H as [E|[]]. inversion E; subst. exists 0%nat. cbn. repeat split; auto; lia.
        -- apply IH in H. destruct H as (i & H1 & H2 & H3 & H4). exists (S i). cbn [nth_error]. auto.
      * intros (i & H1 & H2 & H3 & H4). destruct i as [|i].
        -- cbn in H1, H2. inversion H1; inversion H2; subst. left.
           destruct (Z.gtb_spec (b - a) thr); [left; reflexivity | lia].
        -- right. apply IH. exists i. cbn [nth_error] in H1, H2. auto.
Qed.

Lemma small53b_spec l : forallb small53b l = true -> Forall small53 l.
Proof.
  rewrite forallb_forall, Forall_forall. intros H x Hx. specialize (H x Hx). unfold small53b in H. apply Z.ltb_lt in H. exact H.
Qed.
