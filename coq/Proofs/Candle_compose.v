(** Proofs about Model/Candle.v, part 3 (C22): aggregating fine candles into a coarser timeframe gives
    the same open/high/low/close as aggregating the rows directly, when the fine window length divides
    the coarse one (windows nest). *)
From Coq Require Import ZArith Bool Lia List Permutation.
Import ListNotations.
Require Import MS.Base.GoInt MS.Base.Res MS.Base.F32 MS.Base.F64 MS.Model.Uda MS.Model.Candle
               MS.Proofs.Uda_facts MS.Proofs.Candle_map MS.Proofs.Candle_ohlc MS.Generated.Src_agg.
Local Open Scope Z_scope.

(** ------------------------------------------------------------------ what composition needs of the two timeframes *)
(** stated for ARBITRARY window functions (any system timezone): *)
Definition mono (cd : cdur) : Prop := forall t t', t <= t' -> truncate cd t <= truncate cd t'.
Definition nests (cd1 cd2 : cdur) : Prop := forall t, truncate cd2 (truncate cd1 t) = truncate cd2 t.
Definition whole_sec (cd : cdur) : Prop := forall t, (truncate cd t / NS) * NS = truncate cd t.

(** … and established for zones at a fixed UTC offset [off] (ns): the fine window length is a whole number of
    seconds and divides the coarse one, and the grids' origins (0001-01-01 UTC for Sec/Min/H, local midnight for D)
    differ by a multiple of the fine length — for a sub-day fine timeframe under a "D" coarse one that is: the
    zone offset is a multiple of the fine duration *)
Definition eff_dur (cd : cdur) : Z := if cd_day cd then agg_Day else cd_dur cd.
Definition origin (off : Z) (cd : cdur) : Z := if cd_day cd then off else abs_epoch_ns.

Record divides_in_zone (off : Z) (cd1 cd2 : cdur) : Prop := {
  dz_ds1 : cd_ds cd1 = day_start off;
  dz_ds2 : cd_ds cd2 = day_start off;
  dz_pos : 0 < eff_dur cd1;
  dz_sec : exists q, eff_dur cd1 = q * NS;
  dz_off : exists r, off = r * NS;
  dz_mult : exists k, 0 < k /\ eff_dur cd2 = k * eff_dur cd1;
  dz_origin : exists c, origin off cd2 - origin off cd1 = c * eff_dur cd1
}.

Lemma truncate_as_o off cd t : cd_ds cd = day_start off -> 0 < eff_dur cd ->
  truncate cd t = trunc_o (origin off cd) (eff_dur cd) t.
Proof.
  intros E P. unfold truncate, origin, eff_dur in *. destruct (cd_day cd).
  - rewrite E. reflexivity.
  - apply time_truncate_o, P.
Qed.

Section Zone.
Variables (off : Z) (cd1 cd2 : cdur).
Hypothesis D : divides_in_zone off cd1 cd2.

Lemma dz_pos2 : 0 < eff_dur cd2.
Proof. destruct (dz_mult _ _ _ D) as (k & K & E). pose proof (dz_pos _ _ _ D). rewrite E. nia. Qed.

Lemma zone_idem1 : idem cd1.
Proof. intros t. rewrite !(truncate_as_o off cd1) by (apply D). apply trunc_o_idem, D. Qed.
Lemma zone_idem2 : idem cd2.
Proof. intros t. rewrite !(truncate_as_o off cd2) by (apply D || apply dz_pos2). apply trunc_o_idem, dz_pos2. Qed.
Lemma zone_mono1 : mono cd1.
Proof. intros t t' L. rewrite !(truncate_as_o off cd1) by (apply D). apply trunc_o_mono; [apply D | exact L]. Qed.
Lemma zone_whole_sec1 : whole_sec cd1.
Proof.
  intros t. rewrite (truncate_as_o off cd1) by (apply D).
  destruct (dz_sec _ _ _ D) as (q & Eq). destruct (dz_off _ _ _ D) as (r & Er).
  unfold origin. destruct (cd_day cd1).
  - apply (trunc_o_whole off _ q r); [apply D | exact Eq | exact Er].
  - apply (trunc_o_whole abs_epoch_ns _ q 62135596800); [apply D | exact Eq | reflexivity].
Qed.
Lemma zone_nests : nests cd1 cd2.
Proof.
  intros t. rewrite (truncate_as_o off cd1 t) by (apply D).
  rewrite !(truncate_as_o off cd2) by (apply D || apply dz_pos2).
  destruct (dz_mult _ _ _ D) as (k & K & E). destruct (dz_origin _ _ _ D) as (c & Ec). rewrite E.
  apply (trunc_o_nest _ _ _ k c); [apply D | exact K | exact Ec].
Qed.
End Zone.

(** UTC (the default system timezone): dividing window lengths suffice *)
Definition divides (cd1 cd2 : cdur) : Prop :=
  cd_ds cd1 = day_start 0 /\ cd_ds cd2 = day_start 0 /\
  0 < eff_dur cd1 /\ (exists q, eff_dur cd1 = q * NS) /\ exists k, 0 < k /\ eff_dur cd2 = k * eff_dur cd1.

Lemma abs_epoch_days : abs_epoch_ns = 719162 * agg_Day.
Proof. reflexivity. Qed.

Lemma divides_utc cd1 cd2 : divides cd1 cd2 -> divides_in_zone 0 cd1 cd2.
Proof.
  intros (E1 & E2 & P & Q & (k & K & M)). constructor; auto; [exists 0; reflexivity | exists k; auto|].
  unfold origin, eff_dur in *. destruct (cd_day cd1), (cd_day cd2).
  - exists 0. lia.
  - exists 719162. rewrite abs_epoch_days. lia.
  - exists (- 719162 * k). rewrite abs_epoch_days, M. ring.
  - exists 0. lia.
Qed.

(** ------------------------------------------------------------------ fine candles as input bars *)
(** the row a candle becomes in the candler's output and then in a CandleCandler's input:
    Epoch = start in seconds (time.Unix(epoch, 0)), Open, High, Low, Close *)
Definition bar_of_candle (c : candle) : bar :=
  {| b_t := (c_start c / NS) * NS; b_o := c_o c; b_h := c_h c; b_l := c_l c; b_c := c_c c; b_acc := [] |}.

Definition fine_bars (cd1 : cdur) (rows : list bar) : list bar :=
  map (fun kc => bar_of_candle (snd kc)) (sort_by_key (accum_all cd1 0 [rows])).

Section Compose.
Variables cd1 cd2 : cdur.
Variable rows : list bar.
Hypothesis Hid1 : idem cd1.
Hypothesis Hid2 : idem cd2.
Hypothesis Hmono : mono cd1.
Hypothesis Hnest : nests cd1 cd2.
Hypothesis Hws : whole_sec cd1.
Hypothesis Hok : rows_ok rows.
Hypothesis Hnz : forall r, In r rows -> truncate cd1 (b_t r) <> zero_time.

(** what a fine bar is *)
Lemma fine_bar_inv fb : In fb (fine_bars cd1 rows) ->
  exists wf, (exists r, In r rows /\ truncate cd1 (b_t r) = wf)
    /\ fb = bar_of_candle (window_candle cd1 0 wf rows) /\ b_t fb = wf
    /\ candle_spec (window_candle cd1 0 wf rows) wf (window_rows cd1 wf rows).
Proof.
  unfold fine_bars. intros I. apply in_map_iff in I. destruct I as ([wf c] & E & I). cbn [snd] in E.
  destruct (accum_partition cd1 0 [rows] Hid1) as (_ & K & C). cbn [concat] in K, C. rewrite app_nil_r in K, C.
  pose proof (C wf c I) as Ec. subst c.
  assert (Ex : exists r, In r rows /\ truncate cd1 (b_t r) = wf).
  { apply K. apply (in_map fst) in I. exact I. }
  destruct (window_candle_meets_spec cd1 0 rows wf Hid1 Hok Ex) as [S _].
  exists wf. split; [exact Ex|]. split; [symmetry; exact E|]. split; [|exact S].
  subst fb. cbn [bar_of_candle b_t]. rewrite (cs_start _ _ _ S).
  destruct Ex as (r & _ & Er). rewrite <- Er. apply Hws.
Qed.

Lemma fine_bar_of_row r : In r rows ->
  In (bar_of_candle (window_candle cd1 0 (truncate cd1 (b_t r)) rows)) (fine_bars cd1 rows).
Proof.
  intros I. unfold fine_bars. apply in_map_iff.
  destruct (accum_partition cd1 0 [rows] Hid1) as (_ & K & C). cbn [concat] in K, C. rewrite app_nil_r in K, C.
  assert (Kw : In (truncate cd1 (b_t r)) (map fst (sort_by_key (accum_all cd1 0 [rows])))) by (apply K; eauto).
  apply in_map_iff in Kw. destruct Kw as ([w c] & Ew & Iw). cbn [fst] in Ew. subst w.
  exists (truncate cd1 (b_t r), c). split; [|exact Iw]. cbn [snd]. rewrite (C _ _ Iw). reflexivity.
Qed.

(** fine bars fall into the coarse window of their rows *)
Lemma fine_bar_window fb W : In fb (window_rows cd2 W (fine_bars cd1 rows)) ->
  exists wf, b_t fb = wf /\ truncate cd2 wf = W /\ In fb (fine_bars cd1 rows).
Proof.
  intros I. apply filter_In in I. destruct I as [I E]. apply Z.eqb_eq in E. exists (b_t fb). auto.
Qed.

Lemma fine_not_zero fb : In fb (fine_bars cd1 rows) -> b_t fb <> zero_time.
Proof.
  intros I. destruct (fine_bar_inv fb I) as (wf & (r & Ir & Er) & _ & Et & _). rewrite Et, <- Er. apply Hnz, Ir.
Qed.

Lemma fine_bars_ok : rows_ok (fine_bars cd1 rows).
Proof.
  split; [intros r I; apply fine_not_zero, I|].
  unfold fine_bars. rewrite map_length. rewrite (Permutation_length (sort_perm _)).
  (* at most one candle per row *)
  destruct Hok as [_ L]. apply Z.le_trans with (Z.of_nat (length rows)); [|exact L].
  apply Nat2Z.inj_le.
  destruct (accum_rows_concat cd1 0 [rows] Hid1 [] (wf_nil cd1)) as [E _]. unfold accum_all. rewrite E.
  cbn [concat]. rewrite app_nil_r.
  assert (G : forall rs m, (length (fold_left (row_step' cd1 0) rs m) <= length m + length rs)%nat).
  { induction rs as [|r rs IH]; intros m; cbn [fold_left length]; [lia|].
    specialize (IH (row_step' cd1 0 m r)).
    assert (length (row_step' cd1 0 m r) <= S (length m))%nat.
    { unfold row_step'. rewrite <- (map_length fst), upd_keys. destruct (existsb _ _); rewrite ?app_length, ?map_length; cbn [length]; lia. }
    lia. }
  specialize (G rows []). cbn [length] in G. lia.
Qed.

Variable W : Z.
Hypothesis HW : exists r, In r rows /\ truncate cd2 (b_t r) = W.

Lemma coarse_has_fine : exists fb, In fb (fine_bars cd1 rows) /\ truncate cd2 (b_t fb) = W.
Proof.
  destruct HW as (r & I & E). exists (bar_of_candle (window_candle cd1 0 (truncate cd1 (b_t r)) rows)).
  split; [apply fine_bar_of_row, I|].
  destruct (fine_bar_inv _ (fine_bar_of_row r I)) as (wf & _ & Eb & Et & _).
  rewrite Et.
  assert (Hw : wf = truncate cd1 (b_t r)).
  { rewrite <- Et. cbn [bar_of_candle b_t].
    assert (Ex : exists r0, In r0 rows /\ truncate cd1 (b_t r0) = truncate cd1 (b_t r)) by eauto.
    destruct (window_candle_meets_spec cd1 0 rows _ Hid1 Hok Ex) as [S _]. rewrite (cs_start _ _ _ S).
    apply Hws. }
  rewrite Hw, Hnest. exact E.
Qed.

Let C := window_candle cd2 0 W (fine_bars cd1 rows).       (* coarse candle from the fine candles *)
Let D := window_candle cd2 0 W rows.                        (* coarse candle from the rows directly *)
Let rsW := window_rows cd2 W rows.
Let fbW := window_rows cd2 W (fine_bars cd1 rows).

Lemma spec_C : candle_spec C W fbW.
Proof. apply (window_candle_meets_spec cd2 0 (fine_bars cd1 rows) W Hid2 fine_bars_ok coarse_has_fine). Qed.

Lemma spec_D : candle_spec D W rsW.
Proof. apply (window_candle_meets_spec cd2 0 rows W Hid2 Hok HW). Qed.

(** a row of a fine window inside W is a row of W *)
Lemma fine_row_in_W wf x : truncate cd2 wf = W -> In x (window_rows cd1 wf rows) -> In x rsW.
Proof.
  intros E I. apply filter_In in I. destruct I as [I Ex]. apply Z.eqb_eq in Ex.
  apply filter_In. split; [exact I|]. apply Z.eqb_eq. rewrite <- Hnest, Ex. exact E.
Qed.

(** every row of W lies in a fine window whose bar is in fbW *)
Lemma row_has_fine x : In x rsW ->
  exists fb, In fb fbW /\ b_t fb = truncate cd1 (b_t x)
    /\ fb = bar_of_candle (window_candle cd1 0 (truncate cd1 (b_t x)) rows)
    /\ candle_spec (window_candle cd1 0 (truncate cd1 (b_t x)) rows) (truncate cd1 (b_t x)) (window_rows cd1 (truncate cd1 (b_t x)) rows)
    /\ In x (window_rows cd1 (truncate cd1 (b_t x)) rows).
Proof.
  intros I. apply filter_In in I. destruct I as [I Ex]. apply Z.eqb_eq in Ex.
  pose proof (fine_bar_of_row x I) as F. destruct (fine_bar_inv _ F) as (wf & _ & Eb & Et & S).
  assert (Ew : wf = truncate cd1 (b_t x)).
  { rewrite <- Et. cbn [bar_of_candle b_t].
    assert (Ex0 : exists r0, In r0 rows /\ truncate cd1 (b_t r0) = truncate cd1 (b_t x)) by eauto.
    destruct (window_candle_meets_spec cd1 0 rows _ Hid1 Hok Ex0) as [S0 _]. rewrite (cs_start _ _ _ S0).
    apply Hws. }
  rewrite Ew in Et, S.
  exists (bar_of_candle (window_candle cd1 0 (truncate cd1 (b_t x)) rows)).
  split; [|split; [exact Et|split; [reflexivity|split; [exact S|]]]].
  - apply filter_In. split; [exact F|]. apply Z.eqb_eq. rewrite Et, Hnest. exact Ex.
  - apply filter_In. split; [exact I | apply Z.eqb_refl].
Qed.

Hypothesis Hnd : NoDup (map b_t rows).
Hypothesis Hh : f32_nonan (map b_h rows) = true.
Hypothesis Hl : f32_nonan (map b_l rows) = true.

Lemma open_eq : c_o C = c_o D.
Proof.
  destruct (cs_open _ _ _ spec_C) as (fb & [Ifb Mfb] & _ & Of).
  destruct (cs_open _ _ _ spec_D) as (r' & Er' & _ & Od).
  destruct (fine_bar_window fb W Ifb) as (wf & Et & Ew & Iall). subst wf.
  destruct (fine_bar_inv fb Iall) as (wf' & _ & Eb & Et' & S). subst wf'.
  destruct (cs_open _ _ _ S) as (r1 & [I1 M1] & _ & O1).
  assert (E1 : earliest r1 rsW).
  { split; [apply (fine_row_in_W (b_t fb)); assumption|].
    intros x Ix. destruct (row_has_fine x Ix) as (fbx & Ifbx & Etx & _ & _ & Ixw).
    destruct (Z_le_gt_dec (b_t r1) (b_t x)) as [L|G]; [exact L|]. exfalso.
    (* x strictly earlier than r1: then x's fine window is not later than wf, hence equal, contradiction *)
    assert (A : truncate cd1 (b_t x) <= truncate cd1 (b_t r1)) by (apply Hmono; lia).
    assert (B : truncate cd1 (b_t r1) = b_t fb).
    { apply filter_In in I1. destruct I1 as [_ B]. apply Z.eqb_eq in B. exact B. }
    pose proof (Mfb fbx Ifbx) as Cc. rewrite Etx in Cc.
    assert (Eq : truncate cd1 (b_t x) = b_t fb) by lia.
    rewrite Eq in Ixw. pose proof (M1 x Ixw). lia. }
  assert (r1 = r').
  { apply (earliest_unique rsW); auto. apply NoDup_map_filter, Hnd. }
  subst r'. rewrite Of, Od. rewrite Eb at 1. cbn [bar_of_candle b_o]. exact O1.
Qed.

Lemma close_eq : c_c C = c_c D.
Proof.
  destruct (cs_close _ _ _ spec_C) as (fb & [Ifb Mfb] & _ & Of).
  destruct (cs_close _ _ _ spec_D) as (r' & Er' & _ & Od).
  destruct (fine_bar_window fb W Ifb) as (wf & Et & Ew & Iall). subst wf.
  destruct (fine_bar_inv fb Iall) as (wf' & _ & Eb & Et' & S). subst wf'.
  destruct (cs_close _ _ _ S) as (r1 & [I1 M1] & _ & O1).
  assert (E1 : latest r1 rsW).
  { split; [apply (fine_row_in_W (b_t fb)); assumption|].
    intros x Ix. destruct (row_has_fine x Ix) as (fbx & Ifbx & Etx & _ & _ & Ixw).
    destruct (Z_le_gt_dec (b_t x) (b_t r1)) as [L|G]; [exact L|]. exfalso.
    assert (A : truncate cd1 (b_t r1) <= truncate cd1 (b_t x)) by (apply Hmono; lia).
    assert (B : truncate cd1 (b_t r1) = b_t fb).
    { apply filter_In in I1. destruct I1 as [_ B]. apply Z.eqb_eq in B. exact B. }
    pose proof (Mfb fbx Ifbx) as Cc. rewrite Etx in Cc.
    assert (Eq : truncate cd1 (b_t x) = b_t fb) by lia.
    rewrite Eq in Ixw. pose proof (M1 x Ixw). lia. }
  assert (r1 = r').
  { apply (latest_unique rsW); auto. apply NoDup_map_filter, Hnd. }
  subst r'. rewrite Of, Od. rewrite Eb at 1. cbn [bar_of_candle b_c]. exact O1.
Qed.

Lemma in_map_nonan (g : bar -> f32) l x : f32_nonan (map g l) = true -> In x l -> f32_is_nan (g x) = false.
Proof. intros H I. apply (nonan_in (map g l)); [exact H | apply in_map, I]. Qed.

(** the high of a fine bar inside W is the high of one of W's rows, and dominates its window's rows *)
Lemma fine_high fb : In fb fbW ->
  (exists x, In x rsW /\ b_h fb = b_h x)
  /\ (forall x, In x (window_rows cd1 (b_t fb) rows) -> f32_le (b_h x) (b_h fb) = true).
Proof.
  intros Ifb. destruct (fine_bar_window fb W Ifb) as (wf & Et & Ew & Iall). subst wf.
  destruct (fine_bar_inv fb Iall) as (wf' & _ & Eb & Et' & S). subst wf'.
  assert (Hn : f32_nonan (map b_h (window_rows cd1 (b_t fb) rows)) = true) by (apply nonan_filter_map, Hh).
  destruct (cs_high _ _ _ S Hn) as [Im Mm].
  assert (Ebh : b_h fb = c_h (window_candle cd1 0 (b_t fb) rows)) by (rewrite Eb at 1; reflexivity).
  split.
  - apply in_map_iff in Im. destruct Im as (x & Ex & Ix). exists x. split; [apply (fine_row_in_W (b_t fb)); assumption | congruence].
  - intros x Ix. rewrite Ebh. apply Mm. apply in_map, Ix.
Qed.

Lemma fine_low fb : In fb fbW ->
  (exists x, In x rsW /\ b_l fb = b_l x)
  /\ (forall x, In x (window_rows cd1 (b_t fb) rows) -> f32_le (b_l fb) (b_l x) = true).
Proof.
  intros Ifb. destruct (fine_bar_window fb W Ifb) as (wf & Et & Ew & Iall). subst wf.
  destruct (fine_bar_inv fb Iall) as (wf' & _ & Eb & Et' & S). subst wf'.
  assert (Hn : f32_nonan (map b_l (window_rows cd1 (b_t fb) rows)) = true) by (apply nonan_filter_map, Hl).
  destruct (cs_low _ _ _ S Hn) as [Im Mm].
  assert (Ebl : b_l fb = c_l (window_candle cd1 0 (b_t fb) rows)) by (rewrite Eb at 1; reflexivity).
  split.
  - apply in_map_iff in Im. destruct Im as (x & Ex & Ix). exists x. split; [apply (fine_row_in_W (b_t fb)); assumption | congruence].
  - intros x Ix. rewrite Ebl. apply Mm. apply in_map, Ix.
Qed.

Lemma rsW_nonan_h x : In x rsW -> f32_is_nan (b_h x) = false.
Proof. intros I. apply filter_In in I. apply (in_map_nonan b_h rows); [exact Hh | apply I]. Qed.
Lemma rsW_nonan_l x : In x rsW -> f32_is_nan (b_l x) = false.
Proof. intros I. apply filter_In in I. apply (in_map_nonan b_l rows); [exact Hl | apply I]. Qed.

Lemma fbW_nonan_h : f32_nonan (map b_h fbW) = true.
Proof.
  unfold f32_nonan. apply forallb_forall. intros v Iv. apply in_map_iff in Iv. destruct Iv as (fb & E & I).
  destruct (fine_high fb I) as [(x & Ix & Ex) _]. subst v. rewrite Ex, (rsW_nonan_h x Ix). reflexivity.
Qed.
Lemma fbW_nonan_l : f32_nonan (map b_l fbW) = true.
Proof.
  unfold f32_nonan. apply forallb_forall. intros v Iv. apply in_map_iff in Iv. destruct Iv as (fb & E & I).
  destruct (fine_low fb I) as [(x & Ix & Ex) _]. subst v. rewrite Ex, (rsW_nonan_l x Ix). reflexivity.
Qed.

Lemma f32_le_trans x y z : f32_is_nan x = false -> f32_is_nan y = false -> f32_is_nan z = false ->
  f32_le x y = true -> f32_le y z = true -> f32_le x z = true.
Proof.
  intros Nx Ny Nz A B. rewrite f32_le_key in * by assumption. apply Z.leb_le in A, B. apply Z.leb_le. lia.
Qed.

Lemma high_eq : f32_eq (c_h C) (c_h D) = true.
Proof.
  assert (Nr : f32_nonan (map b_h rsW) = true) by (apply nonan_filter_map, Hh).
  apply (is_max_unique (map b_h rsW)); [exact Nr | | apply (cs_high _ _ _ spec_D Nr)].
  destruct (cs_high _ _ _ spec_C fbW_nonan_h) as [Im Mm].
  apply in_map_iff in Im. destruct Im as (fb & Efb & Ifb).
  destruct (fine_high fb Ifb) as [(x0 & Ix0 & Ex0) _].
  split.
  - rewrite <- Efb, Ex0. apply in_map, Ix0.
  - intros v Iv. apply in_map_iff in Iv. destruct Iv as (x & Ev & Ix). subst v.
    destruct (row_has_fine x Ix) as (fbx & Ifbx & Etx & _ & _ & Ixw).
    destruct (fine_high fbx Ifbx) as [(y & Iy & Ey) Dom]. rewrite Etx in Dom.
    apply (f32_le_trans _ (b_h fbx)).
    + apply rsW_nonan_h, Ix.
    + rewrite Ey. apply rsW_nonan_h, Iy.
    + rewrite <- Efb, Ex0. apply rsW_nonan_h, Ix0.
    + apply Dom, Ixw.
    + apply Mm. apply in_map, Ifbx.
Qed.

Lemma low_eq : f32_eq (c_l C) (c_l D) = true.
Proof.
  assert (Nr : f32_nonan (map b_l rsW) = true) by (apply nonan_filter_map, Hl).
  apply (is_min_unique (map b_l rsW)); [exact Nr | | apply (cs_low _ _ _ spec_D Nr)].
  destruct (cs_low _ _ _ spec_C fbW_nonan_l) as [Im Mm].
  apply in_map_iff in Im. destruct Im as (fb & Efb & Ifb).
  destruct (fine_low fb Ifb) as [(x0 & Ix0 & Ex0) _].
  split.
  - rewrite <- Efb, Ex0. apply in_map, Ix0.
  - intros v Iv. apply in_map_iff in Iv. destruct Iv as (x & Ev & Ix). subst v.
    destruct (row_has_fine x Ix) as (fbx & Ifbx & Etx & _ & _ & Ixw).
    destruct (fine_low fbx Ifbx) as [(y & Iy & Ey) Dom]. rewrite Etx in Dom.
    apply (f32_le_trans _ (b_l fbx)).
    + rewrite <- Efb, Ex0. apply rsW_nonan_l, Ix0.
    + rewrite Ey. apply rsW_nonan_l, Iy.
    + apply rsW_nonan_l, Ix.
    + apply Mm. apply in_map, Ifbx.
    + apply Dom, Ixw.
Qed.

Theorem compose_ohlc : ohlc_eq C D.
Proof. repeat split; [apply open_eq | apply close_eq | apply high_eq | apply low_eq]. Qed.

End Compose.

(** the coarse windows obtained from the fine candles are exactly those of the rows *)
Theorem compose_windows cd1 cd2 rows W : idem cd1 -> idem cd2 -> mono cd1 -> nests cd1 cd2 -> whole_sec cd1 -> rows_ok rows ->
  ((exists fb, In fb (fine_bars cd1 rows) /\ truncate cd2 (b_t fb) = W) <-> (exists r, In r rows /\ truncate cd2 (b_t r) = W)).
Proof.
  intros H1 H2 H3 H4 H5 Hok. split.
  - intros (fb & I & E).
    assert (X : exists wf, (exists r, In r rows /\ truncate cd1 (b_t r) = wf)
                 /\ fb = bar_of_candle (window_candle cd1 0 wf rows) /\ b_t fb = wf
                 /\ candle_spec (window_candle cd1 0 wf rows) wf (window_rows cd1 wf rows))
      by (apply fine_bar_inv; assumption).
    destruct X as (wf & (r & Ir & Er) & _ & Et & _).
    exists r. split; [exact Ir|]. rewrite <- H4, Er, <- Et. exact E.
  - intros HW. apply coarse_has_fine; assumption.
Qed.

(** [divides_in_zone] decided by computation, for the executable zones at a fixed offset *)
Definition dividesb_zone (off : Z) (cd1 cd2 : cdur) : bool :=
  (0 <? eff_dur cd1) && (eff_dur cd1 mod NS =? 0) && (off mod NS =? 0) && (0 <? eff_dur cd2)
  && (eff_dur cd2 mod eff_dur cd1 =? 0) && ((origin off cd2 - origin off cd1) mod eff_dur cd1 =? 0).
Definition dividesb (cd1 cd2 : cdur) : bool := dividesb_zone 0 cd1 cd2.

Lemma dividesb_zone_sound off cd1 cd2 : cd_ds cd1 = day_start off -> cd_ds cd2 = day_start off ->
  dividesb_zone off cd1 cd2 = true -> divides_in_zone off cd1 cd2.
Proof.
  intros E1 E2. unfold dividesb_zone. rewrite !andb_true_iff, !Z.ltb_lt, !Z.eqb_eq. intros [[[[[H1 H2] H3] H4] H5] H6].
  constructor; auto.
  - exists (eff_dur cd1 / NS). pose proof (Z_div_mod_eq_full (eff_dur cd1) NS). lia.
  - exists (off / NS). pose proof (Z_div_mod_eq_full off NS). lia.
  - exists (eff_dur cd2 / eff_dur cd1). pose proof (Z_div_mod_eq_full (eff_dur cd2) (eff_dur cd1)) as E.
    rewrite H5 in E. split; [|lia].
    destruct (Z_lt_le_dec 0 (eff_dur cd2 / eff_dur cd1)) as [P|P]; [exact P|]. exfalso. nia.
  - exists ((origin off cd2 - origin off cd1) / eff_dur cd1).
    pose proof (Z_div_mod_eq_full (origin off cd2 - origin off cd1) (eff_dur cd1)). lia.
Qed.

Lemma dividesb_zone_of off m1 s1 m2 s2 :
  dividesb_zone off (cd_of_zone off m1 s1) (cd_of_zone off m2 s2) = true ->
  divides_in_zone off (cd_of_zone off m1 s1) (cd_of_zone off m2 s2).
Proof. apply dividesb_zone_sound; reflexivity. Qed.

(** ------------------------------------------------------------------ the executable pipeline *)
(** a candler's output column series fed to a CandleCandler (Open::Open, High::High, Low::Low, Close::Close) *)
Definition out_to_input (out : list orow) : cinput :=
  {| in_epoch := map o_epoch out; in_nanos := None;
     in_price := [[CF32 (map o_o out)]; [CF32 (map o_h out)]; [CF32 (map o_l out)]; [CF32 (map o_c out)]];
     in_acc := [] |}.

Definition bar_of_orow (r : orow) : bar :=
  {| b_t := o_epoch r * NS; b_o := o_o r; b_h := o_h r; b_l := o_l r; b_c := o_c r; b_acc := [] |}.

Lemma get_time_none l : get_time l None = Ok (map (fun s => s * NS) l).
Proof. induction l as [|s l IH]; cbn [get_time map]; [reflexivity|]. rewrite IH. reflexivity. Qed.

Lemma build_rows_orows out :
  build_rows (map (fun s => s * NS) (map o_epoch out)) (map o_o out) (map o_h out) (map o_l out) (map o_c out) []
  = Ok (map bar_of_orow out).
Proof.
  induction out as [|r out IH]; cbn [map build_rows mapR bindR]; [reflexivity|]. rewrite IH. reflexivity.
Qed.

Lemma extract_out out : out <> [] -> extract (out_to_input out) = Ok (map bar_of_orow out).
Proof.
  intros H. unfold extract, out_to_input. cbn [in_epoch in_nanos in_price in_acc]. rewrite map_length.
  destruct out as [|r out]; [congruence|]. cbn [length Nat.eqb].
  cbn [mapR get_average_column column_to_f32 bindR]. rewrite get_time_none. cbn [bindR mapR].
  apply build_rows_orows.
Qed.

Lemma bar_of_orow_out_row c : bar_of_orow (out_row [] [] c) = bar_of_candle c.
Proof. reflexivity. Qed.

(** feeding the fine candler's output to a coarse CandleCandler computes the candle map of [fine_bars] *)
Theorem pipeline_is_fine_bars cd1 cd2 rows : idem cd1 -> rows <> [] ->
  run_accum cd2 [] [out_to_input (output [] [] (accum_all cd1 0 [rows]))] = Ok (accum_all cd2 0 [fine_bars cd1 rows]).
Proof.
  intros Hid Hne.
  assert (E : map bar_of_orow (output [] [] (accum_all cd1 0 [rows])) = fine_bars cd1 rows).
  { unfold output, fine_bars. rewrite map_map. apply map_ext. intros kc. apply bar_of_orow_out_row. }
  assert (N : output [] [] (accum_all cd1 0 [rows]) <> []).
  { intro Z. destruct rows as [|r0 rows0]; [congruence|].
    destruct (accum_partition cd1 0 [r0 :: rows0] Hid) as (_ & K & _). cbn [concat] in K. rewrite app_nil_r in K.
    assert (I : In (truncate cd1 (b_t r0)) (map fst (sort_by_key (accum_all cd1 0 [r0 :: rows0])))).
    { apply K. exists r0. split; [left; reflexivity | reflexivity]. }
    unfold output in Z. apply map_eq_nil in Z. rewrite Z in I. destruct I. }
  cbn [run_accum]. unfold accum. rewrite (extract_out _ N). cbn [bindR out_to_input in_acc length].
  rewrite E. reflexivity.
Qed.
