(** Facts about the lexical path functions of Base/Path.v used by C16/C17: components produced by
    [split_on] contain no separator; [normc] yields only proper names; [resolve (clean s) = resolve s]
    for rooted paths; joining walks the component stack; a walk whose depth never goes negative keeps
    the starting stack as its bottom. *)
From Coq Require Import List Bool Arith NArith Lia.
From Coq.Strings Require Import Byte.
Import ListNotations.
Require Import MS.Base.Hex MS.Base.Path.

Lemma byte_eqb_refl x : Byte.eqb x x = true.
Proof. apply Byte.byte_dec_lb. reflexivity. Qed.

Lemma byte_eqb_eq x y : Byte.eqb x y = true <-> x = y.
Proof. split. apply Byte.byte_dec_bl. intros ->. apply byte_eqb_refl. Qed.

Lemma byte_eqb_neq x y : Byte.eqb x y = false <-> x <> y.
Proof.
  split.
  - intros H E. subst. rewrite byte_eqb_refl in H. discriminate.
  - intros H. destruct (Byte.eqb x y) eqn:E; auto. apply byte_eqb_eq in E. contradiction.
Qed.

Lemma bytes_eqb_refl a : bytes_eqb a a = true.
Proof. apply bytes_eqb_eq. reflexivity. Qed.

(* ------------------------------------------------------------------ split_on *)
Lemma split_on_nonempty sep s : split_on sep s <> [].
Proof.
  induction s as [|c r IH]; cbn; [discriminate|].
  destruct (Byte.eqb c sep); [discriminate|]. destruct (split_on sep r); discriminate.
Qed.

Lemma split_on_nosep sep s : Forall (fun c => ~ In sep c) (split_on sep s).
Proof.
  induction s as [|c r IH]; cbn.
  - constructor; auto.
  - destruct (Byte.eqb c sep) eqn:E.
    + constructor; auto.
    + destruct (split_on sep r) as [|h t]; inversion IH; subst; constructor; auto.
      * intros [H|H]; auto. subst. rewrite byte_eqb_refl in E. discriminate.
      * intros [H|H]; auto. subst. rewrite byte_eqb_refl in E. discriminate.
Qed.

Lemma split_on_single sep c : ~ In sep c -> split_on sep c = [c].
Proof.
  induction c as [|x r IH]; intros H; cbn; auto.
  destruct (Byte.eqb x sep) eqn:E.
  - apply byte_eqb_eq in E. subst. exfalso. apply H. left. reflexivity.
  - rewrite IH; auto. intros K. apply H. right. exact K.
Qed.

Lemma split_on_app sep a b : split_on sep (a ++ sep :: b) = split_on sep a ++ split_on sep b.
Proof.
  induction a as [|x r IH]; cbn.
  - rewrite byte_eqb_refl. reflexivity.
  - destruct (Byte.eqb x sep); [rewrite IH; reflexivity|].
    rewrite IH. destruct (split_on sep r) eqn:E; [exfalso; eapply split_on_nonempty; eauto|]. reflexivity.
Qed.

(* ------------------------------------------------------------------ names *)
(** a proper directory-entry name: not "", ".", "..", no separator *)
Definition validc (c : name) : Prop :=
  is_nil c = false /\ is_dot c = false /\ is_dotdot c = false /\ ~ In slash c.

Definition validcb (c : name) : bool :=
  negb (is_nil c) && negb (is_dot c) && negb (is_dotdot c) && negb (existsb (Byte.eqb slash) c).

Lemma validcb_spec c : validcb c = true <-> validc c.
Proof.
  unfold validcb, validc. rewrite !andb_true_iff, !negb_true_iff. split.
  - intros [[[A B] C] D]. repeat split; auto. intros H.
    assert (existsb (Byte.eqb slash) c = true); [|congruence].
    apply existsb_exists. exists slash. split; auto; apply byte_eqb_refl.
  - intros (A & B & C & D). repeat split; auto.
    destruct (existsb (Byte.eqb slash) c) eqn:E; auto. apply existsb_exists in E as (x & Hx & Ex).
    apply byte_eqb_eq in Ex. subst. contradiction.
Qed.

(* ------------------------------------------------------------------ the component stack *)
Definition walk (st : list name) (cs : list name) : list name := fold_left (stepc true) cs st.

(** the reversed component stack of an absolute path *)
Definition stk (s : list byte) : list name := walk [] (split_on slash s).

Lemma resolve_stk s : resolve s = rev (stk s).
Proof. reflexivity. Qed.

Lemma walk_app st a b : walk st (a ++ b) = walk (walk st a) b.
Proof. apply fold_left_app. Qed.

Lemma stepc_valid st c : ~ In slash c -> Forall validc st -> Forall validc (stepc true st c).
Proof.
  intros Hs H. unfold stepc.
  destruct (is_nil c) eqn:A; cbn [orb]; auto.
  destruct (is_dot c) eqn:B; auto.
  destruct (is_dotdot c) eqn:C.
  - destruct st as [|top r]; auto. inversion H; subst.
    destruct H2 as (_ & _ & K & _). rewrite K. auto.
  - constructor; auto. repeat split; auto.
Qed.

Lemma walk_valid cs : forall st, Forall (fun c => ~ In slash c) cs -> Forall validc st -> Forall validc (walk st cs).
Proof.
  induction cs as [|c r IH]; intros st Hc Hs; [exact Hs|].
  inversion Hc; subst. change (walk st (c :: r)) with (walk (stepc true st c) r).
  apply IH; auto. apply stepc_valid; auto.
Qed.

Lemma stk_valid s : Forall validc (stk s).
Proof. apply walk_valid; [apply split_on_nosep|constructor]. Qed.

Lemma resolve_valid s : Forall validc (resolve s).
Proof. rewrite resolve_stk. apply Forall_rev. apply stk_valid. Qed.

Lemma stepc_push st c : validc c -> stepc true st c = c :: st.
Proof. intros (A & B & C & _). unfold stepc. rewrite A, B, C. reflexivity. Qed.

Lemma walk_push_all cs : forall st, Forall validc cs -> walk st cs = rev cs ++ st.
Proof.
  induction cs as [|c r IH]; intros st H; [reflexivity|].
  inversion H; subst. change (walk st (c :: r)) with (walk (stepc true st c) r).
  rewrite stepc_push; auto. rewrite IH; auto. cbn [rev]. rewrite <- app_assoc. reflexivity.
Qed.

(* ------------------------------------------------------------------ join_slash / split round trip *)
Lemma split_join_slash cs :
  cs <> [] -> Forall (fun c => ~ In slash c) cs -> split_on slash (join_slash cs) = cs.
Proof.
  induction cs as [|c r IH]; intros Hn H; [congruence|].
  inversion H; subst. destruct r as [|c2 r2].
  - cbn. apply split_on_single; auto.
  - change (join_slash (c :: c2 :: r2)) with (c ++ slash :: join_slash (c2 :: r2)).
    rewrite split_on_app, split_on_single; auto. cbn [app]. f_equal. apply IH; auto. discriminate.
Qed.

Lemma validc_noslash cs : Forall validc cs -> Forall (fun c => ~ In slash c) cs.
Proof. apply Forall_impl. intros c (_ & _ & _ & H). exact H. Qed.

Lemma is_rooted_clean s : is_rooted s = true -> is_rooted (clean s) = true.
Proof. intros H. unfold clean. rewrite H. reflexivity. Qed.

Lemma stk_clean s : is_rooted s = true -> stk (clean s) = stk s.
Proof.
  intros H. unfold clean. rewrite H.
  set (cs := normc true (split_on slash s)).
  assert (Hv : Forall validc cs) by apply resolve_valid.
  assert (Hs : stk s = rev cs). { unfold cs, normc, stk, walk. rewrite rev_involutive. reflexivity. }
  rewrite Hs. unfold stk.
  change (slash :: join_slash cs) with ([] ++ slash :: join_slash cs).
  rewrite split_on_app. cbn [split_on app]. unfold walk. cbn [fold_left].
  change (stepc true [] []) with (@nil name).
  destruct cs as [|c r] eqn:E.
  - reflexivity.
  - rewrite split_join_slash; [|discriminate|apply validc_noslash; auto].
    fold (walk [] (c :: r)). rewrite walk_push_all; auto. apply app_nil_r.
Qed.

Lemma resolve_clean s : is_rooted s = true -> resolve (clean s) = resolve s.
Proof. intros H. rewrite !resolve_stk, stk_clean; auto. Qed.

(* ------------------------------------------------------------------ join2 *)
Lemma is_rooted_app a b : is_rooted a = true -> is_rooted (a ++ b) = true.
Proof. destruct a; cbn; auto; discriminate. Qed.

Lemma join2_rooted a b : is_rooted a = true -> join2 a b = clean (a ++ slash :: b).
Proof. destruct a; cbn; [discriminate|]. destruct b; reflexivity. Qed.

Lemma is_rooted_join2 a b : is_rooted a = true -> is_rooted (join2 a b) = true.
Proof. intros H. rewrite join2_rooted; auto. apply is_rooted_clean, is_rooted_app, H. Qed.

Lemma stk_join2 a b : is_rooted a = true -> stk (join2 a b) = walk (stk a) (split_on slash b).
Proof.
  intros H. rewrite join2_rooted; auto. rewrite stk_clean; [|apply is_rooted_app; auto].
  unfold stk. rewrite split_on_app. apply walk_app.
Qed.

Lemma stk_concat a b : stk (a ++ slash :: b) = walk (stk a) (split_on slash b).
Proof. unfold stk. rewrite split_on_app. apply walk_app. Qed.

(* ------------------------------------------------------------------ prefixes *)
Lemma is_prefix_app a b : is_prefix a (a ++ b) = true.
Proof. induction a; cbn; auto. rewrite bytes_eqb_refl. exact IHa. Qed.

(** [st] (a reversed stack) has the reversed root [rr] as its bottom, with [d] components above it *)
Definition above (rr : list name) (d : nat) (st : list name) : Prop :=
  exists extra, st = extra ++ rr /\ length extra = d /\ Forall validc extra.

Lemma above_within rr d st : above rr d st -> is_prefix (rev rr) (rev st) = true.
Proof. intros (e & -> & _). rewrite rev_app_distr. apply is_prefix_app. Qed.

Fixpoint depth_after (items : list name) (d : nat) : nat :=
  match items with
  | [] => d
  | c :: r =>
      if is_nil c || is_dot c then depth_after r d
      else if is_dotdot c then depth_after r (pred d)
      else depth_after r (S d)
  end.

Lemma stepc_above rr d st c :
  ~ In slash c -> above rr d st -> depth_ok [c] d = true -> above rr (depth_after [c] d) (stepc true st c).
Proof.
  intros Hs (e & -> & Hl & Hv) Hd. cbn in Hd |- *. unfold stepc.
  destruct (is_nil c || is_dot c) eqn:A; [exists e; auto|].
  destruct (is_dotdot c) eqn:B.
  - destruct d as [|d']; [discriminate|]. destruct e as [|top e']; [discriminate|].
    cbn [app]. inversion Hv; subst. destruct H1 as (_ & _ & K & _). rewrite K.
    exists e'. repeat split; auto.
  - exists (c :: e). repeat split; auto. cbn. lia. constructor; auto.
    apply orb_false_iff in A as [A1 A2]. repeat split; auto.
Qed.

Lemma depth_ok_cons c r d :
  depth_ok (c :: r) d = depth_ok [c] d && depth_ok r (depth_after [c] d).
Proof.
  cbn. destruct (is_nil c || is_dot c); [reflexivity|].
  destruct (is_dotdot c); [destruct d; reflexivity|]. reflexivity.
Qed.

Lemma depth_after_cons c r d : depth_after (c :: r) d = depth_after r (depth_after [c] d).
Proof. cbn. destruct (is_nil c || is_dot c); auto. destruct (is_dotdot c); auto. Qed.

Lemma walk_above rr items : forall d st,
  Forall (fun c => ~ In slash c) items -> above rr d st -> depth_ok items d = true ->
  above rr (depth_after items d) (walk st items).
Proof.
  induction items as [|c r IH]; intros d st Hs Ha Hd; [exact Ha|].
  inversion Hs; subst. rewrite depth_ok_cons in Hd. apply andb_true_iff in Hd as [Hd1 Hd2].
  rewrite depth_after_cons. change (walk st (c :: r)) with (walk (stepc true st c) r).
  apply IH; auto. apply stepc_above; auto.
Qed.

Lemma depth_ok_app a b d :
  depth_ok (a ++ b) d = depth_ok a d && depth_ok b (depth_after a d).
Proof.
  revert d; induction a as [|c r IH]; intros d; [reflexivity|].
  cbn [app]. rewrite (depth_ok_cons c (r ++ b)), (depth_ok_cons c r), (depth_after_cons c r), IH, andb_assoc. reflexivity.
Qed.

Lemma depth_after_app a b d : depth_after (a ++ b) d = depth_after b (depth_after a d).
Proof.
  revert d; induction a as [|c r IH]; intros d; [reflexivity|].
  cbn [app]. rewrite (depth_after_cons c (r ++ b)), (depth_after_cons c r), IH. reflexivity.
Qed.

(** a proper name pushed on a stack above the root stays above it *)
Lemma above_push rr d st c : validc c -> above rr d st -> above rr (S d) (walk st [c]).
Proof.
  intros Hc (e & -> & Hl & Hv). cbn. rewrite stepc_push; auto.
  exists (c :: e). repeat split; auto. cbn; lia.
Qed.

Lemma above_weaken rr d st : above rr d st -> exists d', above rr d' st.
Proof. eauto. Qed.
