(** Race freedom of the catalog directory's lock discipline (Model/CatLock.v): for every number of
    goroutines, every list of operations per goroutine in which each map write is done under the write
    lock, and every schedule, no reachable state has two goroutines at conflicting map accesses. *)
From Coq Require Import List Arith Bool Lia.
Import ListNotations.
Require Import MS.Model.CatLock.

Lemma nth_error_upd : forall A (l : list A) n m v,
  nth_error (upd n v l) m =
  if Nat.eqb n m then match nth_error l n with Some _ => Some v | None => None end else nth_error l m.
Proof.
  induction l as [|x r IH]; intros n m v.
  - destruct n, m; simpl; auto; destruct (Nat.eqb n m); auto.
  - destruct n, m; simpl; auto.
Qed.
Lemma length_upd : forall A (l : list A) n v, length (upd n v l) = length l.
Proof. induction l; destruct n; simpl; auto. Qed.

Ltac inv_some := match goal with H : Some _ = Some _ |- _ => inversion H; subst; clear H end.

Definition holding (p : phase) : bool := match p with PAcq => false | _ => true end.

Record CInv (s : st) : Prop := {
  C_disc : forall t th, nth_error (thrs s) t = Some th -> forallb disciplined_op (ops th) = true;
  C_w : forall t o rest p, nth_error (thrs s) t = Some (mkthr (o :: rest) p) -> holding p = true ->
                            olock o = MW -> writer s = Some t;
  C_r : forall t o rest p, nth_error (thrs s) t = Some (mkthr (o :: rest) p) -> holding p = true ->
                            olock o = MR -> In t (readers s);
  C_x : forall t, writer s = Some t -> readers s = []
}.

Lemma cinv_init : forall progs, disciplined progs = true -> CInv (init progs).
Proof.
  intros progs Hd. constructor; unfold init; cbn.
  - intros t th H. rewrite nth_error_map in H. destruct (nth_error progs t) eqn:E; inversion H; subst. cbn.
    unfold disciplined in Hd. rewrite forallb_forall in Hd. apply Hd. eapply nth_error_In; eauto.
  - intros t o rest p H Hh. rewrite nth_error_map in H. destruct (nth_error progs t); inversion H; subst. discriminate.
  - intros t o rest p H Hh. rewrite nth_error_map in H. destruct (nth_error progs t); inversion H; subst. discriminate.
  - discriminate.
Qed.

Lemma in_remove_nat : forall t u l, In u l -> u <> t -> In u (remove_nat t l).
Proof.
  intros t u l H Hn. unfold remove_nat. apply filter_In. split; auto.
  destruct (Nat.eqb_spec u t); [contradiction | reflexivity].
Qed.

Theorem step_cinv : forall l s s', CInv s -> step l s = Some s' -> CInv s'.
Proof.
  intros l s s' I H. destruct I as [Kd Kw Kr Kx]. destruct l as [t|t|t]; unfold step in H;
    destruct (nth_error (thrs s) t) as [[[|o rest] p]|] eqn:Et; try discriminate; destruct p; try discriminate.
  - (* Acq *)
    destruct (olock o) eqn:Eo.
    + destruct (writer s) eqn:Ew; try discriminate. destruct (readers s) eqn:Er; try discriminate. inv_some.
      constructor; cbn.
      * intros u th Hu. rewrite nth_error_upd in Hu. destruct (Nat.eqb_spec t u).
        -- subst. rewrite Et in Hu. inversion Hu; subst. apply (Kd u _ Et).
        -- eauto.
      * intros u o' rest' p' Hu Hh Ho. rewrite nth_error_upd in Hu. destruct (Nat.eqb_spec t u); [subst; reflexivity|].
        specialize (Kw _ _ _ _ Hu Hh Ho). congruence.
      * intros u o' rest' p' Hu Hh Ho. rewrite nth_error_upd in Hu. destruct (Nat.eqb_spec t u).
        -- subst. rewrite Et in Hu. inversion Hu; subst. congruence.
        -- specialize (Kr _ _ _ _ Hu Hh Ho). destruct Kr.
      * reflexivity.
    + destruct (writer s) eqn:Ew; try discriminate. inv_some. constructor; cbn.
      * intros u th Hu. rewrite nth_error_upd in Hu. destruct (Nat.eqb_spec t u).
        -- subst. rewrite Et in Hu. inversion Hu; subst. apply (Kd u _ Et).
        -- eauto.
      * intros u o' rest' p' Hu Hh Ho. rewrite nth_error_upd in Hu. destruct (Nat.eqb_spec t u).
        -- subst. rewrite Et in Hu. inversion Hu; subst. congruence.
        -- specialize (Kw _ _ _ _ Hu Hh Ho). congruence.
      * intros u o' rest' p' Hu Hh Ho. rewrite nth_error_upd in Hu. destruct (Nat.eqb_spec t u); [subst; left; reflexivity|].
        right. eapply Kr; eauto.
      * discriminate.
  - (* Acc *)
    inv_some. constructor; cbn; auto.
    + intros u th Hu. rewrite nth_error_upd in Hu. destruct (Nat.eqb_spec t u).
      * subst. rewrite Et in Hu. inversion Hu; subst. apply (Kd u _ Et).
      * eauto.
    + intros u o' rest' p' Hu Hh Ho. rewrite nth_error_upd in Hu. destruct (Nat.eqb_spec t u).
      * subst. rewrite Et in Hu. inversion Hu; subst. eapply Kw; eauto.
      * eapply Kw; eauto.
    + intros u o' rest' p' Hu Hh Ho. rewrite nth_error_upd in Hu. destruct (Nat.eqb_spec t u).
      * subst. rewrite Et in Hu. inversion Hu; subst. eapply Kr; eauto.
      * eapply Kr; eauto.
  - (* Rel *)
    assert (Hd : forallb disciplined_op rest = true).
    { pose proof (Kd t _ Et) as X. cbn in X. apply andb_prop in X. tauto. }
    destruct (olock o) eqn:Eo; inv_some.
    + pose proof (Kw t o rest PRel Et eq_refl Eo) as Hw.
      constructor; cbn.
      * intros u th Hu. rewrite nth_error_upd in Hu. destruct (Nat.eqb_spec t u).
        -- subst. rewrite Et in Hu. inversion Hu; subst. exact Hd.
        -- eauto.
      * intros u o' rest' p' Hu Hh Ho. rewrite nth_error_upd in Hu. destruct (Nat.eqb_spec t u).
        -- subst. rewrite Et in Hu. inversion Hu; subst. discriminate.
        -- specialize (Kw _ _ _ _ Hu Hh Ho). congruence.
      * intros u o' rest' p' Hu Hh Ho. rewrite nth_error_upd in Hu. destruct (Nat.eqb_spec t u).
        -- subst. rewrite Et in Hu. inversion Hu; subst. discriminate.
        -- eapply Kr; eauto.
      * discriminate.
    + constructor; cbn.
      * intros u th Hu. rewrite nth_error_upd in Hu. destruct (Nat.eqb_spec t u).
        -- subst. rewrite Et in Hu. inversion Hu; subst. exact Hd.
        -- eauto.
      * intros u o' rest' p' Hu Hh Ho. rewrite nth_error_upd in Hu. destruct (Nat.eqb_spec t u).
        -- subst. rewrite Et in Hu. inversion Hu; subst. discriminate.
        -- eapply Kw; eauto.
      * intros u o' rest' p' Hu Hh Ho. rewrite nth_error_upd in Hu. destruct (Nat.eqb_spec t u).
        -- subst. rewrite Et in Hu. inversion Hu; subst. discriminate.
        -- apply in_remove_nat; [eapply Kr; eauto | auto].
      * intros w Hw. rewrite (Kx w Hw). reflexivity.
Qed.

Lemma run_cinv : forall ls s s', CInv s -> run_labels s ls = Some s' -> CInv s'.
Proof.
  induction ls as [|l r IH]; intros s s' I H; cbn in H.
  - inv_some. exact I.
  - destruct (step l s) as [s1|] eqn:E; try discriminate. apply (IH s1 s'); auto. eapply step_cinv; eauto.
Qed.

Lemma cinv_not_racy : forall s, CInv s -> racy s = false.
Proof.
  intros s I. destruct I as [Kd Kw Kr Kx]. unfold racy.
  destruct (existsb _ _) eqn:E; [|reflexivity]. exfalso.
  apply existsb_exists in E as [t [_ E]]. apply existsb_exists in E as [u [_ E]].
  apply andb_prop in E as [Hne Hc]. apply negb_true_iff in Hne. apply Nat.eqb_neq in Hne.
  unfold pending in Hc.
  destruct (nth_error (thrs s) t) as [[[|o1 r1] p1]|] eqn:E1; try (cbn in Hc; discriminate);
    destruct p1; try (cbn in Hc; discriminate).
  destruct (nth_error (thrs s) u) as [[[|o2 r2] p2]|] eqn:E2; try (destruct (oacc o1); cbn in Hc; discriminate);
    destruct p2; try (destruct (oacc o1); cbn in Hc; discriminate).
  assert (D1 : disciplined_op o1 = true) by (pose proof (Kd t _ E1) as X; cbn in X; apply andb_prop in X; tauto).
  assert (D2 : disciplined_op o2 = true) by (pose proof (Kd u _ E2) as X; cbn in X; apply andb_prop in X; tauto).
  (* one of the two is a write under the write lock; the other holds some lock *)
  assert (forall a oa ra b ob rb, a <> b ->
            nth_error (thrs s) a = Some (mkthr (oa :: ra) PAcc) -> nth_error (thrs s) b = Some (mkthr (ob :: rb) PAcc) ->
            oacc oa = KWrite -> disciplined_op oa = true -> False) as Hex.
  { intros a oa ra b ob rb Hab Ea Eb Hwk Hda. unfold disciplined_op in Hda. rewrite Hwk in Hda.
    destruct (olock oa) eqn:La; try discriminate.
    pose proof (Kw a oa ra PAcc Ea eq_refl La) as Wa.
    destruct (olock ob) eqn:Lb.
    - pose proof (Kw b ob rb PAcc Eb eq_refl Lb) as Wb. congruence.
    - pose proof (Kr b ob rb PAcc Eb eq_refl Lb) as Rb. rewrite (Kx a Wa) in Rb. destruct Rb. }
  destruct (oacc o1) eqn:A1.
  - eapply (Hex t o1 r1 u o2 r2); eauto.
  - destruct (oacc o2) eqn:A2; [|cbn in Hc; discriminate].
    eapply (Hex u o2 r2 t o1 r1); eauto.
Qed.

Theorem catalog_race_free : forall progs ls s,
  disciplined progs = true -> run_labels (init progs) ls = Some s -> racy s = false.
Proof. intros. apply cinv_not_racy. eapply run_cinv; eauto. apply cinv_init. assumption. Qed.
