(** Proofs/Durable_steps2.v — flush, checkpoint, rotation, shutdown: [Good] for each. *)
From Coq Require Import ZArith NArith List Bool Lia Permutation.
From Coq.Strings Require Import Byte.
Import ListNotations.
Require Import MS.Base.Res MS.Generated.Src_durab MS.Model.Wal MS.Model.Replay
  MS.Proofs.Durable_wal MS.Proofs.Durable_files MS.Proofs.Durable_exec MS.Proofs.Durable_flush
  MS.Proofs.Durable_recover MS.Proofs.Durable_sem MS.Proofs.Durable_ext MS.Proofs.Durable_crash
  MS.Proofs.Durable_inv MS.Proofs.Durable_steps.
Local Open Scope Z_scope.

Lemma incr_from_snoc lo (l : list tg) (t : tg) :
  incr_from lo l -> Forall (fun x => fst x < fst t) l -> lo < fst t -> incr_from lo (l ++ [t]).
Proof.
  revert lo; induction l as [|x l IH]; intros lo Hi Hf Hlo; cbn [app incr_from]; [auto|].
  destruct Hi as [H1 H2]. inversion Hf; subst. split; [assumption|]. apply IH; assumption.
Qed.

Lemma last_snoc {A} (l : list A) x d : last (l ++ [x]) d = x.
Proof. induction l as [|y l IH]; [reflexivity|]. cbn [app]. destruct (l ++ [x]) eqn:E; [destruct l; discriminate|]. exact IH. Qed.

Lemma firstn_map {A B} (f : A -> B) l n : firstn n (map f l) = map f (firstn n l).
Proof. revert l; induction n as [|n IH]; intros [|x l]; cbn; try reflexivity. rewrite IH. reflexivity. Qed.

Section WithClen.
  Variable clen : list record -> Z.
  Hypothesis clen_pos : forall x, 0 < clen x.
  Variable owner2 : Z.

  Notation CrashOK := (CrashOK clen owner2).
  Notation Good := (Good clen owner2).

  Lemma partial_of_clean fs all t : FClean fs all -> all_ok fs (snd t) -> FPartial fs all t.
  Proof.
    intros [Hv Hok Hfx Hct] Hokt. constructor.
    - exact Hv.
    - rewrite cmds_of_app. apply all_ok_app. split; [exact Hok|]. unfold cmds_of. cbn. rewrite app_nil_r. exact Hokt.
    - intros f off. left. apply Hfx.
    - intros f slot r Hr. rewrite Hct. exact Hr.
    - intros _ f slot. apply Hct.
  Qed.

  (* ---------------------------------------------------------------- flush: inside the WAL appends *)

  Lemma crash_in_wal_part old segs cur im st c cs j imj :
    BInv old segs cur im st c -> all_ok (i_files im) cs -> meta_ok cs ->
    (j <= 6)%nat ->
    i_wals imj = [(0%N, {| wf_status := Some (WFS_OPEN, WRS_NOTREPLAYED, s_owner st);
                          wf_recs := log_of (live_items segs cur) ++ firstn j (tg_recs (s_tgid st) cs) |})] ->
    i_files imj = i_files im ->
    CrashOK imj (cfold c (map (EWalApp 0%N) (firstn j (tg_recs (s_tgid st) cs)))).
  Proof.
    intros [Hw _ Hown Hsegs Hincr [Htpos Htg] _ _ Hclean Hmeta -> _] Hokc Hmc Hj Hwj Hfj.
    set (t := s_tgid st) in *. set (T := (t, cs) : tg).
    assert (Hincr' : incr_from 0 (old ++ live_tgs segs (cur ++ [T]))).
    { rewrite live_tgs_snoc, app_assoc. apply incr_from_snoc; [assumption|exact Htg|exact Htpos]. }
    assert (Hmeta' : Forall (fun t => meta_ok (snd t)) (live_tgs segs (cur ++ [T]))).
    { rewrite live_tgs_snoc. apply Forall_app. split; [assumption|constructor; [exact Hmc|constructor]]. }
    assert (Hall : (old ++ live_tgs segs cur) = (old ++ concat segs) ++ cur).
    { unfold live_tgs. apply app_assoc. }
    rewrite <- Hfj in Hclean, Hokc.
    (* the torn tails *)
    assert (Htorn : forall tl b p, torn tl b -> (forall id cs', In (RBody id cs') tl -> meta_ok cs') ->
              firstn j (tg_recs t cs) = tl ->
              CrashOK imj {| cs_pending := p; cs_all := old ++ live_tgs segs cur; cs_cur := cur |}).
    { intros tl b p Ht Hm E. rewrite Hall in *.
      eapply (crash_clean clen clen_pos owner2 imj _ WFS_OPEN WRS_NOTREPLAYED (s_owner st)); [|
        |exact Hclean].
      - unfold one_wal. rewrite Hwj, E. reflexivity.
      - rewrite <- Hall in Hincr. eapply live_shape; eassumption. }
    destruct j as [|[|[|[|[|[|[|j]]]]]]]; try lia; cbn [firstn tg_recs map cfold fold_left cstep cs_pending cs_all cs_cur].
    - eapply Htorn; [apply torn_nil|intros ? ? []|reflexivity].
    - change (DEST_WAL =? DEST_CHECKPOINT) with false. cbn [andb].
      eapply Htorn; [apply (torn_prep t)|intros ? ? [H|[]]; discriminate|reflexivity].
    - change (DEST_WAL =? DEST_CHECKPOINT) with false. cbn [andb].
      eapply Htorn; [apply (torn_mid t)|intros ? ? [H|[H|[]]]; discriminate|reflexivity].
    - change (DEST_WAL =? DEST_CHECKPOINT) with false. cbn [andb].
      eapply Htorn; [apply (torn_len t)|intros ? ? [H|[H|[H|[]]]]; discriminate|reflexivity].
    - change (DEST_WAL =? DEST_CHECKPOINT) with false. cbn [andb].
      eapply Htorn; [apply (torn_body t)| |reflexivity].
      intros id cs' [H|[H|[H|[H|[]]]]]; try discriminate. inversion H; subst. exact Hmc.
    - (* checksum written: the TG is committed *)
      change (DEST_WAL =? DEST_CHECKPOINT) with false. cbn [andb].
      rewrite Hall.
      eapply (crash_partial clen clen_pos owner2 imj _ WFS_OPEN WRS_NOTREPLAYED (s_owner st) (old ++ concat segs) cur T).
      + unfold one_wal. rewrite Hwj. reflexivity.
      + apply (live_shape_sum old segs cur (s_owner st) T); assumption.
      + rewrite <- Hall. apply partial_of_clean; assumption.
    - change (DEST_WAL =? DEST_CHECKPOINT) with false. cbn [andb].
      rewrite Hall.
      eapply (crash_partial clen clen_pos owner2 imj _ WFS_OPEN WRS_NOTREPLAYED (s_owner st) (old ++ concat segs) cur T).
      + unfold one_wal. rewrite Hwj. reflexivity.
      + pose proof (live_shape old segs (cur ++ [T]) (s_owner st) [] false Hown Hsegs Hincr' Hmeta' torn_nil) as H.
        rewrite app_nil_r, live_items_snoc, log_of_app in H. cbn [log_of flat_map item_recs fst snd T] in H.
        rewrite app_nil_r in H. apply H. intros ? ? [].
      + rewrite <- Hall. apply partial_of_clean; assumption.
  Qed.

  (* ---------------------------------------------------------------- flush *)

  Lemma can_write_binv old segs cur im st c : BInv old segs cur im st c -> can_write im st = true.
  Proof.
    intros [Hw Hw0 _ _ _ _ _ _ _ _ _ _]. unfold can_write. rewrite Hw0, Hw. cbn [alookup N.eqb wf_status].
    rewrite !Z.eqb_refl. reflexivity.
  Qed.

  Lemma good_flush old segs cur im st c ord evs st' :
    BInv old segs cur im st c -> flush clen im st ord = Ok (evs, st') -> Good im c evs st'.
  Proof.
    intros Hb Hfl. unfold flush in Hfl. destruct (s_queue st) as [|c0 q] eqn:Eq.
    - (* empty queue: only the TG id advances *)
      inversion Hfl; subst. split; [|intros j Hj _; cbn in Hj; assert (j = 0)%nat as -> by lia; cbn; eapply binv_crash; eassumption].
      exists old, segs, cur. destruct Hb as [Hbw Hw0 Hown Hsegs Hincr [Htp Htg] Hlast [Hq Hqm] Hclean Hmeta Hcst Hnn].
      constructor; cbn [s_owner s_wal s_tgid s_last s_queue apply_events fold_left cfold]; try assumption.
      + split; [lia|]. eapply Forall_impl; [|exact Htg]. cbn. intros. lia.
      + rewrite Eq in Hq, Hqm. split; assumption.
    - rewrite (can_write_binv _ _ _ _ _ _ Hb) in Hfl. cbv zeta in Hfl.
      match type of Hfl with Ok (?A, ?B) = _ =>
        assert (Hevs : evs = A) by congruence; assert (Hst : st' = B) by congruence end.
      subst evs st'. clear Hfl. set (cs := c0 :: q) in *.
      set (t := s_tgid st) in *. set (T := (t, cs) : tg).
      pose proof Hb as [Hbw Hw0 Hown Hsegs Hincr [Htp Htg] Hlast [Hq Hqm] Hclean Hmeta Hcst Hnn].
      rewrite Eq in Hq, Hqm. fold cs in Hq, Hqm. rewrite Hw0.
      set (fs := i_files im) in *.
      set (W := map (EWalApp 0%N) (tg_recs t cs)).
      assert (HW : wal_events 0%N t cs = W ++ [EWalFsync 0%N]) by reflexivity.
      set (im1 := apply_events im (wal_events 0%N t cs)).
      (* the WAL after the appends *)
      destruct (apply_wal_apps (tg_recs t cs) im _ _ Hbw) as [HwW HfW].
      assert (Hw1 : i_wals im1 = [(0%N, {| wf_status := Some (WFS_OPEN, WRS_NOTREPLAYED, s_owner st);
                                          wf_recs := log_of (live_items segs (cur ++ [T])) |})]).
      { unfold im1. rewrite HW, apply_events_app.
        change (apply_events (apply_events im W) [EWalFsync 0%N]) with (apply_events im W). unfold W. rewrite HwW.
        rewrite live_items_snoc, log_of_app. cbn [log_of flat_map item_recs fst snd T]. rewrite app_nil_r. reflexivity. }
      assert (Hf1 : i_files im1 = fs).
      { unfold im1. rewrite HW, apply_events_app.
        change (apply_events (apply_events im W) [EWalFsync 0%N]) with (apply_events im W). exact HfW. }
      set (order := file_order ord cs). set (gcs := grouped order cs).
      assert (HP : prim_events clen im1 order cs = fexec clen fs gcs).
      { rewrite (prim_events_fexec clen clen_pos); [rewrite Hf1; reflexivity|rewrite Hf1; apply Hclean|rewrite Hf1; exact Hq|].
        intros f Hin. apply file_order_sub in Hin. exact Hin. }
      rewrite HP. set (P := fexec clen fs gcs).
      assert (Hokg : all_ok fs gcs) by (apply all_ok_grouped; assumption).
      destruct (fexec_ok clen clen_pos gcs fs (fc_vinv _ _ Hclean) Hokg) as (HwP & _).
      assert (Hincr' : incr_from 0 (old ++ live_tgs segs (cur ++ [T]))).
      { rewrite live_tgs_snoc, app_assoc. apply incr_from_snoc; [assumption|exact Htg|exact Htp]. }
      assert (Hmeta' : Forall (fun t => meta_ok (snd t)) (live_tgs segs (cur ++ [T]))).
      { rewrite live_tgs_snoc. apply Forall_app. split; [assumption|constructor; [exact Hqm|constructor]]. }
      assert (Hcf : cfold c (wal_events 0%N t cs) =
                    {| cs_pending := None; cs_all := (old ++ live_tgs segs cur) ++ [T]; cs_cur := cur ++ [T] |}).
      { rewrite Hcst. cbn [wal_events cfold fold_left cstep cs_pending cs_all cs_cur].
        change (DEST_WAL =? DEST_CHECKPOINT) with false. cbn [andb]. reflexivity. }
      split.
      + (* the invariant after the flush *)
        exists old, segs, (cur ++ [T]).
        rewrite apply_events_app. fold im1. rewrite cfold_app, Hcf.
        constructor; cbn [s_owner s_wal s_tgid s_last s_queue].
        * rewrite i_wals_files_onlys by (apply is_write_files_only, HwP). exact Hw1.
        * reflexivity.
        * exact Hown.
        * exact Hsegs.
        * exact Hincr'.
        * split; [lia|]. rewrite live_tgs_snoc, app_assoc. apply Forall_app. split.
          -- eapply Forall_impl; [|exact Htg]. cbn. intros. lia.
          -- constructor; [cbn; lia|constructor].
        * rewrite map_app. cbn [map fst T]. symmetry. apply last_snoc.
        * split; constructor.
        * rewrite i_files_apply_events, Hf1, live_tgs_snoc, app_assoc.
          apply (prim_full_clean clen clen_pos fs _ T ord); assumption.
        * exact Hmeta'.
        * rewrite cfold_quiet by (apply is_write_quiet, HwP). rewrite live_tgs_snoc, app_assoc. reflexivity.
        * rewrite i_files_apply_events, Hf1. apply no_pnew_writes; assumption.
      + (* every prefix *)
        intros j Hj Hg. rewrite HW in Hj, Hg |- *. rewrite <- app_assoc in Hj, Hg |- *.
        destruct (Nat.le_gt_cases j 6) as [Hle|Hgt].
        * (* inside the WAL appends *)
          assert (HlW : length W = 6%nat) by reflexivity.
          rewrite firstn_app_le by lia. unfold W. rewrite firstn_map.
          destruct (apply_wal_apps (firstn j (tg_recs t cs)) im _ _ Hbw) as [Hwj Hfj].
          eapply crash_in_wal_part; try eassumption.
        * (* after the appends: the WAL holds the whole group *)
          assert (HlW : length W = 6%nat) by reflexivity.
          rewrite firstn_app_ge by lia. rewrite HlW.
          destruct (j - 6)%nat as [|j1] eqn:Ej; [lia|].
          change (firstn (S j1) ([EWalFsync 0%N] ++ P)) with ([EWalFsync 0%N] ++ firstn j1 P).
          rewrite !apply_events_app, !cfold_app.
          assert (Him1 : apply_events (apply_events im W) [EWalFsync 0%N] = im1)
            by (unfold im1; rewrite HW, apply_events_app; reflexivity).
          rewrite Him1.
          assert (Hcf1 : cfold (cfold c W) [EWalFsync 0%N] = cfold c (wal_events 0%N t cs))
            by (rewrite HW, cfold_app; reflexivity).
          rewrite Hcf1, Hcf.
          assert (HjP : (j1 <= length P)%nat) by (rewrite !app_length in Hj; cbn in Hj; lia).
          assert (Hqj : forallb is_write (firstn j1 P) = true).
          { rewrite forallb_forall in *. intros e He. apply HwP. eapply In_firstn_incl. exact He. }
          rewrite cfold_quiet by (apply is_write_quiet, Hqj).
          assert (Hall : (old ++ live_tgs segs cur) = (old ++ concat segs) ++ cur) by (unfold live_tgs; apply app_assoc).
          rewrite Hall.
          eapply (crash_partial clen clen_pos owner2 _ _ WFS_OPEN WRS_NOTREPLAYED (s_owner st) (old ++ concat segs) cur T).
          -- unfold one_wal. rewrite i_wals_files_onlys by (apply is_write_files_only, Hqj). exact Hw1.
          -- pose proof (live_shape old segs (cur ++ [T]) (s_owner st) [] false Hown Hsegs Hincr' Hmeta' torn_nil) as H.
             rewrite app_nil_r in H. apply H. intros ? ? [].
          -- rewrite i_files_apply_events, Hf1, <- Hall.
             apply (prim_prefix_partial clen clen_pos fs _ T gcs j1); try assumption.
             ++ intros c1 Hin. eapply grouped_in. exact Hin.
             ++ (* the guard of the global trace, read at this position *)
                intros j' e -> Hnth.
                assert (Hjeq : j = S (6 + S j')) by lia. subst j.
                cbn [gwin] in Hg.
                assert (Hn : nth_error (W ++ [EWalFsync 0%N] ++ P) (6 + S j') = Some e).
                { rewrite nth_error_app2 by lia. rewrite HlW. replace (6 + S j' - 6)%nat with (S j') by lia.
                  cbn [app nth_error]. exact Hnth. }
                rewrite Hn in Hg. rewrite ev_guard_files in Hg.
                rewrite firstn_app_ge in Hg by lia. rewrite HlW in Hg.
                replace (6 + S j' - 6)%nat with (S j') in Hg by lia. cbn [firstn app] in Hg.
                rewrite i_files_apply_events, !fapplys_app in Hg.
                rewrite (fapplys_wal_only W) in Hg by reflexivity.
                cbn [fapplys fold_left fapply] in Hg. exact Hg.
  Qed.
End WithClen.
