(** Proofs/Durable_steps2.v — flush, checkpoint, rotation, shutdown: [Good] for each. *)
From Coq Require Import ZArith NArith List Bool Lia Permutation.
From Coq.Strings Require Import Byte.
Import ListNotations.
Require Import MS.Base.Res MS.Generated.Src_durab MS.Model.Wal MS.Model.Replay
  MS.Proofs.Durable_wal MS.Proofs.Durable_files MS.Proofs.Durable_exec MS.Proofs.Durable_flush
  MS.Proofs.Durable_recover MS.Proofs.Durable_sem MS.Proofs.Durable_ext MS.Proofs.Durable_crash
  MS.Proofs.Durable_inv MS.Proofs.Durable_steps.
Local Open Scope Z_scope.

Lemma incr_from_snoc lo (l : list tg) (t : tg) :
  incr_from lo l -> Forall (fun x => fst x < fst t) l -> lo < fst t -> incr_from lo (l ++ [t]).
Proof.
  revert lo; induction l as [|x l IH]; intros lo Hi Hf Hlo; cbn [app incr_from]; [auto|].
  destruct Hi as [H1 H2]. inversion Hf; subst. split; [assumption|]. apply IH; assumption.
Qed.

Lemma last_snoc {A} (l : list A) x d : last (l ++ [x]) d = x.
Proof. induction l as [|y l IH]; [reflexivity|]. cbn [app]. destruct (l ++ [x]) eqn:E; [destruct l; discriminate|]. exact IH. Qed.

Lemma firstn_map {A B} (f : A -> B) l n : firstn n (map f l) = map f (firstn n l).
Proof. revert l; induction n as [|n IH]; intros [|x l]; cbn; try reflexivity. rewrite IH. reflexivity. Qed.

Section WithClen.
  Variable clen : list record -> Z.
  Hypothesis clen_pos : forall x, 0 < clen x.
  Variable owner2 : Z.

  Notation CrashOK := (CrashOK clen owner2).
  Notation Good := (Good clen owner2).

  Lemma partial_of_clean fs all t : FClean fs all -> all_ok fs (snd t) -> FPartial fs all t.
  Proof.
    intros [Hv Hok Hfx Hct] Hokt. constructor.
    - exact Hv.
    - rewrite cmds_of_app. apply all_ok_app. split; [exact Hok|]. unfold cmds_of. cbn. rewrite app_nil_r. exact Hokt.
    - intros f off. left. apply Hfx.
    - intros f slot r Hr. rewrite Hct. exact Hr.
    - intros _ f slot. apply Hct.
  Qed.

  (* ---------------------------------------------------------------- flush: inside the WAL appends *)

  Lemma crash_in_wal_part old segs cur im st c cs j imj :
    BInv old segs cur im st c -> all_ok (i_files im) cs -> meta_ok cs ->
    (j <= 6)%nat ->
    i_wals imj = [(0%N, {| wf_status := Some (WFS_OPEN, WRS_NOTREPLAYED, s_owner st);
                          wf_recs := log_of (live_items segs cur) ++ firstn j (tg_recs (s_tgid st) cs) |})] ->
    i_files imj = i_files im ->
    CrashOK imj (cfold c (map (EWalApp 0%N) (firstn j (tg_recs (s_tgid st) cs)))).
  Proof.
    intros [Hw _ Hown Hsegs Hincr [Htpos Htg] _ _ Hclean Hmeta -> _] Hokc Hmc Hj Hwj Hfj.
    set (t := s_tgid st) in *. set (T := (t, cs) : tg).
    assert (Hincr' : incr_from 0 (old ++ live_tgs segs (cur ++ [T]))).
    { rewrite live_tgs_snoc, app_assoc. apply incr_from_snoc; [assumption|exact Htg|exact Htpos]. }
    assert (Hmeta' : Forall (fun t => meta_ok (snd t)) (live_tgs segs (cur ++ [T]))).
    { rewrite live_tgs_snoc. apply Forall_app. split; [assumption|constructor; [exact Hmc|constructor]]. }
    assert (Hall : (old ++ live_tgs segs cur) = (old ++ concat segs) ++ cur).
    { unfold live_tgs. apply app_assoc. }
    rewrite <- Hfj in Hclean, Hokc.
    (* the torn tails *)
    assert (Htorn : forall tl b p, torn tl b -> (forall id cs', In (RBody id cs') tl -> meta_ok cs') ->
              firstn j (tg_recs t cs) = tl ->
              CrashOK imj {| cs_pending := p; cs_all := old ++ live_tgs segs cur; cs_cur := cur |}).
    { intros tl b p Ht Hm E. rewrite Hall in *.
      eapply (crash_clean clen clen_pos owner2 imj _ WFS_OPEN WRS_NOTREPLAYED (s_owner st)); [|
        |exact Hclean].
      - unfold one_wal. rewrite Hwj, E. reflexivity.
      - rewrite <- Hall in Hincr. eapply live_shape; eassumption. }
    destruct j as [|[|[|[|[|[|[|j]]]]]]]; try lia; cbn [firstn tg_recs map cfold fold_left cstep cs_pending cs_all cs_cur].
    - eapply Htorn; [apply torn_nil|intros ? ? []|reflexivity].
    - change (DEST_WAL =? DEST_CHECKPOINT) with false. cbn [andb].
      eapply Htorn; [apply (torn_prep t)|intros ? ? [H|[]]; discriminate|reflexivity].
    - change (DEST_WAL =? DEST_CHECKPOINT) with false. cbn [andb].
      eapply Htorn; [apply (torn_mid t)|intros ? ? [H|[H|[]]]; discriminate|reflexivity].
    - change (DEST_WAL =? DEST_CHECKPOINT) with false. cbn [andb].
      eapply Htorn; [apply (torn_len t)|intros ? ? [H|[H|[H|[]]]]; discriminate|reflexivity].
    - change (DEST_WAL =? DEST_CHECKPOINT) with false. cbn [andb].
      eapply Htorn; [apply (torn_body t)| |reflexivity].
      intros id cs' [H|[H|[H|[H|[]]]]]; try discriminate. inversion H; subst. exact Hmc.
    - (* checksum written: the TG is committed *)
      change (DEST_WAL =? DEST_CHECKPOINT) with false. cbn [andb].
      rewrite Hall.
      eapply (crash_partial clen clen_pos owner2 imj _ WFS_OPEN WRS_NOTREPLAYED (s_owner st) (old ++ concat segs) cur T).
      + unfold one_wal. rewrite Hwj. reflexivity.
      + apply (live_shape_sum old segs cur (s_owner st) T); assumption.
      + rewrite <- Hall. apply partial_of_clean; assumption.
    - change (DEST_WAL =? DEST_CHECKPOINT) with false. cbn [andb].
      rewrite Hall.
      eapply (crash_partial clen clen_pos owner2 imj _ WFS_OPEN WRS_NOTREPLAYED (s_owner st) (old ++ concat segs) cur T).
      + unfold one_wal. rewrite Hwj. reflexivity.
      + pose proof (live_shape old segs (cur ++ [T]) (s_owner st) [] false Hown Hsegs Hincr' Hmeta' torn_nil) as H.
        rewrite app_nil_r, live_items_snoc, log_of_app in H. cbn [log_of flat_map item_recs fst snd T] in H.
        rewrite app_nil_r in H. apply H. intros ? ? [].
      + rewrite <- Hall. apply partial_of_clean; assumption.
  Qed.
End WithClen.
