(** Proofs about Model/Candle.v, part 2: what one candle holds after its window's rows were added
    (open/close = price at the earliest/latest timestamp, high/low = extremes, sums, count), and
    permutation invariance of open/high/low/close for distinct timestamps and NaN-free prices. *)
From Coq Require Import ZArith Bool Lia List Permutation.
Import ListNotations.
Require Import MS.Base.GoInt MS.Base.Res MS.Base.F32 MS.Base.F64 MS.Model.Uda MS.Model.Candle
               MS.Proofs.Uda_facts MS.Proofs.Candle_map.
Local Open Scope Z_scope.

(** ------------------------------------------------------------------ AddCandle, componentwise *)
Definition ot_step (s : Z * f32) (r : bar) : Z * f32 := if b_t r <? fst s then (b_t r, b_o r) else s.
Definition ct_step (s : Z * f32) (r : bar) : Z * f32 := if fst s <? b_t r then (b_t r, b_c r) else s.

(** first row into a fresh candle *)
Lemma add_candle_first cd nacc w r : truncate cd w = w -> is_within cd (b_t r) w = true ->
  add_candle cd (new_candle cd nacc w) r
  = {| c_start := w; c_o := b_o r; c_h := b_h r; c_l := b_l r; c_c := b_c r; c_ot := b_t r; c_ct := b_t r;
       c_sums := repeat f64_zero nacc; c_n := 0 |}.
Proof.
  intros Tw W. unfold add_candle, new_candle. cbn [c_start c_ot]. rewrite Tw, W. cbn [negb].
  rewrite Z.eqb_refl. cbn [set_ohlc c_start c_ot c_ct c_h c_l c_o c_c c_sums c_n].
  rewrite Z.ltb_irrefl. cbn [c_start c_ot c_ct c_h c_l c_o c_c c_sums c_n].
  rewrite Z.ltb_irrefl. cbn [c_start c_ot c_ct c_h c_l c_o c_c c_sums c_n].
  rewrite f32_gt_irrefl. cbn [c_start c_ot c_ct c_h c_l c_o c_c c_sums c_n].
  rewrite f32_lt_irrefl. reflexivity.
Qed.

(** a later row into an initialised candle *)
Lemma add_candle_next cd c r : is_within cd (b_t r) (c_start c) = true -> c_ot c <> zero_time ->
  let c' := add_candle cd c r in
  c_start c' = c_start c
  /\ (c_ot c', c_o c') = ot_step (c_ot c, c_o c) r
  /\ (c_ct c', c_c c') = ct_step (c_ct c, c_c c) r
  /\ c_h c' = max_step (c_h c) (b_h r)
  /\ c_l c' = min_step (c_l c) (b_l r)
  /\ c_sums c' = c_sums c /\ c_n c' = c_n c.
Proof.
  intros W Z0. cbv zeta. unfold add_candle, ot_step, ct_step, max_step, min_step. rewrite W. cbn [negb fst].
  destruct (Z.eqb_spec (c_ot c) zero_time) as [E|_]; [contradiction|].
  destruct (b_t r <? c_ot c); cbn [set_ohlc c_start c_ot c_ct c_h c_l c_o c_c c_sums c_n];
  destruct (c_ct c <? b_t r); cbn [set_ohlc c_start c_ot c_ct c_h c_l c_o c_c c_sums c_n];
  destruct (f32_gt (b_h r) (c_h c)); cbn [set_ohlc c_start c_ot c_ct c_h c_l c_o c_c c_sums c_n];
  destruct (f32_lt (b_l r) (c_l c)); cbn [set_ohlc c_start c_ot c_ct c_h c_l c_o c_c c_sums c_n];
  repeat split; reflexivity.
Qed.

(** ------------------------------------------------------------------ the candle of a window, as folds *)
Definition sums_of (nacc : nat) (rs : list bar) : list f64 :=
  fold_left (fun s r => add_sums s (b_acc r)) rs (repeat f64_zero nacc).

Definition in_window (cd : cdur) (w : Z) (rs : list bar) : Prop :=
  idem cd /\ truncate cd w = w /\ forall r, In r rs -> truncate cd (b_t r) = w /\ b_t r <> zero_time.

Lemma within_of_window cd w r : idem cd -> truncate cd (b_t r) = w -> is_within cd (b_t r) w = true.
Proof. intros Hid E. rewrite <- E. apply is_within_truncate, Hid. Qed.

Lemma ot_step_nonzero s r : fst s <> zero_time -> b_t r <> zero_time -> fst (ot_step s r) <> zero_time.
Proof. unfold ot_step. destruct (b_t r <? fst s); cbn [fst]; auto. Qed.

Lemma fold_next cd w rs : idem cd -> forall c,
  c_start c = w -> c_ot c <> zero_time ->
  (forall r, In r rs -> truncate cd (b_t r) = w /\ b_t r <> zero_time) ->
  0 <= c_n c -> c_n c + Z.of_nat (length rs) <= ity_max I64 ->
  let c' := fold_left (add_bar cd) rs c in
  c_start c' = w
  /\ (c_ot c', c_o c') = fold_left ot_step rs (c_ot c, c_o c)
  /\ (c_ct c', c_c c') = fold_left ct_step rs (c_ct c, c_c c)
  /\ c_h c' = fold_left max_step (map b_h rs) (c_h c)
  /\ c_l c' = fold_left min_step (map b_l rs) (c_l c)
  /\ c_sums c' = fold_left (fun s r => add_sums s (b_acc r)) rs (c_sums c)
  /\ c_n c' = c_n c + Z.of_nat (length rs).
Proof.
  intros Hid. induction rs as [|r rs IH]; intros c S Z0 Hin N0 Nb; cbv zeta; cbn [fold_left map length].
  - repeat split; try reflexivity; cbn [length]; lia.
  - destruct (Hin r (or_introl eq_refl)) as [Tr Zr].
    assert (W : is_within cd (b_t r) (c_start c) = true) by (rewrite S; apply within_of_window; [exact Hid | exact Tr]).
    destruct (add_candle_next cd c r W Z0) as (A1 & A2 & A3 & A4 & A5 & A6 & A7).
    set (c1 := add_bar cd c r).
    assert (B1 : c_start c1 = w) by (unfold c1; rewrite add_bar_start; exact S).
    assert (B2 : (c_ot c1, c_o c1) = ot_step (c_ot c, c_o c) r) by (unfold c1, add_bar; cbn [c_ot c_o]; exact A2).
    assert (B3 : (c_ct c1, c_c c1) = ct_step (c_ct c, c_c c) r) by (unfold c1, add_bar; cbn [c_ct c_c]; exact A3).
    assert (B4 : c_h c1 = max_step (c_h c) (b_h r)) by (unfold c1, add_bar; cbn [c_h]; exact A4).
    assert (B5 : c_l c1 = min_step (c_l c) (b_l r)) by (unfold c1, add_bar; cbn [c_l]; exact A5).
    assert (B6 : c_sums c1 = add_sums (c_sums c) (b_acc r)) by (unfold c1, add_bar; cbn [c_sums]; rewrite A6; reflexivity).
    assert (B7 : c_n c1 = c_n c + 1).
    { unfold c1, add_bar. cbn [c_n]. rewrite A7. apply wrap_i64_nonneg. cbn [length] in Nb. lia. }
    assert (Z1 : c_ot c1 <> zero_time).
    { pose proof (ot_step_nonzero (c_ot c, c_o c) r Z0 Zr) as H. rewrite <- B2 in H. exact H. }
    assert (Hin' : forall r0, In r0 rs -> truncate cd (b_t r0) = w /\ b_t r0 <> zero_time) by (intros r0 I; apply Hin; right; exact I).
    cbn [length] in Nb.
    destruct (IH c1 B1 Z1 Hin') as (I1 & I2 & I3 & I4 & I5 & I6 & I7); [lia | lia|].
    rewrite B2 in I2. rewrite B3 in I3. rewrite B4 in I4. rewrite B5 in I5. rewrite B6 in I6. rewrite B7 in I7.
    repeat split; try assumption. lia.
Qed.

(** the candle of window [w] after its rows [r0 :: rest] (in input order) *)
Theorem window_fold cd nacc w r0 rest : in_window cd w (r0 :: rest) ->
  Z.of_nat (length (r0 :: rest)) <= ity_max I64 ->
  let c := fold_left (add_bar cd) (r0 :: rest) (new_candle cd nacc w) in
  c_start c = w
  /\ (c_ot c, c_o c) = fold_left ot_step rest (b_t r0, b_o r0)
  /\ (c_ct c, c_c c) = fold_left ct_step rest (b_t r0, b_c r0)
  /\ c_h c = fold_left max_step (map b_h rest) (b_h r0)
  /\ c_l c = fold_left min_step (map b_l rest) (b_l r0)
  /\ c_sums c = sums_of nacc (r0 :: rest)
  /\ c_n c = Z.of_nat (length (r0 :: rest)).
Proof.
  intros (Hid & Tw & Hin) Nb. cbv zeta. cbn [fold_left].
  destruct (Hin r0 (or_introl eq_refl)) as [T0 Z0].
  assert (F : add_bar cd (new_candle cd nacc w) r0
              = {| c_start := w; c_o := b_o r0; c_h := b_h r0; c_l := b_l r0; c_c := b_c r0; c_ot := b_t r0; c_ct := b_t r0;
                   c_sums := add_sums (repeat f64_zero nacc) (b_acc r0); c_n := 1 |}).
  { unfold add_bar. rewrite (add_candle_first cd nacc w r0 Tw (within_of_window cd w r0 Hid T0)).
    cbn [c_start c_ot c_ct c_h c_l c_o c_c c_sums c_n]. reflexivity. }
  rewrite F. cbn [length] in Nb.
  match goal with |- context [fold_left (add_bar cd) rest ?c0] => set (c1 := c0) end.
  destruct (fold_next cd w rest Hid c1) as (I1 & I2 & I3 & I4 & I5 & I6 & I7);
    try reflexivity; try (unfold c1; cbn [c_ot c_n]; try exact Z0; lia).
  - intros r I. apply Hin. right. exact I.
  - unfold c1 in *. cbn [c_start c_ot c_ct c_h c_l c_o c_c c_sums c_n] in *.
    repeat split; try assumption;
      try (unfold sums_of; cbn [fold_left]; assumption); try (rewrite I7; cbn [length]; lia).
Qed.

(** ------------------------------------------------------------------ earliest / latest row *)
Definition earliest (r : bar) (rs : list bar) : Prop := In r rs /\ forall x, In x rs -> b_t r <= b_t x.
Definition latest (r : bar) (rs : list bar) : Prop := In r rs /\ forall x, In x rs -> b_t x <= b_t r.

Lemma fold_ot_spec rest : forall r0,
  exists r, earliest r (r0 :: rest) /\ fold_left ot_step rest (b_t r0, b_o r0) = (b_t r, b_o r).
Proof.
  induction rest as [|a rest IH]; intros r0; cbn [fold_left].
  - exists r0. split; [split; [left; reflexivity | intros x [E|[]]; subst; lia] | reflexivity].
  - unfold ot_step at 2. cbn [fst]. destruct (Z.ltb_spec (b_t a) (b_t r0)) as [L|L].
    + destruct (IH a) as (r & [I M] & E). exists r. split; [|exact E]. split.
      * destruct I as [I|I]; [right; left; exact I | right; right; exact I].
      * intros x [X|[X|X]]; [subst x; pose proof (M a (or_introl eq_refl)); lia | subst x; apply M; left; reflexivity | apply M; right; exact X].
    + destruct (IH r0) as (r & [I M] & E). exists r. split; [|exact E]. split.
      * destruct I as [I|I]; [left; exact I | right; right; exact I].
      * intros x [X|[X|X]]; [subst x; apply M; left; reflexivity | subst x; pose proof (M r0 (or_introl eq_refl)); lia | apply M; right; exact X].
Qed.

Lemma fold_ct_spec rest : forall r0,
  exists r, latest r (r0 :: rest) /\ fold_left ct_step rest (b_t r0, b_c r0) = (b_t r, b_c r).
Proof.
  induction rest as [|a rest IH]; intros r0; cbn [fold_left].
  - exists r0. split; [split; [left; reflexivity | intros x [E|[]]; subst; lia] | reflexivity].
  - unfold ct_step at 2. cbn [fst]. destruct (Z.ltb_spec (b_t r0) (b_t a)) as [L|L].
    + destruct (IH a) as (r & [I M] & E). exists r. split; [|exact E]. split.
      * destruct I as [I|I]; [right; left; exact I | right; right; exact I].
      * intros x [X|[X|X]]; [subst x; pose proof (M a (or_introl eq_refl)); lia | subst x; apply M; left; reflexivity | apply M; right; exact X].
    + destruct (IH r0) as (r & [I M] & E). exists r. split; [|exact E]. split.
      * destruct I as [I|I]; [left; exact I | right; right; exact I].
      * intros x [X|[X|X]]; [subst x; apply M; left; reflexivity | subst x; pose proof (M r0 (or_introl eq_refl)); lia | apply M; right; exact X].
Qed.

(** the order-independent reading of a window's candle *)
Record candle_spec (c : candle) (w : Z) (rs : list bar) : Prop := {
  cs_start : c_start c = w;
  cs_open : exists r, earliest r rs /\ c_ot c = b_t r /\ c_o c = b_o r;
  cs_close : exists r, latest r rs /\ c_ct c = b_t r /\ c_c c = b_c r;
  cs_high : f32_nonan (map b_h rs) = true -> is_max (c_h c) (map b_h rs);
  cs_low : f32_nonan (map b_l rs) = true -> is_min (c_l c) (map b_l rs);
  cs_count : c_n c = Z.of_nat (length rs)
}.

Theorem window_candle_spec cd nacc w rs : rs <> [] -> in_window cd w rs ->
  Z.of_nat (length rs) <= ity_max I64 ->
  let c := fold_left (add_bar cd) rs (new_candle cd nacc w) in
  candle_spec c w rs /\ c_sums c = sums_of nacc rs.
Proof.
  destruct rs as [|r0 rest]; [congruence|]. intros _ IW Nb.
  destruct (window_fold cd nacc w r0 rest IW Nb) as (S & O & C & H & L & SM & N). cbv zeta.
  split; [|exact SM]. constructor.
  - exact S.
  - destruct (fold_ot_spec rest r0) as (r & E & F). exists r. rewrite F in O. inversion O. auto.
  - destruct (fold_ct_spec rest r0) as (r & E & F). exists r. rewrite F in C. inversion C. auto.
  - intros Hn. rewrite H. cbn [map].
    destruct (max_fold_is_max (b_h r0 :: map b_h rest)) as [_ M]; [discriminate | exact Hn | exact M].
  - intros Hn. rewrite L. cbn [map].
    destruct (min_fold_is_min (b_l r0 :: map b_l rest)) as [_ M]; [discriminate | exact Hn | exact M].
  - exact N.
Qed.

(** ------------------------------------------------------------------ order independence *)
Lemma NoDup_map_eq {A} (f : A -> Z) (l : list A) x y : NoDup (map f l) -> In x l -> In y l -> f x = f y -> x = y.
Proof.
  induction l as [|a l IH]; intros N Ix Iy E; [destruct Ix|].
  cbn [map] in N. inversion N as [|? ? Hn N']; subst.
  destruct Ix as [Ex|Ix], Iy as [Ey|Iy].
  - congruence.
  - subst a. exfalso. apply Hn. rewrite E. apply in_map. exact Iy.
  - subst a. exfalso. apply Hn. rewrite <- E. apply in_map. exact Ix.
  - apply IH; assumption.
Qed.

Lemma earliest_unique rs r r' : NoDup (map b_t rs) -> earliest r rs -> earliest r' rs -> r = r'.
Proof.
  intros N [I M] [I' M']. apply (NoDup_map_eq b_t rs); auto. pose proof (M r' I'). pose proof (M' r I). lia.
Qed.

Lemma latest_unique rs r r' : NoDup (map b_t rs) -> latest r rs -> latest r' rs -> r = r'.
Proof.
  intros N [I M] [I' M']. apply (NoDup_map_eq b_t rs); auto. pose proof (M r' I'). pose proof (M' r I). lia.
Qed.

Lemma earliest_perm rs rs' r : Permutation rs rs' -> earliest r rs' -> earliest r rs.
Proof.
  intros P [I M]. split; [apply (Permutation_in _ (Permutation_sym P) I) | intros x Ix; apply M, (Permutation_in _ P Ix)].
Qed.

Lemma latest_perm rs rs' r : Permutation rs rs' -> latest r rs' -> latest r rs.
Proof.
  intros P [I M]. split; [apply (Permutation_in _ (Permutation_sym P) I) | intros x Ix; apply M, (Permutation_in _ P Ix)].
Qed.

(** equality of the four prices: open/close exactly, high/low as Go's [==] (they may differ in the sign of a zero) *)
Definition ohlc_eq (c c' : candle) : Prop :=
  c_o c = c_o c' /\ c_c c = c_c c' /\ f32_eq (c_h c) (c_h c') = true /\ f32_eq (c_l c) (c_l c') = true.

Lemma is_max_perm l l' r : Permutation l l' -> is_max r l' -> is_max r l.
Proof.
  intros P [I M]. split; [apply (Permutation_in _ (Permutation_sym P) I) | intros x Ix; apply M, (Permutation_in _ P Ix)].
Qed.
Lemma is_min_perm l l' r : Permutation l l' -> is_min r l' -> is_min r l.
Proof.
  intros P [I M]. split; [apply (Permutation_in _ (Permutation_sym P) I) | intros x Ix; apply M, (Permutation_in _ P Ix)].
Qed.

Theorem spec_determines_ohlc c c' w rs rs' : Permutation rs rs' -> NoDup (map b_t rs) ->
  f32_nonan (map b_h rs) = true -> f32_nonan (map b_l rs) = true ->
  candle_spec c w rs -> candle_spec c' w rs' -> ohlc_eq c c'.
Proof.
  intros P N Hh Hl S S'.
  assert (Hh' : f32_nonan (map b_h rs') = true) by (apply (nonan_perm _ _ (Permutation_map b_h P) Hh)).
  assert (Hl' : f32_nonan (map b_l rs') = true) by (apply (nonan_perm _ _ (Permutation_map b_l P) Hl)).
  destruct (cs_open _ _ _ S) as (r & E & _ & O). destruct (cs_open _ _ _ S') as (r' & E' & _ & O').
  destruct (cs_close _ _ _ S) as (q & F & _ & C). destruct (cs_close _ _ _ S') as (q' & F' & _ & C').
  assert (r = r') by (apply (earliest_unique rs); auto; apply (earliest_perm rs rs'); auto).
  assert (q = q') by (apply (latest_unique rs); auto; apply (latest_perm rs rs'); auto).
  subst r' q'. repeat split.
  - congruence.
  - congruence.
  - apply (is_max_unique (map b_h rs)); auto. apply (cs_high _ _ _ S Hh).
    apply (is_max_perm _ (map b_h rs')); [apply Permutation_map, P | apply (cs_high _ _ _ S' Hh')].
  - apply (is_min_unique (map b_l rs)); auto. apply (cs_low _ _ _ S Hl).
    apply (is_min_perm _ (map b_l rs')); [apply Permutation_map, P | apply (cs_low _ _ _ S' Hl')].
Qed.

(** permuting the whole input permutes every window's rows *)
Lemma filter_perm {A} (f : A -> bool) l l' : Permutation l l' -> Permutation (filter f l) (filter f l').
Proof.
  induction 1 as [|x l l' P IH|x y l|l l' l'' P1 IH1 P2 IH2]; cbn [filter].
  - constructor.
  - destruct (f x); [apply perm_skip|]; exact IH.
  - destruct (f x), (f y); try apply Permutation_refl. apply perm_swap.
  - apply (Permutation_trans IH1 IH2).
Qed.

Lemma NoDup_map_filter {A} (g : A -> Z) (f : A -> bool) l : NoDup (map g l) -> NoDup (map g (filter f l)).
Proof.
  induction l as [|a l IH]; intros N; cbn [filter map]; [constructor|].
  cbn [map] in N. inversion N as [|? ? Hn N']; subst. destruct (f a); cbn [map]; [|apply IH, N'].
  constructor; [|apply IH, N']. intro I. apply Hn. apply in_map_iff in I. destruct I as (x & E & I).
  apply filter_In in I. rewrite <- E. apply in_map. apply I.
Qed.

Lemma nonan_filter_map (g : bar -> f32) (f : bar -> bool) l : f32_nonan (map g l) = true -> f32_nonan (map g (filter f l)) = true.
Proof.
  unfold f32_nonan. rewrite !forallb_forall. intros H x I. apply in_map_iff in I. destruct I as (r & E & I).
  apply filter_In in I. apply H. rewrite <- E. apply in_map. apply I.
Qed.

Lemma in_window_rows cd w rows : idem cd -> truncate cd w = w -> (forall r, In r rows -> b_t r <> zero_time) ->
  in_window cd w (window_rows cd w rows).
Proof.
  intros Hid Tw Z. split; [exact Hid|]. split; [exact Tw|]. intros r I. apply filter_In in I. destruct I as [I E]. apply Z.eqb_eq in E. auto.
Qed.

Definition rows_ok (rows : list bar) : Prop :=
  (forall r, In r rows -> b_t r <> zero_time) /\ Z.of_nat (length rows) <= ity_max I64.

Lemma filter_length_le {A} (f : A -> bool) l : (length (filter f l) <= length l)%nat.
Proof. induction l as [|a l IH]; cbn [filter length]; [lia|]. destruct (f a); cbn [length]; lia. Qed.

(** every window's candle meets the specification *)
Theorem window_candle_meets_spec cd nacc rows w : idem cd -> rows_ok rows ->
  (exists r, In r rows /\ truncate cd (b_t r) = w) ->
  candle_spec (window_candle cd nacc w rows) w (window_rows cd w rows)
  /\ c_sums (window_candle cd nacc w rows) = sums_of nacc (window_rows cd w rows).
Proof.
  intros Hid [Z N] Ex. unfold window_candle. apply window_candle_spec.
  - apply window_rows_nil_iff. exact Ex.
  - apply in_window_rows; [exact Hid | | exact Z]. destruct Ex as (r & _ & E). rewrite <- E. apply truncate_idem, Hid.
  - pose proof (filter_length_le (fun r => truncate cd (b_t r) =? w) rows). unfold window_rows. lia.
Qed.

(** C21's order independence, per window *)
Theorem ohlc_order_independent cd nacc rows rows' w : idem cd -> Permutation rows rows' -> rows_ok rows ->
  NoDup (map b_t rows) -> f32_nonan (map b_h rows) = true -> f32_nonan (map b_l rows) = true ->
  (exists r, In r rows /\ truncate cd (b_t r) = w) ->
  ohlc_eq (window_candle cd nacc w rows) (window_candle cd nacc w rows').
Proof.
  intros Hid P OK N Hh Hl Ex.
  assert (OK' : rows_ok rows').
  { destruct OK as [Z L]. split; [intros r I; apply Z, (Permutation_in _ (Permutation_sym P) I) | rewrite <- (Permutation_length P); exact L]. }
  assert (Ex' : exists r, In r rows' /\ truncate cd (b_t r) = w).
  { destruct Ex as (r & I & E). exists r. split; [apply (Permutation_in _ P I) | exact E]. }
  destruct (window_candle_meets_spec cd nacc rows w Hid OK Ex) as [S _].
  destruct (window_candle_meets_spec cd nacc rows' w Hid OK' Ex') as [S' _].
  apply (spec_determines_ohlc _ _ w (window_rows cd w rows) (window_rows cd w rows')); auto.
  - apply filter_perm, P.
  - apply NoDup_map_filter, N.
  - apply nonan_filter_map, Hh.
  - apply nonan_filter_map, Hl.
Qed.
