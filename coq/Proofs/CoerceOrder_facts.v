(** C14 (c): after "fix: WriteCSM lays the rows out in the bucket's column order" a one-row request whose
    columns are the bucket's columns in ANY order is stored per column name. *)
From Coq Require Import ZArith NArith List Bool Lia Permutation.
From Coq.Strings Require Import Byte.
Import ListNotations.
Require Import MS.Base.GoInt MS.Base.Res MS.Base.Hex MS.Base.Bytes MS.Generated.Src_io MS.Model.Rows MS.Model.Coerce
               MS.Proofs.Coerce_facts.
Local Open Scope Z_scope.

Definition col_named (cols : list col) (n : list byte) : option col :=
  find (fun c => bytes_eqb (cname c) n) cols.

(** the row a reader of the bucket expects: every bucket column's value, in the bucket's order *)
Definition row_by_name (sh : list shape) (cols : list col) : list byte :=
  flat_map (fun sc => match col_named cols (fst sc) with Some c => cdata c | None => [] end) sh.

Lemma bytes_eqb_refl' a : bytes_eqb a a = true.
Proof. apply bytes_eqb_eq. reflexivity. Qed.

Lemma filter_all {A} (f : A -> bool) l : (forall x, In x l -> f x = true) -> filter f l = l.
Proof.
  induction l as [|x r IH]; intros H; cbn; auto. rewrite (H x (or_introl eq_refl)). f_equal. apply IH.
  intros y Hy. apply H. right. exact Hy.
Qed.

Lemma set_contains_all (avail req : list shape) :
  req <> [] -> (forall x, In x req -> In x avail) -> set_contains shape_eqb avail req = true.
Proof.
  intros Hn H. unfold set_contains. destruct req as [|x0 r0] eqn:E; [congruence|]. rewrite <- E in *.
  apply Nat.eqb_eq. unfold set_intersect. f_equal. apply filter_all. intros x Hx. apply mem_In_shape. auto.
Qed.

(** with distinct names, the column found by name is the one carrying that shape *)
Lemma col_named_shape cols n t :
  NoDup (map cname cols) -> In (n, t) (cs_shapes cols) ->
  exists c, col_named cols n = Some c /\ cname c = n /\ ctype c = t.
Proof.
  unfold col_named, cs_shapes. induction cols as [|c r IH]; intros ND H; [destruct H|].
  cbn in *. inversion ND; subst. destruct H as [H|H].
  - inversion H; subst. rewrite bytes_eqb_refl'. eauto.
  - destruct (bytes_eqb (cname c) n) eqn:E.
    + apply bytes_eqb_eq in E. exfalso. apply H2. rewrite E.
      apply in_map_iff in H as (c' & Hc' & Hin). inversion Hc'; subst. apply in_map. exact Hin.
    + apply IH; auto.
Qed.

Section OneRow.
Variables (key : list byte) (sh : list shape) (cols : list col).
Hypothesis HP : Permutation (cs_shapes cols) sh.
Hypothesis HND : NoDup (map fst sh).
Hypothesis Hhd : hd_error sh = Some (epoch_name, ET_INT64).
Hypothesis Hepo : forall s, In s (tl sh) -> is_epoch_name (fst s) = false.
Hypothesis Hone : Forall (fun c => length (cdata c) = tsize (ctype c)) cols.

Lemma nd_cols : NoDup (map cname cols).
Proof.
  assert (E : map cname cols = map fst (cs_shapes cols)) by (unfold cs_shapes; rewrite map_map; reflexivity).
  rewrite E. eapply Permutation_NoDup; [apply Permutation_sym, Permutation_map, HP|exact HND].
Qed.

Lemma shape_col n t : In (n, t) sh ->
  exists c, col_named cols n = Some c /\ cname c = n /\ ctype c = t /\ length (cdata c) = tsize t.
Proof.
  intros H. apply (Permutation_in _ (Permutation_sym HP)) in H.
  destruct (col_named_shape cols n t nd_cols H) as (c & F & N & T). exists c. repeat split; auto.
  rewrite <- T. rewrite Forall_forall in Hone. apply Hone. unfold col_named in F. apply find_some in F. apply F.
Qed.

Lemma sh_cons : exists r, sh = (epoch_name, ET_INT64) :: r.
Proof. destruct sh as [|s r]; [discriminate|]. cbn in Hhd. inversion Hhd. eauto. Qed.

Lemma mc_none : missing_and_coercion sh (cs_shapes cols) = Ok ([], []).
Proof.
  destruct sh_cons as [r E]. unfold missing_and_coercion.
  assert (A : cs_shapes cols <> []).
  { intros K. rewrite K in HP. apply Permutation_nil in HP. rewrite E in HP. discriminate. }
  destruct (cs_shapes cols) as [|a0 ar] eqn:EA; [congruence|]. rewrite <- EA in *.
  assert (C : set_contains shape_eqb (cs_shapes cols) sh = true).
  { apply set_contains_all; [rewrite E; discriminate|]. intros x Hx. apply (Permutation_in _ (Permutation_sym HP)). exact Hx. }
  rewrite C. reflexivity.
Qed.

Lemma in_order_ok : forall l, incl l sh ->
  exists ordered, in_order l cols = Ok ordered
    /\ ser_cols ordered 0 = Ok (flat_map (fun sc => if is_epoch_name (fst sc) then [] else
                                             match col_named cols (fst sc) with Some c => cdata c | None => [] end) l).
Proof.
  induction l as [|[n t] r IH]; intros Hi; cbn [in_order].
  - exists []. split; reflexivity.
  - destruct (shape_col n t (Hi _ (or_introl eq_refl))) as (c & F & N & T & L).
    unfold col_named in F. rewrite F.
    destruct (IH (fun x Hx => Hi x (or_intror Hx))) as (ord & O1 & O2). rewrite O1. cbn [bindR].
    exists (mkcol n t (cdata c) :: ord). split; auto.
    cbn [ser_cols flat_map cname ctype cdata fst]. destruct (is_epoch_name n); [rewrite O2; reflexivity|].
    unfold col_named. rewrite F.
    assert (El : Rows.elem (tsize t) (cdata c) 0 = Ok (cdata c)).
    { unfold Rows.elem, slice. cbn [Nat.mul Nat.add]. rewrite <- L. rewrite Nat.leb_refl. cbn [skipn]. rewrite firstn_all. reflexivity. }
    rewrite El, O2. reflexivity.
Qed.

Theorem stored_by_name :
  let '(st', code) := write_csm (mkS [mkB key sh []] []) [mkR key cols] in
  code = 0%nat /\ stored st' key = [row_by_name sh cols].
Proof.
  destruct sh_cons as [r E].
  destruct (shape_col epoch_name ET_INT64) as (ec & Fe & Ne & Te & Le); [rewrite E; left; reflexivity|].
  assert (L8 : length (cdata ec) = 8%nat) by (rewrite Le; reflexivity).
  unfold write_csm, write_loop, write_one. cbn [r_cols r_key w_buckets w_queue].
  unfold num_rows_of. unfold col_named in Fe. rewrite Fe, Te, Z.eqb_refl. rewrite L8.
  change (8 / 8)%nat with 1%nat.
  unfold find_bucket. cbn [find b_key]. rewrite bytes_eqb_refl'. cbn [b_shapes].
  assert (Ln : Nat.eqb (length sh) (length (cs_shapes cols)) = true).
  { apply Nat.eqb_eq. symmetry. apply Permutation_length. exact HP. }
  rewrite Ln. cbn [negb]. rewrite mc_none. cbn [apply_coercions].
  unfold serialize_as. rewrite mc_none. cbn [coerce_logged bindR].
  destruct (in_order_ok sh (incl_refl _)) as (ord & O1 & O2). rewrite O1. cbn [bindR].
  match goal with |- context [existsb ?f sh] => assert (Ee : existsb f sh = true) by (rewrite E; reflexivity); rewrite Ee end.
  cbn [negb]. rewrite Fe, Te, Z.eqb_refl, L8. change (8 / 8)%nat with 1%nat.
  cbn [ser_rows]. rewrite O2.
  assert (El : Rows.elem 8 (cdata ec) 0 = Ok (cdata ec)).
  { unfold Rows.elem, slice. cbn [Nat.mul Nat.add]. rewrite L8. cbn [Nat.leb skipn]. rewrite <- L8 at 1. rewrite firstn_all. reflexivity. }
  rewrite El. cbn [bindR repeat]. rewrite !app_nil_r.
  set (data := cdata ec ++ _).
  assert (SR : split_rows data 1 = [data]).
  { unfold split_rows. cbn [chunks]. rewrite Nat.div_1_r, firstn_all. reflexivity. }
  rewrite SR. cbn [map app]. unfold flush, stored, find_bucket. cbn [w_buckets w_queue map b_key b_shapes b_rows find filter fst snd].
  rewrite bytes_eqb_refl'. cbn [filter map app fst snd b_rows]. rewrite bytes_eqb_refl'. cbn [map snd app b_rows].
  split; [reflexivity|]. f_equal. unfold data, row_by_name. rewrite E. cbn [flat_map fst].
  assert (Ce : col_named cols epoch_name = Some ec) by exact Fe. rewrite !Ce.
  change (is_epoch_name epoch_name) with true. cbn [app]. f_equal.
  assert (X : forall l, incl l r ->
    flat_map (fun sc : list byte * Z => if is_epoch_name (fst sc) then [] else
                match col_named cols (fst sc) with Some c => cdata c | None => [] end) l
    = flat_map (fun sc : list byte * Z => match col_named cols (fst sc) with Some c => cdata c | None => [] end) l).
  { induction l as [|x l IH]; intros Hi; cbn [flat_map]; auto.
    rewrite Hepo; [|rewrite E; cbn [tl]; apply Hi; left; reflexivity]. f_equal. apply IH. intros y Hy. apply Hi. right. exact Hy. }
  apply X. apply incl_refl.
Qed.
End OneRow.
