(** Proofs/Durable_flush.v — the model's primary-write phase ([prim_events], grouped per file in an
    arbitrary file order = Go map iteration) and replay ([replay_cmds], TG order) are both [fexec] of
    a command list; grouping by file changes neither the last-writer view nor the interval contents. *)
From Coq Require Import ZArith NArith List Bool Lia Permutation.
From Coq.Strings Require Import Byte.
Import ListNotations.
Require Import MS.Base.Res MS.Generated.Src_durab MS.Model.Wal MS.Model.Replay
  MS.Proofs.Durable_files MS.Proofs.Durable_exec.
Local Open Scope Z_scope.

(* ------------------------------------------------------------------ the files of a TG *)

Lemma existsb_N_in x l : existsb (N.eqb x) l = true <-> In x l.
Proof.
  rewrite existsb_exists. split.
  - intros (y & Hy & E). apply N.eqb_eq in E. subst. assumption.
  - intros H. exists x. split; [assumption|apply N.eqb_refl].
Qed.

Lemma files_from_in cs : forall seen f,
  In f (files_from cs seen) <-> (exists c, In c cs /\ c_fid c = f) /\ ~ In f seen.
Proof.
  induction cs as [|c cs IH]; intros seen f; cbn [files_from].
  - split; [intros []|intros [(c & [] & _) _]].
  - destruct (existsb (N.eqb (c_fid c)) seen) eqn:E.
    + apply existsb_N_in in E. rewrite IH. split.
      * intros [(c' & Hin & Hf) Hn]. split; [exists c'; split; [right|]; assumption|assumption].
      * intros [(c' & [->|Hin] & Hf) Hn]; [subst; contradiction|].
        split; [exists c'; split; assumption|assumption].
    + assert (Hns : ~ In (c_fid c) seen).
      { intros H. apply existsb_N_in in H. congruence. }
      cbn [In]. rewrite IH. split.
      * intros [<-|[(c' & Hin & Hf) Hn]].
        -- split; [exists c; split; [left|]; reflexivity|assumption].
        -- split; [exists c'; split; [right|]; assumption|]. intros H. apply Hn. right. assumption.
      * intros [(c' & [->|Hin] & Hf) Hn]; [left; assumption|].
        destruct (N.eq_dec (c_fid c) f) as [E'|E']; [left; assumption|].
        right. split; [exists c'; split; assumption|]. intros [H|H]; contradiction.
Qed.

Lemma files_from_nodup cs : forall seen, NoDup (files_from cs seen).
Proof.
  induction cs as [|c cs IH]; intros seen; cbn [files_from]; [constructor|].
  destruct (existsb (N.eqb (c_fid c)) seen); [apply IH|].
  constructor; [|apply IH]. intros H. apply files_from_in in H as [_ H]. apply H. left. reflexivity.
Qed.

Lemma NoDup_app_disj {A} (a b : list A) :
  NoDup a -> NoDup b -> (forall x, In x a -> In x b -> False) -> NoDup (a ++ b).
Proof.
  induction a as [|x a IH]; intros Ha Hb Hd; [exact Hb|].
  inversion Ha; subst. cbn [app]. constructor.
  - intros H. apply in_app_or in H as [H|H]; [contradiction|]. eapply Hd; [left; reflexivity|exact H].
  - apply IH; try assumption. intros y Hy. apply Hd. right. assumption.
Qed.

Lemma file_order_nodup ord cs : NoDup (file_order ord cs).
Proof.
  unfold file_order. apply NoDup_app_disj.
  - apply NoDup_filter, NoDup_nodup.
  - apply NoDup_filter, files_from_nodup.
  - intros f H1 H2. apply filter_In in H1 as [H1 _]. apply filter_In in H2 as [_ H2].
    apply nodup_In in H1. apply negb_true_iff in H2.
    assert (existsb (N.eqb f) ord = true) by (apply existsb_N_in; assumption). congruence.
Qed.

Lemma file_order_covers ord cs c : In c cs -> In (c_fid c) (file_order ord cs).
Proof.
  intros Hin. unfold file_order.
  assert (Hf : In (c_fid c) (files_of cs)).
  { apply files_from_in. split; [exists c; split; [assumption|reflexivity]|intros []]. }
  apply in_or_app. destruct (existsb (N.eqb (c_fid c)) ord) eqn:E.
  - left. apply filter_In. split; [apply nodup_In, existsb_N_in, E|apply existsb_N_in, Hf].
  - right. apply filter_In. split; [assumption|rewrite E; reflexivity].
Qed.

Lemma file_order_sub ord cs f : In f (file_order ord cs) -> exists c, In c cs /\ c_fid c = f.
Proof.
  unfold file_order. intros H. apply in_app_or in H as [H|H]; apply filter_In in H as [H1 H2].
  - apply existsb_N_in in H2. apply files_from_in in H2 as [H2 _]. exact H2.
  - apply files_from_in in H1 as [H1 _]. exact H1.
Qed.

(** the commands of a TG in the order the primary phase executes them *)
Definition grouped (order : list fid) (cs : list cmd) : list cmd :=
  flat_map (fun f => cmds_of_file f cs) order.

Lemma grouped_in order cs c : In c (grouped order cs) -> In c cs.
Proof.
  unfold grouped. intros H. apply in_flat_map in H as (f & _ & H). apply filter_In in H as [H _]. exact H.
Qed.

(** folds that only react to the commands of one file do not see the grouping *)
Section FoldGroup.
  Context {A : Type} (p : cmd -> bool) (g : A -> cmd -> A) (f0 : fid).
  Hypothesis p_file : forall c, p c = true -> c_fid c = f0.
  Let step (acc : A) (c : cmd) : A := if p c then g acc c else acc.

  Lemma fold_skip l acc : (forall c, In c l -> p c = false) -> fold_left step l acc = acc.
  Proof.
    revert acc; induction l as [|c l IH]; intros acc H; [reflexivity|].
    cbn [fold_left]. assert (step acc c = acc) as Hs by (unfold step; rewrite (H c) by (left; reflexivity); reflexivity).
    rewrite Hs. apply IH. intros; apply H; right; assumption.
  Qed.

  Lemma fold_filter l : forall acc, fold_left step (cmds_of_file f0 l) acc = fold_left step l acc.
  Proof.
    induction l as [|c l IH]; intros acc; [reflexivity|].
    unfold cmds_of_file in *. cbn [filter fold_left].
    destruct (N.eqb_spec (c_fid c) f0) as [E|E].
    - cbn [fold_left]. apply IH.
    - assert (step acc c = acc) as Hs.
      { unfold step. destruct (p c) eqn:Ep; [apply p_file in Ep; contradiction|reflexivity]. }
      rewrite Hs. apply IH.
  Qed.

  Lemma fold_grouped order cs : forall acc,
    NoDup order -> (forall c, In c cs -> p c = true -> In (c_fid c) order) ->
    fold_left step (grouped order cs) acc = fold_left step cs acc.
  Proof.
    induction order as [|f order IH]; intros acc Hnd Hcov.
    - cbn [grouped flat_map fold_left]. symmetry. apply fold_skip.
      intros c Hin. destruct (p c) eqn:E; [|reflexivity]. destruct (Hcov c Hin E).
    - unfold grouped in *. cbn [flat_map]. rewrite fold_left_app. inversion Hnd; subst.
      destruct (N.eq_dec f f0) as [->|Hne].
      + rewrite fold_filter.
        (* the remaining groups are other files *)
        apply fold_skip. intros c Hin. apply in_flat_map in Hin as (f' & Hf' & Hin).
        apply filter_In in Hin as [_ Hin]. apply N.eqb_eq in Hin.
        destruct (p c) eqn:E; [|reflexivity]. apply p_file in E. subst. congruence.
      + rewrite (fold_skip (cmds_of_file f cs)).
        * apply IH; [assumption|]. intros c Hin Hp. destruct (Hcov c Hin Hp) as [E|E]; [|assumption].
          apply p_file in Hp. congruence.
        * intros c Hin. apply filter_In in Hin as [_ Hin]. apply N.eqb_eq in Hin.
          destruct (p c) eqn:E; [|reflexivity]. apply p_file in E. congruence.
  Qed.
End FoldGroup.

Lemma hits_file c f off : hits c f off = true -> c_fid c = f.
Proof. unfold hits. intros H. apply andb_prop in H as [H _]. apply andb_prop in H as [_ H]. apply N.eqb_eq, H. Qed.
Lemma vhits_file c f slot : vhits c f slot = true -> c_fid c = f.
Proof. unfold vhits. intros H. apply andb_prop in H as [H _]. apply andb_prop in H as [_ H]. apply N.eqb_eq, H. Qed.

Lemma lastw_grouped ord cs f off : lastw (grouped (file_order ord cs) cs) f off = lastw cs f off.
Proof.
  unfold lastw. apply (fold_grouped (fun c => hits c f off) (fun _ c => Some (c_index c, concat (c_data c))) f).
  - intros c. apply hits_file.
  - apply file_order_nodup.
  - intros c Hin _. apply file_order_covers, Hin.
Qed.

Lemma ct_after_grouped ord cs base f slot :
  ct_after (grouped (file_order ord cs) cs) base f slot = ct_after cs base f slot.
Proof.
  unfold ct_after. apply (fold_grouped (fun c => vhits c f slot) (fun acc c => sort_ticks (acc ++ c_data c)) f).
  - intros c. apply vhits_file.
  - apply file_order_nodup.
  - intros c Hin _. apply file_order_covers, Hin.
Qed.

(* ------------------------------------------------------------------ the model's functions are fexec *)

Section WithClen.
  Variable clen : list record -> Z.
  Hypothesis clen_pos : forall x, 0 < clen x.

  Lemma all_ok_grouped fs order cs : all_ok fs cs -> all_ok fs (grouped order cs).
  Proof.
    intros H. unfold all_ok in *. apply Forall_forall. intros c Hin. apply grouped_in in Hin.
    rewrite Forall_forall in H. apply H, Hin.
  Qed.

  Lemma fixed_writes_fexec cs : forall im,
    Forall (fun c => c_kind c = KFixed) cs -> fixed_writes im cs = fexec clen (i_files im) cs.
  Proof.
    induction cs as [|c cs IH]; intros im H; [reflexivity|]. inversion H; subst.
    cbn [fixed_writes fexec]. unfold fstep. rewrite H2, fixed_write_files.
    destruct (ffixed (i_files im) c); [|reflexivity]. rewrite IH by assumption.
    rewrite i_files_apply_events. reflexivity.
  Qed.

  Lemma var_writes_fexec cs : forall im,
    Forall (fun c => c_kind c = KVar) cs -> var_writes clen im cs = fexec clen (i_files im) cs.
  Proof.
    induction cs as [|c cs IH]; intros im H; [reflexivity|]. inversion H; subst.
    cbn [var_writes fexec]. unfold fstep. rewrite H2, indirect_files.
    destruct (findirect clen (i_files im) c); [|reflexivity]. rewrite IH by assumption.
    rewrite i_files_apply_events. reflexivity.
  Qed.

  (** all commands of one file carry the file's record type *)
  Lemma group_kinds fs f cs : all_ok fs cs -> forall k, fkind fs f = Some k ->
    Forall (fun c => c_kind c = k) (cmds_of_file f cs).
  Proof.
    intros Hok k Hk. unfold all_ok in *. apply Forall_forall. intros c Hin. apply filter_In in Hin as [Hin E].
    apply N.eqb_eq in E. subst. rewrite Forall_forall in Hok. destruct (Hok c Hin) as [H _]. congruence.
  Qed.

  Lemma prim_events_fexec order : forall im cs,
    files_vinv (i_files im) -> all_ok (i_files im) cs ->
    (forall f, In f order -> exists c, In c cs /\ c_fid c = f) ->
    prim_events clen im order cs = fexec clen (i_files im) (grouped order cs).
  Proof.
    induction order as [|f order IH]; intros im cs Hv Hok Hsub; [reflexivity|].
    cbn [prim_events]. unfold grouped. cbn [flat_map]. fold (grouped order cs).
    destruct (Hsub f (or_introl eq_refl)) as (c0 & Hin0 & Hf0).
    unfold all_ok in Hok. rewrite Forall_forall in Hok. destruct (Hok c0 Hin0) as [Hk0 _]. rewrite Hf0 in Hk0.
    rewrite <- Forall_forall in Hok. fold (all_ok (i_files im) cs) in Hok.
    pose proof (group_kinds _ f cs Hok _ Hk0) as Hkinds.
    assert (Hfk : file_kind f cs = c_kind c0).
    { unfold file_kind. destruct (cmds_of_file f cs) as [|c1 l] eqn:E.
      - exfalso. assert (In c0 (cmds_of_file f cs)) as H by (apply filter_In; split; [assumption|apply N.eqb_eq, Hf0]).
        rewrite E in H. destruct H.
      - inversion Hkinds; assumption. }
    rewrite Hfk.
    assert (Hgok : all_ok (i_files im) (cmds_of_file f cs)).
    { unfold all_ok in *. apply Forall_forall. intros c Hin. apply filter_In in Hin as [Hin _]. rewrite Forall_forall in Hok. apply Hok, Hin. }
    assert (Hev : (match c_kind c0 with
                   | KFixed => fixed_writes im (cmds_of_file f cs)
                   | KVar => var_writes clen im (cmds_of_file f cs) end) = fexec clen (i_files im) (cmds_of_file f cs)).
    { destruct (c_kind c0); [apply fixed_writes_fexec|apply var_writes_fexec]; assumption. }
    rewrite Hev.
    destruct (fexec_ok clen clen_pos _ _ Hv Hgok) as (Hw & Hv' & _).
    rewrite fexec_app by assumption. f_equal.
    rewrite IH.
    - rewrite i_files_apply_events. reflexivity.
    - rewrite i_files_apply_events. exact Hv'.
    - rewrite i_files_apply_events. apply all_ok_writes; assumption.
    - intros f' Hin'. apply Hsub. right. assumption.
  Qed.

  Lemma replay_cmds_fexec cs : forall im,
    files_vinv (i_files im) -> all_ok (i_files im) cs ->
    replay_cmds clen im cs = (fexec clen (i_files im) cs, ROk).
  Proof.
    induction cs as [|c cs IH]; intros im Hv Hok; [reflexivity|].
    inversion Hok as [|? ? Hc Hcs]; subst.
    destruct (fstep_ok clen clen_pos _ c Hv Hc) as (evs & Hs & Hw & Hv1 & _).
    cbn [replay_cmds fexec]. rewrite Hs.
    destruct Hc as [Hk _]. unfold fkind in Hk. destruct (alookup (c_fid c) (i_files im)) as [pf|] eqn:El; [|discriminate].
    assert (Hstep : match c_kind c with KFixed => fixed_write im c | KVar => indirect clen im c end = Some evs).
    { unfold fstep in Hs. destruct (c_kind c); [rewrite fixed_write_files|rewrite indirect_files]; exact Hs. }
    rewrite Hstep. rewrite IH.
    - rewrite i_files_apply_events. reflexivity.
    - rewrite i_files_apply_events. exact Hv1.
    - rewrite i_files_apply_events. apply all_ok_writes; assumption.
  Qed.
End WithClen.
