(** Facts about Model/Timeframe.v (C31). *)
From Coq Require Import ZArith List Bool Lia String Ascii.
Import ListNotations.
Require Import MS.Base.GoInt MS.Base.Res MS.Base.Civil MS.Base.Tz MS.Generated.Src_time
  MS.Model.TimeIndex MS.Model.Timeframe MS.Proofs.TimeIndex_facts.
Local Open Scope string_scope.
Local Open Scope Z_scope.

(* ------------------------------------------------------------------------------------------ *)
(** * Time.Truncate *)

Lemma time_truncate_bracket t d : 0 < d ->
  time_truncate t d <= t < time_truncate t d + d.
Proof.
  intros Hd. unfold time_truncate. destruct (Z.leb_spec d 0); [ lia | ].
  pose proof (Z.mod_pos_bound (t + abs_epoch_ns) d Hd). lia.
Qed.

Lemma time_truncate_add t d : 0 < d -> time_truncate (t + d) d = time_truncate t d + d.
Proof.
  intros Hd. unfold time_truncate. destruct (Z.leb_spec d 0); [ lia | ].
  replace (t + d + abs_epoch_ns) with (t + abs_epoch_ns + 1 * d) by lia.
  rewrite Z_mod_plus_full. lia.
Qed.

Lemma time_truncate_idem t d : 0 < d -> time_truncate (time_truncate t d) d = time_truncate t d.
Proof.
  intros Hd. unfold time_truncate. destruct (Z.leb_spec d 0); [ lia | ].
  pose proof (Z.div_mod (t + abs_epoch_ns) d ltac:(lia)) as DM.
  replace (t - (t + abs_epoch_ns) mod d + abs_epoch_ns) with (0 + (t + abs_epoch_ns) / d * d) by lia.
  rewrite Z_mod_plus_full. rewrite Z.mod_0_l by lia. lia.
Qed.

(* ------------------------------------------------------------------------------------------ *)
(** * Well-formed candle durations: what CandleDurationFromString produces *)

Definition wf_cd (cd : cdur) : Prop :=
  In (cd_suffix cd) suffixes
  /\ cd_duration cd = wrap I64 (cd_mult cd * slookup suffixDefs (cd_suffix cd)).

Lemma regex_find_suffix fuel : forall s d sx, regex_find fuel s = Some (d, sx) -> In sx suffixes.
Proof.
  induction fuel as [| f IH]; intros s d sx H; cbn [regex_find] in H; [ discriminate | ].
  destruct s as [| c s']; [ discriminate | ].
  destruct (is_digit c).
  - destruct (take_digits (String c s')) as [dd r].
    destruct (match_suffix r) as [sx' |] eqn:M.
    + injection H as _ <-. unfold match_suffix in M. apply find_some in M. tauto.
    + eapply IH; eassumption.
  - eapply IH; eassumption.
Qed.

Lemma CandleDurationFromString_wf s cd : CandleDurationFromString s = Some cd -> wf_cd cd.
Proof.
  unfold CandleDurationFromString. destruct (regex_find _ s) as [[p sx] |] eqn:R; [ | discriminate ].
  intros H. injection H as <-. split; cbn [cd_suffix cd_duration cd_mult].
  - eapply regex_find_suffix; eassumption.
  - reflexivity.
Qed.

Lemma mult_ok_duration cd : wf_cd cd -> mult_okb cd = true ->
  1 <= cd_mult cd /\ cd_duration cd = cd_mult cd * slookup suffixDefs (cd_suffix cd).
Proof.
  intros [Hin Hd] H. unfold mult_okb in H. apply andb_true_iff in H as [H1 H2].
  apply Z.leb_le in H1, H2. split; [ exact H1 | ]. rewrite Hd.
  assert (0 <= slookup suffixDefs (cd_suffix cd)).
  { cbn in Hin. repeat (destruct Hin as [<- | Hin]; [ vm_compute; discriminate | ]). contradiction. }
  apply wrap64_small. nia.
Qed.

(* ------------------------------------------------------------------------------------------ *)
(** * Windows of the absolute (Sec / Min / H, and the Truncate/Ceil part of W / Y) suffixes *)

Lemma abs_window z cd ts :
  String.eqb (cd_suffix cd) "D" = false -> String.eqb (cd_suffix cd) "M" = false -> 0 < cd_duration cd ->
  cd_truncate z cd ts <= ts < cd_ceil z cd ts
  /\ cd_ceil z cd ts = cd_truncate z cd ts + cd_duration cd
  /\ cd_truncate z cd ts = time_truncate ts (cd_duration cd).
Proof.
  intros HD HM Hd. unfold cd_truncate, cd_ceil. rewrite HD, HM.
  rewrite (time_truncate_add ts _ Hd). pose proof (time_truncate_bracket ts _ Hd). lia.
Qed.

Lemma abs_within z cd ts :
  String.eqb (cd_suffix cd) "D" = false -> String.eqb (cd_suffix cd) "W" = false ->
  String.eqb (cd_suffix cd) "M" = false -> String.eqb (cd_suffix cd) "Y" = false ->
  cd_is_within z cd ts (cd_truncate z cd ts) = true.
Proof.
  intros HD HW HM HY. unfold cd_is_within, cd_truncate. rewrite HD, HW, HM, HY. apply Z.eqb_refl.
Qed.

(* ------------------------------------------------------------------------------------------ *)
(** * "D": local calendar days *)

Lemma midnight_of_civil z D :
  (let '(y, m, d) := civil_of_days D in midnight z y m d) = day_utc z D * NS.
Proof.
  pose proof (days_of_civil_of_days D) as H. destruct (civil_of_days D) as [[y m] d]. destruct H as [E _].
  unfold midnight, go_date, day_utc. rewrite E.
  replace (D * SPD + 0 * 3600 + 0 * 60 + 0) with (D * SPD) by lia. lia.
Qed.

Lemma day_window z cd ts :
  String.eqb (cd_suffix cd) "D" = true -> day_window_okb z ts = true ->
  cd_truncate z cd ts <= ts < cd_ceil z cd ts
  /\ cd_is_within z cd ts (cd_truncate z cd ts) = true
  /\ cd_truncate z cd ts = day_utc z (local_days z ts) * NS.
Proof.
  intros HD H. unfold day_window_okb in H. cbn zeta in H.
  apply andb_true_iff in H as [H Hlt]. apply andb_true_iff in H as [C0 C1].
  apply Z.ltb_lt in Hlt. apply cross_regular in C0, C1.
  assert (ET : cd_truncate z cd ts = day_utc z (local_days z ts) * NS).
  { unfold cd_truncate. rewrite HD. unfold local_civil. apply midnight_of_civil. }
  assert (EC : cd_ceil z cd ts = day_utc z (local_days z (ts + utils_Day)) * NS).
  { unfold cd_ceil. rewrite HD. unfold local_civil. apply midnight_of_civil. }
  rewrite ET, EC.
  pose proof (day_cmp z (local_days z ts) ts C0) as K0.
  pose proof (day_cmp z (local_days z (ts + utils_Day)) ts C1) as K1.
  split; [ lia | ]. split; [ | reflexivity ].
  unfold cd_is_within. rewrite HD. unfold local_civil.
  rewrite (local_days_day_utc z _ C0).
  destruct (civil_of_days (local_days z ts)) as [[y m] d]. rewrite !Z.eqb_refl. reflexivity.
Qed.

(* ------------------------------------------------------------------------------------------ *)
(** * "W": weeks start on Monday 00:00 UTC (the zero time 0001-01-01 was a Monday) *)

Definition week_ns : Z := 604800000000000.

Lemma week_thursday ts :
  let d := ts / utils_Day in
  let s := ts - (ts + abs_epoch_ns) mod week_ns in
  s / utils_Day + (3 - (weekday (s / utils_Day) + 6) mod 7) = d + (3 - (weekday d + 6) mod 7).
Proof.
  cbn zeta. unfold weekday, utils_Day, week_ns, abs_epoch_ns, NS.
  assert (E : (ts - (ts + 62135596800 * 1000000000) mod 604800000000000) / 86400000000000
              = ts / 86400000000000 - (ts / 86400000000000 + 719162) mod 7).
  { Z.div_mod_to_equations. lia. }
  rewrite E. Z.div_mod_to_equations. lia.
Qed.

Lemma local_days_offset0 z t : offset_at z (sec_of t) = 0 -> local_days z t = t / utils_Day.
Proof.
  intros H. unfold local_days, local_secs. rewrite H, Z.add_0_r. unfold sec_of, NS, SPD, utils_Day.
  rewrite Z.div_div by lia. reflexivity.
Qed.

Lemma week_window z cd ts :
  String.eqb (cd_suffix cd) "W" = true -> cd_duration cd = week_ns -> week_window_okb z cd ts = true ->
  cd_truncate z cd ts <= ts < cd_ceil z cd ts /\ cd_is_within z cd ts (cd_truncate z cd ts) = true.
Proof.
  intros HW Hd H. apply String.eqb_eq in HW.
  assert (HD : String.eqb (cd_suffix cd) "D" = false) by (rewrite HW; reflexivity).
  assert (HM : String.eqb (cd_suffix cd) "M" = false) by (rewrite HW; reflexivity).
  destruct (abs_window z cd ts HD HM ltac:(rewrite Hd; reflexivity)) as (B & _ & ET).
  split; [ exact B | ].
  unfold week_window_okb in H. apply andb_true_iff in H as [H O1]. apply andb_true_iff in H as [_ O0].
  apply Z.eqb_eq in O0, O1.
  unfold cd_is_within. rewrite HD. rewrite HW at 1. cbn [String.eqb Ascii.eqb Bool.eqb].
  rewrite ET. rewrite (local_days_offset0 z ts O0), (local_days_offset0 z _ O1).
  rewrite Hd. unfold time_truncate. change (week_ns <=? 0) with false. cbv iota.
  unfold iso_week. rewrite (week_thursday ts).
  rewrite !Z.eqb_refl. reflexivity.
Qed.

(* ------------------------------------------------------------------------------------------ *)
(** * The window theorem over the whole guarded domain *)

Theorem window_all z cd ts : wf_cd cd -> window_okb z cd ts = true ->
  cd_truncate z cd ts <= ts < cd_ceil z cd ts /\ cd_is_within z cd ts (cd_truncate z cd ts) = true.
Proof.
  intros Hwf H. unfold window_okb in H. cbn zeta in H. apply andb_true_iff in H as [Hm H].
  destruct (mult_ok_duration cd Hwf Hm) as [M1 Hd].
  destruct Hwf as [Hin _]. cbn in Hin.
  destruct Hin as [E | [E | [E | [E | [E | [E | [E | []]]]]]]]; rewrite <- E in *;
    cbn [String.eqb Ascii.eqb Bool.eqb] in H; try discriminate H.
  - (* Sec *) change (slookup suffixDefs "Sec") with 1000000000 in Hd.
    destruct (abs_window z cd ts ltac:(rewrite <- E; reflexivity) ltac:(rewrite <- E; reflexivity) ltac:(lia)) as (B & _).
    split; [ exact B | apply abs_within; rewrite <- E; reflexivity ].
  - (* Min *) change (slookup suffixDefs "Min") with 60000000000 in Hd.
    destruct (abs_window z cd ts ltac:(rewrite <- E; reflexivity) ltac:(rewrite <- E; reflexivity) ltac:(lia)) as (B & _).
    split; [ exact B | apply abs_within; rewrite <- E; reflexivity ].
  - (* H *) change (slookup suffixDefs "H") with 3600000000000 in Hd.
    destruct (abs_window z cd ts ltac:(rewrite <- E; reflexivity) ltac:(rewrite <- E; reflexivity) ltac:(lia)) as (B & _).
    split; [ exact B | apply abs_within; rewrite <- E; reflexivity ].
  - (* D *) destruct (day_window z cd ts ltac:(rewrite <- E; reflexivity) H) as (B & W & _). split; assumption.
  - (* W *) change (slookup suffixDefs "W") with week_ns in Hd.
    assert (M : cd_mult cd = 1).
    { unfold week_window_okb in H. apply andb_true_iff in H as [H _]. apply andb_true_iff in H as [H _].
      apply Z.eqb_eq in H. exact H. }
    apply week_window; [ rewrite <- E; reflexivity | rewrite Hd, M; reflexivity | exact H ].
Qed.

(* ------------------------------------------------------------------------------------------ *)
(** * QueryableTimeframe divides the duration *)

Definition tf_duration (name : string) : Z := slookup Timeframes name.

Lemma timeframes_names_unique :
  forallb (fun p => (slookup Timeframes (fst p) =? snd p) && negb (snd p =? 0)) Timeframes = true.
Proof. vm_compute. reflexivity. Qed.

Lemma one_sec_is_timeframe : In ("1Sec", 1000000000) (rev Timeframes).
Proof. apply -> in_rev. vm_compute. tauto. Qed.

Theorem queryable_divides cd : wf_cd cd -> mult_okb cd = true ->
  tf_duration (QueryableTimeframe cd) <> 0
  /\ Z.rem (cd_duration cd) (tf_duration (QueryableTimeframe cd)) = 0.
Proof.
  intros Hwf Hm. destruct (mult_ok_duration cd Hwf Hm) as [M1 Hd].
  unfold QueryableTimeframe. destruct (String.eqb (cd_suffix cd) "M") eqn:EM.
  - apply String.eqb_eq in EM. rewrite EM in Hd. change (slookup suffixDefs "M") with 0 in Hd.
    rewrite Hd, Z.mul_0_r. split; [ vm_compute; discriminate | reflexivity ].
  - destruct (find _ (rev Timeframes)) as [[name dur] |] eqn:F.
    + apply find_some in F as [Hin Hr]. cbn [snd] in Hr. apply Z.eqb_eq in Hr.
      apply in_rev in Hin. pose proof timeframes_names_unique as U. rewrite forallb_forall in U.
      specialize (U _ Hin). cbn [fst snd] in U. apply andb_true_iff in U as [U1 U2].
      apply Z.eqb_eq in U1. apply negb_true_iff in U2. apply Z.eqb_neq in U2.
      unfold tf_duration. rewrite U1. split; assumption.
    + exfalso. pose proof (find_none _ _ F _ one_sec_is_timeframe) as N. cbn [snd] in N.
      apply Z.eqb_neq in N. apply N.
      destruct Hwf as [Hin _]. cbn in Hin.
      assert (S : exists k, slookup suffixDefs (cd_suffix cd) = k * 1000000000).
      { destruct Hin as [E | [E | [E | [E | [E | [E | [E | []]]]]]]]; rewrite <- E.
        - exists 1. reflexivity.
        - exists 60. reflexivity.
        - exists 3600. reflexivity.
        - exists 86400. reflexivity.
        - exists 604800. reflexivity.
        - exists 0. reflexivity.
        - exists 31536000. reflexivity. }
      destruct S as [k Sk]. rewrite Hd, Sk.
      replace (cd_mult cd * (k * 1000000000)) with (cd_mult cd * k * 1000000000) by lia.
      apply Z.rem_mul. lia.
Qed.

(* ------------------------------------------------------------------------------------------ *)
(** * Print / parse stability: finite reflection over every duration print_okb admits *)

Definition multiples (u : Z) (n : nat) : list Z := map (fun k => u * Z.of_nat k) (seq 1 n).

Definition print_candidates : list Z :=
  multiples 1000000000 59 ++ multiples 60000000000 59 ++ multiples 3600000000000 23
  ++ multiples 86400000000000 6 ++ multiples 604800000000000 52 ++ [31536000000000000].

Lemma in_multiples u n d : 0 < u -> d mod u = 0 -> u <= d < u * (Z.of_nat n + 1) -> In d (multiples u n).
Proof.
  intros Hu Hm Hr. unfold multiples. apply in_map_iff.
  pose proof (Z.div_mod d u ltac:(lia)) as DM. rewrite Hm, Z.add_0_r in DM.
  assert (1 <= d / u <= Z.of_nat n) by nia.
  exists (Z.to_nat (d / u)). split; [ rewrite Z2Nat.id by lia; lia | ].
  apply in_seq. lia.
Qed.

Ltac fin u n :=
  solve [ apply (in_multiples u n); [ lia | first [ reflexivity | assumption ] | cbn; lia ] ].

Lemma print_okb_in d : print_okb d = true -> In d print_candidates.
Proof.
  unfold print_okb, timeframeDefs. intros H. apply andb_true_iff in H as [H0 H]. apply Z.leb_le in H0.
  cbn [print_ok_defs] in H. unfold print_candidates.
  repeat match type of H with
  | (if ?a =? ?b then _ else _) = true => destruct (Z.eqb_spec a b)
  | (if ?a <? ?b then _ else _) = true => destruct (Z.ltb_spec a b)
  end; try discriminate H; try (apply Z.eqb_eq in H).
  all: try (subst d).
  all: try lia.
  all: repeat rewrite in_app_iff.
  all: first
    [ left; fin 1000000000 59%nat
    | right; left; fin 60000000000 59%nat
    | right; right; left; fin 3600000000000 23%nat
    | right; right; right; left; fin 86400000000000 6%nat
    | right; right; right; right; left; fin 604800000000000 52%nat
    | right; right; right; right; right; left; reflexivity ].
Qed.

Definition roundtrip_okb (d : Z) : bool :=
  match TimeframeFromDuration d with
  | Some (p, d') =>
      (d' =? d) && match TimeframeFromString p with
                   | Some (p', d'') => String.eqb p' p && (d'' =? d)
                   | None => false
                   end
  | None => false
  end.

Lemma print_candidates_roundtrip : forallb roundtrip_okb print_candidates = true.
Proof. vm_compute. reflexivity. Qed.

Theorem print_parse_stable d : print_okb d = true ->
  exists p, TimeframeFromDuration d = Some (p, d) /\ TimeframeFromString p = Some (p, d).
Proof.
  intros H. apply print_okb_in in H. pose proof print_candidates_roundtrip as R.
  rewrite forallb_forall in R. specialize (R d H). unfold roundtrip_okb in R.
  destruct (TimeframeFromDuration d) as [[p d'] |] eqn:E1; [ | discriminate ].
  apply andb_true_iff in R as [R1 R2]. apply Z.eqb_eq in R1. subst d'.
  destruct (TimeframeFromString p) as [[p' d''] |] eqn:E2; [ | discriminate ].
  apply andb_true_iff in R2 as [R2 R3]. apply String.eqb_eq in R2. apply Z.eqb_eq in R3. subst.
  exists p. split; [ reflexivity | exact E2 ].
Qed.
