(** Facts about Model/Timeframe.v (C31). *)
From Coq Require Import ZArith List Bool Lia String Ascii.
Import ListNotations.
Require Import MS.Base.GoInt MS.Base.Res MS.Base.Civil MS.Base.Tz MS.Generated.Src_time
  MS.Model.TimeIndex MS.Model.Timeframe MS.Proofs.TimeIndex_facts.
Local Open Scope string_scope.
Local Open Scope Z_scope.

(* ------------------------------------------------------------------------------------------ *)
(** * Time.Truncate *)

Lemma time_truncate_bracket t d : 0 < d ->
  time_truncate t d <= t < time_truncate t d + d.
Proof.
  intros Hd. unfold time_truncate. destruct (Z.leb_spec d 0); [ lia | ].
  pose proof (Z.mod_pos_bound (t + abs_epoch_ns) d Hd). lia.
Qed.

Lemma time_truncate_add t d : 0 < d -> time_truncate (t + d) d = time_truncate t d + d.
Proof.
  intros Hd. unfold time_truncate. destruct (Z.leb_spec d 0); [ lia | ].
  replace (t + d + abs_epoch_ns) with (t + abs_epoch_ns + 1 * d) by lia.
  rewrite Z_mod_plus_full. lia.
Qed.

Lemma time_truncate_idem t d : 0 < d -> time_truncate (time_truncate t d) d = time_truncate t d.
Proof.
  intros Hd. unfold time_truncate. destruct (Z.leb_spec d 0); [ lia | ].
  pose proof (Z.div_mod (t + abs_epoch_ns) d ltac:(lia)) as DM.
  replace (t - (t + abs_epoch_ns) mod d + abs_epoch_ns) with (0 + (t + abs_epoch_ns) / d * d) by lia.
  rewrite Z_mod_plus_full. rewrite Z.mod_0_l by lia. lia.
Qed.

(* ------------------------------------------------------------------------------------------ *)
(** * Well-formed candle durations: what CandleDurationFromString produces *)

Definition wf_cd (cd : cdur) : Prop :=
  In (cd_suffix cd) suffixes
  /\ cd_duration cd = wrap I64 (cd_mult cd * slookup suffixDefs (cd_suffix cd)).

Lemma regex_find_suffix fuel : forall s d sx, regex_find fuel s = Some (d, sx) -> In sx suffixes.
Proof.
  induction fuel as [| f IH]; intros s d sx H; cbn [regex_find] in H; [ discriminate | ].
  destruct s as [| c s']; [ discriminate | ].
  destruct (is_digit c).
  - destruct (take_digits (String c s')) as [dd r].
    destruct (match_suffix r) as [sx' |] eqn:M.
    + injection H as _ <-. unfold match_suffix in M. apply find_some in M. tauto.
    + eapply IH; eassumption.
  - eapply IH; eassumption.
Qed.

Lemma CandleDurationFromString_wf s cd : CandleDurationFromString s = Some cd -> wf_cd cd.
Proof.
  unfold CandleDurationFromString. destruct (regex_find _ s) as [[p sx] |] eqn:R; [ | discriminate ].
  intros H. injection H as <-. split; cbn [cd_suffix cd_duration cd_mult].
  - eapply regex_find_suffix; eassumption.
  - reflexivity.
Qed.

Lemma mult_ok_duration cd : wf_cd cd -> mult_okb cd = true ->
  1 <= cd_mult cd /\ cd_duration cd = cd_mult cd * slookup suffixDefs (cd_suffix cd).
Proof.
  intros [Hin Hd] H. unfold mult_okb in H. apply andb_true_iff in H as [H1 H2].
  apply Z.leb_le in H1, H2. split; [ exact H1 | ]. rewrite Hd.
  assert (0 <= slookup suffixDefs (cd_suffix cd)).
  { cbn in Hin. repeat (destruct Hin as [<- | Hin]; [ vm_compute; discriminate | ]). contradiction. }
  apply wrap64_small. nia.
Qed.

(* ------------------------------------------------------------------------------------------ *)
(** * Windows of the absolute (Sec / Min / H, and the Truncate/Ceil part of W / Y) suffixes *)

Lemma abs_window z cd ts :
  String.eqb (cd_suffix cd) "D" = false -> String.eqb (cd_suffix cd) "M" = false -> 0 < cd_duration cd ->
  cd_truncate z cd ts <= ts < cd_ceil z cd ts
  /\ cd_ceil z cd ts = cd_truncate z cd ts + cd_duration cd
  /\ cd_truncate z cd ts = time_truncate ts (cd_duration cd).
Proof.
  intros HD HM Hd. unfold cd_truncate, cd_ceil. rewrite HD, HM.
  rewrite (time_truncate_add ts _ Hd). pose proof (time_truncate_bracket ts _ Hd). lia.
Qed.

Lemma abs_within z cd ts :
  String.eqb (cd_suffix cd) "D" = false -> String.eqb (cd_suffix cd) "W" = false ->
  String.eqb (cd_suffix cd) "M" = false -> String.eqb (cd_suffix cd) "Y" = false ->
  cd_is_within z cd ts (cd_truncate z cd ts) = true.
Proof.
  intros HD HW HM HY. unfold cd_is_within, cd_truncate. rewrite HD, HW, HM, HY. apply Z.eqb_refl.
Qed.

(* ------------------------------------------------------------------------------------------ *)
(** * "D": local calendar days *)

Lemma midnight_of_civil z D :
  (let '(y, m, d) := civil_of_days D in midnight z y m d) = day_utc z D * NS.
Proof.
  pose proof (days_of_civil_of_days D) as H. destruct (civil_of_days D) as [[y m] d]. destruct H as [E _].
  unfold midnight, go_date, day_utc. rewrite E.
  replace (D * SPD + 0 * 3600 + 0 * 60 + 0) with (D * SPD) by lia. lia.
Qed.

Lemma day_window z cd ts :
  String.eqb (cd_suffix cd) "D" = true -> day_window_okb z ts = true ->
  cd_truncate z cd ts <= ts < cd_ceil z cd ts
  /\ cd_is_within z cd ts (cd_truncate z cd ts) = true
  /\ cd_truncate z cd ts = day_utc z (local_days z ts) * NS.
Proof.
  intros HD H. unfold day_window_okb in H. cbn zeta in H.
  apply andb_true_iff in H as [H Hlt]. apply andb_true_iff in H as [C0 C1].
  apply Z.ltb_lt in Hlt. apply cross_regular in C0, C1.
  assert (ET : cd_truncate z cd ts = day_utc z (local_days z ts) * NS).
  { unfold cd_truncate. rewrite HD. unfold local_civil. apply midnight_of_civil. }
  assert (EC : cd_ceil z cd ts = day_utc z (local_days z (ts + utils_Day)) * NS).
  { unfold cd_ceil. rewrite HD. unfold local_civil. apply midnight_of_civil. }
  rewrite ET, EC.
  pose proof (day_cmp z (local_days z ts) ts C0) as K0.
  pose proof (day_cmp z (local_days z (ts + utils_Day)) ts C1) as K1.
  split; [ lia | ]. split; [ | reflexivity ].
  unfold cd_is_within. rewrite HD. unfold local_civil.
  rewrite (local_days_day_utc z _ C0).
  destruct (civil_of_days (local_days z ts)) as [[y m] d]. rewrite !Z.eqb_refl. reflexivity.
Qed.

(* ------------------------------------------------------------------------------------------ *)
(** * "W": weeks start on Monday 00:00 UTC (the zero time 0001-01-01 was a Monday) *)

Definition week_ns : Z := 604800000000000.

Lemma week_thursday ts :
  let d := ts / utils_Day in
  let s := ts - (ts + abs_epoch_ns) mod week_ns in
  s / utils_Day + (3 - (weekday (s / utils_Day) + 6) mod 7) = d + (3 - (weekday d + 6) mod 7).
Proof.
  cbn zeta. unfold weekday, utils_Day, week_ns, abs_epoch_ns, NS.
  assert (E : (ts - (ts + 62135596800 * 1000000000) mod 604800000000000) / 86400000000000
              = ts / 86400000000000 - (ts / 86400000000000 + 719162) mod 7).
  { Z.div_mod_to_equations. lia. }
  rewrite E. Z.div_mod_to_equations. lia.
Qed.

Lemma local_days_offset0 z t : offset_at z (sec_of t) = 0 -> local_days z t = t / utils_Day.
Proof.
  intros H. unfold local_days, local_secs. rewrite H, Z.add_0_r. unfold sec_of, NS, SPD, utils_Day.
  rewrite Z.div_div by lia. reflexivity.
Qed.

Lemma week_window z cd ts :
  String.eqb (cd_suffix cd) "W" = true -> cd_duration cd = week_ns -> week_window_okb z cd ts = true ->
  cd_truncate z cd ts <= ts < cd_ceil z cd ts /\ cd_is_within z cd ts (cd_truncate z cd ts) = true.
Proof.
  intros HW Hd H. apply String.eqb_eq in HW.
  assert (HD : String.eqb (cd_suffix cd) "D" = false) by (rewrite HW; reflexivity).
  assert (HM : String.eqb (cd_suffix cd) "M" = false) by (rewrite HW; reflexivity).
  destruct (abs_window z cd ts HD HM ltac:(rewrite Hd; reflexivity)) as (B & _ & ET).
  split; [ exact B | ].
  unfold week_window_okb in H. apply andb_true_iff in H as [H O1]. apply andb_true_iff in H as [_ O0].
  apply Z.eqb_eq in O0, O1.
  unfold cd_is_within. rewrite HD. rewrite HW at 1. cbn [String.eqb Ascii.eqb Bool.eqb].
  rewrite ET. rewrite (local_days_offset0 z ts O0), (local_days_offset0 z _ O1).
  rewrite Hd. unfold time_truncate. change (week_ns <=? 0) with false. cbv iota.
  unfold iso_week. rewrite (week_thursday ts).
  rewrite !Z.eqb_refl. reflexivity.
Qed.

(* ------------------------------------------------------------------------------------------ *)
(** * "M": calendar months *)

Lemma midnight_day z y m d : midnight z y m d = day_utc z (days_of_civil y m d) * NS.
Proof.
  unfold midnight, go_date, day_utc.
  replace (days_of_civil y m d * SPD + 0 * 3600 + 0 * 60 + 0) with (days_of_civil y m d * SPD) by lia. lia.
Qed.

Lemma days_of_civil_day y m d : days_of_civil y m d = days_of_civil y m 1 + (d - 1).
Proof. unfold days_of_civil. lia. Qed.

(** the first of the next month is after every day of this month *)
Lemma next_month_first y m dd : valid_date y m dd ->
  days_of_civil y m dd < (if m =? 12 then days_of_civil (y + 1) 1 1 else days_of_civil y (m + 1) 1).
Proof.
  intros [Hm Hd]. unfold days_in_month in Hd.
  rewrite (days_of_civil_valid y m dd Hm).
  destruct (Z.eqb_spec m 12) as [-> | N].
  - rewrite days_of_civil_jan1, dby_step. unfold days_in_year.
    rewrite days_before_month_13 in Hd. destruct (is_leap y); lia.
  - rewrite (days_of_civil_valid y (m + 1) 1) by lia. lia.
Qed.

Lemma month_window z cd ts :
  String.eqb (cd_suffix cd) "M" = true -> month_window_okb z ts = true ->
  cd_truncate z cd ts <= ts < cd_ceil z cd ts /\ cd_is_within z cd ts (cd_truncate z cd ts) = true.
Proof.
  intros HM H. apply String.eqb_eq in HM.
  assert (HD : String.eqb (cd_suffix cd) "D" = false) by (rewrite HM; reflexivity).
  assert (HW : String.eqb (cd_suffix cd) "W" = false) by (rewrite HM; reflexivity).
  assert (HMt : String.eqb (cd_suffix cd) "M" = true) by (rewrite HM; reflexivity).
  unfold month_window_okb in H. unfold cd_truncate, cd_ceil, cd_is_within. rewrite HD, HW, HMt.
  unfold local_civil in *.
  pose proof (days_of_civil_of_days (local_days z ts)) as V.
  destruct (civil_of_days (local_days z ts)) as [[y m] dd] eqn:EC. destruct V as [ED VD].
  apply andb_true_iff in H as [C0 C1]. apply cross_regular in C0, C1.
  pose proof (next_month_first y m dd VD) as NX.
  set (D0 := days_of_civil y m 1) in *.
  set (D1 := if m =? 12 then days_of_civil (y + 1) 1 1 else days_of_civil y (m + 1) 1) in *.
  assert (ECeil : (if m =? 12 then midnight z (y + 1) 1 1 else midnight z y (m + 1) 1) = day_utc z D1 * NS).
  { subst D1. destruct (m =? 12); apply midnight_day. }
  rewrite ECeil, (midnight_day z y m 1). fold D0.
  pose proof (day_cmp z D0 ts C0) as K0. pose proof (day_cmp z D1 ts C1) as K1.
  assert (L0 : D0 <= local_days z ts).
  { rewrite <- ED, (days_of_civil_day y m dd). fold D0. destruct VD as [_ Hdd]. lia. }
  assert (L1 : local_days z ts < D1) by (rewrite <- ED; exact NX).
  split; [ lia | ].
  rewrite (local_days_day_utc z D0 C0).
  assert (E1 : civil_of_days D0 = (y, m, 1)).
  { subst D0. apply civil_of_days_of_civil. destruct VD as [Hm Hdd]. split; [ exact Hm | ].
    pose proof (days_before_month_mono (is_leap y) m Hm) as (_ & _ & B). lia. }
  rewrite E1, !Z.eqb_refl. reflexivity.
Qed.

(* ------------------------------------------------------------------------------------------ *)
(** * "Y": absolute 365-day windows; the timestamp's calendar year is at most [mult] after the start's *)

Lemma dby_add_ge y k : 0 <= k -> dby y + 365 * k <= dby (y + k).
Proof.
  revert k. apply (natlike_ind (fun k => dby y + 365 * k <= dby (y + k))).
  - replace (y + 0) with y by lia. lia.
  - intros k Hk IH. replace (y + Z.succ k) with (y + k + 1) by lia. rewrite dby_step.
    pose proof (days_in_year_range (y + k)). lia.
Qed.

Lemma year_of_days_add d j k : 0 <= k -> j <= 365 * k -> year_of_days (d + j) <= year_of_days d + k.
Proof.
  intros Hk Hj. pose proof (year_of_days_spec d) as S. pose proof (year_of_days_spec (d + j)) as S2.
  destruct (Z_le_gt_dec (year_of_days (d + j)) (year_of_days d + k)) as [L | G]; [ exact L | exfalso ].
  pose proof (dby_mono_le (year_of_days d + 1 + k) (year_of_days (d + j)) ltac:(lia)) as M.
  pose proof (dby_add_ge (year_of_days d + 1) k Hk). lia.
Qed.

Definition year_ns : Z := 31536000000000000.

Lemma year_window z cd ts :
  String.eqb (cd_suffix cd) "Y" = true -> 1 <= cd_mult cd -> cd_duration cd = cd_mult cd * year_ns ->
  year_window_okb z cd ts = true ->
  cd_truncate z cd ts <= ts < cd_ceil z cd ts /\ cd_is_within z cd ts (cd_truncate z cd ts) = true.
Proof.
  intros HY Hm Hd H. apply String.eqb_eq in HY.
  assert (HD : String.eqb (cd_suffix cd) "D" = false) by (rewrite HY; reflexivity).
  assert (HW : String.eqb (cd_suffix cd) "W" = false) by (rewrite HY; reflexivity).
  assert (HM : String.eqb (cd_suffix cd) "M" = false) by (rewrite HY; reflexivity).
  assert (HYt : String.eqb (cd_suffix cd) "Y" = true) by (rewrite HY; reflexivity).
  assert (Dpos : 0 < cd_duration cd) by (rewrite Hd; unfold year_ns; lia).
  destruct (abs_window z cd ts HD HM Dpos) as (B & _ & ET).
  split; [ exact B | ].
  unfold cd_is_within. rewrite HD, HW, HM, HYt. rewrite ET in *.
  set (st := time_truncate ts (cd_duration cd)) in *.
  unfold year_window_okb in H. fold st in H. apply Z.eqb_eq in H.
  apply Z.leb_le. unfold year_of, local_days, local_secs. rewrite H.
  set (o := offset_at z (sec_of st)).
  pose proof (time_truncate_bracket ts _ Dpos) as TB. fold st in TB.
  (* seconds apart: at most mult * 365 days *)
  set (K := cd_mult cd * 365).
  assert (SD : sec_of ts - sec_of st <= K * SPD).
  { rewrite Hd in TB. unfold sec_of, NS, SPD, year_ns, K in *.
    assert (E : cd_mult cd * 31536000000000000 = cd_mult cd * 365 * 86400 * 1000000000) by lia.
    rewrite E in TB. set (KK := cd_mult cd * 365 * 86400) in *.
    Z.div_mod_to_equations. lia. }
  assert (DD : (sec_of ts + o) / SPD <= (sec_of st + o) / SPD + K).
  { unfold SPD in *. Z.div_mod_to_equations. lia. }
  set (ds := (sec_of st + o) / SPD) in *. set (dt := (sec_of ts + o) / SPD) in *.
  replace dt with (ds + (dt - ds)) by lia.
  pose proof (year_of_days_add ds (dt - ds) (cd_mult cd) ltac:(lia) ltac:(unfold K in DD; lia)). lia.
Qed.

(* ------------------------------------------------------------------------------------------ *)
(** * The window theorem over the whole guarded domain *)

Theorem window_all z cd ts : wf_cd cd -> window_okb z cd ts = true ->
  cd_truncate z cd ts <= ts < cd_ceil z cd ts /\ cd_is_within z cd ts (cd_truncate z cd ts) = true.
Proof.
  intros Hwf H. unfold window_okb in H. cbn zeta in H. apply andb_true_iff in H as [Hm H].
  destruct (mult_ok_duration cd Hwf Hm) as [M1 Hd].
  destruct Hwf as [Hin _]. cbn in Hin.
  destruct Hin as [E | [E | [E | [E | [E | [E | [E | []]]]]]]]; rewrite <- E in *;
    cbn [String.eqb Ascii.eqb Bool.eqb] in H; try discriminate H.
  - (* Sec *) change (slookup suffixDefs "Sec") with 1000000000 in Hd.
    destruct (abs_window z cd ts ltac:(rewrite <- E; reflexivity) ltac:(rewrite <- E; reflexivity) ltac:(lia)) as (B & _).
    split; [ exact B | apply abs_within; rewrite <- E; reflexivity ].
  - (* Min *) change (slookup suffixDefs "Min") with 60000000000 in Hd.
    destruct (abs_window z cd ts ltac:(rewrite <- E; reflexivity) ltac:(rewrite <- E; reflexivity) ltac:(lia)) as (B & _).
    split; [ exact B | apply abs_within; rewrite <- E; reflexivity ].
  - (* H *) change (slookup suffixDefs "H") with 3600000000000 in Hd.
    destruct (abs_window z cd ts ltac:(rewrite <- E; reflexivity) ltac:(rewrite <- E; reflexivity) ltac:(lia)) as (B & _).
    split; [ exact B | apply abs_within; rewrite <- E; reflexivity ].
  - (* D *) destruct (day_window z cd ts ltac:(rewrite <- E; reflexivity) H) as (B & W & _). split; assumption.
  - (* W *) change (slookup suffixDefs "W") with week_ns in Hd.
    assert (M : cd_mult cd = 1).
    { unfold week_window_okb in H. apply andb_true_iff in H as [H _]. apply andb_true_iff in H as [H _].
      apply Z.eqb_eq in H. exact H. }
    apply week_window; [ rewrite <- E; reflexivity | rewrite Hd, M; reflexivity | exact H ].
  - (* M *) apply month_window; [ rewrite <- E; reflexivity | exact H ].
  - (* Y *) change (slookup suffixDefs "Y") with year_ns in Hd.
    apply year_window; [ rewrite <- E; reflexivity | exact M1 | exact Hd | exact H ].
Qed.

(* ------------------------------------------------------------------------------------------ *)
(** * QueryableTimeframe divides the duration *)

Definition tf_duration (name : string) : Z := slookup Timeframes name.

Lemma timeframes_names_unique :
  forallb (fun p => (slookup Timeframes (fst p) =? snd p) && negb (snd p =? 0)) Timeframes = true.
Proof. vm_compute. reflexivity. Qed.

Lemma one_sec_is_timeframe : In ("1Sec", 1000000000) (rev Timeframes).
Proof. apply -> in_rev. vm_compute. tauto. Qed.

Theorem queryable_divides cd : wf_cd cd -> mult_okb cd = true ->
  tf_duration (QueryableTimeframe cd) <> 0
  /\ Z.rem (cd_duration cd) (tf_duration (QueryableTimeframe cd)) = 0.
Proof.
  intros Hwf Hm. destruct (mult_ok_duration cd Hwf Hm) as [M1 Hd].
  unfold QueryableTimeframe. destruct (String.eqb (cd_suffix cd) "M") eqn:EM.
  - apply String.eqb_eq in EM. rewrite EM in Hd. change (slookup suffixDefs "M") with 0 in Hd.
    rewrite Hd, Z.mul_0_r. split; [ vm_compute; discriminate | reflexivity ].
  - destruct (find _ (rev Timeframes)) as [[name dur] |] eqn:F.
    + apply find_some in F as [Hin Hr]. cbn [snd] in Hr. apply Z.eqb_eq in Hr.
      apply in_rev in Hin. pose proof timeframes_names_unique as U. rewrite forallb_forall in U.
      specialize (U _ Hin). cbn [fst snd] in U. apply andb_true_iff in U as [U1 U2].
      apply Z.eqb_eq in U1. apply negb_true_iff in U2. apply Z.eqb_neq in U2.
      unfold tf_duration. rewrite U1. split; assumption.
    + exfalso. pose proof (find_none _ _ F _ one_sec_is_timeframe) as N. cbn [snd] in N.
      apply Z.eqb_neq in N. apply N.
      destruct Hwf as [Hin _]. cbn in Hin.
      assert (S : exists k, slookup suffixDefs (cd_suffix cd) = k * 1000000000).
      { destruct Hin as [E | [E | [E | [E | [E | [E | [E | []]]]]]]]; rewrite <- E.
        - exists 1. reflexivity.
        - exists 60. reflexivity.
        - exists 3600. reflexivity.
        - exists 86400. reflexivity.
        - exists 604800. reflexivity.
        - exists 0. reflexivity.
        - exists 31536000. reflexivity. }
      destruct S as [k Sk]. rewrite Hd, Sk.
      replace (cd_mult cd * (k * 1000000000)) with (cd_mult cd * k * 1000000000) by lia.
      apply Z.rem_mul. lia.
Qed.

(* ------------------------------------------------------------------------------------------ *)
(** * Print / parse stability: finite reflection over every duration print_okb admits *)

Definition multiples (u : Z) (n : nat) : list Z := map (fun k => u * Z.of_nat k) (seq 1 n).

Definition print_candidates : list Z :=
  multiples 1000000000 59 ++ multiples 60000000000 59 ++ multiples 3600000000000 23
  ++ multiples 86400000000000 6 ++ multiples 604800000000000 52 ++ [31536000000000000].

Lemma in_multiples u n d : 0 < u -> d mod u = 0 -> u <= d < u * (Z.of_nat n + 1) -> In d (multiples u n).
Proof.
  intros Hu Hm Hr. unfold multiples. apply in_map_iff.
  pose proof (Z.div_mod d u ltac:(lia)) as DM. rewrite Hm, Z.add_0_r in DM.
  assert (1 <= d / u <= Z.of_nat n) by nia.
  exists (Z.to_nat (d / u)). split; [ rewrite Z2Nat.id by lia; lia | ].
  apply in_seq. lia.
Qed.

Ltac fin u n :=
  solve [ apply (in_multiples u n); [ lia | first [ reflexivity | assumption ] | cbn; lia ] ].

Lemma print_okb_in d : print_okb d = true -> In d print_candidates.
Proof.
  unfold print_okb, timeframeDefs. intros H. apply andb_true_iff in H as [H0 H]. apply Z.leb_le in H0.
  cbn [print_ok_defs] in H. unfold print_candidates.
  repeat match type of H with
  | (if ?a =? ?b then _ else _) = true => destruct (Z.eqb_spec a b)
  | (if ?a <? ?b then _ else _) = true => destruct (Z.ltb_spec a b)
  end; try discriminate H; try (apply Z.eqb_eq in H).
  all: try (subst d).
  all: try lia.
  all: repeat rewrite in_app_iff.
  all: first
    [ left; fin 1000000000 59%nat
    | right; left; fin 60000000000 59%nat
    | right; right; left; fin 3600000000000 23%nat
    | right; right; right; left; fin 86400000000000 6%nat
    | right; right; right; right; left; fin 604800000000000 52%nat
    | right; right; right; right; right; left; reflexivity ].
Qed.

Definition roundtrip_okb (d : Z) : bool :=
  match TimeframeFromDuration d with
  | Some (p, d') =>
      (d' =? d) && match TimeframeFromString p with
                   | Some (p', d'') => String.eqb p' p && (d'' =? d)
                   | None => false
                   end
  | None => false
  end.

Lemma print_candidates_roundtrip : forallb roundtrip_okb print_candidates = true.
Proof. vm_compute. reflexivity. Qed.

Theorem print_parse_stable d : print_okb d = true ->
  exists p, TimeframeFromDuration d = Some (p, d) /\ TimeframeFromString p = Some (p, d).
Proof.
  intros H. apply print_okb_in in H. pose proof print_candidates_roundtrip as R.
  rewrite forallb_forall in R. specialize (R d H). unfold roundtrip_okb in R.
  destruct (TimeframeFromDuration d) as [[p d'] |] eqn:E1; [ | discriminate ].
  apply andb_true_iff in R as [R1 R2]. apply Z.eqb_eq in R1. subst d'.
  destruct (TimeframeFromString p) as [[p' d''] |] eqn:E2; [ | discriminate ].
  apply andb_true_iff in R2 as [R2 R3]. apply String.eqb_eq in R2. apply Z.eqb_eq in R3. subst.
  exists p. split; [ reflexivity | exact E2 ].
Qed.
