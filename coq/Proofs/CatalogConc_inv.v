(** C17, concurrent half, positive direction (bounded alphabet, unbounded schedules): for a finite alphabet of
    labels the set of reachable states of the interleaving model (Model/CatalogConc.v, with the root lock) is
    computed by breadth-first search ([reach]); its closure under EVERY label and the consistency of every
    quiescent state are checked by vm_compute (the system-call trace a free variable).  Induction over the
    schedule then covers all - unboundedly long - schedules, without any guard. *)
From Coq Require Import ZArith NArith List Bool Lia.
From Coq.Strings Require Import Byte.
Import ListNotations.
Require Import MS.Base.GoInt MS.Base.Hex MS.Base.Path MS.Model.Catalog MS.Model.CatalogConc MS.Proofs.Catalog_seq.

(* ------------------------------------------------------------------ structural equality of states *)
Definition subs_eqb (a b : list (name * nat)) : bool :=
  list_eqb (fun p q => bytes_eqb (fst p) (fst q) && Nat.eqb (snd p) (snd q)) a b.
Definition hnode_eqb (a b : hnode) : bool :=
  bytes_eqb (h_item a) (h_item b) && bytes_eqb (h_path a) (h_path b) && bytes_eqb (h_cat a) (h_cat b)
  && subs_eqb (h_subs a) (h_subs b) && files_eqb (h_files a) (h_files b).
Definition heap_eqb (a b : heap) : bool :=
  list_eqb (fun p q => Nat.eqb (fst p) (fst q) && hnode_eqb (snd p) (snd q)) (hp_nodes a) (hp_nodes b)
  && Nat.eqb (hp_root a) (hp_root b) && subs_eqb (hp_dm a) (hp_dm b) && Nat.eqb (hp_next a) (hp_next b).
Definition optname_eqb (a b : option name) : bool :=
  match a, b with None, None => true | Some x, Some y => bytes_eqb x y | _, _ => false end.
Definition optnat_eqb (a b : option nat) : bool :=
  match a, b with None, None => true | Some x, Some y => Nat.eqb x y | _, _ => false end.
Definition dthread_eqb (a b : dthread) : bool :=
  list_eqb (fun p q => Nat.eqb (fst p) (fst q) && optname_eqb (snd p) (snd q)) (d_levels a) (d_levels b)
  && optnat_eqb (d_top a) (d_top b) && Bool.eqb (d_deleted a) (d_deleted b) && Bool.eqb (d_final a) (d_final b)
  && Bool.eqb (d_done a) (d_done b).
Definition pending_eqb (a b : pending) : bool :=
  let '(n1, c1, d1, r1) := a in let '(n2, c2, d2, r2) := b in
  bytes_eqb n1 n2 && cnode_eqb c1 c2 && dmap_eqb d1 d2 && bytes_eqb r1 r2.
Definition sys_eqb (a b : sys) : bool :=
  match a, b with
  | SMkdir p, SMkdir q | SCreate p, SCreate q | SWrite p, SWrite q | SRmAll p, SRmAll q => bytes_eqb p q
  | _, _ => false
  end.

(** states are compared without their traces *)
Definition cstate_eqb (a b : cstate) : bool :=
  fnode_eqb (wfs (c_world a)) (wfs (c_world b)) && heap_eqb (c_heap a) (c_heap b)
  && list_eqb (fun p q => Nat.eqb (fst p) (fst q) && dthread_eqb (snd p) (snd q)) (c_threads a) (c_threads b)
  && list_eqb (fun p q => Nat.eqb (fst p) (fst q) && pending_eqb (snd p) (snd q)) (c_pending a) (c_pending b)
  && optnat_eqb (c_lock a) (c_lock b).

Ltac split_andb H :=
  repeat match type of H with
         | (_ && _) = true => let H1 := fresh "E" in let H2 := fresh "E" in apply andb_true_iff in H as [H1 H2]; try split_andb H1; try split_andb H2
         end.

Lemma subs_eqb_eq a b : subs_eqb a b = true -> a = b.
Proof.
  apply list_eqb_eq. intros [k1 i1] [k2 i2] E. cbn in E. apply andb_true_iff in E as [E1 E2].
  apply bytes_eqb_eq in E1. apply Nat.eqb_eq in E2. congruence.
Qed.

Lemma hnode_eqb_eq a b : hnode_eqb a b = true -> a = b.
Proof.
  destruct a as [i1 p1 c1 s1 f1], b as [i2 p2 c2 s2 f2]. unfold hnode_eqb. cbn. intros E.
  apply andb_true_iff in E as [E E5]. apply andb_true_iff in E as [E E4]. apply andb_true_iff in E as [E E3].
  apply andb_true_iff in E as [E1 E2].
  apply bytes_eqb_eq in E1, E2, E3. apply subs_eqb_eq in E4. apply files_eqb_eq in E5. congruence.
Qed.

Lemma heap_eqb_eq a b : heap_eqb a b = true -> a = b.
Proof.
  destruct a as [n1 r1 d1 x1], b as [n2 r2 d2 x2]. unfold heap_eqb. cbn. intros E.
  apply andb_true_iff in E as [E E4]. apply andb_true_iff in E as [E E3]. apply andb_true_iff in E as [E1 E2].
  apply Nat.eqb_eq in E2, E4. apply subs_eqb_eq in E3.
  assert (n1 = n2).
  { revert E1. apply list_eqb_eq. intros [i1 m1] [i2 m2] K. cbn in K. apply andb_true_iff in K as [K1 K2].
    apply Nat.eqb_eq in K1. apply hnode_eqb_eq in K2. congruence. }
  congruence.
Qed.

Lemma dthread_eqb_eq a b : dthread_eqb a b = true -> a = b.
Proof.
  destruct a as [l1 t1 de1 f1 dn1], b as [l2 t2 de2 f2 dn2]. unfold dthread_eqb. cbn. intros E.
  apply andb_true_iff in E as [E E5]. apply andb_true_iff in E as [E E4]. apply andb_true_iff in E as [E E3].
  apply andb_true_iff in E as [E1 E2].
  apply Bool.eqb_prop in E3, E4, E5.
  assert (t1 = t2).
  { destruct t1, t2; cbn in E2; try discriminate; auto. apply Nat.eqb_eq in E2. congruence. }
  assert (l1 = l2).
  { revert E1. apply list_eqb_eq. intros [i1 m1] [i2 m2] K. cbn in K. apply andb_true_iff in K as [K1 K2].
    apply Nat.eqb_eq in K1. destruct m1, m2; cbn in K2; try discriminate; [apply bytes_eqb_eq in K2|]; congruence. }
  congruence.
Qed.

Lemma pending_eqb_eq a b : pending_eqb a b = true -> a = b.
Proof.
  destruct a as [[[n1 c1] d1] r1], b as [[[n2 c2] d2] r2]. unfold pending_eqb. intros E.
  apply andb_true_iff in E as [E E4]. apply andb_true_iff in E as [E E3]. apply andb_true_iff in E as [E1 E2].
  apply bytes_eqb_eq in E1, E4. apply cnode_eqb_eq in E2. apply dmap_eqb_eq in E3. congruence.
Qed.

(** equality up to the trace *)
Definition with_trace (tr : list sys) (s : cstate) : cstate :=
  mkC (mkW (wfs (c_world s)) tr) (c_heap s) (c_threads s) (c_pending s) (c_lock s).

Lemma cstate_eqb_eq a b : cstate_eqb a b = true -> cforget a = cforget b.
Proof.
  destruct a as [[f1 t1] h1 th1 p1 k1], b as [[f2 t2] h2 th2 p2 k2]. unfold cstate_eqb, cforget. cbn. intros E.
  apply andb_true_iff in E as [E E5].
  apply andb_true_iff in E as [E E4]. apply andb_true_iff in E as [E E3]. apply andb_true_iff in E as [E1 E2].
  apply fnode_eqb_eq in E1. apply heap_eqb_eq in E2.
  assert (th1 = th2).
  { revert E3. apply list_eqb_eq. intros [i1 n1] [i2 n2] K. cbn in K. apply andb_true_iff in K as [K1 K2].
    apply Nat.eqb_eq in K1. apply dthread_eqb_eq in K2. congruence. }
  assert (p1 = p2).
  { revert E4. apply list_eqb_eq. intros [i1 n1] [i2 n2] K. cbn in K. apply andb_true_iff in K as [K1 K2].
    apply Nat.eqb_eq in K1. apply pending_eqb_eq in K2. congruence. }
  assert (k1 = k2).
  { destruct k1, k2; cbn in E5; try discriminate; auto. apply Nat.eqb_eq in E5. congruence. }
  congruence.
Qed.

Section Bounded.
Variable root : list byte.
Variable labels : list label.

Definition succs (s : cstate) : list cstate :=
  map (fun l => cforget (nstep root s l)) labels.

Fixpoint add_new (seen fresh : list cstate) (cands : list cstate) : list cstate * list cstate :=
  match cands with
  | [] => (seen, fresh)
  | c :: r => if existsb (cstate_eqb c) seen then add_new seen fresh r else add_new (seen ++ [c]) (fresh ++ [c]) r
  end.

Fixpoint bfs (fuel : nat) (seen frontier : list cstate) : list cstate :=
  match fuel with
  | O => seen
  | S f => match frontier with
           | [] => seen
           | _ => let '(seen', fresh) := add_new seen [] (flat_map succs frontier) in bfs f seen' fresh
           end
  end.

Definition reach (fuel : nat) : list cstate := let s0 := cforget (cinit root) in bfs fuel [s0] [s0].

Variable R : list cstate.

(** closure of R under every label, from any trace *)
Definition closed (tr : list sys) : bool :=
  forallb (fun s => forallb (fun l => existsb (cstate_eqb (nstep root (with_trace tr s) l)) R) labels) R.

(** every quiescent state of R is consistent: the catalog lists what a restart would list *)
Definition quiescent_ok : bool :=
  forallb (fun s => negb (all_done s)
                    || list_eqb (fun x y => bytes_eqb (tbk_of x) (tbk_of y)) (hlist (c_heap s)) (disk_list root (c_world s))) R.

Hypothesis Hclosed : forall tr, closed tr = true.
Hypothesis Hinit : existsb (cstate_eqb (cinit root)) R = true.
Hypothesis Hquiet : quiescent_ok = true.

Definition inR (s : cstate) : Prop := In (cforget s) R.

Lemma forget_R : forall s, In s R -> forall s', cstate_eqb s' s = true -> (forall x, In x R -> cforget x = x) -> inR s'.
Proof.
  intros s Hs s' E Hf. unfold inR. rewrite (cstate_eqb_eq _ _ E). rewrite Hf; auto.
Qed.

(** the states of R carry no trace *)
Hypothesis Hforget : forallb (fun s => match wtr (c_world s) with [] => true | _ => false end) R = true.

Lemma R_forget x : In x R -> cforget x = x.
Proof.
  intros H. rewrite forallb_forall in Hforget. specialize (Hforget x H).
  destruct x as [[f t] h th p k]. cbn in *. destruct t; [reflexivity|discriminate].
Qed.

Lemma existsb_inR s : existsb (cstate_eqb s) R = true -> inR s.
Proof.
  intros H. apply existsb_exists in H as (x & Hx & E). eapply forget_R; eauto. apply R_forget.
Qed.

Lemma step_inR s l : inR s -> In l labels -> inR (nstep root s l).
Proof.
  intros Hs Hl. pose proof (Hclosed (wtr (c_world s))) as C. unfold closed in C.
  rewrite forallb_forall in C. specialize (C _ Hs). rewrite forallb_forall in C. specialize (C l Hl).
  assert (W : with_trace (wtr (c_world s)) (cforget s) = s) by (destruct s as [[f t] h th p k]; reflexivity).
  rewrite W in C. apply existsb_inR. exact C.
Qed.

(** every schedule over the alphabet, of any length: a quiescent state is consistent *)
Theorem all_schedules_consistent : forall ls, Forall (fun l => In l labels) ls ->
  let st := run_labels root ls in
  all_done st = true -> map tbk_of (hlist (c_heap st)) = map tbk_of (disk_list root (c_world st)).
Proof.
  intros ls Hs. unfold run_labels.
  assert (G : forall ls s, inR s -> Forall (fun l => In l labels) ls -> inR (fold_left (nstep root) ls s)).
  { clear ls Hs. induction ls as [|l r IH]; intros s Hi Hk; cbn [fold_left]; auto.
    inversion Hk; subst. apply IH; auto. apply step_inR; auto. }
  specialize (G ls (cinit root) (existsb_inR _ Hinit) Hs). cbv zeta. set (st := fold_left (nstep root) ls (cinit root)) in *.
  intros Hd. unfold quiescent_ok in Hquiet. rewrite forallb_forall in Hquiet. specialize (Hquiet _ G).
  assert (A : all_done (cforget st) = all_done st) by (destruct st as [[f t] h th p k]; reflexivity).
  assert (B : disk_list root (c_world (cforget st)) = disk_list root (c_world st)) by (destruct st as [[f t] h th p k]; reflexivity).
  assert (Ch : c_heap (cforget st) = c_heap st) by (destruct st as [[f t] h th p k]; reflexivity).
  rewrite A, Hd, B, Ch in Hquiet. cbn [negb orb] in Hquiet.
  revert Hquiet. generalize (hlist (c_heap st)) (disk_list root (c_world st)).
  induction l as [|x l IH]; intros [|y l0] E; cbn in E; try discriminate; auto.
  apply andb_true_iff in E as [E1 E2]. apply bytes_eqb_eq in E1. cbn [map]. rewrite E1. f_equal. apply IH; auto.
Qed.
End Bounded.
