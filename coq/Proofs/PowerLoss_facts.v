(** Proofs/PowerLoss_facts.v — facts about the power-loss relation of Model/PowerLoss.v. *)
From Coq Require Import ZArith NArith List Bool Lia.
From Coq.Strings Require Import Byte.
Import ListNotations.
Require Import MS.Base.Res MS.Generated.Src_durab MS.Model.Wal MS.Model.Replay MS.Model.PowerLoss
  MS.Proofs.Durable_files MS.Proofs.Durable_exec MS.Proofs.Durable_recover MS.Proofs.Durable_sem
  MS.Proofs.Durable_crash MS.Proofs.Durable_steps3 MS.Proofs.Durable_props MS.Proofs.Durable_refute.
Local Open Scope Z_scope.

(** losing nothing = the process crash: C04's quantifier contains C01's *)
Lemma pl_from_nodrop rest : forall full i k, pl_from rest full i k (fun _ => false) = firstn (k - i) rest.
Proof.
  induction rest as [|e r IH]; intros full i k; [rewrite firstn_nil; reflexivity|].
  cbn [pl_from]. destruct (Nat.ltb_spec i k) as [H|H].
  - replace (k - i)%nat with (S (k - S i)) by lia. cbn [firstn andb app]. rewrite IH. reflexivity.
  - replace (k - i)%nat with 0%nat by lia. reflexivity.
Qed.

Theorem pl_img_process_crash tr k : pl_img tr k (fun _ => false) = crash_img tr k.
Proof. unfold pl_img, pl_events, crash_img. rewrite pl_from_nodrop, Nat.sub_0_r. reflexivity. Qed.

Lemma nth_error_firstn_in {A} (l : list A) n m x : nth_error l n = Some x -> (n < m)%nat -> In x (firstn m l).
Proof.
  revert n m; induction l as [|y l IH]; intros n m H Hlt; [destruct n; discriminate|].
  destruct m as [|m]; [lia|]. destruct n as [|n]; cbn in *.
  - inversion H. left. reflexivity.
  - right. eapply IH; [exact H|lia].
Qed.

Lemma nth_error_skipn {A} (l : list A) a b : nth_error (skipn a l) b = nth_error l (a + b).
Proof. revert l; induction a as [|a IH]; intros l; [reflexivity|]. destruct l; [destruct b; reflexivity|]. apply IH. Qed.

(** WAL durability: a record followed (before the crash) by an fsync of its file cannot be lost.  The flush
    appends its six records, fsyncs, and only then touches primary files and returns: an acknowledged
    transaction group is in the log of EVERY power-loss image. *)
Theorem fsynced_append_survives tr i j k w r :
  nth_error tr i = Some (EWalApp w r) -> nth_error tr j = Some (EWalFsync w) -> (i < j < k)%nat ->
  durable_at tr i k (EWalApp w r) = true.
Proof.
  intros Hi Hj Hlt. unfold durable_at. cbn [is_data_write negb orb].
  apply existsb_exists. exists (EWalFsync w). split; [|cbn; apply N.eqb_refl].
  apply (nth_error_firstn_in _ (j - S i)); [|lia].
  rewrite nth_error_skipn. replace (S i + (j - S i))%nat with j by lia. exact Hj.
Qed.

(** a primary write followed by a global sync (the checkpoint's) cannot be lost either *)
Theorem synced_write_survives tr i j k e :
  nth_error tr i = Some e -> nth_error tr j = Some ESync -> (i < j < k)%nat -> durable_at tr i k e = true.
Proof.
  intros Hi Hj Hlt. unfold durable_at. apply orb_true_iff. right.
  apply existsb_exists. exists ESync. split; [|reflexivity].
  apply (nth_error_firstn_in _ (j - S i)); [|lia].
  rewrite nth_error_skipn. replace (S i + (j - S i))%nat with j by lia. exact Hj.
Qed.

(** what survives is kept whatever the drop set says *)
Lemma pl_from_keeps rest : forall full i k drop n e,
  nth_error rest n = Some e -> (i + n < k)%nat -> durable_at full (i + n) k e = true ->
  In e (pl_from rest full i k drop).
Proof.
  induction rest as [|x r IH]; intros full i k drop n e Hn Hlt Hd; [destruct n; discriminate|].
  cbn [pl_from]. assert ((i <? k)%nat = true) as -> by (apply Nat.ltb_lt; lia).
  apply in_or_app. destruct n as [|n].
  - inversion Hn; subst. left. rewrite Nat.add_0_r in Hd. rewrite Hd. cbn [negb]. rewrite andb_false_r. left. reflexivity.
  - right. apply (IH full (S i) k drop n e Hn); [lia|]. replace (S i + n)%nat with (i + S n)%nat by lia. exact Hd.
Qed.

Theorem durable_event_kept tr k drop i e :
  nth_error tr i = Some e -> (i < k)%nat -> durable_at tr i k e = true -> In e (pl_events tr k drop).
Proof. intros. unfold pl_events. apply (pl_from_keeps tr tr 0 k drop i e); assumption. Qed.

(* ------------------------------------------------------------------ the full statement and its refutation *)

(** C04 as given: whatever un-synced data a power failure loses, start-up succeeds and every committed AND
    fsynced transaction group is visible. *)
Definition C04_full_stmt : Prop :=
  forall (clen : list record -> Z), (forall x, 0 < clen x) ->
  forall owner2 owner tgid0 sched tr k drop,
    owner <> 0 -> 0 < tgid0 ->
    run clen 0%N owner tgid0 sched = Ok tr -> wf_sched clen owner tgid0 sched = true ->
    (k <= length tr)%nat -> guard_crash tr k = true -> suffix_closed tr k drop = true ->
    snd (recover clen 1%N owner2 (pl_img tr k drop)) = StartOk.

(** the witness history (two acknowledged one-record requests to one variable interval), power failure after
    the last call, the second request's DATA block lost, its INDEX triple kept *)
Definition wit_drop (i : nat) : bool := Nat.eqb i 24.

Lemma wit_powerloss_fails :
  nth_error wit_trace 24 = Some (EVData 0%N 100000 17 [rec_b; rec_a])
  /\ durable_at wit_trace 24 27 (EVData 0%N 100000 17 [rec_b; rec_a]) = false
  /\ suffix_closed wit_trace 27 wit_drop = true
  /\ guard_crash wit_trace 27 = true
  /\ snd (recover clen0 1%N 2222 (pl_img wit_trace 27 wit_drop)) = StartError.
Proof. repeat split; vm_compute; reflexivity. Qed.

Lemma C04_full_refuted : ~ C04_full_stmt.
Proof.
  intros H. destruct wit_powerloss_fails as (_ & _ & Hs & Hg & Hf).
  assert (Hl : length wit_trace = 27%nat) by (vm_compute; reflexivity).
  specialize (H clen0 clen0_pos 2222 1111 1000 wit_sched wit_trace 27%nat wit_drop
                ltac:(lia) ltac:(lia) wit_run wit_wf ltac:(lia) Hg Hs).
  rewrite Hf in H. discriminate.
Qed.

(** the instance of the guarded statement in which nothing is lost *)
Lemma nothing_lost_recovers :
  forall (clen : list record -> Z), (forall x, 0 < clen x) ->
  forall owner2 owner tgid0 sched tr k,
    owner <> 0 -> 0 < tgid0 ->
    run clen 0%N owner tgid0 sched = Ok tr -> wf_sched clen owner tgid0 sched = true ->
    (k <= length tr)%nat -> guard_crash tr k = true ->
    snd (recover clen 1%N owner2 (pl_img tr k (fun _ => false))) = StartOk.
Proof.
  intros clen Hpos owner2 owner tgid0 sched tr k Hown Htg Hrun Hwf Hk Hg.
  rewrite pl_img_process_crash. eapply restart_and_queries_ok; eassumption.
Qed.
