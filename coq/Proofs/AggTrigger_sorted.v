(** Proofs about Model/AggTrigger.v, part 1: window arithmetic in seconds and the behaviour of the store,
    the union and the slice on series sorted by epoch. *)
From Coq Require Import ZArith Bool Lia List.
Import ListNotations.
Require Import MS.Base.GoInt MS.Base.Res MS.Base.F32 MS.Base.F64 MS.Model.Uda MS.Model.AggTrigger.
Local Open Scope Z_scope.

(** ------------------------------------------------------------------ window arithmetic *)
Lemma trunc_eq d t : 0 < d -> trunc_s d t = d * ((t + abs_epoch_s) / d) - abs_epoch_s.
Proof.
  intros H. unfold trunc_s. destruct (Z.leb_spec d 0); [lia|].
  pose proof (Z_div_mod_eq_full (t + abs_epoch_s) d). lia.
Qed.

Lemma trunc_le d t : trunc_s d t <= t.
Proof. unfold trunc_s. destruct (Z.leb_spec d 0); [lia|]. pose proof (Z.mod_pos_bound (t + abs_epoch_s) d). lia. Qed.

Lemma trunc_gt d t : 0 < d -> t < trunc_s d t + d.
Proof. intros H. unfold trunc_s. destruct (Z.leb_spec d 0); [lia|]. pose proof (Z.mod_pos_bound (t + abs_epoch_s) d). lia. Qed.

Lemma trunc_mono d t t' : t <= t' -> trunc_s d t <= trunc_s d t'.
Proof.
  intros H. destruct (Z_lt_le_dec 0 d) as [P|P].
  - rewrite !trunc_eq by exact P. assert ((t + abs_epoch_s) / d <= (t' + abs_epoch_s) / d) by (apply Z.div_le_mono; lia). nia.
  - unfold trunc_s. destruct (Z.leb_spec d 0); lia.
Qed.

Lemma trunc_idem d t : trunc_s d (trunc_s d t) = trunc_s d t.
Proof.
  destruct (Z_lt_le_dec 0 d) as [P|P].
  - rewrite (trunc_eq d t P). rewrite (trunc_eq d _ P). f_equal. f_equal.
    replace (d * ((t + abs_epoch_s) / d) - abs_epoch_s + abs_epoch_s) with ((t + abs_epoch_s) / d * d) by lia.
    rewrite Z_div_mult by lia. reflexivity.
  - unfold trunc_s. destruct (Z.leb_spec d 0); [reflexivity | lia].
Qed.

(** a time on the grid of d and at or below t is at or below the window start of t *)
Lemma trunc_ge_grid d t B : 0 < d -> trunc_s d B = B -> B <= t -> B <= trunc_s d t.
Proof. intros P G L. rewrite <- G. apply trunc_mono. exact L. Qed.

(** same window <-> between the window's bounds *)
Lemma trunc_same d t w : 0 < d -> trunc_s d w = w -> w <= t < w + d -> trunc_s d t = w.
Proof.
  intros P G [L U]. pose proof (trunc_ge_grid d t w P G L). pose proof (trunc_le d t).
  destruct (Z.eq_dec (trunc_s d t) w) as [E|E]; [exact E|]. exfalso.
  (* both on the grid and distinct: they differ by at least d *)
  rewrite (trunc_eq d t P) in *. rewrite (trunc_eq d w P) in G.
  assert (X : (w + abs_epoch_s) / d < (t + abs_epoch_s) / d) by nia. nia.
Qed.

(** nesting: the window of a coarser timeframe (a multiple) starts no later *)
Lemma trunc_nest d k t : 0 < d -> 0 < k -> trunc_s (k * d) (trunc_s d t) = trunc_s (k * d) t.
Proof.
  intros P K. assert (0 < k * d) by nia.
  rewrite (trunc_eq d t P), !(trunc_eq (k * d)) by assumption. f_equal. f_equal.
  replace (d * ((t + abs_epoch_s) / d) - abs_epoch_s + abs_epoch_s) with (d * ((t + abs_epoch_s) / d)) by lia.
  rewrite (Z.mul_comm k d), Z.div_mul_cancel_l by lia. rewrite Z.div_div by lia. reflexivity.
Qed.

Lemma trunc_coarse_le d k t : 0 < d -> 0 < k -> trunc_s (k * d) t <= trunc_s d t.
Proof. intros P K. rewrite <- (trunc_nest d k t P K). apply trunc_le. Qed.

(** the start of a coarse window lies on the fine grid *)
Lemma trunc_coarse_on_grid d k t : 0 < d -> 0 < k -> trunc_s d (trunc_s (k * d) t) = trunc_s (k * d) t.
Proof.
  intros P K. assert (Q : 0 < k * d) by nia. rewrite (trunc_eq (k * d) t Q). rewrite (trunc_eq d _ P).
  replace (k * d * ((t + abs_epoch_s) / (k * d)) - abs_epoch_s + abs_epoch_s) with ((k * ((t + abs_epoch_s) / (k * d))) * d) by lia.
  rewrite Z_div_mult by lia. lia.
Qed.

(** times aligned to a common unit u that divides d: the exclusive slice end  Ceil(tail) - 1  is beyond tail *)
Lemma ceil_beyond d u t : 1 < u -> (u | d) -> (u | abs_epoch_s) -> (u | t) -> 0 < d -> t < ceil_s d t - 1.
Proof.
  intros U1 [a Da] [b Db] [c Dc] P. unfold ceil_s. rewrite (trunc_eq d _ P).
  pose proof (trunc_gt d (t + d) P) as G. rewrite (trunc_eq d _ P) in G.
  (* ceil - t is a positive multiple of u *)
  set (q := (t + d + abs_epoch_s) / d) in *.
  assert (E : d * q - abs_epoch_s - t = (a * q - b - c) * u) by (rewrite Da, Db, Dc; ring).
  assert (0 < (a * q - b - c) * u) by lia. assert (0 < a * q - b - c) by nia. nia.
Qed.

(** ------------------------------------------------------------------ sorted series *)
Fixpoint sorted (l : list bar5) : Prop :=
  match l with
  | a :: ((b :: _) as r) => e5 a < e5 b /\ sorted r
  | _ => True
  end.

Lemma sorted_tail a l : sorted (a :: l) -> sorted l.
Proof. destruct l; cbn [sorted]; [auto | intros [_ H]; exact H]. Qed.

Lemma sorted_head_lt a l : sorted (a :: l) -> forall x, In x l -> e5 a < e5 x.
Proof.
  revert a. induction l as [|b r IH]; intros a H x I; [destruct I|].
  cbn [sorted] in H. destruct H as [H1 H2]. destruct I as [E|I]; [subst; exact H1|].
  specialize (IH b H2 x I). lia.
Qed.

Lemma sorted_cons a l : sorted l -> (forall x, In x l -> e5 a < e5 x) -> sorted (a :: l).
Proof. destruct l as [|b r]; cbn [sorted]; [auto|]. intros H F. split; [apply F; left; reflexivity | exact H]. Qed.

Lemma sorted_app l1 l2 : sorted l1 -> sorted l2 -> (forall x y, In x l1 -> In y l2 -> e5 x < e5 y) -> sorted (l1 ++ l2).
Proof.
  induction l1 as [|a l1 IH]; intros S1 S2 F; cbn [app]; [exact S2|].
  apply sorted_cons.
  - apply IH; [apply (sorted_tail a), S1 | exact S2 | intros x y Ix Iy; apply F; [right; exact Ix | exact Iy]].
  - intros x I. apply in_app_or in I. destruct I as [I|I]; [apply (sorted_head_lt a l1 S1 x I) | apply F; [left; reflexivity | exact I]].
Qed.

Lemma sorted_app_inv l1 l2 : sorted (l1 ++ l2) -> sorted l1 /\ sorted l2 /\ forall x y, In x l1 -> In y l2 -> e5 x < e5 y.
Proof.
  induction l1 as [|a l1 IH]; cbn [app]; intros S.
  - repeat split; auto. intros x y [].
  - destruct (IH (sorted_tail _ _ S)) as (S1 & S2 & F). repeat split; auto.
    + apply sorted_cons; [exact S1|]. intros x I. apply (sorted_head_lt a _ S). apply in_or_app. left. exact I.
    + intros x y [E|Ix] Iy; [subst x; apply (sorted_head_lt a _ S); apply in_or_app; right; exact Iy | apply F; assumption].
Qed.

(** ------------------------------------------------------------------ the store *)
Lemma put_snoc s b : (forall x, In x s -> e5 x < e5 b) -> put s b = s ++ [b].
Proof.
  induction s as [|x r IH]; intros F; cbn [put app]; [reflexivity|].
  pose proof (F x (or_introl eq_refl)). destruct (Z.ltb_spec (e5 b) (e5 x)); [lia|].
  destruct (Z.eqb_spec (e5 b) (e5 x)); [lia|]. rewrite IH; [reflexivity | intros y I; apply F; right; exact I].
Qed.

Lemma put_all_append s w : sorted w -> (forall x y, In x s -> In y w -> e5 x < e5 y) -> put_all s w = s ++ w.
Proof.
  revert s. induction w as [|b w IH]; intros s S F; cbn [put_all fold_left]; [rewrite app_nil_r; reflexivity|].
  fold (put_all (put s b) w). rewrite put_snoc by (intros x I; apply F; [exact I | left; reflexivity]).
  rewrite IH.
  - rewrite <- app_assoc. reflexivity.
  - apply (sorted_tail b), S.
  - intros x y Ix Iy. apply in_app_or in Ix. destruct Ix as [Ix|[E|[]]].
    + apply F; [exact Ix | right; exact Iy].
    + subst x. apply (sorted_head_lt b w S y Iy).
Qed.

(** inserting a sorted series below an existing one *)
Lemma put_middle pre w c : (forall x, In x pre -> e5 x < e5 c) -> (forall y, In y w -> e5 c < e5 y) ->
  put (pre ++ w) c = (pre ++ [c]) ++ w.
Proof.
  induction pre as [|x pre IH]; intros F G; cbn [app put].
  - destruct w as [|y w]; cbn [put]; [reflexivity|].
    pose proof (G y (or_introl eq_refl)). destruct (Z.ltb_spec (e5 c) (e5 y)); [reflexivity | lia].
  - pose proof (F x (or_introl eq_refl)). destruct (Z.ltb_spec (e5 c) (e5 x)); [lia|].
    destruct (Z.eqb_spec (e5 c) (e5 x)); [lia|]. rewrite IH; [reflexivity | intros y I; apply F; right; exact I | exact G].
Qed.

Lemma put_all_below pre w cs : sorted cs -> (forall x y, In x pre -> In y cs -> e5 x < e5 y) ->
  (forall x y, In x cs -> In y w -> e5 x < e5 y) -> put_all (pre ++ w) cs = (pre ++ cs) ++ w.
Proof.
  revert pre. induction cs as [|c cs IH]; intros pre S F G; cbn [put_all fold_left]; [rewrite app_nil_r; reflexivity|].
  fold (put_all (put (pre ++ w) c) cs).
  rewrite put_middle; [| intros x I; apply F; [exact I | left; reflexivity] | intros y I; apply G; [left; reflexivity | exact I]].
  rewrite IH.
  - rewrite <- !app_assoc. reflexivity.
  - apply (sorted_tail c), S.
  - intros x y Ix Iy. apply in_app_or in Ix. destruct Ix as [Ix|[E|[]]];
      [apply F; [exact Ix | right; exact Iy] | subst x; apply (sorted_head_lt c cs S y Iy)].
  - intros x y Ix Iy. apply G; [right; exact Ix | exact Iy].
Qed.

(** ColumnSeriesUnion(new records, cached) when every new record is later than every cached one *)
Lemma union_later w ccs : sorted w -> sorted ccs -> (forall x y, In x ccs -> In y w -> e5 x < e5 y) ->
  union w ccs = ccs ++ w.
Proof.
  intros Sw Sc F. unfold union. rewrite (put_all_append [] w Sw) by (intros x y []). cbn [app].
  apply (put_all_below [] w ccs Sc); [intros x y [] | exact F].
Qed.

(** ------------------------------------------------------------------ suffixes of a sorted series *)
Definition from (S : Z) (l : list bar5) : list bar5 := filter (fun b => S <=? e5 b) l.
Definition before (S : Z) (l : list bar5) : list bar5 := filter (fun b => e5 b <? S) l.

Lemma from_all S l : (forall x, In x l -> S <= e5 x) -> from S l = l.
Proof.
  induction l as [|a l IH]; intros F; cbn [from filter]; [reflexivity|].
  pose proof (F a (or_introl eq_refl)). destruct (Z.leb_spec S (e5 a)); [|lia].
  f_equal. apply IH. intros x I. apply F. right. exact I.
Qed.

Lemma from_none S l : (forall x, In x l -> e5 x < S) -> from S l = [].
Proof.
  induction l as [|a l IH]; intros F; cbn [from filter]; [reflexivity|].
  pose proof (F a (or_introl eq_refl)). destruct (Z.leb_spec S (e5 a)); [lia|]. apply IH. intros x I. apply F. right. exact I.
Qed.

Lemma from_app S l1 l2 : from S (l1 ++ l2) = from S l1 ++ from S l2.
Proof. apply filter_app. Qed.

Lemma before_app S l1 l2 : before S (l1 ++ l2) = before S l1 ++ before S l2.
Proof. apply filter_app. Qed.

Lemma before_all S l : (forall x, In x l -> e5 x < S) -> before S l = l.
Proof.
  induction l as [|a l IH]; intros F; cbn [before filter]; [reflexivity|].
  pose proof (F a (or_introl eq_refl)). destruct (Z.ltb_spec (e5 a) S); [|lia].
  f_equal. apply IH. intros x I. apply F. right. exact I.
Qed.

Lemma before_none S l : (forall x, In x l -> S <= e5 x) -> before S l = [].
Proof.
  induction l as [|a l IH]; intros F; cbn [before filter]; [reflexivity|].
  pose proof (F a (or_introl eq_refl)). destruct (Z.ltb_spec (e5 a) S); [lia|]. apply IH. intros x I. apply F. right. exact I.
Qed.

Lemma split_at S l : sorted l -> l = before S l ++ from S l.
Proof.
  induction l as [|a l IH]; intros H; [reflexivity|]. cbn [before from filter].
  destruct (Z.ltb_spec (e5 a) S) as [L|L]; destruct (Z.leb_spec S (e5 a)) as [L'|L']; try lia.
  - cbn [app]. f_equal. apply IH, (sorted_tail a), H.
  - (* a >= S: everything after is >= S *)
    assert (F : forall x, In x l -> S <= e5 x) by (intros x I; pose proof (sorted_head_lt a l H x I); lia).
    fold (before S l). fold (from S l). rewrite (before_none S l F), (from_all S l F). reflexivity.
Qed.

Lemma from_sorted S l : sorted l -> sorted (from S l).
Proof.
  induction l as [|a l IH]; intros H; cbn [from filter]; [exact I|].
  destruct (S <=? e5 a); [|apply IH, (sorted_tail a), H].
  apply sorted_cons; [apply IH, (sorted_tail a), H|].
  intros x Ix. apply filter_In in Ix. apply (sorted_head_lt a l H), Ix.
Qed.

Lemma from_from S T l : S <= T -> from T (from S l) = from T l.
Proof.
  intros L. unfold from. induction l as [|a l IH]; cbn [filter]; [reflexivity|].
  destruct (Z.leb_spec S (e5 a)); cbn [filter]; destruct (Z.leb_spec T (e5 a)); try lia; rewrite IH; reflexivity.
Qed.

(** ------------------------------------------------------------------ query and slice on sorted series *)
Lemma query_from s S E : (forall x, In x s -> e5 x <= E) -> query s S E = from S s.
Proof.
  intros F. unfold query, from. apply filter_ext_in. intros b I. pose proof (F b I).
  destruct (Z.leb_spec (e5 b) E); [apply andb_true_r | lia].
Qed.

Lemma drop_until_from S l : sorted l -> (exists x, In x l /\ S <= e5 x) -> drop_until S l = Some (from S l).
Proof.
  induction l as [|a l IH]; intros H (x & I & L); [destruct I|]. cbn [drop_until from filter].
  destruct (Z.leb_spec S (e5 a)) as [La|La].
  - f_equal. f_equal. symmetry. apply from_all. intros y Iy. pose proof (sorted_head_lt a l H y Iy). lia.
  - destruct I as [E|I]; [subst; lia|]. apply IH; [apply (sorted_tail a), H | eauto].
Qed.

Lemma keep_upto_all E l : l <> [] -> (forall x, In x l -> e5 x < E) -> keep_upto E l = Some l.
Proof.
  induction l as [|a l IH]; intros N F; [congruence|]. cbn [keep_upto].
  destruct l as [|b r].
  - cbn [keep_upto]. pose proof (F a (or_introl eq_refl)). destruct (Z.ltb_spec (e5 a) E); [reflexivity | lia].
  - rewrite IH; [reflexivity | discriminate | intros x I; apply F; right; exact I].
Qed.

(** SliceColumnSeriesByEpoch on a sorted series that has a row at or after [start] and none at or after [end] *)
Lemma slice_from cs S E : sorted cs -> (exists x, In x cs /\ S <= e5 x) -> (forall x, In x cs -> e5 x < E) ->
  slice_by_epoch cs S E = from S cs.
Proof.
  intros H Ex F. unfold slice_by_epoch. rewrite (drop_until_from S cs H Ex).
  rewrite keep_upto_all; [reflexivity | |].
  - destruct Ex as (x & I & L). intro Z. assert (I' : In x (from S cs)) by (apply filter_In; split; [exact I | apply Z.leb_le; exact L]).
    rewrite Z in I'. destruct I'.
  - intros x I. apply filter_In in I. apply F, I.
Qed.
