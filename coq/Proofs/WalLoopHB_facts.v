(** Race freedom of the flush protocol's flags once every access is a critical section of one mutex:
    for EVERY label sequence, [races true access nw ls = []]. *)
From Coq Require Import List Arith Bool Lia.
Import ListNotations.
Require Import MS.Model.WalLoop MS.Model.WalLoopHB.

Lemma flat_map_nil : forall A B (f : A -> list B) l, (forall x, In x l -> f x = []) -> flat_map f l = [].
Proof.
  induction l as [|a r IH]; intros H; cbn; auto. rewrite (H a (or_introl eq_refl)). apply IH.
  intros x Hx. apply H. right. exact Hx.
Qed.

Lemma hb_from_spec : forall mx nw src rest reached,
  exists tail, hb_from mx nw src rest reached = map snd reached ++ tail /\ length tail = length rest /\
    forall k l, nth_error rest k = Some l -> edge mx src l nw = true -> nth k tail false = true.
Proof.
  induction rest as [|l0 r IH]; intros reached; cbn.
  - exists []. rewrite app_nil_r. repeat split; auto. intros k l H. destruct k; discriminate.
  - destruct (IH (reached ++ [(l0, edge mx src l0 nw || existsb (fun p => snd p && edge mx (fst p) l0 nw) reached)]))
      as [tail [E [Hl Hk]]].
    exists ((edge mx src l0 nw || existsb (fun p => snd p && edge mx (fst p) l0 nw) reached) :: tail).
    split; [|split].
    + rewrite E, map_app, <- app_assoc. reflexivity.
    + cbn. rewrite Hl. reflexivity.
    + intros k l H He. destruct k; cbn in *.
      * inversion H; subst. rewrite He. reflexivity.
      * eapply Hk; eauto.
Qed.

Lemma skipn_nth_split : forall (ls : list label) i src rest d,
  skipn i ls = src :: rest -> nth i ls d = src /\ forall k, nth (i + 1 + k) ls d = nth k rest d.
Proof.
  induction ls as [|a r IH]; intros i src rest d H.
  - destruct i; discriminate.
  - destruct i; cbn in H.
    + inversion H; subst. split; auto.
    + destruct (IH i src rest d H) as [H1 H2]. split; auto.
Qed.

Lemma conflicting_some : forall a b, conflicting a b = true -> a <> None /\ b <> None.
Proof. intros [[]|] [[]|] H; cbn in H; try discriminate; split; discriminate. Qed.

Theorem mutexed_race_free : forall (access : label -> option acc) nw ls,
  (forall l, access l <> None -> flag_access l = true) -> races true access nw ls = [].
Proof.
  intros access nw ls Hacc. unfold races. apply flat_map_nil. intros i _.
  unfold hb_row. destruct (skipn i ls) as [|src rest] eqn:Es; [reflexivity|].
  destruct (hb_from_spec true nw src rest []) as [tail [E [Hl Hk]]]. cbn in E. rewrite E.
  destruct (skipn_nth_split ls i src rest LCkpt Es) as [Hi Hj].
  apply flat_map_nil. intros k Hkin. apply in_seq in Hkin. rewrite Hi, Hj.
  destruct (conflicting (access src) (access (nth k rest LCkpt))) eqn:Ec; [|reflexivity].
  apply conflicting_some in Ec as [C1 C2].
  assert (Hn : nth_error rest k = Some (nth k rest LCkpt)) by (apply nth_error_nth'; lia).
  rewrite (Hk k _ Hn).
  - rewrite andb_false_r. reflexivity.
  - unfold edge. rewrite (Hacc _ C1), (Hacc _ C2). cbn. rewrite !orb_true_r. reflexivity.
Qed.

Lemma have_access_flag : forall l, have_access l <> None -> flag_access l = true.
Proof. intros l H. unfold flag_access. destruct (have_access l); [reflexivity | congruence]. Qed.
Lemma shut_access_flag : forall l, shut_access l <> None -> flag_access l = true.
Proof. intros l H. unfold flag_access. destruct (have_access l); [reflexivity|]. destruct (shut_access l); [reflexivity | congruence]. Qed.

(** Clause (b) of C18 for the code after the fix of F18: no schedule has two conflicting accesses to
    haveWALWriter or *shutdownPending that are not ordered. *)
Theorem flags_race_free : forall nw ls,
  races true have_access nw ls = [] /\ races true shut_access nw ls = [].
Proof.
  intros. split; apply mutexed_race_free; [apply have_access_flag | apply shut_access_flag].
Qed.
