(** Facts about Model/Csv.v: the chunked import loads exactly the rows of the file (property C33). *)
From Coq Require Import String ZArith NArith List Bool Lia Arith.
From Coq.Strings Require Import Byte.
Import ListNotations.
Require Import MS.Base.GoInt MS.Base.Res MS.Base.Hex MS.Base.Bytes MS.Generated.Src_io MS.Model.Csv.

Section Facts.
  Variable pf : Z -> list byte -> option (list byte).
  Variable c : cfg.

  Notation time_of := (time_of c).
  Notation conv_cols := (conv_cols pf c).
  Notation conv_chunk := (conv_chunk pf c).
  Notation conv_spec := (conv_spec pf c).
  Notation load_loop := (load_loop pf c).

  (** * mapM *)
  Lemma mapM_app {A B} (f : A -> option B) a b x y :
    mapM f a = Some x -> mapM f b = Some y -> mapM f (a ++ b) = Some (x ++ y).
  Proof.
    revert x; induction a as [|h a IH]; intros x Ha Hb; cbn in *.
    - inversion Ha; subst. exact Hb.
    - destruct (f h); [|discriminate]. destruct (mapM f a) eqn:E; [|discriminate].
      inversion Ha; subst. rewrite (IH l eq_refl Hb). reflexivity.
  Qed.

  Lemma mapM_total {A B} (f : A -> option B) l :
    forallb (fun x => match f x with Some _ => true | None => false end) l = true -> exists ys, mapM f l = Some ys.
  Proof.
    induction l as [|h l IH]; cbn; intros H; [eexists; reflexivity|].
    apply andb_prop in H as [H1 H2]. destruct (f h); [|discriminate].
    destruct (IH H2) as (ys & ->). eexists; reflexivity.
  Qed.

  (** columns of two consecutive chunks *)
  Lemma cols_app (g : Z * nat -> row -> option (list byte)) a b : forall cols xs ys,
    mapM (fun p => mapM (g p) a) cols = Some xs -> mapM (fun p => mapM (g p) b) cols = Some ys ->
    mapM (fun p => mapM (g p) (a ++ b)) cols = Some (zip_app xs ys).
  Proof.
    induction cols as [|p cols IH]; intros xs ys Ha Hb; cbn in *.
    - inversion Ha; inversion Hb; subst. reflexivity.
    - destruct (mapM (g p) a) as [xa|] eqn:Ea; [|discriminate].
      destruct (mapM (fun p0 => mapM (g p0) a) cols) as [xr|] eqn:Ear; [|discriminate].
      destruct (mapM (g p) b) as [yb|] eqn:Eb; [|discriminate].
      destruct (mapM (fun p0 => mapM (g p0) b) cols) as [yr|] eqn:Ebr; [|discriminate].
      inversion Ha; inversion Hb; subst.
      rewrite (mapM_app _ _ _ _ _ Ea Eb), (IH xr yr eq_refl eq_refl). reflexivity.
  Qed.

  Lemma conv_spec_app a b x y :
    conv_spec a = Some x -> conv_spec b = Some y -> conv_spec (a ++ b) = Some (ds_app x y).
  Proof.
    unfold Csv.conv_spec, Csv.conv_cols. intros Ha Hb.
    destruct (mapM time_of a) as [ta|] eqn:Eta; [|discriminate].
    destruct (mapM (fun p => mapM (cell_of pf (fst p) (snd p)) a) (used_cols c)) as [ca|] eqn:Eca; [|discriminate].
    destruct (mapM time_of b) as [tb|] eqn:Etb; [|discriminate].
    destruct (mapM (fun p => mapM (cell_of pf (fst p) (snd p)) b) (used_cols c)) as [cb|] eqn:Ecb; [|discriminate].
    inversion Ha; inversion Hb; subst.
    rewrite (mapM_app _ _ _ _ _ Eta Etb).
    rewrite (cols_app (fun p => cell_of pf (fst p) (snd p)) a b _ _ _ Eca Ecb). reflexivity.
  Qed.

  Lemma conv_chunk_spec rows d : conv_chunk rows = Ok d -> conv_spec rows = Some d.
  Proof.
    unfold Csv.conv_chunk, Csv.conv_spec. destruct (mapM time_of rows); [|discriminate].
    destruct (conv_cols rows); [|discriminate]. destruct (wire_ok c); [|discriminate].
    intros H; inversion H; reflexivity.
  Qed.

  Lemma conv_spec_nil : conv_spec [] = Some (ds_empty c).
  Proof.
    unfold Csv.conv_spec, Csv.conv_cols, ds_empty. cbn [mapM].
    induction (used_cols c) as [|p l IH]; [reflexivity|].
    cbn [mapM map] in *. destruct (mapM (fun p0 => Some []) l) eqn:E; [|discriminate].
    inversion IH; subst. reflexivity.
  Qed.

  (** * the read loop *)
  Lemma read_chunk_spec : forall n evs rows rest e,
    read_chunk evs n = Ok (rows, rest, e) ->
    rows_of evs = rows ++ rows_of rest /\ length rest <= length evs /\ no_err evs = no_err rest
    /\ (e = true -> rest = []) /\ (rows = [] -> 1 <= n -> evs = [])
    /\ (rows <> [] -> length rest < length evs).
  Proof.
    induction n as [|n IH]; intros evs rows rest e H; cbn in H.
    - inversion H; subst. repeat split; try reflexivity; try lia; try discriminate. intros F; contradiction.
    - destruct evs as [|[r|] evs'].
      + inversion H; subst. repeat split; auto. intros F; contradiction.
      + destruct (read_chunk evs' n) as [[[rows' rest'] e']| |] eqn:E; cbn in H; try discriminate.
        inversion H; subst. destruct (IH _ _ _ _ E) as (H1 & H2 & H3 & H4 & H5 & H6).
        repeat split; try assumption; try discriminate.
        * cbn. rewrite H1. reflexivity.
        * cbn. lia.
        * intros _. cbn. lia.
      + discriminate.
  Qed.

  Lemma read_chunk_total : forall n evs, no_err evs = true -> exists x, read_chunk evs n = Ok x.
  Proof.
    induction n as [|n IH]; intros evs Hne; cbn; [eexists; reflexivity|].
    destruct evs as [|[r|] evs']; [eexists; reflexivity| |discriminate].
    cbn in Hne. destruct (IH evs' Hne) as ([[rows rest] e] & ->). cbn. eexists; reflexivity.
  Qed.

  Lemma read_chunk_not_panic : forall n evs, read_chunk evs n <> Panic.
  Proof.
    induction n as [|n IH]; intros evs; cbn; [discriminate|].
    destruct evs as [|[r|] evs']; try discriminate.
    specialize (IH evs'). destruct (read_chunk evs' n) as [[[rows rest] e]| |]; cbn; try discriminate. contradiction.
  Qed.

  (** * soundness of the chunk loop: success means no read error occurred and every row was loaded *)
  Lemma load_loop_sound : forall fuel evs acc done d,
    1 <= c_chunk c -> length evs < fuel ->
    conv_spec done = Some acc -> load_loop fuel evs acc = Loaded d ->
    no_err evs = true /\ conv_spec (done ++ rows_of evs) = Some d.
  Proof.
    induction fuel as [|fuel IH]; intros evs acc done d Hc Hf Hacc Hl; [lia|].
    cbn [Csv.load_loop] in Hl.
    destruct (read_chunk evs (c_chunk c)) as [[[rows rest] e]| |] eqn:E; try discriminate.
    destruct (read_chunk_spec _ _ _ _ _ E) as (Hrows & _ & Hne & Hend & Hnil & Hlt).
    destruct rows as [|r rows].
    - inversion Hl; subst. rewrite (Hnil eq_refl Hc). cbn. rewrite app_nil_r. split; [reflexivity|exact Hacc].
    - destruct (conv_chunk (r :: rows)) as [dd| |] eqn:Ec; try discriminate.
      apply conv_chunk_spec in Ec.
      pose proof (conv_spec_app _ _ _ _ Hacc Ec) as Happ.
      destruct e.
      + inversion Hl; subst. rewrite Hne, Hrows, (Hend eq_refl). cbn [rows_of no_err forallb]. rewrite app_nil_r.
        split; [reflexivity|exact Happ].
      + assert (Hlen : length rest < length evs) by (apply Hlt; discriminate).
        destruct (IH rest (ds_app acc dd) (done ++ r :: rows) d Hc ltac:(lia) Happ Hl) as [H1 H2].
        split; [rewrite Hne; exact H1|]. rewrite Hrows, app_assoc. exact H2.
  Qed.

  Theorem load_sound evs d :
    1 <= c_chunk c -> load pf c evs = Loaded d -> all_loaded pf c evs d.
  Proof.
    intros Hc Hl. unfold load in Hl.
    apply (load_loop_sound _ _ _ [] _ Hc (Nat.lt_succ_diag_r _) conv_spec_nil Hl).
  Qed.

  (** * the import never crashes *)
  Lemma conv_chunk_not_panic rows : conv_chunk rows <> Panic.
  Proof.
    unfold Csv.conv_chunk. destruct (mapM time_of rows); [|discriminate].
    destruct (conv_cols rows); [|discriminate]. destruct (wire_ok c); discriminate.
  Qed.

  Lemma load_loop_no_crash : forall fuel evs acc, load_loop fuel evs acc <> Crash.
  Proof.
    induction fuel as [|fuel IH]; intros evs acc; cbn [Csv.load_loop]; [discriminate|].
    pose proof (read_chunk_not_panic (c_chunk c) evs) as Hp.
    destruct (read_chunk evs (c_chunk c)) as [[[rows rest] e]| |]; try discriminate; [|contradiction].
    destruct rows as [|r rows]; [discriminate|].
    pose proof (conv_chunk_not_panic (r :: rows)) as Hq.
    destruct (conv_chunk (r :: rows)); try discriminate; [|contradiction].
    destruct e; [discriminate|apply IH].
  Qed.

  Theorem load_no_crash evs : load pf c evs <> Crash.
  Proof. unfold load. apply load_loop_no_crash. Qed.

  (** a read error anywhere in the file is reported *)
  Theorem load_reports_read_error evs :
    1 <= c_chunk c -> no_err evs = false -> load pf c evs = Error.
  Proof.
    intros Hc Hne. destruct (load pf c evs) as [d| |] eqn:E; [|reflexivity|].
    - destruct (load_sound evs d Hc E) as [H _]. congruence.
    - exfalso. exact (load_no_crash evs E).
  Qed.

  (** * completeness: a file whose every row converts is loaded, whatever the chunk size *)
  Lemma mapM_app_inv {A B} (f : A -> option B) a b z :
    mapM f (a ++ b) = Some z -> exists x y, mapM f a = Some x /\ mapM f b = Some y /\ z = x ++ y.
  Proof.
    revert z; induction a as [|h a IH]; intros z H; cbn in *.
    - exists [], z. auto.
    - destruct (f h); [|discriminate]. destruct (mapM f (a ++ b)) eqn:E; [|discriminate].
      inversion H; subst. destruct (IH _ eq_refl) as (x & y & -> & Hy & ->).
      exists (b0 :: x), y. auto.
  Qed.

  Lemma cols_app_inv (g : Z * nat -> row -> option (list byte)) a b : forall cols zs,
    mapM (fun p => mapM (g p) (a ++ b)) cols = Some zs ->
    exists xs ys, mapM (fun p => mapM (g p) a) cols = Some xs /\ mapM (fun p => mapM (g p) b) cols = Some ys
                  /\ zs = zip_app xs ys.
  Proof.
    induction cols as [|p cols IH]; intros zs H; cbn in *.
    - inversion H; subst. exists [], []. auto.
    - destruct (mapM (g p) (a ++ b)) as [z|] eqn:Ez; [|discriminate].
      destruct (mapM (fun p0 => mapM (g p0) (a ++ b)) cols) as [zr|] eqn:Ezr; [|discriminate].
      inversion H; subst.
      destruct (mapM_app_inv _ _ _ _ Ez) as (x & y & -> & -> & ->).
      destruct (IH _ eq_refl) as (xs & ys & -> & -> & ->).
      exists (x :: xs), (y :: ys). auto.
  Qed.

  Lemma conv_spec_app_inv a b d :
    conv_spec (a ++ b) = Some d -> exists x y, conv_spec a = Some x /\ conv_spec b = Some y /\ d = ds_app x y.
  Proof.
    unfold Csv.conv_spec, Csv.conv_cols. intros H.
    destruct (mapM time_of (a ++ b)) as [t|] eqn:Et; [|discriminate].
    destruct (mapM (fun p => mapM (cell_of pf (fst p) (snd p)) (a ++ b)) (used_cols c)) as [cs|] eqn:Ec; [|discriminate].
    inversion H; subst.
    destruct (mapM_app_inv _ _ _ _ Et) as (ta & tb & -> & -> & ->).
    destruct (cols_app_inv (fun p => cell_of pf (fst p) (snd p)) a b _ _ Ec) as (ca & cb & -> & -> & ->).
    eexists; eexists. split; [reflexivity|]. split; reflexivity.
  Qed.

  Lemma conv_chunk_of_spec rows d : wire_ok c = true -> conv_spec rows = Some d -> conv_chunk rows = Ok d.
  Proof.
    unfold Csv.conv_chunk, Csv.conv_spec. intros Hw. destruct (mapM time_of rows); [|discriminate].
    destruct (conv_cols rows); [|discriminate]. rewrite Hw. intros H; inversion H; reflexivity.
  Qed.

  Lemma load_loop_complete : forall fuel evs acc done d,
    1 <= c_chunk c -> wire_ok c = true -> no_err evs = true -> length evs < fuel ->
    conv_spec done = Some acc -> conv_spec (done ++ rows_of evs) = Some d ->
    load_loop fuel evs acc = Loaded d.
  Proof.
    induction fuel as [|fuel IH]; intros evs acc done d Hc Hw Hne Hf Hacc Hd; [lia|].
    cbn [Csv.load_loop].
    destruct (read_chunk_total (c_chunk c) evs Hne) as ([[rows rest] e] & E). rewrite E.
    destruct (read_chunk_spec _ _ _ _ _ E) as (Hrows & _ & Hne0 & Hend & Hnil & Hlt).
    assert (Hne' : no_err rest = true) by congruence.
    destruct rows as [|r rows].
    - rewrite (Hnil eq_refl Hc) in Hd. cbn in Hd. rewrite app_nil_r in Hd. congruence.
    - rewrite Hrows, app_assoc in Hd.
      destruct (conv_spec_app_inv _ _ _ Hd) as (x & y & Hx & Hy & ->).
      destruct (conv_spec_app_inv _ _ _ Hx) as (x1 & dd & Hx1 & Hdd & ->).
      rewrite (conv_chunk_of_spec _ _ Hw Hdd).
      assert (x1 = acc) by congruence. subst x1.
      destruct e.
      + rewrite (Hend eq_refl) in Hd. cbn [rows_of] in Hd. rewrite app_nil_r in Hd.
        rewrite (conv_spec_app _ _ _ _ Hacc Hdd) in Hd. congruence.
      + assert (length rest < length evs) by (apply Hlt; discriminate).
        apply (IH rest (ds_app acc dd) (done ++ r :: rows)); try assumption; try lia.
        all: try (apply conv_spec_app; assumption).
  Qed.

  Theorem load_complete evs d :
    1 <= c_chunk c -> wire_ok c = true -> no_err evs = true -> conv_spec (rows_of evs) = Some d ->
    load pf c evs = Loaded d.
  Proof.
    intros Hc Hw Hne Hd. unfold load.
    apply (load_loop_complete _ _ _ [] _ Hc Hw Hne (Nat.lt_succ_diag_r _) conv_spec_nil Hd).
  Qed.
End Facts.
