(** C11, end to end: on well-formed file states and sane bounds the plan of NewIOPlan selects exactly
    the slots whose interval start lies in [interval_start(start), end]; hence the fixed-length read
    is the range filter of all rows, and the variable-length read (inside the F11 guard) is the
    full-precision range filter of all records. *)
From Coq Require Import ZArith List Bool Lia Sorting.Sorted.
From Coq.Strings Require Import Byte.
Import ListNotations.
Require Import MS.Base.GoInt MS.Base.Res MS.Base.Hex MS.Base.Bytes MS.Base.Civil
               MS.Generated.Src_query MS.Model.QTime MS.Model.Trim MS.Model.RangeRead MS.Model.RangeSpec
               MS.Proofs.QTime_facts MS.Proofs.Trim_facts.
Local Open Scope Z_scope.

(* ------------------------------------------------------------------ arithmetic helpers *)

Lemma mul_le_cancel_r a b r : 0 < r -> (a * r <= b * r <-> a <= b).
Proof. intros Hr. split; intros H; nia. Qed.

Lemma mul_lt_step a b r : 0 < r -> a < b -> a * r + r <= b * r.
Proof. intros Hr H. nia. Qed.

Lemma div_mul_bracket a tf : 0 < tf -> a / tf * tf <= a < a / tf * tf + tf.
Proof. intros H. Z.div_mod_to_equations. nia. Qed.

(** k <= a / tf  <->  k * tf <= a *)
Lemma le_div_iff a k tf : 0 < tf -> (k <= a / tf <-> k * tf <= a).
Proof. intros H. pose proof (div_mul_bracket a tf H). split; intros; nia. Qed.

Lemma sane_time_spec t : sane_time t = true <-> saneP (fst t) (snd t).
Proof.
  unfold sane_time, saneP. rewrite !andb_true_iff, !Z.leb_le, !Z.ltb_lt.
  change (86400 * dby 1) with sec_lo. change (86400 * dby 10000) with sec_hi. tauto.
Qed.

Lemma q_go_sane t : sane_time t = true -> q_go t = mkT (fst t + unixToInternal) (snd t).
Proof. intros H. apply sane_time_spec in H. unfold q_go. now apply go_unix_sane. Qed.

(** the year of a sane bound, and its bracket in nanoseconds *)
Definition qyr (t : qtime) : Z := yr (fst t).

Lemma q_year t : sane_time t = true -> t_year (q_go t) = qyr t /\ 1 <= qyr t <= 9999.
Proof.
  intros H. apply sane_time_spec in H. split; [ now apply t_year_sane | apply yr_range; apply H ].
Qed.

Lemma q_bracket t : sane_time t = true ->
  year_start_ns (qyr t) <= q_ns t < year_start_ns (qyr t + 1).
Proof.
  intros H. apply sane_time_spec in H as [Hs Hn]. pose proof (yr_bracket (fst t)) as B.
  unfold year_start_ns, q_ns, tns, qyr, nsPerSec in *. nia.
Qed.

Lemma year_start_mono y y' : y <= y' -> year_start_ns y <= year_start_ns y'.
Proof. intros H. pose proof (dby_mono_le y y' H). unfold year_start_ns, nsPerSec. lia. Qed.

Lemma year_start_step y : year_start_ns (y + 1) = year_start_ns y + days_in_year y * utils_Day.
Proof. unfold year_start_ns, nsPerSec, utils_Day. rewrite dby_step. lia. Qed.

(* ------------------------------------------------------------------ timeframes and slots *)

Definition tf_ok (tf : Z) : Prop :=
  exists m q, tf = nsPerSec * m /\ 0 < m /\ utils_Day = tf * q /\ 0 < q /\ q <= 86400.

Lemma is_tf_ok tf : is_tf tf = true -> tf_ok tf.
Proof. intros H. exact (is_tf_facts tf H). Qed.

Lemma tf_pos tf : tf_ok tf -> 0 < tf.
Proof. intros (m & q & A & B & C & D & E). unfold nsPerSec in A. lia. Qed.

Lemma nslots_mul tf y : tf_ok tf -> nslots tf y * tf = days_in_year y * utils_Day /\ 0 < nslots tf y <= 366 * 86400.
Proof.
  intros (m & q & A & B & C & D & E). unfold nslots. pose proof (days_in_year_range y) as R.
  rewrite C. replace (days_in_year y * (tf * q)) with (days_in_year y * q * tf) by lia.
  assert (0 < tf) by (unfold nsPerSec in A; lia).
  rewrite Z.div_mul by lia. split; [lia | nia].
Qed.

(** a slot position inside the year: its interval lies inside the year *)
Lemma pos_ok_spec tf y pos : tf_ok tf -> pos_ok tf y pos = true ->
  1 <= pos <= 366 * 86400 /\ 0 <= slot_num tf pos < nslots tf y
  /\ year_start_ns y <= slot_start_ns tf y pos
  /\ slot_start_ns tf y pos + tf <= year_start_ns (y + 1).
Proof.
  intros T H. unfold pos_ok in H. apply andb_true_iff in H as [H1 H2]. apply Z.leb_le in H1. apply Z.ltb_lt in H2.
  destruct (nslots_mul tf y T) as [M R]. pose proof (tf_pos tf T) as P.
  assert (N : 0 <= slot_num tf pos) by (unfold slot_num; destruct (tf =? utils_Day); lia).
  assert (U : pos <= 366 * 86400) by (unfold slot_num in H2; destruct (tf =? utils_Day); lia).
  split; [lia|]. split; [lia|]. unfold slot_start_ns. rewrite year_start_step, <- M. split; nia.
Qed.

(* ------------------------------------------------------------------ closed forms of the Go functions *)

(** TimeToIndex of a sane bound: the position whose interval contains it *)
Lemma TimeToIndex_sane tf t : tf_ok tf -> sane_time t = true ->
  let p := TimeToIndex (q_go t) tf in
  slot_num tf p = (q_ns t - year_start_ns (qyr t)) / tf /\ 0 <= slot_num tf p /\ 0 <= p <= 366 * 86400 + 1.
Proof.
  intros T H. pose proof (tf_pos tf T) as P. destruct T as (m & q & A & B & C & D & E).
  pose proof H as S. apply sane_time_spec in S. pose proof S as [Hs Hn].
  destruct (t_sub_jan1 _ _ S) as [Esub Rsub]. fold (qyr t) in *.
  assert (Ens : q_ns t - year_start_ns (qyr t) = (fst t - 86400 * dby (qyr t)) * nsPerSec + snd t).
  { unfold q_ns, tns, year_start_ns. lia. }
  cbv zeta. unfold TimeToIndex, slot_num. unfold q_go. rewrite (t_year_sane _ _ S). fold (qyr t).
  destruct (tf =? utils_Day) eqn:Ed.
  - apply Z.eqb_eq in Ed. rewrite (t_yday0_sane _ _ S). fold (qyr t).
    pose proof (yr_bracket (fst t)) as Br. fold (qyr t) in Br. rewrite dby_step in Br.
    pose proof (days_in_year_range (qyr t)) as Dr.
    assert (Eq : fst t / 86400 - dby (qyr t) = (q_ns t - year_start_ns (qyr t)) / tf).
    { rewrite Ens, Ed. unfold utils_Day, nsPerSec in *. Z.div_mod_to_equations. lia. }
    assert (Rg : 0 <= fst t / 86400 - dby (qyr t) <= 366) by (Z.div_mod_to_equations; lia).
    rewrite wrap_small by i64_small. rewrite Eq in *. lia.
  - rewrite Esub, <- Ens. rewrite Z.quot_div_nonneg by lia.
    assert (Rg : 0 <= (q_ns t - year_start_ns (qyr t)) / tf <= 366 * 86400).
    { split; [apply Z.div_pos; lia|].
      apply Z.div_le_upper_bound; [lia|]. unfold nsPerSec in *. nia. }
    rewrite wrap_small by i64_small. lia.
Qed.

(** the epoch packingReader computes for an occupied, well-placed slot *)
Lemma slot_epoch_wf tf y pos : tf_ok tf -> 1 <= y <= 9999 -> pos_ok tf y pos = true ->
  t_unix (IndexToTime pos tf y) * nsPerSec = slot_start_ns tf y pos.
Proof.
  intros T Hy Hp. destruct (pos_ok_spec tf y pos T Hp) as (P1 & P2 & P3 & P4).
  destruct (nslots_mul tf y T) as [M R]. pose proof (tf_pos tf T) as P. destruct T as (m & q & A & B & C & D & E).
  pose proof (dby_bounds y ltac:(lia)) as Db.
  unfold IndexToTime, slot_start_ns, slot_num in *. destruct (tf =? utils_Day) eqn:Ed.
  - apply Z.eqb_eq in Ed. rewrite Ed in *. clear Ed tf. pose proof (days_in_year_range y) as Dr.
    assert (Hn : nslots utils_Day y = days_in_year y) by (unfold utils_Day in M |- *; lia).
    rewrite go_jan_day_sane by lia. unfold t_unix, year_start_ns. cbn [g_ext].
    replace (86400 * (dby y + pos) + unixToInternal - unixToInternal) with (86400 * (dby y + pos)) by lia.
    rewrite wrap_small by i64_small. unfold utils_Day, nsPerSec. lia.
  - assert (Hd : 0 <= tf * (pos - 1) < 366 * utils_Day).
    { pose proof (days_in_year_range y). nia. }
    rewrite (wrap_small I64 (pos - 1)) by i64_small.
    rewrite (wrap_small I64 (tf * (pos - 1))) by (unfold utils_Day in Hd; i64_small).
    rewrite go_jan1_sane by lia. unfold t_add. cbn [g_ext g_ns].
    assert (Er : Z.rem (tf * (pos - 1)) nsPerSec = 0).
    { rewrite Z.rem_mod_nonneg by (unfold nsPerSec; lia). rewrite A.
      replace (nsPerSec * m * (pos - 1)) with (m * (pos - 1) * nsPerSec) by lia. apply Z.mod_mul. unfold nsPerSec; lia. }
    assert (Eq : Z.quot (tf * (pos - 1)) nsPerSec = m * (pos - 1)).
    { rewrite Z.quot_div_nonneg by (unfold nsPerSec; lia). rewrite A.
      replace (nsPerSec * m * (pos - 1)) with (m * (pos - 1) * nsPerSec) by lia. apply Z.div_mul. unfold nsPerSec; lia. }
    rewrite Er, Eq. cbn [Z.add]. unfold nsPerSec at 1 2. cbn [Z.leb Z.ltb Z.compare].
    unfold t_unix. cbn [g_ext].
    assert (Hm : 0 <= m * (pos - 1) <= 366 * 86400).
    { unfold utils_Day, nsPerSec in *. nia. }
    rewrite (wrap_small I64 (86400 * dby y + unixToInternal + m * (pos - 1))) by (unfold unixToInternal; i64_small).
    replace (86400 * dby y + unixToInternal + m * (pos - 1) - unixToInternal) with (86400 * dby y + m * (pos - 1)) by lia.
    rewrite wrap_small by i64_small. unfold year_start_ns. rewrite A. lia.
Qed.

Lemma file_size_sane tf y reclen : tf_ok tf -> 1 <= y <= 9999 -> 8 <= reclen <= 65536 ->
  file_size tf y reclen = Headersize + nslots tf y * reclen.
Proof.
  intros T Hy Hr. destruct (nslots_mul tf y T) as [M R]. pose proof (tf_pos tf T) as P.
  unfold file_size, FileSize. rewrite nanosecondsInYear_sane by lia.
  rewrite Z.quot_div_nonneg by (pose proof (days_in_year_range y); unfold utils_Day; lia).
  fold (nslots tf y). unfold Headersize.
  rewrite (wrap_small I64 (nslots tf y)) by i64_small.
  rewrite (wrap_small I64 reclen) by i64_small.
  rewrite (wrap_small I64 (nslots tf y * reclen)) by (assert (0 <= nslots tf y * reclen <= 366 * 86400 * 65536) by nia; i64_small).
  rewrite wrap_small by (assert (0 <= nslots tf y * reclen <= 366 * 86400 * 65536) by nia; i64_small).
  reflexivity.
Qed.

Lemma IndexToOffset_sane idx reclen : 0 <= idx <= 366 * 86400 + 1 -> 8 <= reclen <= 65536 ->
  IndexToOffset idx reclen = Headersize + (idx - 1) * reclen.
Proof.
  intros Hi Hr. unfold IndexToOffset, Headersize.
  rewrite (wrap_small I64 (idx - 1)) by i64_small.
  rewrite (wrap_small I64 reclen) by i64_small.
  assert (- 65536 <= (idx - 1) * reclen <= 366 * 86400 * 65536) by nia.
  rewrite (wrap_small I64 ((idx - 1) * reclen)) by i64_small.
  rewrite wrap_small by i64_small. lia.
Qed.
