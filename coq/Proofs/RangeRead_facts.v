(** C11, end to end: on well-formed file states and sane bounds the plan of NewIOPlan selects exactly
    the slots whose interval start lies in [interval_start(start), end]; hence the fixed-length read
    is the range filter of all rows, and the variable-length read (inside the F11 guard) is the
    full-precision range filter of all records. *)
From Coq Require Import ZArith List Bool Lia Sorting.Sorted.
From Coq.Strings Require Import Byte.
Import ListNotations.
Require Import MS.Base.GoInt MS.Base.Res MS.Base.Hex MS.Base.Bytes MS.Base.Civil
               MS.Generated.Src_query MS.Model.QTime MS.Model.Trim MS.Model.RangeRead MS.Model.RangeSpec
               MS.Proofs.QTime_facts MS.Proofs.Trim_facts.
Local Open Scope Z_scope.

(* ------------------------------------------------------------------ arithmetic helpers *)

Lemma mul_le_cancel_r a b r : 0 < r -> (a * r <= b * r <-> a <= b).
Proof. intros Hr. split; intros H; nia. Qed.

Lemma mul_lt_step a b r : 0 < r -> a < b -> a * r + r <= b * r.
Proof. intros Hr H. nia. Qed.

Lemma div_mul_bracket a tf : 0 < tf -> a / tf * tf <= a < a / tf * tf + tf.
Proof. intros H. Z.div_mod_to_equations. nia. Qed.

(** k <= a / tf  <->  k * tf <= a *)
Lemma le_div_iff a k tf : 0 < tf -> (k <= a / tf <-> k * tf <= a).
Proof. intros H. pose proof (div_mul_bracket a tf H). split; intros; nia. Qed.

Lemma sane_time_spec t : sane_time t = true <-> saneP (fst t) (snd t).
Proof.
  unfold sane_time, saneP. rewrite !andb_true_iff, !Z.leb_le, !Z.ltb_lt.
  change (86400 * dby 1) with sec_lo. change (86400 * dby 10000) with sec_hi. tauto.
Qed.

Lemma q_go_sane t : sane_time t = true -> q_go t = mkT (fst t + unixToInternal) (snd t).
Proof. intros H. apply sane_time_spec in H. unfold q_go. now apply go_unix_sane. Qed.

(** the year of a sane bound, and its bracket in nanoseconds *)
Definition qyr (t : qtime) : Z := yr (fst t).

Lemma q_year t : sane_time t = true -> t_year (q_go t) = qyr t /\ 1 <= qyr t <= 9999.
Proof.
  intros H. apply sane_time_spec in H. split; [ now apply t_year_sane | apply yr_range; apply H ].
Qed.

Lemma q_bracket t : sane_time t = true ->
  year_start_ns (qyr t) <= q_ns t < year_start_ns (qyr t + 1).
Proof.
  intros H. apply sane_time_spec in H as [Hs Hn]. pose proof (yr_bracket (fst t)) as B.
  unfold year_start_ns, q_ns, tns, qyr, nsPerSec in *. nia.
Qed.

Lemma year_start_mono y y' : y <= y' -> year_start_ns y <= year_start_ns y'.
Proof. intros H. pose proof (dby_mono_le y y' H). unfold year_start_ns, nsPerSec. lia. Qed.

Lemma year_start_step y : year_start_ns (y + 1) = year_start_ns y + days_in_year y * utils_Day.
Proof. unfold year_start_ns, nsPerSec, utils_Day. rewrite dby_step. lia. Qed.

(* ------------------------------------------------------------------ timeframes and slots *)

Definition tf_ok (tf : Z) : Prop :=
  exists m q, tf = nsPerSec * m /\ 0 < m /\ utils_Day = tf * q /\ 0 < q /\ q <= 86400.

Lemma is_tf_ok tf : is_tf tf = true -> tf_ok tf.
Proof. intros H. exact (is_tf_facts tf H). Qed.

Lemma tf_pos tf : tf_ok tf -> 0 < tf.
Proof. intros (m & q & A & B & C & D & E). unfold nsPerSec in A. lia. Qed.

Lemma nslots_mul tf y : tf_ok tf -> nslots tf y * tf = days_in_year y * utils_Day /\ 0 < nslots tf y <= 366 * 86400.
Proof.
  intros (m & q & A & B & C & D & E). unfold nslots. pose proof (days_in_year_range y) as R.
  rewrite C. replace (days_in_year y * (tf * q)) with (days_in_year y * q * tf) by lia.
  assert (0 < tf) by (unfold nsPerSec in A; lia).
  rewrite Z.div_mul by lia. split; [lia | nia].
Qed.

(** a slot position inside the year: its interval lies inside the year *)
Lemma pos_ok_spec tf y pos : tf_ok tf -> pos_ok tf y pos = true ->
  1 <= pos <= 366 * 86400 /\ 0 <= slot_num tf pos < nslots tf y
  /\ year_start_ns y <= slot_start_ns tf y pos
  /\ slot_start_ns tf y pos + tf <= year_start_ns (y + 1).
Proof.
  intros T H. unfold pos_ok in H. apply andb_true_iff in H as [H1 H2]. apply Z.leb_le in H1. apply Z.ltb_lt in H2.
  destruct (nslots_mul tf y T) as [M R]. pose proof (tf_pos tf T) as P.
  assert (N : 0 <= slot_num tf pos) by (unfold slot_num; destruct (tf =? utils_Day); lia).
  assert (U : pos <= 366 * 86400) by (unfold slot_num in H2; destruct (tf =? utils_Day); lia).
  split; [lia|]. split; [lia|]. unfold slot_start_ns. rewrite year_start_step, <- M. split; nia.
Qed.

(* ------------------------------------------------------------------ closed forms of the Go functions *)

(** TimeToIndex of a sane bound: the position whose interval contains it *)
Lemma TimeToIndex_sane tf t : tf_ok tf -> sane_time t = true ->
  let p := TimeToIndex (q_go t) tf in
  slot_num tf p = (q_ns t - year_start_ns (qyr t)) / tf /\ 0 <= slot_num tf p /\ 0 <= p <= 366 * 86400 + 1.
Proof.
  intros T H. pose proof (tf_pos tf T) as P. destruct T as (m & q & A & B & C & D & E).
  pose proof H as S. apply sane_time_spec in S. pose proof S as [Hs Hn].
  destruct (t_sub_jan1 _ _ S) as [Esub Rsub]. fold (qyr t) in *.
  assert (Ens : q_ns t - year_start_ns (qyr t) = (fst t - 86400 * dby (qyr t)) * nsPerSec + snd t).
  { unfold q_ns, tns, year_start_ns. lia. }
  cbv zeta. unfold TimeToIndex, slot_num. unfold q_go. rewrite (t_year_sane _ _ S). fold (qyr t).
  destruct (tf =? utils_Day) eqn:Ed.
  - apply Z.eqb_eq in Ed. rewrite (t_yday0_sane _ _ S). fold (qyr t).
    pose proof (yr_bracket (fst t)) as Br. fold (qyr t) in Br. rewrite dby_step in Br.
    pose proof (days_in_year_range (qyr t)) as Dr.
    assert (Eq : fst t / 86400 - dby (qyr t) = (q_ns t - year_start_ns (qyr t)) / tf).
    { rewrite Ens, Ed. unfold utils_Day, nsPerSec in *. Z.div_mod_to_equations. lia. }
    assert (Rg : 0 <= fst t / 86400 - dby (qyr t) <= 366) by (Z.div_mod_to_equations; lia).
    rewrite wrap_small by i64_small. rewrite Eq in *. lia.
  - rewrite Esub, <- Ens. rewrite Z.quot_div_nonneg by lia.
    assert (Rg : 0 <= (q_ns t - year_start_ns (qyr t)) / tf <= 366 * 86400).
    { split; [apply Z.div_pos; lia|].
      apply Z.div_le_upper_bound; [lia|]. unfold nsPerSec in *. nia. }
    rewrite wrap_small by i64_small. lia.
Qed.

(** the epoch packingReader computes for an occupied, well-placed slot *)
Lemma slot_epoch_wf tf y pos : tf_ok tf -> 1 <= y <= 9999 -> pos_ok tf y pos = true ->
  t_unix (IndexToTime pos tf y) * nsPerSec = slot_start_ns tf y pos.
Proof.
  intros T Hy Hp. destruct (pos_ok_spec tf y pos T Hp) as (P1 & P2 & P3 & P4).
  destruct (nslots_mul tf y T) as [M R]. pose proof (tf_pos tf T) as P. destruct T as (m & q & A & B & C & D & E).
  pose proof (dby_bounds y ltac:(lia)) as Db.
  unfold IndexToTime, slot_start_ns, slot_num in *. destruct (tf =? utils_Day) eqn:Ed.
  - apply Z.eqb_eq in Ed. rewrite Ed in *. clear Ed tf. pose proof (days_in_year_range y) as Dr.
    assert (Hn : nslots utils_Day y = days_in_year y) by (unfold utils_Day in M |- *; lia).
    rewrite go_jan_day_sane by lia. unfold t_unix, year_start_ns. cbn [g_ext].
    replace (86400 * (dby y + pos) + unixToInternal - unixToInternal) with (86400 * (dby y + pos)) by lia.
    rewrite wrap_small by i64_small. unfold utils_Day, nsPerSec. lia.
  - assert (Hd : 0 <= tf * (pos - 1) < 366 * utils_Day).
    { pose proof (days_in_year_range y). nia. }
    rewrite (wrap_small I64 (pos - 1)) by i64_small.
    rewrite (wrap_small I64 (tf * (pos - 1))) by (unfold utils_Day in Hd; i64_small).
    rewrite go_jan1_sane by lia. unfold t_add. cbn [g_ext g_ns].
    assert (Er : Z.rem (tf * (pos - 1)) nsPerSec = 0).
    { rewrite Z.rem_mod_nonneg by (unfold nsPerSec; lia). rewrite A.
      replace (nsPerSec * m * (pos - 1)) with (m * (pos - 1) * nsPerSec) by lia. apply Z.mod_mul. unfold nsPerSec; lia. }
    assert (Eq : Z.quot (tf * (pos - 1)) nsPerSec = m * (pos - 1)).
    { rewrite Z.quot_div_nonneg by (unfold nsPerSec; lia). rewrite A.
      replace (nsPerSec * m * (pos - 1)) with (m * (pos - 1) * nsPerSec) by lia. apply Z.div_mul. unfold nsPerSec; lia. }
    rewrite Er, Eq. cbn [Z.add]. unfold nsPerSec at 1 2. cbn [Z.leb Z.ltb Z.compare].
    unfold t_unix. cbn [g_ext].
    assert (Hm : 0 <= m * (pos - 1) <= 366 * 86400).
    { unfold utils_Day, nsPerSec in *. nia. }
    rewrite (wrap_small I64 (86400 * dby y + unixToInternal + m * (pos - 1))) by (unfold unixToInternal; i64_small).
    replace (86400 * dby y + unixToInternal + m * (pos - 1) - unixToInternal) with (86400 * dby y + m * (pos - 1)) by lia.
    rewrite wrap_small by i64_small. unfold year_start_ns. rewrite A. lia.
Qed.

Lemma file_size_sane tf y reclen : tf_ok tf -> 1 <= y <= 9999 -> 8 <= reclen <= 65536 ->
  file_size tf y reclen = Headersize + nslots tf y * reclen.
Proof.
  intros T Hy Hr. destruct (nslots_mul tf y T) as [M R]. pose proof (tf_pos tf T) as P.
  unfold file_size, FileSize. rewrite nanosecondsInYear_sane by lia.
  rewrite Z.quot_div_nonneg by (pose proof (days_in_year_range y); unfold utils_Day; lia).
  fold (nslots tf y). unfold Headersize.
  rewrite (wrap_small I64 (nslots tf y)) by i64_small.
  rewrite (wrap_small I64 reclen) by i64_small.
  rewrite (wrap_small I64 (nslots tf y * reclen)) by (assert (0 <= nslots tf y * reclen <= 366 * 86400 * 65536) by nia; i64_small).
  rewrite wrap_small by (assert (0 <= nslots tf y * reclen <= 366 * 86400 * 65536) by nia; i64_small).
  reflexivity.
Qed.

Lemma IndexToOffset_sane idx reclen : 0 <= idx <= 366 * 86400 + 1 -> 8 <= reclen <= 65536 ->
  IndexToOffset idx reclen = Headersize + (idx - 1) * reclen.
Proof.
  intros Hi Hr. unfold IndexToOffset, Headersize.
  rewrite (wrap_small I64 (idx - 1)) by i64_small.
  rewrite (wrap_small I64 reclen) by i64_small.
  assert (- 65536 <= (idx - 1) * reclen <= 366 * 86400 * 65536) by nia.
  rewrite (wrap_small I64 ((idx - 1) * reclen)) by i64_small.
  rewrite wrap_small by i64_small. lia.
Qed.

(* ------------------------------------------------------------------ the plan, in slot positions *)

Lemma bool_eq_iff (a b : bool) : (a = true <-> b = true) -> a = b.
Proof. destruct a, b; intuition congruence. Qed.

(** a scan given in units of the record length *)
Lemma in_scan_units r a L sl : 0 < r ->
  in_scan r (Headersize + (a - 1) * r) (L * r) sl
  = (a <=? s_pos sl) && (s_pos sl <? a + L) && negb (s_idx sl =? 0).
Proof.
  intros Hr. unfold in_scan, slot_off. f_equal. apply bool_eq_iff.
  rewrite !andb_true_iff, !Z.leb_le, Z.ltb_lt. split; intros [A B]; split; nia.
Qed.

(** first and last position NewIOPlan scans in the file of year [y] *)
Definition plan_first (tf : Z) (s : qtime) (y : Z) : Z :=
  if y =? qyr s then TimeToIndex (q_go s) tf else 1.
Definition plan_last (tf : Z) (e : qtime) (y : Z) : Z :=
  if y =? qyr e then TimeToIndex (q_go e) tf else nslots tf y.
Definition plan_count (tf : Z) (s e : qtime) (y : Z) : Z :=
  let c := plan_last tf e y - plan_first tf s y + 1 in
  if nslots tf y + 1 <? c then nslots tf y + 1 else c.

Lemma plan_file_sane tf r s e y :
  tf_ok tf -> 8 <= r <= 65536 -> sane_time s = true -> sane_time e = true -> 1 <= y <= 9999 ->
  plan_file tf r (q_go s) (q_go e) y =
  if (qyr s <=? y) && (y <=? qyr e)
  then Some (Headersize + (plan_first tf s y - 1) * r, plan_count tf s e y * r) else None.
Proof.
  intros T Hr Hs He Hy.
  destruct (q_year s Hs) as [Ys Rs]. destruct (q_year e He) as [Ye Re].
  destruct (TimeToIndex_sane tf s T Hs) as (_ & _ & Ps). destruct (TimeToIndex_sane tf e T He) as (_ & _ & Pe).
  destruct (nslots_mul tf y T) as [_ Rn].
  unfold plan_file. rewrite Ys, Ye.
  rewrite (wrap_small I16 (qyr s)) by (unfold in_ity, ity_min, ity_max; cbn [ity_signed ity_bits]; norm_pows; lia).
  rewrite (wrap_small I16 (qyr e)) by (unfold in_ity, ity_min, ity_max; cbn [ity_signed ity_bits]; norm_pows; lia).
  destruct ((qyr s <=? y) && (y <=? qyr e)); [|reflexivity].
  unfold TimeToOffset. rewrite !IndexToOffset_sane by lia. rewrite file_size_sane by assumption.
  unfold plan_count, plan_first, plan_last.
  set (ps := TimeToIndex (q_go s) tf) in *. set (pe := TimeToIndex (q_go e) tf) in *. set (n := nslots tf y) in *.
  assert (Bn : 0 <= n * r <= 366 * 86400 * 65536) by nia.
  assert (Bs : - 65536 <= (ps - 1) * r <= 366 * 86400 * 65536) by nia.
  assert (Be : - 65536 <= (pe - 1) * r <= 366 * 86400 * 65536) by nia.
  unfold Headersize in *.
  rewrite (wrap_small I64 (37024 + (pe - 1) * r + r)) by i64_small.
  rewrite (wrap_small I64 (37024 + n * r - 37024)) by i64_small.
  rewrite (wrap_small I64 (37024 + n * r - 37024 + r)) by i64_small.
  destruct (y =? qyr s), (y =? qyr e).
  - rewrite wrap_small by i64_small.
    replace (37024 + (pe - 1) * r + r - (37024 + (ps - 1) * r)) with ((pe - ps + 1) * r) by lia.
    replace (37024 + n * r - 37024 + r) with ((n + 1) * r) by lia.
    replace ((n + 1) * r <? (pe - ps + 1) * r) with (n + 1 <? pe - ps + 1)
      by (apply bool_eq_iff; rewrite !Z.ltb_lt; split; intros; nia).
    destruct (n + 1 <? pe - ps + 1); reflexivity.
  - rewrite wrap_small by i64_small.
    replace (37024 + n * r - (37024 + (ps - 1) * r)) with ((n - ps + 1) * r) by lia.
    replace (37024 + n * r - 37024 + r) with ((n + 1) * r) by lia.
    replace ((n + 1) * r <? (n - ps + 1) * r) with (n + 1 <? n - ps + 1)
      by (apply bool_eq_iff; rewrite !Z.ltb_lt; split; intros; nia).
    destruct (n + 1 <? n - ps + 1); reflexivity.
  - rewrite wrap_small by i64_small.
    replace (37024 + (pe - 1) * r + r - 37024) with ((pe - 1 + 1) * r) by lia.
    replace (37024 + n * r - 37024 + r) with ((n + 1) * r) by lia.
    replace ((n + 1) * r <? (pe - 1 + 1) * r) with (n + 1 <? pe - 1 + 1)
      by (apply bool_eq_iff; rewrite !Z.ltb_lt; split; intros; nia).
    replace (37024 + (1 - 1) * r) with 37024 by lia.
    destruct (n + 1 <? pe - 1 + 1); reflexivity.
  - rewrite wrap_small by i64_small.
    replace (37024 + n * r - 37024 + r) with ((n + 1) * r) by lia.
    replace (37024 + n * r - 37024) with ((n - 1 + 1) * r) by lia.
    replace ((n + 1) * r <? (n - 1 + 1) * r) with (n + 1 <? n - 1 + 1)
      by (apply bool_eq_iff; rewrite !Z.ltb_lt; split; intros; nia).
    replace (37024 + (1 - 1) * r) with 37024 by lia.
    destruct (n + 1 <? n - 1 + 1); reflexivity.
Qed.

(** the positions NewIOPlan selects in the file of year [y] *)
Definition selb (tf : Z) (s e : qtime) (y pos : Z) : bool :=
  (qyr s <=? y) && (y <=? qyr e)
  && ((plan_first tf s y <=? pos) && (pos <? plan_first tf s y + plan_count tf s e y)).

Lemma scan_file_sel tf r s e y sls :
  tf_ok tf -> 8 <= r <= 65536 -> sane_time s = true -> sane_time e = true -> 1 <= y <= 9999 ->
  scan_file tf r (q_go s) (q_go e) (mkYF y sls) = filter (fun sl => selb tf s e y (s_pos sl) && occupied sl) sls.
Proof.
  intros T Hr Hs He Hy. unfold scan_file. cbn [y_year y_slots].
  rewrite plan_file_sane by assumption. unfold selb.
  destruct ((qyr s <=? y) && (y <=? qyr e)).
  - apply filter_ext. intros sl. rewrite in_scan_units by lia. reflexivity.
  - cbn [andb]. induction sls as [|sl sls IH]; [reflexivity | exact IH].
Qed.

Lemma slot_num_shift tf : exists d, (d = 0 \/ d = 1) /\ forall p, slot_num tf p = p - d.
Proof. unfold slot_num. destruct (tf =? utils_Day); [exists 0 | exists 1]; split; auto; intros; lia. Qed.

(** the heart of C11 for the plan: a well-placed slot is selected iff its interval start lies
    between the start of the interval containing [s] and [e] *)
Lemma selb_range tf s e y pos :
  tf_ok tf -> sane_time s = true -> sane_time e = true -> 1 <= y <= 9999 -> pos_ok tf y pos = true ->
  selb tf s e y pos =
  (istart_ns tf s <=? slot_start_ns tf y pos) && (slot_start_ns tf y pos <=? q_ns e).
Proof.
  intros T Hs He Hy Hp. pose proof (tf_pos tf T) as P.
  destruct (q_year s Hs) as [_ Rs]. destruct (q_year e He) as [_ Re].
  pose proof (q_bracket s Hs) as Bs. pose proof (q_bracket e He) as Be.
  destruct (TimeToIndex_sane tf s T Hs) as (Ns & Ns0 & Ps). destruct (TimeToIndex_sane tf e T He) as (Ne & Ne0 & Pe).
  destruct (pos_ok_spec tf y pos T Hp) as (P1 & P2 & P3 & P4).
  destruct (nslots_mul tf y T) as [_ Rn].
  destruct (slot_num_shift tf) as (d & Hd & Sh).
  unfold selb, plan_count, plan_first, plan_last, istart_ns.
  change (year_of_days (fst s / 86400)) with (qyr s).
  set (ps := TimeToIndex (q_go s) tf) in *. set (pe := TimeToIndex (q_go e) tf) in *.
  set (N := nslots tf y) in *.
  set (ks := (q_ns s - year_start_ns (qyr s)) / tf) in *.
  set (ke := (q_ns e - year_start_ns (qyr e)) / tf) in *.
  pose proof (div_mul_bracket (q_ns s - year_start_ns (qyr s)) tf P) as Ds. fold ks in Ds.
  pose proof (div_mul_bracket (q_ns e - year_start_ns (qyr e)) tf P) as De. fold ke in De.
  unfold slot_start_ns in *. rewrite Sh in *. set (n := pos - d) in *.
  assert (Hps : ps = ks + d) by lia. assert (Hpe : pe = ke + d) by lia.
  (* order facts between interval numbers and their starts *)
  assert (M1 : ks <= n <-> ks * tf <= n * tf) by (symmetry; apply mul_le_cancel_r; lia).
  assert (M2 : n <= ke <-> n * tf <= ke * tf) by (symmetry; apply mul_le_cancel_r; lia).
  assert (M3 : n < ks -> n * tf + tf <= ks * tf) by (apply mul_lt_step; lia).
  assert (M4 : ke < n -> ke * tf + tf <= n * tf) by (apply mul_lt_step; lia).
  assert (Y1 : y < qyr s -> year_start_ns (y + 1) <= year_start_ns (qyr s)) by (intros; apply year_start_mono; lia).
  assert (Y2 : qyr s < y -> year_start_ns (qyr s + 1) <= year_start_ns y) by (intros; apply year_start_mono; lia).
  assert (Y3 : y < qyr e -> year_start_ns (y + 1) <= year_start_ns (qyr e)) by (intros; apply year_start_mono; lia).
  assert (Y4 : qyr e < y -> year_start_ns (qyr e + 1) <= year_start_ns y) by (intros; apply year_start_mono; lia).
  apply bool_eq_iff. rewrite !andb_true_iff, !Z.leb_le, !Z.ltb_lt.
  destruct (Z.eqb_spec y (qyr s)) as [E1|E1]; destruct (Z.eqb_spec y (qyr e)) as [E2|E2];
    try rewrite <- E1 in *; try rewrite <- E2 in *;
    match goal with |- context [if ?c then _ else _] => destruct c eqn:Ec end;
    try apply Z.ltb_lt in Ec; try apply Z.ltb_ge in Ec;
    (split; [ intros ((A1 & A2) & A3 & A4) | intros (A1 & A2) ]); repeat split; lia.
Qed.

(* ------------------------------------------------------------------ list helpers *)

Lemma filter_flat_map {A B} (P : B -> bool) (f : A -> list B) l :
  filter P (flat_map f l) = flat_map (fun x => filter P (f x)) l.
Proof. induction l as [|x l IH]; cbn; [reflexivity | now rewrite filter_app, IH]. Qed.

Lemma filter_map_comm {A B} (P : B -> bool) (f : A -> B) l :
  filter P (map f l) = map f (filter (fun x => P (f x)) l).
Proof. induction l as [|x l IH]; cbn; [reflexivity|]. destruct (P (f x)); cbn; now rewrite IH. Qed.

Lemma filter_filter {A} (P Q : A -> bool) l : filter P (filter Q l) = filter (fun x => Q x && P x) l.
Proof. induction l as [|x l IH]; cbn; [reflexivity|]. destruct (Q x); cbn; [destruct (P x)|]; now rewrite IH. Qed.

Lemma flat_map_ext_in {A B} (f g : A -> list B) l : (forall x, In x l -> f x = g x) -> flat_map f l = flat_map g l.
Proof.
  induction l as [|x l IH]; intros H; cbn; [reflexivity|].
  rewrite (H x (or_introl eq_refl)), IH; [reflexivity | intros; apply H; now right].
Qed.

(* ------------------------------------------------------------------ unpacking well-formedness *)

Lemma forallb_Forall {A} (f : A -> bool) l : forallb f l = true -> Forall (fun x => f x = true) l.
Proof. intros H. apply Forall_forall. now apply forallb_forall. Qed.

Lemma wf_bucket_is_tf b : wf_bucket b = true -> is_tf (b_tf b) = true.
Proof. unfold wf_bucket. rewrite !andb_true_iff. now intros (((H & _) & _) & _). Qed.

Lemma wf_bucket_tf b : wf_bucket b = true -> tf_ok (b_tf b).
Proof. intros W. apply is_tf_ok. now apply wf_bucket_is_tf. Qed.

(** every timeframe of utils.Timeframes is its own queryable timeframe (the table is in ascending order) *)
Lemma queryable_self tf : is_tf tf = true -> queryable_tf tf =? tf = true.
Proof.
  unfold is_tf, Timeframes. cbn [map snd existsb]. rewrite !orb_true_iff, !Z.eqb_eq.
  intros H. repeat (destruct H as [H|H]; [subst tf; vm_compute; reflexivity|]). discriminate H.
Qed.

Lemma wf_bucket_files b : wf_bucket b = true -> Forall (fun f => wf_file b f = true) (b_files b).
Proof. unfold wf_bucket. rewrite !andb_true_iff. intros (_ & H). now apply forallb_Forall. Qed.

Lemma wf_bucket_reclen b : wf_bucket b = true -> 8 <= b_reclen b <= 65536.
Proof.
  unfold wf_bucket. rewrite !andb_true_iff. intros (((_ & H) & _) & _).
  destruct (b_var b); rewrite !andb_true_iff, ?Z.eqb_eq, ?Z.leb_le in H; lia.
Qed.

Lemma wf_file_spec b f : wf_file b f = true ->
  1 <= y_year f <= 9999 /\ strictly_asc (map s_pos (y_slots f)) = true
  /\ Forall (fun sl => wf_slot b (y_year f) sl = true) (y_slots f).
Proof.
  unfold wf_file. rewrite !andb_true_iff, !Z.leb_le. intros (((A & B) & C) & D).
  repeat split; try assumption. now apply forallb_Forall.
Qed.

Lemma wf_slot_pos b y sl : wf_slot b y sl = true ->
  pos_ok (b_tf b) y (s_pos sl) = true /\ s_idx sl = s_pos sl /\ occupied sl = true.
Proof.
  unfold wf_slot. rewrite !andb_true_iff. intros ((A & B) & _). apply Z.eqb_eq in B.
  split; [assumption|]. split; [assumption|].
  unfold occupied. rewrite B. unfold pos_ok in A. apply andb_true_iff in A as [A _]. apply Z.leb_le in A.
  destruct (Z.eqb_spec (s_pos sl) 0); [lia | reflexivity].
Qed.

(* ------------------------------------------------------------------ fixed-length buckets *)

Theorem read_fixed_filter b s e :
  wf_bucket b = true -> b_var b = false -> sane_time s = true -> sane_time e = true ->
  read_fixed_rows b (q_go s) (q_go e) = filter (in_range_fixed (b_tf b) s e) (fixed_rows_all b).
Proof.
  intros W V Hs He. pose proof (wf_bucket_tf b W) as T. pose proof (wf_bucket_reclen b W) as Hr.
  pose proof (wf_bucket_files b W) as Ff. rewrite Forall_forall in Ff.
  unfold read_fixed_rows, fixed_rows_all. rewrite filter_flat_map.
  apply flat_map_ext_in. intros f Hf. destruct (wf_file_spec b f (Ff f Hf)) as (Hy & _ & Fs).
  destruct f as [y sls]. cbn [y_year y_slots] in *.
  rewrite scan_file_sel by assumption. unfold fixed_rows_of. cbn [y_year].
  rewrite filter_map_comm, filter_filter. apply f_equal.
  apply filter_ext_in. intros sl Hsl. rewrite Forall_forall in Fs.
  destruct (wf_slot_pos b y sl (Fs sl Hsl)) as (Hp & Hi & Ho).
  rewrite Ho, andb_true_r. cbn [andb].
  rewrite (selb_range _ s e y (s_pos sl) T Hs He Hy Hp).
  unfold in_range_fixed, slot_epoch. cbn [fst]. rewrite Hi.
  now rewrite (slot_epoch_wf _ y (s_pos sl) T Hy Hp).
Qed.

(* ------------------------------------------------------------------ variable-length buckets *)

(** candidates *)
Lemma read_var_files_ok b s e fs c : read_var_files b s e fs = Ok c ->
  c = flat_map (fun f => flat_map s_recs (scan_file (b_tf b) (b_reclen b) s e f)) fs.
Proof.
  revert c; induction fs as [|f fs IH]; intros c H; cbn [read_var_files flat_map] in *.
  - now inversion H.
  - unfold read_var_file in H. cbn [bindR] in H.
    destruct (read_var_files b s e fs) as [r| |] eqn:Er; cbn [bindR] in H; try discriminate.
    inversion H; subst c. now rewrite (IH r eq_refl).
Qed.

Lemma read_var_files_total b s e fs : exists c, read_var_files b s e fs = Ok c.
Proof.
  induction fs as [|f fs [c IH]]; cbn [read_var_files]; [eexists; reflexivity|].
  unfold read_var_file. cbn [bindR]. rewrite IH. cbn [bindR]. eexists; reflexivity.
Qed.

(** rows sorted by full-precision time *)
Lemma sorted_tns_tail a rest : sorted_tns (a :: rest) = true -> sorted_tns rest = true.
Proof. cbn [sorted_tns]. destruct rest; [reflexivity|]. now intros H%andb_prop. Qed.

Lemma sorted_tns_app a b : sorted_tns a = true -> sorted_tns b = true ->
  (forall x y, In x a -> In y b -> row_tns x <= row_tns y) -> sorted_tns (a ++ b) = true.
Proof.
  induction a as [|x a IH]; intros Sa Sb C; [exact Sb|].
  cbn [app]. destruct a as [|x' a'].
  - cbn [app]. destruct b as [|y b']; [reflexivity|].
    cbn [sorted_tns]. apply andb_true_iff; split; [|exact Sb].
    apply Z.leb_le. apply C; now left.
  - cbn [sorted_tns app] in *. apply andb_prop in Sa as [S1 S2].
    apply andb_true_iff; split; [exact S1|].
    apply IH; [exact S2 | exact Sb |]. intros u v Hu Hv. apply C; [now right | exact Hv].
Qed.

(** blocks with disjoint, ordered time bounds concatenate to a sorted list *)
Lemma sorted_blocks {A} (lo hi : A -> Z) (rows : A -> list vrow) (l : list A) :
  (forall a, In a l -> sorted_tns (rows a) = true /\ Forall (fun r => lo a <= row_tns r < hi a) (rows a)) ->
  StronglySorted (fun a b => hi a <= lo b) l ->
  sorted_tns (flat_map rows l) = true.
Proof.
  intros H S. induction S as [|a l S IH Fa]; [reflexivity|].
  cbn [flat_map]. apply sorted_tns_app.
  - apply H. now left.
  - apply IH. intros x Hx. apply H. now right.
  - intros x y Hx Hy. apply in_flat_map in Hy as (c & Hc & Hy).
    destruct (H a (or_introl eq_refl)) as [_ Ba]. destruct (H c (or_intror Hc)) as [_ Bc].
    rewrite Forall_forall in Ba, Bc, Fa. specialize (Ba x Hx). specialize (Bc y Hy). specialize (Fa c Hc). lia.
Qed.

Lemma StronglySorted_filter {A} (R : A -> A -> Prop) (g : A -> bool) l :
  StronglySorted R l -> StronglySorted R (filter g l).
Proof.
  induction 1 as [|a l S IH Fa]; [constructor|]. cbn [filter]. destruct (g a); [|exact IH].
  constructor; [exact IH|]. apply Forall_forall. intros x Hx. apply filter_In in Hx as [Hx _].
  rewrite Forall_forall in Fa. now apply Fa.
Qed.

Lemma strictly_asc_strong l : strictly_asc l = true -> StronglySorted Z.lt l.
Proof.
  induction l as [|a l IH]; intros H; [constructor|].
  assert (T : strictly_asc l = true).
  { cbn [strictly_asc] in H. destruct l; [reflexivity|]. now apply andb_prop in H. }
  specialize (IH T). constructor; [exact IH|].
  destruct l as [|b l]; [constructor|].
  cbn [strictly_asc] in H. apply andb_prop in H as [H1 _]. apply Z.ltb_lt in H1.
  constructor; [exact H1|]. inversion IH as [|? ? _ Fb]; subst.
  eapply Forall_impl; [|exact Fb]. cbv beta. intros; lia.
Qed.

Lemma StronglySorted_map_inv {A} (f : A -> Z) (R : A -> A -> Prop) l :
  (forall a b, f a < f b -> R a b) -> StronglySorted Z.lt (map f l) -> StronglySorted R l.
Proof.
  intros HR. induction l as [|a l IH]; intros S; [constructor|].
  cbn [map] in S. inversion S as [|? ? S' Fa]; subst. constructor; [now apply IH|].
  apply Forall_forall. intros x Hx. apply HR. rewrite Forall_forall in Fa. apply Fa. now apply in_map.
Qed.

(** what a well-formed variable slot says about its records *)
Lemma wf_slot_var b y sl : b_var b = true -> wf_slot b y sl = true ->
  sorted_tns (s_recs sl) = true /\
  Forall (fun r => wf_row (Z.to_nat (b_vrl b) - 4) r /\ sane_row r = true
                   /\ slot_start_ns (b_tf b) y (s_pos sl) <= row_tns r < slot_start_ns (b_tf b) y (s_pos sl) + b_tf b)
         (s_recs sl).
Proof.
  intros V. unfold wf_slot. rewrite V, !andb_true_iff. intros (_ & F & S). split; [exact S|].
  apply forallb_Forall in F. eapply Forall_impl; [|exact F]. cbv beta.
  intros r Hr. rewrite !andb_true_iff, Z.leb_le, Z.ltb_lt in Hr. destruct Hr as (((Wr & Sr) & L) & U).
  split; [|tauto]. unfold wf_rowb in Wr. rewrite !andb_true_iff, Nat.eqb_eq, !in_ityb_spec in Wr. unfold wf_row. tauto.
Qed.

Lemma wf_bucket_vrl b : wf_bucket b = true -> b_var b = true -> 4 <= b_vrl b <= 65536.
Proof.
  unfold wf_bucket. rewrite !andb_true_iff. intros (((_ & H) & _) & _) V. rewrite V in H.
  rewrite !andb_true_iff, Z.eqb_eq, !Z.leb_le in H. lia.
Qed.

Lemma wf_bucket_years b : wf_bucket b = true -> strictly_asc (map y_year (b_files b)) = true.
Proof. unfold wf_bucket. rewrite !andb_true_iff. now intros ((_ & H) & _). Qed.

(** the record properties every row of a well-formed variable bucket has *)
Definition good_row (b : bucket) (r : vrow) : Prop :=
  wf_row (Z.to_nat (b_vrl b) - 4) r /\ sane_row r = true.

(** rows of (any selection of) one well-formed file: sorted, inside the year *)
Lemma file_rows b f (g : slot -> bool) : wf_bucket b = true -> b_var b = true -> wf_file b f = true ->
  let R := flat_map s_recs (filter g (y_slots f)) in
  sorted_tns R = true
  /\ Forall (fun r => year_start_ns (y_year f) <= row_tns r < year_start_ns (y_year f + 1)) R
  /\ Forall (good_row b) R.
Proof.
  intros W V Wf. pose proof (wf_bucket_tf b W) as T. pose proof (tf_pos _ T) as P.
  destruct (wf_file_spec b f Wf) as (Hy & Asc & Fs). rewrite Forall_forall in Fs.
  assert (Hin : forall sl, In sl (filter g (y_slots f)) -> wf_slot b (y_year f) sl = true).
  { intros sl H. apply filter_In in H as [H _]. now apply Fs. }
  cbv zeta. split; [|split].
  - apply (sorted_blocks (fun sl => slot_start_ns (b_tf b) (y_year f) (s_pos sl))
                         (fun sl => slot_start_ns (b_tf b) (y_year f) (s_pos sl) + b_tf b)).
    + intros sl Hsl. destruct (wf_slot_var b _ sl V (Hin sl Hsl)) as [S F]. split; [exact S|].
      eapply Forall_impl; [|exact F]. cbv beta. tauto.
    + apply StronglySorted_filter. apply (StronglySorted_map_inv s_pos).
      * intros a c Hac. unfold slot_start_ns.
        destruct (slot_num_shift (b_tf b)) as (d & _ & Sh). rewrite !Sh.
        pose proof (mul_lt_step (s_pos a - d) (s_pos c - d) (b_tf b) P ltac:(lia)). lia.
      * now apply strictly_asc_strong.
  - apply Forall_forall. intros r Hr. apply in_flat_map in Hr as (sl & Hsl & Hr).
    destruct (wf_slot_var b _ sl V (Hin sl Hsl)) as [_ F]. rewrite Forall_forall in F.
    destruct (F r Hr) as (_ & _ & B).
    destruct (wf_slot_pos b _ sl (Hin sl Hsl)) as (Hp & _ & _).
    destruct (pos_ok_spec _ _ _ T Hp) as (_ & _ & P3 & P4). lia.
  - apply Forall_forall. intros r Hr. apply in_flat_map in Hr as (sl & Hsl & Hr).
    destruct (wf_slot_var b _ sl V (Hin sl Hsl)) as [_ F]. rewrite Forall_forall in F.
    destruct (F r Hr) as (A & B & _). split; assumption.
Qed.

(** rows of (any per-file selection of) a well-formed bucket: sorted *)
Lemma bucket_rows b (g : yfile -> slot -> bool) : wf_bucket b = true -> b_var b = true ->
  let R := flat_map (fun f => flat_map s_recs (filter (g f) (y_slots f))) (b_files b) in
  sorted_tns R = true /\ Forall (good_row b) R.
Proof.
  intros W V. pose proof (wf_bucket_files b W) as Ff. rewrite Forall_forall in Ff.
  cbv zeta. split.
  - apply (sorted_blocks (fun f => year_start_ns (y_year f)) (fun f => year_start_ns (y_year f + 1))).
    + intros f Hf. destruct (file_rows b f (g f) W V (Ff f Hf)) as (S & B & _). split; assumption.
    + apply (StronglySorted_map_inv y_year).
      * intros a c Hac. apply year_start_mono. lia.
      * apply strictly_asc_strong. now apply wf_bucket_years.
  - apply Forall_forall. intros r Hr. apply in_flat_map in Hr as (f & Hf & Hr).
    destruct (file_rows b f (g f) W V (Ff f Hf)) as (_ & _ & G). rewrite Forall_forall in G. now apply G.
Qed.

(** Go's order on sane rows is the order of total nanoseconds *)
Lemma sane_row_spec r : sane_row r = true -> sane_sec (r_sec r) /\ sane_ns (r_ns r).
Proof.
  unfold sane_row, sane_sec, sane_ns. rewrite !andb_true_iff, !Z.leb_le, Z.ltb_lt. tauto.
Qed.

Lemma sorted_tns_rows rows : Forall (fun r => sane_row r = true) rows ->
  sorted_tns rows = true -> sorted_rows rows = true.
Proof.
  induction rows as [|a rest IH]; intros F S; [reflexivity|].
  inversion F as [|? ? Fa Fr]; subst. destruct rest as [|c rest']; [reflexivity|].
  cbn [sorted_tns sorted_rows] in *. apply andb_prop in S as [S1 S2].
  inversion Fr as [|? ? Fc _]; subst.
  destruct (sane_row_spec a Fa) as [A1 A2]. destruct (sane_row_spec c Fc) as [C1 C2].
  apply andb_true_iff; split; [| now apply IH].
  unfold row_time. rewrite (t_le_tns _ _ _ _ A1 A2 C1 C2). exact S1.
Qed.

Lemma sane_time_wide t : sane_time t = true -> sane_sec (fst t) /\ sane_ns (snd t).
Proof.
  intros H. apply sane_time_spec in H as [Hs Hn].
  unfold sane_sec, sane_ns, sec_lo, sec_hi, nsPerSec in *. change (2 ^ 62) with 4611686018427387904.
  change (2 ^ 31) with 2147483648. lia.
Qed.

Lemma in_range_row_var s e r : sane_time s = true -> sane_time e = true -> sane_row r = true ->
  in_range_row (q_go s) (q_go e) r = in_range_var s e r.
Proof.
  intros Hs He Hr. destruct (sane_time_wide s Hs) as [S1 S2]. destruct (sane_time_wide e He) as [E1 E2].
  destruct (sane_row_spec r Hr) as [R1 R2].
  unfold in_range_row, in_range_var, row_time, q_go. rewrite t_ge_le.
  rewrite (t_le_tns _ _ _ _ S1 S2 R1 R2), (t_le_tns _ _ _ _ R1 R2 E1 E2). reflexivity.
Qed.

(** a slot the plan does not select holds no record of the range *)
Lemma nosel_out b s e y sl : wf_bucket b = true -> b_var b = true ->
  sane_time s = true -> sane_time e = true -> 1 <= y <= 9999 -> wf_slot b y sl = true ->
  selb (b_tf b) s e y (s_pos sl) = false ->
  Forall (fun r => in_range_var s e r = false) (s_recs sl).
Proof.
  intros W V Hs He Hy Ws Sel. pose proof (wf_bucket_tf b W) as T. pose proof (tf_pos _ T) as P.
  destruct (wf_slot_pos b y sl Ws) as (Hp & _ & _).
  destruct (wf_slot_var b y sl V Ws) as [_ F].
  rewrite (selb_range _ s e y (s_pos sl) T Hs He Hy Hp) in Sel.
  destruct (pos_ok_spec _ _ _ T Hp) as (_ & P2 & P3 & P4).
  destruct (q_year s Hs) as [_ Rs]. pose proof (q_bracket s Hs) as Bs.
  (* the gap: a slot starting before the interval of s ends at or before its start *)
  assert (Gap : slot_start_ns (b_tf b) y (s_pos sl) < istart_ns (b_tf b) s ->
                slot_start_ns (b_tf b) y (s_pos sl) + b_tf b <= istart_ns (b_tf b) s /\ istart_ns (b_tf b) s <= q_ns s).
  { unfold istart_ns, slot_start_ns in *. change (year_of_days (fst s / 86400)) with (qyr s).
    set (n := slot_num (b_tf b) (s_pos sl)) in *.
    set (ks := (q_ns s - year_start_ns (qyr s)) / b_tf b).
    pose proof (div_mul_bracket (q_ns s - year_start_ns (qyr s)) (b_tf b) P) as Ds. fold ks in Ds.
    assert (K0 : 0 <= ks * b_tf b).
    { assert (0 <= ks) by (apply Z.div_pos; lia). nia. }
    intros Lt. split; [|lia].
    destruct (Z.lt_trichotomy y (qyr s)) as [L|[E|G]].
    - pose proof (year_start_mono (y + 1) (qyr s) ltac:(lia)). lia.
    - rewrite E in *. assert (n < ks) by nia. pose proof (mul_lt_step n ks (b_tf b) P H). lia.
    - pose proof (year_start_mono (qyr s + 1) y ltac:(lia)). lia. }
  eapply Forall_impl; [|exact F]. cbv beta. intros r (_ & _ & B). unfold in_range_var.
  apply andb_false_iff in Sel as [Sel|Sel].
  - apply Z.leb_gt in Sel. destruct (Gap Sel) as [G1 G2].
    apply andb_false_iff. left. apply Z.leb_gt. lia.
  - apply Z.leb_gt in Sel. apply andb_false_iff. right. apply Z.leb_gt. lia.
Qed.

Definition selg (b : bucket) (s e : qtime) (f : yfile) (sl : slot) : bool :=
  selb (b_tf b) s e (y_year f) (s_pos sl) && occupied sl.

Lemma cand_eq b s e : wf_bucket b = true -> sane_time s = true -> sane_time e = true ->
  flat_map (fun f => flat_map s_recs (scan_file (b_tf b) (b_reclen b) (q_go s) (q_go e) f)) (b_files b)
  = flat_map (fun f => flat_map s_recs (filter (selg b s e f) (y_slots f))) (b_files b).
Proof.
  intros W Hs He. pose proof (wf_bucket_tf b W) as T. pose proof (wf_bucket_reclen b W) as Hr.
  pose proof (wf_bucket_files b W) as Ff. rewrite Forall_forall in Ff.
  apply flat_map_ext_in. intros f Hf. destruct (wf_file_spec b f (Ff f Hf)) as (Hy & _ & _).
  destruct f as [y sls]. cbn [y_year y_slots] in *. now rewrite scan_file_sel by assumption.
Qed.

Lemma filter_length_le' {A} (g : A -> bool) l : (length (filter g l) <= length l)%nat.
Proof. induction l as [|x l IH]; cbn; [lia|]. destruct (g x); cbn; lia. Qed.

Lemma Forall_filter {A} (P : A -> Prop) (g : A -> bool) l : Forall P l -> Forall P (filter g l).
Proof.
  intros H. apply Forall_forall. intros x Hx. apply filter_In in Hx as [Hx _].
  rewrite Forall_forall in H. now apply H.
Qed.

(** restricting to the selected slots loses no record of the range *)
Lemma filter_all_cand b s e : wf_bucket b = true -> b_var b = true ->
  sane_time s = true -> sane_time e = true ->
  filter (in_range_var s e) (var_rows_all b)
  = filter (in_range_var s e) (flat_map (fun f => flat_map s_recs (filter (selg b s e f) (y_slots f))) (b_files b)).
Proof.
  intros W V Hs He. pose proof (wf_bucket_files b W) as Ff. rewrite Forall_forall in Ff.
  unfold var_rows_all. rewrite !filter_flat_map. apply flat_map_ext_in. intros f Hf.
  destruct (wf_file_spec b f (Ff f Hf)) as (Hy & _ & Fs).
  induction (y_slots f) as [|sl sls IH]; [reflexivity|].
  inversion Fs as [|? ? Ws Fs']; subst. specialize (IH Fs').
  destruct (wf_slot_pos b _ sl Ws) as (_ & _ & Ho).
  cbn [filter]. unfold selg at 1. rewrite Ho, andb_true_r.
  destruct (selb (b_tf b) s e (y_year f) (s_pos sl)) eqn:Sel.
  - cbn [flat_map]. rewrite !filter_app. now rewrite IH.
  - cbn [flat_map]. rewrite filter_app, IH.
    rewrite (filter_none _ _ (nosel_out b s e _ sl W V Hs He Hy Ws Sel)). reflexivity.
Qed.

Theorem read_var_filter b s e :
  wf_bucket b = true -> b_var b = true -> sane_time s = true -> sane_time e = true ->
  guard_C11 b s e = true ->
  read_var b (q_go s) (q_go e) = Ok (enc_rows (filter (in_range_var s e) (var_rows_all b))).
Proof.
  intros W V Hs He G. unfold guard_C11 in G. rewrite V in G.
  unfold read_var. destruct (var_candidates b (q_go s) (q_go e)) as [c| |] eqn:Ec; try discriminate.
  rename G into L. apply Z.leb_le in L.
  cbn [bindR]. f_equal.
  unfold var_candidates in Ec. apply read_var_files_ok in Ec. rewrite (cand_eq b s e W Hs He) in Ec.
  destruct (bucket_rows b (selg b s e) W V) as [Srt Good]. cbv zeta in Srt, Good. rewrite <- Ec in Srt, Good.
  pose proof (wf_bucket_vrl b W V) as Hv.
  set (plen := (Z.to_nat (b_vrl b) - 4)%nat) in *.
  assert (Erl : Z.to_nat (b_vrl b) = (plen + 4)%nat) by (subst plen; lia).
  assert (Fwf : Forall (wf_row plen) c) by (eapply Forall_impl; [|exact Good]; intros r [A _]; exact A).
  assert (Fsane : Forall (fun r => sane_row r = true) c) by (eapply Forall_impl; [|exact Good]; intros r [_ A]; exact A).
  rewrite Erl, (trim_range_refines plen _ _ c Fwf).
  rewrite (trim_rows_filter _ _ c (sorted_tns_rows c Fsane Srt)).
  assert (Ef : filter (in_range_row (q_go s) (q_go e)) c = filter (in_range_var s e) c).
  { apply filter_ext_in. intros r Hr. rewrite Forall_forall in Fsane. now apply in_range_row_var; [| |apply Fsane]. }
  rewrite Ef.
  (* the row limit MaxInt32 is not reached *)
  unfold trim_limit. rewrite row_length_eq.
  rewrite (enc_rows_length plen _ (Forall_filter _ _ _ Fwf)), Nat.div_mul by lia.
  pose proof (filter_length_le' (in_range_var s e) c) as Lf.
  replace (maxInt32 <? Z.of_nat (length (filter (in_range_var s e) c))) with false
    by (symmetry; apply Z.ltb_ge; lia).
  f_equal. rewrite Ec. symmetry. now apply filter_all_cand.
Qed.

(* ------------------------------------------------------------------ the query, both record types *)

(** the specified answer: the rows of the unrestricted result that are in range, in the same order *)
Definition spec_C11 (b : bucket) (s e : qtime) : list byte :=
  if b_var b then enc_rows (filter (in_range_var s e) (var_rows_all b))
  else concat (map enc_frow (filter (in_range_fixed (b_tf b) s e) (fixed_rows_all b))).

(** a sane upper bound is below MaxTime: Query.SetEnd leaves it alone *)
Lemma clamp_end_sane e : sane_time e = true -> clamp_end (q_go e) = q_go e.
Proof.
  intros H. rewrite (q_go_sane e H). apply sane_time_spec in H as [Hs _].
  unfold clamp_end, t_unix. cbn [g_ext]. unfold sec_lo, sec_hi, unixToInternal, maxSec in *.
  replace (fst e + 62135596800 - 62135596800) with (fst e) by lia.
  rewrite wrap_small by i64_small.
  replace (9223371974719179007 <? fst e) with false by (symmetry; apply Z.ltb_ge; lia). reflexivity.
Qed.

Theorem exec_query_range b s e : in_domain_C11 b s e = true ->
  exec_query b (q_go s) (q_go e) = Ok (spec_C11 b s e).
Proof.
  unfold in_domain_C11. rewrite !andb_true_iff. intros (((W & Hs) & He) & G).
  pose proof (queryable_self _ (wf_bucket_is_tf b W)) as Q.
  unfold exec_query, read_bucket, spec_C11. rewrite Q, (clamp_end_sane e He).
  destruct (b_var b) eqn:V.
  - now apply read_var_filter.
  - now rewrite read_fixed_filter.
Qed.

Lemma prop_C11_of_exec b s e : in_domain_C11 b s e = true -> prop_C11 b s e = true.
Proof.
  intros D. pose proof (exec_query_range b s e D) as H. pose proof D as D0.
  unfold in_domain_C11 in D. rewrite !andb_true_iff in D. destruct D as (((W & _) & _) & _).
  pose proof (queryable_self _ (wf_bucket_is_tf b W)) as Q.
  unfold in_domain_C11 in D0. rewrite !andb_true_iff in D0. destruct D0 as (((_ & _) & He) & _).
  unfold exec_query, read_bucket, spec_C11 in H. rewrite Q, (clamp_end_sane e He) in H. unfold prop_C11.
  destruct (b_var b).
  - rewrite H. apply bytes_eqb_eq. reflexivity.
  - inversion H as [H1]. apply bytes_eqb_eq. reflexivity.
Qed.

(** a range that contains every stored row returns the unrestricted result *)
Corollary exec_query_whole b s e : in_domain_C11 b s e = true ->
  (if b_var b then forallb (in_range_var s e) (var_rows_all b)
   else forallb (in_range_fixed (b_tf b) s e) (fixed_rows_all b)) = true ->
  exec_query b (q_go s) (q_go e) =
  Ok (if b_var b then enc_rows (var_rows_all b) else concat (map enc_frow (fixed_rows_all b))).
Proof.
  intros D A. rewrite (exec_query_range b s e D). unfold spec_C11. destruct (b_var b).
  - now rewrite (filter_all _ _ (forallb_Forall _ _ A)).
  - now rewrite (filter_all _ _ (forallb_Forall _ _ A)).
Qed.
