(** C11, end to end: on well-formed file states and sane bounds the plan of NewIOPlan selects exactly
    the slots whose interval start lies in [interval_start(start), end]; hence the fixed-length read
    is the range filter of all rows, and the variable-length read (inside the F11 guard) is the
    full-precision range filter of all records. *)
From Coq Require Import ZArith List Bool Lia Sorting.Sorted.
From Coq.Strings Require Import Byte.
Import ListNotations.
Require Import MS.Base.GoInt MS.Base.Res MS.Base.Hex MS.Base.Bytes MS.Base.Civil
               MS.Generated.Src_query MS.Model.QTime MS.Model.Trim MS.Model.RangeRead MS.Model.RangeSpec
               MS.Proofs.QTime_facts MS.Proofs.Trim_facts.
Local Open Scope Z_scope.

(* ------------------------------------------------------------------ arithmetic helpers *)

Lemma mul_le_cancel_r a b r : 0 < r -> (a * r <= b * r <-> a <= b).
Proof. intros Hr. split; intros H; nia. Qed.

Lemma mul_lt_step a b r : 0 < r -> a < b -> a * r + r <= b * r.
Proof. intros Hr H. nia. Qed.

Lemma div_mul_bracket a tf : 0 < tf -> a / tf * tf <= a < a / tf * tf + tf.
Proof. intros H. Z.div_mod_to_equations. nia. Qed.

(** k <= a / tf  <->  k * tf <= a *)
Lemma le_div_iff a k tf : 0 < tf -> (k <= a / tf <-> k * tf <= a).
Proof. intros H. pose proof (div_mul_bracket a tf H). split; intros; nia. Qed.

Lemma sane_time_spec t : sane_time t = true <-> saneP (fst t) (snd t).
Proof.
  unfold sane_time, saneP. rewrite !andb_true_iff, !Z.leb_le, !Z.ltb_lt.
  change (86400 * dby 1) with sec_lo. change (86400 * dby 10000) with sec_hi. tauto.
Qed.

Lemma q_go_sane t : sane_time t = true -> q_go t = mkT (fst t + unixToInternal) (snd t).
Proof. intros H. apply sane_time_spec in H. unfold q_go. now apply go_unix_sane. Qed.

(** the year of a sane bound, and its bracket in nanoseconds *)
Definition qyr (t : qtime) : Z := yr (fst t).

Lemma q_year t : sane_time t = true -> t_year (q_go t) = qyr t /\ 1 <= qyr t <= 9999.
Proof.
  intros H. apply sane_time_spec in H. split; [ now apply t_year_sane | apply yr_range; apply H ].
Qed.

Lemma q_bracket t : sane_time t = true ->
  year_start_ns (qyr t) <= q_ns t < year_start_ns (qyr t + 1).
Proof.
  intros H. apply sane_time_spec in H as [Hs Hn]. pose proof (yr_bracket (fst t)) as B.
  unfold year_start_ns, q_ns, tns, qyr, nsPerSec in *. nia.
Qed.

Lemma year_start_mono y y' : y <= y' -> year_start_ns y <= year_start_ns y'.
Proof. intros H. pose proof (dby_mono_le y y' H). unfold year_start_ns, nsPerSec. lia. Qed.

Lemma year_start_step y : year_start_ns (y + 1) = year_start_ns y + days_in_year y * utils_Day.
Proof. unfold year_start_ns, nsPerSec, utils_Day. rewrite dby_step. lia. Qed.

(* ------------------------------------------------------------------ timeframes and slots *)

Definition tf_ok (tf : Z) : Prop :=
  exists m q, tf = nsPerSec * m /\ 0 < m /\ utils_Day = tf * q /\ 0 < q /\ q <= 86400.

Lemma is_tf_ok tf : is_tf tf = true -> tf_ok tf.
Proof. intros H. exact (is_tf_facts tf H). Qed.

Lemma tf_pos tf : tf_ok tf -> 0 < tf.
Proof. intros (m & q & A & B & C & D & E). unfold nsPerSec in A. lia. Qed.

Lemma nslots_mul tf y : tf_ok tf -> nslots tf y * tf = days_in_year y * utils_Day /\ 0 < nslots tf y <= 366 * 86400.
Proof.
  intros (m & q & A & B & C & D & E). unfold nslots. pose proof (days_in_year_range y) as R.
  rewrite C. replace (days_in_year y * (tf * q)) with (days_in_year y * q * tf) by lia.
  assert (0 < tf) by (unfold nsPerSec in A; lia).
  rewrite Z.div_mul by lia. split; [lia | nia].
Qed.

(** a slot position inside the year: its interval lies inside the year *)
Lemma pos_ok_spec tf y pos : tf_ok tf -> pos_ok tf y pos = true ->
  1 <= pos <= 366 * 86400 /\ 0 <= slot_num tf pos < nslots tf y
  /\ year_start_ns y <= slot_start_ns tf y pos
  /\ slot_start_ns tf y pos + tf <= year_start_ns (y + 1).
Proof.
  intros T H. unfold pos_ok in H. apply andb_true_iff in H as [H1 H2]. apply Z.leb_le in H1. apply Z.ltb_lt in H2.
  destruct (nslots_mul tf y T) as [M R]. pose proof (tf_pos tf T) as P.
  assert (N : 0 <= slot_num tf pos) by (unfold slot_num; destruct (tf =? utils_Day); lia).
  assert (U : pos <= 366 * 86400) by (unfold slot_num in H2; destruct (tf =? utils_Day); lia).
  split; [lia|]. split; [lia|]. unfold slot_start_ns. rewrite year_start_step, <- M. split; nia.
Qed.

(* ------------------------------------------------------------------ closed forms of the Go functions *)

(** TimeToIndex of a sane bound: the position whose interval contains it *)
Lemma TimeToIndex_sane tf t : tf_ok tf -> sane_time t = true ->
  let p := TimeToIndex (q_go t) tf in
  slot_num tf p = (q_ns t - year_start_ns (qyr t)) / tf /\ 0 <= slot_num tf p /\ 0 <= p <= 366 * 86400 + 1.
Proof.
  intros T H. pose proof (tf_pos tf T) as P. destruct T as (m & q & A & B & C & D & E).
  pose proof H as S. apply sane_time_spec in S. pose proof S as [Hs Hn].
  destruct (t_sub_jan1 _ _ S) as [Esub Rsub]. fold (qyr t) in *.
  assert (Ens : q_ns t - year_start_ns (qyr t) = (fst t - 86400 * dby (qyr t)) * nsPerSec + snd t).
  { unfold q_ns, tns, year_start_ns. lia. }
  cbv zeta. unfold TimeToIndex, slot_num. unfold q_go. rewrite (t_year_sane _ _ S). fold (qyr t).
  destruct (tf =? utils_Day) eqn:Ed.
  - apply Z.eqb_eq in Ed. rewrite (t_yday0_sane _ _ S). fold (qyr t).
    pose proof (yr_bracket (fst t)) as Br. fold (qyr t) in Br. rewrite dby_step in Br.
    pose proof (days_in_year_range (qyr t)) as Dr.
    assert (Eq : fst t / 86400 - dby (qyr t) = (q_ns t - year_start_ns (qyr t)) / tf).
    { rewrite Ens, Ed. unfold utils_Day, nsPerSec in *. Z.div_mod_to_equations. lia. }
    assert (Rg : 0 <= fst t / 86400 - dby (qyr t) <= 366) by (Z.div_mod_to_equations; lia).
    rewrite wrap_small by i64_small. rewrite Eq in *. lia.
  - rewrite Esub, <- Ens. rewrite Z.quot_div_nonneg by lia.
    assert (Rg : 0 <= (q_ns t - year_start_ns (qyr t)) / tf <= 366 * 86400).
    { split; [apply Z.div_pos; lia|].
      apply Z.div_le_upper_bound; [lia|]. unfold nsPerSec in *. nia. }
    rewrite wrap_small by i64_small. lia.
Qed.

(** the epoch packingReader computes for an occupied, well-placed slot *)
Lemma slot_epoch_wf tf y pos : tf_ok tf -> 1 <= y <= 9999 -> pos_ok tf y pos = true ->
  t_unix (IndexToTime pos tf y) * nsPerSec = slot_start_ns tf y pos.
Proof.
  intros T Hy Hp. destruct (pos_ok_spec tf y pos T Hp) as (P1 & P2 & P3 & P4).
  destruct (nslots_mul tf y T) as [M R]. pose proof (tf_pos tf T) as P. destruct T as (m & q & A & B & C & D & E).
  pose proof (dby_bounds y ltac:(lia)) as Db.
  unfold IndexToTime, slot_start_ns, slot_num in *. destruct (tf =? utils_Day) eqn:Ed.
  - apply Z.eqb_eq in Ed. rewrite Ed in *. clear Ed tf. pose proof (days_in_year_range y) as Dr.
    assert (Hn : nslots utils_Day y = days_in_year y) by (unfold utils_Day in M |- *; lia).
    rewrite go_jan_day_sane by lia. unfold t_unix, year_start_ns. cbn [g_ext].
    replace (86400 * (dby y + pos) + unixToInternal - unixToInternal) with (86400 * (dby y + pos)) by lia.
    rewrite wrap_small by i64_small. unfold utils_Day, nsPerSec. lia.
  - assert (Hd : 0 <= tf * (pos - 1) < 366 * utils_Day).
    { pose proof (days_in_year_range y). nia. }
    rewrite (wrap_small I64 (pos - 1)) by i64_small.
    rewrite (wrap_small I64 (tf * (pos - 1))) by (unfold utils_Day in Hd; i64_small).
    rewrite go_jan1_sane by lia. unfold t_add. cbn [g_ext g_ns].
    assert (Er : Z.rem (tf * (pos - 1)) nsPerSec = 0).
    { rewrite Z.rem_mod_nonneg by (unfold nsPerSec; lia). rewrite A.
      replace (nsPerSec * m * (pos - 1)) with (m * (pos - 1) * nsPerSec) by lia. apply Z.mod_mul. unfold nsPerSec; lia. }
    assert (Eq : Z.quot (tf * (pos - 1)) nsPerSec = m * (pos - 1)).
    { rewrite Z.quot_div_nonneg by (unfold nsPerSec; lia). rewrite A.
      replace (nsPerSec * m * (pos - 1)) with (m * (pos - 1) * nsPerSec) by lia. apply Z.div_mul. unfold nsPerSec; lia. }
    rewrite Er, Eq. cbn [Z.add]. unfold nsPerSec at 1 2. cbn [Z.leb Z.ltb Z.compare].
    unfold t_unix. cbn [g_ext].
    assert (Hm : 0 <= m * (pos - 1) <= 366 * 86400).
    { unfold utils_Day, nsPerSec in *. nia. }
    rewrite (wrap_small I64 (86400 * dby y + unixToInternal + m * (pos - 1))) by (unfold unixToInternal; i64_small).
    replace (86400 * dby y + unixToInternal + m * (pos - 1) - unixToInternal) with (86400 * dby y + m * (pos - 1)) by lia.
    rewrite wrap_small by i64_small. unfold year_start_ns. rewrite A. lia.
Qed.

Lemma file_size_sane tf y reclen : tf_ok tf -> 1 <= y <= 9999 -> 8 <= reclen <= 65536 ->
  file_size tf y reclen = Headersize + nslots tf y * reclen.
Proof.
  intros T Hy Hr. destruct (nslots_mul tf y T) as [M R]. pose proof (tf_pos tf T) as P.
  unfold file_size, FileSize. rewrite nanosecondsInYear_sane by lia.
  rewrite Z.quot_div_nonneg by (pose proof (days_in_year_range y); unfold utils_Day; lia).
  fold (nslots tf y). unfold Headersize.
  rewrite (wrap_small I64 (nslots tf y)) by i64_small.
  rewrite (wrap_small I64 reclen) by i64_small.
  rewrite (wrap_small I64 (nslots tf y * reclen)) by (assert (0 <= nslots tf y * reclen <= 366 * 86400 * 65536) by nia; i64_small).
  rewrite wrap_small by (assert (0 <= nslots tf y * reclen <= 366 * 86400 * 65536) by nia; i64_small).
  reflexivity.
Qed.

Lemma IndexToOffset_sane idx reclen : 0 <= idx <= 366 * 86400 + 1 -> 8 <= reclen <= 65536 ->
  IndexToOffset idx reclen = Headersize + (idx - 1) * reclen.
Proof.
  intros Hi Hr. unfold IndexToOffset, Headersize.
  rewrite (wrap_small I64 (idx - 1)) by i64_small.
  rewrite (wrap_small I64 reclen) by i64_small.
  assert (- 65536 <= (idx - 1) * reclen <= 366 * 86400 * 65536) by nia.
  rewrite (wrap_small I64 ((idx - 1) * reclen)) by i64_small.
  rewrite wrap_small by i64_small. lia.
Qed.

(* ------------------------------------------------------------------ the plan, in slot positions *)

Lemma bool_eq_iff (a b : bool) : (a = true <-> b = true) -> a = b.
Proof. destruct a, b; intuition congruence. Qed.

(** a scan given in units of the record length *)
Lemma in_scan_units r a L sl : 0 < r ->
  in_scan r (Headersize + (a - 1) * r) (L * r) sl
  = (a <=? s_pos sl) && (s_pos sl <? a + L) && negb (s_idx sl =? 0).
Proof.
  intros Hr. unfold in_scan, slot_off. f_equal. apply bool_eq_iff.
  rewrite !andb_true_iff, !Z.leb_le, Z.ltb_lt. split; intros [A B]; split; nia.
Qed.

(** first and last position NewIOPlan scans in the file of year [y] *)
Definition plan_first (tf : Z) (s : qtime) (y : Z) : Z :=
  if y =? qyr s then TimeToIndex (q_go s) tf else 1.
Definition plan_last (tf : Z) (e : qtime) (y : Z) : Z :=
  if y =? qyr e then TimeToIndex (q_go e) tf else nslots tf y.
Definition plan_count (tf : Z) (s e : qtime) (y : Z) : Z :=
  let c := plan_last tf e y - plan_first tf s y + 1 in
  if nslots tf y + 1 <? c then nslots tf y + 1 else c.

Lemma plan_file_sane tf r s e y :
  tf_ok tf -> 8 <= r <= 65536 -> sane_time s = true -> sane_time e = true -> 1 <= y <= 9999 ->
  plan_file tf r (q_go s) (q_go e) y =
  if (qyr s <=? y) && (y <=? qyr e)
  then Some (Headersize + (plan_first tf s y - 1) * r, plan_count tf s e y * r) else None.
Proof.
  intros T Hr Hs He Hy.
  destruct (q_year s Hs) as [Ys Rs]. destruct (q_year e He) as [Ye Re].
  destruct (TimeToIndex_sane tf s T Hs) as (_ & _ & Ps). destruct (TimeToIndex_sane tf e T He) as (_ & _ & Pe).
  destruct (nslots_mul tf y T) as [_ Rn].
  unfold plan_file. rewrite Ys, Ye.
  rewrite (wrap_small I16 (qyr s)) by (unfold in_ity, ity_min, ity_max; cbn [ity_signed ity_bits]; norm_pows; lia).
  rewrite (wrap_small I16 (qyr e)) by (unfold in_ity, ity_min, ity_max; cbn [ity_signed ity_bits]; norm_pows; lia).
  destruct ((qyr s <=? y) && (y <=? qyr e)); [|reflexivity].
  unfold TimeToOffset. rewrite !IndexToOffset_sane by lia. rewrite file_size_sane by assumption.
  unfold plan_count, plan_first, plan_last.
  set (ps := TimeToIndex (q_go s) tf) in *. set (pe := TimeToIndex (q_go e) tf) in *. set (n := nslots tf y) in *.
  assert (Bn : 0 <= n * r <= 366 * 86400 * 65536) by nia.
  assert (Bs : - 65536 <= (ps - 1) * r <= 366 * 86400 * 65536) by nia.
  assert (Be : - 65536 <= (pe - 1) * r <= 366 * 86400 * 65536) by nia.
  unfold Headersize in *.
  rewrite (wrap_small I64 (37024 + (pe - 1) * r + r)) by i64_small.
  rewrite (wrap_small I64 (37024 + n * r - 37024)) by i64_small.
  rewrite (wrap_small I64 (37024 + n * r - 37024 + r)) by i64_small.
  destruct (y =? qyr s), (y =? qyr e).
  - rewrite wrap_small by i64_small.
    replace (37024 + (pe - 1) * r + r - (37024 + (ps - 1) * r)) with ((pe - ps + 1) * r) by lia.
    replace (37024 + n * r - 37024 + r) with ((n + 1) * r) by lia.
    replace ((n + 1) * r <? (pe - ps + 1) * r) with (n + 1 <? pe - ps + 1)
      by (apply bool_eq_iff; rewrite !Z.ltb_lt; split; intros; nia).
    destruct (n + 1 <? pe - ps + 1); reflexivity.
  - rewrite wrap_small by i64_small.
    replace (37024 + n * r - (37024 + (ps - 1) * r)) with ((n - ps + 1) * r) by lia.
    replace (37024 + n * r - 37024 + r) with ((n + 1) * r) by lia.
    replace ((n + 1) * r <? (n - ps + 1) * r) with (n + 1 <? n - ps + 1)
      by (apply bool_eq_iff; rewrite !Z.ltb_lt; split; intros; nia).
    destruct (n + 1 <? n - ps + 1); reflexivity.
  - rewrite wrap_small by i64_small.
    replace (37024 + (pe - 1) * r + r - 37024) with ((pe - 1 + 1) * r) by lia.
    replace (37024 + n * r - 37024 + r) with ((n + 1) * r) by lia.
    replace ((n + 1) * r <? (pe - 1 + 1) * r) with (n + 1 <? pe - 1 + 1)
      by (apply bool_eq_iff; rewrite !Z.ltb_lt; split; intros; nia).
    replace (37024 + (1 - 1) * r) with 37024 by lia.
    destruct (n + 1 <? pe - 1 + 1); reflexivity.
  - rewrite wrap_small by i64_small.
    replace (37024 + n * r - 37024 + r) with ((n + 1) * r) by lia.
    replace (37024 + n * r - 37024) with ((n - 1 + 1) * r) by lia.
    replace ((n + 1) * r <? (n - 1 + 1) * r) with (n + 1 <? n - 1 + 1)
      by (apply bool_eq_iff; rewrite !Z.ltb_lt; split; intros; nia).
    replace (37024 + (1 - 1) * r) with 37024 by lia.
    destruct (n + 1 <? n - 1 + 1); reflexivity.
Qed.

(** the positions NewIOPlan selects in the file of year [y] *)
Definition selb (tf : Z) (s e : qtime) (y pos : Z) : bool :=
  (qyr s <=? y) && (y <=? qyr e)
  && ((plan_first tf s y <=? pos) && (pos <? plan_first tf s y + plan_count tf s e y)).

Lemma scan_file_sel tf r s e y sls :
  tf_ok tf -> 8 <= r <= 65536 -> sane_time s = true -> sane_time e = true -> 1 <= y <= 9999 ->
  scan_file tf r (q_go s) (q_go e) (mkYF y sls) = filter (fun sl => selb tf s e y (s_pos sl) && occupied sl) sls.
Proof.
  intros T Hr Hs He Hy. unfold scan_file. cbn [y_year y_slots].
  rewrite plan_file_sane by assumption. unfold selb.
  destruct ((qyr s <=? y) && (y <=? qyr e)).
  - apply filter_ext. intros sl. rewrite in_scan_units by lia. reflexivity.
  - cbn [andb]. induction sls as [|sl sls IH]; [reflexivity | exact IH].
Qed.

Lemma slot_num_shift tf : exists d, (d = 0 \/ d = 1) /\ forall p, slot_num tf p = p - d.
Proof. unfold slot_num. destruct (tf =? utils_Day); [exists 0 | exists 1]; split; auto; intros; lia. Qed.

(** the heart of C11 for the plan: a well-placed slot is selected iff its interval start lies
    between the start of the interval containing [s] and [e] *)
Lemma selb_range tf s e y pos :
  tf_ok tf -> sane_time s = true -> sane_time e = true -> 1 <= y <= 9999 -> pos_ok tf y pos = true ->
  selb tf s e y pos =
  (istart_ns tf s <=? slot_start_ns tf y pos) && (slot_start_ns tf y pos <=? q_ns e).
Proof.
  intros T Hs He Hy Hp. pose proof (tf_pos tf T) as P.
  destruct (q_year s Hs) as [_ Rs]. destruct (q_year e He) as [_ Re].
  pose proof (q_bracket s Hs) as Bs. pose proof (q_bracket e He) as Be.
  destruct (TimeToIndex_sane tf s T Hs) as (Ns & Ns0 & Ps). destruct (TimeToIndex_sane tf e T He) as (Ne & Ne0 & Pe).
  destruct (pos_ok_spec tf y pos T Hp) as (P1 & P2 & P3 & P4).
  destruct (nslots_mul tf y T) as [_ Rn].
  destruct (slot_num_shift tf) as (d & Hd & Sh).
  unfold selb, plan_count, plan_first, plan_last, istart_ns.
  change (year_of_days (fst s / 86400)) with (qyr s).
  set (ps := TimeToIndex (q_go s) tf) in *. set (pe := TimeToIndex (q_go e) tf) in *.
  set (N := nslots tf y) in *.
  set (ks := (q_ns s - year_start_ns (qyr s)) / tf) in *.
  set (ke := (q_ns e - year_start_ns (qyr e)) / tf) in *.
  pose proof (div_mul_bracket (q_ns s - year_start_ns (qyr s)) tf P) as Ds. fold ks in Ds.
  pose proof (div_mul_bracket (q_ns e - year_start_ns (qyr e)) tf P) as De. fold ke in De.
  unfold slot_start_ns in *. rewrite Sh in *. set (n := pos - d) in *.
  assert (Hps : ps = ks + d) by lia. assert (Hpe : pe = ke + d) by lia.
  (* order facts between interval numbers and their starts *)
  assert (M1 : ks <= n <-> ks * tf <= n * tf) by (symmetry; apply mul_le_cancel_r; lia).
  assert (M2 : n <= ke <-> n * tf <= ke * tf) by (symmetry; apply mul_le_cancel_r; lia).
  assert (M3 : n < ks -> n * tf + tf <= ks * tf) by (apply mul_lt_step; lia).
  assert (M4 : ke < n -> ke * tf + tf <= n * tf) by (apply mul_lt_step; lia).
  assert (Y1 : y < qyr s -> year_start_ns (y + 1) <= year_start_ns (qyr s)) by (intros; apply year_start_mono; lia).
  assert (Y2 : qyr s < y -> year_start_ns (qyr s + 1) <= year_start_ns y) by (intros; apply year_start_mono; lia).
  assert (Y3 : y < qyr e -> year_start_ns (y + 1) <= year_start_ns (qyr e)) by (intros; apply year_start_mono; lia).
  assert (Y4 : qyr e < y -> year_start_ns (qyr e + 1) <= year_start_ns y) by (intros; apply year_start_mono; lia).
  apply bool_eq_iff. rewrite !andb_true_iff, !Z.leb_le, !Z.ltb_lt.
  destruct (Z.eqb_spec y (qyr s)) as [E1|E1]; destruct (Z.eqb_spec y (qyr e)) as [E2|E2];
    try rewrite <- E1 in *; try rewrite <- E2 in *;
    match goal with |- context [if ?c then _ else _] => destruct c eqn:Ec end;
    try apply Z.ltb_lt in Ec; try apply Z.ltb_ge in Ec;
    (split; [ intros ((A1 & A2) & A3 & A4) | intros (A1 & A2) ]); repeat split; lia.
Qed.

(* ------------------------------------------------------------------ list helpers *)

Lemma filter_flat_map {A B} (P : B -> bool) (f : A -> list B) l :
  filter P (flat_map f l) = flat_map (fun x => filter P (f x)) l.
Proof. induction l as [|x l IH]; cbn; [reflexivity | now rewrite filter_app, IH]. Qed.

Lemma filter_map_comm {A B} (P : B -> bool) (f : A -> B) l :
  filter P (map f l) = map f (filter (fun x => P (f x)) l).
Proof. induction l as [|x l IH]; cbn; [reflexivity|]. destruct (P (f x)); cbn; now rewrite IH. Qed.

Lemma filter_filter {A} (P Q : A -> bool) l : filter P (filter Q l) = filter (fun x => Q x && P x) l.
Proof. induction l as [|x l IH]; cbn; [reflexivity|]. destruct (Q x); cbn; [destruct (P x)|]; now rewrite IH. Qed.

Lemma flat_map_ext_in {A B} (f g : A -> list B) l : (forall x, In x l -> f x = g x) -> flat_map f l = flat_map g l.
Proof.
  induction l as [|x l IH]; intros H; cbn; [reflexivity|].
  rewrite (H x (or_introl eq_refl)), IH; [reflexivity | intros; apply H; now right].
Qed.

(* ------------------------------------------------------------------ unpacking well-formedness *)

Lemma forallb_Forall {A} (f : A -> bool) l : forallb f l = true -> Forall (fun x => f x = true) l.
Proof. intros H. apply Forall_forall. now apply forallb_forall. Qed.

Lemma wf_bucket_tf b : wf_bucket b = true -> tf_ok (b_tf b).
Proof. unfold wf_bucket. rewrite !andb_true_iff. intros ((((H & _) & _) & _) & _). now apply is_tf_ok. Qed.

Lemma wf_bucket_files b : wf_bucket b = true -> Forall (fun f => wf_file b f = true) (b_files b).
Proof. unfold wf_bucket. rewrite !andb_true_iff. intros (_ & H). now apply forallb_Forall. Qed.

Lemma wf_bucket_reclen b : wf_bucket b = true -> 8 <= b_reclen b <= 65536.
Proof.
  unfold wf_bucket. rewrite !andb_true_iff. intros (((_ & H) & _) & _).
  destruct (b_var b); rewrite !andb_true_iff, ?Z.eqb_eq, ?Z.leb_le in H; lia.
Qed.

Lemma wf_file_spec b f : wf_file b f = true ->
  1 <= y_year f <= 9999 /\ strictly_asc (map s_pos (y_slots f)) = true
  /\ Forall (fun sl => wf_slot b (y_year f) sl = true) (y_slots f).
Proof.
  unfold wf_file. rewrite !andb_true_iff, !Z.leb_le. intros (((A & B) & C) & D).
  repeat split; try assumption. now apply forallb_Forall.
Qed.

Lemma wf_slot_pos b y sl : wf_slot b y sl = true ->
  pos_ok (b_tf b) y (s_pos sl) = true /\ s_idx sl = s_pos sl /\ occupied sl = true.
Proof.
  unfold wf_slot. rewrite !andb_true_iff. intros ((A & B) & _). apply Z.eqb_eq in B.
  split; [assumption|]. split; [assumption|].
  unfold occupied. rewrite B. unfold pos_ok in A. apply andb_true_iff in A as [A _]. apply Z.leb_le in A.
  destruct (Z.eqb_spec (s_pos sl) 0); [lia | reflexivity].
Qed.

(* ------------------------------------------------------------------ fixed-length buckets *)

Theorem read_fixed_filter b s e :
  wf_bucket b = true -> b_var b = false -> sane_time s = true -> sane_time e = true ->
  read_fixed_rows b (q_go s) (q_go e) = filter (in_range_fixed (b_tf b) s e) (fixed_rows_all b).
Proof.
  intros W V Hs He. pose proof (wf_bucket_tf b W) as T. pose proof (wf_bucket_reclen b W) as Hr.
  pose proof (wf_bucket_files b W) as Ff. rewrite Forall_forall in Ff.
  unfold read_fixed_rows, fixed_rows_all. rewrite filter_flat_map.
  apply flat_map_ext_in. intros f Hf. destruct (wf_file_spec b f (Ff f Hf)) as (Hy & _ & Fs).
  destruct f as [y sls]. cbn [y_year y_slots] in *.
  rewrite scan_file_sel by assumption. unfold fixed_rows_of. cbn [y_year].
  rewrite filter_map_comm, filter_filter. apply f_equal.
  apply filter_ext_in. intros sl Hsl. rewrite Forall_forall in Fs.
  destruct (wf_slot_pos b y sl (Fs sl Hsl)) as (Hp & Hi & Ho).
  rewrite Ho, andb_true_r. cbn [andb].
  rewrite (selb_range _ s e y (s_pos sl) T Hs He Hy Hp).
  unfold in_range_fixed, slot_epoch. cbn [fst]. rewrite Hi.
  now rewrite (slot_epoch_wf _ y (s_pos sl) T Hy Hp).
Qed.
