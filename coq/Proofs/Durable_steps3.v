(** Proofs/Durable_steps3.v — checkpoint, rotation, the composite steps, and the run-level theorem:
    every prefix of the system calls of every run is a good crash image. *)
From Coq Require Import ZArith NArith List Bool Lia Permutation.
From Coq.Strings Require Import Byte.
Import ListNotations.
Require Import MS.Base.Res MS.Generated.Src_durab MS.Model.Wal MS.Model.Replay
  MS.Proofs.Durable_wal MS.Proofs.Durable_files MS.Proofs.Durable_exec MS.Proofs.Durable_flush
  MS.Proofs.Durable_recover MS.Proofs.Durable_sem MS.Proofs.Durable_ext MS.Proofs.Durable_crash
  MS.Proofs.Durable_inv MS.Proofs.Durable_steps MS.Proofs.Durable_steps2.
Local Open Scope Z_scope.

Lemma incr_all_pos (l : list tg) : incr_from 0 l -> Forall (fun t => 0 < fst t) l.
Proof. apply incr_all_gt. Qed.

Lemma last_in_nonempty {A} (l : list A) d : l <> [] -> In (last l d) l.
Proof.
  induction l as [|x l IH]; [congruence|]. intros _. destruct l as [|y l]; [left; reflexivity|].
  right. apply IH. discriminate.
Qed.

Section WithClen.
  Variable clen : list record -> Z.
  Hypothesis clen_pos : forall x, 0 < clen x.
  Variable owner2 : Z.

  Notation CrashOK := (CrashOK clen owner2).
  Notation Good := (Good clen owner2).

  (* ---------------------------------------------------------------- checkpoint *)

  Lemma good_ckpt old segs cur im st c :
    BInv old segs cur im st c ->
    Good im c (checkpoint_events (s_wal st) (s_last st)) (with_last st 0).
  Proof.
    intros Hb. pose proof Hb as [Hbw Hw0 Hown Hsegs Hincr [Htp Htg] Hlast [Hq Hqm] Hclean Hmeta Hcst Hnn].
    destruct cur as [|t0 cur0] eqn:Ecur.
    - (* nothing to checkpoint *)
      cbn [map last] in Hlast. unfold checkpoint_events. rewrite Hlast. cbn [Z.eqb].
      split; [|intros j Hj _; cbn in Hj; assert (j = 0)%nat as -> by lia; cbn; eapply binv_crash; eassumption].
      exists old, segs, []. cbn [apply_events fold_left cfold].
      constructor; cbn [with_last s_owner s_wal s_tgid s_last s_queue];
        [exact Hbw|exact Hw0|exact Hown|exact Hsegs|exact Hincr|split; assumption|reflexivity
        |split; assumption|exact Hclean|exact Hmeta|exact Hcst|exact Hnn].
    - rewrite <- Ecur in *. assert (Hne : cur <> []) by (rewrite Ecur; discriminate). clear Ecur t0 cur0.
      set (id := last (map fst cur) 0) in *.
      assert (Hidpos : 0 < id).
      { apply incr_all_pos in Hincr. rewrite Forall_forall in Hincr.
        assert (In id (map fst cur)) by (apply last_in_nonempty; destruct cur; [congruence|discriminate]).
        apply in_map_iff in H as (t & <- & Hin). apply Hincr. apply in_or_app. right. unfold live_tgs. apply in_or_app. right. exact Hin. }
      unfold checkpoint_events. rewrite Hlast, Hw0.
      assert (id =? 0 = false) as -> by (apply Z.eqb_neq; lia).
      (* the invariant after the checkpoint *)
      assert (Hb3 : BInv old (segs ++ [cur]) []
                 (apply_events im [EWalApp 0%N (RTxn id DEST_CHECKPOINT TXN_PREPARING); ESync;
                                   EWalApp 0%N (RTxn id DEST_CHECKPOINT TXN_COMMITCOMPLETE)])
                 (with_last st 0)
                 (cfold c [EWalApp 0%N (RTxn id DEST_CHECKPOINT TXN_PREPARING); ESync;
                           EWalApp 0%N (RTxn id DEST_CHECKPOINT TXN_COMMITCOMPLETE)])).
      { constructor; cbn [with_last s_owner s_wal s_tgid s_last s_queue]; rewrite ?live_tgs_close; try assumption.
        - cbn [apply_events fold_left apply_event upd_wal i_wals]. rewrite Hbw. cbn [aupdate N.eqb wf_status wf_recs].
          rewrite live_items_close, log_of_app. cbn [log_of flat_map item_recs ck_recs]. rewrite <- !app_assoc. reflexivity.
        - apply Forall_app. split; [assumption|constructor; [assumption|constructor]].
        - split; assumption.
        - reflexivity.
        - split; assumption.
        - rewrite Hcst. cbn [cfold fold_left cstep cs_pending cs_all cs_cur].
          change (DEST_CHECKPOINT =? DEST_CHECKPOINT) with true.
          change (TXN_PREPARING =? TXN_COMMITCOMPLETE) with false.
          change (TXN_COMMITCOMPLETE =? TXN_COMMITCOMPLETE) with true. cbn [andb cs_pending cs_all]. reflexivity. }
      split; [exists old, (segs ++ [cur]), []; exact Hb3|].
      intros j Hj _. cbn [length] in Hj.
      (* the image with only the PREPARING record *)
      assert (Hprep : forall imj, i_wals imj = [(0%N, {| wf_status := Some (WFS_OPEN, WRS_NOTREPLAYED, s_owner st);
                         wf_recs := log_of (live_items segs cur) ++ [RTxn id DEST_CHECKPOINT TXN_PREPARING] |})] ->
                       i_files imj = i_files im -> CrashOK imj c).
      { intros imj Hwj Hfj. rewrite Hcst. unfold live_tgs. rewrite app_assoc.
        eapply (crash_clean clen clen_pos owner2 imj _ WFS_OPEN WRS_NOTREPLAYED (s_owner st)).
        - unfold one_wal. exact Hwj.
        - eapply live_shape; try eassumption; [apply (torn_ckprep id)|]. intros ? ? [H|[]]. discriminate.
        - rewrite Hfj. unfold live_tgs in Hclean. rewrite app_assoc in Hclean. exact Hclean. }
      assert (Hcq : cfold c [EWalApp 0%N (RTxn id DEST_CHECKPOINT TXN_PREPARING)] = c).
      { cbn [cfold fold_left cstep]. change (TXN_PREPARING =? TXN_COMMITCOMPLETE) with false. rewrite andb_false_r. reflexivity. }
      destruct j as [|[|[|[|j]]]]; try lia.
      + cbn. eapply binv_crash; eassumption.
      + cbn [firstn]. rewrite Hcq. apply Hprep.
        * cbn [apply_events fold_left apply_event upd_wal i_wals]. rewrite Hbw. reflexivity.
        * reflexivity.
      + cbn [firstn].
        change (cfold c [EWalApp 0%N (RTxn id DEST_CHECKPOINT TXN_PREPARING); ESync])
          with (cfold c [EWalApp 0%N (RTxn id DEST_CHECKPOINT TXN_PREPARING)]).
        rewrite Hcq. apply Hprep.
        * cbn [apply_events fold_left apply_event upd_wal i_wals]. rewrite Hbw. reflexivity.
        * reflexivity.
      + cbn [firstn]. eapply binv_crash; eassumption.
  Qed.

  (* ---------------------------------------------------------------- rotation (only right after a checkpoint) *)

  Lemma good_rotate old segs im st c :
    BInv old segs [] im st c -> Good im c (rotate_events st) st.
  Proof.
    intros Hb. pose proof Hb as [Hbw Hw0 Hown Hsegs Hincr [Htp Htg] Hlast [Hq Hqm] Hclean Hmeta Hcst Hnn].
    unfold rotate_events, status_events. rewrite Hw0.
    assert (Hc1 : cfold c [EWalTrunc 0%N] = c) by (rewrite Hcst; reflexivity).
    assert (Hb3 : forall es, es = [EWalTrunc 0%N; EWalStatus 0%N WFS_OPEN WRS_NOTREPLAYED (s_owner st)]
                        \/ es = [EWalTrunc 0%N; EWalStatus 0%N WFS_OPEN WRS_NOTREPLAYED (s_owner st); EWalFsync 0%N] ->
                  BInv (old ++ live_tgs segs []) [] [] (apply_events im es) st (cfold c es)).
    { intros es Hes.
      assert (Hi : i_wals (apply_events im es) = [(0%N, {| wf_status := Some (WFS_OPEN, WRS_NOTREPLAYED, s_owner st); wf_recs := [] |})]
                   /\ i_files (apply_events im es) = i_files im /\ cfold c es = c).
      { destruct Hes as [-> | ->]; cbn [apply_events fold_left apply_event upd_wal i_wals i_files]; rewrite Hbw, Hcst; auto. }
      destruct Hi as (Hi1 & Hi2 & Hi3).
      assert (Hnil : (old ++ live_tgs segs []) ++ live_tgs [] [] = old ++ live_tgs segs []).
      { unfold live_tgs at 2. cbn [concat app]. apply app_nil_r. }
      constructor; rewrite ?Hi2, ?Hnil;
        [exact Hi1|exact Hw0|exact Hown|constructor|exact Hincr|split; assumption|exact Hlast
        |split; assumption|exact Hclean|constructor| |exact Hnn].
      rewrite Hi3, Hcst. reflexivity. }
    split; [exists (old ++ live_tgs segs []), [], []; apply Hb3; right; reflexivity|].
    intros j Hj _. cbn [length] in Hj. destruct j as [|[|[|[|j]]]]; try lia; cbn [firstn].
    - cbn. eapply binv_crash; eassumption.
    - rewrite Hc1, Hcst. apply (crash_tiny clen clen_pos owner2).
      + cbn [apply_events fold_left apply_event upd_wal i_wals]. rewrite Hbw. reflexivity.
      + exact Hclean.
    - eapply binv_crash; [exact clen_pos|]. apply Hb3. left. reflexivity.
    - eapply binv_crash; [exact clen_pos|]. apply Hb3. right. reflexivity.
  Qed.

  (* ---------------------------------------------------------------- well-formed schedules *)

  Definition step_wf (im : img) (s : sev) : bool :=
    match s with
    | SEnqueue pre bs | SWrite pre bs _ _ =>
        pre_okb (map fst (i_files im)) pre
        && forallb (cmd_okb (fapplys (i_files im) pre)) (flat_map write_records bs)
    | _ => true
    end.

  Fixpoint wf_from (im : img) (st : sstate) (sched : list sev) : bool :=
    match sched with
    | [] => true
    | s :: r =>
        step_wf im s &&
        match exec_sev clen im st s with
        | Ok (evs, st') => wf_from (apply_events im evs) st' r
        | _ => false
        end
    end.

  Lemma good_step old segs cur im st c s evs st' :
    BInv old segs cur im st c -> step_wf im s = true -> exec_sev clen im st s = Ok (evs, st') ->
    Good im c evs st'.
  Proof.
    intros Hb Hwf Hex. destruct s as [pre bs | ord | i | pre bs ord i | rot | ord]; cbn [exec_sev step_wf] in *.
    - apply andb_prop in Hwf as [Hpre Hcm]. rewrite (pre_okb_is_pre _ _ Hpre) in Hex.
      inversion Hex; subst. eapply good_enqueue; eassumption.
    - eapply good_flush; eassumption.
    - inversion Hex; subst. eapply good_ack; eassumption.
    - apply andb_prop in Hwf as [Hpre Hcm]. rewrite (pre_okb_is_pre _ _ Hpre) in Hex.
      destruct (flush clen (apply_events im pre) _ ord) as [[evs1 st1]| |] eqn:Efl; try discriminate.
      inversion Hex; subst. eapply Good_seq; [eapply good_enqueue; eassumption|].
      intros old1 segs1 cur1 Hb1. eapply Good_seq; [eapply good_flush; eassumption|].
      intros old2 segs2 cur2 Hb2. eapply good_ack; eassumption.
    - inversion Hex; subst. eapply Good_seq; [eapply good_ckpt; eassumption|].
      intros old1 segs1 cur1 Hb1. destruct rot.
      + (* after a checkpoint nothing is pending: [cur1] is empty because [s_last] is 0 *)
        assert (cur1 = []).
        { destruct Hb1 as [_ _ _ _ Hi _ Hl _ _ _ _ _]. cbn [with_last s_last] in Hl.
          destruct cur1 as [|t1 cur1']; [reflexivity|]. exfalso.
          apply incr_all_pos in Hi. rewrite Forall_forall in Hi.
          assert (In (last (map fst (t1 :: cur1')) 0) (map fst (t1 :: cur1'))) by (apply last_in_nonempty; discriminate).
          apply in_map_iff in H as (t & Ht & Hin).
          assert (0 < fst t) by (apply Hi; apply in_or_app; right; unfold live_tgs; apply in_or_app; right; exact Hin). lia. }
        subst cur1. change (rotate_events st) with (rotate_events (with_last st 0)).
        eapply good_rotate; eassumption.
      + eapply Good_nil; eassumption.
    - destruct (flush clen im st ord) as [[evs1 st1]| |] eqn:Efl; try discriminate.
      inversion Hex; subst. eapply Good_seq; [eapply good_flush; eassumption|].
      intros old1 segs1 cur1 Hb1. eapply good_ckpt; eassumption.
  Qed.

  Lemma run_good sched : forall old segs cur im st c tr,
    BInv old segs cur im st c -> wf_from im st sched = true -> run_from clen im st sched = Ok tr ->
    exists st', Good im c tr st'.
  Proof.
    induction sched as [|s r IH]; intros old segs cur im st c tr Hb Hwf Hrun.
    - inversion Hrun; subst. exists st. eapply Good_nil; eassumption.
    - cbn [wf_from run_from] in *. apply andb_prop in Hwf as [Hs Hr].
      destruct (exec_sev clen im st s) as [[evs st1]| |] eqn:Eex; try discriminate.
      destruct (run_from clen (apply_events im evs) st1 r) as [rest| |] eqn:Er; try discriminate.
      inversion Hrun; subst tr.
      pose proof (good_step _ _ _ _ _ _ _ _ _ Hb Hs Eex) as Hg1.
      destruct Hg1 as [(old1 & segs1 & cur1 & Hb1) Hc1].
      destruct (IH _ _ _ _ _ _ _ Hb1 Hr Er) as (st' & Hg2).
      exists st'. eapply Good_seq; [split; [exists old1, segs1, cur1; exact Hb1|exact Hc1]|].
      intros. exact Hg2.
  Qed.

  (* ---------------------------------------------------------------- the whole run, from an empty root *)

  Definition wf_sched (owner tgid0 : Z) (sched : list sev) : bool :=
    wf_from (apply_events img0 (start_events 0%N owner)) (init_state 0%N owner tgid0) sched.

  Lemma binv_init owner tgid0 es :
    owner <> 0 -> 0 < tgid0 ->
    es = firstn 2 (start_events 0%N owner) \/ es = start_events 0%N owner ->
    BInv [] [] [] (apply_events img0 es) (init_state 0%N owner tgid0) (cfold cst0 es).
  Proof.
    intros Hown Htg Hes.
    assert (Hi : i_wals (apply_events img0 es) = [(0%N, {| wf_status := Some (WFS_OPEN, WRS_NOTREPLAYED, owner); wf_recs := [] |})]
                 /\ i_files (apply_events img0 es) = [] /\ cfold cst0 es = cst0).
    { destruct Hes as [-> | ->]; cbn; auto. }
    destruct Hi as (Hi1 & Hi2 & Hi3).
    constructor; cbn [init_state s_owner s_wal s_tgid s_last s_queue]; rewrite ?Hi2.
    - exact Hi1.
    - reflexivity.
    - exact Hown.
    - constructor.
    - exact I.
    - split; [exact Htg|constructor].
    - reflexivity.
    - split; constructor.
    - constructor; try reflexivity; [intros f s ix eof bl H; discriminate|constructor].
    - constructor.
    - exact Hi3.
    - intros f. discriminate.
  Qed.

  Theorem crash_anywhere owner tgid0 sched tr k :
    owner <> 0 -> 0 < tgid0 ->
    run clen 0%N owner tgid0 sched = Ok tr -> wf_sched owner tgid0 sched = true ->
    (k <= length tr)%nat -> gwin img0 tr k = true ->
    CrashOK (crash_img tr k) (cfold cst0 (firstn k tr)).
  Proof.
    intros Hown Htg Hrun Hwf Hk Hg. unfold run in Hrun. unfold wf_sched in Hwf.
    set (e0 := start_events 0%N owner) in *.
    destruct (run_from clen (apply_events img0 e0) (init_state 0%N owner tgid0) sched) as [rest| |] eqn:Er; try discriminate.
    assert (Htr : tr = e0 ++ rest) by congruence. subst tr. clear Hrun. unfold crash_img.
    pose proof (binv_init owner tgid0 e0 Hown Htg (or_intror eq_refl)) as Hb0.
    destruct (run_good sched _ _ _ _ _ _ _ Hb0 Hwf Er) as (st' & Hgood).
    destruct (Nat.le_gt_cases k 3) as [Hle|Hgt].
    - (* inside NewWALFile *)
      rewrite firstn_app_le by exact Hle.
      destruct k as [|[|[|[|k]]]]; try lia.
      + cbn [firstn]. apply (crash_nowal clen owner2); reflexivity.
      + cbn [firstn e0 start_events]. apply (crash_tiny clen clen_pos owner2 _ []).
        * reflexivity.
        * constructor; try reflexivity; [intros f s ix eof bl H; discriminate|constructor].
      + eapply binv_crash; [exact clen_pos|]. apply (binv_init owner tgid0); auto.
      + eapply binv_crash; [exact clen_pos|]. exact Hb0.
    - assert (Hl : length e0 = 3%nat) by reflexivity.
      rewrite firstn_app_ge by lia. rewrite apply_events_app, cfold_app.
      destruct Hgood as [_ Hc]. apply Hc.
      + rewrite app_length in Hk. lia.
      + rewrite gwin_app_gt in Hg by lia. exact Hg.
  Qed.
End WithClen.
