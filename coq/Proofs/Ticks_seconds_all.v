From Coq Require Import ZArith List Bool Lia.
Import ListNotations.
Require Import MS.Base.GoInt MS.Model.Ticks MS.Model.TicksPF MS.Proofs.Ticks_equiv MS.Proofs.Ticks_sweep_all
  MS.Proofs.Ticks_seconds MS.Proofs.Ticks_seconds_6 MS.Proofs.Ticks_seconds_12 MS.Proofs.Ticks_seconds_1.
Local Open Scope Z_scope.

Lemma secs_all ipd : In ipd ipds -> secs_ok (Z.to_nat (nsecs ipd)) ipd 0 = true.
Proof.
  intros Hin. pose proof secs_small_tfs as S. rewrite forallb_forall in S.
  unfold ipds in Hin. cbn [In] in Hin.
  destruct Hin as [<- | [<- | [<- | [<- | [<- | [<- | [<- | [<- | [<- | [<- | [<- | []]]]]]]]]]]];
    try (apply S; cbn; tauto).
  - exact secs_ipd_6.
  - exact secs_ipd_12.
  - exact secs_ipd_1.
Qed.

Lemma ipd_facts ipd : In ipd ipds ->
  1 <= ipd <= 86400 /\ interval_ns ipd = nsecs ipd * 1000000000 /\ 0 <= nsecs ipd <= 86400.
Proof.
  unfold ipds. cbn [In]. intros H.
  repeat (destruct H as [<- | H]; [ vm_compute; repeat split; (reflexivity || discriminate) | ]). contradiction.
Qed.

Theorem whole_seconds ipd s : In ipd ipds -> 0 <= s -> s * 1000000000 < interval_ns ipd ->
  let o := s * 1000000000 in let o' := dec_offset ipd (enc ipd o) in
  0 <= o' <= o /\ o - o' <= step_ns ipd /\ (ipd = 86400 -> o' = o).
Proof.
  intros Hin Hs Hlt o o'. destruct (ipd_facts ipd Hin) as (Hi & En & Hns).
  assert (Hn : s < nsecs ipd) by lia.
  pose proof (secs_sound _ ipd 0 (secs_all ipd Hin) s) as B.
  rewrite Z2Nat.id in B by lia.
  specialize (B ltac:(lia)). unfold bound_okb_pf in B. cbn zeta in B.
  assert (Sm : Ticks_equiv.small ipd) by (unfold Ticks_equiv.small; lia).
  assert (Ho : 0 <= s * 1000000000 < 9223372036854775808) by lia.
  rewrite (enc_pf_eq ipd _ Sm Ho) in B. rewrite (dec_offset_pf_eq ipd _ Sm (enc_small _ _)) in B.
  fold o in B. fold o' in B.
  apply andb_true_iff in B as [B B4]. apply andb_true_iff in B as [B B3]. apply andb_true_iff in B as [B1 B2].
  apply Z.leb_le in B1, B2, B3. split; [ lia | ]. split; [ lia | ].
  intros E. rewrite E, Z.eqb_refl in B4. apply Z.eqb_eq in B4. exact B4.
Qed.
