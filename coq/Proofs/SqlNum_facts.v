(** Numeric facts the SQL proofs need about Go's int64 -> float64 conversion (GenericComparison compares
    int64 literals as float64).  They go through Flocq's real-number specification of rounding
    (binary_normalize_correct, round_le), hence bring in the axioms of Coq's classical reals; nothing else
    in the C19/C20 development does. *)
From Coq Require Import ZArith Lia Bool List Reals Lra.
From Flocq Require Import Core.Core IEEE754.BinarySingleNaN.
Require Import MS.Base.FGen MS.Base.F32 MS.Base.F64 MS.Model.Sql.
Local Open Scope Z_scope.

Notation fexp64 := (SpecFloat.fexp 53 1024).
Notation rnd64 := (round radix2 fexp64 ZnearestE).

#[local] Instance fexp64_valid' : Valid_exp fexp64 := FLT_exp_valid (SpecFloat.emin 53 1024) 53.

Lemma pow63_generic : generic_format radix2 fexp64 (bpow radix2 63).
Proof. apply generic_format_bpow. vm_compute. discriminate. Qed.

Lemma bpow63 : bpow radix2 63 = IZR (2 ^ 63).
Proof. rewrite <- (IZR_Zpower radix2) by lia. reflexivity. Qed.

Lemma rnd_small63 (z : Z) : Z.abs z <= 2 ^ 63 -> (Rabs (rnd64 (IZR z)) < bpow radix2 1024)%R.
Proof.
  intros H. apply Rle_lt_trans with (bpow radix2 63).
  - apply Rabs_le. split.
    + apply round_ge_generic; try typeclasses eauto.
      * apply generic_format_opp, pow63_generic.
      * rewrite bpow63, <- opp_IZR. apply IZR_le. lia.
    + apply round_le_generic; try typeclasses eauto.
      * apply pow63_generic.
      * rewrite bpow63. apply IZR_le. lia.
  - apply bpow_lt. lia.
Qed.

(** float64(z) for an int64 z: finite, and the rounding of z *)
Lemma f64_of_Z_round (z : Z) : Z.abs z <= 2 ^ 63 ->
  B2R (f64_of_Z z) = rnd64 (IZR z) /\ is_finite (f64_of_Z z) = true.
Proof.
  intros H. unfold f64_of_Z, f_of_Z.
  pose proof (binary_normalize_correct 53 1024 p64_gt_0 p64_lt_emax mode_NE z 0 false) as C.
  cbv zeta in C. cbn [round_mode] in C.
  assert (E : F2R (Float radix2 z 0) = IZR z) by (unfold F2R; simpl; lra).
  rewrite E in C. rewrite Rlt_bool_true in C by (apply rnd_small63; exact H).
  destruct C as (C1 & C2 & _). split; assumption.
Qed.

(** rounding is monotone: float64(b) < float64(a) implies b < a *)
Theorem f64_of_Z_lt_mono (a b : Z) : Z.abs a <= 2 ^ 63 -> Z.abs b <= 2 ^ 63 ->
  f64_lt (f64_of_Z b) (f64_of_Z a) = true -> b < a.
Proof.
  intros Ha Hb H.
  destruct (f64_of_Z_round a Ha) as [Ra Fa]. destruct (f64_of_Z_round b Hb) as [Rb Fb].
  unfold f64_lt, f_lt in H. rewrite (Bltb_correct 53 1024 _ _ Fb Fa), Ra, Rb in H.
  destruct (Z_lt_le_dec b a) as [L|L]; [exact L|]. exfalso.
  revert H. case Rlt_bool_spec; [|discriminate]. intros H _. revert H. apply Rle_not_lt.
  apply round_le; try typeclasses eauto. apply IZR_le. exact L.
Qed.

(** conversions never produce NaN from a non-NaN literal *)
Lemma f64_of_Z_not_nan z : is_nan (f64_of_Z z) = false.
Proof. unfold f64_of_Z, f_of_Z. apply is_nan_binary_normalize. Qed.

Lemma as_f64_not_nan l : lit_finite l = true -> is_nan (as_f64 l) = false.
Proof.
  destruct l as [z|x]; simpl; intros H; [apply f64_of_Z_not_nan|].
  destruct x; try discriminate H; reflexivity.
Qed.

Lemma f32_of_f64_not_nan (x : f64) : is_nan x = false -> is_nan (f32_of_f64 x) = false.
Proof.
  unfold f32_of_f64, f_conv. destruct x; intros H; try discriminate H; try reflexivity.
  apply is_nan_binary_normalize.
Qed.

Lemma f32_of_lit_not_nan l : lit_finite l = true -> is_nan (f32_of_lit l) = false.
Proof. intros H. unfold f32_of_lit. apply f32_of_f64_not_nan, as_f64_not_nan, H. Qed.
