(** Facts about Model/MQuery.v (property C13): a multi-symbol response restricted to one key is the
    single-symbol response; "*" covers every catalogued symbol; projection keeps exactly the time
    columns and the requested existing columns, values untouched. *)
From Coq Require Import ZArith List Bool Lia.
From Coq.Strings Require Import Byte.
Import ListNotations.
Require Import MS.Base.Res MS.Base.Hex MS.Model.MQuery.

Lemma bytes_eqb_refl a : bytes_eqb a a = true.
Proof. apply bytes_eqb_eq. reflexivity. Qed.

Lemma bytes_eqb_neq a b : a <> b -> bytes_eqb a b = false.
Proof.
  intros H. destruct (bytes_eqb a b) eqn:E; [|reflexivity]. apply bytes_eqb_eq in E. contradiction.
Qed.

Lemma bytes_eqb_sym a b : bytes_eqb a b = bytes_eqb b a.
Proof.
  destruct (bytes_eqb a b) eqn:E.
  - apply bytes_eqb_eq in E. subst. symmetry. apply bytes_eqb_refl.
  - destruct (bytes_eqb b a) eqn:E'; [|reflexivity]. apply bytes_eqb_eq in E'. subst.
    rewrite bytes_eqb_refl in E. discriminate.
Qed.

Lemma names_eqb_refl l : names_eqb l l = true.
Proof. induction l as [|x l IH]; [reflexivity|]. cbn. rewrite bytes_eqb_refl, IH. reflexivity. Qed.

Lemma shapes_eqb_refl l : shapes_eqb l l = true.
Proof. induction l as [|x l IH]; [reflexivity|]. cbn. rewrite bytes_eqb_refl, Z.eqb_refl, IH. reflexivity. Qed.

Lemma existsb_false_notin x l : existsb (bytes_eqb x) l = false -> ~ In x l.
Proof.
  intros H Hin. assert (existsb (bytes_eqb x) l = true); [|congruence].
  apply existsb_exists. exists x. split; [assumption|apply bytes_eqb_refl].
Qed.

Lemma nodup_b_spec l : nodup_b l = true -> NoDup l.
Proof.
  induction l as [|x l IH]; cbn; intros H; [constructor|].
  apply andb_prop in H as [H1 H2]. apply negb_true_iff in H1.
  constructor; [apply existsb_false_notin; assumption|auto].
Qed.

Lemma count_notin s l : ~ In s l -> count_sym s l = 0.
Proof.
  induction l as [|x l IH]; intros H; [reflexivity|]. cbn.
  rewrite bytes_eqb_neq by (intros ->; apply H; left; reflexivity).
  apply IH. intros Hi. apply H. right. assumption.
Qed.

Lemma count_nodup s l : NoDup l -> In s l -> count_sym s l = 1.
Proof.
  induction 1 as [|x l Hx Hnd IH]; intros Hin; [contradiction|]. cbn.
  destruct Hin as [->|Hin].
  - rewrite bytes_eqb_refl, count_notin by assumption. reflexivity.
  - rewrite bytes_eqb_neq by (intros ->; contradiction). rewrite IH by assumption. reflexivity.
Qed.

Lemma filter_notin x l : ~ In x l -> filter (fun y => negb (bytes_eqb y x)) l = l.
Proof.
  induction l as [|a l IH]; intros H; [reflexivity|]. cbn.
  rewrite bytes_eqb_neq by (intros ->; apply H; left; reflexivity). cbn. f_equal.
  apply IH. intros Hi. apply H. right. assumption.
Qed.

Lemma dedup_nodup l : NoDup l -> dedup l = l.
Proof.
  induction 1 as [|x l Hx Hnd IH]; [reflexivity|]. cbn. rewrite IH, filter_notin by assumption. reflexivity.
Qed.

Lemma rep_bytes_1 d : rep_bytes 1 d = d.
Proof. cbn. apply app_nil_r. Qed.

Lemma rep_rows_1 cs : rep_rows 1 cs = cs.
Proof.
  unfold rep_rows. induction cs as [|[[n t] d] cs IH]; [reflexivity|]. cbn [map fst snd].
  rewrite rep_bytes_1, IH. reflexivity.
Qed.

(** with distinct symbols, the hits are the catalogued symbols of the request, each projected *)
Definition hits1 (cat : catalog) (syms cols : list name) : list (name * cser) :=
  flat_map (fun s => match find_sym s cat with
                     | Some c => [(s, filter_columns cols c)]
                     | None => []
                     end) syms.

Lemma flat_map_ext_in' {A B} (f g : A -> list B) l :
  (forall x, In x l -> f x = g x) -> flat_map f l = flat_map g l.
Proof.
  induction l as [|a l IH]; intros H; [reflexivity|]. cbn.
  rewrite (H a (or_introl eq_refl)), IH; [reflexivity|]. intros x Hx. apply H. right. assumption.
Qed.

Lemma hits_nodup cat syms cols : NoDup syms -> hits cat syms cols = hits1 cat syms cols.
Proof.
  intros Hnd. unfold hits, hits1. rewrite dedup_nodup by assumption.
  apply flat_map_ext_in'. intros s Hs. destruct (find_sym s cat); [|reflexivity].
  rewrite count_nodup, rep_rows_1 by assumption. reflexivity.
Qed.

Lemma find_key_hits1 cat cols : forall syms s c,
  In s syms -> find_sym s cat = Some c ->
  find_key s (hits1 cat syms cols) = Some (filter_columns cols c).
Proof.
  induction syms as [|x syms IH]; intros s c Hin Hc; [contradiction|].
  unfold hits1. cbn [flat_map]. fold (hits1 cat syms cols).
  destruct (find_sym x cat) as [cx|] eqn:Ex.
  - cbn [app find_key]. destruct (bytes_eqb x s) eqn:E.
    + apply bytes_eqb_eq in E. subst x. congruence.
    + destruct Hin as [->|Hin]; [rewrite bytes_eqb_refl in E; discriminate|]. apply IH; assumption.
  - cbn [app]. destruct Hin as [->|Hin]; [congruence|]. apply IH; assumption.
Qed.

Lemma find_key_hits1_inv cat cols : forall syms s x,
  find_key s (hits1 cat syms cols) = Some x ->
  In s syms /\ exists c, find_sym s cat = Some c /\ x = filter_columns cols c.
Proof.
  induction syms as [|y syms IH]; intros s x H; [discriminate|].
  unfold hits1 in H. cbn [flat_map] in H. fold (hits1 cat syms cols) in H.
  destruct (find_sym y cat) as [cy|] eqn:Ey.
  - cbn [app find_key] in H. destruct (bytes_eqb y s) eqn:E.
    + apply bytes_eqb_eq in E. subst y. inversion H; subst. split; [left; reflexivity|].
      exists cy. split; [assumption|reflexivity].
    + destruct (IH s x H) as [Hi Hc]. split; [right; assumption|assumption].
  - cbn [app] in H. destruct (IH s x H) as [Hi Hc]. split; [right; assumption|assumption].
Qed.

Lemma assemble_ok hs R : assemble hs = Ok R -> R = hs.
Proof.
  unfold assemble. destruct hs as [|[s0 c0] r]; [discriminate|].
  destruct (forallb _ _); [|discriminate]. intros H. inversion H. reflexivity.
Qed.

Lemma exec_single cat s c cols : find_sym s cat = Some c ->
  exec cat [s] cols = Ok [(s, filter_columns cols c)].
Proof.
  intros Hc. unfold exec. rewrite hits_nodup by (constructor; [intros []|constructor]).
  unfold hits1. cbn [flat_map]. rewrite Hc. cbn [app assemble forallb snd].
  rewrite shapes_eqb_refl. reflexivity.
Qed.

(** the multi-symbol response, restricted to one key, is that symbol's single response *)
Theorem multi_is_single cat syms cols R :
  nodup_b syms = true -> exec cat syms cols = Ok R ->
  (forall s c, In s syms -> find_sym s cat = Some c ->
     find_key s R = Some (filter_columns cols c)
     /\ exec cat [s] cols = Ok [(s, filter_columns cols c)])
  /\ (forall s x, find_key s R = Some x -> In s syms /\ exists c, find_sym s cat = Some c /\ x = filter_columns cols c).
Proof.
  intros Hnd He. apply nodup_b_spec in Hnd. unfold exec in He. apply assemble_ok in He.
  rewrite hits_nodup in He by assumption. subst R. split.
  - intros s c Hin Hc. split; [apply find_key_hits1; assumption|apply exec_single; assumption].
  - intros s x H. apply find_key_hits1_inv in H. exact H.
Qed.

(** the multi-symbol query succeeds exactly on compatible, non-empty hit lists *)
Theorem multi_succeeds cat syms cols :
  compat cat syms cols = true -> hits cat syms cols <> [] ->
  exec cat syms cols = Ok (hits cat syms cols).
Proof.
  intros Hc Hne. unfold exec, assemble, compat in *.
  destruct (hits cat syms cols) as [|[s0 c0] r]; [congruence|].
  cbn [forallb snd]. rewrite shapes_eqb_refl. cbn. rewrite Hc. reflexivity.
Qed.

(** "*" : every catalogued symbol is answered as by its own query *)
Theorem star_covers cat allsyms cols R :
  nodup_b allsyms = true -> (forall s c, find_sym s cat = Some c -> In s allsyms) ->
  exec_star cat allsyms cols = Ok R ->
  forall s c, find_sym s cat = Some c ->
    find_key s R = Some (filter_columns cols c) /\ exec cat [s] cols = Ok [(s, filter_columns cols c)].
Proof.
  intros Hnd Hall He s c Hc. unfold exec_star in He.
  destruct (multi_is_single cat allsyms cols R Hnd He) as [H _].
  apply H; [eapply Hall; eassumption|assumption].
Qed.

(** * projection *)
Lemma find_col_some n cs c : find_col n cs = Some c -> In c cs /\ cname' c = n.
Proof.
  induction cs as [|a cs IH]; [discriminate|]. cbn. destruct (bytes_eqb (cname' a) n) eqn:E.
  - intros H. inversion H; subst. split; [left; reflexivity|apply bytes_eqb_eq; assumption].
  - intros H. destruct (IH H). split; [right; assumption|assumption].
Qed.

Lemma project_in keep cs c : In c (project keep cs) <-> exists n, In n keep /\ find_col n cs = Some c.
Proof.
  unfold project. rewrite in_flat_map. split.
  - intros [n [Hn Hc]]. exists n. split; [assumption|]. destruct (find_col n cs); [|contradiction].
    destruct Hc as [->|[]]. reflexivity.
  - intros [n [Hn Hc]]. exists n. split; [assumption|]. rewrite Hc. left. reflexivity.
Qed.

Definition is_some' {A} (o : option A) : bool := match o with Some _ => true | None => false end.

Lemma project_names keep cs :
  cs_names (project keep cs) = filter (fun n => is_some' (find_col n cs)) keep.
Proof.
  unfold cs_names, project. induction keep as [|n keep IH]; [reflexivity|]. cbn [flat_map filter].
  rewrite map_app, IH. destruct (find_col n cs) as [c|] eqn:E; cbn; [|reflexivity].
  apply find_col_some in E as [_ E]. rewrite E. reflexivity.
Qed.

(** the projected series has exactly Epoch, the requested existing columns (request order,
    duplicates kept) and Nanoseconds ... *)
Theorem projection_names cols cs : cols <> [] ->
  cs_names (filter_columns cols cs)
  = filter (fun n => is_some' (find_col n cs)) (epoch_n :: cols ++ [nanos_n]).
Proof.
  intros Hne. unfold filter_columns. destruct cols; [congruence|]. apply project_names.
Qed.

(** ... every kept column IS the stored column of that name (type and bytes, hence rows, untouched) ... *)
Theorem projection_values cols cs c :
  In c (filter_columns cols cs) -> find_col (cname' c) cs = Some c \/ (cols = [] /\ In c cs).
Proof.
  unfold filter_columns. destruct cols as [|x cols]; [intros H; right; split; [reflexivity|assumption]|].
  intros H. left. apply project_in in H as [n [_ Hc]].
  pose proof (find_col_some _ _ _ Hc) as [_ E]. rewrite E. assumption.
Qed.

(** ... and every requested column that exists is kept; unknown names are ignored *)
Theorem projection_complete cols cs n c :
  In n cols -> find_col n cs = Some c -> In c (filter_columns cols cs).
Proof.
  intros Hn Hc. unfold filter_columns. destruct cols as [|x cols]; [contradiction|].
  apply project_in. exists n. split; [|assumption]. right. apply in_or_app. left. assumption.
Qed.

Theorem projection_unknown cols cs n :
  find_col n cs = None -> forall c, In c (filter_columns cols cs) -> cols <> [] -> cname' c <> n.
Proof.
  intros Hn c Hc Hne E. apply projection_values in Hc as [Hc|[Hc _]]; [|contradiction].
  rewrite E in Hc. congruence.
Qed.
