(** Proofs/Durable_c34.v — the discipline of CleanupOldWALFiles, for ANY image and ANY list of leftover WAL
    files: the own file is never touched; a file is unlinked only when it is shorter than a status message
    or right after a Replay of it returned nil. *)
From Coq Require Import ZArith NArith List Bool Lia.
From Coq.Strings Require Import Byte.
Import ListNotations.
Require Import MS.Base.Res MS.Generated.Src_durab MS.Model.Wal MS.Model.Replay
  MS.Proofs.Durable_files MS.Proofs.Durable_exec.
Local Open Scope Z_scope.

Ltac inv_pair H :=
  match type of H with
  | (?a, ?b) = (?x, ?y) => assert (x = a) by congruence; assert (y = b) by congruence; subst x y; clear H
  end.

Definition touches_wal (e : event) : option wid :=
  match e with
  | EWalCreate w | EWalStatus w _ _ _ | EWalApp w _ | EWalFsync w | EWalTrunc w | EWalUnlink w | EWalRename w => Some w
  | _ => None
  end.

(** [allP P es]: every event of [es] satisfies [P] *)
Definition allP (P : event -> Prop) (es : list event) : Prop := forall e, In e es -> P e.

Lemma allP_app P a b : allP P a -> allP P b -> allP P (a ++ b).
Proof. intros Ha Hb e H. apply in_app_or in H as [H|H]; auto. Qed.

Definition only_wal (w : wid) (es : list event) : Prop :=
  allP (fun e => touches_wal e = Some w \/ touches_wal e = None) es.
Definition no_unlink (es : list event) : Prop := allP (fun e => forall x, e <> EWalUnlink x) es.

Section WithClen.
  Variable clen : list record -> Z.

  (** the events of a Replay of WAL [w]: status writes and checkpoint records on [w], syncs, primary writes *)
  Section ReplayEvents.
    Variable w : wid.
    Variable P : event -> Prop.
    Hypothesis P_status : forall a b c, P (EWalStatus w a b c).
    Hypothesis P_fsync : P (EWalFsync w).
    Hypothesis P_app : forall r, P (EWalApp w r).
    Hypothesis P_sync : P ESync.
    Hypothesis P_pw : forall f o i p, P (EPW f o i p).
    Hypothesis P_vd : forall f o l c, P (EVData f o l c).
    Hypothesis P_vi : forall f s i o l, P (EVIndex f s i o l).

    Lemma allP_status a b c : allP P (status_events w a b c).
    Proof. intros e [<-|[<-|[]]]; auto. Qed.
    Lemma allP_ckpt id : allP P (checkpoint_events w id).
    Proof. unfold checkpoint_events. destruct (id =? 0); intros e H; [destruct H|]. destruct H as [<-|[<-|[<-|[]]]]; auto. Qed.
    Lemma allP_indirect im c evs : indirect clen im c = Some evs -> allP P evs.
    Proof.
      unfold indirect. destruct (alookup (c_fid c) (i_files im)) as [[| |s ix eof bl]|]; try discriminate.
      destruct (c_off c <? eof); [|discriminate]. destruct (slot_triple ix (c_off c)) as [[i o] l].
      destruct (if i =? 0 then Some [] else read_block bl eof o l); [|discriminate]. intros H. inversion H.
      intros e [<-|[<-|[]]]; auto.
    Qed.
    Lemma allP_fixed im c evs : fixed_write im c = Some evs -> allP P evs.
    Proof.
      unfold fixed_write. destruct (alookup (c_fid c) (i_files im)); [|discriminate]. intros H. inversion H.
      intros e [<-|[]]. auto.
    Qed.
    Lemma allP_replay_cmds cs : forall im, allP P (fst (replay_cmds clen im cs)).
    Proof.
      induction cs as [|c cs IH]; intros im; [intros e []|]. cbn [replay_cmds].
      destruct (alookup (c_fid c) (i_files im)); [|intros e []].
      destruct (match c_kind c with KFixed => fixed_write im c | KVar => indirect clen im c end) as [evs|] eqn:E; [|intros e []].
      specialize (IH (apply_events im evs)). destruct (replay_cmds clen (apply_events im evs) cs) as [rest o]. cbn [fst] in *.
      apply allP_app; [|exact IH]. destruct (c_kind c); [eapply allP_fixed|eapply allP_indirect]; exact E.
    Qed.
    Lemma allP_replay_tg im id cs : allP P (fst (replay_tg clen w im id cs)).
    Proof.
      unfold replay_tg. destruct cs as [|c cs]; [intros e []|].
      pose proof (allP_replay_cmds (c :: cs) im) as H.
      destruct (replay_cmds clen im (c :: cs)) as [evs [| |]]; cbn [fst] in *; try exact H.
      apply allP_app; [exact H|apply allP_ckpt].
    Qed.
    Lemma allP_replay_tgs tgs : forall im, allP P (fst (replay_tgs clen w im tgs)).
    Proof.
      induction tgs as [|[id [cs|]] tgs IH]; intros im; cbn [replay_tgs]; [intros e []| |apply IH].
      pose proof (allP_replay_tg im id cs) as H.
      destruct (replay_tg clen w im id cs) as [evs [| |]]; cbn [fst] in *; try exact H.
      specialize (IH (apply_events im evs)). destruct (replay_tgs clen w (apply_events im evs) tgs) as [rest o].
      cbn [fst] in *. apply allP_app; assumption.
    Qed.
    Lemma allP_replay_wal im wf rs owner : allP P (fst (replay_wal clen w im wf rs owner)).
    Proof.
      unfold replay_wal. destruct (needs_replay rs); [|intros e []].
      destruct (scan (wf_recs wf) (wal_size wf) [] []) as [m| |]; cbn [fst]; try apply allP_status.
      pose proof (allP_replay_tgs (sort_tgs m) (apply_events im (status_events w WFS_OPEN WRS_REPLAYINPROCESS owner))) as H.
      destruct (replay_tgs clen w _ (sort_tgs m)) as [evs [| |]]; cbn [fst] in *;
        repeat apply allP_app; try apply allP_status; exact H.
    Qed.
  End ReplayEvents.

  Lemma only_wal_status w a b c : only_wal w (status_events w a b c).
  Proof. apply allP_status; intros; left; reflexivity. Qed.
  Lemma only_wal_app w a b : only_wal w a -> only_wal w b -> only_wal w (a ++ b).
  Proof. apply allP_app. Qed.

  Lemma only_wal_replay_wal w im wf rs owner : only_wal w (fst (replay_wal clen w im wf rs owner)).
  Proof. apply allP_replay_wal; intros; (left; reflexivity) || (right; reflexivity). Qed.

  Lemma no_unlink_replay_wal w im wf rs owner : no_unlink (fst (replay_wal clen w im wf rs owner)).
  Proof. apply allP_replay_wal; intros; discriminate. Qed.

  (** the own WAL is never touched by the clean-up *)
  Theorem cleanup_own_untouched own ws : forall im evs o,
    cleanup clen own im ws = (evs, o) -> forall e, In e evs -> touches_wal e <> Some own.
  Proof.
    induction ws as [|w ws IH]; intros im evs o H e Hin; [inversion H; subst; destruct Hin|].
    cbn [cleanup] in H. destruct (N.eqb_spec w own) as [->|Hne]; [eapply IH; eassumption|].
    assert (Hw : forall es, only_wal w es -> In e es -> touches_wal e <> Some own).
    { intros es Ho Hi. destruct (Ho e Hi) as [-> | ->]; congruence. }
    destruct (alookup w (i_wals im)) as [wf|]; [|eapply IH; eassumption].
    destruct (wal_size wf <=? walStatusLenBytes).
    - destruct (cleanup clen own (apply_event im (EWalUnlink w)) ws) as [rest o'] eqn:Ec. inv_pair H.
      destruct Hin as [<-|Hin]; [cbn; congruence|eapply IH; eassumption].
    - destruct (wf_status wf) as [[[fs rs] owner]|]; [|inversion H; subst; destruct Hin].
      destruct (owner =? 0); [inversion H; subst; destruct Hin|].
      pose proof (only_wal_replay_wal w (apply_events im (status_events w fs rs owner)) wf rs owner) as Hr.
      destruct (replay_wal clen w _ wf rs owner) as [revs [| |]]; cbn [fst] in Hr.
      + destruct (cleanup clen own _ ws) as [rest o'] eqn:Ec. inv_pair H.
        apply in_app_or in Hin as [Hin|Hin]; [|eapply IH; eassumption].
        eapply Hw; [|exact Hin]. repeat apply only_wal_app; try apply only_wal_status; try exact Hr.
        intros x [<-|[]]. left. reflexivity.
      + destruct (cleanup clen own _ ws) as [rest o'] eqn:Ec. inv_pair H.
        apply in_app_or in Hin as [Hin|Hin]; [|eapply IH; eassumption].
        eapply Hw; [|exact Hin]. repeat apply only_wal_app; try apply only_wal_status; try exact Hr.
        intros x [<-|[]]. left. reflexivity.
      + inv_pair H. eapply Hw; [|exact Hin]. apply only_wal_app; [apply only_wal_status|exact Hr].
  Qed.

  (** why a file may be unlinked: at the moment its turn comes ([pre] has been issued) it is either no longer
      than a status message, or its Replay returns nil and the unlink is the last call of Delete *)
  Definition unlink_justified (own : wid) (im : img) (ws : list wid) (w : wid) : Prop :=
    exists pre wf, In w ws /\ alookup w (i_wals (apply_events im pre)) = Some wf /\
      (wal_size wf <= walStatusLenBytes
       \/ exists fs rs owner revs,
            wf_status wf = Some (fs, rs, owner) /\
            replay_wal clen w (apply_events (apply_events im pre) (status_events w fs rs owner)) wf rs owner = (revs, ROk)).

  Lemma in_replay_no_unlink w es x : only_wal w es -> In (EWalUnlink x) es -> x = w.
  Proof. intros Ho Hi. destruct (Ho _ Hi) as [H|H]; cbn in H; congruence. Qed.

  Theorem cleanup_unlink_discipline own ws : forall im evs o,
    cleanup clen own im ws = (evs, o) ->
    forall w, In (EWalUnlink w) evs -> w <> own /\ unlink_justified own im ws w.
  Proof.
    intros im evs o H w Hin. split.
    { intros ->. eapply cleanup_own_untouched; [exact H|exact Hin|reflexivity]. }
    revert im evs o H Hin. induction ws as [|w0 ws IH]; intros im evs o H Hin; [inversion H; subst; destruct Hin|].
    cbn [cleanup] in H.
    (* lifting a justification found for the rest of the list *)
    assert (Hlift : forall pre0 rest o', cleanup clen own (apply_events im pre0) ws = (rest, o') ->
              In (EWalUnlink w) rest -> unlink_justified own im (w0 :: ws) w).
    { intros pre0 rest o' Hc Hi. destruct (IH _ _ _ Hc Hi) as (pre & wf & Hw & Hl & Hj).
      exists (pre0 ++ pre), wf. rewrite apply_events_app. split; [right; exact Hw|]. split; [exact Hl|exact Hj]. }
    destruct (N.eqb_spec w0 own) as [->|Hne].
    { eapply (Hlift []); eassumption. }
    destruct (alookup w0 (i_wals im)) as [wf|] eqn:El; [|eapply (Hlift []); eassumption].
    destruct (wal_size wf <=? walStatusLenBytes) eqn:Esz.
    - destruct (cleanup clen own (apply_event im (EWalUnlink w0)) ws) as [rest o'] eqn:Ec. inv_pair H.
      destruct Hin as [Hin|Hin].
      + inversion Hin; subst. exists [], wf. split; [left; reflexivity|]. split; [exact El|]. left. apply Z.leb_le, Esz.
      + eapply (Hlift [EWalUnlink w0]); eassumption.
    - destruct (wf_status wf) as [[[fs rs] owner]|] eqn:Est; [|inversion H; subst; destruct Hin].
      destruct (owner =? 0); [inversion H; subst; destruct Hin|].
      pose proof (only_wal_replay_wal w0 (apply_events im (status_events w0 fs rs owner)) wf rs owner) as Hr.
      destruct (replay_wal clen w0 _ wf rs owner) as [revs [| |]] eqn:Erw; cbn [fst] in Hr.
      + destruct (cleanup clen own _ ws) as [rest o'] eqn:Ec. inv_pair H.
        apply in_app_or in Hin as [Hin|Hin]; [|eapply Hlift; eassumption].
        (* the unlink is Delete's, after a Replay that returned nil *)
        assert (w = w0).
        { eapply in_replay_no_unlink; [|exact Hin]. repeat apply only_wal_app; try apply only_wal_status; try exact Hr.
          intros x [<-|[]]. left. reflexivity. }
        subst w0. exists [], wf. split; [left; reflexivity|]. split; [exact El|]. right.
        exists fs, rs, owner, revs. split; [exact Est|exact Erw].
      + destruct (cleanup clen own _ ws) as [rest o'] eqn:Ec. inv_pair H.
        apply in_app_or in Hin as [Hin|Hin]; [|eapply Hlift; eassumption].
        (* a file that could not be replayed is renamed: no unlink among these events *)
        exfalso. apply in_app_or in Hin as [Hin|Hin]; [cbn in Hin; intuition discriminate|].
        apply in_app_or in Hin as [Hin|Hin]; [|cbn in Hin; intuition discriminate].
        pose proof (no_unlink_replay_wal w0 (apply_events im (status_events w0 fs rs owner)) wf rs owner) as Hnu.
        rewrite Erw in Hnu. cbn [fst] in Hnu. apply (Hnu _ Hin w). reflexivity.
      + inv_pair H. exfalso. apply in_app_or in Hin as [Hin|Hin]; [cbn in Hin; intuition discriminate|].
        pose proof (no_unlink_replay_wal w0 (apply_events im (status_events w0 fs rs owner)) wf rs owner) as Hnu.
        rewrite Erw in Hnu. cbn [fst] in Hnu. apply (Hnu _ Hin w). reflexivity.
  Qed.
End WithClen.
