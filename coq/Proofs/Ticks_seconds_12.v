From Coq Require Import ZArith.
Require Import MS.Proofs.Ticks_seconds.
Lemma secs_ipd_12 : secs_ok (Z.to_nat 7200) 12 0 = true.
Proof. vm_compute. reflexivity. Qed.
