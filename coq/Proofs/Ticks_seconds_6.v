From Coq Require Import ZArith.
Require Import MS.Proofs.Ticks_seconds.
Lemma secs_ipd_6 : secs_ok (Z.to_nat 14400) 6 0 = true.
Proof. vm_compute. reflexivity. Qed.
