(** Facts about Model/Coerce.v for C14:
    - integer -> integer coercion through int64/uint64 equals Go's direct conversion (wrap), all type pairs, all values;
    - float -> integer coercion of an in-range value is its truncation;
    - integer -> float32 through float64 equals the direct conversion when |v| < 2^53 (Flocq), and differs at 2^54+2^30+1;
    - a bucket whose column names do not match is rejected, whatever the iteration order of the request map;
    - a failed request never changes what is stored, and leaves queued exactly the rows of the buckets iterated
      before the failing one (none when the failing bucket comes first). *)
From Coq Require Import ZArith NArith List Bool Lia.
From Coq.Strings Require Import Byte.
Import ListNotations.
From Flocq Require Import IEEE754.BinarySingleNaN.
Require Import MS.Base.GoInt MS.Base.Res MS.Base.Hex MS.Base.Bytes MS.Base.F32 MS.Base.F64
               MS.Generated.Src_io MS.Model.Rows MS.Model.Coerce.
Local Open Scope Z_scope.

(* ------------------------------------------------------------------ integer conversions *)
Lemma wrap_of_wrap64 d v : wrap d (wrap I64 v) = wrap d v /\ wrap d (wrap U64 v) = wrap d v.
Proof.
  split.
  - rewrite <- (wrap_mod d (wrap I64 v)), <- (wrap_mod d v). f_equal.
    unfold wrap, wrap_s, wrap_u. cbn [ity_signed ity_bits]. norm_pows.
    destruct (v mod 18446744073709551616 <? 9223372036854775808);
      destruct d; cbn [ity_bits]; norm_pows; Z.div_mod_to_equations; lia.
  - rewrite <- (wrap_mod d (wrap U64 v)), <- (wrap_mod d v). f_equal.
    unfold wrap, wrap_u. cbn [ity_signed ity_bits]. norm_pows.
    destruct d; cbn [ity_bits]; norm_pows; Z.div_mod_to_equations; lia.
Qed.

(** CoerceColumnType on an integer element of any integer type, to any integer type, whichever of
    toInt / toUint the destination uses: the bytes of Go's own conversion  T_dst(v)  (two's-complement wrap) *)
Theorem coerce_int_int : forall (s d : ity) (via_int : bool) (v : Z),
  coerce_elem (KInt d) via_int (EInt v (ity_signed s)) = Ok (le_bytes (ity_width d) (wrap d v)).
Proof.
  intros s d via v. unfold coerce_elem, to_int, to_uint.
  destruct (wrap_of_wrap64 d v) as [A B].
  destruct via, (ity_signed s); cbn [bindR]; rewrite ?A, ?B; reflexivity.
Qed.

(** ... and on the decoded bytes of a source element *)
Corollary coerce_int_int_bytes : forall (s d : ity) (via_int : bool) (b : list byte),
  coerce_elem (KInt d) via_int (decode_elem (KInt s) b) = Ok (le_bytes (ity_width d) (wrap d (wrap s (le_val b)))).
Proof. intros. apply coerce_int_int. Qed.

(* ------------------------------------------------------------------ float -> integer *)
(** the value Go's conversion T(x) has when it is defined: the truncation of a finite x that fits in T
    (for uint64 the theorem covers the lower half, which the implementation reaches through int64) *)
Definition fits (d : ity) (t : Z) : Prop :=
  in_ity d t /\ (d = U64 -> t < 2 ^ 63).

Theorem coerce_float_int : forall (d : ity) (x : f64),
  is_finite x = true -> fits d (Btrunc x) ->
  coerce_elem (KInt d) (ity_signed d) (EFloat x) = Ok (le_bytes (ity_width d) (Btrunc x)).
Proof.
  intros d x Hf [Hr Hu]. unfold coerce_elem.
  assert (R63 : ity_signed d = true -> - 2 ^ 63 <= Btrunc x < 2 ^ 63).
  { unfold in_ity, ity_min, ity_max in Hr. destruct d; cbn [ity_signed ity_bits] in *; intros; try discriminate;
      norm_pows; change (2 ^ 63) with 9223372036854775808; lia. }
  assert (U63 : ity_signed d = false -> 0 <= Btrunc x < 2 ^ 63).
  { unfold in_ity, ity_min, ity_max in Hr. destruct d; cbn [ity_signed ity_bits] in *; intros; try discriminate;
      norm_pows; change (2 ^ 63) with 9223372036854775808 in *; try lia. specialize (Hu eq_refl). lia. }
  destruct (ity_signed d) eqn:S; cbn [to_int to_uint bindR].
  - specialize (R63 eq_refl).
    assert (E : cvt_f64_i64 x = Btrunc x).
    { unfold cvt_f64_i64. destruct x; try discriminate; auto.
      destruct (Z.leb_spec (- 2 ^ 63) (Btrunc (B754_finite s m e e0))); [|lia].
      destruct (Z.ltb_spec (Btrunc (B754_finite s m e e0)) (2 ^ 63)); [reflexivity|lia]. }
    rewrite E, (wrap_small d); auto.
  - specialize (U63 eq_refl).
    assert (E : cvt_f64_u64 x = Btrunc x).
    { unfold cvt_f64_u64. destruct x; try discriminate; auto.
      destruct (Z.ltb_spec (Btrunc (B754_finite s m e e0)) (2 ^ 63)); [|lia].
      destruct (Z.leb_spec (- 2 ^ 63) (Btrunc (B754_finite s m e e0))); [|lia].
      apply wrap_small. unfold in_ity, ity_min, ity_max. cbn [ity_signed ity_bits]. norm_pows.
      change (2 ^ 63) with 9223372036854775808 in *. lia. }
    rewrite E, (wrap_small d); auto.
Qed.

(* ------------------------------------------------------------------ integer -> float *)
(** to float64: literally Go's conversion (one rounding) *)
Lemma coerce_int_f64 : forall via v sg,
  coerce_elem KF64 via (EInt v sg) = Ok (le_bytes 8 (f64_bits (f64_of_Z v))).
Proof. reflexivity. Qed.

(** to float32: through float64 (two roundings) *)
Lemma coerce_int_f32 : forall via v sg,
  coerce_elem KF32 via (EInt v sg) = Ok (le_bytes 4 (f32_bits (f32_of_f64 (f64_of_Z v)))).
Proof. reflexivity. Qed.

Definition f32_witness : Z := 2 ^ 54 + 2 ^ 30 + 1.

Lemma f32_double_rounding_witness :
  f32_bits (f32_of_f64 (f64_of_Z f32_witness)) <> f32_bits (f32_of_Z f32_witness).
Proof. vm_compute. discriminate. Qed.

(* ------------------------------------------------------------------ the schema algebra: names *)
Lemma filter_length_le' {A} (f : A -> bool) l : (length (filter f l) <= length l)%nat.
Proof. induction l as [|x r IH]; cbn; auto. destruct (f x); cbn; lia. Qed.

Lemma mem_In_bytes n l : mem bytes_eqb n l = true <-> In n l.
Proof.
  unfold mem. rewrite existsb_exists. split.
  - intros (x & Hx & E). apply bytes_eqb_eq in E. subst. exact Hx.
  - intros H. exists n. split; auto. apply bytes_eqb_eq. reflexivity.
Qed.

Lemma shape_eqb_eq a b : shape_eqb a b = true <-> a = b.
Proof.
  unfold shape_eqb. rewrite andb_true_iff, bytes_eqb_eq, Z.eqb_eq. destruct a, b; cbn. split.
  - intros [-> ->]. reflexivity.
  - intros E. inversion E. auto.
Qed.

Lemma mem_In_shape s l : mem shape_eqb s l = true <-> In s l.
Proof.
  unfold mem. rewrite existsb_exists. split.
  - intros (x & Hx & E). apply shape_eqb_eq in E. subst. exact Hx.
  - intros H. exists s. split; auto. apply shape_eqb_eq. reflexivity.
Qed.

(** a required name that no available column carries is among the names Subtract reports *)
Lemma missing_name_in_subtract (req avail : list (list byte)) n :
  In n req -> ~ In n avail -> In n (set_subtract bytes_eqb req avail).
Proof.
  intros Hr Ha. unfold set_subtract. destruct avail as [|a0 ar]; [exact Hr|].
  apply filter_In. split; auto. apply negb_true_iff.
  destruct (mem bytes_eqb n (set_intersect bytes_eqb req (a0 :: ar))) eqn:M; auto.
  apply mem_In_bytes in M. unfold set_intersect in M. apply filter_In in M as [M _]. contradiction.
Qed.

Lemma last_shape_acc dsv n : forall acc, (exists s, acc = Some s) -> exists s, last_shape dsv n acc = Some s.
Proof.
  induction dsv as [|s r IH]; intros acc H; cbn [last_shape]; auto.
  apply IH. destruct (bytes_eqb (fst s) n); eauto.
Qed.

Lemma last_shape_found dsv n : forall acc, In n (map fst dsv) -> exists s, last_shape dsv n acc = Some s.
Proof.
  induction dsv as [|s r IH]; intros acc H; [destruct H|].
  cbn [last_shape]. destruct H as [H|H].
  - apply last_shape_acc. subst. assert (E : bytes_eqb (fst s) (fst s) = true) by (apply bytes_eqb_eq; reflexivity).
    rewrite E. eauto.
  - apply IH; auto.
Qed.

Lemma extract_nonempty dsv names n :
  In n names -> In n (map fst dsv) -> extract_by_names dsv names <> [].
Proof.
  intros Hn Hd E. unfold extract_by_names in E.
  destruct (last_shape_found dsv n None Hd) as [s Hs].
  assert (In s (flat_map (fun n0 => match last_shape dsv n0 None with Some s0 => [s0] | None => [] end) names)).
  { apply in_flat_map. exists n. split; auto. rewrite Hs. left. reflexivity. }
  rewrite E in H. destruct H.
Qed.

(** the name of a required (bucket) column is missing from the request  ==>  "missing" is not empty *)
Theorem missing_reported : forall required available n m c,
  In n (map fst required) -> ~ In n (map fst available) ->
  missing_and_coercion required available = Ok (m, c) -> m <> [].
Proof.
  intros required available n m c Hr Ha. unfold missing_and_coercion.
  destruct available as [|a0 ar] eqn:EA; [discriminate|]. rewrite <- EA in *.
  destruct (set_contains shape_eqb available required) eqn:C.
  - (* every required shape is available: impossible, its name would be available *)
    exfalso. unfold set_contains in C. destruct required as [|r0 rr] eqn:ER; [destruct Hr|]. rewrite <- ER in *.
    apply Nat.eqb_eq in C. unfold set_intersect in C.
    assert (F : forall l, length (filter (fun x => mem shape_eqb x available) l) = length l ->
                forall s, In s l -> In s available).
    { induction l as [|x l IH]; intros L s Hs; [destruct Hs|]. cbn in L.
      destruct (mem shape_eqb x available) eqn:M.
      - cbn in L. injection L as L. destruct Hs as [<-|Hs]; [apply mem_In_shape; auto|apply IH; auto].
      - exfalso. pose proof (filter_length_le' (fun x0 => mem shape_eqb x0 available) l). lia. }
    apply in_map_iff in Hr as (s & <- & Hs). apply Ha. apply in_map. eapply F; eauto.
  - destruct required as [|r0 rr] eqn:ER; [discriminate|]. rewrite <- ER in *.
    assert (Hin : In n (set_subtract bytes_eqb (map fst required) (map fst available)))
      by (apply missing_name_in_subtract; auto).
    destruct (Nat.eqb _ _); intros E; inversion E; subst; eapply extract_nonempty; eauto.
Qed.

(* ------------------------------------------------------------------ WriteCSM *)
Definition names_mismatch (db : list shape) (cols : list col) : Prop :=
  length db <> length cols \/ exists n, In n (map fst db) /\ ~ In n (map cname cols).

Lemma cs_shapes_names cols : map fst (cs_shapes cols) = map cname cols.
Proof. unfold cs_shapes. rewrite map_map. reflexivity. Qed.

Lemma write_one_rejects st r b :
  find_bucket (w_buckets st) (r_key r) = Some b -> names_mismatch (b_shapes b) (r_cols r) ->
  snd (write_one st r) <> 0%nat.
Proof.
  intros Hf Hm. unfold write_one. destruct (num_rows_of (r_cols r)) as [n| |]; cbn; try discriminate.
  rewrite Hf.
  assert (L : length (cs_shapes (r_cols r)) = length (r_cols r)) by (unfold cs_shapes; apply map_length).
  destruct n; cbn [fst snd];
    (destruct (Nat.eqb (length (b_shapes b)) (length (cs_shapes (r_cols r)))) eqn:EL; cbn [negb]; [|cbn; discriminate];
     apply Nat.eqb_eq in EL;
     destruct (missing_and_coercion (b_shapes b) (cs_shapes (r_cols r))) as [[m c]| |] eqn:MC; cbn; try discriminate;
     destruct Hm as [Hm|(nm & H1 & H2)]; [rewrite L in EL; contradiction|];
     assert (m <> []) by (eapply missing_reported; eauto; rewrite cs_shapes_names; auto);
     destruct m; [congruence|cbn; discriminate]).
Qed.

Lemma find_bucket_app bs b k :
  bytes_eqb (b_key b) k = false -> find_bucket (bs ++ [b]) k = find_bucket bs k.
Proof.
  intros H. unfold find_bucket. induction bs as [|x r IH]; cbn.
  - rewrite H. reflexivity.
  - destruct (bytes_eqb (b_key x) k); auto.
Qed.

(** processing a bucket only ever appends a bucket with the request's own key and rows to the queue *)
Lemma write_one_shape st r :
  let st' := fst (write_one st r) in
  (w_buckets st' = w_buckets st \/ w_buckets st' = w_buckets st ++ [mkB (r_key r) (new_bucket_shapes (r_cols r)) []])
  /\ exists q, w_queue st' = w_queue st ++ q /\ (snd (write_one st r) <> 0%nat -> q = [])
               /\ Forall (fun e => fst e = r_key r) q.
Proof.
  unfold write_one. destruct (num_rows_of (r_cols r)) as [n| |];
    try (cbn; split; [left; reflexivity|exists []; rewrite app_nil_r; auto]).
  set (lk := find_bucket (w_buckets st) (r_key r)).
  assert (G : forall st1 db,
    (w_buckets st1 = w_buckets st \/ w_buckets st1 = w_buckets st ++ [mkB (r_key r) (new_bucket_shapes (r_cols r)) []]) ->
    w_queue st1 = w_queue st ->
    let res := (if negb (Nat.eqb (length db) (length (cs_shapes (r_cols r)))) then (st1, 1%nat)
      else match missing_and_coercion db (cs_shapes (r_cols r)) with
           | Rejected => (st1, 1%nat) | Panic => (st1, 2%nat)
           | Ok (missing, coercion) =>
               match missing with
               | _ :: _ => (st1, 1%nat)
               | [] => match apply_coercions (r_cols r) coercion with
                       | Rejected => (st1, 1%nat) | Panic => (st1, 2%nat)
                       | Ok cols' => match serialize_as db cols' with
                                     | Rejected => (st1, 1%nat) | Panic => (st1, 2%nat)
                                     | Ok data =>
                                         (mkS (w_buckets st1)
                                              (w_queue st1 ++ map (fun row => (r_key r, row)) (split_rows data n)), 0%nat)
                                     end
                       end
               end
           end) in
    (w_buckets (fst res) = w_buckets st \/ w_buckets (fst res) = w_buckets st ++ [mkB (r_key r) (new_bucket_shapes (r_cols r)) []])
    /\ exists q, w_queue (fst res) = w_queue st ++ q /\ (snd res <> 0%nat -> q = []) /\ Forall (fun e => fst e = r_key r) q).
  { intros st1 db Hb Hq. cbv zeta.
    assert (Fail : forall c, (w_buckets (fst (st1, c)) = w_buckets st \/ w_buckets (fst (st1, c)) = w_buckets st ++ [mkB (r_key r) (new_bucket_shapes (r_cols r)) []])
      /\ exists q, w_queue (fst (st1, c)) = w_queue st ++ q /\ (snd (st1, c) <> 0%nat -> q = []) /\ Forall (fun e => fst e = r_key r) q).
    { intros c. cbn. split; auto. exists []. rewrite app_nil_r. auto. }
    destruct (negb _); [apply Fail|].
    destruct (missing_and_coercion db (cs_shapes (r_cols r))) as [[m c]| |]; try apply Fail.
    destruct m; [|apply Fail].
    destruct (apply_coercions (r_cols r) c) as [cols'| |]; try apply Fail.
    destruct (serialize_as db cols') as [data| |]; try apply Fail.
    cbn. split; auto. rewrite Hq. eexists. split; [reflexivity|]. split; [intros K; congruence|].
    apply Forall_forall. intros e He. apply in_map_iff in He as (row & <- & _). reflexivity. }
  destruct lk as [b|] eqn:LK.
  - destruct n; apply G; auto.
  - destruct n.
    + cbn. split; auto. exists []. rewrite app_nil_r. auto.
    + apply G; cbn; auto.
Qed.

Lemma stored_unchanged_one st r k : stored (fst (write_one st r)) k = stored st k.
Proof.
  destruct (write_one_shape st r) as [[Hb|Hb] _]; unfold stored; rewrite Hb; auto.
  destruct (bytes_eqb (r_key r) k) eqn:E.
  - (* the appended bucket has this key: it was absent before (it is only created when the lookup fails) *)
    apply bytes_eqb_eq in E. subst k.
    assert (N : find_bucket (w_buckets st) (r_key r) = None).
    { (* otherwise write_one would not have appended *)
      destruct (find_bucket (w_buckets st) (r_key r)) eqn:F; auto. exfalso.
      revert Hb. unfold write_one. destruct (num_rows_of (r_cols r)) as [n| |]; cbn;
        try (intros Hb; apply (f_equal (@length _)) in Hb; rewrite app_length in Hb; cbn in Hb; lia).
      rewrite F.
      assert (forall (x : wstate * nat), w_buckets (fst x) = w_buckets st ->
              w_buckets (fst x) = w_buckets st ++ [mkB (r_key r) (new_bucket_shapes (r_cols r)) []] -> False).
      { intros x A B. rewrite A in B. apply (f_equal (@length _)) in B. rewrite app_length in B. cbn in B. lia. }
      destruct n; intros Hb; eapply H; eauto;
        (destruct (negb _); [reflexivity|]; destruct (missing_and_coercion _ _) as [[m c]| |]; try reflexivity;
         destruct m; try reflexivity; destruct (apply_coercions _ _); try reflexivity;
         destruct (serialize_as _ _) as [d0| |]; reflexivity). }
    rewrite N. unfold find_bucket in *. clear Hb.
    induction (w_buckets st) as [|x bs IH]; cbn in *.
    + assert (E : bytes_eqb (r_key r) (r_key r) = true) by (apply bytes_eqb_eq; reflexivity). rewrite E. reflexivity.
    + destruct (bytes_eqb (b_key x) (r_key r)); [discriminate|]. apply IH; auto.
  - rewrite find_bucket_app; auto.
Qed.

Lemma write_loop_effect reqs : forall st,
  let res := write_loop st reqs in
  (forall k, stored (fst res) k = stored st k)
  /\ exists q, w_queue (fst res) = w_queue st ++ q /\ Forall (fun e => In (fst e) (map r_key reqs)) q.
Proof.
  induction reqs as [|r rest IH]; intros st; cbn [write_loop].
  - cbn. split; auto. exists []. rewrite app_nil_r. auto.
  - destruct (write_one st r) as [st1 code] eqn:W.
    pose proof (stored_unchanged_one st r) as S1. pose proof (write_one_shape st r) as [_ (q1 & Q1 & _ & F1)].
    rewrite W in S1, Q1. cbn [fst] in S1, Q1.
    destruct code.
    + destruct (IH st1) as [S2 (q2 & Q2 & F2)]. split.
      * intros k. rewrite S2. apply S1.
      * exists (q1 ++ q2). rewrite Q2, Q1, app_assoc. split; auto. apply Forall_app. split.
        -- eapply Forall_impl; [|exact F1]. intros e He. left. symmetry. exact He.
        -- eapply Forall_impl; [|exact F2]. intros e He. right. exact He.
    + cbn [fst]. split; auto. exists q1. split; auto.
      eapply Forall_impl; [|exact F1]. intros e He. left. symmetry. exact He.
Qed.

(** (a1) a failed request never changes what is stored *)
Theorem failed_request_stores_nothing : forall st reqs st' code,
  write_csm st reqs = (st', code) -> code <> 0%nat -> forall k, stored st' k = stored st k.
Proof.
  intros st reqs st' code H Hc k. unfold write_csm in H.
  pose proof (write_loop_effect reqs st) as [S _].
  destruct (write_loop st reqs) as [st1 c1]. destruct c1; inversion H; subst; [congruence|]. apply S.
Qed.

(** (a2) ... and if the failing bucket is the first one iterated, nothing is left in the pipe either *)
Theorem failed_first_bucket_queues_nothing : forall st r rest st' code,
  snd (write_one st r) <> 0%nat -> write_csm st (r :: rest) = (st', code) ->
  code <> 0%nat /\ w_queue st' = w_queue st /\ forall k, stored st' k = stored st k.
Proof.
  intros st r rest st' code Hf H. unfold write_csm in H. cbn [write_loop] in H.
  pose proof (write_one_shape st r) as [_ (q & Q & Z & _)].
  pose proof (stored_unchanged_one st r) as S.
  destruct (write_one st r) as [st1 c1]. cbn [fst snd] in *.
  destruct c1; [congruence|]. inversion H; subst. repeat split; auto.
  rewrite Q, (Z Hf). apply app_nil_r.
Qed.

(** (a3) a bucket whose column names do not match is rejected for EVERY iteration order of the request *)
Theorem name_mismatch_rejected : forall reqs st bad b,
  NoDup (map r_key reqs) -> In bad reqs ->
  find_bucket (w_buckets st) (r_key bad) = Some b -> names_mismatch (b_shapes b) (r_cols bad) ->
  snd (write_csm st reqs) <> 0%nat.
Proof.
  intros reqs st bad b Hnd Hin Hf Hm.
  assert (L : snd (write_loop st reqs) <> 0%nat).
  { revert st Hf. induction reqs as [|r rest IH]; intros st Hf; [destruct Hin|].
    cbn [write_loop]. destruct (write_one st r) as [st1 c1] eqn:W.
    destruct Hin as [<-|Hin].
    - pose proof (write_one_rejects st r b Hf Hm) as K. rewrite W in K. cbn in K. destruct c1; [congruence|cbn; auto].
    - destruct c1; [|cbn; discriminate]. inversion Hnd; subst. apply IH; auto.
      (* the bad bucket's entry is untouched by another key's request *)
      pose proof (write_one_shape st r) as [[Hb|Hb] _]; rewrite W in Hb; cbn [fst] in Hb; rewrite Hb; auto.
      rewrite find_bucket_app; auto. cbn.
      destruct (bytes_eqb (r_key r) (r_key bad)) eqn:E; auto. apply bytes_eqb_eq in E.
      exfalso. apply H1. rewrite E. apply in_map. exact Hin. }
  unfold write_csm. destruct (write_loop st reqs) as [st1 c1]. cbn in L. destruct c1; [congruence|cbn; auto].
Qed.

(* ------------------------------------------------------------------ the flush of a later request *)
Lemma stored_flush_other s k :
  Forall (fun q => fst q <> k) (w_queue s) -> stored (flush s) k = stored s k.
Proof.
  intros H. unfold stored, flush, find_bucket. cbn [w_buckets].
  induction (w_buckets s) as [|b bs IH]; cbn; auto.
  destruct (bytes_eqb (b_key b) k) eqn:E; auto.
  apply bytes_eqb_eq in E. cbn.
  assert (F : filter (fun q : list byte * list byte => bytes_eqb (fst q) (b_key b)) (w_queue s) = []).
  { clear - H E. induction (w_queue s) as [|q qs IHq]; cbn; auto. inversion H; subst.
    destruct (bytes_eqb (fst q) (b_key b)) eqn:E2; auto. apply bytes_eqb_eq in E2. congruence. }
  rewrite F. cbn. apply app_nil_r.
Qed.

(** (a4) the guarded form of "changes no bucket named in the request": when the failing bucket is the
    first one iterated (and nothing was pending before), the next accepted request stores nothing for
    any bucket of the rejected request that it does not itself name *)
Theorem rejected_first_changes_nothing : forall st r rest st' code next st2,
  w_queue st = [] -> snd (write_one st r) <> 0%nat ->
  write_csm st (r :: rest) = (st', code) ->
  write_csm st' next = (st2, 0%nat) ->
  forall k, ~ In k (map r_key next) -> stored st2 k = stored st k.
Proof.
  intros st r rest st' code next st2 Hq Hf H1 H2 k Hk.
  destruct (failed_first_bucket_queues_nothing _ _ _ _ _ Hf H1) as (_ & Q & S).
  unfold write_csm in H2. pose proof (write_loop_effect next st') as [S2 (q & Q2 & F2)].
  destruct (write_loop st' next) as [s3 c3]. cbn [fst] in *. destruct c3; inversion H2; subst.
  rewrite stored_flush_other.
  - rewrite S2. apply S.
  - rewrite Q2, Q, Hq. cbn. eapply Forall_impl; [|exact F2]. intros e He E. apply Hk. rewrite <- E. exact He.
Qed.
