(** Facts about Model/TimeIndex.v: the interval index of a year (C30). *)
From Coq Require Import ZArith List Bool Lia.
Import ListNotations.
Require Import MS.Base.GoInt MS.Base.Res MS.Base.Civil MS.Base.Tz MS.Generated.Src_io MS.Generated.Src_time
  MS.Model.TimeIndex.
Local Open Scope Z_scope.

Lemma wrap64_small x : - 9223372036854775808 <= x <= 9223372036854775807 -> wrap I64 x = x.
Proof.
  intros H. apply wrap_small. unfold in_ity, ity_min, ity_max. cbn [ity_signed ity_bits]. norm_pows. lia.
Qed.

Lemma div_eq_iff a b q : 0 < b -> (a / b = q <-> b * q <= a < b * q + b).
Proof.
  intros Hb. split.
  - intros <-. pose proof (Z.mul_div_le a b Hb). pose proof (Z.mul_succ_div_gt a b Hb). lia.
  - intros H. symmetry. apply (Z.div_unique a b q (a - b * q)); lia.
Qed.

(** UTC second at which the local clock of [z] shows the regular local midnight of day [D] *)
Definition day_utc (z : tz) (D : Z) : Z := D * SPD - offset_at z (D * SPD).

Lemma go_date_midnight z y k : regular z ((dby y + k) * SPD) ->
  go_date z y 1 (1 + k) 0 0 0 0 = day_utc z (dby y + k) * NS.
Proof.
  intros (R & _). unfold go_date, day_utc. rewrite days_of_civil_jan_k.
  replace ((dby y + k) * SPD + 0 * 3600 + 0 * 60 + 0) with ((dby y + k) * SPD) by lia.
  rewrite R. lia.
Qed.

Lemma year_start_regular z y : regular z (dby y * SPD) -> year_start z y = day_utc z (dby y) * NS.
Proof.
  intros R. unfold year_start. replace (dby y) with (dby y + 0) in R |- * by lia.
  change 1 with (1 + 0) at 2. apply go_date_midnight. exact R.
Qed.

(** a year of zone [z] whose two ends are regular local midnights *)
Definition year_reg (z : tz) (y : Z) : Prop :=
  regular z (dby y * SPD) /\ regular z (dby (y + 1) * SPD).

Lemma year_of_iff z y t : year_reg z y ->
  (year_of z t = y <-> year_start z y <= t < year_start z (y + 1)).
Proof.
  intros [R0 R1]. rewrite (year_start_regular z y R0), (year_start_regular z (y + 1) R1).
  unfold day_utc. pose proof (day_cmp z (dby y) t R0) as C0. pose proof (day_cmp z (dby (y + 1)) t R1) as C1.
  unfold year_of. split.
  - intros E. pose proof (year_of_days_spec (local_days z t)) as S. rewrite E in S. lia.
  - intros H. apply year_of_days_unique. lia.
Qed.

Lemma year_bracket z t : year_reg z (year_of z t) ->
  year_start z (year_of z t) <= t < year_start z (year_of z t + 1).
Proof. intros R. apply (year_of_iff z (year_of z t) t R). reflexivity. Qed.

(** length of a regular year *)
Lemma year_length z y : year_reg z y ->
  year_start z (y + 1) - year_start z y
  = (days_in_year y * SPD - (offset_at z (dby (y + 1) * SPD) - offset_at z (dby y * SPD))) * NS.
Proof.
  intros [R0 R1]. rewrite (year_start_regular z y R0), (year_start_regular z (y + 1) R1).
  unfold day_utc. rewrite dby_step. lia.
Qed.

(* ------------------------------------------------------------------------------------------ *)
(** * Intraday timeframes *)

Section Intraday.
  Variables (z : tz) (t tf : Z).
  Let y := year_of z t.
  Hypothesis Hreg : year_reg z y.
  Hypothesis Hoff0 : - SPD <= offset_at z (dby y * SPD) <= SPD.
  Hypothesis Hoff1 : - SPD <= offset_at z (dby (y + 1) * SPD) <= SPD.
  Hypothesis Htf : 0 < tf < utils_Day.

  Let Y0 := year_start z y.
  Let q := (t - Y0) / tf.

  Lemma intraday_range : 0 <= t - Y0 < 368 * SPD * NS.
  Proof.
    pose proof (year_bracket z t Hreg) as B. fold y in B. fold Y0 in B.
    pose proof (year_length z y Hreg) as L. fold Y0 in L.
    pose proof (days_in_year_range y). unfold SPD, NS in *. lia.
  Qed.

  Lemma q_facts : 0 <= q < 368 * SPD * NS /\ tf * q <= t - Y0 < tf * q + tf.
  Proof.
    pose proof intraday_range as R. unfold utils_Day in Htf.
    assert (E : (t - Y0) / tf = q) by reflexivity. apply div_eq_iff in E; [ | lia ].
    split; [ | exact E ]. unfold SPD, NS in *. nia.
  Qed.

  Lemma TimeToIndex_intraday : TimeToIndex z t tf = Ok (1 + q).
  Proof.
    unfold TimeToIndex. destruct (Z.eqb_spec tf utils_Day); [ lia | ].
    destruct (Z.eqb_spec tf 0); [ lia | ].
    fold y. fold Y0. pose proof intraday_range as R. pose proof q_facts as [Q _].
    rewrite Z.quot_div_nonneg by lia. fold q. unfold SPD, NS in *.
    rewrite (wrap64_small q) by lia. rewrite wrap64_small by lia. reflexivity.
  Qed.

  Lemma IndexToTime_intraday i : 1 <= i <= 1 + q + 1 -> IndexToTime z i tf y = Y0 + tf * (i - 1).
  Proof.
    intros Hi. unfold IndexToTime. destruct (Z.eqb_spec tf utils_Day); [ lia | ].
    fold Y0. pose proof intraday_range as R. pose proof q_facts as [Q D]. unfold SPD, NS, utils_Day in *.
    rewrite (wrap64_small (i - 1)) by lia.
    assert (B : 0 <= tf * (i - 1) <= tf * q + tf) by nia.
    rewrite wrap64_small by lia. reflexivity.
  Qed.

  (** the interval of [t]: start <= t < start + tf, and the two conversions agree on it *)
  Theorem intraday_bracket :
    exists idx, TimeToIndex z t tf = Ok idx /\ 1 <= idx
      /\ IndexToTime z idx tf y <= t < IndexToTime z (idx + 1) tf y
      /\ IndexToTime z (idx + 1) tf y = IndexToTime z idx tf y + tf.
  Proof.
    exists (1 + q). pose proof q_facts as [Q D].
    split; [ exact TimeToIndex_intraday | ]. split; [ lia | ].
    rewrite !IndexToTime_intraday by lia.
    replace (1 + q - 1) with q by lia. replace (1 + q + 1 - 1) with (q + 1) by lia. nia.
  Qed.
End Intraday.

(** offsets at both ends bounded by a day *)
Definition year_bounded (z : tz) (y : Z) : Prop :=
  - SPD <= offset_at z (dby y * SPD) <= SPD /\ - SPD <= offset_at z (dby (y + 1) * SPD) <= SPD.

(** the index is constant on, and only on, the interval: for every other instant of the same year *)
Theorem intraday_same_interval z t t2 tf idx :
  let y := year_of z t in
  year_reg z y -> year_bounded z y -> 0 < tf < utils_Day ->
  year_of z t2 = y -> TimeToIndex z t tf = Ok idx ->
  (TimeToIndex z t2 tf = Ok idx <-> IndexToTime z idx tf (year_of z t) <= t2 < IndexToTime z idx tf (year_of z t) + tf).
Proof.
  intros y Hreg [B0 B1] Htf Hy2 Hidx. subst y.
  pose proof (TimeToIndex_intraday z t tf Hreg B0 B1 Htf) as E1.
  assert (Hi : idx = 1 + (t - year_start z (year_of z t)) / tf) by congruence. subst idx. clear Hidx.
  assert (Hreg2 : year_reg z (year_of z t2)) by (rewrite Hy2; exact Hreg).
  pose proof (TimeToIndex_intraday z t2 tf Hreg2 ltac:(rewrite Hy2; exact B0) ltac:(rewrite Hy2; exact B1) Htf) as E2.
  rewrite Hy2 in E2. rewrite E2.
  pose proof (q_facts z t tf Hreg B0 B1 Htf) as [Q D].
  rewrite (IndexToTime_intraday z t tf Hreg B0 B1 Htf) by lia.
  replace (1 + (t - year_start z (year_of z t)) / tf - 1) with ((t - year_start z (year_of z t)) / tf) by lia.
  set (q := (t - year_start z (year_of z t)) / tf) in *.
  split.
  - intros H. assert (H' : (t2 - year_start z (year_of z t)) / tf = q) by (assert (1 + (t2 - year_start z (year_of z t)) / tf = 1 + q) by congruence; lia).
    apply div_eq_iff in H'; lia.
  - intros H. f_equal. f_equal. apply div_eq_iff; lia.
Qed.

(** slot -> interval start -> slot *)
Theorem intraday_roundtrip z t tf idx :
  let y := year_of z t in
  year_reg z y -> year_bounded z y -> 0 < tf < utils_Day ->
  TimeToIndex z t tf = Ok idx ->
  year_of z (IndexToTime z idx tf (year_of z t)) = y /\ TimeToIndex z (IndexToTime z idx tf (year_of z t)) tf = Ok idx.
Proof.
  intros y Hreg HB Htf Hidx. subst y.
  destruct (intraday_bracket z t tf Hreg (proj1 HB) (proj2 HB) Htf) as (idx' & E & _ & Br & Enext).
  assert (idx' = idx) by congruence. subst idx'.
  pose proof (year_bracket z t Hreg) as YB.
  destruct HB as [B0 B1].
  pose proof (q_facts z t tf Hreg B0 B1 Htf) as [Q D].
  pose proof (TimeToIndex_intraday z t tf Hreg B0 B1 Htf) as E1.
  assert (Hi : idx = 1 + (t - year_start z (year_of z t)) / tf) by congruence.
  assert (Ha : IndexToTime z idx tf (year_of z t) = year_start z (year_of z t) + tf * (idx - 1)).
  { apply (IndexToTime_intraday z t tf Hreg B0 B1 Htf). lia. }
  assert (Hya : year_of z (IndexToTime z idx tf (year_of z t)) = year_of z t).
  { apply (year_of_iff z (year_of z t) _ Hreg). rewrite Ha. nia. }
  split; [ exact Hya | ].
  apply (intraday_same_interval z t (IndexToTime z idx tf (year_of z t)) tf idx Hreg (conj B0 B1) Htf Hya);
    [ rewrite E1; f_equal; symmetry; exact Hi | lia ].
Qed.

(** timeframes that tile the day and are at least a second long *)
Lemma timeframes_tile : forallb (fun tf => divides_day tf && (NS <=? tf)) timeframe_durations = true.
Proof. vm_compute. reflexivity. Qed.

Lemma is_timeframe_tiles tf : is_timeframe tf = true -> divides_day tf = true /\ NS <= tf.
Proof.
  unfold is_timeframe. intros H. apply existsb_exists in H as (x & Hin & E). apply Z.eqb_eq in E. subst x.
  pose proof timeframes_tile as T. rewrite forallb_forall in T. specialize (T tf Hin).
  apply andb_true_iff in T as [T1 T2]. apply Z.leb_le in T2. split; assumption.
Qed.

(** FileSize of a year that is regular in time.Local and has equal offsets at both ends *)
Lemma FileSize_regular loc tf y r :
  year_reg loc y -> offset_at loc (dby y * SPD) = offset_at loc (dby (y + 1) * SPD) ->
  divides_day tf = true -> NS <= tf -> 0 < r < 2147483648 ->
  FileSize loc tf y r = Ok (Headersize + days_in_year y * (utils_Day / tf) * r).
Proof.
  intros Hreg Heq Hdiv Hns Hr. unfold FileSize.
  unfold divides_day in Hdiv. apply andb_true_iff in Hdiv as [Hpos Hmod].
  apply Z.ltb_lt in Hpos. apply Z.eqb_eq in Hmod.
  destruct (Z.eqb_spec tf 0); [ lia | ]. f_equal.
  unfold Src_time.FileSize, nanosecondsInYear. rewrite (year_length loc y Hreg), Heq.
  replace ((days_in_year y * SPD - (offset_at loc (dby (y + 1) * SPD) - offset_at loc (dby (y + 1) * SPD))) * NS)
    with (days_in_year y * utils_Day) by (unfold utils_Day, SPD, NS; lia).
  pose proof (Z.div_mod utils_Day tf ltac:(lia)) as DM. rewrite Hmod, Z.add_0_r in DM.
  set (m := utils_Day / tf) in *.
  assert (Hm : 0 < m <= 86400). { unfold utils_Day, NS in *. nia. }
  pose proof (days_in_year_range y) as DR.
  assert (EQ : Z.quot (days_in_year y * utils_Day) tf = days_in_year y * m).
  { rewrite Z.quot_div_nonneg by (unfold utils_Day; lia).
    rewrite DM. replace (days_in_year y * (tf * m)) with (days_in_year y * m * tf) by lia.
    apply Z.div_mul. lia. }
  rewrite EQ.
  assert (0 < days_in_year y * m <= 366 * 86400) by nia.
  assert (0 < days_in_year y * m * r <= 366 * 86400 * 2147483648) by nia.
  rewrite (wrap64_small (days_in_year y * m)) by lia. rewrite (wrap64_small r) by lia.
  rewrite (wrap64_small (days_in_year y * m * r)) by lia.
  unfold Headersize. rewrite wrap64_small by lia. reflexivity.
Qed.

(** every slot of a regular year lies in the data area of the year's file *)
Theorem intraday_slot_in_file z loc t tf r idx :
  let y := year_of z t in
  year_reg z y -> year_bounded z y ->
  offset_at z (dby y * SPD) = offset_at z (dby (y + 1) * SPD) ->
  year_reg loc y -> offset_at loc (dby y * SPD) = offset_at loc (dby (y + 1) * SPD) ->
  divides_day tf = true -> NS <= tf -> tf <> utils_Day -> 0 < r < 2147483648 ->
  TimeToIndex z t tf = Ok idx ->
  exists fs, FileSize loc tf y r = Ok fs
    /\ Headersize <= IndexToOffset idx r /\ IndexToOffset idx r + r <= fs
    /\ IndexToOffset idx r = Headersize + (idx - 1) * r.
Proof.
  intros y Hreg [B0 B1] Heq Hregl Heql Hdiv Hns Hnd Hr Hidx. subst y.
  rewrite (FileSize_regular loc tf (year_of z t) r Hregl Heql Hdiv Hns Hr). eexists; split; [ reflexivity | ].
  pose proof Hdiv as Hdiv'. unfold divides_day in Hdiv'. apply andb_true_iff in Hdiv' as [Hpos Hmod].
  apply Z.ltb_lt in Hpos. apply Z.eqb_eq in Hmod.
  pose proof (Z.div_mod utils_Day tf ltac:(lia)) as DM. rewrite Hmod, Z.add_0_r in DM.
  set (m := utils_Day / tf) in *.
  assert (Hm : 0 < m <= 86400). { unfold utils_Day, NS in *. nia. }
  assert (Htf : 0 < tf < utils_Day).
  { split; [ lia | ]. assert (m <> 1) by (intros E; rewrite E in DM; lia). nia. }
  pose proof (TimeToIndex_intraday z t tf Hreg B0 B1 Htf) as E1.
  assert (Hi : idx = 1 + (t - year_start z (year_of z t)) / tf) by congruence.
  pose proof (q_facts z t tf Hreg B0 B1 Htf) as [Q D].
  set (q := (t - year_start z (year_of z t)) / tf) in *.
  pose proof (year_bracket z t Hreg) as YB.
  pose proof (year_length z (year_of z t) Hreg) as YL. rewrite Heq in YL.
  pose proof (days_in_year_range (year_of z t)) as DR.
  assert (Hq : q + 1 <= days_in_year (year_of z t) * m).
  { assert (tf * q < tf * (days_in_year (year_of z t) * m)).
    { replace (tf * (days_in_year (year_of z t) * m)) with (days_in_year (year_of z t) * utils_Day) by lia.
      unfold utils_Day, SPD, NS in *. lia. }
    assert (q < days_in_year (year_of z t) * m) by (apply (Z.mul_lt_mono_pos_l tf); lia). lia. }
  assert (HO : IndexToOffset idx r = Headersize + (idx - 1) * r).
  { unfold IndexToOffset, Src_time.IndexToOffset, Headersize. subst idx.
    replace (1 + q - 1) with q by lia.
    assert (0 <= q * r <= 366 * 86400 * 2147483648) by nia.
    rewrite (wrap64_small q) by lia. rewrite (wrap64_small r) by lia.
    rewrite (wrap64_small (q * r)) by lia. rewrite wrap64_small by lia. lia. }
  rewrite HO. subst idx. replace (1 + q - 1) with q by lia.
  split; [ nia | ]. split; [ | reflexivity ].
  assert ((q + 1) * r <= days_in_year (year_of z t) * m * r) by (apply Z.mul_le_mono_nonneg_r; lia). lia.
Qed.
