(** Facts about Model/TimeIndex.v: the interval index of a year (C30). *)
From Coq Require Import ZArith List Bool Lia.
Import ListNotations.
Require Import MS.Base.GoInt MS.Base.Res MS.Base.Civil MS.Base.Tz MS.Generated.Src_io MS.Generated.Src_time
  MS.Model.TimeIndex.
Local Open Scope Z_scope.

Lemma wrap64_small x : - 9223372036854775808 <= x <= 9223372036854775807 -> wrap I64 x = x.
Proof.
  intros H. apply wrap_small. unfold in_ity, ity_min, ity_max. cbn [ity_signed ity_bits]. norm_pows. lia.
Qed.

Lemma div_eq_iff a b q : 0 < b -> (a / b = q <-> b * q <= a < b * q + b).
Proof.
  intros Hb. split.
  - intros <-. pose proof (Z.mul_div_le a b Hb). pose proof (Z.mul_succ_div_gt a b Hb). lia.
  - intros H. symmetry. apply (Z.div_unique a b q (a - b * q)); lia.
Qed.

Lemma go_date_midnight z y k : go_date z y 1 (1 + k) 0 0 0 0 = day_utc z (dby y + k) * NS.
Proof.
  unfold go_date, day_utc. rewrite days_of_civil_jan_k.
  replace ((dby y + k) * SPD + 0 * 3600 + 0 * 60 + 0) with ((dby y + k) * SPD) by lia. lia.
Qed.

Lemma year_start_day z y : year_start z y = day_utc z (dby y) * NS.
Proof.
  unfold year_start. replace (dby y) with (dby y + 0) by lia.
  change 1 with (1 + 0) at 2. apply go_date_midnight.
Qed.

(** a year of zone [z] whose two ends are regular local midnights *)
Definition year_reg (z : tz) (y : Z) : Prop :=
  regular z (dby y * SPD) /\ regular z (dby (y + 1) * SPD).

Lemma year_of_iff z y t : year_reg z y ->
  (year_of z t = y <-> year_start z y <= t < year_start z (y + 1)).
Proof.
  intros [R0 R1]. rewrite (year_start_day z y), (year_start_day z (y + 1)).
  pose proof (day_cmp z (dby y) t R0) as C0. pose proof (day_cmp z (dby (y + 1)) t R1) as C1.
  unfold year_of. split.
  - intros E. pose proof (year_of_days_spec (local_days z t)) as S. rewrite E in S. lia.
  - intros H. apply year_of_days_unique. lia.
Qed.

Lemma year_bracket z t : year_reg z (year_of z t) ->
  year_start z (year_of z t) <= t < year_start z (year_of z t + 1).
Proof. intros R. apply (year_of_iff z (year_of z t) t R). reflexivity. Qed.

(** length of a regular year *)
Lemma year_length z y : year_reg z y ->
  year_start z (y + 1) - year_start z y
  = (days_in_year y * SPD - (day_off z (dby (y + 1)) - day_off z (dby y))) * NS.
Proof.
  intros [R0 R1]. rewrite (year_start_day z y), (year_start_day z (y + 1)).
  rewrite (day_utc_off z _ R0), (day_utc_off z _ R1). rewrite dby_step. lia.
Qed.

(* ------------------------------------------------------------------------------------------ *)
(** * Intraday timeframes *)

Section Intraday.
  Variables (z : tz) (t tf : Z).
  Let y := year_of z t.
  Hypothesis Hreg : year_reg z y.
  Hypothesis Hoff0 : - SPD <= day_off z (dby y) <= SPD.
  Hypothesis Hoff1 : - SPD <= day_off z (dby (y + 1)) <= SPD.
  Hypothesis Htf : 0 < tf < utils_Day.

  Let Y0 := year_start z y.
  Let q := (t - Y0) / tf.

  Lemma intraday_range : 0 <= t - Y0 < 368 * SPD * NS.
  Proof.
    pose proof (year_bracket z t Hreg) as B. fold y in B. fold Y0 in B.
    pose proof (year_length z y Hreg) as L. fold Y0 in L.
    pose proof (days_in_year_range y). unfold SPD, NS in *. lia.
  Qed.

  Lemma q_facts : 0 <= q < 368 * SPD * NS /\ tf * q <= t - Y0 < tf * q + tf.
  Proof.
    pose proof intraday_range as R. unfold utils_Day in Htf.
    assert (E : (t - Y0) / tf = q) by reflexivity. apply div_eq_iff in E; [ | lia ].
    split; [ | exact E ]. unfold SPD, NS in *. nia.
  Qed.

  Lemma TimeToIndex_intraday : TimeToIndex z t tf = Ok (1 + q).
  Proof.
    unfold TimeToIndex. destruct (Z.eqb_spec tf utils_Day); [ lia | ].
    destruct (Z.eqb_spec tf 0); [ lia | ].
    fold y. fold Y0. pose proof intraday_range as R. pose proof q_facts as [Q _].
    rewrite Z.quot_div_nonneg by lia. fold q. unfold SPD, NS in *.
    rewrite (wrap64_small q) by lia. rewrite wrap64_small by lia. reflexivity.
  Qed.

  Lemma IndexToTime_intraday i : 1 <= i <= 1 + q + 1 -> IndexToTime z i tf y = Y0 + tf * (i - 1).
  Proof.
    intros Hi. unfold IndexToTime. destruct (Z.eqb_spec tf utils_Day); [ lia | ].
    fold Y0. pose proof intraday_range as R. pose proof q_facts as [Q D]. unfold SPD, NS, utils_Day in *.
    rewrite (wrap64_small (i - 1)) by lia.
    assert (B : 0 <= tf * (i - 1) <= tf * q + tf) by nia.
    rewrite wrap64_small by lia. reflexivity.
  Qed.

  (** the interval of [t]: start <= t < start + tf, and the two conversions agree on it *)
  Theorem intraday_bracket :
    exists idx, TimeToIndex z t tf = Ok idx /\ 1 <= idx
      /\ IndexToTime z idx tf y <= t < IndexToTime z (idx + 1) tf y
      /\ IndexToTime z (idx + 1) tf y = IndexToTime z idx tf y + tf.
  Proof.
    exists (1 + q). pose proof q_facts as [Q D].
    split; [ exact TimeToIndex_intraday | ]. split; [ lia | ].
    rewrite !IndexToTime_intraday by lia.
    replace (1 + q - 1) with q by lia. replace (1 + q + 1 - 1) with (q + 1) by lia. nia.
  Qed.
End Intraday.

(** offsets at both ends bounded by a day *)
Definition year_bounded (z : tz) (y : Z) : Prop :=
  - SPD <= day_off z (dby y) <= SPD /\ - SPD <= day_off z (dby (y + 1)) <= SPD.

(** the index is constant on, and only on, the interval: for every other instant of the same year *)
Theorem intraday_same_interval z t t2 tf idx :
  let y := year_of z t in
  year_reg z y -> year_bounded z y -> 0 < tf < utils_Day ->
  year_of z t2 = y -> TimeToIndex z t tf = Ok idx ->
  (TimeToIndex z t2 tf = Ok idx <-> IndexToTime z idx tf (year_of z t) <= t2 < IndexToTime z idx tf (year_of z t) + tf).
Proof.
  intros y Hreg [B0 B1] Htf Hy2 Hidx. subst y.
  pose proof (TimeToIndex_intraday z t tf Hreg B0 B1 Htf) as E1.
  assert (Hi : idx = 1 + (t - year_start z (year_of z t)) / tf) by congruence. subst idx. clear Hidx.
  assert (Hreg2 : year_reg z (year_of z t2)) by (rewrite Hy2; exact Hreg).
  pose proof (TimeToIndex_intraday z t2 tf Hreg2 ltac:(rewrite Hy2; exact B0) ltac:(rewrite Hy2; exact B1) Htf) as E2.
  rewrite Hy2 in E2. rewrite E2.
  pose proof (q_facts z t tf Hreg B0 B1 Htf) as [Q D].
  rewrite (IndexToTime_intraday z t tf Hreg B0 B1 Htf) by lia.
  replace (1 + (t - year_start z (year_of z t)) / tf - 1) with ((t - year_start z (year_of z t)) / tf) by lia.
  set (q := (t - year_start z (year_of z t)) / tf) in *.
  split.
  - intros H. assert (H' : (t2 - year_start z (year_of z t)) / tf = q) by (assert (1 + (t2 - year_start z (year_of z t)) / tf = 1 + q) by congruence; lia).
    apply div_eq_iff in H'; lia.
  - intros H. f_equal. f_equal. apply div_eq_iff; lia.
Qed.

(** slot -> interval start -> slot *)
Theorem intraday_roundtrip z t tf idx :
  let y := year_of z t in
  year_reg z y -> year_bounded z y -> 0 < tf < utils_Day ->
  TimeToIndex z t tf = Ok idx ->
  year_of z (IndexToTime z idx tf (year_of z t)) = y /\ TimeToIndex z (IndexToTime z idx tf (year_of z t)) tf = Ok idx.
Proof.
  intros y Hreg HB Htf Hidx. subst y.
  destruct (intraday_bracket z t tf Hreg (proj1 HB) (proj2 HB) Htf) as (idx' & E & _ & Br & Enext).
  assert (idx' = idx) by congruence. subst idx'.
  pose proof (year_bracket z t Hreg) as YB.
  destruct HB as [B0 B1].
  pose proof (q_facts z t tf Hreg B0 B1 Htf) as [Q D].
  pose proof (TimeToIndex_intraday z t tf Hreg B0 B1 Htf) as E1.
  assert (Hi : idx = 1 + (t - year_start z (year_of z t)) / tf) by congruence.
  assert (Ha : IndexToTime z idx tf (year_of z t) = year_start z (year_of z t) + tf * (idx - 1)).
  { apply (IndexToTime_intraday z t tf Hreg B0 B1 Htf). lia. }
  assert (Hya : year_of z (IndexToTime z idx tf (year_of z t)) = year_of z t).
  { apply (year_of_iff z (year_of z t) _ Hreg). rewrite Ha. nia. }
  split; [ exact Hya | ].
  apply (intraday_same_interval z t (IndexToTime z idx tf (year_of z t)) tf idx Hreg (conj B0 B1) Htf Hya);
    [ rewrite E1; f_equal; symmetry; exact Hi | lia ].
Qed.

(** timeframes that tile the day and are at least a second long *)
Lemma timeframes_tile : forallb (fun tf => divides_day tf && (NS <=? tf)) timeframe_durations = true.
Proof. vm_compute. reflexivity. Qed.

Lemma is_timeframe_tiles tf : is_timeframe tf = true -> divides_day tf = true /\ NS <= tf.
Proof.
  unfold is_timeframe. intros H. apply existsb_exists in H as (x & Hin & E). apply Z.eqb_eq in E. subst x.
  pose proof timeframes_tile as T. rewrite forallb_forall in T. specialize (T tf Hin).
  apply andb_true_iff in T as [T1 T2]. apply Z.leb_le in T2. split; assumption.
Qed.

(** FileSize of a year that is regular in time.Local and has equal offsets at both ends *)
Lemma FileSize_regular loc tf y r :
  year_reg loc y -> day_off loc (dby y) = day_off loc (dby (y + 1)) ->
  divides_day tf = true -> NS <= tf -> 0 < r < 2147483648 ->
  FileSize loc tf y r = Ok (Headersize + days_in_year y * (utils_Day / tf) * r).
Proof.
  intros Hreg Heq Hdiv Hns Hr. unfold FileSize.
  unfold divides_day in Hdiv. apply andb_true_iff in Hdiv as [Hpos Hmod].
  apply Z.ltb_lt in Hpos. apply Z.eqb_eq in Hmod.
  destruct (Z.eqb_spec tf 0); [ lia | ]. f_equal.
  unfold Src_time.FileSize, nanosecondsInYear. rewrite (year_length loc y Hreg), Heq.
  replace ((days_in_year y * SPD - (day_off loc (dby (y + 1)) - day_off loc (dby (y + 1)))) * NS)
    with (days_in_year y * utils_Day) by (unfold utils_Day, SPD, NS; lia).
  pose proof (Z.div_mod utils_Day tf ltac:(lia)) as DM. rewrite Hmod, Z.add_0_r in DM.
  set (m := utils_Day / tf) in *.
  assert (Hm : 0 < m <= 86400). { unfold utils_Day, NS in *. nia. }
  pose proof (days_in_year_range y) as DR.
  assert (EQ : Z.quot (days_in_year y * utils_Day) tf = days_in_year y * m).
  { rewrite Z.quot_div_nonneg by (unfold utils_Day; lia).
    rewrite DM. replace (days_in_year y * (tf * m)) with (days_in_year y * m * tf) by lia.
    apply Z.div_mul. lia. }
  rewrite EQ.
  assert (0 < days_in_year y * m <= 366 * 86400) by nia.
  assert (0 < days_in_year y * m * r <= 366 * 86400 * 2147483648) by nia.
  rewrite (wrap64_small (days_in_year y * m)) by lia. rewrite (wrap64_small r) by lia.
  rewrite (wrap64_small (days_in_year y * m * r)) by lia.
  unfold Headersize. rewrite wrap64_small by lia. reflexivity.
Qed.

(** every slot of a regular year lies in the data area of the year's file *)
Theorem intraday_slot_in_file z loc t tf r idx :
  let y := year_of z t in
  year_reg z y -> year_bounded z y ->
  day_off z (dby y) = day_off z (dby (y + 1)) ->
  year_reg loc y -> day_off loc (dby y) = day_off loc (dby (y + 1)) ->
  divides_day tf = true -> NS <= tf -> tf <> utils_Day -> 0 < r < 2147483648 ->
  TimeToIndex z t tf = Ok idx ->
  exists fs, FileSize loc tf y r = Ok fs
    /\ Headersize <= IndexToOffset idx r /\ IndexToOffset idx r + r <= fs
    /\ IndexToOffset idx r = Headersize + (idx - 1) * r.
Proof.
  intros y Hreg [B0 B1] Heq Hregl Heql Hdiv Hns Hnd Hr Hidx. subst y.
  rewrite (FileSize_regular loc tf (year_of z t) r Hregl Heql Hdiv Hns Hr). eexists; split; [ reflexivity | ].
  pose proof Hdiv as Hdiv'. unfold divides_day in Hdiv'. apply andb_true_iff in Hdiv' as [Hpos Hmod].
  apply Z.ltb_lt in Hpos. apply Z.eqb_eq in Hmod.
  pose proof (Z.div_mod utils_Day tf ltac:(lia)) as DM. rewrite Hmod, Z.add_0_r in DM.
  set (m := utils_Day / tf) in *.
  assert (Hm : 0 < m <= 86400). { unfold utils_Day, NS in *. nia. }
  assert (Htf : 0 < tf < utils_Day).
  { split; [ lia | ]. assert (m <> 1) by (intros E; rewrite E in DM; lia). nia. }
  pose proof (TimeToIndex_intraday z t tf Hreg B0 B1 Htf) as E1.
  assert (Hi : idx = 1 + (t - year_start z (year_of z t)) / tf) by congruence.
  pose proof (q_facts z t tf Hreg B0 B1 Htf) as [Q D].
  set (q := (t - year_start z (year_of z t)) / tf) in *.
  pose proof (year_bracket z t Hreg) as YB.
  pose proof (year_length z (year_of z t) Hreg) as YL. rewrite Heq in YL.
  pose proof (days_in_year_range (year_of z t)) as DR.
  assert (Hq : q + 1 <= days_in_year (year_of z t) * m).
  { assert (tf * q < tf * (days_in_year (year_of z t) * m)).
    { replace (tf * (days_in_year (year_of z t) * m)) with (days_in_year (year_of z t) * utils_Day) by lia.
      unfold utils_Day, SPD, NS in *. lia. }
    assert (q < days_in_year (year_of z t) * m) by (apply (Z.mul_lt_mono_pos_l tf); lia). lia. }
  assert (HO : IndexToOffset idx r = Headersize + (idx - 1) * r).
  { unfold IndexToOffset, Src_time.IndexToOffset, Headersize. subst idx.
    replace (1 + q - 1) with q by lia.
    assert (0 <= q * r <= 366 * 86400 * 2147483648) by nia.
    rewrite (wrap64_small q) by lia. rewrite (wrap64_small r) by lia.
    rewrite (wrap64_small (q * r)) by lia. rewrite wrap64_small by lia. lia. }
  rewrite HO. subst idx. replace (1 + q - 1) with q by lia.
  split; [ nia | ]. split; [ | reflexivity ].
  assert ((q + 1) * r <= days_in_year (year_of z t) * m * r) by (apply Z.mul_le_mono_nonneg_r; lia). lia.
Qed.

(* ------------------------------------------------------------------------------------------ *)
(** * The daily timeframe (utils.Day): the index is the 0-based day of the year *)

Lemma divides_day_Day : divides_day utils_Day = true /\ NS <= utils_Day.
Proof. split; [ reflexivity | unfold NS, utils_Day; lia ]. Qed.

Lemma TimeToIndex_daily z t : TimeToIndex z t utils_Day = Ok (local_days z t - dby (year_of z t)).
Proof.
  unfold TimeToIndex. rewrite Z.eqb_refl. unfold yearday, year_of.
  pose proof (yday_range (local_days z t)) as R. pose proof (days_in_year_range (year_of_days (local_days z t))).
  unfold yday_of_days in *. rewrite wrap64_small by lia. f_equal. lia.
Qed.

Lemma civil_of_jan1 y : civil_of_days (dby y) = (y, 1, 1).
Proof.
  rewrite <- (days_of_civil_jan1 y). apply civil_of_days_of_civil.
  unfold valid_date, days_in_month. destruct (is_leap y); dbm_norm; lia.
Qed.

(** local wall-clock reading of a regular local midnight is that midnight *)
Lemma local_secs_day_utc z D : regular z (D * SPD) -> local_secs z (day_utc z D * NS) = D * SPD.
Proof.
  intros (R & _). unfold local_secs.
  destruct (sec_of_mul (day_utc z D) 0 ltac:(unfold NS; lia)) as [E _]. rewrite Z.add_0_r in E. rewrite E.
  exact R.
Qed.

Lemma local_days_day_utc z D : regular z (D * SPD) -> local_days z (day_utc z D * NS) = D.
Proof.
  intros R. unfold local_days. rewrite (local_secs_day_utc z D R). apply Z.div_mul. unfold SPD. lia.
Qed.

Lemma IndexToTime_daily z y k : regular z (dby y * SPD) ->
  IndexToTime z k utils_Day y = day_utc z (dby y + k) * NS.
Proof.
  intros R0. unfold IndexToTime. rewrite Z.eqb_refl. rewrite (year_start_day z y).
  unfold add_days. rewrite (local_secs_day_utc z (dby y) R0).
  replace (dby y * SPD mod SPD) with 0 by (symmetry; apply Z.mod_mul; unfold SPD; lia).
  replace (dby y * SPD / SPD) with (dby y) by (symmetry; apply Z.div_mul; unfold SPD; lia).
  rewrite civil_of_jan1.
  destruct (sec_of_mul (day_utc z (dby y)) 0 ltac:(unfold NS; lia)) as [_ E]. rewrite Z.add_0_r in E. rewrite E.
  change (0 / 3600) with 0. change (0 mod 3600 / 60) with 0. change (0 mod 60) with 0.
  apply go_date_midnight.
Qed.

Section Daily.
  Variables (z : tz) (t : Z).
  Let y := year_of z t.
  Let d := local_days z t.
  Hypothesis R0 : regular z (dby y * SPD).
  Hypothesis Rd : regular z (d * SPD).
  Hypothesis Rd1 : regular z ((d + 1) * SPD).

  Lemma daily_index_range : 0 <= d - dby y < days_in_year y.
  Proof. pose proof (yday_range d) as R. unfold yday_of_days in R. exact R. Qed.

  Lemma daily_starts :
    IndexToTime z (d - dby y) utils_Day y = day_utc z d * NS
    /\ IndexToTime z (d - dby y + 1) utils_Day y = day_utc z (d + 1) * NS.
  Proof.
    split.
    - rewrite (IndexToTime_daily z y (d - dby y) R0). replace (dby y + (d - dby y)) with d by lia. reflexivity.
    - rewrite (IndexToTime_daily z y (d - dby y + 1) R0). replace (dby y + (d - dby y + 1)) with (d + 1) by lia.
      reflexivity.
  Qed.

  (** day start <= t < next day start; the index is the day of the year *)
  Theorem daily_bracket :
    exists idx, TimeToIndex z t utils_Day = Ok idx /\ idx = d - dby y /\ 0 <= idx < days_in_year y
      /\ IndexToTime z idx utils_Day y <= t < IndexToTime z (idx + 1) utils_Day y.
  Proof.
    exists (d - dby y). split; [ apply TimeToIndex_daily | ]. split; [ reflexivity | ].
    split; [ exact daily_index_range | ].
    destruct daily_starts as [-> ->].
    pose proof (day_cmp z d t Rd) as C0. pose proof (day_cmp z (d + 1) t Rd1) as C1. fold d in C0, C1. lia.
  Qed.

  (** another instant of the same year has the same index iff it lies in the same local day *)
  Theorem daily_same_day t2 : year_of z t2 = y ->
    (TimeToIndex z t2 utils_Day = Ok (d - dby y)
     <-> IndexToTime z (d - dby y) utils_Day y <= t2 < IndexToTime z (d - dby y + 1) utils_Day y).
  Proof.
    intros Hy. rewrite TimeToIndex_daily, Hy. destruct daily_starts as [-> ->].
    pose proof (day_cmp z d t2 Rd) as C0. pose proof (day_cmp z (d + 1) t2 Rd1) as C1.
    split.
    - intros H. assert (local_days z t2 - dby y = d - dby y) by congruence. lia.
    - intros H. f_equal. lia.
  Qed.

  (** slot -> day start -> slot *)
  Theorem daily_roundtrip :
    year_of z (IndexToTime z (d - dby y) utils_Day y) = y
    /\ TimeToIndex z (IndexToTime z (d - dby y) utils_Day y) utils_Day = Ok (d - dby y).
  Proof.
    destruct daily_starts as [-> _].
    assert (E : year_of z (day_utc z d * NS) = y).
    { unfold year_of. rewrite (local_days_day_utc z d Rd). reflexivity. }
    split; [ exact E | ]. rewrite TimeToIndex_daily, E, (local_days_day_utc z d Rd). reflexivity.
  Qed.
End Daily.

(** daily slots: inside the data area EXCEPT index 0 (January 1st), which IndexToOffset places one
    record before the end of the header *)
Theorem daily_slot_in_file z loc t r idx :
  let y := year_of z t in
  year_reg loc y -> day_off loc (dby y) = day_off loc (dby (y + 1)) ->
  0 < r < 2147483648 -> TimeToIndex z t utils_Day = Ok idx ->
  exists fs, FileSize loc utils_Day y r = Ok fs
    /\ IndexToOffset idx r = Headersize + (idx - 1) * r
    /\ IndexToOffset idx r + r <= fs
    /\ (1 <= idx -> Headersize <= IndexToOffset idx r)
    /\ (idx = 0 -> IndexToOffset idx r < Headersize).
Proof.
  intros y Hregl Heql Hr Hidx. subst y.
  destruct divides_day_Day as [DD DN].
  rewrite (FileSize_regular loc utils_Day (year_of z t) r Hregl Heql DD DN Hr). eexists; split; [ reflexivity | ].
  rewrite TimeToIndex_daily in Hidx.
  assert (Hi : idx = local_days z t - dby (year_of z t)) by congruence.
  pose proof (daily_index_range z t) as IR. cbv zeta in IR. rewrite <- Hi in IR.
  pose proof (days_in_year_range (year_of z t)) as DR.
  assert (HO : IndexToOffset idx r = Headersize + (idx - 1) * r).
  { unfold IndexToOffset, Src_time.IndexToOffset, Headersize.
    assert (- 2147483648 <= (idx - 1) * r <= 366 * 2147483648) by nia.
    rewrite (wrap64_small (idx - 1)) by lia. rewrite (wrap64_small r) by lia.
    rewrite (wrap64_small ((idx - 1) * r)) by lia. rewrite wrap64_small by lia. lia. }
  rewrite HO. change (utils_Day / utils_Day) with 1. unfold Headersize in *.
  split; [ reflexivity | ]. split; [ nia | ]. split; intros; nia.
Qed.

(* ------------------------------------------------------------------------------------------ *)
(** * Boolean guards (evaluated on every harness case) imply the hypotheses *)

Lemma year_okb_spec z y : year_okb z y = true ->
  year_reg z y /\ year_bounded z y /\ day_off z (dby y) = day_off z (dby (y + 1)).
Proof.
  unfold year_okb. rewrite !andb_true_iff, Z.eqb_eq. intros [[[[E0 E1] B0] B1] Eq].
  split; [ split; apply cross_regular; assumption | ]. split; [ | exact Eq ].
  unfold off_okb in B0, B1. apply andb_true_iff in B0 as [B00 B01]. apply andb_true_iff in B1 as [B10 B11].
  apply Z.leb_le in B00, B01, B10, B11. split; lia.
Qed.

Lemma day_okb_spec z t : day_okb z t = true ->
  regular z (local_days z t * SPD) /\ regular z ((local_days z t + 1) * SPD).
Proof.
  unfold day_okb. rewrite andb_true_iff. intros [E0 E1]. split; apply cross_regular; assumption.
Qed.

(* ------------------------------------------------------------------------------------------ *)
(** * Fixed-offset zones and UTC: no hypothesis on the zone is needed *)

Lemma year_reg_fixed o y : year_reg (tz_fixed o) y.
Proof. split; apply fixed_regular. Qed.

Lemma year_start_fixed o y : year_start (tz_fixed o) y = (dby y * SPD - o) * NS.
Proof. rewrite year_start_day. unfold day_utc. rewrite local_to_utc_fixed. reflexivity. Qed.

Lemma year_start_utc y : year_start tz_utc y = dby y * SPD * NS.
Proof. change tz_utc with (tz_fixed 0). rewrite year_start_fixed. lia. Qed.

Lemma year_start_utc_mono y1 y2 : y1 < y2 -> year_start tz_utc y1 < year_start tz_utc y2.
Proof. intros H. rewrite !year_start_utc. pose proof (dby_mono_lt y1 y2 H). unfold SPD, NS. lia. Qed.

Lemma year_bracket_utc t :
  year_start tz_utc (year_of tz_utc t) <= t < year_start tz_utc (year_of tz_utc t + 1).
Proof. apply year_bracket. change tz_utc with (tz_fixed 0). apply year_reg_fixed. Qed.

Lemma year_of_utc_iff y t : year_of tz_utc t = y <-> year_start tz_utc y <= t < year_start tz_utc (y + 1).
Proof. apply year_of_iff. change tz_utc with (tz_fixed 0). apply year_reg_fixed. Qed.

(** IndexToTime (TimeToIndex t) <= t < + tf, in UTC, for every intraday duration *)
Lemma index_bracket_utc t tf : 0 < tf < utils_Day ->
  exists idx, TimeToIndex tz_utc t tf = Ok idx /\ 1 <= idx
    /\ IndexToTime tz_utc idx tf (year_of tz_utc t) <= t < IndexToTime tz_utc idx tf (year_of tz_utc t) + tf
    /\ IndexToTime tz_utc idx tf (year_of tz_utc t) = year_start tz_utc (year_of tz_utc t) + tf * (idx - 1).
Proof.
  intros Htf.
  assert (Hreg : year_reg tz_utc (year_of tz_utc t)) by (change tz_utc with (tz_fixed 0); apply year_reg_fixed).
  assert (B : forall D, - SPD <= day_off tz_utc D <= SPD) by (intros D; cbn; unfold SPD; lia).
  destruct (intraday_bracket tz_utc t tf Hreg (B _) (B _) Htf) as (idx & E & H1 & Br & En).
  exists idx. split; [ exact E | ]. split; [ exact H1 | ]. split; [ lia | ].
  pose proof (TimeToIndex_intraday tz_utc t tf Hreg (B _) (B _) Htf) as E1.
  pose proof (q_facts tz_utc t tf Hreg (B _) (B _) Htf) as [Q _].
  assert (Hi : idx = 1 + (t - year_start tz_utc (year_of tz_utc t)) / tf) by congruence.
  apply (IndexToTime_intraday tz_utc t tf Hreg (B _) (B _) Htf). lia.
Qed.

(* ------------------------------------------------------------------------------------------ *)
(** * The statements of Properties/C30.v *)

Lemma intraday_all z loc t tf r :
  let y := year_of z t in
  divides_day tf = true -> NS <= tf -> tf <> utils_Day -> year_okb z y = true ->
  exists idx, TimeToIndex z t tf = Ok idx /\ 1 <= idx
    /\ IndexToTime z idx tf y <= t < IndexToTime z (idx + 1) tf y
    /\ IndexToTime z (idx + 1) tf y = IndexToTime z idx tf y + tf
    /\ TimeToIndex z (IndexToTime z idx tf y) tf = Ok idx
    /\ (forall t2, year_of z t2 = y ->
         (TimeToIndex z t2 tf = Ok idx <-> IndexToTime z idx tf y <= t2 < IndexToTime z (idx + 1) tf y))
    /\ (year_okb loc y = true -> 0 < r < 2147483648 ->
        exists fs, FileSize loc tf y r = Ok fs
          /\ Headersize <= IndexToOffset idx r /\ IndexToOffset idx r + r <= fs).
Proof.
  intros y Hdiv Hns Hnd Hz. subst y.
  destruct (year_okb_spec _ _ Hz) as (Hreg & HB & Heq).
  assert (Htf : 0 < tf < utils_Day).
  { pose proof Hdiv as Hd. unfold divides_day in Hd. apply andb_true_iff in Hd as [Hpos Hmod].
    apply Z.ltb_lt in Hpos. apply Z.eqb_eq in Hmod.
    pose proof (Z.div_mod utils_Day tf ltac:(lia)) as DM. rewrite Hmod, Z.add_0_r in DM.
    assert (0 < utils_Day / tf) by (unfold utils_Day in *; nia).
    split; [ lia | ]. assert (utils_Day / tf <> 1) by (intros E; rewrite E in DM; lia). nia. }
  destruct (intraday_bracket z t tf Hreg (proj1 HB) (proj2 HB) Htf) as (idx & E & H1 & Br & En).
  exists idx. split; [ exact E | ]. split; [ exact H1 | ]. split; [ exact Br | ]. split; [ exact En | ].
  split; [ apply (intraday_roundtrip z t tf idx Hreg HB Htf E) | ].
  split.
  - intros t2 Hy2. rewrite En. apply (intraday_same_interval z t t2 tf idx Hreg HB Htf Hy2 E).
  - intros Hl Hr. destruct (year_okb_spec _ _ Hl) as (Hregl & _ & Heql).
    destruct (intraday_slot_in_file z loc t tf r idx Hreg HB Heq Hregl Heql Hdiv Hns Hnd Hr E) as (fs & F & A & B & _).
    exists fs. auto.
Qed.

Lemma daily_all z loc t r :
  let y := year_of z t in
  year_okb z y = true -> day_okb z t = true ->
  exists idx, TimeToIndex z t utils_Day = Ok idx /\ idx = yearday z t - 1 /\ 0 <= idx < days_in_year y
    /\ IndexToTime z idx utils_Day y <= t < IndexToTime z (idx + 1) utils_Day y
    /\ TimeToIndex z (IndexToTime z idx utils_Day y) utils_Day = Ok idx
    /\ (forall t2, year_of z t2 = y ->
         (TimeToIndex z t2 utils_Day = Ok idx
          <-> IndexToTime z idx utils_Day y <= t2 < IndexToTime z (idx + 1) utils_Day y))
    /\ (year_okb loc y = true -> 0 < r < 2147483648 ->
        exists fs, FileSize loc utils_Day y r = Ok fs
          /\ IndexToOffset idx r + r <= fs
          /\ (1 <= idx -> Headersize <= IndexToOffset idx r)
          /\ (idx = 0 -> IndexToOffset idx r < Headersize)).
Proof.
  intros y Hz Hd. subst y.
  destruct (year_okb_spec _ _ Hz) as ((R0 & _) & _ & _).
  destruct (day_okb_spec _ _ Hd) as (Rd & Rd1).
  destruct (daily_bracket z t R0 Rd Rd1) as (idx & E & Hi & Rg & Br).
  exists idx. split; [ exact E | ]. split.
  { rewrite Hi. unfold yearday, yday_of_days, year_of. lia. }
  split; [ exact Rg | ]. split; [ exact Br | ]. subst idx.
  split; [ apply (daily_roundtrip z t R0 Rd) | ].
  split; [ intros t2 Hy2; apply (daily_same_day z t R0 Rd Rd1 t2 Hy2) | ].
  intros Hl Hr. destruct (year_okb_spec _ _ Hl) as (Hregl & _ & Heql).
  destruct (daily_slot_in_file z loc t r _ Hregl Heql Hr E) as (fs & F & _ & A & B & C).
  exists fs. auto.
Qed.
