(** Invariants of the catalog model (Model/Catalog.v) behind C16, for ALL keys (AddTimeBucket validates the
    items of the key): (1) the file system only holds proper entry names, (2) every path stored in
    the in-memory catalog is rooted and lexically inside the root, (3) every mutating system call of
    the run is lexically inside the root. *)
From Coq Require Import ZArith NArith List Bool Lia.
From Coq.Strings Require Import Byte.
Import ListNotations.
Require Import MS.Base.GoInt MS.Base.Hex MS.Base.Path MS.Model.Catalog MS.Proofs.Path_facts.

(* ------------------------------------------------------------------ induction on fnode *)
Section fnode_ind2.
  Variable P : fnode -> Prop.
  Hypothesis HF : forall c, P (FFile c).
  Hypothesis HD : forall ents, Forall (fun e => P (snd e)) ents -> P (FDir ents).
  Fixpoint fnode_ind2 (n : fnode) : P n :=
    match n with
    | FFile c => HF c
    | FDir ents =>
        HD ents ((fix go (l : list (name * fnode)) : Forall (fun e => P (snd e)) l :=
                    match l with
                    | [] => Forall_nil _
                    | (k, m) :: r => Forall_cons (k, m) (fnode_ind2 m) (go r)
                    end) ents)
    end.
End fnode_ind2.

(* ------------------------------------------------------------------ association lists *)
Lemma aget_In {A} k (l : list (name * A)) v : aget k l = Some v -> In (k, v) l.
Proof.
  induction l as [|[k' v'] r IH]; cbn; [discriminate|].
  destruct (bytes_eqb k k') eqn:E.
  - intros H. inversion H; subst. apply bytes_eqb_eq in E. subst. left. reflexivity.
  - intros H. right. auto.
Qed.

Lemma aset_Forall {A} (Q : name * A -> Prop) k v l : Q (k, v) -> Forall Q l -> Forall Q (aset k v l).
Proof.
  intros Hq. induction l as [|[k' v'] r IH]; intros H; cbn.
  - constructor; auto.
  - inversion H; subst. destruct (bytes_eqb k k'); [constructor; auto|].
    destruct (bytes_ltb k k'); constructor; auto.
Qed.

Lemma adel_Forall {A} (Q : name * A -> Prop) k l : Forall Q l -> Forall Q (adel k l).
Proof.
  induction l as [|[k' v'] r IH]; intros H; cbn; auto.
  inversion H; subst. destruct (bytes_eqb k k'); auto.
Qed.

(* ------------------------------------------------------------------ file-system validity *)
Inductive fs_valid : fnode -> Prop :=
| fv_file c : fs_valid (FFile c)
| fv_dir ents : Forall (fun e => validc (fst e) /\ fs_valid (snd e)) ents -> fs_valid (FDir ents).

Definition entv (e : name * fnode) : Prop := validc (fst e) /\ fs_valid (snd e).

Lemma fs_valid_dir ents : fs_valid (FDir ents) -> Forall entv ents.
Proof. intros H. inversion H; subst. exact H1. Qed.

Lemma aget_entv k ents m : Forall entv ents -> aget k ents = Some m -> validc k /\ fs_valid m.
Proof.
  intros H G. apply aget_In in G. rewrite Forall_forall in H. apply (H _ G).
Qed.

Lemma fget_valid p : forall n m, fs_valid n -> fget n p = Some m -> fs_valid m.
Proof.
  induction p as [|c r IH]; intros n m Hv; cbn.
  - intros E. inversion E; subst. exact Hv.
  - destruct n as [|ents]; [discriminate|].
    destruct (aget c ents) eqn:G; [|discriminate].
    destruct (aget_entv _ _ _ (fs_valid_dir _ Hv) G) as [_ Hf]. apply IH; auto.
Qed.

Lemma fupd_valid f p :
  (forall ents c e', validc c -> Forall entv ents -> f ents c = Some e' -> Forall entv e') ->
  forall n n', fs_valid n -> Forall validc p -> fupd n p f = Some n' -> fs_valid n'.
Proof.
  intros Hf. induction p as [|c r IH]; intros n n' Hv Hp; cbn; [discriminate|].
  destruct n as [|ents]; [discriminate|].
  inversion Hp; subst. pose proof (fs_valid_dir _ Hv) as He.
  destruct r as [|c2 r2].
  - destruct (f ents c) eqn:F; [|discriminate]. intros E. inversion E; subst.
    constructor. eapply Hf; eauto.
  - destruct (aget c ents) eqn:G; [|discriminate].
    destruct (fupd f0 (c2 :: r2) f) eqn:U; [|discriminate].
    intros E. inversion E; subst. constructor.
    destruct (aget_entv _ _ _ He G) as [_ Hf0].
    apply aset_Forall; auto. split; auto. cbn.
    eapply IH; eauto.
Qed.

Lemma fmkdir_valid n p n' : fs_valid n -> Forall validc p -> fmkdir n p = Some n' -> fs_valid n'.
Proof.
  apply fupd_valid. intros ents c e' Hc He. destruct (aget c ents); [discriminate|].
  intros E. inversion E; subst. apply aset_Forall; auto. split; auto. constructor. constructor.
Qed.

Lemma fwrite_valid n p ct n' : fs_valid n -> Forall validc p -> fwrite n p ct = Some n' -> fs_valid n'.
Proof.
  apply fupd_valid. intros ents c e' Hc He E.
  assert (e' = aset c (FFile ct) ents).
  { destruct (aget c ents) as [[|]|]; inversion E; auto. }
  subst. apply aset_Forall; auto. split; auto. constructor.
Qed.

Lemma frmall_valid p : forall n n', fs_valid n -> frmall n p = Some n' -> fs_valid n'.
Proof.
  induction p as [|c r IH]; intros n n' Hv; cbn; [discriminate|].
  destruct n as [|ents]; [discriminate|].
  pose proof (fs_valid_dir _ Hv) as He.
  destruct r as [|c2 r2].
  - intros E. inversion E; subst. constructor. apply adel_Forall; auto.
  - destruct (aget c ents) eqn:G.
    + destruct (frmall f (c2 :: r2)) eqn:U; [|discriminate].
      intros E. inversion E; subst. constructor. apply aset_Forall; auto.
      destruct (aget_entv _ _ _ He G). split; auto. cbn. eapply IH; eauto.
    + intros E. inversion E; subst. exact Hv.
Qed.

Lemma mk_dirs_valid cs : Forall validc cs -> fs_valid (mk_dirs cs).
Proof.
  induction cs as [|c r IH]; intros H; cbn.
  - constructor. constructor.
  - inversion H; subst. constructor. constructor; [|constructor]. split; auto.
Qed.

(* ------------------------------------------------------------------ fixed names *)
Lemma valid_category_name : validc s_category_name.
Proof. apply validcb_spec. reflexivity. Qed.

Lemma digit_not_slash m : (m < 10)%N -> byte_of_N (48 + m) <> slash.
Proof.
  intros H. destruct m as [|p]; [vm_compute; discriminate|].
  destruct p as [p|p|]; try (vm_compute; discriminate);
  destruct p as [p|p|]; try (vm_compute; discriminate);
  destruct p as [p|p|]; try (vm_compute; discriminate); try lia;
  destruct p as [p|p|]; try (vm_compute; discriminate); lia.
Qed.

Lemma digits_noslash fuel : forall n acc, ~ In slash acc -> ~ In slash (digits fuel n acc).
Proof.
  induction fuel as [|f IH]; intros n acc H; cbn [digits]; auto.
  assert (K : ~ In slash (byte_of_N (48 + N.modulo n 10) :: acc)).
  { intros [E|E]; auto. revert E. apply digit_not_slash. apply N.mod_lt. discriminate. }
  destruct (n <? 10)%N; auto.
Qed.

Lemma digits_nonempty fuel n acc : digits (S fuel) n acc <> [].
Proof.
  revert n acc. induction fuel as [|f IH]; intros n acc.
  - cbn. destruct (n <? 10)%N; discriminate.
  - cbn [digits]. destruct (n <? 10)%N; [discriminate|]. apply IH.
Qed.

Lemma itoa_noslash z : ~ In slash (itoa z).
Proof.
  unfold itoa. destruct (z <? 0)%Z.
  - intros [E|E]; [discriminate|]. revert E. apply digits_noslash. intros [].
  - apply digits_noslash. intros [].
Qed.

Lemma yearfile_valid z : validc (itoa z ++ bin_ext).
Proof.
  assert (L : 4 <= length (itoa z ++ bin_ext)) by (rewrite app_length; cbn; lia).
  repeat split.
  - destruct (itoa z ++ bin_ext); cbn in *; [lia|reflexivity].
  - destruct (itoa z ++ bin_ext) as [|a [|b l]]; cbn in *; try lia; reflexivity.
  - destruct (itoa z ++ bin_ext) as [|a [|b [|c l]]]; cbn in *; try lia; reflexivity.
  - intros H. apply in_app_or in H as [H|H]; [exact (itoa_noslash z H)|].
    cbn in H. repeat (destruct H as [H|H]; [discriminate|]). exact H.
Qed.

(* ================================================================== everything below is relative to a root *)
Section Root.
Variable root : list byte.
Hypothesis Hroot : is_rooted root = true.

Definition rr : list name := stk root.

(** rooted, and lexically inside the root with [d] components below it *)
Definition inrootd (d : nat) (p : list byte) : Prop := is_rooted p = true /\ above rr d (stk p).
Definition inroot (p : list byte) : Prop := is_rooted p = true /\ exists d, above rr d (stk p).

Lemma inrootd_inroot d p : inrootd d p -> inroot p.
Proof. intros [A B]. split; eauto. Qed.

Lemma inroot_within p : inroot p -> within root p = true.
Proof.
  intros [_ [d H]]. unfold within. rewrite !resolve_stk. fold rr. eapply above_within; eauto.
Qed.

Lemma inrootd_root : inrootd 0 root.
Proof. split; auto. exists []. repeat split; auto. Qed.

Lemma inroot_clean p : inroot p -> inroot (clean p).
Proof.
  intros [A [d B]]. split; [apply is_rooted_clean; auto|]. exists d. rewrite stk_clean; auto.
Qed.

Lemma inrootd_join_item d p it :
  inrootd d p -> ~ In slash it -> depth_ok [it] d = true -> inrootd (depth_after [it] d) (join2 p it).
Proof.
  intros [A B] Hs Hd. split; [apply is_rooted_join2; auto|].
  rewrite stk_join2; auto. rewrite split_on_single; auto.
  change (walk (stk p) [it]) with (stepc true (stk p) it). apply stepc_above; auto.
Qed.

Lemma inrootd_join_items d p ik :
  inrootd d p -> depth_ok (split_on slash ik) d = true ->
  inrootd (depth_after (split_on slash ik) d) (join2 p ik).
Proof.
  intros [A B] Hd. split; [apply is_rooted_join2; auto|].
  rewrite stk_join2; auto. apply walk_above; auto. apply split_on_nosep.
Qed.

Lemma inroot_join_valid p c : inroot p -> validc c -> inroot (join2 p c).
Proof.
  intros [A [d B]] Hc. split; [apply is_rooted_join2; auto|].
  exists (S d). rewrite stk_join2; auto. rewrite split_on_single; [|apply Hc].
  apply above_push; auto.
Qed.

Lemma inroot_leaf p c : inroot p -> validc c -> inroot (clean (p ++ slash :: c)).
Proof.
  intros [A [d B]] Hc. split; [apply is_rooted_clean, is_rooted_app; auto|].
  exists (S d). rewrite stk_clean; [|apply is_rooted_app; auto].
  rewrite stk_concat, split_on_single; [|apply Hc]. apply above_push; auto.
Qed.

(* ------------------------------------------------------------------ the world *)
Definition w_ok (w : world) : Prop :=
  fs_valid (wfs w) /\ Forall (fun s => within root (sys_path s) = true) (wtr w).

Lemma do_mkdir_ok w p w' : w_ok w -> inroot p -> do_mkdir w p = Some w' -> w_ok w'.
Proof.
  intros [A B] Hp. unfold do_mkdir. destruct (fmkdir (wfs w) (resolve p)) eqn:E; [|discriminate].
  intros K. inversion K; subst. split; cbn.
  - eapply fmkdir_valid; [exact A|apply resolve_valid|exact E].
  - constructor; auto. apply inroot_within; auto.
Qed.

Lemma do_create_ok w p ct w' : w_ok w -> inroot p -> do_create w p ct = Some w' -> w_ok w'.
Proof.
  intros [A B] Hp. unfold do_create. destruct (fwrite (wfs w) (resolve p) ct) eqn:E; [|discriminate].
  intros K. inversion K; subst. split; cbn.
  - eapply fwrite_valid; [exact A|apply resolve_valid|exact E].
  - constructor; auto. apply inroot_within; auto.
Qed.

Lemma do_rmall_ok w p w' : w_ok w -> inroot p -> do_rmall w p = Some w' -> w_ok w'.
Proof.
  intros [A B] Hp. unfold do_rmall. destruct (frmall (wfs w) (resolve p)) eqn:E; [|discriminate].
  intros K. inversion K; subst. split; cbn.
  - eapply frmall_valid; [exact A|exact E].
  - constructor; auto. apply inroot_within; auto.
Qed.

Lemma do_pwrite_ok w p : w_ok w -> inroot p -> w_ok (do_pwrite w p).
Proof.
  intros [A B] Hp. unfold do_pwrite. destruct (fstat (wfs w) (resolve p)); try (split; assumption).
  split; cbn; auto. constructor; auto. apply inroot_within; auto.
Qed.

(* ------------------------------------------------------------------ the catalog *)
Ltac csplit := split; [try assumption | split; [try assumption|]].

Fixpoint call (n : cnode) : Prop :=
  let 'CNode _ p _ subs files := n in
  inroot p
  /\ match files with Some l => Forall (fun f => inroot (fst f)) l | None => True end
  /\ (fix go (l : list (name * cnode)) : Prop :=
        match l with [] => True | (_, m) :: r => call m /\ go r end) subs.

Lemma call_go_Forall (l : list (name * cnode)) :
  (fix go (l : list (name * cnode)) : Prop :=
     match l with [] => True | (_, m) :: r => call m /\ go r end) l
  <-> Forall (fun e => call (snd e)) l.
Proof.
  induction l as [|[k m] r IH]; cbn.
  - split; auto.
  - rewrite IH. split.
    + intros [A B]. constructor; auto.
    + intros H. inversion H; subst. auto.
Qed.

Lemma call_unfold i p ct subs files :
  call (CNode i p ct subs files) <->
  inroot p /\ match files with Some l => Forall (fun f => inroot (fst f)) l | None => True end
  /\ Forall (fun e => call (snd e)) subs.
Proof. cbn [call]. rewrite call_go_Forall. reflexivity. Qed.

Lemma call_path n : call n -> inroot (cn_path n).
Proof. destruct n. rewrite call_unfold. cbn. tauto. Qed.

Lemma call_sub n k m : call n -> aget k (cn_subs n) = Some m -> call m.
Proof.
  destruct n as [i p ct subs files]. rewrite call_unfold. cbn. intros (_ & _ & H) G.
  apply aget_In in G. rewrite Forall_forall in H. apply (H _ G).
Qed.

Lemma call_cget a : forall n m, call n -> cget n a = Some m -> call m.
Proof.
  induction a as [|c r IH]; intros n m Hn; cbn.
  - intros E. inversion E; subst. exact Hn.
  - destruct (aget c (cn_subs n)) eqn:G; [|discriminate]. apply IH. eapply call_sub; eauto.
Qed.

Lemma call_cupd f a :
  (forall m, call m -> call (f m)) -> forall n, call n -> call (cupd n a f).
Proof.
  intros Hf. induction a as [|c r IH]; intros n Hn; cbn; auto.
  destruct (aget c (cn_subs n)) eqn:G; auto.
  destruct n as [i p ct subs files]. cbn in G. rewrite call_unfold in Hn |- *.
  destruct Hn as (A & B & C). csplit.
  apply aset_Forall; auto. cbn. apply IH.
  apply aget_In in G. rewrite Forall_forall in C. apply (C _ G).
Qed.

Lemma cupd_path f a : (forall m, cn_path (f m) = cn_path m) -> forall n, cn_path (cupd n a f) = cn_path n.
Proof.
  intros Hf. destruct a as [|c r]; intros n; cbn; auto.
  destruct (aget c (cn_subs n)); auto. destruct n; reflexivity.
Qed.

Definition cat_ok (c : catalog) : Prop :=
  call (croot c) /\ inrootd 0 (cn_path (croot c)).

(* ------------------------------------------------------------------ load *)
Lemma load_loop_call rec item pth cat sub addr es :
  inroot pth -> inroot sub ->
  Forall entv es ->
  Forall (fun e => forall nm leaf a, inroot leaf -> call (fst (fst (rec (snd e) nm leaf a)))) es ->
  forall subs files dm,
    Forall (fun e => call (snd e)) subs ->
    match files with Some l => Forall (fun f => inroot (fst f)) l | None => True end ->
    call (fst (fst (load_loop rec item pth cat sub addr es subs files dm))).
Proof.
  intros Hp Hs. induction es as [|[nm m] es' IH]; intros Hv Hr subs files dm Hsubs Hfiles.
  - cbn [load_loop fst]. rewrite call_unfold. csplit. exact Hsubs.
  - inversion Hv; subst. inversion Hr; subst. destruct H1 as [Hnm Hm]. cbn in Hnm, Hm.
    assert (Hleaf : inroot (clean (sub ++ slash :: nm))) by (apply inroot_leaf; auto).
    cbn [load_loop]. destruct m as [ct|ents].
    + destruct (has_bin_ext nm).
      * assert (Hfl : Forall (fun f : name * Z => inroot (fst f)) (match files with Some l => l | None => [] end)).
        { destruct files; auto. }
        destruct (year_of_file nm).
        -- apply IH; auto. cbn. apply aset_Forall; auto.
        -- cbn [fst]. rewrite call_unfold. csplit; auto. apply aset_Forall; auto.
      * apply IH; auto.
    + destruct (bytes_eqb nm s_metadata_db); [apply IH; auto|].
      specialize (H3 nm (clean (sub ++ slash :: nm)) (addr ++ [nm]) Hleaf). cbn in H3.
      destruct (rec (FDir ents) nm (clean (sub ++ slash :: nm)) (addr ++ [nm])) as [[ch dmc] e]. cbn in H3.
      assert (Hs' : Forall (fun e => call (snd e)) (aset nm ch subs)) by (apply aset_Forall; auto).
      destruct e.
      * apply IH; cbn; auto.
      * apply IH; cbn; auto.
      * cbn [fst]. rewrite call_unfold. csplit; auto.
Qed.

Lemma load_call : forall n item sub addr, fs_valid n -> inroot sub -> call (fst (fst (load n item sub addr))).
Proof.
  induction n as [c|ents IH] using fnode_ind2; intros item sub addr Hv Hs.
  - cbn [load fst]. rewrite call_unfold. csplit; auto. apply inroot_clean; auto.
  - cbn [load]. destruct (aget s_category_name ents) as [[cat|]|].
    + apply load_loop_call; auto.
      * apply inroot_clean; auto.
      * apply fs_valid_dir; auto.
      * pose proof (fs_valid_dir _ Hv) as He. clear - IH He.
        induction ents as [|e r IHr]; constructor.
        -- inversion IH; subst. inversion He; subst. intros nm leaf a Hl. apply H1; auto. apply H3.
        -- inversion IH; subst. inversion He; subst. apply IHr; auto.
    + cbn [fst]. rewrite call_unfold. csplit; auto. apply inroot_clean; auto.
    + cbn [fst]. rewrite call_unfold. csplit; auto. apply inroot_clean; auto.
Qed.

Lemma load_loop_path rec item pth cat sub addr es : forall subs files dm,
  cn_path (fst (fst (load_loop rec item pth cat sub addr es subs files dm))) = pth.
Proof.
  induction es as [|[nm m] es' IH]; intros subs files dm; [reflexivity|].
  cbn [load_loop]. destruct m.
  - destruct (has_bin_ext nm); auto. destruct (year_of_file nm); auto.
  - destruct (bytes_eqb nm s_metadata_db); auto.
    destruct (rec (FDir ents) nm (clean (sub ++ slash :: nm)) (addr ++ [nm])) as [[ch dmc] e].
    destruct e; auto.
Qed.

Lemma load_path n item sub addr : cn_path (fst (fst (load n item sub addr))) = clean sub.
Proof.
  destruct n as [c|ents]; [reflexivity|]. cbn [load].
  destruct (aget s_category_name ents) as [[cat|]|]; try reflexivity. apply load_loop_path.
Qed.

Lemma new_directory_call w p : w_ok w -> inroot p -> call (fst (fst (new_directory w p))).
Proof.
  intros [Hv _] Hp. unfold new_directory. destruct (fget (wfs w) (resolve p)) eqn:G.
  - apply load_call; auto. eapply fget_valid; eauto.
  - cbn [fst]. rewrite call_unfold. csplit; auto. apply inroot_clean; auto.
Qed.

Lemma new_directory_path w p : cn_path (fst (fst (new_directory w p))) = clean p.
Proof.
  unfold new_directory. destruct (fget (wfs w) (resolve p)); [apply load_path|reflexivity].
Qed.

(* ------------------------------------------------------------------ AddTimeBucket *)
Lemma write_category_ok w cn dirn w' o :
  w_ok w -> inroot dirn -> write_category w cn dirn = (w', o) -> w_ok w'.
Proof.
  intros Hw Hd. unfold write_category.
  destruct (file_exists w (join2 dirn s_category_name)).
  - destruct (read_file w (join2 dirn s_category_name)); [destruct (bytes_eqb l cn)|];
      intros E; inversion E; subst; auto.
  - destruct (do_create w (join2 dirn s_category_name) cn) eqn:C; intros E; inversion E; subst; auto.
    eapply do_create_ok; [exact Hw| |exact C]. apply inroot_join_valid; auto. apply valid_category_name.
Qed.

Lemma new_year_file_ok w p tag w' o : w_ok w -> inroot p -> new_year_file w p tag = (w', o) -> w_ok w'.
Proof.
  intros Hw Hp. unfold new_year_file. destruct (stat_ok w p).
  - intros E; inversion E; subst; auto.
  - destruct (do_create w p tag) eqn:C; intros E; inversion E; subst; auto.
    eapply do_create_ok; [exact Hw|exact Hp|exact C].
Qed.

Lemma mkdir_chain_ok items : forall w dirn cats i d w' o,
  w_ok w -> inrootd d dirn -> Forall (fun c => ~ In slash c) items -> depth_ok items d = true ->
  mkdir_chain w dirn items cats i = (w', o) ->
  w_ok w' /\ (forall dn, o = Done dn -> inroot dn).
Proof.
  induction items as [|it rest IH]; intros w dirn cats i d w' o Hw Hd Hs Hk; cbn [mkdir_chain].
  - intros E. inversion E; subst. split; auto. intros dn K. inversion K; subst. eapply inrootd_inroot; eauto.
  - inversion Hs; subst. rewrite depth_ok_cons in Hk. apply andb_true_iff in Hk as [Hk1 Hk2].
    pose proof (inrootd_join_item _ _ _ Hd H1 Hk1) as Hsub.
    destruct (file_exists w (join2 dirn it)).
    + destruct (nth_error cats i) as [cn|]; [|intros E; inversion E; subst; split; auto; discriminate].
      destruct (write_category w cn dirn) as [w2 o2] eqn:WC.
      pose proof (write_category_ok _ _ _ _ _ Hw (inrootd_inroot _ _ Hd) WC) as Hw2.
      destruct o2; try solve [intros E; inversion E; subst; split; auto; discriminate].
      eapply IH; eauto.
    + destruct (do_mkdir w (join2 dirn it)) as [w1|] eqn:MK;
        [|intros E; inversion E; subst; split; auto; discriminate].
      pose proof (do_mkdir_ok _ _ _ Hw (inrootd_inroot _ _ Hsub) MK) as Hw1.
      destruct (nth_error cats i) as [cn|]; [|intros E; inversion E; subst; split; auto; discriminate].
      destruct (write_category w1 cn dirn) as [w2 o2] eqn:WC.
      pose proof (write_category_ok _ _ _ _ _ Hw1 (inrootd_inroot _ _ Hd) WC) as Hw2.
      destruct o2; try solve [intros E; inversion E; subst; split; auto; discriminate].
      eapply IH; eauto.
Qed.

Lemma items_ok_depth items : forallb item_ok items = true -> forall d, depth_ok items d = true.
Proof.
  induction items as [|c r IH]; intros H d; [reflexivity|].
  cbn in H. apply andb_true_iff in H as [H1 H2]. unfold item_ok in H1. apply negb_true_iff in H1.
  apply orb_false_iff in H1 as [H1 _]. apply orb_false_iff in H1 as [H1 Hdd]. cbn [depth_ok]. rewrite H1, Hdd. apply IH; auto.
Qed.

Lemma depth_ok_hd items : depth_ok items 0 = true -> depth_ok [hd [] items] 0 = true.
Proof.
  destruct items as [|c r]; [reflexivity|]. intros H. rewrite depth_ok_cons in H.
  apply andb_true_iff in H as [H _]. exact H.
Qed.

Lemma add_subdir_ok c ch dmc nm : cat_ok c -> call ch -> cat_ok (add_subdir c ch dmc nm).
Proof.
  intros [A B] Hc. unfold add_subdir. destruct ch as [ci cp cc cs cf].
  destruct (croot c) as [i p ct s fl] eqn:R. split; cbn [croot].
  - rewrite call_unfold in A |- *. destruct A as (A1 & A2 & A3). csplit.
    apply aset_Forall; auto.
  - exact B.
Qed.

Lemma add_time_bucket_ok w c k fpath tag w' c' o :
  w_ok w -> cat_ok c -> (forallb item_ok (key_items k) = true -> inroot fpath) ->
  add_time_bucket w c k fpath tag = (w', c', o) -> w_ok w' /\ cat_ok c'.
Proof.
  intros Hw Hc Hf0. unfold add_time_bucket.
  destruct (key_cat_key k) as [ck|]; [|intros E; inversion E; subst; auto].
  destruct (forallb item_ok (key_items k)) eqn:Hv; cbn [negb]; [|intros E; inversion E; subst; auto].
  pose proof (items_ok_depth _ Hv 0%nat) as Hk. pose proof (Hf0 eq_refl) as Hf. clear Hf0.
  destruct Hc as [Hc1 Hc2].
  destruct (mkdir_chain w (cn_path (croot c)) (key_items k) (split_on slash ck) 0) as [w1 o1] eqn:MC.
  destruct (mkdir_chain_ok _ _ _ _ _ _ _ _ Hw Hc2 (split_on_nosep slash _) Hk MC) as [Hw1 Hdn].
  destruct o1 as [dirn| |]; try solve [intros E; inversion E; subst; split; auto; split; auto].
  specialize (Hdn dirn eq_refl).
  destruct (write_category w1 s_year dirn) as [w2 o2] eqn:WC.
  pose proof (write_category_ok _ _ _ _ _ Hw1 Hdn WC) as Hw2.
  destruct o2; try solve [intros E; inversion E; subst; split; auto; split; auto].
  destruct (new_year_file w2 fpath tag) as [w3 o3] eqn:NY.
  pose proof (new_year_file_ok _ _ _ _ _ Hw2 Hf NY) as Hw3.
  destruct o3; try solve [intros E; inversion E; subst; split; auto; split; auto].
  set (c1 := let 'CNode i p ct s fl := croot c in
             match ct with [] => mkCat (CNode i p (hd [] (split_on slash ck)) s fl) (cdm c) | _ => c end).
  assert (Hc1' : cat_ok c1).
  { unfold c1. destruct (croot c) as [i p ct s fl] eqn:R. destruct ct; [|split; rewrite ?R; auto].
    split; cbn [croot]; [rewrite call_unfold in Hc1 |- *; exact Hc1|exact Hc2]. }
  assert (Hchild : inroot (join2 (cn_path (croot c)) (hd [] (key_items k)))).
  { eapply inrootd_inroot. apply inrootd_join_item; [exact Hc2| |].
    - pose proof (split_on_nosep slash (key_item_key k)) as F. unfold key_items.
      destruct (split_on slash (key_item_key k)); cbn [hd]; [intros []|]. inversion F; auto.
    - apply depth_ok_hd; auto. }
  pose proof (new_directory_call w3 _ Hw3 Hchild) as Hcall.
  destruct (new_directory w3 (join2 (cn_path (croot c)) (hd [] (key_items k)))) as [[ch dmc] e].
  cbn [fst] in Hcall. fold c1.
  destruct e; intros E; inversion E; subst; split; auto.
  apply add_subdir_ok; auto.
Qed.

(* ------------------------------------------------------------------ RemoveTimeBucket *)
Lemma remove_subdir_call n nm : call n -> call (remove_subdir n nm).
Proof.
  destruct n as [i p ct s fl]. cbn [remove_subdir]. rewrite !call_unfold.
  intros (A & B & C). csplit. apply adel_Forall; auto.
Qed.

Lemma cat_remove_sub_ok c addr nm : cat_ok c -> cat_ok (cat_remove_sub c addr nm).
Proof.
  intros [A B]. unfold cat_remove_sub. split; cbn.
  - apply call_cupd; auto. intros m. apply remove_subdir_call.
  - rewrite cupd_path; auto. intros m. destruct m; reflexivity.
Qed.

Lemma remove_dir_files_ok w c addr w' o :
  w_ok w -> cat_ok c -> remove_dir_files w c addr = (w', o) -> w_ok w'.
Proof.
  intros Hw [Hc _]. unfold remove_dir_files. destruct (cget (croot c) addr) eqn:G.
  - destruct (do_rmall w (cn_path c0)) eqn:R; intros E; inversion E; subst; auto.
    eapply do_rmall_ok; [exact Hw| |exact R]. apply call_path. eapply call_cget; eauto.
  - intros E; inversion E; subst; auto.
Qed.

Lemma remove_levels_ok levels : forall w c deleted w' c' o,
  w_ok w -> cat_ok c -> remove_levels w c levels deleted = (w', c', o) -> w_ok w' /\ cat_ok c'.
Proof.
  induction levels as [|[addr child] rest IH]; intros w c deleted w' c' o Hw Hc; cbn [remove_levels].
  - intros E; inversion E; subst; auto.
  - destruct child as [ch|].
    + destruct deleted.
      * pose proof (cat_remove_sub_ok c addr ch Hc) as Hc1.
        destruct (has_subdirs (cat_remove_sub c addr ch) addr); cbn.
        -- apply IH; auto.
        -- destruct (remove_dir_files w (cat_remove_sub c addr ch) addr) as [w2 o2] eqn:R.
           pose proof (remove_dir_files_ok _ _ _ _ _ Hw Hc1 R) as Hw2.
           destruct o2; try solve [intros E; inversion E; subst; auto]. apply IH; auto.
      * destruct (has_subdirs c addr); cbn.
        -- apply IH; auto.
        -- destruct (remove_dir_files w c addr) as [w2 o2] eqn:R.
           pose proof (remove_dir_files_ok _ _ _ _ _ Hw Hc R) as Hw2.
           destruct o2; try solve [intros E; inversion E; subst; auto]. apply IH; auto.
    + destruct (remove_dir_files w c addr) as [w1 o1] eqn:R1.
      pose proof (remove_dir_files_ok _ _ _ _ _ Hw Hc R1) as Hw1.
      destruct o1; try solve [intros E; inversion E; subst; auto].
      destruct (has_subdirs c addr); cbn.
      * apply IH; auto.
      * destruct (remove_dir_files w1 c addr) as [w2 o2] eqn:R.
        pose proof (remove_dir_files_ok _ _ _ _ _ Hw1 Hc R) as Hw2.
        destruct o2; try solve [intros E; inversion E; subst; auto]. apply IH; auto.
Qed.

Lemma remove_time_bucket_ok w c k w' c' o :
  w_ok w -> cat_ok c -> remove_time_bucket w c k = (w', c', o) -> w_ok w' /\ cat_ok c'.
Proof.
  intros Hw Hc. unfold remove_time_bucket.
  destruct (walk_ok (croot c) (key_items k)); cbn; [|intros E; inversion E; subst; auto].
  destruct (remove_levels w c (levels_of (key_items k)) false) as [[w1 c1] o1] eqn:RL.
  destruct (remove_levels_ok _ _ _ _ _ _ _ Hw Hc RL) as [Hw1 Hc1].
  destruct o1 as [[|]| |]; try solve [intros E; inversion E; subst; auto].
  destruct (remove_dir_files w1 c1 [hd [] (key_items k)]) as [w2 o2] eqn:R.
  pose proof (remove_dir_files_ok _ _ _ _ _ Hw1 Hc1 R) as Hw2.
  destruct o2; intros E; inversion E; subst; auto. split; auto. apply cat_remove_sub_ok; auto.
Qed.

(* ------------------------------------------------------------------ lookups, AddFile, rows *)
Lemma latest_of_In l : forall y best x,
  latest_of l y best = Some x -> In x l \/ best = Some x.
Proof.
  induction l as [|[p yy] r IH]; intros y best x; cbn; auto.
  destruct ((y <? yy)%Z || (y =? 0)%Z).
  - intros H. apply IH in H as [H|H]; auto. inversion H; subst. auto.
  - intros H. apply IH in H as [H|H]; auto.
Qed.

Lemma dm_node_call c dirp a n : cat_ok c -> dm_node c dirp = Some (a, n) -> call n /\ cget (croot c) a = Some n.
Proof.
  intros [Hc _]. unfold dm_node. destruct (aget dirp (cdm c)); [|discriminate].
  destruct (cget (croot c) l) eqn:G; [|discriminate]. intros E. inversion E; subst.
  split; auto. eapply call_cget; eauto.
Qed.

Lemma latest_year_file_inroot n cur : call n -> latest_year_file n = Done cur -> inroot (fst cur).
Proof.
  destruct n as [i p ct s fl]. rewrite call_unfold. intros (_ & B & _). unfold latest_year_file. cbn.
  destruct fl as [l|]; [|discriminate]. destruct (latest_of l 0 None) eqn:L; [|discriminate].
  intros E. inversion E; subst. apply latest_of_In in L as [L|L]; [|discriminate].
  rewrite Forall_forall in B. apply (B _ L).
Qed.

Lemma latest_tbi_inroot c k cur : cat_ok c -> latest_tbi c k = Done cur -> inroot (fst cur).
Proof.
  intros Hc. unfold latest_tbi.
  destruct (dm_node c (dir (path_to_year_files (cn_path (croot c)) k ++ s_1970))) as [[a n]|] eqn:D; [|discriminate].
  destruct (dm_node_call _ _ _ _ Hc D). apply latest_year_file_inroot; auto.
Qed.

Ltac fin3 := split; [assumption | split; [assumption | intros ? K; discriminate K]].

Lemma add_file_ok w c full year w' c' o :
  w_ok w -> cat_ok c -> add_file w c full year = (w', c', o) ->
  w_ok w' /\ cat_ok c' /\ (forall cur, o = Done cur -> inroot (fst cur)).
Proof.
  intros Hw Hc. unfold add_file.
  destruct (dm_node c (dir full)) as [[a n]|] eqn:D;
    [|intros E; inversion E; subst; fin3].
  destruct (dm_node_call _ _ _ _ Hc D) as [Hn Hg].
  destruct (cn_files n) as [fl|] eqn:F; [|intros E; inversion E; subst; fin3].
  destruct (match fl with (tp, _) :: _ => read_file w tp | [] => None end) as [tag|];
    [|intros E; inversion E; subst; fin3].
  assert (Hnp : inroot (join2 (cn_path n) (itoa year ++ bin_ext))).
  { apply inroot_join_valid; [apply call_path; auto|apply yearfile_valid]. }
  destruct (new_year_file w (join2 (cn_path n) (itoa year ++ bin_ext)) tag) as [w1 o1] eqn:NY.
  pose proof (new_year_file_ok _ _ _ _ _ Hw Hnp NY) as Hw1.
  destruct o1 as [u|e|].
  - intros E; inversion E; subst. split; [assumption|split; [split|]].
    + cbn [croot]. apply call_cupd; [|apply Hc]. intros m Hm. destruct m as [i p ct s f].
      rewrite call_unfold in Hm |- *. destruct Hm as (A & B & C). csplit; [|exact C].
      apply aset_Forall; auto. destruct f; auto.
    + cbn [croot]. rewrite cupd_path; [apply Hc|]. intros m. destruct m; reflexivity.
    + intros cur K. inversion K; subst. exact Hnp.
  - destruct e; intros E; inversion E; subst; try fin3.
    split; [assumption|split; [assumption|]]. intros cur K. inversion K; subst. exact Hnp.
  - intros E; inversion E; subst; fin3.
Qed.

Lemma write_rows_ok years : forall w c cur w' c' o,
  w_ok w -> cat_ok c -> inroot (fst cur) -> write_rows w c cur years = (w', c', o) -> w_ok w' /\ cat_ok c'.
Proof.
  induction years as [|y r IH]; intros w c cur w' c' o Hw Hc Hcur; cbn [write_rows].
  - intros E; inversion E; subst; auto.
  - match goal with |- context [if ?b then _ else _] => destruct b end.
    + apply IH; auto. apply do_pwrite_ok; auto.
    + match goal with |- context [add_file ?a ?b ?x ?d] => destruct (add_file a b x d) as [[w1 c1] o1] eqn:AF end.
      destruct (add_file_ok _ _ _ _ _ _ _ Hw Hc AF) as (Hw1 & Hc1 & Hcur').
      destruct o1 as [cur'| |]; try solve [intros E; inversion E; subst; auto].
      apply IH; auto. apply do_pwrite_ok; auto.
Qed.

(* ------------------------------------------------------------------ keys and requests *)
Lemma hd_split_new_tbk i ck : ~ In colon i -> key_item_key (new_tbk i ck) = i.
Proof.
  intros H. unfold key_item_key, new_tbk. rewrite split_on_app, split_on_single; auto.
Qed.

Lemma hd_split_nocolon s : ~ In colon (hd [] (split_on colon s)).
Proof.
  pose proof (split_on_nosep colon s) as F. destruct (split_on colon s); cbn; [intros []|].
  inversion F; auto.
Qed.

Lemma tbi_path_inroot p k year :
  inrootd 0 p -> depth_ok (key_items k) 0 = true -> inroot (tbi_path p k year).
Proof.
  intros Hp Hk. unfold tbi_path, path_to_year_files.
  apply inroot_join_valid; [|apply yearfile_valid].
  eapply inrootd_inroot. apply inrootd_join_items; eauto.
Qed.

Lemma fe_create_ok w c key tfok year tag w' c' o :
  w_ok w -> cat_ok c ->
  fe_create w c root key tfok year tag = (w', c', o) -> w_ok w' /\ cat_ok c'.
Proof.
  intros Hw Hc. unfold fe_create.
  destruct (split_on colon key) as [|i [|ck [|x l]]] eqn:S; try solve [intros E; inversion E; subst; auto].
  destruct (get_timeframe (new_tbk i ck) tfok); try solve [intros E; inversion E; subst; auto].
  apply add_time_bucket_ok; auto. intros Hv. apply tbi_path_inroot; [apply inrootd_root|].
  apply items_ok_depth; auto.
Qed.

Lemma fe_destroy_ok w c key w' c' o :
  w_ok w -> cat_ok c -> fe_destroy w c key = (w', c', o) -> w_ok w' /\ cat_ok c'.
Proof. intros Hw Hc. unfold fe_destroy. apply remove_time_bucket_ok; auto. Qed.

Lemma tbk_from_string_items s : key_items (tbk_from_string s) = key_items s.
Proof.
  unfold key_items. f_equal. unfold tbk_from_string, key_item_key at 2.
  pose proof (hd_split_nocolon s) as K.
  destruct (split_on colon s) as [|i [|ck l]] eqn:S; cbn in K |- *.
  - reflexivity.
  - apply hd_split_new_tbk; auto.
  - apply hd_split_new_tbk; auto.
Qed.

Lemma write_csm1_ok w c key tfok years tag w' c' o :
  w_ok w -> cat_ok c ->
  write_csm1 w c key tfok years tag = (w', c', o) -> w_ok w' /\ cat_ok c'.
Proof.
  intros Hw Hc. unfold write_csm1.
  set (k := tbk_from_string key) in *.
  destruct (get_timeframe k tfok); try solve [intros E; inversion E; subst; auto].
  assert (AL : forall w c (cur : name * Z) (fresh : bool) w' c' (o : out unit), w_ok w -> cat_ok c -> inroot (fst cur) ->
    match (if fresh then Some tag else read_file w (fst cur)) with
    | Some t => if bytes_eqb t tag then write_rows w c cur years else (w, c, Fail EOther)
    | None => (w, c, Crash)
    end = (w', c', o) -> w_ok w' /\ cat_ok c').
  { clear. intros w c cur fresh w' c' o Hw Hc Hcur.
    destruct (if fresh then Some tag else read_file w (fst cur)) as [t|]; [|intros E; inversion E; subst; auto].
    destruct (bytes_eqb t tag); [|intros E; inversion E; subst; auto].
    eapply write_rows_ok; eauto. }
  destruct (latest_tbi c k) as [cur|e|] eqn:L.
  - apply (AL w c cur false); auto. eapply latest_tbi_inroot; eauto.
  - destruct years as [|y0 ys]; [intros E; inversion E; subst; auto|].
    assert (Hfp : forallb item_ok (key_items k) = true -> inroot (tbi_path (cn_path (croot c)) k (wrap I16 y0))).
    { intros Hv. apply tbi_path_inroot; [apply Hc|]. apply items_ok_depth; auto. }
    destruct (add_time_bucket w c k (tbi_path (cn_path (croot c)) k (wrap I16 y0)) tag) as [[w1 c1] o1] eqn:AT.
    destruct (add_time_bucket_ok _ _ _ _ _ _ _ _ Hw Hc Hfp AT) as [Hw1 Hc1].
    (* the new file's path is used only when AddTimeBucket accepted the key or found the file: both imply valid items *)
    assert (Hv : forall u, o1 = Done u \/ o1 = Fail EExists -> forallb item_ok (key_items k) = true).
    { intros u Ho. unfold add_time_bucket in AT. destruct (key_cat_key k); [|destruct Ho as [Ho|Ho]; rewrite Ho in AT; inversion AT].
      destruct (forallb item_ok (key_items k)); auto. cbn in AT. destruct Ho as [Ho|Ho]; rewrite Ho in AT; inversion AT. }
    destruct o1 as [u|e1|]; try solve [intros E; inversion E; subst; auto].
    + apply (AL w1 c1 (tbi_path (cn_path (croot c)) k (wrap I16 y0), wrap I16 y0) true); auto.
      apply Hfp. apply (Hv u). left. reflexivity.
    + destruct e1; try solve [intros E; inversion E; subst; auto].
      apply (AL w1 c1 (tbi_path (cn_path (croot c)) k (wrap I16 y0), wrap I16 y0) true); auto.
      apply Hfp. apply (Hv tt). right. reflexivity.
  - intros E; inversion E; subst; auto.
Qed.

Lemma step_ok w c o w' c' code :
  w_ok w -> cat_ok c -> step root (w, c) o = (w', c', code) -> w_ok w' /\ cat_ok c'.
Proof.
  intros Hw Hc. unfold step. destruct o as [k tf y tag|k tf ys tag|k|k|].
  - destruct (fe_create w c root k tf y tag) as [[w1 c1] r] eqn:E. intros K. inversion K; subst.
    eapply fe_create_ok; eauto.
  - destruct (write_csm1 w c k tf ys tag) as [[w1 c1] r] eqn:E. intros K. inversion K; subst.
    eapply write_csm1_ok; eauto.
  - destruct (fe_destroy w c k) as [[w1 c1] r] eqn:E. intros K. inversion K; subst.
    eapply fe_destroy_ok; eauto.
  - intros K. inversion K; subst. auto.
  - pose proof (new_directory_call w root Hw (inrootd_inroot _ _ inrootd_root)) as H.
    pose proof (new_directory_path w root) as P.
    destruct (new_directory w root) as [[n dm] e]. cbn [fst] in H, P. intros K. inversion K; subst.
    split; auto. split; cbn [croot]; auto. rewrite P.
    split; [apply is_rooted_clean; auto|]. rewrite stk_clean; auto. apply inrootd_root.
Qed.

Lemma init_world_ok : w_ok (init_world root).
Proof.
  split; cbn; [|constructor]. apply mk_dirs_valid. apply resolve_valid.
Qed.

Lemma init_cat_ok : cat_ok (init_cat root).
Proof.
  unfold init_cat.
  pose proof (new_directory_call (init_world root) root init_world_ok (inrootd_inroot _ _ inrootd_root)) as H.
  pose proof (new_directory_path (init_world root) root) as P.
  destruct (new_directory (init_world root) root) as [[n dm] e]. cbn in H, P |- *. split; cbn; auto.
  rewrite P. split; [apply is_rooted_clean; auto|]. rewrite stk_clean; auto. apply inrootd_root.
Qed.

Lemma run_fold_ok ops : forall w c codes w' c' codes',
  w_ok w -> cat_ok c ->
  fold_left (fun '(w, c, codes) o => let '(w', c', k) := step root (w, c) o in (w', c', codes ++ [k]))
            ops (w, c, codes) = (w', c', codes') ->
  w_ok w' /\ cat_ok c'.
Proof.
  induction ops as [|o r IH]; intros w c codes w' c' codes' Hw Hc; cbn [fold_left].
  - intros E; inversion E; subst; auto.
  - destruct (step root (w, c) o) as [[w1 c1] k] eqn:S.
    destruct (step_ok _ _ _ _ _ _ Hw Hc S). apply IH; auto.
Qed.

Theorem run_confined ops :
  let '(w, _, _) := run root ops in forallb (fun s => within root (sys_path s)) (wtr w) = true.
Proof.
  unfold run.
  destruct (fold_left _ ops (init_world root, init_cat root, [])) as [[w c] codes] eqn:E.
  destruct (run_fold_ok _ _ _ _ _ _ _ init_world_ok init_cat_ok E) as [[_ Hw] _].
  apply forallb_forall. rewrite Forall_forall in Hw. exact Hw.
Qed.

End Root.
