(** C17, sequential half: over a small key space every reachable state of the catalog model is the
    canonical state of an explicit specification state (which buckets exist, with which year files and
    schema tags), and in every such state the in-memory catalog equals a fresh scan of the disk.

    Technique: the specification states of a key space form a finite set; [closure_ok] checks by
    [vm_compute], for EVERY specification state and EVERY request of the alphabet, that one model step
    from the canonical state lands exactly on the canonical state of the specification's successor
    (file system, catalog tree and directMap compared structurally; the system-call trace is a free
    variable).  Induction over the request list then covers all - unboundedly long - histories. *)
From Coq Require Import ZArith NArith List Bool Lia.
From Coq.Strings Require Import Byte.
Import ListNotations.
Require Import MS.Base.GoInt MS.Base.Hex MS.Base.Path MS.Model.Catalog.

(* ------------------------------------------------------------------ structural equality tests *)
Fixpoint fnode_eqb (a b : fnode) {struct a} : bool :=
  match a, b with
  | FFile x, FFile y => bytes_eqb x y
  | FDir xs, FDir ys =>
      (fix go (l1 : list (name * fnode)) (l2 : list (name * fnode)) {struct l1} : bool :=
         match l1, l2 with
         | [], [] => true
         | (k1, n1) :: r1, (k2, n2) :: r2 => bytes_eqb k1 k2 && fnode_eqb n1 n2 && go r1 r2
         | _, _ => false
         end) xs ys
  | _, _ => false
  end.

Fixpoint list_eqb {A} (eqb : A -> A -> bool) (a b : list A) : bool :=
  match a, b with
  | [], [] => true
  | x :: a', y :: b' => eqb x y && list_eqb eqb a' b'
  | _, _ => false
  end.

Definition files_eqb (a b : option (list (name * Z))) : bool :=
  match a, b with
  | None, None => true
  | Some x, Some y => list_eqb (fun p q => bytes_eqb (fst p) (fst q) && Z.eqb (snd p) (snd q)) x y
  | _, _ => false
  end.

Fixpoint cnode_eqb (a b : cnode) {struct a} : bool :=
  let 'CNode i1 p1 c1 s1 f1 := a in
  let 'CNode i2 p2 c2 s2 f2 := b in
  bytes_eqb i1 i2 && bytes_eqb p1 p2 && bytes_eqb c1 c2 && files_eqb f1 f2
  && (fix go (l1 : list (name * cnode)) (l2 : list (name * cnode)) {struct l1} : bool :=
        match l1, l2 with
        | [], [] => true
        | (k1, n1) :: r1, (k2, n2) :: r2 => bytes_eqb k1 k2 && cnode_eqb n1 n2 && go r1 r2
        | _, _ => false
        end) s1 s2.

Definition dmap_eqb (a b : dmap) : bool :=
  list_eqb (fun p q => bytes_eqb (fst p) (fst q) && list_eqb bytes_eqb (snd p) (snd q)) a b.

Lemma list_eqb_eq {A} (eqb : A -> A -> bool) :
  (forall x y, eqb x y = true -> x = y) -> forall a b, list_eqb eqb a b = true -> a = b.
Proof.
  intros H. induction a as [|x a IH]; intros [|y b]; cbn; try discriminate; auto.
  intros E. apply andb_true_iff in E as [E1 E2]. f_equal; auto.
Qed.

Lemma bytes_eqb_true a b : bytes_eqb a b = true -> a = b.
Proof. apply bytes_eqb_eq. Qed.

Section fnode_ind3.
  Variable P : fnode -> Prop.
  Hypothesis HF : forall c, P (FFile c).
  Hypothesis HD : forall ents, Forall (fun e => P (snd e)) ents -> P (FDir ents).
  Fixpoint fnode_ind3 (n : fnode) : P n :=
    match n with
    | FFile c => HF c
    | FDir ents =>
        HD ents ((fix go (l : list (name * fnode)) : Forall (fun e => P (snd e)) l :=
                    match l with
                    | [] => Forall_nil _
                    | (k, m) :: r => Forall_cons (k, m) (fnode_ind3 m) (go r)
                    end) ents)
    end.
End fnode_ind3.

Lemma fnode_eqb_eq : forall a b, fnode_eqb a b = true -> a = b.
Proof.
  induction a as [c|ents IH] using fnode_ind3; intros [c2|ents2]; cbn; try discriminate.
  - intros E. apply bytes_eqb_eq in E. congruence.
  - intros E. f_equal. revert ents2 E. induction ents as [|[k1 n1] r1 IHr]; intros [|[k2 n2] r2] E; try discriminate; auto.
    inversion IH; subst. apply andb_true_iff in E as [E E3]. apply andb_true_iff in E as [E1 E2].
    apply bytes_eqb_eq in E1. apply H1 in E2. cbn in E2. subst. f_equal. apply IHr; auto.
Qed.

Section cnode_ind3.
  Variable P : cnode -> Prop.
  Hypothesis H : forall i p c subs f, Forall (fun e => P (snd e)) subs -> P (CNode i p c subs f).
  Fixpoint cnode_ind3 (n : cnode) : P n :=
    let 'CNode i p c subs f := n in
    H i p c subs f ((fix go (l : list (name * cnode)) : Forall (fun e => P (snd e)) l :=
                       match l with
                       | [] => Forall_nil _
                       | (k, m) :: r => Forall_cons (k, m) (cnode_ind3 m) (go r)
                       end) subs).
End cnode_ind3.

Lemma files_eqb_eq a b : files_eqb a b = true -> a = b.
Proof.
  destruct a as [x|], b as [y|]; cbn; try discriminate; auto. intros E. f_equal.
  revert E. apply list_eqb_eq. intros [p1 y1] [p2 y2] E. cbn in E. apply andb_true_iff in E as [E1 E2].
  apply bytes_eqb_eq in E1. apply Z.eqb_eq in E2. congruence.
Qed.

Lemma cnode_eqb_eq : forall a b, cnode_eqb a b = true -> a = b.
Proof.
  induction a as [i p c subs f IH] using cnode_ind3; intros [i2 p2 c2 subs2 f2] E. cbn in E.
  apply andb_true_iff in E as [E E5]. apply andb_true_iff in E as [E E4]. apply andb_true_iff in E as [E E3].
  apply andb_true_iff in E as [E1 E2].
  apply bytes_eqb_eq in E1, E2, E3. apply files_eqb_eq in E4. subst. f_equal.
  revert subs2 E5. induction subs as [|[k1 n1] r1 IHr]; intros [|[k2 n2] r2] E; try discriminate; auto.
  inversion IH; subst. apply andb_true_iff in E as [E E3]. apply andb_true_iff in E as [E1 E2].
  apply bytes_eqb_eq in E1. apply H1 in E2. cbn in E2. subst. f_equal. apply IHr; auto.
Qed.

Lemma dmap_eqb_eq a b : dmap_eqb a b = true -> a = b.
Proof.
  apply list_eqb_eq. intros [k1 a1] [k2 a2] E. cbn in E. apply andb_true_iff in E as [E1 E2].
  apply bytes_eqb_eq in E1. apply (list_eqb_eq bytes_eqb bytes_eqb_true) in E2. congruence.
Qed.

(* ------------------------------------------------------------------ a key space and its specification *)
Record keyspace := mkKS {
  ks_root : list byte;
  ks_keys : list (list byte);        (* "Symbol/Timeframe/Group" *)
  ks_years : list Z;
  ks_tags : list (list byte)
}.

(** specification state: per key, per year of the key space, the schema tag of the year file if it
    exists; and whether the root already carries its category file *)
Record spec := mkSp { sp_files : list (list (option (list byte))); sp_rootcat : bool }.

Definition s_default_cat : list byte := colon :: s_default_schema.

Section KS.
Variable K : keyspace.

Definition nkeys := length (ks_keys K).
Definition nyears := length (ks_years K).

Definition sp0 : spec := mkSp (repeat (repeat None nyears) nkeys) false.

(** the requests of the alphabet *)
Definition alphabet : list op :=
  flat_map (fun k => flat_map (fun y => map (fun t => OpCreate (k ++ s_default_cat) true y t) (ks_tags K)) (ks_years K)) (ks_keys K)
  ++ flat_map (fun k => flat_map (fun y => map (fun t => OpWrite k true [y] t) (ks_tags K)) (ks_years K)) (ks_keys K)
  ++ flat_map (fun k => flat_map (fun y1 => flat_map (fun y2 => if Z.eqb y1 y2 then [] else map (fun t => OpWrite k true [y1; y2] t) (ks_tags K))
                                                   (ks_years K)) (ks_years K)) (ks_keys K)
  ++ map OpDestroy (ks_keys K)
  ++ map OpQuery (firstn 1 (ks_keys K))
  ++ [OpRestart].

(* ---- the specification's transition function ---- *)
Fixpoint index_of {A} (eqb : A -> A -> bool) (x : A) (l : list A) : option nat :=
  match l with
  | [] => None
  | y :: r => if eqb x y then Some 0%nat else option_map S (index_of eqb x r)
  end.

Fixpoint set_nth {A} (n : nat) (v : A) (l : list A) : list A :=
  match l, n with
  | [], _ => []
  | _ :: r, O => v :: r
  | x :: r, S n' => x :: set_nth n' v r
  end.

Definition bucket_exists (fl : list (option (list byte))) : bool := existsb (fun o => match o with Some _ => true | None => false end) fl.

(** the year file GetLatestYearFile picks (largest year) and the template AddFile copies (the first
    file of the directory listing = the smallest file name = the smallest year here) *)
Fixpoint pick {A} (better : Z -> Z -> bool) (ys : list Z) (fl : list (option A)) (best : option (Z * A)) : option (Z * A) :=
  match ys, fl with
  | y :: ys', Some t :: fl' =>
      pick better ys' fl' (match best with Some (by_, _) => if better y by_ then Some (y, t) else best | None => Some (y, t) end)
  | _ :: ys', None :: fl' => pick better ys' fl' best
  | _, _ => best
  end.
Definition latest (fl : list (option (list byte))) := pick Z.gtb (ks_years K) fl None.
Definition template (fl : list (option (list byte))) := pick Z.ltb (ks_years K) fl None.

Definition year_idx (y : Z) : option nat := index_of Z.eqb y (ks_years K).

(** the row loop of a write: a row in another year than the current file's adds that year from the template *)
Fixpoint spec_rows (fl : list (option (list byte))) (cur : Z) (ys : list Z) : list (option (list byte)) :=
  match ys with
  | [] => fl
  | y :: r =>
      if Z.eqb y cur then spec_rows fl cur r
      else match year_idx y, template fl with
           | Some i, Some (_, tmpl) =>
               let fl' := match nth i fl None with Some _ => fl | None => set_nth i (Some tmpl) fl end in
               spec_rows fl' y r
           | _, _ => fl
           end
  end.

Definition key_of_op (o : op) : option nat :=
  match o with
  | OpCreate k _ _ _ => index_of bytes_eqb (firstn (length k - length s_default_cat) k) (ks_keys K)
  | OpWrite k _ _ _ | OpDestroy k | OpQuery k => index_of bytes_eqb k (ks_keys K)
  | OpRestart => None
  end.

Definition spec_step (sp : spec) (o : op) : spec :=
  match key_of_op o with
  | None => sp
  | Some ki =>
      let fl := nth ki (sp_files sp) [] in
      match o with
      | OpCreate _ _ y t =>
          match year_idx y with
          | Some yi => match nth yi fl None with
                       | Some _ => sp                                           (* "Can not overwrite file" *)
                       | None => mkSp (set_nth ki (set_nth yi (Some t) fl) (sp_files sp)) true
                       end
          | None => sp
          end
      | OpWrite _ _ ys t =>
          match latest fl with
          | Some (cur, ct) =>
              if bytes_eqb ct t then mkSp (set_nth ki (spec_rows fl cur ys) (sp_files sp)) (sp_rootcat sp) else sp
          | None =>
              match ys with
              | [] => sp
              | y0 :: _ =>
                  match year_idx y0 with
                  | Some yi => mkSp (set_nth ki (spec_rows (set_nth yi (Some t) fl) y0 ys) (sp_files sp)) true
                  | None => sp
                  end
              end
          end
      | OpDestroy _ => mkSp (set_nth ki (repeat None nyears) (sp_files sp)) (sp_rootcat sp)
      | _ => sp
      end
  end.

(* ---- the canonical state of a specification state ---- *)
Definition canon_ops (sp : spec) : list op :=
  (match ks_keys K, ks_years K, ks_tags K with
   | k :: _, y :: _, t :: _ => if sp_rootcat sp then [OpCreate (k ++ s_default_cat) true y t; OpDestroy k] else []
   | _, _, _ => []
   end)
  ++ flat_map (fun '(k, fl) =>
       flat_map (fun '(y, o) => match o with Some t => [OpCreate (k ++ s_default_cat) true y t] | None => [] end)
                (combine (ks_years K) fl))
     (combine (ks_keys K) (sp_files sp)).

Definition pstate : Type := fnode * catalog.
Definition proj (x : world * catalog * list nat) : pstate := let '(w, c, _) := x in (wfs w, c).

Definition canon (sp : spec) : pstate := proj (run (ks_root K) (canon_ops sp)).

Definition pstate_eqb (a b : pstate) : bool :=
  fnode_eqb (fst a) (fst b) && cnode_eqb (croot (snd a)) (croot (snd b)) && dmap_eqb (cdm (snd a)) (cdm (snd b)).

Lemma pstate_eqb_eq a b : pstate_eqb a b = true -> a = b.
Proof.
  destruct a as [f1 [r1 d1]], b as [f2 [r2 d2]]. unfold pstate_eqb. cbn.
  intros E. apply andb_true_iff in E as [E E3]. apply andb_true_iff in E as [E1 E2].
  apply fnode_eqb_eq in E1. apply cnode_eqb_eq in E2. apply dmap_eqb_eq in E3. congruence.
Qed.

(* ---- all specification states ---- *)
Fixpoint all_lists {A} (choices : list A) (n : nat) : list (list A) :=
  match n with
  | O => [[]]
  | S n' => flat_map (fun x => map (cons x) (all_lists choices n')) choices
  end.

Definition file_choices : list (option (list byte)) := None :: map Some (ks_tags K).
Definition all_specs : list spec :=
  flat_map (fun fls => [mkSp fls true; mkSp fls false]) (all_lists (all_lists file_choices nyears) nkeys).

Definition choice_ok (o : option (list byte)) : bool :=
  match o with None => true | Some t => existsb (bytes_eqb t) (ks_tags K) end.
Definition spec_wfb (sp : spec) : bool :=
  Nat.eqb (length (sp_files sp)) nkeys
  && forallb (fun fl => Nat.eqb (length fl) nyears && forallb choice_ok fl) (sp_files sp).

(** a specification state is meaningful when it has the key space's dimensions and a bucket can only exist under a
    categorised root *)
Definition sp_ok (sp : spec) : bool :=
  spec_wfb sp && (sp_rootcat sp || negb (existsb bucket_exists (sp_files sp))).

(* ---- the table of canonical states: an explicit finite invariant ---- *)
Definition mk_tab : list (spec * pstate) := map (fun sp => (sp, canon sp)) (filter sp_ok all_specs).

Definition opt_eqb (a b : option (list byte)) : bool :=
  match a, b with None, None => true | Some x, Some y => bytes_eqb x y | _, _ => false end.
Definition spec_eqb (a b : spec) : bool :=
  list_eqb (list_eqb opt_eqb) (sp_files a) (sp_files b) && Bool.eqb (sp_rootcat a) (sp_rootcat b).

Lemma spec_eqb_eq a b : spec_eqb a b = true -> a = b.
Proof.
  destruct a as [f1 r1], b as [f2 r2]. unfold spec_eqb. cbn. intros E. apply andb_true_iff in E as [E1 E2].
  apply Bool.eqb_prop in E2. subst. f_equal. revert E1. apply list_eqb_eq. apply list_eqb_eq.
  intros [x|] [y|]; cbn; try discriminate; auto. intros E. apply bytes_eqb_eq in E. congruence.
Qed.

Fixpoint lookup (sp : spec) (tab : list (spec * pstate)) : option pstate :=
  match tab with
  | [] => None
  | (sp', st) :: r => if spec_eqb sp sp' then Some st else lookup sp r
  end.

Lemma lookup_In sp tab st : lookup sp tab = Some st -> In (sp, st) tab.
Proof.
  induction tab as [|[sp' st'] r IH]; cbn; [discriminate|].
  destruct (spec_eqb sp sp') eqn:E.
  - apply spec_eqb_eq in E. intros H. inversion H; subst. left. reflexivity.
  - intros H. right. auto.
Qed.

Variable tab : list (spec * pstate).

(** one step from a tabulated state, whatever the trace so far *)
Definition step_from (tr : list sys) (st : pstate) (o : op) : pstate :=
  let '(fs, c) := st in
  let '(w', c', _) := step (ks_root K) (mkW fs tr, c) o in (wfs w', c').

(** the table is closed under every request of the alphabet, along the specification's transition *)
Definition closure_ok (tr : list sys) : bool :=
  forallb (fun '(sp, st) =>
             forallb (fun o => match lookup (spec_step sp o) tab with
                               | Some st' => pstate_eqb (step_from tr st o) st'
                               | None => false
                               end) alphabet) tab.

(** in every tabulated state the in-memory catalog IS a fresh scan of the disk *)
Definition scan_ok : bool :=
  forallb (fun '(sp, (fs, c)) =>
             let '(n, dm, e) := new_directory (mkW fs []) (ks_root K) in
             cnode_eqb (croot c) n && dmap_eqb (cdm c) dm) tab.

(** ... and lists exactly the buckets and years of the specification state *)
Definition spec_buckets (sp : spec) : list (list byte) :=
  flat_map (fun '(k, fl) => if bucket_exists fl then [k] else []) (combine (ks_keys K) (sp_files sp)).
Definition spec_years (sp : spec) : list (list byte * Z) :=
  flat_map (fun '(k, fl) => flat_map (fun '(y, o) => match o with Some _ => [(k, y)] | None => [] end) (combine (ks_years K) fl))
           (combine (ks_keys K) (sp_files sp)).

Definition tbk_string (x : name * name * name) : list byte := let '(a, b, c) := x in a ++ slash :: b ++ slash :: c.
(** the catalog's (bucket, year) pairs: a datafile /root/S/T/G/Y.bin of the tree stands for bucket S/T/G, year Y *)
Fixpoint bucket_years (fuel : nat) (pre : list byte) (n : cnode) : list (list byte * Z) :=
  match fuel with
  | O => []
  | S f => map (fun '(_, y) => (pre, y)) (match cn_files n with Some l => l | None => [] end)
           ++ flat_map (fun '(nm, m) => bucket_years f (match pre with [] => nm | _ => pre ++ slash :: nm end) m) (cn_subs n)
  end.

Definition subset {A} (eqb : A -> A -> bool) (a b : list A) : bool := forallb (fun x => existsb (eqb x) b) a.
Definition by_eqb (p q : list byte * Z) : bool := bytes_eqb (fst p) (fst q) && Z.eqb (snd p) (snd q).

Definition listing_ok : bool :=
  forallb (fun '(sp, (fs, c)) =>
             let tb := map tbk_string (list_tbk c) in
             subset bytes_eqb tb (spec_buckets sp) && subset bytes_eqb (spec_buckets sp) tb
             && subset by_eqb (bucket_years 8 [] (croot c)) (spec_years sp)
             && subset by_eqb (spec_years sp) (bucket_years 8 [] (croot c))) tab.

Hypothesis Hclosure : forall tr, closure_ok tr = true.
Hypothesis Hinit : lookup sp0 tab = Some (wfs (init_world (ks_root K)), init_cat (ks_root K)).

Lemma step_tab sp o w c :
  In o alphabet -> lookup sp tab = Some (wfs w, c) ->
  let '(w', c', _) := step (ks_root K) (w, c) o in lookup (spec_step sp o) tab = Some (wfs w', c').
Proof.
  intros Ho Hl. pose proof (Hclosure (wtr w)) as H. unfold closure_ok in H.
  rewrite forallb_forall in H. specialize (H _ (lookup_In _ _ _ Hl)). cbn beta iota in H.
  rewrite forallb_forall in H. specialize (H o Ho).
  destruct (lookup (spec_step sp o) tab) as [st'|]; [|discriminate].
  apply pstate_eqb_eq in H. unfold step_from in H.
  destruct w as [fs tr]. cbn [wfs wtr] in *.
  destruct (step (ks_root K) ({| wfs := fs; wtr := tr |}, c) o) as [[w' c'] code]. rewrite <- H. reflexivity.
Qed.

(** every history over the alphabet ends in the tabulated state of the specification's state *)
Theorem run_tab : forall ops, Forall (fun o => In o alphabet) ops ->
  lookup (fold_left spec_step ops sp0) tab = Some (proj (run (ks_root K) ops)).
Proof.
  intros ops Hops. unfold run.
  assert (G : forall ops sp w c codes, Forall (fun o => In o alphabet) ops ->
            lookup sp tab = Some (wfs w, c) ->
            lookup (fold_left spec_step ops sp) tab =
            Some (proj (fold_left (fun '(w, c, codes) o => let '(w', c', k) := step (ks_root K) (w, c) o in (w', c', codes ++ [k]))
                                  ops (w, c, codes)))).
  { clear ops Hops. induction ops as [|o r IH]; intros sp w c codes Ho Hl; cbn [fold_left].
    - exact Hl.
    - inversion Ho; subst. pose proof (step_tab sp o w c H1 Hl) as S.
      destruct (step (ks_root K) (w, c) o) as [[w' c'] code]. apply IH; auto. }
  apply G; auto.
Qed.

Hypothesis Hscan : scan_ok = true.
Hypothesis Hlisting : listing_ok = true.

(** ... where the catalog equals a fresh scan of the disk and lists exactly the specification's buckets and years *)
Theorem run_consistent : forall ops, Forall (fun o => In o alphabet) ops ->
  let sp := fold_left spec_step ops sp0 in
  let '(w, c, _) := run (ks_root K) ops in
  let '(n, dm, _) := new_directory (mkW (wfs w) []) (ks_root K) in
  (croot c = n /\ cdm c = dm)
  /\ (forall k, In k (map tbk_string (list_tbk c)) <-> In k (spec_buckets sp))
  /\ (forall k y, In (k, y) (bucket_years 8 [] (croot c)) <-> In (k, y) (spec_years sp)).
Proof.
  intros ops Hops. pose proof (run_tab ops Hops) as Hl. cbv zeta.
  set (sp := fold_left spec_step ops sp0) in *.
  destruct (run (ks_root K) ops) as [[w c] codes]. cbn [proj] in Hl. apply lookup_In in Hl.
  unfold scan_ok in Hscan. rewrite forallb_forall in Hscan. specialize (Hscan _ Hl). cbn beta iota in Hscan.
  unfold listing_ok in Hlisting. rewrite forallb_forall in Hlisting. specialize (Hlisting _ Hl). cbn beta iota in Hlisting.
  destruct (new_directory (mkW (wfs w) []) (ks_root K)) as [[n dm] e].
  apply andb_true_iff in Hscan as [S1 S2]. apply cnode_eqb_eq in S1. apply dmap_eqb_eq in S2.
  apply andb_true_iff in Hlisting as [L L4]. apply andb_true_iff in L as [L L3]. apply andb_true_iff in L as [L1 L2].
  assert (SUB : forall (A : Type) (eqb : A -> A -> bool), (forall x y, eqb x y = true -> x = y) ->
                forall a b, subset eqb a b = true -> forall x, In x a -> In x b).
  { intros A eqb He a b Hs x Hx. unfold subset in Hs. rewrite forallb_forall in Hs. specialize (Hs x Hx).
    apply existsb_exists in Hs as (y & Hy & E). apply He in E. subst. exact Hy. }
  assert (BY : forall p q, by_eqb p q = true -> p = q).
  { intros [k1 y1] [k2 y2] E. unfold by_eqb in E. cbn in E. apply andb_true_iff in E as [E1 E2].
    apply bytes_eqb_eq in E1. apply Z.eqb_eq in E2. congruence. }
  repeat split; auto.
  - apply (SUB _ bytes_eqb bytes_eqb_true _ _ L1).
  - apply (SUB _ bytes_eqb bytes_eqb_true _ _ L2).
  - apply (SUB _ by_eqb BY _ _ L3).
  - apply (SUB _ by_eqb BY _ _ L4).
Qed.
End KS.
