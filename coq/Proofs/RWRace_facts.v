(** Facts about the RWRace LTS (Model/RWRace.v): for every interleaving, any number of slots, writes and
    readers.
      fixed_inv / fixed_reads_committed     fixed-length file: every row any read returns was written by a completed pwrite
      vinv / var_reads_committed_no_cont    variable-length file, schedules in which the writer never takes the in-place
                                            continuation branch: every finished read is error-free and equals a committed version *)
From Coq Require Import List Arith Bool Lia.
Import ListNotations.
Require Import MS.Model.RWRace.

Lemma nth_error_upd : forall A (l : list A) n m v,
  nth_error (upd n v l) m =
  if Nat.eqb n m then match nth_error l n with Some _ => Some v | None => None end else nth_error l m.
Proof.
  induction l as [|x r IH]; intros n m v.
  - destruct n, m; simpl; auto; destruct (Nat.eqb n m); auto.
  - destruct n, m; simpl; auto.
Qed.
Lemma length_upd : forall A (l : list A) n v, length (upd n v l) = length l.
Proof. induction l; destruct n; simpl; auto. Qed.
Lemma nth_upd_same : forall A (l : list A) n v d, n < length l -> nth n (upd n v l) d = v.
Proof. induction l; destruct n; simpl; intros; try lia; auto. apply IHl. lia. Qed.
Lemma nth_upd_other : forall A (l : list A) n m v d, n <> m -> nth m (upd n v l) d = nth m l d.
Proof. induction l; destruct n, m; simpl; intros; try congruence; auto. Qed.

Ltac inv_some := match goal with H : Some _ = Some _ |- _ => inversion H; subst; clear H end.

(* ------------------------------------------------------------------ fixed-length file *)
Record FInv (s : st) : Prop := {
  F_len : length (fwritten s) = length (fslots s);
  F_slot : forall i v, nth_error (fslots s) i = Some (Some v) -> In v (nth i (fwritten s) []);
  F_res : forall snap i v, In snap (fres s) -> nth_error snap i = Some (Some v) -> In v (nth i (fwritten s) [])
}.

Lemma finv_init : forall comp n vw fw rd, FInv (init comp n vw fw rd).
Proof.
  intros. constructor; unfold init; cbn.
  - rewrite !repeat_length. reflexivity.
  - intros i v H. exfalso. revert i H. induction n; intros [|i] H; cbn in H; try discriminate. eauto.
  - intros snap i v [].
Qed.

Lemma in_nth_upd_cons : forall A (l : list (list A)) i j v x, In x (nth j l []) -> In x (nth j (upd i (v :: nth i l []) l) []).
Proof.
  intros A l i j v x H. destruct (Nat.eq_dec i j) as [<-|Hne].
  - destruct (Nat.lt_ge_cases i (length l)).
    + rewrite nth_upd_same by assumption. right. exact H.
    + rewrite nth_overflow in H by lia. destruct H.
  - rewrite nth_upd_other by assumption. exact H.
Qed.

Theorem fixed_step_inv : forall l s s', FInv s -> step l s = Some s' -> FInv s'.
Proof.
  intros l s s' I H. destruct I as [Kl Ks Kr]. destruct l; unfold step in H.
  - (* WData *)
    destruct (vpend s); try discriminate. destruct (vq s) as [|[i new] rest]; try discriminate.
    destruct (nth_error (idx s) i); try discriminate.
    match type of H with (if ?c then _ else _) = _ => destruct c; try discriminate end. inv_some.
    constructor; cbn; auto.
  - (* WIdx *)
    destruct (vpend s) as [[[i off] n]|]; try discriminate. inv_some. constructor; cbn; auto.
  - (* FWrite *)
    destruct (fq s) as [|[i v] rest]; try discriminate.
    destruct (i <? nslots s); try discriminate. inv_some. constructor; cbn.
    + rewrite !length_upd. exact Kl.
    + intros j w Hj. rewrite nth_error_upd in Hj. destruct (Nat.eqb_spec i j).
      * subst. destruct (nth_error (fslots s) j) eqn:E; try discriminate. inversion Hj; subst.
        rewrite nth_upd_same; [left; reflexivity|]. rewrite Kl. apply nth_error_Some. congruence.
      * apply in_nth_upd_cons. apply Ks. exact Hj.
    + intros snap j w Hin Hj. apply in_nth_upd_cons. eapply Kr; eauto.
  - (* RIdx *)
    destruct (nth_error (rs s) r) as [[[b i] p]|]; try discriminate. destruct b; try discriminate.
    destruct p; try discriminate. destruct (nth_error (idx s) i); try discriminate. inv_some.
    constructor; cbn; auto.
  - (* RData *)
    destruct (nth_error (rs s) r) as [[[b i] p]|]; try discriminate.
    destruct b; destruct p; try discriminate; inv_some; constructor; cbn; auto.
    intros snap j w Hin Hj. apply in_app_or in Hin as [Hin|[<-|[]]]; eauto.
Qed.

Lemma fixed_run_inv : forall ls s s', FInv s -> run_labels s ls = Some s' -> FInv s'.
Proof.
  induction ls as [|l r IH]; intros s s' I H; cbn in H.
  - inv_some. exact I.
  - destruct (step l s) as [s1|] eqn:E; try discriminate. apply (IH s1 s'); auto. eapply fixed_step_inv; eauto.
Qed.

(** Fixed-length buckets are read-committed at row granularity under EVERY interleaving: whatever a
    read returns for a slot is a value some completed pwrite put there. *)
Theorem fixed_reads_committed : forall comp n vw fw rd ls s snap i v,
  run_labels (init comp n vw fw rd) ls = Some s ->
  In snap (fres s) -> nth_error snap i = Some (Some v) -> In v (nth i (fwritten s) []).
Proof. intros. eapply (F_res _ (fixed_run_inv _ _ _ (finv_init _ _ _ _ _) H)); eauto. Qed.

(* ------------------------------------------------------------------ variable-length file *)
Lemma length_insert_sorted : forall x l, length (insert_sorted x l) = S (length l).
Proof. induction l as [|y r IH]; cbn; auto. destruct (x <=? y); cbn; auto. Qed.
Lemma length_merge_sorted : forall new old, length (merge_sorted old new) = length old + length new.
Proof.
  unfold merge_sorted. induction new as [|x r IH]; intros old; cbn; [lia|].
  rewrite IH, length_insert_sorted. lia.
Qed.

Lemma list_eqb_refl : forall l, list_eqb l l = true.
Proof. induction l; cbn; auto. rewrite Nat.eqb_refl. exact IHl. Qed.
Lemma existsb_list_eqb : forall c l, In c l -> existsb (list_eqb c) l = true.
Proof. intros. apply existsb_exists. exists c. split; auto. apply list_eqb_refl. Qed.

(** the block a triple (o, n) of slot i points to is intact and is a committed version of that slot *)
Definition points_committed (s : st) (i o n : nat) : Prop :=
  exists c, lookup_block (blocks s) o = Some c /\ length c = n /\ In c (nth i (hist s) []).

Record VInv (s : st) : Prop := {
  V_li : length (idx s) = nslots s;
  V_lh : length (hist s) = nslots s;
  V_eof : 1 <= eof s;
  V_blk : forall o c, In (o, c) (blocks s) -> 1 <= length c /\ o + length c <= eof s;
  V_q : forall i new, In (i, new) (vq s) -> new <> [];
  V_nil : forall i, i < nslots s -> In [] (nth i (hist s) []);
  V_idx : forall i o n, nth_error (idx s) i = Some (Some (o, n)) -> points_committed s i o n;
  V_snap : forall r i o n, nth_error (rs s) r = Some (true, i, RGotIdx (Some (o, n))) -> points_committed s i o n;
  V_snapi : forall r i t, nth_error (rs s) r = Some (true, i, RGotIdx t) -> i < nslots s;
  V_pend : forall i o n, vpend s = Some (i, o, n) -> i < nslots s /\ exists c, lookup_block (blocks s) o = Some c /\ length c = n;
  V_done : forall r i res, nth_error (rs s) r = Some (true, i, RDone res) -> committed_result s i res = true
}.

Definition wf_writes (n : nat) (vw : list (nat * list rec)) : Prop := forall i new, In (i, new) vw -> new <> [].

Lemma nth_repeat_in : forall A (x : A) n i d, i < n -> nth i (repeat x n) d = x.
Proof. induction n; intros [|i] d H; cbn; try lia; auto. apply IHn. lia. Qed.

Lemma vinv_init : forall comp n vw fw rd, wf_writes n vw -> VInv (init comp n vw fw rd).
Proof.
  intros comp n vw fw rd Hw. constructor; unfold init; cbn; auto.
  - apply repeat_length.
  - apply repeat_length.
  - intros o c [].
  - intros i Hi. rewrite nth_repeat_in by assumption. left. reflexivity.
  - intros i o k H. exfalso. revert i H. induction n; intros [|i] H; cbn in H; try discriminate. eauto.
  - intros r i o k H. rewrite nth_error_map in H. destruct (nth_error rd r); inversion H.
  - intros r i t H. rewrite nth_error_map in H. destruct (nth_error rd r); inversion H.
  - intros i o k H. discriminate.
  - intros r i res H. rewrite nth_error_map in H. destruct (nth_error rd r); inversion H.
Qed.

Lemma lookup_block_In : forall b o c, lookup_block b o = Some c -> In (o, c) b.
Proof.
  induction b as [|[o' c'] r IH]; intros o c H; cbn in H; try discriminate.
  destruct (Nat.eqb_spec o' o).
  - inversion H; subst. left. reflexivity.
  - right. apply IH. exact H.
Qed.

Lemma committed_mono : forall (h : list (list (list rec))) i j c res,
  (match res with ROk rows => existsb (list_eqb rows) (nth j h []) | RDecodeErr => false end) = true ->
  (match res with ROk rows => existsb (list_eqb rows) (nth j (upd i (c :: nth i h []) h) []) | RDecodeErr => false end) = true.
Proof.
  intros h i j c [rows|] H; auto. apply existsb_exists in H as [x [Hin He]].
  apply existsb_exists. exists x. split; auto. apply in_nth_upd_cons. exact Hin.
Qed.

Theorem var_step_inv : forall l s s', no_cont l = true -> VInv s -> step l s = Some s' -> VInv s'.
Proof.
  intros l s s' Hg I H. destruct I as [Kli Klh Ke Kb Kq Kn Ki Ks Ksi Kp Kd]. destruct l; unfold step in H.
  - (* WData, append at EOF *)
    destruct cont; try discriminate Hg.
    destruct (vpend s) eqn:Ep; try discriminate. destruct (vq s) as [|[i new] rest] eqn:Eq; try discriminate.
    destruct (nth_error (idx s) i) as [cur|] eqn:Ei; try discriminate.
    match type of H with (if Bool.eqb false ?c then _ else _) = _ => destruct c eqn:Ec; try discriminate end.
    cbn in H. inv_some.
    assert (Hnew : new <> []) by (apply (Kq i); left; reflexivity).
    set (old := match cur with Some (o, _) => match lookup_block (blocks s) o with Some c => c | None => [] end | None => [] end) in *.
    assert (Hlen : 1 <= length (merge_sorted old new)).
    { rewrite length_merge_sorted. destruct new; [congruence|cbn; lia]. }
    assert (Hfresh : forall o c, lookup_block (blocks s) o = Some c -> (eof s =? o) = false).
    { intros o c Hl. apply lookup_block_In in Hl. destruct (Kb _ _ Hl). apply Nat.eqb_neq. lia. }
    assert (Hi : i < nslots s) by (rewrite <- Kli; apply nth_error_Some; congruence).
    assert (Hpc : forall j o n, points_committed s j o n ->
              exists c, (if eof s =? o then Some (merge_sorted old new) else lookup_block (blocks s) o) = Some c
                        /\ length c = n /\ In c (nth j (hist s) [])).
    { intros j o n [c [H1 [H2 H3]]]. exists c. rewrite (Hfresh _ _ H1). auto. }
    constructor; cbn; auto.
    + lia.
    + intros o c [Hin|Hin].
      * inversion Hin; subst. split; auto. lia.
      * destruct (Kb _ _ Hin). split; auto. lia.
    + intros j nw Hin. apply (Kq j). right. exact Hin.
    + intros j o n Hj. apply Hpc. apply Ki. exact Hj.
    + intros r j o n Hr. apply Hpc. eapply Ks. exact Hr.
    + intros j o n Hj. inversion Hj; subst. split; auto. rewrite Nat.eqb_refl. eauto.
  - (* WIdx *)
    destruct (vpend s) as [[[i off] n]|] eqn:Ep; try discriminate. inv_some.
    destruct (Kp _ _ _ eq_refl) as [Hi [c [Hc Hn]]]. rewrite Hc.
    assert (Hpc : forall j o k, points_committed s j o k ->
              exists c0, lookup_block (blocks s) o = Some c0 /\ length c0 = k /\ In c0 (nth j (upd i (c :: nth i (hist s) []) (hist s)) [])).
    { intros j o k [c0 [H1 [H2 H3]]]. exists c0. repeat split; auto. apply in_nth_upd_cons. exact H3. }
    constructor; cbn; auto.
    + rewrite length_upd. exact Kli.
    + rewrite length_upd. exact Klh.
    + intros j Hj. apply in_nth_upd_cons. apply Kn. exact Hj.
    + intros j o k Hj. rewrite nth_error_upd in Hj. destruct (Nat.eqb_spec i j).
      * subst. destruct (nth_error (idx s) j); try discriminate. inversion Hj; subst.
        unfold points_committed; cbn. exists c. repeat split; auto. rewrite nth_upd_same by lia. left. reflexivity.
      * apply Hpc. apply Ki. exact Hj.
    + intros r j o k Hr. apply Hpc. eapply Ks. exact Hr.
    + intros. discriminate.
    + intros r j res Hr. specialize (Kd r j res Hr). unfold committed_result in *. cbn.
      apply committed_mono. exact Kd.
  - (* FWrite *)
    destruct (fq s) as [|[i v] rest]; try discriminate. destruct (i <? nslots s); try discriminate. inv_some.
    constructor; cbn; auto.
  - (* RIdx *)
    destruct (nth_error (rs s) r) as [[[b i] p]|] eqn:Er; try discriminate. destruct b; try discriminate.
    destruct p; try discriminate. destruct (nth_error (idx s) i) as [t|] eqn:Ei; try discriminate. inv_some.
    assert (Hi : i < nslots s) by (rewrite <- Kli; apply nth_error_Some; congruence).
    constructor; cbn; auto.
    + intros r' j o n Hr. rewrite nth_error_upd in Hr. destruct (Nat.eqb_spec r r').
      * subst. rewrite Er in Hr. inversion Hr; subst. apply Ki. exact Ei.
      * eapply Ks; eauto.
    + intros r' j t' Hr. rewrite nth_error_upd in Hr. destruct (Nat.eqb_spec r r').
      * subst. rewrite Er in Hr. inversion Hr; subst. exact Hi.
      * eapply Ksi; eauto.
    + intros r' j res Hr. rewrite nth_error_upd in Hr. destruct (Nat.eqb_spec r r').
      * subst. rewrite Er in Hr. discriminate.
      * eapply Kd; eauto.
  - (* RData *)
    destruct (nth_error (rs s) r) as [[[b i] p]|] eqn:Er; try discriminate.
    destruct b; destruct p; try discriminate; inv_some.
    + (* variable read completes *)
      constructor; cbn; auto.
      * intros r' j o n Hr. rewrite nth_error_upd in Hr. destruct (Nat.eqb_spec r r').
        -- subst. rewrite Er in Hr. discriminate.
        -- eapply Ks; eauto.
      * intros r' j t' Hr. rewrite nth_error_upd in Hr. destruct (Nat.eqb_spec r r').
        -- subst. rewrite Er in Hr. discriminate.
        -- eapply Ksi; eauto.
      * intros r' j res Hr. rewrite nth_error_upd in Hr. destruct (Nat.eqb_spec r r').
        -- subst. rewrite Er in Hr. inversion Hr; subst. unfold committed_result.
           destruct t as [[o n]|].
           ++ destruct (Ks _ _ _ _ Er) as [c [H1 [H2 H3]]]. unfold read_block. rewrite H1, H2, Nat.eqb_refl.
              apply existsb_list_eqb. exact H3.
           ++ apply existsb_list_eqb. apply Kn. eapply Ksi; eauto.
        -- eapply Kd; eauto.
    + (* fixed read *)
      constructor; cbn; auto.
      * intros r' j o n Hr. rewrite nth_error_upd in Hr. destruct (Nat.eqb_spec r r').
        -- subst. rewrite Er in Hr. discriminate.
        -- eapply Ks; eauto.
      * intros r' j t' Hr. rewrite nth_error_upd in Hr. destruct (Nat.eqb_spec r r').
        -- subst. rewrite Er in Hr. discriminate.
        -- eapply Ksi; eauto.
      * intros r' j res Hr. rewrite nth_error_upd in Hr. destruct (Nat.eqb_spec r r').
        -- subst. rewrite Er in Hr. discriminate.
        -- eapply Kd; eauto.
Qed.

Lemma var_run_inv : forall ls s s', forallb no_cont ls = true -> VInv s -> run_labels s ls = Some s' -> VInv s'.
Proof.
  induction ls as [|l r IH]; intros s s' Hg I H; cbn in *.
  - inv_some. exact I.
  - apply andb_prop in Hg as [H1 H2]. destruct (step l s) as [s1|] eqn:E; try discriminate.
    apply (IH s1 s' H2); [eapply var_step_inv; eauto | exact H].
Qed.

(** Variable-length file, any interleaving of any number of readers with a writer that never overwrites
    in place: every finished read is error-free and equals a committed version of its slot. *)
Theorem var_reads_committed_no_cont : forall comp n vw fw rd ls s,
  wf_writes n vw -> forallb no_cont ls = true ->
  run_labels (init comp n vw fw rd) ls = Some s -> all_reads_committed s = true.
Proof.
  intros comp n vw fw rd ls s Hw Hg Hr.
  pose proof (var_run_inv _ _ _ Hg (vinv_init comp n vw fw rd Hw) Hr) as I.
  unfold all_reads_committed. apply forallb_forall. intros [[b i] p] Hin.
  destruct b; auto. destruct p; auto. apply In_nth_error in Hin as [k Hk]. eapply (V_done _ I); eauto.
Qed.
