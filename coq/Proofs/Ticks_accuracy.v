(** C10, analytic part: accuracy of the encoder GetIntervalTicks32Bit on the Flocq model.
    Every rounding has relative error <= u = 2^-53 (no underflow occurs); five roundings and the
    representation error of the constant 2^32/86400 compound to a factor within [1 - 6u, 1 + 6u]. *)
From Coq Require Import ZArith Reals Lia Lra List Bool Psatz.
From Flocq Require Import Core.Core IEEE754.BinarySingleNaN.
From Flocq.Prop Require Import Relative.
From Interval Require Import Tactic.
Require Import MS.Base.GoInt MS.Base.FGen MS.Base.F64 MS.Generated.Src_ticks MS.Model.Ticks MS.Proofs.Ticks_facts.
Import ListNotations.
Local Open Scope R_scope.

Definition u : R := / 9007199254740992.      (* 2^-53 *)

Lemma u_eq : u = / 2 * bpow radix2 (- 53 + 1).
Proof. unfold u. change (bpow radix2 (-53 + 1)) with (/ IZR (2 ^ 52)). change (2 ^ 52)%Z with 4503599627370496%Z. lra. Qed.

Definition tiny : R := / 1267650600228229401496703205376.     (* 2^-100 *)

Lemma tiny_le : bpow radix2 (-1074 + 53 - 1) <= tiny.
Proof.
  apply Rle_trans with (bpow radix2 (-100)); [ apply bpow_le; lia | ].
  change (bpow radix2 (-100)) with (/ IZR (2 ^ 100)). change (2 ^ 100)%Z with 1267650600228229401496703205376%Z.
  unfold tiny. lra.
Qed.

Lemma tiny_small : tiny <= / 1073741824 /\ 0 < tiny. Proof. unfold tiny. lra. Qed.

(** one rounding, no underflow: relative error at most u *)
Lemma RN_rel x : 0 <= x -> (x = 0 \/ tiny <= x) -> (1 - u) * x <= RN x <= (1 + u) * x.
Proof.
  intros Hx [-> | H].
  - rewrite RN_0. lra.
  - destruct (relative_error_N_FLT_ex radix2 (-1074) 53 ltac:(lia) (fun z => negb (Z.even z)) x) as (e & He & E).
    { rewrite Rabs_pos_eq by lra. pose proof tiny_le. lra. }
    change (round radix2 (FLT_exp (-1074) 53) (Znearest (fun z => negb (Z.even z))) x) with (RN x) in E.
    assert (He' : Rabs e <= u) by (rewrite u_eq; exact He). apply Rabs_le_inv in He'. rewrite E. nra.
Qed.

(** exact value of a constant given as mantissa * 2^e *)
Lemma cst_exact m e : (0 < m < 2 ^ 53)%Z -> (-200 <= e <= 200)%Z ->
  B2R (f64_cst m e) = IZR m * bpow radix2 e.
Proof.
  intros Hm He.
  assert (P : 0 <= F2R (Float radix2 m e) <= bpow radix2 (53 + e)).
  { unfold F2R. cbn [Fnum Fexp]. rewrite bpow_plus. split.
    - apply Rmult_le_pos; [ apply IZR_le; lia | apply bpow_ge_0 ].
    - apply Rmult_le_compat_r; [ apply bpow_ge_0 | ].
      change (bpow radix2 53) with (IZR (2 ^ 53)). apply IZR_le. lia. }
  pose proof (binary_normalize_correct 53 1024 p64_gt_0 p64_lt_emax mode_NE m e false) as C.
  cbn zeta in C. cbn [round_mode] in C.
  rewrite (no_overflow _ (53 + e) ltac:(lia) (abs_nonneg_le _ _ P)) in C.
  destruct C as (E & _). unfold f64_cst. rewrite E.
  rewrite round_generic; [ reflexivity | typeclasses eauto | ].
  apply generic_format_F2R. intros _. unfold cexp.
  assert (M : (mag radix2 (F2R (Float radix2 m e)) <= 53 + e)%Z).
  { apply mag_le_bpow.
    - unfold F2R. cbn [Fnum Fexp]. apply Rmult_integral_contrapositive_currified;
        [ apply not_0_IZR; lia | pose proof (bpow_gt_0 radix2 e); lra ].
    - unfold F2R. cbn [Fnum Fexp]. rewrite Rabs_mult, (Rabs_pos_eq (bpow radix2 e)) by apply bpow_ge_0.
      rewrite bpow_plus. apply Rmult_lt_compat_r; [ apply bpow_gt_0 | ].
      rewrite <- abs_IZR. change (bpow radix2 53) with (IZR (2 ^ 53)). apply IZR_lt. lia. }
  unfold SpecFloat.fexp, SpecFloat.emin. cbn [Fexp]. lia.
Qed.

(** the constant is 2^32/86400 up to one rounding *)
Lemma c_enc_value : (1 - u) * (4294967296 / 86400) <= B2R c_enc_tpi <= (1 + u) * (4294967296 / 86400).
Proof.
  unfold c_enc_tpi. rewrite cst_exact by (unfold enc_tpi_m, enc_tpi_e; lia).
  unfold enc_tpi_m, enc_tpi_e, u. change (bpow radix2 (-37)) with (/ IZR (2 ^ 37)).
  change (2 ^ 37)%Z with 137438953472%Z. split; interval with (i_prec 200).
Qed.

Lemma u_pos : 0 < u < / 1000000. Proof. unfold u. lra. Qed.

(** chaining: y within [lo, hi] * x, then one more rounding *)
Lemma scale_step lo hi x y z : 0 <= x -> 0 <= lo -> lo * x <= y <= hi * x ->
  (1 - u) * y <= z <= (1 + u) * y -> (lo * (1 - u)) * x <= z <= (hi * (1 + u)) * x.
Proof. intros Hx Hlo Hy Hz. pose proof u_pos. assert (0 <= y) by nra. nra. Qed.

Lemma mul_bounds l1 h1 l2 h2 x1 x2 y1 y2 : 0 <= x1 -> 0 <= x2 -> 0 <= l1 -> 0 <= l2 ->
  l1 * x1 <= y1 <= h1 * x1 -> l2 * x2 <= y2 <= h2 * x2 ->
  (l1 * l2) * (x1 * x2) <= y1 * y2 <= (h1 * h2) * (x1 * x2).
Proof.
  intros X1 X2 L1 L2 [A1 B1] [A2 B2].
  assert (0 <= l1 * x1) by (apply Rmult_le_pos; assumption).
  assert (0 <= l2 * x2) by (apply Rmult_le_pos; assumption).
  split.
  - replace (l1 * l2 * (x1 * x2)) with ((l1 * x1) * (l2 * x2)) by ring. apply Rmult_le_compat; lra.
  - replace (h1 * h2 * (x1 * x2)) with ((h1 * x1) * (h2 * x2)) by ring. apply Rmult_le_compat; lra.
Qed.

(** exact seconds of an offset *)
Definition secs (o : Z) : R := IZR o / 1000000000.

Lemma g_bounds_rel o : (0 <= o)%Z -> (1 - u) * secs o <= g o <= (1 + u) * secs o.
Proof.
  intros Ho. unfold g, secs, E9.
  pose proof (Z.div_mod o 1000000000 ltac:(lia)) as DM.
  pose proof (Z.mod_pos_bound o 1000000000 ltac:(lia)) as MB.
  assert (Q0 : (0 <= o / 1000000000)%Z) by (apply Z.div_pos; lia).
  set (q := (o / 1000000000)%Z) in *. set (r := (o mod 1000000000)%Z) in *.
  assert (E : IZR o = IZR q * 1000000000 + IZR r) by (rewrite DM, plus_IZR, mult_IZR; lra).
  assert (Hq : 0 <= IZR q) by (apply IZR_le; lia).
  assert (Hr : 0 <= IZR r) by (apply IZR_le; lia).
  assert (F : (1 - u) * (IZR r / 1000000000) <= RN (IZR r / 1000000000) <= (1 + u) * (IZR r / 1000000000)).
  { apply RN_rel; [ lra | ].
    destruct (Z.eq_dec r 0) as [-> | N]; [ left; lra | right ].
    assert (1 <= IZR r) by (apply IZR_le; lia). pose proof tiny_small. lra. }
  rewrite E. unfold u in *. lra.
Qed.

Lemma secs_small o : (0 < o)%Z -> / 1000000000 <= secs o.
Proof. intros H. unfold secs. assert (1 <= IZR o) by (apply IZR_le; lia). lra. Qed.

Lemma S_bounds o : (0 <= o < 2 ^ 62)%Z ->
  ((1 - u) * (1 - u)) * secs o <= B2R (duration_seconds o) <= ((1 + u) * (1 + u)) * secs o.
Proof.
  intros Ho. destruct (duration_seconds_spec o Ho) as [E _]. rewrite E.
  pose proof (g_bounds_rel o ltac:(lia)) as G. pose proof u_pos as U.
  assert (S0 : 0 <= secs o) by (unfold secs; assert (0 <= IZR o) by (apply IZR_le; lia); lra).
  apply (scale_step (1 - u) (1 + u) (secs o) (g o)); [ exact S0 | lra | exact G | ].
  apply RN_rel; [ nra | ].
  destruct (Z.eq_dec o 0) as [-> | N].
  - left. unfold g, E9. cbn. rewrite Rmult_0_l || idtac. unfold Rdiv. rewrite Rmult_0_l, RN_0. lra.
  - right. pose proof (secs_small o ltac:(lia)). pose proof tiny_small. nra.
Qed.

Definition tps_exact (ipd : Z) : R := IZR ipd * (4294967296 / 86400).

Lemma T_bounds ipd : (1 <= ipd <= 2 ^ 17)%Z ->
  ((1 - u) * (1 - u)) * tps_exact ipd <= B2R (ticks_per_second ipd) <= ((1 + u) * (1 + u)) * tps_exact ipd.
Proof.
  intros Hi. unfold ticks_per_second.
  destruct (of_Z_spec ipd 17 ltac:(lia) ltac:(lia)) as [Ei Bi]. rewrite RN_IZR in Ei by lia.
  assert (Bc : bnd 16 c_enc_tpi).
  { unfold c_enc_tpi. change 16%Z with (53 + enc_tpi_e)%Z. apply cst_spec; unfold enc_tpi_m, enc_tpi_e; lia. }
  destruct (mul_spec _ _ 17 16 ltac:(lia) ltac:(lia) ltac:(lia) Bi Bc) as [E _]. rewrite E, Ei.
  pose proof c_enc_value as C. pose proof u_pos as U.
  assert (I1 : 1 <= IZR ipd) by (apply IZR_le; lia).
  unfold tps_exact.
  apply (scale_step (1 - u) (1 + u) (IZR ipd * (4294967296 / 86400)) (IZR ipd * B2R c_enc_tpi)); [ nra | lra | nra | ].
  apply RN_rel; [ nra | right; pose proof tiny_small; nra ].
Qed.

(** the float product before truncation, against the exact tick count 2^32 * o / interval *)
Theorem enc_float_accuracy ipd o : (1 <= ipd <= 2 ^ 17)%Z -> (0 <= o < 2 ^ 62)%Z ->
  let X := tps_exact ipd * secs o in
  (1 - 6 * u) * X <= B2R (enc_float ipd o) <= (1 + 6 * u) * X.
Proof.
  intros Hi Ho X. unfold enc_float.
  pose proof (tps_bnd ipd ltac:(lia)) as BT. destruct (duration_seconds_spec o Ho) as [_ BS].
  destruct (mul_spec _ _ 33 35 ltac:(lia) ltac:(lia) ltac:(lia) BT BS) as [E _]. rewrite E.
  pose proof (T_bounds ipd Hi) as TB. pose proof (S_bounds o Ho) as SB. pose proof u_pos as U.
  assert (T0 : 0 <= tps_exact ipd) by (unfold tps_exact; assert (1 <= IZR ipd) by (apply IZR_le; lia); lra).
  assert (S0 : 0 <= secs o) by (unfold secs; assert (0 <= IZR o) by (apply IZR_le; lia); lra).
  assert (L : 0 <= (1 - u) * (1 - u)) by nra.
  pose proof (mul_bounds _ _ _ _ _ _ _ _ T0 S0 L L TB SB) as MB. fold X in MB.
  assert (X0 : 0 <= X) by (apply Rmult_le_pos; assumption).
  assert (R : (1 - u) * (B2R (ticks_per_second ipd) * B2R (duration_seconds o))
              <= RN (B2R (ticks_per_second ipd) * B2R (duration_seconds o))
              <= (1 + u) * (B2R (ticks_per_second ipd) * B2R (duration_seconds o))).
  { apply RN_rel; [ nra | ].
    destruct (Z.eq_dec o 0) as [-> | N].
    - left. assert (Z0 : secs 0 = 0) by (unfold secs; lra). rewrite Z0, !Rmult_0_r in SB.
      assert (B2R (duration_seconds 0) = 0) as -> by lra. apply Rmult_0_r.
    - right. pose proof (secs_small o ltac:(lia)). pose proof tiny_small.
      assert (1 <= IZR ipd) by (apply IZR_le; lia). unfold tps_exact in *.
      assert (49710 * / 1000000000 <= X) by (unfold X, tps_exact; nra).
      assert ((1 - u) * (1 - u) * ((1 - u) * (1 - u)) >= / 2) by nra. nra. }
  assert (L4 : 0 <= (1 - u) * (1 - u) * ((1 - u) * (1 - u))) by nra.
  pose proof (scale_step _ _ _ _ _ X0 L4 MB R) as F.
  assert (LO : 1 - 6 * u <= (1 - u) * (1 - u) * ((1 - u) * (1 - u)) * (1 - u)) by (unfold u; interval with (i_prec 400)).
  assert (HI : (1 + u) * (1 + u) * ((1 + u) * (1 + u)) * (1 + u) <= 1 + 6 * u) by (unfold u; interval with (i_prec 400)).
  split; [ apply Rle_trans with (2 := proj1 F) | apply Rle_trans with (1 := proj2 F) ];
    apply Rmult_le_compat_r; assumption.
Qed.

Lemma enc_is_raw ipd o : In ipd ipds -> (0 <= o < interval_ns ipd)%Z -> enc ipd o = enc_raw ipd o.
Proof.
  intros Hin Ho. destruct (ipds_range ipd Hin) as [Hi Hn].
  pose proof enc_raw_last as L. rewrite forallb_forall in L. specialize (L ipd Hin). apply Z.leb_le in L.
  destruct (enc_raw_mono ipd o (interval_ns ipd - 1) ltac:(lia) ltac:(lia) ltac:(lia)) as [P0 P1].
  unfold enc. fold (enc_raw ipd o).
  rewrite (wrap_small I64), (wrap_small U32); [ reflexivity | | ];
    unfold in_ity, ity_min, ity_max; cbn [ity_signed ity_bits]; norm_pows; lia.
Qed.

Lemma ipd_interval ipd : In ipd ipds -> IZR ipd * IZR (interval_ns ipd) = 86400000000000.
Proof.
  unfold ipds. cbn [In]. intros H. rewrite <- mult_IZR.
  repeat (destruct H as [<- | H]; [ vm_compute; reflexivity | ]). contradiction.
Qed.

(** C10, encoder accuracy: the tick count is the exact count 2^32 * o / interval, truncated, up to a
    relative error of 6 * 2^-53 *)
Theorem enc_accuracy ipd o : In ipd ipds -> (0 <= o < interval_ns ipd)%Z ->
  let X := 4294967296 * IZR o / IZR (interval_ns ipd) in
  (1 - 6 * u) * X - 1 < IZR (enc ipd o) <= (1 + 6 * u) * X.
Proof.
  intros Hin Ho X. destruct (ipds_range ipd Hin) as [Hi Hn].
  rewrite (enc_is_raw ipd o Hin Ho). unfold enc_raw. rewrite trunc_spec.
  pose proof (enc_float_accuracy ipd o ltac:(lia) ltac:(lia)) as A. cbn zeta in A.
  assert (EX : tps_exact ipd * secs o = X).
  { unfold tps_exact, secs, X. pose proof (ipd_interval ipd Hin) as E.
    assert (N0 : 0 < IZR (interval_ns ipd)) by (apply IZR_lt; lia).
    assert (I0 : 0 < IZR ipd) by (apply IZR_lt; lia).
    transitivity (IZR ipd * 4294967296 * IZR o / 86400000000000); [ field | rewrite <- E; field; lra ]. }
  rewrite EX in A.
  assert (X0 : 0 <= X).
  { unfold X. assert (0 <= IZR o) by (apply IZR_le; lia). assert (0 < IZR (interval_ns ipd)) by (apply IZR_lt; lia).
    apply Rmult_le_pos; [ lra | left; apply Rinv_0_lt_compat; assumption ]. }
  pose proof u_pos as U.
  assert (P0 : 0 <= B2R (enc_float ipd o)) by nra.
  rewrite (Ztrunc_floor _ P0).
  pose proof (Zfloor_lb (B2R (enc_float ipd o))). pose proof (Zfloor_ub (B2R (enc_float ipd o))). lra.
Qed.

(** in nanoseconds: the tick's position k * interval / 2^32 is at most 6u * o (< 0.06 ns) after the
    original offset and less than one tick (+ 6u * o) before it *)
Corollary enc_position ipd o : In ipd ipds -> (0 <= o < interval_ns ipd)%Z ->
  let pos := IZR (enc ipd o) * IZR (interval_ns ipd) / 4294967296 in
  (1 - 6 * u) * IZR o - IZR (interval_ns ipd) / 4294967296 < pos <= (1 + 6 * u) * IZR o.
Proof.
  intros Hin Ho pos. destruct (ipds_range ipd Hin) as [Hi Hn].
  pose proof (enc_accuracy ipd o Hin Ho) as A. cbn zeta in A.
  assert (N0 : 0 < IZR (interval_ns ipd)) by (apply IZR_lt; lia).
  set (n := IZR (interval_ns ipd)) in *. set (k := IZR (enc ipd o)) in *.
  assert (E : 4294967296 * IZR o / n * (n / 4294967296) = IZR o) by (field; lra).
  assert (S : 0 < n / 4294967296) by (apply Rdiv_lt_0_compat; lra).
  unfold pos. replace (k * n / 4294967296) with (k * (n / 4294967296)) by (field; lra).
  destruct A as [A1 A2]. split.
  - apply Rmult_lt_compat_r with (r := n / 4294967296) in A1; [ | exact S ].
    replace (((1 - 6 * u) * (4294967296 * IZR o / n) - 1) * (n / 4294967296))
      with ((1 - 6 * u) * (4294967296 * IZR o / n * (n / 4294967296)) - n / 4294967296) in A1 by (field; lra).
    rewrite E in A1. exact A1.
  - apply Rmult_le_compat_r with (r := n / 4294967296) in A2; [ | lra ].
    replace ((1 + 6 * u) * (4294967296 * IZR o / n) * (n / 4294967296))
      with ((1 + 6 * u) * (4294967296 * IZR o / n * (n / 4294967296))) in A2 by (field; lra).
    rewrite E in A2. exact A2.
Qed.

(* ------------------------------------------------------------------------------------------ *)
(** * Decoder, tick -> time direction: the float fractionalSeconds against the exact tick position *)

Lemma c_dec_value : (1 - u) * (4294967296 / 86400) <= B2R c_dec_tpi <= (1 + u) * (4294967296 / 86400).
Proof.
  unfold c_dec_tpi. rewrite cst_exact by (unfold dec_tpi_m, dec_tpi_e; lia).
  unfold dec_tpi_m, dec_tpi_e, u. change (bpow radix2 (-37)) with (/ IZR (2 ^ 37)).
  change (2 ^ 37)%Z with 137438953472%Z. split; interval with (i_prec 200).
Qed.

(** fractionalSeconds as computed by GetTimeFromTicks *)
Definition dec_fs (ipd ticks : Z) : f64 := f64_div (f64_of_Z ticks) (f64_mul (f64_of_Z ipd) c_dec_tpi).

Theorem dec_fs_accuracy ipd k : (1 <= ipd <= 2 ^ 17)%Z -> (0 <= k < 2 ^ 32)%Z ->
  let p := IZR k / tps_exact ipd in      (* exact position of tick k, in seconds: k * interval / 2^32 *)
  (1 - 4 * u) * p <= B2R (dec_fs ipd k) <= (1 + 4 * u) * p.
Proof.
  intros Hi Hk p. unfold dec_fs.
  destruct (of_Z_spec ipd 17 ltac:(lia) ltac:(lia)) as [Ei Bi]. rewrite RN_IZR in Ei by lia.
  destruct (of_Z_spec k 32 ltac:(lia) ltac:(lia)) as [Ek Bk]. rewrite RN_IZR in Ek by lia.
  assert (Bc : bnd 16 c_dec_tpi).
  { unfold c_dec_tpi. change 16%Z with (53 + dec_tpi_e)%Z. apply cst_spec; unfold dec_tpi_m, dec_tpi_e; lia. }
  destruct (mul_spec _ _ 17 16 ltac:(lia) ltac:(lia) ltac:(lia) Bi Bc) as [ED [FD _]]. rewrite Ei in ED.
  pose proof c_dec_value as C. pose proof u_pos as U. pose proof tiny_small as [TS0 TS1].
  assert (I1 : 1 <= IZR ipd <= 131072) by (split; apply IZR_le; lia).
  assert (K0 : 0 <= IZR k) by (apply IZR_le; lia).
  set (t := tps_exact ipd) in *. assert (Ht : 49710 <= t <= 6600000000) by (unfold t, tps_exact; nra).
  (* the denominator *)
  assert (DB : ((1 - u) * (1 - u)) * t <= B2R (f64_mul (f64_of_Z ipd) c_dec_tpi) <= ((1 + u) * (1 + u)) * t).
  { rewrite ED. unfold t, tps_exact.
    apply (scale_step (1 - u) (1 + u) (IZR ipd * (4294967296 / 86400)) (IZR ipd * B2R c_dec_tpi)); [ nra | lra | nra | ].
    apply RN_rel; [ nra | right; nra ]. }
  set (D := B2R (f64_mul (f64_of_Z ipd) c_dec_tpi)) in *.
  assert (D1 : 1 <= D) by nra.
  destruct (div_spec (f64_of_Z k) (f64_mul (f64_of_Z ipd) c_dec_tpi) 32 ltac:(lia) Bk FD D1) as [EQ _].
  rewrite EQ, Ek. fold D.
  (* quotient bounds *)
  assert (P0 : 0 <= p) by (unfold p; apply Rmult_le_pos; [ lra | left; apply Rinv_0_lt_compat; lra ]).
  assert (QB : (1 - 5 / 2 * u) * p <= IZR k / D <= (1 + 5 / 2 * u) * p).
  { unfold p. change (IZR k / t) with (IZR k * / t). change (IZR k / D) with (IZR k * / D). assert (Di : / ((1 + u) * (1 + u) * t) <= / D <= / ((1 - u) * (1 - u) * t)).
    { split; apply Rinv_le_contravar; nra. }
    assert (LO : (1 - 5 / 2 * u) * / t <= / ((1 + u) * (1 + u) * t)).
    { rewrite Rinv_mult by nra. apply Rmult_le_compat_r; [ left; apply Rinv_0_lt_compat; lra | ].
      unfold u. interval with (i_prec 400). }
    assert (HI : / ((1 - u) * (1 - u) * t) <= (1 + 5 / 2 * u) * / t).
    { rewrite Rinv_mult by nra. apply Rmult_le_compat_r; [ left; apply Rinv_0_lt_compat; lra | ].
      unfold u. interval with (i_prec 400). }
    split.
    - replace ((1 - 5 / 2 * u) * (IZR k * / t)) with (IZR k * ((1 - 5 / 2 * u) * / t)) by ring.
      apply Rmult_le_compat_l; lra.
    - replace ((1 + 5 / 2 * u) * (IZR k * / t)) with (IZR k * ((1 + 5 / 2 * u) * / t)) by ring.
      apply Rmult_le_compat_l; lra. }
  assert (R : (1 - u) * (IZR k / D) <= RN (IZR k / D) <= (1 + u) * (IZR k / D)).
  { apply RN_rel; [ nra | ].
    destruct (Z.eq_dec k 0) as [-> | N]; [ left; unfold Rdiv; lra | right ].
    assert (1 <= IZR k) by (apply IZR_le; lia).
    assert (/ 6600000000 <= / t) by (apply Rinv_le_contravar; lra).
    assert (/ 6600000000 <= p) by (unfold p, Rdiv; nra).
    unfold tiny. nra. }
  set (q := IZR k / D) in *. set (r := RN q) in *.
  assert (Q0 : 0 <= q) by nra.
  assert (A1 : (1 - u) * ((1 - 5 / 2 * u) * p) <= (1 - u) * q) by (apply Rmult_le_compat_l; lra).
  assert (A2 : (1 + u) * q <= (1 + u) * ((1 + 5 / 2 * u) * p)) by (apply Rmult_le_compat_l; lra).
  assert (UP : 0 <= u * p) by (apply Rmult_le_pos; lra).
  assert (UUP : 0 <= u * (u * p) <= / 1000000 * (u * p)) by (split; [ apply Rmult_le_pos; lra | apply Rmult_le_compat_r; lra ]).
  split; [ apply Rle_trans with ((1 - u) * ((1 - 5 / 2 * u) * p)); [ | lra ] | apply Rle_trans with ((1 + u) * ((1 + 5 / 2 * u) * p)); [ lra | ] ].
  - replace ((1 - u) * ((1 - 5 / 2 * u) * p)) with (p - 7 / 2 * (u * p) + 5 / 2 * (u * (u * p))) by field. lra.
  - replace ((1 + u) * ((1 + 5 / 2 * u) * p)) with (p + 7 / 2 * (u * p) + 5 / 2 * (u * (u * p))) by field. lra.
Qed.

(** the decoded offset is never negative (uint64 seconds, uint32 nanoseconds) *)
Lemma wrap_unsigned_nonneg a : (0 <= wrap U64 a)%Z /\ (0 <= wrap U32 a)%Z.
Proof.
  pose proof (wrap_range U64 a) as R1. pose proof (wrap_range U32 a) as R2.
  unfold in_ity, ity_min, ity_max in R1, R2. cbn [ity_signed ity_bits] in R1, R2. lia.
Qed.

Lemma dec_offset_nonneg ipd k : (0 <= dec_offset ipd k)%Z.
Proof.
  unfold dec_offset. destruct (dec 0 ipd k) as [s n] eqn:E. unfold dec in E.
  repeat match type of E with context [if ?c then _ else _] => destruct c end;
    injection E as <- <-;
    match goal with |- (0 <= wrap U64 ?a * _ + wrap U32 ?b)%Z =>
      pose proof (proj1 (wrap_unsigned_nonneg a)); pose proof (proj2 (wrap_unsigned_nonneg b)) end; lia.
Qed.
