(** Proofs/Durable_inv.v — the invariant of a running instance at step boundaries ([BInv]) and the
    shape of its WAL file at every point inside a step. *)
From Coq Require Import ZArith NArith List Bool Lia Permutation.
From Coq.Strings Require Import Byte.
Import ListNotations.
Require Import MS.Base.Res MS.Generated.Src_durab MS.Model.Wal MS.Model.Replay
  MS.Proofs.Durable_wal MS.Proofs.Durable_files MS.Proofs.Durable_exec MS.Proofs.Durable_flush
  MS.Proofs.Durable_recover MS.Proofs.Durable_sem MS.Proofs.Durable_ext MS.Proofs.Durable_crash.
Local Open Scope Z_scope.

(* ------------------------------------------------------------------ facts about live logs *)

Lemma log_of_app a b : log_of (a ++ b) = log_of a ++ log_of b.
Proof. unfold log_of. apply flat_map_app. Qed.

Lemma live_items_snoc segs cur t :
  live_items segs (cur ++ [t]) = live_items segs cur ++ [ITG (fst t) (snd t)].
Proof. unfold live_items. rewrite map_app, app_assoc. reflexivity. Qed.

Lemma live_tgs_snoc segs cur t : live_tgs segs (cur ++ [t]) = live_tgs segs cur ++ [t].
Proof. unfold live_tgs. apply app_assoc. Qed.

Lemma live_items_close segs cur :
  live_items (segs ++ [cur]) [] = live_items segs cur ++ [ICk (last (map fst cur) 0)].
Proof.
  unfold live_items. rewrite flat_map_app. cbn [flat_map map]. rewrite !app_nil_r.
  unfold seg_items. rewrite app_assoc. reflexivity.
Qed.

Lemma live_tgs_close segs cur : live_tgs (segs ++ [cur]) [] = live_tgs segs cur.
Proof. unfold live_tgs. rewrite concat_app. cbn [concat]. rewrite !app_nil_r. reflexivity. Qed.

Lemma incr_last_ge (ts : list tg) : forall lo, incr_from lo ts -> lo <= last (map fst ts) lo.
Proof.
  induction ts as [|t ts IH]; intros lo H; [cbn; lia|].
  destruct H as [H1 H2]. cbn [map]. rewrite last_cons_def. specialize (IH _ H2). lia.
Qed.

Lemma body_in_tgs (ts : list tg) id cs :
  In (RBody id cs) (log_of (map (fun t => ITG (fst t) (snd t)) ts)) -> In (id, cs) ts.
Proof.
  induction ts as [|[i c] ts IH]; cbn [map log_of flat_map item_recs fst snd]; [intros []|].
  intros H. apply in_app_or in H as [H|H].
  - left. unfold tg_recs in H. cbn [In] in H.
    destruct H as [H|[H|[H|[H|[H|[H|[]]]]]]]; try discriminate. inversion H; reflexivity.
  - right. apply IH, H.
Qed.

Lemma body_in_live segs cur id cs :
  In (RBody id cs) (log_of (live_items segs cur)) -> In (id, cs) (live_tgs segs cur).
Proof.
  unfold live_items, live_tgs. rewrite log_of_app. intros H. apply in_or_app. apply in_app_or in H as [H|H].
  - left. induction segs as [|s segs IH]; [destruct H|].
    cbn [flat_map concat] in *. rewrite log_of_app in H. apply in_or_app. apply in_app_or in H as [H|H].
    + left. unfold seg_items in H. rewrite log_of_app in H. apply in_app_or in H as [H|H].
      * apply body_in_tgs, H.
      * cbn in H. destruct H as [H|[H|[]]]; discriminate.
    + right. apply IH, H.
  - right. apply body_in_tgs, H.
Qed.

Lemma torn_meta tl b : torn tl b -> (forall id cs, In (RBody id cs) tl -> meta_ok cs) ->
  forall l, recs_meta_ok l -> recs_meta_ok (l ++ tl).
Proof.
  intros _ Ht l Hl id cs Hin. apply in_app_or in Hin as [H|H]; [eapply Hl|eapply Ht]; eassumption.
Qed.

Section WithClen.
  Variable clen : list record -> Z.
  Hypothesis clen_pos : forall x, 0 < clen x.
  Variable owner2 : Z.

  (** a crash point is outside every continuation-write window: the last applied event is not a data
      block written over an existing block (whose index triple would still describe the old one) *)
  Definition ev_guard (im : img) (e : event) : bool :=
    match e with
    | EVData f pos _ _ =>
        match alookup f (i_files im) with Some (PV _ _ eof _) => eof <=? pos | _ => true end
    | _ => true
    end.
  Definition gwin (im : img) (tr : list event) (k : nat) : bool :=
    match k with
    | O => true
    | S k' => match nth_error tr k' with
              | Some e => ev_guard (apply_events im (firstn k' tr)) e
              | None => true
              end
    end.

  (** the invariant at step boundaries.  [old]: TGs whose log was rotated away; [segs]: closed
      (checkpointed) segments of the current log; [cur]: TGs flushed since the last checkpoint. *)
  Record BInv (old : list tg) (segs : list (list tg)) (cur : list tg) (im : img) (st : sstate) (c : cst) : Prop := {
    b_wal : i_wals im = [(0%N, {| wf_status := Some (WFS_OPEN, WRS_NOTREPLAYED, s_owner st);
                                 wf_recs := log_of (live_items segs cur) |})];
    b_w : s_wal st = 0%N;
    b_owner : s_owner st <> 0;
    b_segs : Forall (fun s => s <> []) segs;
    b_incr : incr_from 0 (old ++ live_tgs segs cur);
    b_tgid : 0 < s_tgid st /\ Forall (fun t => fst t < s_tgid st) (old ++ live_tgs segs cur);
    b_last : s_last st = last (map fst cur) 0;
    b_queue : all_ok (i_files im) (s_queue st) /\ meta_ok (s_queue st);
    b_clean : FClean (i_files im) (old ++ live_tgs segs cur);
    b_metas : Forall (fun t => meta_ok (snd t)) (live_tgs segs cur);
    b_cst : c = {| cs_pending := None; cs_all := old ++ live_tgs segs cur; cs_cur := cur |};
    b_nonew : no_pnew (i_files im)
  }.

  (** the current log followed by a torn tail has the shape [recover_exact] wants *)
  Lemma live_shape old segs cur owner tl b :
    owner <> 0 -> Forall (fun s => s <> []) segs -> incr_from 0 (old ++ live_tgs segs cur) ->
    Forall (fun t => meta_ok (snd t)) (live_tgs segs cur) ->
    torn tl b -> (forall id cs, In (RBody id cs) tl -> meta_ok cs) ->
    wal_shape {| wf_status := Some (WFS_OPEN, WRS_NOTREPLAYED, owner);
                 wf_recs := log_of (live_items segs cur) ++ tl |} WFS_OPEN WRS_NOTREPLAYED owner cur.
  Proof.
    intros Hown Hsegs Hincr Hmeta Htorn Htl.
    apply incr_from_app in Hincr as [Hi1 Hi2].
    pose proof (incr_last_ge old 0 Hi1) as Hge. set (lo1 := last (map fst old) 0) in *.
    pose proof Hi2 as Hi2'. unfold live_tgs in Hi2'. apply incr_from_app in Hi2' as [Hi3 Hi4].
    pose proof (incr_last_ge _ _ Hi3) as Hge2.
    constructor; cbn [wf_status wf_recs].
    - reflexivity.
    - exact Hown.
    - reflexivity.
    - exists (live_items segs cur), (last (map fst (concat segs)) lo1).
      split; [rewrite item_ids_live; eapply incr_NoDup; exact Hi2|].
      split; [exact Hi4|]. split; [lia|]. left. exists tl, b.
      split; [reflexivity|]. split; [exact Htorn|]. eapply pend_live; eassumption.
    - apply (torn_meta tl b Htorn Htl). intros id cs Hin. apply body_in_live in Hin.
      rewrite Forall_forall in Hmeta. apply (Hmeta _ Hin).
  Qed.

  (** the log followed by the first five records of the group of a new TG [t] *)
  Lemma live_shape_sum old segs cur owner t :
    owner <> 0 -> Forall (fun s => s <> []) segs -> incr_from 0 (old ++ live_tgs segs (cur ++ [t])) ->
    Forall (fun t => meta_ok (snd t)) (live_tgs segs (cur ++ [t])) ->
    wal_shape {| wf_status := Some (WFS_OPEN, WRS_NOTREPLAYED, owner);
                 wf_recs := log_of (live_items segs cur) ++ sum_recs (fst t) (snd t) |}
              WFS_OPEN WRS_NOTREPLAYED owner (cur ++ [t]).
  Proof.
    intros Hown Hsegs Hincr Hmeta.
    apply incr_from_app in Hincr as [Hi1 Hi2].
    pose proof (incr_last_ge old 0 Hi1) as Hge. set (lo1 := last (map fst old) 0) in *.
    pose proof Hi2 as Hi2'. unfold live_tgs in Hi2'. apply incr_from_app in Hi2' as [Hi3 Hi4].
    pose proof (incr_last_ge _ _ Hi3) as Hge2.
    rewrite live_tgs_snoc in Hi2, Hmeta.
    pose proof Hi2 as Hi5. apply incr_from_app in Hi5 as [Hi5 Hi6].
    constructor; cbn [wf_status wf_recs].
    - reflexivity.
    - exact Hown.
    - reflexivity.
    - exists (live_items segs cur), (last (map fst (concat segs)) lo1).
      split; [rewrite item_ids_live; eapply incr_NoDup; exact Hi5|].
      split; [exact Hi4|]. split; [lia|]. right. exists cur, (fst t), (snd t).
      split; [reflexivity|]. split.
      + rewrite item_ids_live. intros Hin. apply in_map_iff in Hin as (t' & Ht' & Hin).
        pose proof (incr_le_last _ _ Hi5) as Hle. rewrite Forall_forall in Hle. specialize (Hle _ Hin).
        cbn in Hi6. lia.
      + split; [eapply pend_live; eassumption|]. destruct t; reflexivity.
    - intros id cs Hin. apply in_app_or in Hin as [Hin|Hin].
      + apply body_in_live in Hin. apply Forall_app in Hmeta as [Hm _]. rewrite Forall_forall in Hm. apply (Hm _ Hin).
      + apply Forall_app in Hmeta as [_ Hm]. inversion Hm; subst.
        unfold sum_recs in Hin. cbn [In] in Hin.
        destruct Hin as [H|[H|[H|[H|[H|[]]]]]]; try discriminate. inversion H; subst. assumption.
  Qed.

  (** at a step boundary the image can crash *)
  Lemma binv_crash old segs cur im st c : BInv old segs cur im st c -> CrashOK clen owner2 im c.
  Proof.
    intros [Hw _ Hown Hsegs Hincr _ _ _ Hclean Hmeta -> _].
    unfold live_tgs in Hclean |- *. rewrite app_assoc in Hclean |- *.
    eapply (crash_clean clen clen_pos owner2 im _ WFS_OPEN WRS_NOTREPLAYED (s_owner st)); [exact Hw| |exact Hclean].
    pose proof (live_shape old segs cur (s_owner st) [] false Hown Hsegs Hincr Hmeta torn_nil) as H.
    rewrite app_nil_r in H. apply H. intros ? ? [].
  Qed.
End WithClen.
