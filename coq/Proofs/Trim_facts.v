(** Facts about Model/Trim.v: the byte-level [trim_range] refines the row-level [trim_rows]; on rows
    sorted by time and inside the F11 guard, [trim_rows] is exactly the range filter. *)
From Coq Require Import ZArith List Bool Lia Arith.
From Coq.Strings Require Import Byte.
Import ListNotations.
Require Import MS.Base.GoInt MS.Base.Hex MS.Base.Bytes MS.Generated.Src_query MS.Model.QTime MS.Model.Trim.

(* ------------------------------------------------------------------ Go time order *)

Lemma t_eq_sym a b : t_eq a b = t_eq b a.
Proof. unfold t_eq. rewrite (Z.eqb_sym (g_ext a)), (Z.eqb_sym (g_ns a)). reflexivity. Qed.

Lemma t_ge_le a b : t_ge a b = t_le b a.
Proof. unfold t_ge, t_le, t_after. now rewrite t_eq_sym. Qed.

(** the lexicographic key order, as a proposition *)
Definition tleP (a b : gtime) : Prop :=
  (g_ext a < g_ext b)%Z \/ (g_ext a = g_ext b /\ (g_ns a <= g_ns b)%Z).

Lemma t_le_spec a b : t_le a b = true <-> tleP a b.
Proof.
  unfold t_le, t_eq, t_before, tleP.
  rewrite !orb_true_iff, !andb_true_iff, !Z.eqb_eq, !Z.ltb_lt. lia.
Qed.

Lemma t_le_false a b : t_le a b = false -> t_le b a = true.
Proof.
  intros H. apply t_le_spec. unfold tleP.
  destruct (t_le a b) eqn:E; [discriminate|]. clear H.
  assert (N : ~ tleP a b) by (intros P; apply t_le_spec in P; congruence).
  unfold tleP in N. lia.
Qed.

Lemma t_le_trans a b c : t_le a b = true -> t_le b c = true -> t_le a c = true.
Proof. rewrite !t_le_spec. unfold tleP. lia. Qed.

Lemma t_le_refl a : t_le a a = true.
Proof. apply t_le_spec. unfold tleP. lia. Qed.

(** for values far from the int64 range Go's comparison is the comparison of total nanoseconds *)
Definition sane_sec (s : Z) : Prop := (- 2 ^ 62 <= s <= 2 ^ 62)%Z.
Definition sane_ns (n : Z) : Prop := (- 2 ^ 31 <= n < 2 ^ 31)%Z.

Lemma go_unix_wide s n : sane_sec s -> sane_ns n ->
  go_unix s n = mkT (s + n / nsPerSec + unixToInternal) (n mod nsPerSec).
Proof.
  unfold sane_sec, sane_ns, go_unix, nsPerSec, unixToInternal. intros Hs Hn.
  assert (Hq : (-3 <= n / 1000000000 <= 3)%Z) by (Z.div_mod_to_equations; lia).
  rewrite (wrap_small I64 (s + n / 1000000000)).
  2:{ unfold in_ity, ity_min, ity_max; cbn [ity_signed ity_bits]. norm_pows. lia. }
  rewrite wrap_small.
  2:{ unfold in_ity, ity_min, ity_max; cbn [ity_signed ity_bits]. norm_pows. lia. }
  reflexivity.
Qed.

Lemma t_le_tns s n s' n' : sane_sec s -> sane_ns n -> sane_sec s' -> sane_ns n' ->
  t_le (go_unix s n) (go_unix s' n') = (tns s n <=? tns s' n')%Z.
Proof.
  intros Hs Hn Hs' Hn'. rewrite !go_unix_wide by assumption.
  apply eq_true_iff_eq. rewrite t_le_spec, Z.leb_le. unfold tleP, tns, nsPerSec. cbn [g_ext g_ns].
  Z.div_mod_to_equations. lia.
Qed.

(* ------------------------------------------------------------------ encoding of rows *)

Lemma skipn_skipn_add {A} (a b : nat) (l : list A) : skipn a (skipn b l) = skipn (b + a) l.
Proof.
  revert l; induction b as [|b IH]; intros l; [reflexivity|].
  destruct l; cbn; [destruct a; reflexivity|apply IH].
Qed.

Lemma row_length_eq plen : row_length (plen + 4) = (plen + 12)%nat.
Proof. unfold row_length, epochLenBytes, nanosecLenBytes, intervalTicksLenBytes. lia. Qed.

Lemma enc_rows_app a b : enc_rows (a ++ b) = enc_rows a ++ enc_rows b.
Proof. unfold enc_rows. now rewrite map_app, concat_app. Qed.

Lemma enc_rows_cons r a : enc_rows (r :: a) = enc_row r ++ enc_rows a.
Proof. reflexivity. Qed.

Lemma enc_row_length plen r : wf_row plen r -> length (enc_row r) = (plen + 12)%nat.
Proof.
  intros (Hp & _ & _). unfold enc_row. rewrite !app_length, !length_le_bytes, Hp. lia.
Qed.

Lemma enc_rows_length plen rows : Forall (wf_row plen) rows ->
  length (enc_rows rows) = (length rows * (plen + 12))%nat.
Proof.
  induction 1 as [|r rows Hr _ IH]; [reflexivity|].
  rewrite enc_rows_cons, app_length, IH, (enc_row_length plen r Hr). cbn [length]. lia.
Qed.

Lemma skipn_enc_rows plen pre x : Forall (wf_row plen) pre ->
  skipn (length pre * (plen + 12)) (enc_rows pre ++ x) = x.
Proof.
  intros H. rewrite skipn_app, <- (enc_rows_length plen pre H), skipn_all, Nat.sub_diag. reflexivity.
Qed.

Lemma firstn_enc_rows plen pre x : Forall (wf_row plen) pre ->
  firstn (length pre * (plen + 12)) (enc_rows pre ++ x) = enc_rows pre.
Proof.
  intros H. rewrite firstn_app, <- (enc_rows_length plen pre H), firstn_all, Nat.sub_diag.
  cbn [firstn]. now rewrite app_nil_r.
Qed.

Lemma le_i64_enc v tail : in_ity I64 v -> le_i64 (le_bytes 8 v ++ tail) = v.
Proof.
  intros H. unfold le_i64.
  rewrite firstn_app, length_le_bytes, Nat.sub_diag, firstn_all2 by (rewrite length_le_bytes; lia).
  cbn [firstn]. rewrite app_nil_r, le_val_le_bytes.
  change (256 ^ Z.of_nat 8)%Z with (2 ^ ity_bits I64)%Z. rewrite wrap_mod. now apply wrap_small.
Qed.

Lemma le_i32_enc v tail : in_ity I32 v -> le_i32 (le_bytes 4 v ++ tail) = v.
Proof.
  intros H. unfold le_i32.
  rewrite firstn_app, length_le_bytes, Nat.sub_diag, firstn_all2 by (rewrite length_le_bytes; lia).
  cbn [firstn]. rewrite app_nil_r, le_val_le_bytes.
  change (256 ^ Z.of_nat 4)%Z with (2 ^ ity_bits I32)%Z. rewrite wrap_mod. now apply wrap_small.
Qed.

(** TimeOfVariableRecord at a row boundary reads that row's time *)
Lemma rec_time_at plen pre r tail : Forall (wf_row plen) pre -> wf_row plen r ->
  rec_time (enc_rows pre ++ enc_row r ++ tail) (length pre * (plen + 12)) (plen + 12) = row_time r.
Proof.
  intros Hpre Hr. pose proof Hr as (Hp & Hs & Hn). unfold rec_time, row_time.
  rewrite (skipn_enc_rows plen pre _ Hpre).
  f_equal.
  - unfold enc_row. rewrite <- !app_assoc. now apply le_i64_enc.
  - change (Z.to_nat nanosecLenBytes) with 4%nat.
    replace (length pre * (plen + 12) + (plen + 12) - 4)%nat with (length pre * (plen + 12) + (8 + plen))%nat by lia.
    rewrite <- skipn_skipn_add. rewrite (skipn_enc_rows plen pre _ Hpre).
    unfold enc_row. rewrite <- !app_assoc.
    rewrite skipn_app, length_le_bytes.
    rewrite skipn_all2 by (rewrite length_le_bytes; lia). cbn [app].
    replace (8 + plen - 8)%nat with plen by lia.
    rewrite skipn_app, Hp, Nat.sub_diag, skipn_all2 by lia. cbn [app skipn].
    now apply le_i32_enc.
Qed.

(* ------------------------------------------------------------------ refinement bytes -> rows *)

Lemma drop_before_rows plen s rows : forall pre,
  Forall (wf_row plen) pre -> Forall (wf_row plen) rows ->
  drop_before s (plen + 12) (enc_rows pre ++ enc_rows rows) (length pre * (plen + 12)) (length rows) =
  match drop_rows s rows with [] => None | d => Some (enc_rows d) end.
Proof.
  induction rows as [|r rest IH]; intros pre Hpre Hrows; [reflexivity|].
  inversion Hrows as [|? ? Hr Hrest]; subst.
  cbn [length drop_before drop_rows]. rewrite enc_rows_cons.
  rewrite (rec_time_at plen pre r (enc_rows rest) Hpre Hr).
  destruct (t_ge (row_time r) s) eqn:G.
  - now rewrite (skipn_enc_rows plen pre _ Hpre).
  - specialize (IH (pre ++ [r])).
    rewrite enc_rows_app, app_length in IH. cbn [length] in IH.
    replace (enc_rows [r]) with (enc_row r) in IH by (unfold enc_rows; cbn; now rewrite app_nil_r).
    rewrite <- app_assoc in IH.
    replace ((length pre + 1) * (plen + 12))%nat with (length pre * (plen + 12) + (plen + 12))%nat in IH by lia.
    apply IH; [ apply Forall_app; split; [assumption | now constructor] | assumption ].
Qed.

Lemma nth_error_split_wf {A} (l : list A) i r : nth_error l i = Some r ->
  l = firstn i l ++ r :: skipn (S i) l /\ length (firstn i l) = i.
Proof.
  revert i; induction l as [|x l IH]; intros [|i] H; cbn in H; try discriminate.
  - inversion H; subst. split; reflexivity.
  - destruct (IH i H) as [E L]. split.
    + change (x :: l = x :: (firstn i l ++ r :: skipn (S i) l)). f_equal. exact E.
    + cbn [firstn length]. now rewrite L.
Qed.

Lemma Forall_firstn {A} (P : A -> Prop) k l : Forall P l -> Forall P (firstn k l).
Proof.
  revert l; induction k as [|k IH]; intros l H; [constructor|].
  destruct l; [constructor|]. inversion H; subst. cbn [firstn]. constructor; auto.
Qed.

Lemma firstn_rows_enc plen rows k : Forall (wf_row plen) rows -> (k <= length rows)%nat ->
  firstn (k * (plen + 12)) (enc_rows rows) = enc_rows (firstn k rows).
Proof.
  intros H Hk. rewrite <- (firstn_skipn k rows) at 1. rewrite enc_rows_app.
  assert (Hf : Forall (wf_row plen) (firstn k rows)) by now apply Forall_firstn.
  replace k with (length (firstn k rows)) at 1 by (rewrite firstn_length; lia).
  now apply firstn_enc_rows.
Qed.

Lemma cut_after_rows plen e rows : Forall (wf_row plen) rows -> forall i, (i <= length rows)%nat ->
  cut_after e (plen + 12) (enc_rows rows) i = enc_rows (cut_rows e rows i).
Proof.
  intros H. induction i as [|i IH]; intros Hi; [reflexivity|].
  cbn [cut_after cut_rows].
  destruct (nth_error rows i) as [r|] eqn:N.
  2:{ apply nth_error_None in N. lia. }
  destruct (nth_error_split_wf rows i r N) as [E L].
  assert (Hpre : Forall (wf_row plen) (firstn i rows)) by now apply Forall_firstn.
  assert (Hr : wf_row plen r).
  { eapply Forall_forall; [exact H|]. eapply nth_error_In; eauto. }
  assert (T : rec_time (enc_rows rows) (i * (plen + 12)) (plen + 12) = row_time r).
  { rewrite E at 1. rewrite enc_rows_app, enc_rows_cons.
    replace (i * (plen + 12))%nat with (length (firstn i rows) * (plen + 12))%nat by (now rewrite L).
    now apply rec_time_at. }
  rewrite T. destruct (t_le (row_time r) e).
  - replace (i * (plen + 12) + (plen + 12))%nat with (S i * (plen + 12))%nat by lia.
    now apply firstn_rows_enc.
  - apply IH. lia.
Qed.

Lemma drop_rows_suffix s rows : exists pre, rows = pre ++ drop_rows s rows
  /\ Forall (fun r => t_ge (row_time r) s = false) pre.
Proof.
  induction rows as [|r rest (pre & E & F)]; [ exists []; split; [reflexivity | constructor] |].
  cbn [drop_rows]. destruct (t_ge (row_time r) s) eqn:G.
  - exists []. split; [reflexivity | constructor].
  - exists (r :: pre). split; [ cbn; now rewrite <- E | now constructor ].
Qed.

Lemma Forall_app_r {A} (P : A -> Prop) a b : Forall P (a ++ b) -> Forall P b.
Proof. intros H. apply Forall_app in H. tauto. Qed.

Theorem trim_range_refines plen s e rows : Forall (wf_row plen) rows ->
  trim_range s e (plen + 4) (enc_rows rows) = enc_rows (trim_rows s e rows).
Proof.
  intros H. unfold trim_range, trim_rows. rewrite row_length_eq.
  rewrite (enc_rows_length plen rows H), Nat.div_mul by lia.
  destruct rows as [|r0 rest]; [reflexivity|].
  replace (length (r0 :: rest) =? 0)%nat with false by reflexivity.
  pose proof (drop_before_rows plen s (r0 :: rest) [] (Forall_nil _) H) as D.
  change (enc_rows [] ++ enc_rows (r0 :: rest)) with (enc_rows (r0 :: rest)) in D.
  change (length (@nil vrow) * (plen + 12))%nat with 0%nat in D. rewrite D.
  destruct (drop_rows_suffix s (r0 :: rest)) as (pre & E & _).
  assert (Hd : Forall (wf_row plen) (drop_rows s (r0 :: rest))).
  { rewrite E in H. eapply Forall_app_r; eauto. }
  destruct (drop_rows s (r0 :: rest)) as [|d0 drest] eqn:Ed; [reflexivity|].
  rewrite (enc_rows_length plen _ Hd), Nat.div_mul by lia.
  apply cut_after_rows; [assumption | lia].
Qed.

(* ------------------------------------------------------------------ rows: trim = filter *)

Lemma sorted_rows_tail a rest : sorted_rows (a :: rest) = true -> sorted_rows rest = true.
Proof. cbn [sorted_rows]. destruct rest; [reflexivity|]. now intros H%andb_prop. Qed.

Lemma sorted_rows_head a rest : sorted_rows (a :: rest) = true ->
  Forall (fun b => t_le (row_time a) (row_time b) = true) rest.
Proof.
  revert a; induction rest as [|b rest IH]; intros a H; [constructor|].
  cbn [sorted_rows] in H. apply andb_prop in H as [H1 H2].
  constructor; [assumption|].
  specialize (IH b H2). eapply Forall_impl; [|exact IH].
  intros c Hc. eapply t_le_trans; eauto.
Qed.

Lemma sorted_rows_app_r a b : sorted_rows (a ++ b) = true -> sorted_rows b = true.
Proof.
  induction a as [|x a IH]; [trivial|]. intros H. apply IH. eapply sorted_rows_tail. exact H.
Qed.

(** in a sorted list every element before position of [y] is <= [y] *)
Lemma sorted_rows_app_le x y z : sorted_rows (x ++ y :: z) = true ->
  Forall (fun q => t_le (row_time q) (row_time y) = true) x.
Proof.
  induction x as [|q x IH]; intros H; [constructor|].
  cbn [app] in H. constructor.
  - pose proof (sorted_rows_head _ _ H) as F. apply Forall_app in F as [_ F]. now inversion F.
  - apply IH. eapply sorted_rows_tail; eauto.
Qed.

Lemma filter_all {A} (f : A -> bool) l : Forall (fun x => f x = true) l -> filter f l = l.
Proof. induction 1 as [|x l Hx _ IH]; cbn; [reflexivity | now rewrite Hx, IH]. Qed.

Lemma filter_none {A} (f : A -> bool) l : Forall (fun x => f x = false) l -> filter f l = [].
Proof. induction 1 as [|x l Hx _ IH]; cbn; [reflexivity | now rewrite Hx]. Qed.

Lemma cut_rows_filter e d : sorted_rows d = true -> forall i a b,
  d = a ++ b -> length a = i ->
  Forall (fun r => t_le (row_time r) e = false) b ->
  cut_rows e d i = filter (fun r => t_le (row_time r) e) d.
Proof.
  intros Hsd. induction i as [|i IH]; intros a b E L Fb.
  - destruct a; [|discriminate]. cbn [app] in E. subst d. cbn [cut_rows]. symmetry. now apply filter_none.
  - destruct (exists_last (l := a)) as (a' & r & Ea). { intros ->; discriminate. }
    subst a. rewrite app_length in L. cbn [length] in L. assert (La : length a' = i) by lia.
    assert (N : nth_error d i = Some r).
    { rewrite E, <- app_assoc, nth_error_app2 by lia. rewrite La, Nat.sub_diag. reflexivity. }
    cbn [cut_rows]. rewrite N.
    destruct (t_le (row_time r) e) eqn:R.
    + assert (Fa : Forall (fun q => t_le (row_time q) e = true) (a' ++ [r])).
      { apply Forall_app; split; [| now constructor].
        rewrite E, <- app_assoc in Hsd. cbn [app] in Hsd.
        pose proof (sorted_rows_app_le _ _ _ Hsd) as F.
        eapply Forall_impl; [|exact F]. intros q Hq. cbv beta in Hq. exact (t_le_trans _ _ _ Hq R). }
      rewrite E, filter_app, (filter_all _ _ Fa), (filter_none _ _ Fb), app_nil_r.
      replace (S i) with (length (a' ++ [r])) by (rewrite app_length; cbn; lia).
      rewrite firstn_app, firstn_all, Nat.sub_diag. cbn [firstn]. now rewrite app_nil_r.
    + apply (IH a' (r :: b)).
      * rewrite E, <- app_assoc. reflexivity.
      * exact La.
      * now constructor.
Qed.

Theorem trim_rows_filter s e rows :
  sorted_rows rows = true ->
  trim_rows s e rows = filter (in_range_row s e) rows.
Proof.
  intros S. unfold trim_rows.
  destruct (drop_rows_suffix s rows) as (pre & E & Fpre).
  set (d := drop_rows s rows) in *.
  assert (Sd : sorted_rows d = true) by (rewrite E in S; eapply sorted_rows_app_r; eauto).
  (* every row of d is >= s *)
  assert (Fd : Forall (fun r => t_ge (row_time r) s = true) d).
  { destruct d as [|r0 rest] eqn:Ed; [constructor|].
    assert (H0 : t_ge (row_time r0) s = true).
    { clear -Ed. subst d. revert Ed. induction rows as [|r rows IH]; cbn [drop_rows]; [discriminate|].
      destruct (t_ge (row_time r) s) eqn:G; [ intros H; inversion H; subst; exact G | exact IH ]. }
    constructor; [exact H0|].
    pose proof (sorted_rows_head _ _ Sd) as F. eapply Forall_impl; [|exact F].
    intros b Hb. rewrite t_ge_le in *. eapply t_le_trans; eauto. }
  assert (EQ : filter (in_range_row s e) rows = filter (fun r => t_le (row_time r) e) d).
  { rewrite E, filter_app.
    rewrite (filter_none (in_range_row s e) pre).
    2:{ eapply Forall_impl; [|exact Fpre]. intros r Hr. unfold in_range_row. now rewrite Hr. }
    cbn [app]. apply filter_ext_in. intros r Hr. unfold in_range_row.
    rewrite Forall_forall in Fd. now rewrite (Fd r Hr). }
  rewrite EQ. apply (cut_rows_filter e _ Sd _ d []); [now rewrite app_nil_r | reflexivity | constructor].
Qed.

(** byte level: trimResultsToRange on whole rows sorted by time is the range filter *)
Theorem trim_range_filter plen s e rows :
  Forall (wf_row plen) rows -> sorted_rows rows = true ->
  trim_range s e (plen + 4) (enc_rows rows) = enc_rows (filter (in_range_row s e) rows).
Proof.
  intros W S. rewrite (trim_range_refines plen s e rows W). f_equal.
  exact (trim_rows_filter s e rows S).
Qed.
