(** The primitive-float mirror Model/TicksPF.v computes exactly what the Flocq model Model/Ticks.v
    computes.  Rests on Flocq's IEEE754.PrimFloat equivalence lemmas (mul_equiv, add_equiv, sub_equiv,
    div_equiv, leb_equiv, of_int63_equiv, Prim2B_B2Prim), which rest on Coq's FloatAxioms. *)
From Coq Require Import ZArith List Bool Lia Floats Uint63 Eqdep_dec.
From Flocq Require Import Core.FLX IEEE754.BinarySingleNaN IEEE754.PrimFloat.
Require Import MS.Base.GoInt MS.Base.FGen MS.Base.F64 MS.Generated.Src_ticks MS.Model.Ticks MS.Model.TicksPF.
Local Open Scope Z_scope.

(** the format side conditions are proofs of a decidable equality: all equal *)
Lemma prec_proof_irrel (p q : Prec_gt_0 53) : p = q.
Proof. unfold Prec_gt_0, Z.lt in *. apply UIP_dec. decide equality. Qed.
Lemma emax_proof_irrel (p q : Prec_lt_emax 53 1024) : p = q.
Proof. unfold Prec_lt_emax, Z.lt in *. apply UIP_dec. decide equality. Qed.

Lemma Hp : p64_gt_0 = Hprec. Proof. apply prec_proof_irrel. Qed.
Lemma Hm : p64_lt_emax = Hmax. Proof. apply emax_proof_irrel. Qed.

Lemma eq_mul x y : Prim2B (PrimFloat.mul x y) = f64_mul (Prim2B x) (Prim2B y).
Proof. unfold f64_mul, f_mul. rewrite Hp, Hm. apply mul_equiv. Qed.
Lemma eq_add x y : Prim2B (PrimFloat.add x y) = f64_add (Prim2B x) (Prim2B y).
Proof. unfold f64_add, f_add. rewrite Hp, Hm. apply add_equiv. Qed.
Lemma eq_sub x y : Prim2B (PrimFloat.sub x y) = f64_sub (Prim2B x) (Prim2B y).
Proof. unfold f64_sub, f_sub. rewrite Hp, Hm. apply sub_equiv. Qed.
Lemma eq_div x y : Prim2B (PrimFloat.div x y) = f64_div (Prim2B x) (Prim2B y).
Proof. unfold f64_div, f_div. rewrite Hp, Hm. apply div_equiv. Qed.
Lemma eq_leb x y : PrimFloat.leb x y = f64_ge (Prim2B y) (Prim2B x).
Proof. unfold f64_ge. apply leb_equiv. Qed.

Lemma eq_of_Z z : 0 <= z < 9223372036854775808 -> Prim2B (pf_of_Z z) = f64_of_Z z.
Proof.
  intros H. unfold pf_of_Z, f64_of_Z, f_of_Z. rewrite Hp, Hm.
  pose proof (of_int63_equiv (Uint63.of_Z z)) as E.
  rewrite Uint63.of_Z_spec in E. rewrite Z.mod_small in E by (unfold Uint63.wB; cbn; lia). exact E.
Qed.

Lemma eq_floor x : Prim2B (pf_floor x) = f64_floor (Prim2B x).
Proof. unfold pf_floor, f64_floor. rewrite Prim2B_B2Prim. rewrite Hm. reflexivity. Qed.
Lemma eq_round x : Prim2B (pf_round x) = f64_round (Prim2B x).
Proof. unfold pf_round, f64_round. rewrite Prim2B_B2Prim. rewrite Hm. reflexivity. Qed.
Lemma eq_trunc x : pf_trunc x = f64_trunc (Prim2B x).
Proof. reflexivity. Qed.

(** the constants: both sides evaluate to the same (sign, mantissa, exponent) *)
Ltac cst_eq := apply B2SF_inj; rewrite B2SF_Prim2B; vm_compute; reflexivity.
Lemma eq_enc_tpi : Prim2B pc_enc_tpi = c_enc_tpi. Proof. cst_eq. Qed.
Lemma eq_dec_tpi : Prim2B pc_dec_tpi = c_dec_tpi. Proof. cst_eq. Qed.
Lemma eq_1e9 : Prim2B pc_1e9 = c_1e9. Proof. cst_eq. Qed.
Lemma eq_half : Prim2B pc_half = c_half. Proof. cst_eq. Qed.

Definition small (z : Z) : Prop := 0 <= z < 9223372036854775808.

Theorem enc_pf_eq ipd d : small ipd -> 0 <= d < 9223372036854775808 -> enc_pf ipd d = enc ipd d.
Proof.
  intros Hi Hd. unfold enc_pf, enc, enc_float, ticks_per_second, duration_seconds, duration_seconds_pf.
  rewrite eq_trunc. rewrite !eq_mul, eq_add, eq_div.
  assert (Q : small (Z.quot d 1000000000)).
  { unfold small. rewrite Z.quot_div_nonneg by lia. split; [ apply Z.div_pos; lia | apply Z.div_lt_upper_bound; lia ]. }
  assert (R : small (Z.rem d 1000000000)).
  { unfold small. rewrite Z.rem_mod_nonneg by lia. pose proof (Z.mod_pos_bound d 1000000000 ltac:(lia)). lia. }
  rewrite !eq_of_Z by (assumption || (unfold small in *; lia)). rewrite eq_enc_tpi. reflexivity.
Qed.

Theorem dec_pf_eq start ipd ticks : small ipd -> small ticks -> dec_pf start ipd ticks = dec start ipd ticks.
Proof.
  intros Hi Ht. unfold dec_pf, dec.
  set (fsp := PrimFloat.div (pf_of_Z ticks) (PrimFloat.mul (pf_of_Z ipd) pc_dec_tpi)).
  set (fs := f64_div (f64_of_Z ticks) (f64_mul (f64_of_Z ipd) c_dec_tpi)).
  assert (Efs : Prim2B fsp = fs).
  { subst fsp fs. rewrite eq_div, eq_mul, !eq_of_Z, eq_dec_tpi by assumption. reflexivity. }
  set (subp := PrimFloat.mul pc_1e9 (PrimFloat.sub fsp (pf_floor fsp))).
  set (sub := f64_mul c_1e9 (f64_sub fs (f64_floor fs))).
  assert (Esub : Prim2B subp = sub).
  { subst subp sub. rewrite eq_mul, eq_sub, eq_floor, eq_1e9, Efs. reflexivity. }
  rewrite eq_leb, eq_1e9, Esub.
  destruct (f64_ge sub c_1e9).
  - rewrite !eq_trunc, eq_floor, !eq_add, eq_sub, eq_1e9, eq_half, Esub, Efs.
    rewrite (eq_of_Z 1) by (unfold small; lia). reflexivity.
  - rewrite !eq_trunc, eq_floor, !eq_add, eq_half, Esub, Efs. reflexivity.
Qed.

Corollary dec_offset_pf_eq ipd ticks : small ipd -> small ticks -> dec_offset_pf ipd ticks = dec_offset ipd ticks.
Proof. intros Hi Ht. unfold dec_offset_pf, dec_offset. rewrite dec_pf_eq by assumption. reflexivity. Qed.
