(** Proofs about Model/AggTrigger.v, part 3: the invariant of the trigger on append-only, in-order histories
    with nesting destinations — after every fire each destination store is the aggregation of the base store. *)
From Coq Require Import ZArith Bool Lia List.
Import ListNotations.
Require Import MS.Base.GoInt MS.Base.Res MS.Base.F32 MS.Base.F64 MS.Model.Uda MS.Model.AggTrigger
               MS.Proofs.AggTrigger_sorted MS.Proofs.AggTrigger_agg.
Local Open Scope Z_scope.

(** ------------------------------------------------------------------ overwriting a suffix of a store *)
Definition drop_key (n : bar5) (o : list bar5) : list bar5 :=
  match o with y :: o' => if e5 n =? e5 y then o' else o | [] => [] end.

Lemma put_at pre o n : (forall x, In x pre -> e5 x < e5 n) -> (forall y, In y o -> e5 n <= e5 y) ->
  put (pre ++ o) n = pre ++ n :: drop_key n o.
Proof.
  induction pre as [|x pre IH]; intros F G; cbn [app put].
  - destruct o as [|y o']; cbn [put drop_key]; [reflexivity|].
    pose proof (G y (or_introl eq_refl)). destruct (Z.ltb_spec (e5 n) (e5 y)).
    + destruct (Z.eqb_spec (e5 n) (e5 y)); [lia | reflexivity].
    + destruct (Z.eqb_spec (e5 n) (e5 y)); [reflexivity | lia].
  - pose proof (F x (or_introl eq_refl)). destruct (Z.ltb_spec (e5 n) (e5 x)); [lia|].
    destruct (Z.eqb_spec (e5 n) (e5 x)); [lia|]. rewrite IH; [reflexivity | intros y I; apply F; right; exact I | exact G].
Qed.

Lemma put_all_over New : forall pre Old, sorted New -> sorted Old ->
  (forall x y, In x pre -> In y New -> e5 x < e5 y) ->
  (forall y, In y Old -> exists z, In z New /\ e5 z = e5 y) ->
  put_all (pre ++ Old) New = pre ++ New.
Proof.
  induction New as [|n N IH]; intros pre Old SN SO F K.
  - destruct Old as [|y o]; [cbn [put_all fold_left]; reflexivity|]. destruct (K y (or_introl eq_refl)) as (z & [] & _).
  - cbn [put_all fold_left]. fold (put_all (put (pre ++ Old) n) N).
    assert (G : forall y, In y Old -> e5 n <= e5 y).
    { intros y I. destruct (K y I) as (z & [E|Iz] & Ez); [subst z; lia | pose proof (sorted_head_lt n N SN z Iz); lia]. }
    rewrite put_at; [| intros x I; apply F; [exact I | left; reflexivity] | exact G].
    replace (pre ++ n :: drop_key n Old) with ((pre ++ [n]) ++ drop_key n Old) by (rewrite <- app_assoc; reflexivity).
    rewrite IH.
    + rewrite <- app_assoc. reflexivity.
    + apply (sorted_tail n), SN.
    + destruct Old as [|y o]; [exact I|]. cbn [drop_key]. destruct (e5 n =? e5 y); [apply (sorted_tail y), SO | exact SO].
    + intros x y Ix Iy. apply in_app_or in Ix. destruct Ix as [Ix|[E|[]]];
        [apply F; [exact Ix | right; exact Iy] | subst x; apply (sorted_head_lt n N SN y Iy)].
    + intros y Iy.
      assert (Iy' : In y Old /\ e5 n < e5 y).
      { destruct Old as [|y0 o]; [destruct Iy|]. cbn [drop_key] in Iy. destruct (Z.eqb_spec (e5 n) (e5 y0)) as [E|E].
        - split; [right; exact Iy | rewrite E; apply (sorted_head_lt y0 o SO y Iy)].
        - split; [exact Iy|]. pose proof (G y0 (or_introl eq_refl)).
          destruct Iy as [Ey|Iy]; [subst y; lia | pose proof (sorted_head_lt y0 o SO y Iy); lia]. }
      destruct Iy' as [IO Lt]. destruct (K y IO) as (z & [E|Iz] & Ez); [subst z; lia | exists z; auto].
Qed.

(** ------------------------------------------------------------------ the guard *)
(** destinations: positive, multiples of the alignment unit, and each divides the upper bound (they nest) *)
Definition dests_ok (u : Z) (dests : list Z) : Prop :=
  dests <> [] /\ forall d, In d dests -> 0 < d /\ (u | d) /\ exists k, 0 < k /\ upper_bound dests = k * d.

(** one write of an append-only in-order history *)
Definition write_ok (u : Z) (bs : list bar5) (w : list bar5) : Prop :=
  w <> [] /\ sorted w /\ (forall b, In b w -> (u | e5 b)) /\ (forall x y, In x bs -> In y w -> e5 x < e5 y).

Lemma upper_bound_in dests : dests <> [] -> In (upper_bound dests) dests.
Proof.
  destruct dests as [|d r]; [congruence|]. intros _. unfold upper_bound.
  assert (G : forall l m, In m (d :: r) -> (forall x, In x l -> In x (d :: r)) ->
                          In (fold_left (fun m x => if m <? x then x else m) l m) (d :: r)).
  { induction l as [|a l IH]; intros m Im F; cbn [fold_left]; [exact Im|].
    apply IH; [destruct (m <? a); [apply F; left; reflexivity | exact Im] | intros x I; apply F; right; exact I]. }
  apply G; [left; reflexivity | intros x I; right; exact I].
Qed.

(** ------------------------------------------------------------------ the invariant *)
Definition cache_ok (U : Z) (bs : list bar5) (k : option cache) : Prop :=
  match k with
  | None => True
  | Some c => exists L, (exists b, In b bs /\ e5 b = L) /\ (forall b, In b bs -> e5 b <= L)
                /\ k_tail c = trunc_s U L /\ k_head c = ceil_s U L - 1 /\ k_cs c = from (k_tail c) bs
  end.

Record inv (dests : list Z) (st : state) : Prop := {
  inv_sorted : sorted (base st);
  inv_dest : dest st = map (fun d => aggregate d (base st)) dests;
  inv_cache : cache_ok (upper_bound dests) (base st) (kache st)
}.

Lemma ceil_eq d t : 0 < d -> ceil_s d t = trunc_s d t + d.
Proof.
  intros P. unfold ceil_s. rewrite !(trunc_eq d) by exact P.
  replace (t + d + abs_epoch_s) with (t + abs_epoch_s + 1 * d) by lia. rewrite Z.div_add by lia. lia.
Qed.

Lemma last_in {A} (l : list A) (d : A) : l <> [] -> In (last l d) l.
Proof.
  induction l as [|a l IH]; [congruence|]. intros _. destruct l as [|b r]; [left; reflexivity|].
  right. apply IH. discriminate.
Qed.

Lemma sorted_last_max w r0 : sorted w -> forall b, In b w -> e5 b <= e5 (last w r0).
Proof.
  induction w as [|a w IH]; intros S b I; [destruct I|].
  destruct w as [|c r]; [destruct I as [E|[]]; subst; cbn [last]; lia|].
  destruct I as [E|I].
  - subst b. pose proof (sorted_head_lt a (c :: r) S (last (c :: r) r0) (last_in (c :: r) r0 ltac:(discriminate))).
    change (last (a :: c :: r) r0) with (last (c :: r) r0). lia.
  - change (last (a :: c :: r) r0) with (last (c :: r) r0). apply IH; [apply (sorted_tail a), S | exact I].
Qed.

Section Step.
Variables (u : Z) (dests : list Z).
Hypothesis Hu : 1 < u.
Hypothesis Hua : (u | abs_epoch_s).
Hypothesis Hd : dests_ok u dests.
Let U := upper_bound dests.

Variables (bs : list bar5) (w : list bar5) (r0 : bar5) (wr : list bar5).
Hypothesis Hw : w = r0 :: wr.
Hypothesis Hbs : sorted bs.
Hypothesis Hwok : write_ok u bs w.

Let head := e5 r0.
Let tail := e5 (last w r0).
Let bs' := bs ++ w.
Let S0 := trunc_s U head.

Lemma U_pos : 0 < U.
Proof. destruct Hd as [N F]. destruct (F U (upper_bound_in dests N)) as [P _]. exact P. Qed.

Lemma w_sorted : sorted w. Proof. apply Hwok. Qed.
Lemma r0_in : In r0 w. Proof. rewrite Hw. left. reflexivity. Qed.
Lemma head_min b : In b w -> head <= e5 b.
Proof.
  intros I. rewrite Hw in I. destruct I as [E|I]; [subst; unfold head; lia|].
  pose proof w_sorted as S. rewrite Hw in S. pose proof (sorted_head_lt r0 wr S b I). unfold head. lia.
Qed.
Lemma tail_max b : In b w -> e5 b <= tail.
Proof. apply sorted_last_max, w_sorted. Qed.
Lemma tail_in : In (last w r0) w.
Proof. apply last_in. rewrite Hw. discriminate. Qed.
Lemma bs_lt_head b : In b bs -> e5 b < head.
Proof. intros I. destruct Hwok as (_ & _ & _ & F). apply (F b r0 I r0_in). Qed.
Lemma bs'_sorted : sorted bs'.
Proof. apply sorted_app; [exact Hbs | apply w_sorted | apply Hwok]. Qed.
Lemma put_all_bs : put_all bs w = bs'.
Proof. apply put_all_append; [apply w_sorted | apply Hwok]. Qed.
Lemma bs'_le_tail b : In b bs' -> e5 b <= tail.
Proof.
  intros I. apply in_app_or in I. destruct I as [I|I]; [|apply tail_max, I].
  pose proof (bs_lt_head b I). pose proof (head_min _ tail_in). unfold tail. lia.
Qed.
Lemma tail_aligned : (u | tail).
Proof. destruct Hwok as (_ & _ & A & _). apply A, tail_in. Qed.

Lemma from_w S : S <= head -> from S w = w.
Proof. intros L. apply from_all. intros x I. pose proof (head_min x I). lia. Qed.

(** the series the destinations are computed from, in every branch of Fire: the base rows from the start of
    head's upper-bound window *)
Let CS := from S0 bs'.

Lemma CS_eq : CS = from S0 bs ++ w.
Proof. unfold CS, bs'. rewrite from_app, from_w; [reflexivity | apply trunc_le]. Qed.

Lemma branch_query : query bs' S0 (ceil_s U tail - 1) = CS.
Proof.
  apply query_from. intros x I. pose proof (bs'_le_tail x I).
  pose proof (ceil_beyond U u tail Hu) as C. destruct Hd as [N F]. destruct (F U (upper_bound_in dests N)) as (P & Du & _).
  specialize (C Du Hua tail_aligned P). lia.
Qed.

Lemma branch_cache c : cache_ok U bs (Some c) -> (k_tail c <=? tail) && (head <=? k_head c) = true ->
  union w (k_cs c) = CS.
Proof.
  intros (L & (bL & IL & EL) & ML & Kt & Kh & Kc) V. apply andb_true_iff in V. destruct V as [_ V]. apply Z.leb_le in V.
  rewrite Kh, (ceil_eq U L U_pos) in V.
  assert (LH : L < head) by (rewrite <- EL; apply bs_lt_head, IL).
  assert (E : trunc_s U head = trunc_s U L).
  { apply trunc_same; [apply U_pos | apply trunc_idem|]. pose proof (trunc_le U L). lia. }
  rewrite CS_eq. unfold S0. rewrite E, <- Kt, <- Kc.
  apply union_later; [apply w_sorted | rewrite Kc; apply from_sorted, Hbs|].
  intros x y Ix Iy. rewrite Kc in Ix. apply filter_In in Ix. destruct Hwok as (_ & _ & _ & F). apply F; [apply Ix | exact Iy].
Qed.

Lemma CS_sorted : sorted CS.
Proof. apply from_sorted, bs'_sorted. Qed.

Lemma r0_in_CS : In r0 CS.
Proof.
  apply filter_In. split; [apply in_or_app; right; apply r0_in | apply Z.leb_le, trunc_le].
Qed.

Lemma last_in_CS : In (last w r0) CS.
Proof.
  apply filter_In. split; [apply in_or_app; right; apply tail_in|]. apply Z.leb_le.
  pose proof (trunc_le U head). pose proof (head_min _ tail_in). unfold S0. lia.
Qed.

(** the cache stored by an upper-bound destination *)
Definition new_cache : cache :=
  {| k_cs := from (trunc_s U tail) bs'; k_tail := trunc_s U tail; k_head := ceil_s U tail - 1 |}.

Lemma slice_CS d S : 0 < d -> (u | d) -> S0 <= S -> (exists x, In x CS /\ S <= e5 x) ->
  slice_by_epoch CS S (ceil_s d tail - 1) = from S bs'.
Proof.
  intros P Du LS Ex. rewrite slice_from; [apply from_from, LS | apply CS_sorted | exact Ex|].
  intros x I. apply filter_In in I. destruct I as [I _]. pose proof (bs'_le_tail x I).
  pose proof (ceil_beyond d u tail Hu Du Hua tail_aligned P). lia.
Qed.

Lemma write_aggregates_ok d : In d dests ->
  write_aggregates U d CS head tail (aggregate d bs) = (aggregate d bs', if d =? U then Some new_cache else None).
Proof.
  intros Id. destruct Hd as [N F]. destruct (F d Id) as (P & Du & k & K & EU). fold U in EU.
  set (B := trunc_s d head).
  assert (LB : S0 <= B) by (unfold S0, B; rewrite EU; apply trunc_coarse_le; assumption).
  assert (GB : trunc_s d B = B) by apply trunc_idem.
  assert (Bh : B <= head) by apply trunc_le.
  unfold write_aggregates. fold B.
  rewrite (slice_CS d B P Du LB); [| exists r0; split; [apply r0_in_CS | exact Bh]].
  assert (Ne : from B bs' <> []).
  { intro Z. assert (I : In r0 (from B bs')) by (apply filter_In; split; [apply in_or_app; right; apply r0_in | apply Z.leb_le; exact Bh]).
    rewrite Z in I. destruct I. }
  destruct (from B bs') as [|f0 fr] eqn:EF; [congruence|]. rewrite <- EF.
  f_equal.
  - (* the destination store *)
    rewrite (aggregate_split d B bs P GB Hbs), (aggregate_split d B bs' P GB bs'_sorted).
    assert (Eb : before B bs' = before B bs).
    { unfold bs'. rewrite before_app, (before_none B w); [apply app_nil_r|]. intros x I. pose proof (head_min x I). lia. }
    rewrite Eb. apply put_all_over.
    + apply aggregate_sorted, from_sorted, bs'_sorted.
    + apply aggregate_sorted, from_sorted, Hbs.
    + intros x y Ix Iy.
      apply (in_map e5) in Ix. apply (aggregate_keys d _ (filter_sorted _ bs Hbs)) in Ix. destruct Ix as (a & Ia & Ea).
      apply (in_map e5) in Iy. apply (aggregate_keys d _ (from_sorted B bs' bs'_sorted)) in Iy. destruct Iy as (b & Ib & Eb').
      apply filter_In in Ia. destruct Ia as [_ La]. apply Z.ltb_lt in La.
      apply filter_In in Ib. destruct Ib as [_ Lb]. apply Z.leb_le in Lb.
      rewrite <- Ea, <- Eb'. unfold win. pose proof (trunc_le d (e5 a)). pose proof (trunc_ge_grid d (e5 b) B P GB Lb). lia.
    + intros y Iy. apply (in_map e5) in Iy. apply (aggregate_keys d _ (from_sorted B bs Hbs)) in Iy. destruct Iy as (a & Ia & Ea).
      assert (Ia' : In a (from B bs')).
      { apply filter_In in Ia. destruct Ia as [Ia La]. apply filter_In. split; [apply in_or_app; left; exact Ia | exact La]. }
      assert (K' : In (e5 y) (map e5 (aggregate d (from B bs')))) by (apply (aggregate_keys d _ (from_sorted B bs' bs'_sorted)); eauto).
      apply in_map_iff in K'. destruct K' as (z & Ez & Iz). eauto.
  - (* the cache *)
    destruct (Z.eqb_spec d U) as [E|E]; [|reflexivity]. subst d. unfold new_cache. f_equal. f_equal.
    apply slice_CS; [exact P | exact Du | unfold S0; apply trunc_mono, (head_min _ tail_in)|].
    exists (last w r0). split; [apply last_in_CS | apply trunc_le].
Qed.

Lemma write_all_ok ds : (forall d, In d ds -> In d dests) -> forall k,
  write_all U ds CS head tail (map (fun d => aggregate d bs) ds) k
  = (map (fun d => aggregate d bs') ds, if existsb (fun d => d =? U) ds then Some new_cache else k).
Proof.
  induction ds as [|d ds IH]; intros F k; cbn [write_all map existsb]; [reflexivity|].
  rewrite (write_aggregates_ok d (F d (or_introl eq_refl))).
  rewrite IH by (intros x I; apply F; right; exact I).
  destruct (d =? U); cbn [orb]; [|reflexivity].
  destruct (existsb (fun d0 => d0 =? U) ds); reflexivity.
Qed.

Lemma U_exists : existsb (fun d => d =? U) dests = true.
Proof.
  apply existsb_exists. exists U. split; [apply upper_bound_in, Hd | apply Z.eqb_refl].
Qed.

Lemma new_cache_ok : cache_ok U bs' (Some new_cache).
Proof.
  exists tail. split; [exists (last w r0); split; [apply in_or_app; right; apply tail_in | reflexivity]|].
  split; [apply bs'_le_tail|]. repeat split; reflexivity.
Qed.

(** one write followed by the fire preserves the invariant *)
Theorem step_inv st : base st = bs -> inv dests st -> inv dests (step dests st w).
Proof.
  intros Eb [I1 I2 I3]. rewrite Eb in *.
  unfold step. rewrite Hw. rewrite <- Hw. unfold fire. rewrite Hw. rewrite <- Hw.
  cbn [base dest kache]. rewrite Eb, put_all_bs. fold U. fold head. fold tail. fold S0.
  assert (Q : forall k, (let '(ds, k') := write_all U dests (query bs' S0 (ceil_s U tail - 1)) head tail (dest st) k in
                         {| base := bs'; dest := ds; kache := k' |})
                        = {| base := bs'; dest := map (fun d => aggregate d bs') dests; kache := Some new_cache |}).
  { intros k. rewrite branch_query, I2, write_all_ok by auto. rewrite U_exists. reflexivity. }
  assert (R : inv dests {| base := bs'; dest := map (fun d => aggregate d bs') dests; kache := Some new_cache |}).
  { constructor; cbn [base dest kache]; [apply bs'_sorted | reflexivity | apply new_cache_ok]. }
  destruct (kache st) as [c|] eqn:Ek.
  - destruct ((k_tail c <=? tail) && (head <=? k_head c)) eqn:V.
    + rewrite (branch_cache c I3 V), I2, write_all_ok by auto. rewrite U_exists. exact R.
    + rewrite Q. exact R.
  - rewrite Q. exact R.
Qed.

End Step.

(** ------------------------------------------------------------------ whole histories *)
Fixpoint hist_ok (u : Z) (bs : list bar5) (h : list (list bar5)) : Prop :=
  match h with
  | [] => True
  | w :: r => write_ok u bs w /\ hist_ok u (put_all bs w) r
  end.

Lemma inv_init dests : inv dests (init dests).
Proof.
  constructor; cbn [init base dest kache]; [exact I | | exact I].
  apply map_ext. intros d. reflexivity.
Qed.

Theorem run_inv u dests : 1 < u -> (u | abs_epoch_s) -> dests_ok u dests ->
  forall h st, inv dests st -> hist_ok u (base st) h -> inv dests (fold_left (step dests) h st).
Proof.
  intros Hu Hua Hd. induction h as [|w h IH]; intros st I H; cbn [fold_left]; [exact I|].
  destruct H as [Wok Hr]. destruct w as [|r0 wr] eqn:Ew; [destruct Wok as [N _]; congruence|].
  assert (I' : inv dests (step dests st (r0 :: wr))).
  { apply (step_inv u dests Hu Hua Hd (base st) (r0 :: wr) r0 wr eq_refl (inv_sorted _ _ I) Wok st eq_refl I). }
  apply IH; [exact I'|].
  assert (Eb : base (step dests st (r0 :: wr)) = put_all (base st) (r0 :: wr)).
  { unfold step, fire. cbn [base kache dest].
    destruct (kache st) as [c|]; [destruct (_ && _)|];
      repeat match goal with |- context [let '(a, b) := ?X in _] => destruct X end; reflexivity. }
  rewrite Eb. exact Hr.
Qed.

(** the guarded theorem: after the whole history every destination store is the aggregation of the base store *)
Theorem guarded u dests h : 1 < u -> (u | abs_epoch_s) -> dests_ok u dests -> hist_ok u [] h ->
  let st := run dests h in
  dest st = map (fun d => aggregate d (base st)) dests /\ sorted (base st).
Proof.
  intros Hu Hua Hd H. cbv zeta. unfold run.
  destruct (run_inv u dests Hu Hua Hd h (init dests) (inv_init dests) H) as [I1 I2 _]. split; assumption.
Qed.

(** ------------------------------------------------------------------ what one aggregated bar holds *)
Require Import MS.Proofs.Uda_facts.

Theorem agg_bar_spec w x g :
  let B := agg_bar w x g in
  e5 B = w /\ o5 B = o5 x /\ c5 B = c5 (last (x :: g) x)
  /\ h5 B = m_val (fold_ext max_step (map h5 (x :: g)))
  /\ l5 B = m_val (fold_ext min_step (map l5 (x :: g)))
  /\ v5 B = fold_left f32_add (map v5 (x :: g)) f32_zero
  /\ (f32_nonan (map h5 (x :: g)) = true -> is_max (h5 B) (map h5 (x :: g)))
  /\ (f32_nonan (map l5 (x :: g)) = true -> is_min (l5 B) (map l5 (x :: g))).
Proof.
  cbv zeta. cbn [agg_bar e5 o5 c5 h5 l5 v5].
  split; [reflexivity|]. split; [reflexivity|]. split; [destruct g; reflexivity|].
  split; [reflexivity|]. split; [reflexivity|]. split; [reflexivity|]. split.
  - intros Hn. destruct (max_fold_is_max (map h5 (x :: g))) as [_ M]; [discriminate | exact Hn | exact M].
  - intros Hn. destruct (min_fold_is_min (map l5 (x :: g))) as [_ M]; [discriminate | exact Hn | exact M].
Qed.

(** ------------------------------------------------------------------ boolean guards and observations *)
Definition bar_bits (b : bar5) : list Z :=
  [e5 b; f32_bits (o5 b); f32_bits (h5 b); f32_bits (l5 b); f32_bits (c5 b); f32_bits (v5 b)].

Fixpoint zl_eqb (a b : list Z) : bool :=
  match a, b with [], [] => true | x :: a', y :: b' => (x =? y) && zl_eqb a' b' | _, _ => false end.
Fixpoint zll_eqb (a b : list (list Z)) : bool :=
  match a, b with [], [] => true | x :: a', y :: b' => zl_eqb x y && zll_eqb a' b' | _, _ => false end.
Fixpoint stores_match (dests : list Z) (bs : list bar5) (stores : list (list bar5)) : bool :=
  match dests, stores with
  | [], [] => true
  | d :: dr, s :: sr => zll_eqb (map bar_bits s) (map bar_bits (aggregate d bs)) && stores_match dr bs sr
  | _, _ => false
  end.

(** the property on a final state: every destination = aggregation of the base *)
Definition dest_matches (dests : list Z) (st : state) : bool := stores_match dests (base st) (dest st).

Lemma zl_eqb_refl a : zl_eqb a a = true.
Proof. induction a as [|x a IH]; cbn [zl_eqb]; [reflexivity|]. rewrite Z.eqb_refl, IH. reflexivity. Qed.
Lemma zll_eqb_refl a : zll_eqb a a = true.
Proof. induction a as [|x a IH]; cbn [zll_eqb]; [reflexivity|]. rewrite zl_eqb_refl, IH. reflexivity. Qed.

Lemma stores_match_refl dests bs : stores_match dests bs (map (fun d => aggregate d bs) dests) = true.
Proof. induction dests as [|d r IH]; cbn [stores_match map]; [reflexivity|]. rewrite zll_eqb_refl, IH. reflexivity. Qed.

Definition dests_okb (u : Z) (dests : list Z) : bool :=
  negb (match dests with [] => true | _ => false end)
  && forallb (fun d => (0 <? d) && (d mod u =? 0) && (upper_bound dests mod d =? 0)) dests.

Lemma dests_okb_sound u dests : dests_okb u dests = true -> dests_ok u dests.
Proof.
  intros H. unfold dests_okb in H. apply andb_true_iff in H. destruct H as [H1 H2].
  assert (N : dests <> []) by (destruct dests; [discriminate H1 | discriminate]).
  rewrite forallb_forall in H2.
  assert (PU : 0 < upper_bound dests).
  { specialize (H2 _ (upper_bound_in dests N)). rewrite !andb_true_iff, Z.ltb_lt in H2. apply H2. }
  split; [exact N|]. intros d I. specialize (H2 d I).
  rewrite !andb_true_iff, Z.ltb_lt, !Z.eqb_eq in H2. destruct H2 as [[P M1] M2].
  split; [exact P|]. split.
  - exists (d / u). pose proof (Z_div_mod_eq_full d u). lia.
  - exists (upper_bound dests / d). pose proof (Z_div_mod_eq_full (upper_bound dests) d) as E. rewrite M2 in E.
    split; [|lia]. destruct (Z_lt_le_dec 0 (upper_bound dests / d)) as [Q|Q]; [exact Q|]. exfalso. nia.
Qed.

Fixpoint sortedb (l : list bar5) : bool :=
  match l with
  | a :: ((b :: _) as r) => (e5 a <? e5 b) && sortedb r
  | _ => true
  end.

Lemma sortedb_sound l : sortedb l = true -> sorted l.
Proof.
  induction l as [|a l IH]; [intros _; exact I|]. destruct l as [|b r]; [intros _; exact I|].
  cbn [sortedb sorted]. rewrite andb_true_iff, Z.ltb_lt. intros [H1 H2]. split; [exact H1 | apply IH, H2].
Qed.

Definition dummy_bar : bar5 := {| e5 := 0; o5 := f32_zero; h5 := f32_zero; l5 := f32_zero; c5 := f32_zero; v5 := f32_zero |}.

(** the guard of the theorem as a boolean: every write non-empty, in time order, aligned to [u], and wholly
    after everything written before (append-only, in order) *)
Fixpoint hist_okb (u : Z) (mx : option Z) (h : list (list bar5)) : bool :=
  match h with
  | [] => true
  | w :: r =>
      negb (match w with [] => true | _ => false end) && sortedb w && forallb (fun b => e5 b mod u =? 0) w
      && (match mx with None => true | Some L => forallb (fun b => L <? e5 b) w end)
      && hist_okb u (Some (e5 (last w dummy_bar))) r
  end.

Lemma hist_okb_sound u : forall h mx bs,
  (match mx with None => bs = [] | Some L => forall b, In b bs -> e5 b <= L end) ->
  hist_okb u mx h = true -> hist_ok u bs h.
Proof.
  induction h as [|w h IH]; intros mx bs R H; cbn [hist_ok]; [exact I|].
  cbn [hist_okb] in H. rewrite !andb_true_iff in H. destruct H as [[[[H1 H2] H3] H4] H5].
  assert (Nw : w <> []) by (destruct w; [discriminate H1 | discriminate]).
  assert (Sw : sorted w) by (apply sortedb_sound, H2).
  assert (Aw : forall b, In b w -> (u | e5 b)).
  { intros b I. rewrite forallb_forall in H3. specialize (H3 b I). apply Z.eqb_eq in H3.
    exists (e5 b / u). pose proof (Z_div_mod_eq_full (e5 b) u). lia. }
  assert (Lw : forall x y, In x bs -> In y w -> e5 x < e5 y).
  { intros x y Ix Iy. destruct mx as [L|]; [|subst bs; destruct Ix].
    rewrite forallb_forall in H4. specialize (H4 y Iy). apply Z.ltb_lt in H4. specialize (R x Ix). lia. }
  split; [repeat split; assumption|].
  apply (IH (Some (e5 (last w dummy_bar)))); [|exact H5].
  intros b I. rewrite (put_all_append bs w Sw Lw) in I. apply in_app_or in I. destruct I as [I|I].
  - pose proof (Lw b (last w dummy_bar) I (last_in w dummy_bar Nw)). lia.
  - apply sorted_last_max; assumption.
Qed.

(** all writes non-empty, in time order and aligned (no condition across writes) *)
Definition writes_wfb (u : Z) (h : list (list bar5)) : bool :=
  forallb (fun w => negb (match w with [] => true | _ => false end) && sortedb w && forallb (fun b => e5 b mod u =? 0) w) h.

Fixpoint nodupb (l : list Z) : bool :=
  match l with [] => true | a :: r => negb (existsb (Z.eqb a) r) && nodupb r end.
(** no bar is ever rewritten *)
Definition no_rewriteb (h : list (list bar5)) : bool := nodupb (map e5 (concat h)).
