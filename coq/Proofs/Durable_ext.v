(** Proofs/Durable_ext.v — bucket / year-file creation: the catalog calls that precede a flush only add
    fresh, empty files; every statement about the existing files survives ([ext]).  Also the boolean
    well-formedness checks of a schedule step ([pre_okb], [cmds_okb]) with their specifications. *)
From Coq Require Import ZArith NArith List Bool Lia Permutation.
From Coq.Strings Require Import Byte.
Import ListNotations.
Require Import MS.Base.Res MS.Generated.Src_durab MS.Model.Wal MS.Model.Replay
  MS.Proofs.Durable_wal MS.Proofs.Durable_files MS.Proofs.Durable_exec MS.Proofs.Durable_flush
  MS.Proofs.Durable_recover MS.Proofs.Durable_sem.
Local Open Scope Z_scope.

(** [fs'] is [fs] plus files that are new and empty *)
Definition fresh_file (pf : pfile) : Prop :=
  pf = PNew \/ exists k sz, 0 < sz /\ pf = empty_file k sz.

Definition ext (fs fs' : files) : Prop :=
  forall f, match alookup f fs with
            | Some pf => alookup f fs' = Some pf
            | None => alookup f fs' = None \/ exists pf, alookup f fs' = Some pf /\ fresh_file pf
            end.

Lemma ext_refl fs : ext fs fs.
Proof. intros f. destruct (alookup f fs); [reflexivity|left; reflexivity]. Qed.

Lemma ext_set fs fs' f pf :
  ext fs fs' -> alookup f fs = None -> fresh_file pf -> ext fs (ainsert f pf fs').
Proof.
  intros He Hn Hf g. specialize (He g). destruct (N.eq_dec g f) as [->|Hne].
  - rewrite Hn. right. exists pf. split; [apply alookup_ainsert_same|assumption].
  - rewrite alookup_ainsert_other by assumption. exact He.
Qed.

Lemma fresh_views pf off slot :
  fresh_file pf ->
  (match pf with PF ws => zlookup off ws | _ => None end) = None
  /\ (match pf with PV s ix eof bl => content_of ix eof bl slot | _ => [] end) = []
  /\ (forall s ix eof bl, pf = PV s ix eof bl -> vinv s ix eof bl).
Proof.
  intros [->|(k & sz & Hsz & ->)]; [repeat split; intros; discriminate|].
  destruct k; cbn [empty_file].
  - repeat split; intros; discriminate.
  - split; [reflexivity|]. split; [reflexivity|]. intros s ix eof bl E. inversion E; subst.
    constructor.
    + lia.
    + intros slot' i o l Et _. cbn in Et. inversion Et. auto.
    + intros slot' i o l Et Hi. cbn in Et. inversion Et. congruence.
    + intros s1 s2 i o l i' l' Et _ Hi. cbn in Et. inversion Et. congruence.
Qed.

(** lookups of files that exist in [fs] are unchanged *)
Lemma ext_fkind fs fs' f k : ext fs fs' -> fkind fs f = Some k -> fkind fs' f = Some k.
Proof. intros He. specialize (He f). unfold fkind. destruct (alookup f fs); [rewrite He; auto|discriminate]. Qed.

Lemma ext_cmd_ok fs fs' c : ext fs fs' -> cmd_ok fs c -> cmd_ok fs' c.
Proof.
  intros He [Hk Hv]. pose proof (He (c_fid c)) as H. unfold cmd_ok, fkind, fsize0 in *.
  destruct (alookup (c_fid c) fs); [rewrite H; auto|discriminate].
Qed.

Lemma ext_all_ok fs fs' cs : ext fs fs' -> all_ok fs cs -> all_ok fs' cs.
Proof. intros He. apply Forall_impl. intros c. apply ext_cmd_ok, He. Qed.

(** a command that is well formed for [fs] does not address a file that [fs] lacks *)
Lemma ok_not_fresh fs cs f : all_ok fs cs -> alookup f fs = None -> forall c, In c cs -> c_fid c <> f.
Proof.
  intros Hok Hn c Hin E. unfold all_ok in Hok. rewrite Forall_forall in Hok.
  destruct (Hok c Hin) as [Hk _]. unfold fkind in Hk. rewrite E, Hn in Hk. discriminate.
Qed.

Lemma lastw_no_file cs f off : (forall c, In c cs -> c_fid c <> f) -> lastw cs f off = None.
Proof.
  intros H. apply lastw_none_iff. intros c Hin. destruct (hits c f off) eqn:E; [|reflexivity].
  apply hits_file in E. exfalso. eapply H; eassumption.
Qed.

Lemma ct_after_no_file cs base f slot : (forall c, In c cs -> c_fid c <> f) -> ct_after cs base f slot = base.
Proof.
  unfold ct_after. revert base. induction cs as [|c cs IH]; intros base H; [reflexivity|].
  cbn [fold_left]. destruct (vhits c f slot) eqn:E.
  - apply vhits_file in E. exfalso. eapply H; [left; reflexivity|exact E].
  - apply IH. intros; apply H; right; assumption.
Qed.

Section WithClen.
  Variable clen : list record -> Z.

  Lemma ext_FClean fs fs' tgs : ext fs fs' -> FClean fs tgs -> FClean fs' tgs.
  Proof.
    intros He [Hv Hok Hfx Hct]. constructor.
    - intros f s ix eof bl Hl. specialize (He f). destruct (alookup f fs) as [pf|] eqn:E.
      + rewrite He in Hl. inversion Hl; subst. eapply Hv; eassumption.
      + destruct He as [He|(pf & He & Hf)]; [congruence|]. rewrite He in Hl. inversion Hl; subst.
        destruct (fresh_views _ 0 0 Hf) as (_ & _ & H). apply H. reflexivity.
    - eapply ext_all_ok; eassumption.
    - intros f off. rewrite <- Hfx. unfold fx_get. specialize (He f). destruct (alookup f fs) as [pf|] eqn:E.
      + rewrite He. reflexivity.
      + destruct He as [->|(pf & -> & Hf)]; [reflexivity|].
        destruct (fresh_views _ off 0 Hf) as (H & _). destruct pf; try reflexivity. exact H.
    - intros f slot. rewrite <- Hct. unfold content. specialize (He f). destruct (alookup f fs) as [pf|] eqn:E.
      + rewrite He. reflexivity.
      + destruct He as [->|(pf & -> & Hf)]; [reflexivity|].
        destruct (fresh_views _ 0 slot Hf) as (_ & H & _). destruct pf; try reflexivity. exact H.
  Qed.
End WithClen.

(* ------------------------------------------------------------------ the catalog calls before a flush *)

(** [pre] = category-file calls, and creation triples (creat, header write, ftruncate) of files that do
    not exist yet; [dom] lists the files that exist *)
Fixpoint pre_okb (dom : list fid) (pre : list event) : bool :=
  match pre with
  | [] => true
  | ECat :: r => pre_okb dom r
  | EFileNew f :: EFileHdr f' k :: ECreate f'' k' size :: r =>
      N.eqb f f' && N.eqb f f'' && rkind_eqb k k' && (Headersize <=? size)
      && negb (existsb (N.eqb f) dom) && pre_okb (f :: dom) r
  | _ => false
  end.

Definition covers (dom : list fid) (fs : files) : Prop := forall f, alookup f fs <> None -> In f dom.

Lemma covers_dom fs : covers (map fst fs) fs.
Proof.
  intros f H. induction fs as [|[k v] fs IH]; cbn [alookup] in H; [congruence|].
  cbn [map fst]. destruct (N.eqb_spec f k); [left; congruence|right; apply IH, H].
Qed.

Lemma rkind_eqb_eq a b : rkind_eqb a b = true -> a = b.
Proof. destruct a, b; cbn; congruence. Qed.

Lemma pre_okb_is_cat pre : forall dom, pre_okb dom pre = true -> forallb is_cat pre = true.
Proof.
  induction pre as [pre IH] using (well_founded_induction (Wf_nat.well_founded_ltof _ (@length event))).
  intros dom H. destruct pre as [|e r]; [reflexivity|].
  destruct e; try discriminate.
  - cbn [pre_okb] in H. cbn [forallb is_cat andb]. eapply IH; [unfold Wf_nat.ltof; cbn; lia|exact H].
  - destruct r as [|e1 r]; [discriminate|]. destruct e1; try discriminate.
    destruct r as [|e2 r]; [discriminate|]. destruct e2; try discriminate.
    cbn [pre_okb] in H. repeat (apply andb_prop in H as [H ?]).
    cbn [forallb is_cat andb]. eapply IH; [unfold Wf_nat.ltof; cbn; lia|eassumption].
Qed.

Lemma is_cat_is_pre es : forallb is_cat es = true -> forallb is_pre es = true.
Proof.
  induction es as [|e es IH]; [reflexivity|]. cbn [forallb]. intros H. apply andb_prop in H as [H1 H2].
  unfold is_pre at 1. rewrite H1, (IH H2). reflexivity.
Qed.
Lemma pre_okb_is_pre pre dom : pre_okb dom pre = true -> forallb is_pre pre = true.
Proof. intros H. apply is_cat_is_pre, (pre_okb_is_cat _ _ H). Qed.


Lemma headersize_pos : 0 < Headersize. Proof. reflexivity. Qed.

(** no file is left without a header *)
Definition no_pnew (fs : files) : Prop := forall f, alookup f fs <> Some PNew.

(** every prefix of [pre] extends the files by fresh empty files; the whole of it leaves no file
    without a header *)
Lemma pre_prefix pre : forall dom fs fs0 j,
  pre_okb dom pre = true -> covers dom fs -> ext fs0 fs ->
  ext fs0 (fapplys fs (firstn j pre)).
Proof.
  induction pre as [pre IH] using (well_founded_induction (Wf_nat.well_founded_ltof _ (@length event))).
  intros dom fs fs0 j H Hc He. destruct pre as [|e r]; [rewrite firstn_nil; exact He|].
  destruct j as [|j]; [exact He|].
  destruct e; try discriminate.
  - cbn [pre_okb] in H. cbn [firstn fapplys fold_left fapply]. eapply IH; [unfold Wf_nat.ltof; cbn; lia|eassumption..].
  - destruct r as [|e1 r]; [discriminate|]. destruct e1; try discriminate.
    destruct r as [|e2 r]; [discriminate|]. destruct e2; try discriminate.
    cbn [pre_okb] in H. apply andb_prop in H as [H Hr]. apply andb_prop in H as [H Hnd].
    apply andb_prop in H as [H Hsz]. apply andb_prop in H as [H Hk]. apply andb_prop in H as [H1 H2].
    apply N.eqb_eq in H1, H2. subst f0 f1. apply rkind_eqb_eq in Hk. subst k0. apply Z.leb_le in Hsz.
    apply negb_true_iff in Hnd.
    assert (Ef : alookup f fs = None).
    { destruct (alookup f fs) eqn:E; [|reflexivity]. exfalso.
      assert (In f dom) by (apply Hc; congruence).
      assert (existsb (N.eqb f) dom = true) by (apply existsb_N_in; assumption). congruence. }
    assert (Hf0 : alookup f fs0 = None).
    { specialize (He f). destruct (alookup f fs0); [congruence|reflexivity]. }
    pose proof headersize_pos as Hp.
    assert (E1 : ext fs0 (ainsert f PNew fs)) by (apply ext_set; [assumption..|left; reflexivity]).
    assert (E2 : ext fs0 (ainsert f (empty_file k Headersize) (ainsert f PNew fs))).
    { apply ext_set; [assumption..|]. right. exists k, Headersize. split; [assumption|reflexivity]. }
    cbn [firstn fapplys fold_left fapply]. destruct j as [|j]; [exact E1|].
    cbn [firstn fold_left fapply]. destruct j as [|j]; [exact E2|].
    cbn [firstn fold_left fapply].
    set (fs3 := ainsert f (empty_file k size) (ainsert f (empty_file k Headersize) (ainsert f PNew fs))).
    assert (E3 : ext fs0 fs3).
    { apply ext_set; [assumption..|]. right. exists k, size. split; [lia|reflexivity]. }
    fold (fapplys fs3 (firstn j r)).
    eapply IH; [unfold Wf_nat.ltof; cbn; lia|exact Hr| |exact E3].
    intros g Hg. unfold fs3 in Hg. destruct (N.eq_dec g f) as [->|Hne]; [left; reflexivity|].
    rewrite !alookup_ainsert_other in Hg by assumption. right. apply Hc, Hg.
Qed.

Lemma no_pnew_write fs e : is_write e = true -> no_pnew fs -> no_pnew (fapply fs e).
Proof.
  intros Hw Hn f. destruct e; try discriminate; cbn [fapply];
    (destruct (N.eq_dec f f0) as [->|Hne];
     [rewrite alookup_aupdate_same; specialize (Hn f0); destruct (alookup f0 fs) as [[| |]|]; cbn; congruence
     |rewrite alookup_aupdate_other by assumption; apply Hn]).
Qed.

Lemma no_pnew_writes es : forall fs, forallb is_write es = true -> no_pnew fs -> no_pnew (fapplys fs es).
Proof.
  induction es as [|e es IH]; intros fs H Hn; [exact Hn|].
  cbn [forallb] in H. apply andb_prop in H as [H1 H2]. cbn [fapplys fold_left].
  apply IH; [assumption|]. apply no_pnew_write; assumption.
Qed.

Lemma pre_full_no_pnew pre : forall dom fs, pre_okb dom pre = true -> no_pnew fs -> no_pnew (fapplys fs pre).
Proof.
  induction pre as [pre IH] using (well_founded_induction (Wf_nat.well_founded_ltof _ (@length event))).
  intros dom fs H Hn. destruct pre as [|e r]; [exact Hn|]. destruct e; try discriminate.
  - cbn [pre_okb] in H. cbn [fapplys fold_left fapply]. eapply IH; [unfold Wf_nat.ltof; cbn; lia|eassumption..].
  - destruct r as [|e1 r]; [discriminate|]. destruct e1; try discriminate.
    destruct r as [|e2 r]; [discriminate|]. destruct e2; try discriminate.
    cbn [pre_okb] in H. apply andb_prop in H as [H Hr]. apply andb_prop in H as [H Hnd].
    apply andb_prop in H as [H Hsz]. apply andb_prop in H as [H Hk]. apply andb_prop in H as [H1 H2].
    apply N.eqb_eq in H1, H2. subst f0 f1.
    cbn [fapplys fold_left fapply].
    set (fs3 := ainsert f (empty_file k0 size) (ainsert f (empty_file k Headersize) (ainsert f PNew fs))).
    fold (fapplys fs3 r). eapply IH; [unfold Wf_nat.ltof; cbn; lia|exact Hr|].
    intros g. unfold fs3. destruct (N.eq_dec g f) as [->|Hne].
    + rewrite alookup_ainsert_same. destruct k0; discriminate.
    + rewrite !alookup_ainsert_other by assumption. apply Hn.
Qed.

(* ------------------------------------------------------------------ boolean check of commands *)

Definition cmd_okb (fs : files) (c : cmd) : bool :=
  (0 <=? c_meta c) &&
  match alookup (c_fid c) fs, c_kind c with
  | Some (PF _), KFixed => true
  | Some (PV s _ _ _), KVar => negb (c_index c =? 0) && (0 <=? c_off c) && (c_off c <? s)
  | _, _ => false
  end.

Lemma cmd_okb_spec fs c : cmd_okb fs c = true -> cmd_ok fs c /\ 0 <= c_meta c.
Proof.
  unfold cmd_okb, cmd_ok, fkind, fsize0. intros H. apply andb_prop in H as [Hm H]. apply Z.leb_le in Hm.
  destruct (alookup (c_fid c) fs) as [[| ws | s ix eof bl]|]; try discriminate; destruct (c_kind c); try discriminate.
  - split; [|assumption]. split; [reflexivity|discriminate].
  - apply andb_prop in H as [H H3]. apply andb_prop in H as [H1 H2].
    apply negb_true_iff, Z.eqb_neq in H1. apply Z.leb_le in H2. apply Z.ltb_lt in H3.
    split; [|assumption]. split; [reflexivity|]. intros _. split; [assumption|lia].
Qed.

Lemma cmds_okb_spec fs cs : forallb (cmd_okb fs) cs = true -> all_ok fs cs /\ meta_ok cs.
Proof.
  induction cs as [|c cs IH]; intros H; [split; constructor|].
  cbn [forallb] in H. apply andb_prop in H as [H1 H2]. destruct (cmd_okb_spec _ _ H1). destruct (IH H2).
  split; constructor; assumption.
Qed.
