(** Facts for C12: the forward / backward limited scans of Model/FStore.v return the first / last N
    rows of the unlimited scan, and for variable buckets (Model/VRead.v) the same holds after the
    range trim under [guard_var]. *)
From Coq Require Import ZArith List Bool Lia Arith.
From Coq.Strings Require Import Byte.
Import ListNotations.
Require Import MS.Base.GoInt MS.Base.Res MS.Model.UTime MS.Model.FStore MS.Model.VRead.

(** * list lemmas *)
Lemma lastn_all {B} n (l : list B) : (length l <= n)%nat -> lastn n l = l.
Proof. intros H. unfold lastn. replace (length l - n)%nat with 0%nat by lia. reflexivity. Qed.

Lemma lastn_app_le {B} n (x f : list B) : (n <= length f)%nat -> lastn n (x ++ f) = lastn n f.
Proof.
  intros H. unfold lastn. rewrite app_length, skipn_app.
  rewrite skipn_all2 by lia. cbn. f_equal. lia.
Qed.

Lemma lastn_app_gt {B} n (x f : list B) : (length f < n)%nat -> lastn n (x ++ f) = lastn (n - length f) x ++ f.
Proof.
  intros H. unfold lastn. rewrite app_length, skipn_app.
  replace (length x + length f - n - length x)%nat with 0%nat by lia. cbn. f_equal. f_equal. lia.
Qed.

Lemma lastn_length {B} n (l : list B) : length (lastn n l) = Nat.min n (length l).
Proof. unfold lastn. rewrite skipn_length. lia. Qed.

Lemma firstn_app_le {B} n (p q : list B) : (n <= length p)%nat -> firstn n (p ++ q) = firstn n p.
Proof.
  intros H. rewrite firstn_app. replace (n - length p)%nat with 0%nat by lia. cbn. apply app_nil_r.
Qed.

Section Scan.
Context {A : Type}.

Lemma fwd_spec n : forall (files : list (list (Z * A))) acc, (length acc < n)%nat ->
  fwd n acc files = firstn n (acc ++ concat files).
Proof.
  induction files as [|f r IH]; intros acc Hlt; cbn [fwd concat].
  - rewrite app_nil_r. symmetry. apply firstn_all2. lia.
  - destruct (Nat.leb_spec n (length (acc ++ f))) as [Hle|Hgt].
    + rewrite app_assoc. symmetry. apply firstn_app_le. assumption.
    + rewrite IH by assumption. rewrite app_assoc. reflexivity.
Qed.

Lemma fwd_firstn n (files : list (list (Z * A))) : fwd n [] files = firstn n (concat files).
Proof.
  destruct n as [|n].
  - destruct files; reflexivity.
  - apply (fwd_spec (S n) files []). cbn. lia.
Qed.

Lemma bwd_spec : forall (fd : list (list (Z * A))) left acc,
  bwd left acc fd = lastn left (concat (rev fd)) ++ acc.
Proof.
  induction fd as [|f r IH]; intros left acc; cbn [bwd rev].
  - reflexivity.
  - rewrite concat_app. cbn [concat]. rewrite app_nil_r.
    destruct (Nat.ltb_spec (length f) left) as [Hlt|Hge].
    + rewrite IH. rewrite lastn_app_gt by assumption. rewrite <- app_assoc. reflexivity.
    + rewrite lastn_app_le by assumption. reflexivity.
Qed.

Lemma bwd_lastn n (files : list (list (Z * A))) : bwd n [] (rev files) = lastn n (concat files).
Proof. rewrite bwd_spec, rev_involutive, app_nil_r. reflexivity. Qed.

Definition lim_of {B} (d : dir) (n : nat) (l : list B) : list B :=
  match d with First => firstn n l | Last => lastn n l end.

(** the limited slot scan = first / last N slots of the unlimited scan — for EVERY store, range and N *)
Theorem query_limit tfs recLen (st : storeA A) rs re d n :
  (2 <= recLen)%Z -> (1 <= n)%Z -> (recLen * n < 2147483648)%Z ->
  query tfs recLen st rs re (Some (d, n))
  = match query tfs recLen st rs re None with
    | Ok l => Ok (lim_of d (Z.to_nat n) l)
    | r => r
    end.
Proof.
  intros Hr Hn Hb. unfold query. destruct (s_years st) as [|y ys]; [reflexivity|].
  assert (Hn32 : wrap I32 n = n).
  { apply wrap_small. unfold in_ity, ity_min, ity_max; cbn. nia. }
  rewrite Hn32.
  assert (Hne : (n =? max_int32)%Z = false) by (apply Z.eqb_neq; unfold max_int32; nia).
  rewrite Hne.
  assert (Hlb : wrap I32 (recLen * n) = (recLen * n)%Z).
  { apply wrap_small. unfold in_ity, ity_min, ity_max; cbn. nia. }
  rewrite Hlb.
  assert (Hpos : (recLen * n <? 0)%Z = false) by (apply Z.ltb_ge; nia).
  rewrite Hpos.
  assert (Hdiv : (recLen * n / recLen)%Z = n) by (rewrite Z.mul_comm; apply Z.div_mul; lia).
  rewrite Hdiv. destruct d; cbn [lim_of].
  - rewrite fwd_firstn. reflexivity.
  - rewrite bwd_lastn. reflexivity.
Qed.

Lemma nrecords_eff_same req n : (0 < req)%Z -> nrecords_eff req req n = n.
Proof. intros H. unfold nrecords_eff. rewrite Z.div_same by lia. lia. Qed.

Theorem exec_fixed_limit tfs recLen (st : storeA A) req rs re d n :
  queryable_tfs req = req -> (0 < req)%Z ->
  (2 <= recLen)%Z -> (1 <= n)%Z -> (recLen * n < 2147483648)%Z ->
  exec_fixed tfs recLen st req rs re (Some (d, n))
  = match exec_fixed tfs recLen st req rs re None with
    | Ok l => Ok (lim_of d (Z.to_nat n) l)
    | r => r
    end.
Proof.
  intros Hq Hreq Hr Hn Hb. unfold exec_fixed. rewrite Hq.
  destruct (req =? tfs)%Z; [|reflexivity].
  cbn [eff_limit]. rewrite nrecords_eff_same by assumption. apply query_limit; assumption.
Qed.
End Scan.

(** * variable buckets: the range trim after an interval-counting limit *)
Local Open Scope Z_scope.

Lemma tle_trans a b c : tle a b = true -> tle b c = true -> tle a c = true.
Proof.
  unfold tle. rewrite !orb_true_iff, !andb_true_iff, !Z.ltb_lt, !Z.eqb_eq, !Z.leb_le. lia.
Qed.

Lemma time_sorted_tail r l : time_sorted (r :: l) = true -> time_sorted l = true.
Proof. cbn. rewrite andb_true_iff. tauto. Qed.

Lemma time_sorted_head_le : forall l r x, time_sorted (r :: l) = true -> In x l -> tle (vtime r) (vtime x) = true.
Proof.
  induction l as [|r' l IH]; intros r x Hs Hin; [contradiction|].
  cbn in Hs. apply andb_prop in Hs as [H1 H2].
  destruct Hin as [<-|Hin]; [assumption|].
  eapply tle_trans; [exact H1|]. apply IH; assumption.
Qed.

Lemma time_sorted_app_r p q : time_sorted (p ++ q) = true -> time_sorted q = true.
Proof.
  induction p as [|r p IH]; intros H; [assumption|]. apply IH. eapply time_sorted_tail. exact H.
Qed.

Lemma drop_before_all_ge s l : all_ge s l = true -> drop_before s l = l.
Proof.
  destruct l as [|r l]; [reflexivity|]. cbn. intros H. apply andb_prop in H as [H _]. rewrite H. reflexivity.
Qed.

(** on time-ordered records the cut after the last record <= e is a takeWhile *)
Fixpoint take_le (e : Z * Z) (l : list vrec) : list vrec :=
  match l with
  | [] => []
  | r :: rest => if tle (vtime r) e then r :: take_le e rest else []
  end.

Lemma cut_end_sorted e : forall l, time_sorted l = true ->
  cut_end e l = match l with
                | [] => None
                | r :: _ => if tle (vtime r) e then Some (take_le e l) else None
                end.
Proof.
  induction l as [|r rest IH]; intros Hs; [reflexivity|].
  cbn [cut_end]. rewrite IH by (eapply time_sorted_tail; exact Hs).
  destruct rest as [|r' rest'].
  - cbn. destruct (tle (vtime r) e); reflexivity.
  - cbn in Hs. apply andb_prop in Hs as [H1 _].
    destruct (tle (vtime r') e) eqn:E'.
    + assert (Hr : tle (vtime r) e = true) by (eapply tle_trans; eassumption).
      cbn [take_le]. rewrite Hr, E'. reflexivity.
    + cbn [take_le]. rewrite E'. destruct (tle (vtime r) e); reflexivity.
Qed.

Lemma cut_end_sorted_cons e h l : time_sorted (h :: l) = true ->
  cut_end e (h :: l) = if tle (vtime h) e then Some (take_le e (h :: l)) else None.
Proof. intros H. apply (cut_end_sorted e (h :: l) H). Qed.

Lemma take_le_app e p q :
  take_le e (p ++ q) = if forallb (fun r => tle (vtime r) e) p then p ++ take_le e q else take_le e p.
Proof.
  induction p as [|r p IH]; [reflexivity|]. cbn. destruct (tle (vtime r) e); [|reflexivity].
  rewrite IH. cbn. destruct (forallb _ p); reflexivity.
Qed.

Lemma take_le_all e : forall p, forallb (fun r => tle (vtime r) e) p = true -> take_le e p = p.
Proof.
  induction p as [|r p IH]; [reflexivity|]. cbn. intros H. apply andb_prop in H as [H1 H2].
  rewrite H1, IH by assumption. reflexivity.
Qed.

(** the end part of trimResultsToRange *)
Definition etrim (e : option (Z * Z)) (d : list vrec) : list vrec :=
  match e with
  | None => d
  | Some e' => match cut_end e' d with Some p => p | None => [] end
  end.

Lemma trim_range_etrim s e l : trim_range s e l = etrim e (drop_before s l).
Proof. reflexivity. Qed.

(** on time-ordered records the end trim is a take-while *)
Lemma etrim_sorted e d : time_sorted d = true ->
  etrim (Some e) d = take_le e d.
Proof.
  intros Hs. unfold etrim. rewrite (cut_end_sorted e d Hs).
  destruct d as [|r rest]; [reflexivity|]. cbn [take_le]. destruct (tle (vtime r) e); reflexivity.
Qed.

Lemma time_sorted_app_l p q : time_sorted (p ++ q) = true -> time_sorted p = true.
Proof.
  induction p as [|r p IH]; intros H; [reflexivity|].
  destruct p as [|r' p'].
  - reflexivity.
  - cbn in H |- *. apply andb_prop in H as [H1 H2]. rewrite H1. cbn. apply IH. exact H2.
Qed.

Lemma etrim_prefix e n p q :
  time_sorted (p ++ q) = true -> (n <= length p)%nat -> (1 <= n)%nat ->
  firstn n (etrim e p) = firstn n (etrim e (p ++ q)).
Proof.
  intros Hs Hlen Hn. destruct e as [e|].
  2:{ cbn. symmetry. apply firstn_app_le. assumption. }
  rewrite (etrim_sorted e _ Hs), (etrim_sorted e _ (time_sorted_app_l _ _ Hs)).
  rewrite take_le_app. destruct (forallb (fun r => tle (vtime r) e) p) eqn:Ef; [|reflexivity].
  rewrite (take_le_all e _ Ef). symmetry. apply firstn_app_le. assumption.
Qed.

Lemma cut_end_all_le e : forall l, l <> [] -> forallb (fun r => tle (vtime r) e) l = true -> cut_end e l = Some l.
Proof.
  induction l as [|r rest IH]; intros Hne Hall; [congruence|].
  cbn in Hall. apply andb_prop in Hall as [Hr Hrest]. cbn [cut_end].
  destruct rest as [|r' rest'].
  - cbn. rewrite Hr. reflexivity.
  - rewrite IH by (congruence || assumption). reflexivity.
Qed.

Lemma etrim_all_le e l : all_le e l = true -> etrim e l = l.
Proof.
  intros H. unfold etrim. destruct e as [e|]; [|reflexivity]. cbn in H.
  destruct l as [|r l]; [reflexivity|]. rewrite cut_end_all_le by (congruence || assumption). reflexivity.
Qed.

Lemma all_le_drop_before e s : forall l, all_le e l = true -> all_le e (drop_before s l) = true.
Proof.
  destruct e as [e|]; [|reflexivity]. cbn.
  induction l as [|r l IH]; intros H; [reflexivity|]. cbn [drop_before].
  destruct (tle s (vtime r)); [assumption|]. cbn in H. apply andb_prop in H as [_ H]. auto.
Qed.

Lemma all_le_app_r e a b : all_le e (a ++ b) = true -> all_le e b = true.
Proof.
  destruct e as [e|]; [|reflexivity]. cbn. rewrite forallb_app, andb_true_iff. tauto.
Qed.

Lemma drop_before_suffix s n : forall a b,
  time_sorted (a ++ b) = true -> (n <= length b)%nat ->
  lastn n (drop_before s (a ++ b)) = lastn n (drop_before s b).
Proof.
  induction a as [|x a IH]; intros b Hs Hlen; [reflexivity|].
  change ((x :: a) ++ b) with (x :: (a ++ b)). cbn [drop_before].
  destruct (tle s (vtime x)) eqn:E.
  - assert (Hb : drop_before s b = b).
    { destruct b as [|y b']; [reflexivity|]. cbn.
      assert (Hy : tle (vtime x) (vtime y) = true).
      { apply (time_sorted_head_le (a ++ y :: b') x y Hs). apply in_or_app. right. left. reflexivity. }
      rewrite (tle_trans _ _ _ E Hy). reflexivity. }
    rewrite Hb. change (x :: a ++ b) with ((x :: a) ++ b). apply lastn_app_le. assumption.
  - apply IH; [eapply time_sorted_tail; exact Hs|assumption].
Qed.

(** slots, each holding at least one record *)
Definition nonempty_slots (S : list (Z * list vrec)) : Prop := Forall (fun s => snd s <> []) S.

Lemma nonempty_slots_b S :
  forallb (fun s : Z * list vrec => negb (match snd s with [] => true | _ => false end)) S = true -> nonempty_slots S.
Proof.
  intros H. apply Forall_forall. intros s Hs. rewrite forallb_forall in H. specialize (H s Hs).
  destruct (snd s); [discriminate|congruence].
Qed.

Lemma recs_length_ge S : nonempty_slots S -> (length S <= length (concat (map snd S)))%nat.
Proof.
  induction 1 as [|s S Hs _ IH]; [cbn; lia|]. cbn. rewrite app_length.
  destruct (snd s); [congruence|]. cbn. lia.
Qed.

Lemma nonempty_firstn n S : nonempty_slots S -> nonempty_slots (firstn n S).
Proof.
  intros H. unfold nonempty_slots in *. apply Forall_forall. intros s Hs. rewrite Forall_forall in H. apply H.
  rewrite <- (firstn_skipn n S). apply in_or_app. left. assumption.
Qed.

Lemma nonempty_skipn n S : nonempty_slots S -> nonempty_slots (skipn n S).
Proof.
  intros H. unfold nonempty_slots in *. apply Forall_forall. intros s Hs. rewrite Forall_forall in H. apply H.
  rewrite <- (firstn_skipn n S). apply in_or_app. right. assumption.
Qed.

Definition recs_of (S : list (Z * list vrec)) : list vrec := concat (map snd S).

Lemma recs_split n S : recs_of S = recs_of (firstn n S) ++ recs_of (skipn n S).
Proof. unfold recs_of. rewrite <- concat_app, <- map_app, firstn_skipn. reflexivity. Qed.

(** FIRST n: the first n intervals suffice when the start bound cuts no candidate *)
Lemma first_core s e n S :
  nonempty_slots S -> time_sorted (recs_of S) = true -> (1 <= n)%nat ->
  (length S <= n)%nat \/ all_ge s (recs_of S) = true ->
  firstn n (trim_range s e (recs_of (firstn n S))) = firstn n (trim_range s e (recs_of S)).
Proof.
  intros Hne Hs Hn [Hall|Hge].
  - rewrite (firstn_all2 S Hall). reflexivity.
  - destruct (Nat.le_gt_cases (length S) n) as [Hle|Hgt]; [rewrite (firstn_all2 S Hle); reflexivity|].
    rewrite !trim_range_etrim. rewrite (recs_split n S) in Hs, Hge |- *.
    assert (Hge1 : all_ge s (recs_of (firstn n S)) = true).
    { unfold all_ge in *. rewrite forallb_app in Hge. apply andb_prop in Hge. tauto. }
    rewrite (drop_before_all_ge _ _ Hge), (drop_before_all_ge _ _ Hge1).
    apply etrim_prefix; [assumption| |assumption].
    pose proof (recs_length_ge _ (nonempty_firstn n S Hne)) as Hl.
    rewrite firstn_length in Hl. unfold recs_of. lia.
Qed.

(** LAST n: the last n intervals suffice when the end bound cuts no candidate *)
Lemma last_core s e n S :
  nonempty_slots S -> time_sorted (recs_of S) = true -> (1 <= n)%nat ->
  (length S <= n)%nat \/ all_le e (recs_of S) = true ->
  lastn n (trim_range s e (recs_of (lastn n S))) = lastn n (trim_range s e (recs_of S)).
Proof.
  intros Hne Hs Hn [Hall|Hle].
  - rewrite (lastn_all n S Hall). reflexivity.
  - destruct (Nat.le_gt_cases (length S) n) as [Hl|Hgt]; [rewrite (lastn_all n S Hl); reflexivity|].
    rewrite !trim_range_etrim. change (lastn n S) with (skipn (length S - n) S).
    set (k := (length S - n)%nat).
    rewrite (recs_split k S) in Hs, Hle |- *.
    pose proof (all_le_app_r _ _ _ Hle) as Hle2.
    rewrite (etrim_all_le e _ (all_le_drop_before e s _ Hle)).
    rewrite (etrim_all_le e _ (all_le_drop_before e s _ Hle2)).
    symmetry. apply drop_before_suffix; [assumption|].
    pose proof (recs_length_ge _ (nonempty_skipn k S Hne)) as Hlen.
    rewrite skipn_length in Hlen. unfold recs_of, k in *. lia.
Qed.

Lemma trim_limit_lim_of d n l : 0 <= n -> trim_limit d n l = lim_of d (Z.to_nat n) l.
Proof.
  intros Hn. unfold trim_limit, lim_of.
  destruct (Z.gtb_spec (Z.of_nat (length l)) n) as [Hgt|Hle]; [reflexivity|].
  destruct d; [symmetry; apply firstn_all2; lia|symmetry; apply lastn_all; lia].
Qed.

Lemma lim_of_idem {B} d n (l : list B) : lim_of d n (lim_of d n l) = lim_of d n l.
Proof.
  destruct d; cbn.
  - rewrite firstn_firstn. f_equal. lia.
  - apply lastn_all. rewrite lastn_length. lia.
Qed.

(** the variable-bucket theorem *)
Theorem exec_var_limit tfs (st : vstore) req rs re d n :
  queryable_tfs req = req -> 0 < req -> 1 <= n -> 24 * n < 2147483648 ->
  guard_var tfs st rs re d n = true ->
  exec_var tfs st req rs re (Some (d, n))
  = match exec_var tfs st req rs re None with
    | Ok l => Ok (lim_of d (Z.to_nat n) l)
    | r => r
    end.
Proof.
  intros Hq Hreq Hn Hb Hg. unfold exec_var. rewrite Hq.
  destruct (req =? tfs); [|reflexivity].
  cbn [eff_limit]. rewrite nrecords_eff_same by assumption.
  rewrite (query_limit tfs 24 st (fst rs) (option_map fst re) d n) by lia.
  unfold guard_var, scanned in Hg.
  unfold query at 1 2. destruct (s_years st) as [|y ys]; [reflexivity|].
  cbn [bindR].
  set (S := concat (file_rows tfs 24 (fst rs) (option_map fst re) st)) in *.
  apply andb_prop in Hg as [Hg Hside]. apply andb_prop in Hg as [Hne Hsorted].
  apply nonempty_slots_b in Hne.
  assert (Hw : wrap I32 n = n) by (apply wrap_small; unfold in_ity, ity_min, ity_max; cbn; lia).
  rewrite Hw, trim_limit_lim_of by lia. f_equal.
  assert (Hn1 : (1 <= Z.to_nat n)%nat) by lia.
  fold (recs_of S) in Hsorted, Hside |- *. fold (recs_of (lim_of d (Z.to_nat n) S)).
  destruct d; cbn [lim_of] in *.
  - apply first_core; try assumption.
    apply orb_prop in Hside as [H|H]; [left; apply Z.leb_le in H; lia|right; assumption].
  - apply last_core; try assumption.
    apply orb_prop in Hside as [H|H]; [left; apply Z.leb_le in H; lia|right; assumption].
Qed.
