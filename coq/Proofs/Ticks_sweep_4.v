From Coq Require Import ZArith.
Require Import MS.Proofs.Ticks_sweep.
Lemma sweep_block_4 : sweep_ok (Z.to_nat block) 499950000 = true.
Proof. vm_compute. reflexivity. Qed.
