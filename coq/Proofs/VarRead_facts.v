(** The query over all time (the query API's default bounds time.Unix(0,0) .. time.Unix(MaxInt64,0)) on a
    well-formed variable-length file state whose files are dated 1970 or later returns every stored
    record, in file/slot/tick order — provided the second-stage buffer does not panic.
    (The upper bound wraps to a negative internal second; Query.SetEnd replaces it by MaxTime.) *)
From Coq Require Import ZArith List Bool Lia Sorting.Sorted Permutation.
From Coq.Strings Require Import Byte.
Import ListNotations.
Require Import MS.Base.GoInt MS.Base.Res MS.Base.Hex MS.Base.Bytes MS.Base.Civil
               MS.Generated.Src_query MS.Model.QTime MS.Model.Trim MS.Model.RangeRead MS.Model.RangeSpec
               MS.Model.VarStore MS.Model.VarSpec
               MS.Proofs.QTime_facts MS.Proofs.Trim_facts MS.Proofs.RangeRead_facts MS.Proofs.VarStore_facts.
Local Open Scope Z_scope.

Definition q0 : qtime := (0, 0).

Lemma all_start_q : all_start = q_go q0. Proof. reflexivity. Qed.
Lemma q0_sane : sane_time q0 = true. Proof. reflexivity. Qed.
Lemma q0_year : qyr q0 = 1970. Proof. reflexivity. Qed.
Definition all_end' : gtime := clamp_end all_end.
Lemma all_end_clamped : all_end' = planner_MaxTime. Proof. vm_compute. reflexivity. Qed.
Lemma all_end_year16 : wrap I16 (t_year all_end') = 30579. Proof. vm_compute. reflexivity. Qed.

Lemma plan_file_all tf r y : tf_ok tf -> 8 <= r <= 65536 -> 1970 <= y <= 9999 ->
  plan_file tf r all_start all_end' y =
  Some (Headersize + (plan_first tf q0 y - 1) * r,
        (let c := nslots tf y - plan_first tf q0 y + 1 in if nslots tf y + 1 <? c then nslots tf y + 1 else c) * r).
Proof.
  intros T Hr Hy. rewrite all_start_q.
  destruct (q_year q0 q0_sane) as [Ys _]. rewrite q0_year in Ys.
  destruct (TimeToIndex_sane tf q0 T q0_sane) as (_ & _ & Ps).
  destruct (nslots_mul tf y T) as [_ Rn].
  unfold plan_file. rewrite Ys, all_end_year16.
  rewrite (wrap_small I16 1970) by (unfold in_ity, ity_min, ity_max; cbn [ity_signed ity_bits]; norm_pows; lia).
  replace ((1970 <=? y) && (y <=? 30579)) with true by (symmetry; apply andb_true_iff; rewrite !Z.leb_le; lia).
  replace (y =? 30579) with false by (symmetry; apply Z.eqb_neq; lia).
  unfold TimeToOffset. rewrite IndexToOffset_sane by lia. rewrite file_size_sane by (assumption || lia).
  unfold plan_first. rewrite q0_year.
  set (ps := TimeToIndex (q_go q0) tf) in *. set (n := nslots tf y) in *.
  assert (Bn : 0 <= n * r <= 366 * 86400 * 65536) by nia.
  assert (Bs : - 65536 <= (ps - 1) * r <= 366 * 86400 * 65536) by nia.
  unfold Headersize in *.
  rewrite (wrap_small I64 (37024 + n * r - 37024)) by i64_small.
  rewrite (wrap_small I64 (37024 + n * r - 37024 + r)) by i64_small.
  destruct (y =? 1970).
  - rewrite wrap_small by i64_small.
    replace (37024 + n * r - (37024 + (ps - 1) * r)) with ((n - ps + 1) * r) by lia.
    replace (37024 + n * r - 37024 + r) with ((n + 1) * r) by lia.
    replace ((n + 1) * r <? (n - ps + 1) * r) with (n + 1 <? n - ps + 1)
      by (apply bool_eq_iff; rewrite !Z.ltb_lt; split; intros; nia).
    destruct (n + 1 <? n - ps + 1); reflexivity.
  - rewrite wrap_small by i64_small.
    replace (37024 + n * r - 37024 + r) with ((n + 1) * r) by lia.
    replace (37024 + n * r - 37024) with ((n - 1 + 1) * r) by lia.
    replace ((n + 1) * r <? (n - 1 + 1) * r) with (n + 1 <? n - 1 + 1)
      by (apply bool_eq_iff; rewrite !Z.ltb_lt; split; intros; nia).
    replace (37024 + (1 - 1) * r) with 37024 by lia.
    destruct (n + 1 <? n - 1 + 1); reflexivity.
Qed.

(** the scan of the all-time query keeps every well-placed occupied slot *)
Lemma scan_file_all b f : wf_bucket b = true -> wf_file b f = true -> 1970 <= y_year f ->
  scan_file (b_tf b) (b_reclen b) all_start all_end' f = y_slots f.
Proof.
  intros W Wf Hy70. pose proof (wf_bucket_tf b W) as T. pose proof (wf_bucket_reclen b W) as Hr.
  destruct (wf_file_spec b f Wf) as (Hy & _ & Fs).
  unfold scan_file. rewrite (plan_file_all (b_tf b) (b_reclen b) (y_year f) T Hr ltac:(lia)).
  apply filter_all. eapply Forall_impl; [|exact Fs]. cbv beta. intros sl Ws.
  destruct (wf_slot_pos b _ sl Ws) as (Hp & Hi & Ho).
  rewrite in_scan_units by lia. unfold occupied in Ho. rewrite Ho, andb_true_r.
  destruct (pos_ok_spec _ _ _ T Hp) as (P1 & P2 & _).
  destruct (nslots_mul (b_tf b) (y_year f) T) as [_ Rn].
  destruct (TimeToIndex_sane (b_tf b) q0 T q0_sane) as (Ns & _ & _). cbv zeta in Ns.
  destruct (slot_num_shift (b_tf b)) as (d & Hd & Sh). rewrite !Sh in *.
  assert (E0 : (q_ns q0 - year_start_ns (qyr q0)) / b_tf b = 0) by reflexivity.
  rewrite E0 in Ns.
  unfold plan_first. rewrite q0_year.
  set (ps := TimeToIndex (q_go q0) (b_tf b)) in *. set (n := nslots (b_tf b) (y_year f)) in *.
  apply andb_true_iff. rewrite Z.leb_le, Z.ltb_lt.
  destruct (y_year f =? 1970);
    match goal with |- context [if ?c then _ else _] => destruct c eqn:Ec end;
    try apply Z.ltb_lt in Ec; try apply Z.ltb_ge in Ec; lia.
Qed.

Lemma var_candidates_all b c : wf_bucket b = true ->
  Forall (fun f => 1970 <= y_year f) (b_files b) ->
  var_candidates b all_start all_end' = Ok c -> c = var_rows_all b.
Proof.
  intros W Fy H. unfold var_candidates in H. apply read_var_files_ok in H. rewrite H.
  unfold var_rows_all. pose proof (wf_bucket_files b W) as Ff. rewrite Forall_forall in Ff, Fy.
  apply flat_map_ext_in. intros f Hf.
  rewrite (scan_file_all b f W (Ff f Hf) (Fy f Hf)).
  destruct (wf_file_spec b f (Ff f Hf)) as (_ & _ & Fs).
  f_equal. symmetry. apply filter_all. eapply Forall_impl; [|exact Fs]. cbv beta.
  intros sl Ws. now destruct (wf_slot_pos b _ sl Ws) as (_ & _ & Ho).
Qed.

(** every sane row is before MaxTime, in Go's order *)
Lemma row_before_max r : sane_row r = true -> t_le (row_time r) all_end' = true.
Proof.
  intros S. destruct (sane_row_spec r S) as [S1 S2]. unfold row_time. rewrite (go_unix_wide _ _ S1 S2).
  rewrite all_end_clamped. apply t_le_spec. unfold tleP. cbn [g_ext g_ns].
  change (g_ext planner_MaxTime) with 9223372036854775807.
  unfold sane_sec, sane_ns, nsPerSec, unixToInternal in *.
  change (2 ^ 62) with 4611686018427387904 in S1. change (2 ^ 31) with 2147483648 in S2.
  assert (-3 <= r_ns r / 1000000000 <= 3) by (Z.div_mod_to_equations; lia). lia.
Qed.

Theorem query_all_rows b :
  wf_bucket b = true -> b_var b = true -> Forall (fun f => 1970 <= y_year f) (b_files b) ->
  (exists c, var_candidates b all_start all_end' = Ok c /\ Z.of_nat (length c) <= maxInt32) ->
  exec_query b all_start all_end = Ok (enc_rows (var_rows_all b))
  /\ sorted_tns (var_rows_all b) = true.
Proof.
  intros W V Fy (c & Ec & L).
  pose proof (var_candidates_all b c W Fy Ec) as Ea. subst c.
  destruct (bucket_rows b (fun _ => occupied) W V) as [Srt Good]. cbv zeta in Srt, Good.
  fold (var_rows_all b) in Srt, Good. split; [|exact Srt].
  pose proof (queryable_self _ (wf_bucket_is_tf b W)) as Q.
  unfold exec_query, read_bucket. rewrite Q, V. fold all_end'. unfold read_var. rewrite Ec. cbn [bindR]. f_equal.
  pose proof (wf_bucket_vrl b W V) as Hv.
  set (rows := var_rows_all b) in *.
  set (plen := (Z.to_nat (b_vrl b) - 4)%nat) in *.
  assert (Erl : Z.to_nat (b_vrl b) = (plen + 4)%nat) by (subst plen; lia).
  assert (Fwf : Forall (wf_row plen) rows) by (eapply Forall_impl; [|exact Good]; intros r [A _]; exact A).
  assert (Fsane : Forall (fun r => sane_row r = true) rows) by (eapply Forall_impl; [|exact Good]; intros r [_ A]; exact A).
  rewrite Erl, (trim_range_refines plen _ _ rows Fwf).
  (* trimResultsToRange keeps everything: every row is >= Start and <= MaxTime *)
  assert (Et : trim_rows all_start all_end' rows = rows).
  { rewrite (trim_rows_filter _ _ rows (sorted_tns_rows _ Fsane Srt)). apply filter_all.
    apply Forall_forall. intros r Hr. unfold in_range_row.
    assert (Sr : sane_row r = true) by (rewrite Forall_forall in Fsane; now apply Fsane).
    rewrite (row_before_max r Sr), andb_true_r.
    (* rows are dated 1970 or later *)
    unfold rows, var_rows_all in Hr. apply in_flat_map in Hr as (f & Hf & Hr).
    pose proof (wf_bucket_files b W) as Ff. rewrite Forall_forall in Ff, Fy.
    destruct (file_rows b f occupied W V (Ff f Hf)) as (_ & B & _). cbv zeta in B.
    rewrite Forall_forall in B. specialize (B r Hr).
    destruct (sane_row_spec r Sr) as [S1 S2].
    rewrite t_ge_le, all_start_q. unfold q_go, row_time. cbn [fst snd q0].
    rewrite (t_le_tns 0 0 (r_sec r) (r_ns r)); [| unfold sane_sec; change (2 ^ 62) with 4611686018427387904; lia
                                                | unfold sane_ns; change (2 ^ 31) with 2147483648; lia | exact S1 | exact S2].
    apply Z.leb_le. change (tns 0 0) with 0. fold (row_tns r).
    pose proof (year_start_mono 1970 (y_year f) (Fy f Hf)) as M. change (year_start_ns 1970) with 0 in M. lia. }
  rewrite Et.
  unfold trim_limit. rewrite row_length_eq.
  rewrite (enc_rows_length plen _ Fwf), Nat.div_mul by lia.
  replace (maxInt32 <? Z.of_nat (length rows)) with false by (symmetry; apply Z.ltb_ge; lia).
  reflexivity.
Qed.

(* ------------------------------------------------------------------ C09, assembled *)

Section WithTicks.
Variable encf : Z -> Z -> Z.
Variable decf : Z -> Z -> Z -> Z * Z.
Variable tf : Z.
Variable plen : Z.
Variable clen : key -> Z.

Lemma final_rows hist :
  existsb (f2_row tf) (all_rows hist) = false ->
  Permutation (var_rows_all (final_bucket encf decf tf plen clen hist))
                          (map (quantise encf decf tf) (all_rows hist)).
Proof.
  intros F2. destruct (VarStore_facts.run_store encf tf hist F2) as [S P].
  unfold final_bucket, bucket_of, var_rows_all, final. cbn [b_files].
  rewrite (VarStore_facts.group_years_rows decf tf clen _ (VarStore_facts.store_ok_nonzero encf decf tf _ S)).
  rewrite (Permutation_map (VarStore_facts.dec_entry decf tf) P).
  rewrite map_map. reflexivity.
Qed.

Theorem C09_guarded_main hist : guard_C09 encf decf tf plen clen hist = true ->
  let R := var_rows_all (final_bucket encf decf tf plen clen hist) in
  query_all encf decf tf plen clen hist = Ok (enc_rows R)
  /\ Permutation R (map (quantise encf decf tf) (all_rows hist))
  /\ sorted_tns R = true
  /\ Forall (fun r => bound_ok encf decf tf r = true) (all_rows hist).
Proof.
  unfold guard_C09. rewrite !andb_true_iff. intros (((((Rok & F2) & Bd) & W) & Y) & C).
  apply negb_true_iff in F2. cbv zeta.
  assert (V : b_var (final_bucket encf decf tf plen clen hist) = true) by reflexivity.
  assert (Fy : Forall (fun f => 1970 <= y_year f) (b_files (final_bucket encf decf tf plen clen hist))).
  { apply forallb_Forall in Y. eapply Forall_impl; [|exact Y]. cbv beta. intros f Hf. now apply Z.leb_le. }
  destruct (var_candidates (final_bucket encf decf tf plen clen hist) all_start (clamp_end all_end)) as [c| |] eqn:Ec; try discriminate.
  apply Z.leb_le in C.
  destruct (query_all_rows _ W V Fy (ex_intro _ c (conj Ec C))) as [Q S].
  split; [exact Q|]. split; [now apply final_rows|]. split; [exact S|]. now apply forallb_Forall.
Qed.

End WithTicks.
