From Coq Require Import ZArith.
Require Import MS.Proofs.Ticks_sweep.
Lemma sweep_block_0 : sweep_ok (Z.to_nat block) 0 = true.
Proof. vm_compute. reflexivity. Qed.
