(** Proofs about Model/AggTrigger.v, part 2: [aggregate] on a series sorted by epoch — one bar per window
    holding rows, in window order, each built from exactly its window's rows; splitting at a window boundary;
    overwriting a suffix of a destination store. *)
From Coq Require Import ZArith Bool Lia List.
Import ListNotations.
Require Import MS.Base.GoInt MS.Base.Res MS.Base.F32 MS.Base.F64 MS.Model.Uda MS.Model.AggTrigger
               MS.Proofs.AggTrigger_sorted.
Local Open Scope Z_scope.

Definition win (d : Z) (b : bar5) : Z := trunc_s d (e5 b).
Definition in_win (d w : Z) (l : list bar5) : list bar5 := filter (fun b => win d b =? w) l.
Definition out_win (d w : Z) (l : list bar5) : list bar5 := filter (fun b => negb (win d b =? w)) l.

Lemma filter_none {A} (f : A -> bool) l : (forall x, In x l -> f x = false) -> filter f l = [].
Proof.
  induction l as [|a l IH]; intros F; cbn [filter]; [reflexivity|].
  rewrite (F a (or_introl eq_refl)). apply IH. intros x I. apply F. right. exact I.
Qed.

Lemma filter_all {A} (f : A -> bool) l : (forall x, In x l -> f x = true) -> filter f l = l.
Proof.
  induction l as [|a l IH]; intros F; cbn [filter]; [reflexivity|].
  rewrite (F a (or_introl eq_refl)). f_equal. apply IH. intros x I. apply F. right. exact I.
Qed.

Lemma filter_len {A} (f : A -> bool) l : (length (filter f l) <= length l)%nat.
Proof. induction l as [|a l IH]; cbn [filter length]; [lia|]. destruct (f a); cbn [length]; lia. Qed.

Lemma filter_sorted (f : bar5 -> bool) l : sorted l -> sorted (filter f l).
Proof.
  induction l as [|a l IH]; intros H; cbn [filter]; [exact I|].
  destruct (f a); [|apply IH, (sorted_tail a), H].
  apply sorted_cons; [apply IH, (sorted_tail a), H|].
  intros x Ix. apply filter_In in Ix. apply (sorted_head_lt a l H), Ix.
Qed.

Lemma filter_comm {A} (f g : A -> bool) l : filter f (filter g l) = filter g (filter f l).
Proof.
  induction l as [|a l IH]; cbn [filter]; [reflexivity|].
  destruct (f a) eqn:Ef, (g a) eqn:Eg; cbn [filter]; rewrite ?Ef, ?Eg, IH; reflexivity.
Qed.

(** windows do not decrease along a sorted series *)
Lemma win_mono d a l x : sorted (a :: l) -> In x l -> win d a <= win d x.
Proof. intros S I. pose proof (sorted_head_lt a l S x I). apply trunc_mono. lia. Qed.

(** rows of one window are contiguous in a sorted series: the loop's group = the window's rows *)
Lemma take_group_spec d key r : sorted r -> (forall y, In y r -> key <= win d y) ->
  take_group d key r = (in_win d key r, out_win d key r).
Proof.
  induction r as [|y r IH]; intros S F; [reflexivity|].
  cbn [take_group]. change (within_s d (e5 y) key) with (win d y =? key).
  destruct (Z.eqb_spec (win d y) key) as [E|E].
  - rewrite IH; [| apply (sorted_tail y), S | intros z I; apply F; right; exact I].
    unfold in_win, out_win. cbn [filter]. destruct (Z.eqb_spec (win d y) key); [reflexivity | contradiction].
  - assert (G : forall z, In z (y :: r) -> (win d z =? key) = false).
    { intros z I. apply Z.eqb_neq. pose proof (F y (or_introl eq_refl)).
      destruct I as [Ez|I]; [subst z; exact E|]. pose proof (win_mono d y r z S I). lia. }
    unfold in_win, out_win. rewrite (filter_none _ (y :: r) G).
    rewrite filter_all; [reflexivity|]. intros z I. rewrite (G z I). reflexivity.
Qed.

Lemma take_group_len d key r : (length (snd (take_group d key r)) <= length r)%nat.
Proof.
  induction r as [|y r IH]; cbn [take_group snd length]; [lia|].
  destruct (within_s d (e5 y) key); [|cbn [snd length]; lia].
  destruct (take_group d key r) as [g rest]. cbn [snd] in *. lia.
Qed.

Lemma fuel_irrelevant d : forall f1 f2 l, (length l <= f1)%nat -> (length l <= f2)%nat ->
  aggregate_fuel f1 d l = aggregate_fuel f2 d l.
Proof.
  induction f1 as [|f1 IH]; intros f2 l L1 L2.
  - destruct l; [destruct f2; reflexivity | cbn [length] in L1; lia].
  - destruct l as [|x r]; [destruct f2; reflexivity|]. destruct f2 as [|f2]; [cbn [length] in L2; lia|].
    cbn [aggregate_fuel]. pose proof (take_group_len d (trunc_s d (e5 x)) r) as TL.
    destruct (take_group d (trunc_s d (e5 x)) r) as [g rest]. cbn [snd] in TL. cbn [length] in L1, L2.
    f_equal. apply IH; lia.
Qed.

(** the unfolding of [aggregate] on a sorted series *)
Lemma aggregate_cons d x r : sorted (x :: r) ->
  aggregate d (x :: r) = agg_bar (win d x) x (in_win d (win d x) r) :: aggregate d (out_win d (win d x) r).
Proof.
  intros S. unfold aggregate. cbn [length aggregate_fuel].
  rewrite take_group_spec; [| apply (sorted_tail x), S | intros y I; apply (win_mono d x r y S I)].
  f_equal. apply fuel_irrelevant; [apply filter_len | lia].
Qed.

Lemma aggregate_nil d : aggregate d [] = [].
Proof. reflexivity. Qed.

(** ---- the specification of [aggregate]: per window, from exactly the window's rows ---- *)
Definition window_bar (d w : Z) (l : list bar5) : option bar5 :=
  match in_win d w l with [] => None | x :: g => Some (agg_bar w x g) end.

Lemma in_win_out_win d w w' l : w <> w' -> in_win d w (out_win d w' l) = in_win d w l.
Proof.
  intros N. unfold in_win, out_win. induction l as [|a l IH]; cbn [filter]; [reflexivity|].
  destruct (Z.eqb_spec (win d a) w') as [E|E]; cbn [negb filter].
  - destruct (Z.eqb_spec (win d a) w); [lia | exact IH].
  - rewrite IH. reflexivity.
Qed.

(** strong induction on the length *)
Lemma agg_induction (P : list bar5 -> Prop) :
  (forall l, (forall l', (length l' < length l)%nat -> P l') -> P l) -> forall l, P l.
Proof.
  intros H l. assert (G : forall n l, (length l <= n)%nat -> P l).
  { induction n as [|n IH]; intros l0 L; apply H; intros l' L'; [lia | apply IH; lia]. }
  apply (G (length l)). lia.
Qed.

Lemma out_win_shorter d x r : (length (out_win d (win d x) r) < length (x :: r))%nat.
Proof. unfold out_win. pose proof (filter_len (fun b => negb (win d b =? win d x)) r). cbn [length]. lia. Qed.

Theorem aggregate_spec d l : sorted l ->
  (forall B, In B (aggregate d l) -> window_bar d (e5 B) l = Some B)
  /\ (forall x, In x l -> exists B, In B (aggregate d l) /\ e5 B = win d x).
Proof.
  pattern l. apply agg_induction. clear l. intros l IH S.
  destruct l as [|x r]; [split; [intros B [] | intros x []]|].
  rewrite (aggregate_cons d x r S).
  assert (Sr : sorted (out_win d (win d x) r)) by (apply filter_sorted, (sorted_tail x), S).
  destruct (IH _ (out_win_shorter d x r) Sr) as [IH1 IH2]. split.
  - intros B [E|I].
    + subst B. cbn [agg_bar e5]. unfold window_bar, in_win. cbn [filter]. rewrite Z.eqb_refl. reflexivity.
    + pose proof (IH1 B I) as W. unfold window_bar in *.
      assert (N : e5 B <> win d x).
      { intro E. rewrite E in W. unfold in_win, out_win in W. rewrite filter_comm in W.
        rewrite filter_none in W; [discriminate|]. intros y Iy. apply filter_In in Iy. destruct Iy as [_ Ey]. rewrite Ey. reflexivity. }
      rewrite in_win_out_win in W by exact N.
      unfold in_win in *. cbn [filter]. destruct (Z.eqb_spec (win d x) (e5 B)); [congruence | exact W].
  - intros y [E|I].
    + subst y. eexists. split; [left; reflexivity | reflexivity].
    + destruct (Z.eq_dec (win d y) (win d x)) as [E|E].
      * eexists. split; [left; reflexivity | cbn [agg_bar e5]; congruence].
      * assert (Iy : In y (out_win d (win d x) r)).
        { apply filter_In. split; [exact I|]. apply negb_true_iff, Z.eqb_neq. exact E. }
        destruct (IH2 y Iy) as (B & IB & EB). exists B. split; [right; exact IB | exact EB].
Qed.

(** keys of the output = windows of the input, in increasing order *)
Lemma aggregate_keys d l : sorted l -> forall k, In k (map e5 (aggregate d l)) <-> exists x, In x l /\ win d x = k.
Proof.
  intros S k. destruct (aggregate_spec d l S) as [A1 A2]. split.
  - intros I. apply in_map_iff in I. destruct I as (B & E & IB). pose proof (A1 B IB) as W. unfold window_bar in W.
    destruct (in_win d (e5 B) l) as [|x g] eqn:G; [discriminate|].
    assert (Ix : In x (in_win d (e5 B) l)) by (rewrite G; left; reflexivity).
    apply filter_In in Ix. destruct Ix as [Ix Ex]. apply Z.eqb_eq in Ex. exists x. split; [exact Ix | congruence].
  - intros (x & I & E). destruct (A2 x I) as (B & IB & EB). apply in_map_iff. exists B. split; [congruence | exact IB].
Qed.

Lemma aggregate_sorted d l : sorted l -> sorted (aggregate d l).
Proof.
  pattern l. apply agg_induction. clear l. intros l IH S.
  destruct l as [|x r]; [exact I|]. rewrite (aggregate_cons d x r S).
  assert (Sr : sorted (out_win d (win d x) r)) by (apply filter_sorted, (sorted_tail x), S).
  apply sorted_cons; [apply IH; [apply out_win_shorter | exact Sr]|].
  intros B IB. cbn [agg_bar e5].
  assert (K : In (e5 B) (map e5 (aggregate d (out_win d (win d x) r)))) by (apply in_map, IB).
  apply (aggregate_keys d _ Sr) in K. destruct K as (y & Iy & Ey). apply filter_In in Iy. destruct Iy as [Iy Ny].
  apply negb_true_iff, Z.eqb_neq in Ny. pose proof (win_mono d x r y S Iy). lia.
Qed.

(** ---- splitting at a window boundary ---- *)
Lemma before_cons_lt B x r : e5 x < B -> before B (x :: r) = x :: before B r.
Proof. intros L. unfold before. cbn [filter]. destruct (Z.ltb_spec (e5 x) B); [reflexivity | lia]. Qed.

Lemma from_cons_lt B x r : e5 x < B -> from B (x :: r) = from B r.
Proof. intros L. unfold from. cbn [filter]. destruct (Z.leb_spec B (e5 x)); [lia | reflexivity]. Qed.

Lemma from_out_win d B w r : (forall y, In y r -> win d y = w -> e5 y < B) -> from B r = from B (out_win d w r).
Proof.
  intros WB. unfold from, out_win. rewrite filter_comm.
  induction r as [|y r IHr]; cbn [filter]; [reflexivity|].
  assert (WB' : forall z, In z r -> win d z = w -> e5 z < B) by (intros z Iz; apply WB; right; exact Iz).
  destruct (Z.leb_spec B (e5 y)) as [Ly|Ly]; cbn [filter].
  - destruct (Z.eqb_spec (win d y) w) as [Ey|Ey]; cbn [negb].
    + exfalso. pose proof (WB y (or_introl eq_refl) Ey). lia.
    + f_equal. apply IHr, WB'.
  - apply IHr, WB'.
Qed.

Theorem aggregate_split d B l : 0 < d -> trunc_s d B = B -> sorted l ->
  aggregate d l = aggregate d (before B l) ++ aggregate d (from B l).
Proof.
  intros P G. pattern l. apply agg_induction. clear l. intros l IH S.
  destruct l as [|x r]; [reflexivity|].
  destruct (Z_lt_le_dec (e5 x) B) as [L|L].
  - (* the group of x lies wholly before B *)
    assert (WB : forall y, In y r -> win d y = win d x -> e5 y < B).
    { intros y I E. pose proof (trunc_gt d (e5 y) P). unfold win in E.
      assert (trunc_s d (e5 x) + d <= B).
      { destruct (Z_lt_le_dec B (trunc_s d (e5 x) + d)) as [C|C]; [|exact C]. exfalso.
        pose proof (trunc_le d (e5 x)).
        assert (trunc_s d (e5 x) <= B) by lia.
        (* B on the grid within the window of x: then B = its start, but e5 x < B *)
        assert (trunc_s d B = trunc_s d (e5 x)).
        { apply trunc_same; [exact P | apply trunc_idem | lia]. }
        lia. }
      lia. }
    rewrite before_cons_lt, from_cons_lt by exact L.
    rewrite (aggregate_cons d x r S).
    assert (Sb : sorted (x :: before B r)).
    { apply sorted_cons; [apply filter_sorted, (sorted_tail x), S|]. intros y Iy. apply filter_In in Iy. apply (sorted_head_lt x r S), Iy. }
    rewrite (aggregate_cons d x (before B r) Sb). cbn [app].
    assert (E1 : in_win d (win d x) (before B r) = in_win d (win d x) r).
    { unfold in_win, before. rewrite filter_comm. apply filter_all. intros y Iy. apply filter_In in Iy. destruct Iy as [Iy Ey].
      apply Z.eqb_eq in Ey. apply Z.ltb_lt. apply WB; assumption. }
    rewrite E1. f_equal.
    assert (E2 : out_win d (win d x) (before B r) = before B (out_win d (win d x) r)) by (unfold out_win, before; apply filter_comm).
    rewrite E2.
    assert (E3' : from B r = from B (out_win d (win d x) r)) by (apply from_out_win; exact WB).
    rewrite E3'. apply IH; [apply out_win_shorter | apply filter_sorted, (sorted_tail x), S].
  - assert (F : forall y, In y (x :: r) -> B <= e5 y).
    { intros y [E|I]; [subst; exact L | pose proof (sorted_head_lt x r S y I); lia]. }
    rewrite (before_none B _ F), (from_all B _ F). reflexivity.
Qed.
