(** Proofs/Durable_sem.v — the meaning of the primary files relative to a list of transaction groups:
    [FClean] (all of them applied, nothing else) and [FPartial] (the last one applied in part), and
    what replaying a suffix of the list makes of either.  This is where "fixed-record replay is
    idempotent" and "replay re-appends variable records" become statements about contents. *)
From Coq Require Import ZArith NArith List Bool Lia Permutation.
From Coq.Strings Require Import Byte.
Import ListNotations.
Require Import MS.Base.Res MS.Generated.Src_durab MS.Model.Wal MS.Model.Replay
  MS.Proofs.Durable_wal MS.Proofs.Durable_files MS.Proofs.Durable_exec MS.Proofs.Durable_flush
  MS.Proofs.Durable_recover.
Local Open Scope Z_scope.

Definition no_var (cs : list cmd) : Prop := Forall (fun c => c_kind c = KFixed) cs.

Lemma over_idem {A} (x y : option A) : over x (over x y) = over x y.
Proof. destruct x; reflexivity. Qed.

Lemma lastw_replay_suffix a b f off : over (lastw b f off) (lastw (a ++ b) f off) = lastw (a ++ b) f off.
Proof. rewrite lastw_app. apply over_idem. Qed.

Lemma ct_after_mono cs : forall base f slot r, In r base -> In r (ct_after cs base f slot).
Proof.
  unfold ct_after. induction cs as [|c cs IH]; intros base f slot r H; [exact H|].
  cbn [fold_left]. apply IH. destruct (vhits c f slot); [|exact H].
  apply sort_ticks_in, in_or_app. left. exact H.
Qed.

Lemma ct_after_app a b base f slot : ct_after (a ++ b) base f slot = ct_after b (ct_after a base f slot) f slot.
Proof. unfold ct_after. apply fold_left_app. Qed.

Lemma vhits_self c : c_kind c = KVar -> vhits c (c_fid c) (c_off c) = true.
Proof. intros H. unfold vhits. rewrite H, N.eqb_refl, Z.eqb_refl. reflexivity. Qed.

Lemma ct_after_in cs : forall base c r,
  In c cs -> c_kind c = KVar -> In r (c_data c) -> In r (ct_after cs base (c_fid c) (c_off c)).
Proof.
  induction cs as [|c0 cs IH]; intros base c r Hin Hk Hr; [destruct Hin|].
  change (c0 :: cs) with ([c0] ++ cs). rewrite ct_after_app. destruct Hin as [->|Hin].
  - apply ct_after_mono. unfold ct_after. cbn [fold_left]. rewrite vhits_self by assumption.
    apply sort_ticks_in, in_or_app. right. exact Hr.
  - apply IH; assumption.
Qed.

Lemma ct_after_novar cs base f slot : no_var cs -> ct_after cs base f slot = base.
Proof.
  unfold ct_after. revert base. induction cs as [|c cs IH]; intros base H; [reflexivity|].
  inversion H; subst. cbn [fold_left].
  assert (vhits c f slot = false) as -> by (unfold vhits; rewrite H2; reflexivity).
  apply IH. assumption.
Qed.

Lemma no_var_app a b : no_var (a ++ b) <-> no_var a /\ no_var b.
Proof. unfold no_var. apply Forall_app. Qed.

Section WithClen.
  Variable clen : list record -> Z.
  Hypothesis clen_pos : forall x, 0 < clen x.

  (** every TG of [tgs] has been applied to the files, in order, and nothing else *)
  Record FClean (fs : files) (tgs : list tg) : Prop := {
    fc_vinv : files_vinv fs;
    fc_ok : all_ok fs (cmds_of tgs);
    fc_fx : forall f off, fx_get fs f off = lastw (cmds_of tgs) f off;
    fc_ct : forall f slot, content fs f slot = ct_after (cmds_of tgs) [] f slot
  }.

  (** the TGs of [tgs] are applied; of [t] an arbitrary part of its fixed writes and a prefix-per-file
      of its variable appends *)
  Record FPartial (fs : files) (tgs : list tg) (t : tg) : Prop := {
    fp_vinv : files_vinv fs;
    fp_ok : all_ok fs (cmds_of (tgs ++ [t]));
    fp_fx : forall f off, fx_get fs f off = lastw (cmds_of tgs) f off \/ lastw (snd t) f off <> None;
    fp_ct : forall f slot r, In r (ct_after (cmds_of tgs) [] f slot) -> In r (content fs f slot);
    fp_ct_exact : no_var (snd t) -> forall f slot, content fs f slot = ct_after (cmds_of tgs) [] f slot
  }.

  (** what the recovered files are, relative to the committed TGs [all] *)
  Record Recovered (fs' : files) (all replayed : list tg) : Prop := {
    rc_vinv : files_vinv fs';
    rc_fx : forall f off, fx_get fs' f off = lastw (cmds_of all) f off;
    rc_present : forall c r, In c (cmds_of all) -> c_kind c = KVar -> In r (c_data c) ->
                             In r (content fs' (c_fid c) (c_off c));
    rc_exact : no_var (cmds_of replayed) -> forall f slot, content fs' f slot = ct_after (cmds_of all) [] f slot
  }.

  Lemma all_ok_app fs a b : all_ok fs (a ++ b) <-> all_ok fs a /\ all_ok fs b.
  Proof. unfold all_ok. apply Forall_app. Qed.

  Theorem recovered_clean fs G cur :
    FClean fs (G ++ cur) ->
    Recovered (fapplys fs (fexec clen fs (cmds_of cur))) (G ++ cur) cur.
  Proof.
    intros [Hv Hok Hfx Hct]. rewrite cmds_of_app in Hok.
    apply all_ok_app in Hok as [_ Hokc].
    destruct (fexec_ok clen clen_pos (cmds_of cur) fs Hv Hokc) as (_ & Hv' & Hfx' & Hct').
    constructor.
    - exact Hv'.
    - intros f off. rewrite Hfx', Hfx, cmds_of_app. apply lastw_replay_suffix.
    - intros c r Hin Hk Hr. rewrite Hct'. apply ct_after_mono. rewrite Hct.
      apply ct_after_in; assumption.
    - intros Hnv f slot. rewrite Hct', ct_after_novar by assumption. apply Hct.
  Qed.

  Theorem recovered_partial fs G cur t :
    FPartial fs (G ++ cur) t ->
    Recovered (fapplys fs (fexec clen fs (cmds_of (cur ++ [t])))) ((G ++ cur) ++ [t]) (cur ++ [t]).
  Proof.
    intros [Hv Hok Hfx Hct Hcte].
    assert (Hokc : all_ok fs (cmds_of (cur ++ [t]))).
    { rewrite <- app_assoc, cmds_of_app in Hok. apply all_ok_app in Hok as [_ H]. exact H. }
    destruct (fexec_ok clen clen_pos _ fs Hv Hokc) as (_ & Hv' & Hfx' & Hct').
    assert (Ht : cmds_of [t] = snd t) by (unfold cmds_of; cbn; apply app_nil_r).
    constructor.
    - exact Hv'.
    - intros f off. rewrite Hfx'. rewrite <- app_assoc. rewrite (cmds_of_app G).
      rewrite (lastw_app (cmds_of G)).
      destruct (lastw (cmds_of (cur ++ [t])) f off) as [v|] eqn:E; cbn [over]; [reflexivity|].
      (* the slot is touched neither by cur nor by t *)
      rewrite cmds_of_app, lastw_app, Ht in E.
      destruct (lastw (snd t) f off) eqn:Et; [discriminate|]. cbn [over] in E.
      destruct (Hfx f off) as [H|H]; [|congruence].
      rewrite H, cmds_of_app, lastw_app, E. reflexivity.
    - intros c r Hin Hk Hr. rewrite Hct'.
      rewrite cmds_of_app in Hin. apply in_app_or in Hin as [Hin|Hin].
      + apply ct_after_mono, Hct. apply ct_after_in; assumption.
      + rewrite cmds_of_app, ct_after_app. apply ct_after_in; assumption.
    - intros Hnv f slot. rewrite Hct', ct_after_novar by assumption.
      rewrite cmds_of_app in Hnv. apply no_var_app in Hnv as [_ Hnvt]. rewrite Ht in Hnvt.
      rewrite (Hcte Hnvt). rewrite (cmds_of_app (G ++ cur)), ct_after_app, Ht.
      rewrite (ct_after_novar (snd t)) by assumption. reflexivity.
  Qed.
End WithClen.
