(** Proofs about Model/SqlSel.v (C20): select list / aliases / LIMIT / INSERT INTO on the guarded domain.
    Structure:
      A. last-writer-wins slot map: sortedness, lookup characterisation of [write_rows];
      B. association-list / ColumnSeries facts (Project, Rename, RestrictLength);
      C. the rename chain of a collision-free select list (invariant over processed / pending items);
      D. Materialize on the guarded domain = the relational SELECT (uses C19's materialize_spec);
      E. INSERT INTO = by-name last-writer-wins insertion of the relational result. *)
From Coq Require Import ZArith List Bool String Ascii Lia Sorted.
From Flocq Require Import IEEE754.BinarySingleNaN.
Require Import MS.Base.GoInt MS.Base.Res MS.Base.FGen MS.Base.F32 MS.Base.F64.
Require Import MS.Generated.Src_io MS.Generated.Src_sql MS.Model.Sql MS.Model.SqlSel MS.Proofs.Sql_facts.
Import ListNotations.
Local Open Scope Z_scope.

(** ================= A. the slot map ================= *)
Fixpoint find_row (e : Z) (store : list row) : option (list cell) :=
  match store with
  | [] => None
  | r :: rest => if r_epoch r =? e then Some (r_vals r) else find_row e rest
  end.

Definition sorted_store (store : list row) : Prop := StronglySorted (fun a b => r_epoch a < r_epoch b) store.

Lemma lww_epochs e v store x : In x (lww e v store) -> r_epoch x = e \/ In x store.
Proof.
  induction store as [|r rest IH]; simpl.
  - intros [<-|[]]. left. reflexivity.
  - destruct (e <? r_epoch r); [intros [<-|H]; [left; reflexivity | right; exact H]|].
    destruct (e =? r_epoch r); [intros [<-|H]; [left; reflexivity | right; right; exact H]|].
    intros [<-|H]; [right; left; reflexivity|]. destruct (IH H); [left | right; right]; assumption.
Qed.

Lemma lww_sorted e v store : sorted_store store -> sorted_store (lww e v store).
Proof.
  unfold sorted_store. induction 1 as [|r rest Hs IH Hall]; simpl.
  - constructor; constructor.
  - destruct (Z.ltb_spec e (r_epoch r)).
    + constructor; [constructor; assumption|]. constructor; [simpl; lia|].
      rewrite Forall_forall in *. intros y Hy. specialize (Hall y Hy). simpl. lia.
    + destruct (Z.eqb_spec e (r_epoch r)).
      * constructor; [assumption|]. rewrite Forall_forall in *. intros y Hy. specialize (Hall y Hy). simpl. lia.
      * constructor; [exact IH|]. rewrite Forall_forall in *. intros y Hy.
        destruct (lww_epochs _ _ _ _ Hy) as [E|Hin]; [lia | apply Hall; exact Hin].
Qed.

Lemma find_row_lt e store : sorted_store store -> (forall x, In x store -> e < r_epoch x) -> find_row e store = None.
Proof.
  induction store as [|r rest IH]; intros Hs Hlt; [reflexivity|]. simpl.
  destruct (Z.eqb_spec (r_epoch r) e); [specialize (Hlt r (or_introl eq_refl)); lia|].
  apply IH; [inversion Hs; assumption | intros x Hx; apply Hlt; right; exact Hx].
Qed.

Lemma lww_find e v store e' : sorted_store store ->
  find_row e' (lww e v store) = if e' =? e then Some v else find_row e' store.
Proof.
  unfold sorted_store. induction 1 as [|r rest Hs IH Hall]; simpl.
  - rewrite (Z.eqb_sym e e'). destruct (e' =? e); reflexivity.
  - rewrite Forall_forall in Hall. destruct (Z.ltb_spec e (r_epoch r)).
    + cbn [find_row r_epoch r_vals]. rewrite (Z.eqb_sym e e'). destruct (e' =? e); reflexivity.
    + destruct (Z.eqb_spec e (r_epoch r)) as [E|NE].
      * cbn [find_row r_epoch r_vals]. rewrite (Z.eqb_sym e e'). destruct (Z.eqb_spec e' e) as [E'|NE']; [reflexivity|].
        destruct (Z.eqb_spec (r_epoch r) e'); [lia | reflexivity].
      * cbn [find_row]. destruct (Z.eqb_spec (r_epoch r) e') as [E'|NE'].
        -- destruct (Z.eqb_spec e' e); [lia | reflexivity].
        -- exact IH.
Qed.

Lemma write_rows_sorted ttfs evs store : sorted_store store -> sorted_store (write_rows ttfs evs store).
Proof.
  unfold write_rows. revert store. induction evs as [|ev evs IH]; intros store H; simpl; [exact H|].
  apply IH. apply lww_sorted. exact H.
Qed.

(** the values found at slot [e'] afterwards: those of the LAST written row that falls into that slot *)
Fixpoint last_in_slot (ttfs e' : Z) (evs : list (Z * list cell)) (acc : option (list cell)) : option (list cell) :=
  match evs with
  | [] => acc
  | ev :: r => last_in_slot ttfs e' r (if trunc_tf ttfs (fst ev) =? e' then Some (snd ev) else acc)
  end.

Theorem write_rows_find ttfs evs store e' : sorted_store store ->
  find_row e' (write_rows ttfs evs store) = last_in_slot ttfs e' evs (find_row e' store).
Proof.
  unfold write_rows. revert store. induction evs as [|ev evs IH]; intros store H; simpl; [reflexivity|].
  rewrite IH by (apply lww_sorted; exact H). rewrite (lww_find _ _ _ _ H).
  rewrite (Z.eqb_sym (trunc_tf ttfs (fst ev)) e'). reflexivity.
Qed.

(** every slot written lies on the target grid *)
Lemma trunc_tf_aligned ttfs e : 0 < ttfs -> trunc_tf ttfs e mod ttfs = 0 /\ trunc_tf ttfs e <= e < trunc_tf ttfs e + ttfs.
Proof.
  intros H. unfold trunc_tf. pose proof (Z.mod_pos_bound e ttfs H). split; [|lia].
  rewrite Zminus_mod, Z.mod_mod, Z.sub_diag by lia. reflexivity.
Qed.

(** ================= B. association lists and ColumnSeries operations ================= *)
Lemma assoc_del_same {A} n (l : list (string * A)) : assoc n (assoc_del n l) = None.
Proof.
  induction l as [|[k v] l IH]; simpl; [reflexivity|].
  destruct (String.eqb k n) eqn:E; simpl; [exact IH | rewrite E; exact IH].
Qed.

Lemma assoc_del_other {A} n m (l : list (string * A)) : n <> m -> assoc m (assoc_del n l) = assoc m l.
Proof.
  intros Hne. induction l as [|[k v] l IH]; simpl; [reflexivity|].
  destruct (String.eqb k n) eqn:E; simpl.
  - apply String.eqb_eq in E. subst k. destruct (String.eqb n m) eqn:E'; [apply String.eqb_eq in E'; contradiction | exact IH].
  - destruct (String.eqb k m); [reflexivity | exact IH].
Qed.

Lemma assoc_map_val {A B} (g : A -> B) n (l : list (string * A)) :
  assoc n (map (fun kv => (fst kv, g (snd kv))) l) = option_map g (assoc n l).
Proof. induction l as [|[k v] l IH]; simpl; [reflexivity|]. destruct (String.eqb k n); [reflexivity | exact IH]. Qed.

Lemma assoc_in {A} n (l : list (string * A)) : In n (map fst l) -> exists v, assoc n l = Some v.
Proof.
  induction l as [|[k v] l IH]; simpl; [intros []|]. intros [E|H].
  - subst k. rewrite String.eqb_refl. eauto.
  - destruct (String.eqb k n); [eauto | apply IH; exact H].
Qed.

Lemma assoc_some_in {A} n (l : list (string * A)) v : assoc n l = Some v -> In n (map fst l).
Proof.
  induction l as [|[k w] l IH]; simpl; [discriminate|]. destruct (String.eqb k n) eqn:E.
  - apply String.eqb_eq in E. intros _. left. exact E.
  - intros H. right. apply IH. exact H.
Qed.

Lemma assoc_self_map {B} (f : string -> B) n (l : list string) :
  assoc n (map (fun k => (k, f k)) l) = if existsb (String.eqb n) l then Some (f n) else None.
Proof.
  induction l as [|k l IH]; simpl; [reflexivity|]. rewrite (String.eqb_sym n k).
  destruct (String.eqb k n) eqn:E; simpl; [apply String.eqb_eq in E; subst k; reflexivity | exact IH].
Qed.

Lemma eqfold_refl a : eqfold a a = true.
Proof. unfold eqfold. apply String.eqb_refl. Qed.

Lemma getters_from_names j sc : map fst (getters_from j sc) = map fst sc.
Proof. revert j. induction sc as [|[n t] sc IH]; intros j; simpl; [reflexivity|]. f_equal. apply IH. Qed.

Lemma getters_names sc : map fst (getters sc) = epoch_name :: map fst sc.
Proof. unfold getters. simpl. f_equal. apply getters_from_names. Qed.

Lemma t_get_cs_of sc R n : t_get n (cs_of sc R) = option_map (fun f => map f R) (assoc n (getters sc)).
Proof. unfold t_get, cs_of. cbn [t_cols]. apply (assoc_map_val (fun f => map f R)). Qed.

Lemma col_of_getter sc R n :
  col_of sc R n = match assoc n (getters sc) with Some f => map f R | None => [] end.
Proof. unfold col_of. rewrite t_get_cs_of. destruct (assoc n (getters sc)); reflexivity. Qed.

Lemma col_of_firstn sc R n k : col_of sc (firstn k R) n = firstn k (col_of sc R n).
Proof.
  rewrite !col_of_getter. destruct (assoc n (getters sc)); [symmetry; apply firstn_map | destruct k; reflexivity].
Qed.

Lemma col_of_nil sc n : col_of sc [] n = [].
Proof. rewrite col_of_getter. destruct (assoc n (getters sc)); reflexivity. Qed.

Lemma t_get_valid sc R n : In n (epoch_name :: map fst sc) -> t_get n (cs_of sc R) = Some (col_of sc R n).
Proof.
  intros H. rewrite <- getters_names in H. destruct (assoc_in _ _ H) as [f Hf].
  rewrite t_get_cs_of, col_of_getter, Hf. reflexivity.
Qed.

Lemma existsb_eqb_in n l : existsb (String.eqb n) l = true <-> In n l.
Proof.
  rewrite existsb_exists. split.
  - intros (x & Hx & E). apply String.eqb_eq in E. subst x. exact Hx.
  - intros H. exists n. split; [exact H | apply String.eqb_refl].
Qed.

Lemma project_cs_of sc R keep :
  (forall n, In n keep -> In n (epoch_name :: map fst sc)) ->
  t_project keep (cs_of sc R) = mktbl keep (map (fun n => (n, col_of sc R n)) keep).
Proof.
  intros H. unfold t_project.
  assert (E : filter (fun n => t_exists n (cs_of sc R)) keep = keep).
  { induction keep as [|k keep IH]; simpl; [reflexivity|].
    unfold t_exists at 1. rewrite (t_get_valid sc R k) by (apply H; left; reflexivity).
    f_equal. apply IH. intros n Hn. apply H. right. exact Hn. }
  rewrite E. f_equal.
  induction keep as [|k keep IH]; simpl; [reflexivity|].
  rewrite (t_get_valid sc R k) by (apply H; left; reflexivity). simpl. f_equal.
  apply IH. intros n Hn. apply H. right. exact Hn.
  simpl in E. unfold t_exists at 1 in E. rewrite (t_get_valid sc R k) in E by (apply H; left; reflexivity).
  inversion E as [E']. rewrite E'. exact E'.
Qed.

Lemma t_get_restrict k n t : t_get n (t_restrict k t) = option_map (firstn k) (t_get n t).
Proof. unfold t_get, t_restrict. cbn [t_cols]. apply (assoc_map_val (firstn k)). Qed.

Lemma t_view_restrict k t :
  t_view (t_restrict k t) = map (fun nc => (fst nc, option_map (firstn k) (snd nc))) (t_view t).
Proof.
  unfold t_view. cbn [t_restrict t_names]. rewrite map_map. apply map_ext. intros n. cbn [fst snd].
  rewrite t_get_restrict. reflexivity.
Qed.

(** ================= C. the rename chain ================= *)
Section Renames.
Variable col : string -> list cell.          (* the data of each source column *)

Definition Inv (done rest : list sel_item) (T : tbl) : Prop :=
  t_names T = map out_name done ++ map fst rest
  /\ (forall it, In it done -> t_get (out_name it) T = Some (col (fst it)))
  /\ (forall it, In it rest -> t_get (fst it) T = Some (col (fst it)))
  /\ (forall n, t_exists n T = true -> In n (t_names T)).

Lemma map_repl_notin (p a : string) l : ~ In p l -> map (fun n => if String.eqb n p then a else n) l = l.
Proof.
  induction l as [|x l IH]; intros H; simpl; [reflexivity|].
  destruct (String.eqb x p) eqn:E; [apply String.eqb_eq in E; subst x; exfalso; apply H; left; reflexivity|].
  f_equal. apply IH. intros Hin. apply H. right. exact Hin.
Qed.

Lemma rename_step done p a rest' T :
  Inv done ((p, Some a) :: rest') T ->
  a <> p -> ~ In a (t_names T) -> ~ In p (map out_name done) -> ~ In p (map fst rest') ->
  exists T', t_rename a p T = Ok T' /\ Inv (done ++ [(p, Some a)]) rest' T'.
Proof.
  intros (I1 & I2 & I3 & I4) Hap Ha Hpd Hpr.
  assert (Hgp : t_get p T = Some (col p)) by (apply (I3 (p, Some a)); left; reflexivity).
  assert (Hea : t_exists a T = false).
  { destruct (t_exists a T) eqn:E; [|reflexivity]. exfalso. apply Ha. apply I4. exact E. }
  assert (Eap : String.eqb a p = false) by (apply String.eqb_neq; exact Hap).
  assert (Epa : String.eqb p a = false) by (rewrite String.eqb_sym; exact Eap).
  unfold t_rename. rewrite Hgp, Hea. unfold t_add. rewrite Hea.
  unfold t_remove at 1. unfold t_exists at 1, t_get at 1. cbn [t_cols assoc]. rewrite Eap.
  rewrite (assoc_del_other a p (t_cols T) Hap). fold (t_get p T). rewrite Hgp.
  eexists. split; [reflexivity|].
  cbn [t_names t_cols]. unfold assoc_del at 1. cbn [filter fst]. rewrite Eap. cbn [negb].
  fold (assoc_del p (assoc_del a (t_cols T))).
  (* the lookups of the new table *)
  assert (G : forall n, t_get n (mktbl (map (fun n0 => if String.eqb n0 p then a else n0) (t_names T))
                                        ((a, col p) :: assoc_del p (assoc_del a (t_cols T))))
                       = if String.eqb a n then Some (col p) else if String.eqb p n then None else t_get n T).
  { intros n. unfold t_get. cbn [t_cols assoc]. destruct (String.eqb a n) eqn:E1; [reflexivity|].
    destruct (String.eqb p n) eqn:E2.
    - apply String.eqb_eq in E2. subst n. apply assoc_del_same.
    - apply String.eqb_neq in E1, E2. rewrite (assoc_del_other p n _ E2), (assoc_del_other a n _ E1). reflexivity. }
  assert (N : map (fun n0 => if String.eqb n0 p then a else n0) (t_names T)
              = map out_name (done ++ [(p, Some a)]) ++ map fst rest').
  { rewrite I1, map_app. cbn [map fst]. rewrite String.eqb_refl.
    rewrite (map_repl_notin p a _ Hpd), (map_repl_notin p a _ Hpr).
    rewrite map_app. cbn [map out_name snd]. rewrite <- app_assoc. reflexivity. }
  split; [exact N|]. split; [|split].
  - intros it Hit. rewrite G. apply in_app_or in Hit. destruct Hit as [Hd|[<-|[]]].
    + assert (Hn1 : out_name it <> a).
      { intros E. apply Ha. rewrite I1. apply in_or_app. left. rewrite <- E. apply in_map. exact Hd. }
      assert (Hn2 : out_name it <> p).
      { intros E. apply Hpd. rewrite <- E. apply in_map. exact Hd. }
      apply not_eq_sym in Hn1, Hn2. apply String.eqb_neq in Hn1, Hn2. rewrite Hn1, Hn2. apply I2. exact Hd.
    + cbn [out_name snd fst]. rewrite String.eqb_refl. reflexivity.
  - intros it Hit. rewrite G.
    assert (Hn1 : fst it <> a).
    { intros E. apply Ha. rewrite I1. apply in_or_app. right. right. rewrite <- E. apply in_map. exact Hit. }
    assert (Hn2 : fst it <> p).
    { intros E. apply Hpr. rewrite <- E. apply in_map. exact Hit. }
    apply not_eq_sym in Hn1, Hn2. apply String.eqb_neq in Hn1, Hn2. rewrite Hn1, Hn2. apply I3. right. exact Hit.
  - intros n Hex. unfold t_exists in Hex. rewrite G in Hex. cbn [t_names]. rewrite N.
    destruct (String.eqb a n) eqn:E1.
    + apply String.eqb_eq in E1. subst n. apply in_or_app. left. rewrite map_app. apply in_or_app. right. left. reflexivity.
    + destruct (String.eqb p n) eqn:E2; [discriminate Hex|].
      assert (Hin : In n (t_names T)) by (apply I4; unfold t_exists; destruct (t_get n T); [reflexivity | discriminate Hex]).
      rewrite I1 in Hin. apply in_app_or in Hin. rewrite map_app. destruct Hin as [Hin|[E|Hin]].
      * apply in_or_app. left. apply in_or_app. left. exact Hin.
      * subst n. rewrite String.eqb_refl in E2. discriminate.
      * apply in_or_app. right. exact Hin.
Qed.

(** what a collision-free select list guarantees at each aliased item *)
Definition Good (l : list sel_item) : Prop :=
  forall done p a rest', l = done ++ (p, Some a) :: rest' ->
    a <> p /\ ~ In a (map out_name done) /\ ~ In a (map fst ((p, Some a) :: rest'))
    /\ ~ In p (map out_name done) /\ ~ In p (map fst rest').

Lemma renames_chain l : Good l ->
  forall rest done T, l = done ++ rest -> Inv done rest T ->
  exists T', apply_renames rest T = Ok T' /\ Inv l [] T'.
Proof.
  intros HG. induction rest as [|[p [a|]] rest IH]; intros done T El HI.
  - exists T. split; [reflexivity|]. rewrite app_nil_r in El. subst l. exact HI.
  - destruct (HG done p a rest El) as (F3 & F1a & F1b & F2a & F2b).
    assert (Ha : ~ In a (t_names T)).
    { destruct HI as (I1 & _). rewrite I1. intros Hin. apply in_app_or in Hin. destruct Hin; contradiction. }
    destruct (rename_step done p a rest T HI F3 Ha F2a F2b) as (T1 & E1 & HI1).
    destruct (IH (done ++ [(p, Some a)]) T1) as (T' & E' & HI'); [rewrite <- app_assoc; exact El | exact HI1|].
    exists T'. split; [|exact HI']. cbn [apply_renames]. rewrite E1. exact E'.
  - destruct (IH (done ++ [(p, None)]) T) as (T' & E' & HI'); [rewrite <- app_assoc; exact El | |].
    + destruct HI as (I1 & I2 & I3 & I4). split; [|split; [|split]].
      * rewrite I1, map_app. cbn [map out_name snd fst]. rewrite <- app_assoc. reflexivity.
      * intros it Hit. apply in_app_or in Hit. destruct Hit as [Hd|[<-|[]]]; [apply I2; exact Hd|].
        cbn [out_name snd fst]. apply (I3 (p, None)). left. reflexivity.
      * intros it Hit. apply I3. right. exact Hit.
      * exact I4.
    + exists T'. split; [exact E' | exact HI'].
Qed.

Lemma inv_final_view l T : Inv l [] T -> t_view T = map (fun it => (out_name it, Some (col (fst it)))) l.
Proof.
  intros (I1 & I2 & _ & _). unfold t_view. rewrite I1, app_nil_r, map_map.
  apply map_ext_in. intros it Hit. rewrite (I2 it Hit). reflexivity.
Qed.
End Renames.

Lemma aliases_app l1 l2 : aliases (l1 ++ l2) = aliases l1 ++ aliases l2.
Proof. unfold aliases. apply flat_map_app. Qed.

Lemma fold_distinct_app xs a ys : fold_distinct (xs ++ a :: ys) = true -> forall x, In x xs -> eqfold x a = false.
Proof.
  induction xs as [|y xs IH]; intros H x Hx; [destruct Hx|]. simpl in H. apply andb_true_iff in H. destruct H as [H1 H2].
  destruct Hx as [<-|Hx]; [|apply IH; assumption].
  apply negb_true_iff in H1. destruct (eqfold y a) eqn:E; [|reflexivity].
  assert (existsb (eqfold y) (xs ++ a :: ys) = true); [|congruence].
  apply existsb_exists. exists a. split; [apply in_or_app; right; left; reflexivity | exact E].
Qed.

Lemma filter_length_in (p : string) xs : In p xs -> (1 <= List.length (filter (String.eqb p) xs))%nat.
Proof.
  induction xs as [|x xs IH]; intros H; [destruct H|]. simpl. destruct H as [->|H].
  - rewrite String.eqb_refl. simpl. lia.
  - destruct (String.eqb p x); simpl; [lia | apply IH; exact H].
Qed.

Lemma count_one_split p xs ys : count_eq p (xs ++ p :: ys) = 1%nat -> ~ In p xs /\ ~ In p ys.
Proof.
  unfold count_eq. rewrite filter_app, app_length. cbn [filter]. rewrite String.eqb_refl. cbn [List.length].
  intros H. split; intros Hin; apply filter_length_in in Hin; lia.
Qed.

Lemma collision_free_good l : alias_collision (SelList l) = false -> Good l.
Proof.
  unfold alias_collision. intros H. apply negb_false_iff in H. rewrite !andb_true_iff in H. destruct H as [[A1 A2] A3].
  rewrite forallb_forall in A1, A3.
  intros done p a rest' El.
  assert (Hal : aliases l = aliases done ++ a :: aliases rest').
  { rewrite El, aliases_app. reflexivity. }
  assert (Hpr : map fst l = map fst done ++ p :: map fst rest').
  { rewrite El, map_app. reflexivity. }
  assert (Ha : In a (aliases l)) by (rewrite Hal; apply in_or_app; right; left; reflexivity).
  pose proof (A1 a Ha) as A1a. cbn [forallb] in A1a. apply andb_true_iff in A1a. destruct A1a as [_ A1a].
  rewrite forallb_forall in A1a.
  assert (NP : forall q, In q (map fst l) -> a <> q).
  { intros q Hq E. specialize (A1a q Hq). rewrite <- E, eqfold_refl in A1a. discriminate. }
  assert (Hcnt : count_eq p (map fst l) = 1%nat).
  { specialize (A3 (p, Some a)). cbn [snd fst] in A3. apply Nat.eqb_eq. apply A3. rewrite El. apply in_or_app. right. left. reflexivity. }
  rewrite Hpr in Hcnt. destruct (count_one_split _ _ _ Hcnt) as [C1 C2].
  split; [|split; [|split; [|split]]].
  - apply NP. rewrite Hpr. apply in_or_app. right. left. reflexivity.
  - intros Hin. apply in_map_iff in Hin. destruct Hin as ([q [a'|]] & E & Hd); cbn [out_name snd fst] in E.
    + subst a'. rewrite Hal in A2. pose proof (fold_distinct_app _ _ _ A2 a) as F.
      rewrite eqfold_refl in F. assert (In a (aliases done)); [|specialize (F H); discriminate].
      unfold aliases. apply in_flat_map. exists (q, Some a). split; [exact Hd | left; reflexivity].
    + subst q. apply (NP a); [|reflexivity]. rewrite Hpr. apply in_or_app. left. apply in_map_iff. exists (a, None). auto.
  - intros Hin. apply (NP a); [|reflexivity]. rewrite Hpr. apply in_or_app. right. exact Hin.
  - intros Hin. apply in_map_iff in Hin. destruct Hin as ([q [a'|]] & E & Hd); cbn [out_name snd fst] in E.
    + subst a'. assert (Hin' : In p (aliases l)).
      { rewrite Hal. apply in_or_app. left. unfold aliases. apply in_flat_map. exists (q, Some p). split; [exact Hd | left; reflexivity]. }
      pose proof (A1 p Hin') as B. cbn [forallb] in B. apply andb_true_iff in B. destruct B as [_ B]. rewrite forallb_forall in B.
      assert (In p (map fst l)) by (rewrite Hpr; apply in_or_app; right; left; reflexivity).
      specialize (B p H). rewrite eqfold_refl in B. discriminate.
    + subst q. apply C1. apply in_map_iff. exists (p, None). auto.
  - exact C2.
Qed.

(** ================= D. the SELECT on the guarded domain ================= *)
Definition view_of (sc : schema) (R : list row) (s : sel) : view :=
  match s with
  | SelAll => map (fun n => (n, Some (col_of sc R n))) (epoch_name :: map fst sc)
  | SelList l => map (fun it => (out_name it, Some (col_of sc R (fst it)))) l
  end.

Lemma spec_q_view_of sc rows ps s lim : spec_q sc rows ps s lim = view_of sc (spec_rows sc rows ps lim) s.
Proof. destruct s; reflexivity. Qed.

Lemma view_cs_of sc R : t_view (cs_of sc R) = view_of sc R SelAll.
Proof.
  unfold t_view, view_of. cbn [cs_of t_names]. rewrite getters_names. apply map_ext_in. intros n Hn.
  rewrite (t_get_valid sc R n Hn). reflexivity.
Qed.

Definition project_sel (sc : schema) (s : sel) (t0 : tbl) : Res tbl :=
  match s with
  | SelAll => Ok t0
  | SelList l => apply_renames l (t_project (map fst l) t0)
  end.

Lemma projection_spec sc s R : sel_wf sc s = true -> alias_collision s = false ->
  exists t1, project_sel sc s (cs_of sc R) = Ok t1 /\ t_view t1 = view_of sc R s.
Proof.
  intros Hwf Hac. destruct s as [|l]; cbn [project_sel].
  - exists (cs_of sc R). split; [reflexivity | apply view_cs_of].
  - cbn [sel_wf] in Hwf. apply andb_true_iff in Hwf. destruct Hwf as [_ Hval]. rewrite forallb_forall in Hval.
    assert (Hkeep : forall n, In n (map fst l) -> In n (epoch_name :: map fst sc)).
    { intros n Hn. apply in_map_iff in Hn. destruct Hn as (it & <- & Hit). apply existsb_eqb_in. apply Hval. exact Hit. }
    rewrite (project_cs_of sc R (map fst l) Hkeep).
    set (P := mktbl (map fst l) (map (fun n => (n, col_of sc R n)) (map fst l))).
    assert (HI : Inv (col_of sc R) [] l P).
    { unfold Inv, P. cbn [t_names map app]. split; [reflexivity|]. split; [intros it []|]. split.
      - intros it Hit. unfold t_get. cbn [t_cols]. rewrite (assoc_self_map (col_of sc R)).
        replace (existsb (String.eqb (fst it)) (map fst l)) with true; [reflexivity|].
        symmetry. apply existsb_eqb_in. apply in_map. exact Hit.
      - intros n Hex. unfold t_exists, t_get in Hex. cbn [t_cols] in Hex. rewrite (assoc_self_map (col_of sc R)) in Hex.
        destruct (existsb (String.eqb n) (map fst l)) eqn:E; [|discriminate Hex]. apply existsb_eqb_in. exact E. }
    destruct (renames_chain (col_of sc R) l (collision_free_good l Hac) l [] P eq_refl HI) as (T' & E' & HI').
    exists T'. split; [exact E' | apply (inv_final_view (col_of sc R)); exact HI'].
Qed.

Lemma view_of_firstn sc R s k :
  map (fun nc : string * option (list cell) => (fst nc, option_map (firstn k) (snd nc))) (view_of sc R s) = view_of sc (firstn k R) s.
Proof.
  destruct s as [|l]; cbn [view_of]; rewrite map_map; apply map_ext; intros x; cbn [fst snd option_map];
    rewrite col_of_firstn; reflexivity.
Qed.

Lemma view_of_nil_empty sc s n c : In (n, c) (view_of sc [] s) -> c = Some [].
Proof.
  destruct s as [|l]; cbn [view_of]; intros H; apply in_map_iff in H; destruct H as (x & E & _);
    inversion E; subst; rewrite col_of_nil; reflexivity.
Qed.

Lemma materialize_inv tfs sc rows ps : guard tfs sc rows ps = true ->
  existsb (fun ks => is_false (snd ks)) (build_group ps) = false ->
  exists se, pushdown (build_group ps) = Ok se /\
    (match scan tfs (fst se) (snd se) rows with
     | [] => []
     | _ => restrict (bm_or (match g_get epoch_name (build_group ps) with
                             | Some sp => ep_bitmap sp (map r_epoch (scan tfs (fst se) (snd se) rows))
                             | None => falses (List.length (scan tfs (fst se) (snd se) rows)) end)
                            (map (fun r => rm_row (build_group ps) sc (r_vals r)) (scan tfs (fst se) (snd se) rows)))
                     (scan tfs (fst se) (snd se) rows)
     end) = spec_select sc rows ps.
Proof.
  intros G EF. pose proof (materialize_spec tfs sc rows ps G) as H. unfold materialize in H. rewrite EF in H.
  destruct (pushdown (build_group ps)) as [se| |]; cbn [bindR] in H; try discriminate H.
  exists se. split; [reflexivity|]. destruct (scan tfs (fst se) (snd se) rows); inversion H; reflexivity.
Qed.

Lemma g_set_nonnil n s g : g_set n s g <> [].
Proof. destruct g as [|[k s0] g]; simpl; [discriminate|]. destruct (String.eqb k n); discriminate. Qed.

Lemma fold_merge_nonnil ps g : g <> [] -> fold_left merge_pred ps g <> [].
Proof.
  revert g. induction ps as [|p ps IH]; intros g H; simpl; [exact H|]. apply IH. unfold merge_pred. apply g_set_nonnil.
Qed.

Lemma build_group_nonnil p ps : build_group (p :: ps) <> [].
Proof. unfold build_group. cbn [fold_left]. apply fold_merge_nonnil. unfold merge_pred. apply g_set_nonnil. Qed.

Lemma rm_row_nil sc vals : rm_row [] sc vals = false.
Proof. revert vals. induction sc as [|[n t] sc IH]; intros [|v vals]; simpl; try reflexivity. apply IH. Qed.

Lemma filter_true {A} (l : list A) : filter (fun _ => true) l = l.
Proof. induction l; simpl; [reflexivity | f_equal; assumption]. Qed.

Theorem select_spec tfs sc rows ps s lim :
  guard_q tfs sc rows ps s lim = true ->
  exists t, materialize_q tfs sc rows ps s (lim_int lim) = Ok t
    /\ (spec_rows sc rows ps lim <> [] -> t_view t = spec_q sc rows ps s lim)
    /\ (spec_rows sc rows ps lim = [] -> forall n c, In (n, c) (t_view t) -> c = Some []).
Proof.
  unfold guard_q. rewrite !andb_true_iff, !negb_true_iff.
  intros (((((G & _) & Hwf) & Hac) & Hlz) & Hmax).
  pose proof (guard_dom _ _ _ _ G) as D.
  unfold materialize_q. rewrite spec_q_view_of.
  destruct (existsb (fun ks => is_false (snd ks)) (build_group ps)) eqn:EF.
  - (* IsFalse: no rows can match *)
    exists (mktbl [] []). split; [reflexivity|].
    assert (E : spec_rows sc rows ps lim = []).
    { destruct (existsb_is_false ps EF) as [c Hc]. unfold spec_rows.
      assert (E0 : spec_select sc rows ps = []) by (apply filter_none; intros r Hr; eapply is_false_sound; eassumption).
      rewrite E0. destruct lim as [k|]; [destruct k|]; reflexivity. }
    split; [intros H; contradiction | intros _ n c []].
  - assert (Hvalid : forallb (fun n => existsb (String.eqb n) (epoch_name :: map fst sc))
                        (match s with SelAll => [] | SelList l => map fst l end) = true).
    { destruct s as [|l]; [reflexivity|]. cbn [sel_wf] in Hwf. apply andb_true_iff in Hwf. destruct Hwf as [_ Hv].
      rewrite forallb_forall in *. intros n Hn. apply in_map_iff in Hn. destruct Hn as (it & <- & Hit). apply Hv. exact Hit. }
    rewrite Hvalid. cbn [negb].
    destruct (materialize_inv tfs sc rows ps G EF) as (se & EP & HK). rewrite EP. cbn [bindR].
    (* the rows that survive scan + post-filter, and the facts about them, in both LIMIT push-down cases *)
    set (SC := match build_group ps with
               | [] => if lim_int lim =? 0 then scan tfs (fst se) (snd se) rows
                       else firstn (Z.to_nat (lim_int lim)) (scan tfs (fst se) (snd se) rows)
               | _ :: _ => scan tfs (fst se) (snd se) rows end).
    set (kept_of := fun scanned : list row =>
           restrict (bm_or (match g_get epoch_name (build_group ps) with
                            | Some sp => ep_bitmap sp (map r_epoch scanned)
                            | None => falses (List.length scanned) end)
                           (map (fun r => rm_row (build_group ps) sc (r_vals r)) scanned)) scanned).
    assert (HX : exists X, (SC <> [] -> kept_of SC = X) /\ (SC = [] -> spec_rows sc rows ps lim = [])
                 /\ (SC <> [] -> (if lim_int lim =? 0 then X else firstn (Z.to_nat (lim_int lim)) X) = spec_rows sc rows ps lim)).
    { destruct ps as [|p ps'].
      - (* no predicate: LIMIT is pushed to the scan *)
        change (build_group []) with (@nil (string * sp)) in *. cbn [pushdown g_get] in EP. inversion EP; subst se. cbn [fst snd] in *.
        assert (Escan : scan tfs None None rows = rows) by (unfold scan, in_scan; cbn; apply filter_true).
        unfold SC, kept_of. rewrite Escan. unfold spec_rows, spec_select. cbn [forallb]. rewrite filter_true.
        set (S0 := if lim_int lim =? 0 then rows else firstn (Z.to_nat (lim_int lim)) rows).
        exists S0. split; [|split].
        + intros _. cbn [g_get]. rewrite falses_map. rewrite (restrict_maps (fun _ => false) (fun r => rm_row [] sc (r_vals r))).
          rewrite (filter_ext_in' _ (fun _ => true)) by (intros r _; rewrite rm_row_nil; reflexivity).
          apply filter_true.
        + unfold S0. destruct lim as [k|]; cbn [lim_int]; [|cbn; intros H; exact H].
          destruct k as [|k]; [discriminate Hlz|]. replace (Z.of_nat (S k) =? 0) with false by (symmetry; apply Z.eqb_neq; lia).
          rewrite Nat2Z.id. intros H; exact H.
        + intros _. unfold S0. destruct lim as [k|]; cbn [lim_int]; [|reflexivity].
          destruct k as [|k]; [discriminate Hlz|]. replace (Z.of_nat (S k) =? 0) with false by (symmetry; apply Z.eqb_neq; lia).
          rewrite Nat2Z.id. rewrite firstn_firstn, Nat.min_id. reflexivity.
      - pose proof (build_group_nonnil p ps') as NN. unfold SC, kept_of.
        destruct (build_group (p :: ps')) as [|g0 g'] eqn:EG; [contradiction|].
        exists (spec_select sc rows (p :: ps')). split; [|split].
        + intros Hne. rewrite <- HK. destruct (scan tfs (fst se) (snd se) rows); [contradiction | reflexivity].
        + intros H. rewrite H in HK. unfold spec_rows. rewrite <- HK. destruct lim as [k|]; [destruct k|]; reflexivity.
        + intros _. unfold spec_rows. destruct lim as [k|]; cbn [lim_int]; [|reflexivity].
          destruct k as [|k]; [discriminate Hlz|]. replace (Z.of_nat (S k) =? 0) with false by (symmetry; apply Z.eqb_neq; lia).
          rewrite Nat2Z.id. reflexivity. }
    destruct HX as (X & HKX & Hnil & Hcons). cbv zeta.
    destruct SC as [|x S'] eqn:ES.
    + exists (cs_of sc []). split; [reflexivity|]. specialize (Hnil eq_refl). split; [intros H; contradiction|].
      intros _ n c Hin. rewrite view_cs_of in Hin. eapply view_of_nil_empty. exact Hin.
    + assert (Hc : (if lim_int lim =? 0 then X else firstn (Z.to_nat (lim_int lim)) X) = spec_rows sc rows ps lim)
        by (apply Hcons; discriminate).
      change (restrict (bm_or (match g_get epoch_name (build_group ps) with
                               | Some sp => ep_bitmap sp (map r_epoch (x :: S'))
                               | None => falses (List.length (x :: S')) end)
                              (map (fun r => rm_row (build_group ps) sc (r_vals r)) (x :: S'))) (x :: S'))
        with (kept_of (x :: S')).
      rewrite (HKX ltac:(discriminate)).
      destruct (projection_spec sc s X Hwf Hac) as (t1 & E1 & V1). unfold project_sel in E1.
      assert (Egoal : forall (A : Type) (k : tbl -> Res A),
                 (do t <- match s with
                          | SelAll => Ok (cs_of sc X)
                          | SelList l => apply_renames l (t_project (match s with SelAll => [] | SelList l0 => map fst l0 end) (cs_of sc X))
                          end; k t) = k t1).
      { intros A k. destruct s as [|l]; cbv beta iota; rewrite E1; reflexivity. }
      rewrite Egoal.
      eexists. split; [reflexivity|].
      assert (V : t_view (if lim_int lim =? 0 then t1 else t_restrict (Z.to_nat (lim_int lim)) t1)
                  = view_of sc (spec_rows sc rows ps lim) s).
      { rewrite <- Hc. destruct (lim_int lim =? 0); [exact V1|]. rewrite t_view_restrict, V1. apply view_of_firstn. }
      rewrite V. split; [intros _; reflexivity|]. intros E n c Hin. rewrite E in Hin. eapply view_of_nil_empty. exact Hin.
Qed.

(** ================= E. INSERT INTO ================= *)
Lemma project_get keep t n :
  (forall k, In k keep -> t_exists k t = true) ->
  t_get n (t_project keep t) = if existsb (String.eqb n) keep then t_get n t else None.
Proof.
  intros H. unfold t_project.
  assert (E : filter (fun k => t_exists k t) keep = keep).
  { clear n. induction keep as [|k keep IH]; simpl; [reflexivity|]. rewrite (H k (or_introl eq_refl)). f_equal.
    apply IH. intros x Hx. apply H. right. exact Hx. }
  rewrite E. unfold t_get at 1. cbn [t_cols]. clear E.
  induction keep as [|k keep IH]; simpl; [reflexivity|].
  pose proof (H k (or_introl eq_refl)) as Hk. unfold t_exists in Hk. destruct (t_get k t) as [c|] eqn:Ek; [|discriminate Hk].
  cbn [app assoc]. rewrite (String.eqb_sym n k). destruct (String.eqb k n) eqn:E.
  - apply String.eqb_eq in E. subst k. cbn [orb]. symmetry. exact Ek.
  - cbn [orb]. apply IH. intros x Hx. apply H. right. exact Hx.
Qed.

Lemma view_col_get t n : In n (t_names t) ->
  view_col (t_view t) n = match t_get n t with Some c => c | None => [] end.
Proof.
  intros Hin. unfold view_col, t_view. rewrite (assoc_self_map (fun k => t_get k t)).
  replace (existsb (String.eqb n) (t_names t)) with true by (symmetry; apply existsb_eqb_in; exact Hin).
  reflexivity.
Qed.

Lemma insert_into_empty ttfs tsc tstore tnames t :
  t_names t = [] \/ (exists n0 rest, t_names t = n0 :: rest /\ t_get n0 t = Some []) ->
  insert_into ttfs tsc tstore tnames t = Ok tstore.
Proof.
  unfold insert_into. intros [E|(n0 & rest & E & G)]; rewrite E; [reflexivity|]. rewrite G. reflexivity.
Qed.

Lemma insert_into_by_name ttfs tsc tstore t tn n0 rest c0 :
  List.length tn = S (List.length tsc) ->
  (forall n, In n (epoch_name :: map fst tsc) -> In n tn) ->
  (forall n, In n tn -> In n (t_names t) /\ exists c, t_get n t = Some c) ->
  t_names t = n0 :: rest -> t_get n0 t = Some c0 -> c0 <> [] ->
  forallb (fun c => match c with VI _ => true | _ => false end) (view_col (t_view t) epoch_name) = true ->
  insert_into ttfs tsc tstore tn t = Ok (spec_insert ttfs tsc tstore (t_view t)).
Proof.
  intros Hlen Hall Hpres En0 Gn0 Hc0 HVI. unfold insert_into. rewrite En0, Gn0.
  replace (List.length c0 =? 0)%nat with false by (symmetry; apply Nat.eqb_neq; destruct c0; [contradiction | simpl; lia]).
  assert (Hmem : forallb (fun n => existsb (String.eqb n) (n0 :: rest)) tn = true).
  { apply forallb_forall. intros n Hn. apply existsb_eqb_in. rewrite <- En0. apply Hpres. exact Hn. }
  rewrite Hmem. cbn [negb].
  assert (Hex : forall k, In k tn -> t_exists k t = true).
  { intros k Hk. destruct (Hpres k Hk) as [_ [c Hc]]. unfold t_exists. rewrite Hc. reflexivity. }
  assert (Hnames : t_names (t_project tn t) = tn).
  { unfold t_project. cbn [t_names]. clear -Hex. induction tn as [|k tn IH]; simpl; [reflexivity|].
    rewrite (Hex k (or_introl eq_refl)). f_equal. apply IH. intros x Hx. apply Hex. right. exact Hx. }
  rewrite Hnames.
  replace ((List.length tn =? S (List.length tsc))%nat) with true by (symmetry; apply Nat.eqb_eq; exact Hlen).
  replace (forallb (fun n => existsb (String.eqb n) tn) (epoch_name :: map fst tsc)) with true
    by (symmetry; apply forallb_forall; intros n Hn; apply existsb_eqb_in; apply Hall; exact Hn).
  cbn [andb negb].
  assert (Hg : forall n, In n tn -> match t_get n (t_project tn t) with Some c => c | None => [] end = view_col (t_view t) n).
  { intros n Hn. rewrite (project_get tn t n Hex).
    replace (existsb (String.eqb n) tn) with true by (symmetry; apply existsb_eqb_in; exact Hn).
    symmetry. apply view_col_get. apply Hpres. exact Hn. }
  rewrite (Hg epoch_name) by (apply Hall; left; reflexivity). rewrite HVI. cbn [negb].
  unfold spec_insert, write_rows. f_equal.
  replace (map (fun n => match t_get n (t_project tn t) with Some c => c | None => [] end) (map fst tsc))
    with (map (view_col (t_view t)) (map fst tsc)); [reflexivity|].
  apply map_ext_in. intros n Hn. symmetry. apply Hg. apply Hall. right. exact Hn.
Qed.

(** the rows written, as rows: the i-th selected row restricted to the target's columns *)
Lemma tbl_rows_map (R : list row) (fs : list (row -> cell)) :
  tbl_rows (List.length R) (map (fun r => VI (r_epoch r)) R) (map (fun f => map f R) fs)
  = map (fun r => (r_epoch r, map (fun f => f r) fs)) R.
Proof.
  induction R as [|r R IH]; [reflexivity|]. cbn [List.length tbl_rows map tl].
  rewrite !map_map. cbn [tl hd].
  replace (map (fun x => tl (map x (r :: R))) fs) with (map (fun f => map f R) fs) by (apply map_ext; reflexivity).
  rewrite IH. reflexivity.
Qed.

Lemma strs_eqb_eq a b : strs_eqb a b = true -> a = b.
Proof.
  revert b. induction a as [|x a IH]; intros [|y b] H; simpl in H; try discriminate; [reflexivity|].
  apply andb_true_iff in H. destruct H as [H1 H2]. apply String.eqb_eq in H1. subst y. f_equal. apply IH. exact H2.
Qed.

Lemma view_col_all_empty (V : view) n : (forall k c, In (k, c) V -> c = Some []) -> view_col V n = [].
Proof.
  unfold view_col. induction V as [|[k c] V IH]; intros H; simpl; [reflexivity|].
  destruct (String.eqb k n).
  - rewrite (H k c (or_introl eq_refl)). reflexivity.
  - apply IH. intros k' c' Hin. apply (H k' c'). right. exact Hin.
Qed.

Lemma sel_type_in sc s R n ty : sel_type sc s n = Some ty -> In n (map fst (view_of sc R s)).
Proof.
  unfold sel_type. destruct s as [|l]; cbn [view_of]; rewrite map_map; cbn [fst].
  - destruct (String.eqb n epoch_name) eqn:E.
    + apply String.eqb_eq in E. subst n. intros _. rewrite map_id. left. reflexivity.
    + intros H. rewrite map_id. right. eapply col_type_in. exact H.
  - destruct (find (fun it => String.eqb (out_name it) n) l) as [it|] eqn:F; cbn [option_map]; [|discriminate].
    intros _. apply find_some in F. destruct F as [Hit E]. apply String.eqb_eq in E. subst n.
    apply in_map_iff. exists it. split; [reflexivity | exact Hit].
Qed.

Lemma view_of_entries sc R s k c : In (k, c) (view_of sc R s) -> exists col, c = Some col.
Proof.
  destruct s as [|l]; cbn [view_of]; intros H; apply in_map_iff in H; destruct H as (x & E & _); inversion E; eauto.
Qed.

Lemma col_of_valid_length sc R n : In n (epoch_name :: map fst sc) -> List.length (col_of sc R n) = List.length R.
Proof.
  intros H. rewrite <- getters_names in H. destruct (assoc_in _ _ H) as [f Hf].
  rewrite col_of_getter, Hf. apply map_length.
Qed.

Lemma assoc_find_out (l : list sel_item) (f : sel_item -> option (list cell)) n :
  assoc n (map (fun it => (out_name it, f it)) l)
  = match find (fun it => String.eqb (out_name it) n) l with Some it => Some (f it) | None => None end.
Proof.
  induction l as [|it l IH]; simpl; [reflexivity|]. destruct (String.eqb (out_name it) n); [reflexivity | exact IH].
Qed.

Lemma col_of_epoch sc R : col_of sc R epoch_name = map (fun r => VI (r_epoch r)) R.
Proof. rewrite col_of_getter. unfold getters. cbn [assoc]. rewrite String.eqb_refl. reflexivity. Qed.

Lemma view_epoch_cells sc R s :
  match sel_type sc s epoch_name with
  | Some _ => match s with
              | SelAll => true
              | SelList l => String.eqb (match find (fun it => String.eqb (out_name it) epoch_name) l with
                                         | Some it => fst it | None => EmptyString end) epoch_name
              end
  | None => false
  end = true ->
  forallb (fun c => match c with VI _ => true | _ => false end) (view_col (view_of sc R s) epoch_name) = true.
Proof.
  intros H. unfold view_col. destruct s as [|l]; cbn [view_of].
  - cbn [map assoc]. rewrite String.eqb_refl. rewrite col_of_epoch. apply forallb_forall.
    intros c Hc. apply in_map_iff in Hc. destruct Hc as (r & <- & _). reflexivity.
  - rewrite (assoc_find_out l (fun it => Some (col_of sc R (fst it)))).
    unfold sel_type in H. destruct (find (fun it => String.eqb (out_name it) epoch_name) l) as [it|]; [|discriminate H].
    cbn [option_map] in H. destruct (if String.eqb (fst it) epoch_name then Some ET_INT64 else col_type (fst it) sc); [|discriminate H].
    apply String.eqb_eq in H. rewrite H, col_of_epoch. apply forallb_forall.
    intros c Hc. apply in_map_iff in Hc. destruct Hc as (r & <- & _). reflexivity.
Qed.

Lemma view_of_head sc R s : sel_wf sc s = true ->
  exists k0 p0 tail, view_of sc R s = (k0, Some (col_of sc R p0)) :: tail /\ In p0 (epoch_name :: map fst sc).
Proof.
  intros Hwf. destruct s as [|l]; cbn [view_of].
  - exists epoch_name, epoch_name. eexists. split; [reflexivity | left; reflexivity].
  - cbn [sel_wf] in Hwf. apply andb_true_iff in Hwf. destruct Hwf as [Hne Hval].
    destruct l as [|it l']; [discriminate Hne|]. cbn [map]. exists (out_name it), (fst it). eexists. split; [reflexivity|].
    rewrite forallb_forall in Hval. apply existsb_eqb_in. apply Hval. left. reflexivity.
Qed.

Theorem insert_spec tfs sc rows ps s lim ttfs tsc tstore icols t :
  guard_q tfs sc rows ps s lim = true ->
  guard_ins sc s ttfs tsc tstore icols = true ->
  materialize_q tfs sc rows ps s (lim_int lim) = Ok t ->
  insert_into ttfs tsc tstore (match icols with Some l => l | None => epoch_name :: map fst tsc end) t
  = Ok (spec_insert ttfs tsc tstore (spec_q sc rows ps s lim)).
Proof.
  intros GQ GI EM. destruct (select_spec tfs sc rows ps s lim GQ) as (t' & EM' & Hne & Hemp).
  rewrite EM in EM'. inversion EM'; subst t'. clear EM'.
  unfold guard_ins in GI. rewrite !andb_true_iff in GI.
  destruct GI as ((((((Htf & Hnd) & Hrows) & Hsorted) & Hlist) & Htypes) & Hep).
  set (tn := match icols with Some l => l | None => epoch_name :: map fst tsc end).
  assert (Htn : List.length tn = S (List.length tsc)
                /\ (forall n, In n (epoch_name :: map fst tsc) -> In n tn)
                /\ (forall n, In n tn -> In n (epoch_name :: map fst tsc))).
  { unfold tn, insert_list_ok in *. destruct icols as [l|].
    - rewrite !andb_true_iff in Hlist. destruct Hlist as [[H1 H2] H3]. apply Nat.eqb_eq in H1.
      rewrite forallb_forall in H2, H3. repeat split; [exact H1 | |]; intros n Hn; apply existsb_eqb_in; auto.
    - repeat split; [simpl; rewrite map_length; reflexivity | |]; auto. }
  destruct Htn as (Hlen & Hall & Hsub).
  rewrite spec_q_view_of in *.
  unfold guard_q in GQ. rewrite !andb_true_iff in GQ. destruct GQ as (((((_ & _) & Hwf) & _) & _) & _).
  destruct (spec_rows sc rows ps lim) as [|r0 R'] eqn:ER.
  - (* nothing selected: nothing written *)
    specialize (Hemp eq_refl).
    rewrite insert_into_empty.
    + unfold spec_insert. rewrite (view_col_all_empty (view_of sc [] s) epoch_name) by (intros k c Hin; eapply view_of_nil_empty; exact Hin).
      reflexivity.
    + destruct (t_names t) as [|n0 rest] eqn:EN; [left; reflexivity|]. right. exists n0, rest. split; [reflexivity|].
      apply (Hemp n0). unfold t_view. rewrite EN. left. reflexivity.
  - assert (HV : t_view t = view_of sc (r0 :: R') s) by (apply Hne; discriminate).
    assert (Hnames : t_names t = map fst (view_of sc (r0 :: R') s)).
    { rewrite <- HV. unfold t_view. rewrite map_map. cbn [fst]. symmetry. apply map_id. }
    assert (Hget : forall n, In n (t_names t) -> exists c, t_get n t = Some c).
    { intros n Hn. assert (Hin : In (n, t_get n t) (t_view t)) by (unfold t_view; apply in_map_iff; exists n; auto).
      rewrite HV in Hin. destruct (view_of_entries _ _ _ _ _ Hin) as [c Hc]. eauto. }
    destruct (view_of_head sc (r0 :: R') s Hwf) as (k0 & p0 & tail & EH & Hp0).
    assert (Hfirst : exists rest, t_names t = k0 :: rest /\ t_get k0 t = Some (col_of sc (r0 :: R') p0)).
    { rewrite EH in HV. unfold t_view in HV. destruct (t_names t) as [|n0 rest]; [discriminate HV|].
      cbn [map] in HV. inversion HV; subst. exists rest. split; reflexivity. }
    destruct Hfirst as (rest & En0 & Gn0).
    rewrite <- HV.
    apply (insert_into_by_name ttfs tsc tstore t tn k0 rest (col_of sc (r0 :: R') p0)); try assumption.
    + intros n Hn0. pose proof (Hsub n Hn0) as Hn. assert (Hin : In n (t_names t)).
      { rewrite Hnames. destruct Hn as [<-|Hn].
        - destruct (sel_type sc s epoch_name) as [ty|] eqn:ET; [|discriminate Hep]. eapply sel_type_in. exact ET.
        - rewrite forallb_forall in Htypes. apply in_map_iff in Hn. destruct Hn as ([k ty] & <- & Hk).
          specialize (Htypes _ Hk). cbn [fst snd] in Htypes.
          destruct (sel_type sc s k) as [ty'|] eqn:ET; [|discriminate Htypes]. eapply sel_type_in. exact ET. }
      split; [exact Hin | apply Hget; exact Hin].
    + intros E. pose proof (col_of_valid_length sc (r0 :: R') p0 Hp0) as L. rewrite E in L. discriminate L.
    + (* the column named Epoch is the source's Epoch column: int64 cells *)
      rewrite HV. apply view_epoch_cells. exact Hep.
Qed.

(** what querying the target afterwards returns: a sorted slot map in which slot e' holds the values of the
    LAST selected row whose Epoch falls into that slot of the target's timeframe, else what it held before *)
Theorem insert_lookup ttfs tsc tstore V e' :
  sorted_store tstore ->
  sorted_store (spec_insert ttfs tsc tstore V)
  /\ find_row e' (spec_insert ttfs tsc tstore V)
     = last_in_slot ttfs e' (tbl_rows (List.length (view_col V epoch_name)) (view_col V epoch_name)
                                     (map (view_col V) (map fst tsc))) (find_row e' tstore).
Proof.
  intros H. unfold spec_insert. split; [apply write_rows_sorted; exact H | apply write_rows_find; exact H].
Qed.
