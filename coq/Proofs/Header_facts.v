(** Facts about Model/Header.v: header encode/read round trip and header preservation under data
    writes (property C15). *)
From Coq Require Import ZArith NArith List Bool Lia Arith.
From Coq.Strings Require Import Byte.
Import ListNotations.
Require Import MS.Base.GoInt MS.Base.Res MS.Base.Hex MS.Base.Bytes MS.Generated.Src_io MS.Generated.Src_header
  MS.Model.Rows MS.Proofs.Rows_facts MS.Model.Header.

(** * sizes (evaluated once, then the size names stay folded) *)
Lemma HS_eq : HS = 8 + (DESC + (8 + (8 + (8 + (8 + (8 + (8 + (MAXEL * NAMEB + (MAXEL + RES2))))))))).
Proof.
  apply Nat2Z.inj. rewrite !Nat2Z.inj_add, Nat2Z.inj_mul. unfold HS, DESC, NAMEB, MAXEL, RES2.
  rewrite !Z2Nat.id by (vm_compute; discriminate). reflexivity.
Qed.
Lemma MAXEL_Z : Z.of_nat MAXEL = maxNumElements.
Proof. unfold MAXEL. apply Z2Nat.id. vm_compute. discriminate. Qed.
Lemma HS_Z : Z.of_nat HS = Headersize.
Proof. unfold HS. apply Z2Nat.id. vm_compute. discriminate. Qed.
Lemma Headersize_val : Headersize = 37024%Z.
Proof. reflexivity. Qed.
Lemma iol_val : indexOffsetLengthBytes = 24%Z.
Proof. reflexivity. Qed.

Global Opaque HS DESC NAMEB MAXEL RES2.

Lemma bind_ok_h {A B} (r : Res A) (g : A -> Res B) b :
  bindR r g = Ok b -> exists a, r = Ok a /\ g a = Ok b.
Proof. destruct r; cbn; intros H; try discriminate. eauto. Qed.

(** * small list facts *)
Lemma zeros_length n : length (zeros n) = n.
Proof. apply repeat_length. Qed.

Lemma fit_length k s : length (fit k s) = k.
Proof. unfold fit. rewrite app_length, firstn_length, zeros_length. lia. Qed.

Lemma fit_short k s : length s <= k -> fit k s = s ++ zeros (k - length s).
Proof. intros H. unfold fit. rewrite firstn_all2 by exact H. reflexivity. Qed.

Lemma take_app n (a r : list byte) : length a = n -> take n (a ++ r) = (a, r).
Proof.
  intros <-. unfold take. f_equal.
  - rewrite firstn_app, Nat.sub_diag, firstn_all. cbn. apply app_nil_r.
  - rewrite skipn_app, Nat.sub_diag, skipn_all. reflexivity.
Qed.

(** * Trim *)
Lemma drop0_zeros n l : drop0 (zeros n ++ l) = drop0 l.
Proof. induction n as [|n IH]; [reflexivity|]. cbn. exact IH. Qed.

Lemma rev_zeros n : rev (zeros n) = zeros n.
Proof.
  unfold zeros. induction n as [|n IH]; [reflexivity|]. cbn [repeat rev]. rewrite IH.
  clear IH. induction n as [|n IH]; [reflexivity|]. cbn. rewrite IH. reflexivity.
Qed.

Lemma trim_app_zeros l n : trim (l ++ zeros n) = trim l.
Proof. unfold trim. rewrite rev_app_distr, rev_zeros, drop0_zeros. reflexivity. Qed.

Lemma field_ok_spec k s : field_ok k s = true -> length s <= k /\ trim s = s.
Proof.
  unfold field_ok. intros H. apply andb_prop in H as [H1 H2].
  apply Nat.leb_le in H1. apply bytes_eqb_eq in H2. auto.
Qed.

Lemma trim_fit k s : field_ok k s = true -> trim (fit k s) = s.
Proof.
  intros H. apply field_ok_spec in H as [Hl Ht]. rewrite fit_short by exact Hl.
  rewrite trim_app_zeros. exact Ht.
Qed.

(** * integers *)
Lemma i64_le_bytes v : i64 (le_bytes 8 v) = wrap I64 v.
Proof.
  unfold i64. rewrite le_val_le_bytes, pow256.
  change (8 * Z.of_nat 8)%Z with (ity_bits I64). apply wrap_mod.
Qed.

Lemma i64_le_bytes_small v : in_ity I64 v -> i64 (le_bytes 8 v) = v.
Proof. intros H. rewrite i64_le_bytes. apply wrap_small. exact H. Qed.

Lemma in_ity_weaken t v : ity_signed t = true -> in_ity t v -> in_ity I64 v.
Proof.
  unfold in_ity, ity_min, ity_max. destruct t; cbn [ity_signed ity_bits]; intros Hs H; try discriminate Hs;
    norm_pows; lia.
Qed.

(** * names / types areas *)
Lemma concat_fit_length sz l : length (concat (map (fit sz) l)) = length l * sz.
Proof.
  induction l as [|x l IH]; [reflexivity|]. cbn [map concat length]. rewrite app_length, fit_length, IH. lia.
Qed.

Lemma names_area_length k names : k <= MAXEL -> k <= length names ->
  length (names_area k names) = MAXEL * NAMEB.
Proof.
  intros H1 H2. unfold names_area. rewrite app_length, concat_fit_length, zeros_length, firstn_length.
  rewrite Nat.min_l by exact H2. rewrite <- Nat.mul_add_distr_r. f_equal. lia.
Qed.

Lemma types_area_length k types : k <= MAXEL -> k <= length types -> length (types_area k types) = MAXEL.
Proof.
  intros H1 H2. unfold types_area. rewrite app_length, map_length, zeros_length, firstn_length.
  rewrite Nat.min_l by exact H2. lia.
Qed.

Lemma chunks_concat_fit sz l rest :
  chunks sz (length l) (concat (map (fit sz) l) ++ rest) = map (fit sz) l.
Proof.
  induction l as [|x l IH]; [reflexivity|]. cbn [length map concat chunks].
  rewrite <- app_assoc. f_equal.
  - rewrite firstn_app, fit_length, Nat.sub_diag, firstn_all2 by (rewrite fit_length; lia).
    cbn. apply app_nil_r.
  - rewrite skipn_app, fit_length, Nat.sub_diag, skipn_all2 by (rewrite fit_length; lia). cbn. exact IH.
Qed.

Lemma map_trim_fit names : forallb (field_ok NAMEB) names = true -> map trim (map (fit NAMEB) names) = names.
Proof.
  intros H. rewrite forallb_forall in H. rewrite map_map.
  rewrite <- (map_id names) at 2. apply map_ext_in. intros s Hs. apply trim_fit. auto.
Qed.

Lemma map_types_roundtrip types :
  forallb (fun t => (0 <=? t)%Z && (t <? 256)%Z) types = true -> map Z_of_byte (map byte_of_Z types) = types.
Proof.
  intros H. rewrite forallb_forall in H. rewrite map_map.
  rewrite <- (map_id types) at 2. apply map_ext_in. intros t Ht.
  specialize (H _ Ht). apply andb_prop in H as [H1 H2]. apply Z.leb_le in H1. apply Z.ltb_lt in H2.
  rewrite Z_of_byte_of_Z. apply Z.mod_small. lia.
Qed.

(** * storable, unpacked *)
Record storableP (f : tbi) : Prop := {
  sp_version : in_ity I64 (t_version f);
  sp_descr : field_ok DESC (t_descr f) = true;
  sp_year : in_ity I16 (t_year f);
  sp_tf : in_ity I64 (t_tf f);
  sp_rt : in_ity I8 (t_rectype f);
  sp_rl : in_ity I32 (t_reclen f);
  sp_rl0 : (0 <= t_reclen f)%Z;
  sp_n0 : (0 <= t_nelems f)%Z;
  sp_nmax : (t_nelems f <= maxNumElements)%Z;
  sp_names_len : Z.of_nat (length (t_names f)) = t_nelems f;
  sp_types_len : Z.of_nat (length (t_types f)) = t_nelems f;
  sp_names : forallb (field_ok NAMEB) (t_names f) = true;
  sp_types : forallb (fun t => (0 <=? t)%Z && (t <? 256)%Z) (t_types f) = true
}.

Lemma storable_spec f : storable f = true -> storableP f.
Proof.
  unfold storable. rewrite !andb_true_iff. intros H.
  destruct H as [[[[[[[[[[[[H1 H2] H3] H4] H5] H6] H6'] H7] H8] H9] H10] H11] H12].
  constructor; try assumption; try (apply in_ityb_spec; assumption);
    try (apply Z.leb_le; assumption); try (apply Z.eqb_eq; assumption).
Qed.

(** * the header round trip *)
Lemma header_roundtrip f : storable f = true ->
  exists h, encode_header f = Ok h /\ length h = HS /\ read_header h = Ok f.
Proof.
  intros Hs. apply storable_spec in Hs. destruct Hs.
  set (n := t_nelems f) in *. set (k := Z.to_nat n).
  assert (Hk : k = length (t_names f)) by (unfold k; rewrite <- sp_names_len0; apply Nat2Z.id).
  assert (Hk' : k = length (t_types f)) by (unfold k; rewrite <- sp_types_len0; apply Nat2Z.id).
  assert (HkM : k <= MAXEL).
  { apply Nat2Z.inj_le. rewrite MAXEL_Z. unfold k. rewrite Z2Nat.id by exact sp_n1. exact sp_nmax0. }
  unfold encode_header. fold n.
  replace (maxNumElements <? n)%Z with false by (symmetry; apply Z.ltb_ge; exact sp_nmax0).
  replace (Z.of_nat (length (t_names f)) <? n)%Z with false by (symmetry; apply Z.ltb_ge; lia).
  replace (Z.of_nat (length (t_types f)) <? n)%Z with false by (symmetry; apply Z.ltb_ge; lia).
  cbn [orb]. fold k. eexists. split; [reflexivity|].
  assert (Hlen : length (le_bytes 8 (t_version f) ++ fit DESC (t_descr f) ++ le_bytes 8 (t_year f)
      ++ le_bytes 8 (t_tf f) ++ le_bytes 8 (t_rectype f) ++ le_bytes 8 n ++ le_bytes 8 (t_reclen f)
      ++ zeros 8 ++ names_area k (t_names f) ++ types_area k (t_types f) ++ zeros RES2) = HS).
  { rewrite !app_length, !length_le_bytes, fit_length, !zeros_length.
    rewrite names_area_length, types_area_length by lia. symmetry. apply HS_eq. }
  split; [exact Hlen|].
  unfold read_header. rewrite Hlen, Nat.ltb_irrefl.
  rewrite (take_app 8) by apply length_le_bytes.
  rewrite (take_app DESC) by apply fit_length.
  rewrite (take_app 8) by apply length_le_bytes.
  rewrite (take_app 8) by apply length_le_bytes.
  rewrite (take_app 8) by apply length_le_bytes.
  rewrite (take_app 8) by apply length_le_bytes.
  rewrite (take_app 8) by apply length_le_bytes.
  rewrite (take_app 8) by apply zeros_length.
  rewrite (take_app (MAXEL * NAMEB)) by (apply names_area_length; lia).
  rewrite (take_app MAXEL) by (apply types_area_length; lia).
  assert (Hn : in_ity I64 n) by (unfold in_ity, ity_min, ity_max; cbn [ity_signed ity_bits]; norm_pows;
                                 unfold maxNumElements in sp_nmax0; lia).
  rewrite (i64_le_bytes_small n Hn).
  replace (n <? 0)%Z with false by (symmetry; apply Z.ltb_ge; exact sp_n1).
  replace (maxNumElements <? n)%Z with false by (symmetry; apply Z.ltb_ge; exact sp_nmax0).
  cbn [orb]. fold k.
  rewrite !i64_le_bytes_small by (assumption || (eapply in_ity_weaken; [|eassumption]; reflexivity)).
  rewrite (wrap_small I16) by assumption. rewrite (wrap_small I8) by assumption.
  rewrite (wrap_small I32 (t_reclen f)) by assumption.
  rewrite (wrap_small I32 n)
    by (unfold in_ity, ity_min, ity_max; cbn [ity_signed ity_bits]; norm_pows; unfold maxNumElements in sp_nmax0; lia).
  rewrite (trim_fit DESC) by assumption.
  unfold names_area, types_area.
  replace (firstn k (t_names f)) with (t_names f) by (symmetry; apply firstn_all2; lia).
  replace (firstn k (t_types f)) with (t_types f) by (symmetry; apply firstn_all2; lia).
  rewrite Hk at 1. rewrite chunks_concat_fit, map_trim_fit by assumption.
  rewrite firstn_app, map_length, <- Hk', Nat.sub_diag, firstn_all2 by (rewrite map_length; lia).
  cbn [firstn]. rewrite app_nil_r, map_types_roundtrip by assumption.
  unfold n. destruct f; reflexivity.
Qed.

(** * data writes never reach the header when the index is at least 1 *)
Lemma IndexToOffset_ge idx rl : (1 <= idx < 2 ^ 31)%Z -> (0 <= rl < 2 ^ 31)%Z ->
  (Headersize <= IndexToOffset idx rl)%Z.
Proof.
  intros Hi Hr. unfold IndexToOffset. rewrite Headersize_val.
  change (2 ^ 31)%Z with 2147483648%Z in *.
  assert (Hprod : (0 <= (idx - 1) * rl < 2147483648 * 2147483648)%Z) by nia.
  rewrite (wrap_small I64 (idx - 1)) by (unfold in_ity, ity_min, ity_max; cbn [ity_signed ity_bits]; norm_pows; lia).
  rewrite (wrap_small I64 rl) by (unfold in_ity, ity_min, ity_max; cbn [ity_signed ity_bits]; norm_pows; lia).
  rewrite (wrap_small I64 ((idx - 1) * rl)) by (unfold in_ity, ity_min, ity_max; cbn [ity_signed ity_bits]; norm_pows; lia).
  rewrite wrap_small by (unfold in_ity, ity_min, ity_max; cbn [ity_signed ity_bits]; norm_pows; lia).
  lia.
Qed.

Lemma overlay_beyond (h : list byte) o d : length h <= o -> overlay h o d = h.
Proof.
  intros H. unfold overlay. rewrite firstn_all2 by exact H.
  replace (length h - o) with 0 by lia. rewrite skipn_all2 by lia. cbn. apply app_nil_r.
Qed.

Lemma pwrite_beyond h off d : length h = HS -> (Headersize <= off)%Z -> pwrite_region h off d = h.
Proof.
  intros Hl Ho. unfold pwrite_region. rewrite Headersize_val in Ho.
  replace (off <? 0)%Z with false by (symmetry; apply Z.ltb_ge; lia).
  destruct (Z.of_nat (length h) <=? off)%Z; [reflexivity|].
  apply overlay_beyond. rewrite Hl. apply Nat2Z.inj_le. rewrite HS_Z, Headersize_val, Z2Nat.id by lia. lia.
Qed.

Lemma apply_write_noop rl h w : length h = HS -> (0 <= rl < 2 ^ 31)%Z ->
  (1 <= wop_idx w < 2 ^ 31)%Z -> apply_write rl h w = h.
Proof.
  intros Hl Hr Hi. destruct w as [idx p|idx r]; cbn [apply_write wop_idx] in *.
  - apply pwrite_beyond; [exact Hl|]. apply IndexToOffset_ge; assumption.
  - apply pwrite_beyond; [exact Hl|]. apply IndexToOffset_ge; [assumption|]. rewrite iol_val. lia.
Qed.

Lemma writes_preserve_header rl ws : forall h, length h = HS -> (0 <= rl < 2 ^ 31)%Z ->
  writes_ok ws = true -> apply_writes rl h ws = h.
Proof.
  unfold apply_writes, writes_ok. induction ws as [|w ws IH]; intros h Hl Hr Hw; [reflexivity|].
  cbn [forallb fold_left] in *. apply andb_prop in Hw as [Hw1 Hw2].
  apply andb_prop in Hw1 as [Ha Hb]. apply Z.leb_le in Ha. apply Z.ltb_lt in Hb.
  rewrite apply_write_noop by (assumption || lia). apply IH; assumption.
Qed.

(** the creation-time check accepts exactly what the header stores faithfully *)
Lemma drop0_head l : head_nonzero l = true -> drop0 l = l.
Proof. destruct l as [|b r]; [reflexivity|]. cbn. intros H. apply negb_true_iff in H. rewrite H. reflexivity. Qed.

Lemma name_storable_field_ok s : name_storable s = true -> field_ok NAMEB s = true.
Proof.
  unfold name_storable, field_ok. rewrite !andb_true_iff. intros [[H1 H2] H3]. split; [exact H1|].
  apply bytes_eqb_eq. unfold trim. rewrite (drop0_head _ H3), rev_involutive. apply drop0_head. exact H2.
Qed.

Lemma storable_check f : storable f = true -> check_storable f = true.
Proof.
  intros Hs. apply storable_spec in Hs. unfold check_storable. apply andb_true_intro. split.
  - apply Z.leb_le. rewrite (sp_names_len _ Hs). exact (sp_nmax _ Hs).
  - pose proof (sp_names _ Hs) as Hn. rewrite forallb_forall in Hn. apply forallb_forall. intros s Hin.
    specialize (Hn _ Hin). apply field_ok_spec in Hn as [Hl Ht]. unfold name_storable.
    apply Nat.leb_le in Hl. rewrite Hl. cbn [andb].
    assert (Hh : forall l, drop0 l = l -> head_nonzero l = true).
    { intros [|b r]; [reflexivity|]. cbn. destruct (Byte.eqb b x00) eqn:E; [|reflexivity].
      intros H. exfalso. assert (Hlen : length (drop0 r) <= length r).
      { clear. induction r as [|c r IH]; cbn; [lia|]. destruct (Byte.eqb c x00); cbn; lia. }
      rewrite H in Hlen. cbn in Hlen. lia. }
    unfold trim in Ht.
    assert (Hlen0 : forall l, length (drop0 l) <= length l).
    { induction l as [|c r IH]; cbn; [lia|]. destruct (Byte.eqb c x00); cbn; lia. }
    assert (H1 : drop0 (rev s) = rev s).
    { pose proof (Hlen0 (rev s)) as Ha. pose proof (Hlen0 (rev (drop0 (rev s)))) as Hb.
      rewrite Ht, rev_length in Hb. rewrite rev_length in Ha.
      (* drop0 only removes a prefix: equal length means nothing was removed *)
      assert (Hsame : forall l, length (drop0 l) = length l -> drop0 l = l).
      { intros [|c r]; [reflexivity|]. cbn. destruct (Byte.eqb c x00); [|reflexivity].
        intros H. pose proof (Hlen0 r). cbn in H. lia. }
      apply Hsame. rewrite rev_length. lia. }
    rewrite H1, rev_involutive in Ht.
    rewrite (Hh _ Ht), (Hh _ H1). reflexivity.
Qed.

(** create, write, restart, read back *)
Theorem create_write_reload_ok f ws :
  storable f = true -> writes_ok ws = true -> create_write_reload f ws = Ok f.
Proof.
  intros Hs Hw. destruct (header_roundtrip f Hs) as (h & He & Hl & Hr).
  unfold create_write_reload, create. rewrite (storable_check f Hs), He. cbn [bindR].
  apply storable_spec in Hs. pose proof (sp_rl _ Hs) as Hrl. pose proof (sp_rl0 _ Hs) as Hrl0.
  rewrite writes_preserve_header; [exact Hr|exact Hl| |exact Hw].
  unfold in_ity, ity_min, ity_max in Hrl. cbn [ity_signed ity_bits] in Hrl. norm_pows.
  change (2 ^ 31)%Z with 2147483648%Z. lia.
Qed.

(** * a creatable schema gives a storable TimeBucketInfo *)
Lemma zlookup_bound (l : list (Z * Z)) t M :
  Forall (fun p => (0 <= snd p <= M)%Z) l -> (0 <= M)%Z -> (0 <= zlookup l t <= M)%Z.
Proof.
  intros H HM. induction H as [|[k v] r Hp Hr IH]; cbn [zlookup]; [lia|].
  destruct (Z.eqb t k); [exact Hp|exact IH].
Qed.

Lemma attr_size_bound t : (0 <= zlookup attr_size t <= 64)%Z.
Proof.
  apply zlookup_bound; [|lia]. unfold attr_size. repeat constructor; cbn [snd]; lia.
Qed.

Lemma field_len_bound types : (0 <= field_len types <= 64 * Z.of_nat (length types))%Z.
Proof.
  induction types as [|t r IH]; [cbn; lia|]. cbn [field_len fold_right length].
  fold (field_len r). pose proof (attr_size_bound t). rewrite Nat2Z.inj_succ. lia.
Qed.

Lemma forallb_map' {A B} (g : A -> B) (p : B -> bool) l : forallb p (map g l) = forallb (fun x => p (g x)) l.
Proof. induction l as [|x l IH]; [reflexivity|]. cbn. rewrite IH. reflexivity. Qed.

Lemma forallb_filter {A} (p q : A -> bool) l : forallb p l = true -> forallb p (filter q l) = true.
Proof.
  induction l as [|x l IH]; cbn; [reflexivity|]. intros H. apply andb_prop in H as [H1 H2].
  destruct (q x); cbn; [rewrite H1|]; auto.
Qed.

Lemma creatable_storable tf descr year dsv rt :
  creatable tf descr year dsv rt = true -> storable (new_tbi tf descr year dsv rt) = true.
Proof.
  unfold creatable. set (sh := create_shapes dsv). rewrite !andb_true_iff.
  intros [[[[[H1 H2] H3] H4] H5] H6]. apply Z.leb_le in H5. unfold maxNumElements in H5.
  assert (Hn : wrap I32 (Z.of_nat (length sh)) = Z.of_nat (length sh)).
  { apply wrap_small. unfold in_ity, ity_min, ity_max. cbn [ity_signed ity_bits]. norm_pows. lia. }
  assert (Hrl : in_ity I32 (t_reclen (new_tbi tf descr year dsv rt)) /\ (0 <= t_reclen (new_tbi tf descr year dsv rt))%Z).
  { unfold new_tbi. fold sh. cbn [t_reclen].
    destruct (Z.eqb rt RT_FIXED); [|destruct (Z.eqb rt RT_VARIABLE)].
    - pose proof (field_len_bound (map snd sh)) as Hf. rewrite map_length in Hf.
      destruct (AlignedSize_spec (field_len (map snd sh))) as [Ha _]; [lia|].
      unfold epochLenBytes.
      rewrite (wrap_small I32 (AlignedSize _))
        by (unfold in_ity, ity_min, ity_max; cbn [ity_signed ity_bits]; norm_pows; lia).
      rewrite wrap_small by (unfold in_ity, ity_min, ity_max; cbn [ity_signed ity_bits]; norm_pows; lia).
      split; [|lia]. unfold in_ity, ity_min, ity_max; cbn [ity_signed ity_bits]; norm_pows; lia.
    - split; [|lia]. unfold in_ity, ity_min, ity_max; cbn [ity_signed ity_bits]; norm_pows; lia.
    - split; [|lia]. unfold in_ity, ity_min, ity_max; cbn [ity_signed ity_bits]; norm_pows; lia. }
  destruct Hrl as [Hrl1 Hrl2]. apply in_ityb_spec in Hrl1. apply Z.leb_le in Hrl2.
  rewrite forallb_forall in H6.
  unfold storable. rewrite Hrl1, Hrl2. unfold new_tbi. fold sh.
  cbn [t_version t_descr t_year t_tf t_rectype t_nelems t_names t_types].
  rewrite H1, H2, H3, H4, Hn, !map_length, Z.eqb_refl.
  replace (in_ityb I64 FileinfoVersion) with true by reflexivity.
  replace (0 <=? Z.of_nat (length sh))%Z with true by (symmetry; apply Z.leb_le; lia).
  replace (Z.of_nat (length sh) <=? maxNumElements)%Z with true by (symmetry; apply Z.leb_le; unfold maxNumElements; lia).
  cbn [andb]. rewrite !forallb_map'. apply andb_true_intro. split; apply forallb_forall; intros s Hs;
    specialize (H6 _ Hs); rewrite !andb_true_iff in H6; destruct H6 as [[Ha Hb] Hc].
  - exact Ha.
  - rewrite Hb, Hc. reflexivity.
Qed.

(** the property's domain + the creation-time check = the guard [creatable] *)
Lemma dom_check_creatable tf descr year dsv rt :
  schema_dom tf descr year dsv rt = true -> check_storable (new_tbi tf descr year dsv rt) = true ->
  creatable tf descr year dsv rt = true.
Proof.
  unfold schema_dom, check_storable, creatable, new_tbi. cbn [t_names]. set (sh := create_shapes dsv).
  rewrite !andb_true_iff, map_length. intros [[[[H1 H2] H3] H4] H5] [H6 H7].
  repeat split; try assumption.
  rewrite forallb_map' in H7. rewrite forallb_forall in H7.
  pose proof (forallb_filter _ (fun s => negb (bytes_eqb (fst s) epoch_col)) _ H5) as H5'.
  fold (create_shapes dsv) in H5'. fold sh in H5'. rewrite forallb_forall in H5'.
  apply forallb_forall. intros s Hs. specialize (H7 _ Hs). specialize (H5' _ Hs).
  apply andb_prop in H5' as [Ha Hb]. rewrite (name_storable_field_ok _ H7), Ha, Hb. reflexivity.
Qed.

(** Every schema of the domain: creation is refused, or the schema survives any writes at indices >= 1
    and a restart. *)
Theorem create_guarded tf descr year dsv rt ws :
  schema_dom tf descr year dsv rt = true -> writes_ok ws = true ->
  let f := new_tbi tf descr year dsv rt in
  create f = Rejected \/ create_write_reload f ws = Ok f.
Proof.
  intros Hd Hw f. destruct (check_storable f) eqn:E.
  - right. apply create_write_reload_ok; [|exact Hw]. apply creatable_storable.
    apply dom_check_creatable; assumption.
  - left. unfold create. rewrite E. reflexivity.
Qed.

Theorem unstorable_rejected f : check_storable f = false -> create f = Rejected.
Proof. intros H. unfold create. rewrite H. reflexivity. Qed.

(** * histories over several year files *)
Lemma storable_set_year f y : storable f = true -> in_ity I16 y -> storable (set_year f y) = true.
Proof.
  unfold storable, set_year. cbn [t_version t_descr t_year t_tf t_rectype t_nelems t_reclen t_names t_types].
  intros H Hy. apply in_ityb_spec in Hy. rewrite !andb_true_iff in *.
  destruct H as [[[[[[[[[[[[H1 H2] H3] H4] H5] H6] H6'] H7] H8] H9] H10] H11] H12].
  repeat split; assumption.
Qed.

(** every year file holds the header of the created schema under its own year *)
Definition files_inv (f : tbi) (st : files) : Prop :=
  Forall (fun e => in_ity I16 (fst e) /\ encode_header (set_year f (fst e)) = Ok (snd e)) st.

Lemma flookup_in y st h : flookup y st = Some h -> In (y, h) st.
Proof.
  induction st as [|[y' h'] r IH]; cbn; [discriminate|].
  destruct (Z.eqb_spec y y') as [->|_]; intros H; [inversion H; left; reflexivity|right; auto].
Qed.

Lemma fset_inv f y h st : files_inv f st -> in_ity I16 y -> encode_header (set_year f y) = Ok h ->
  files_inv f (fset y h st).
Proof.
  unfold files_inv. induction st as [|[y' h'] r IH]; cbn; intros Hs Hy He.
  - constructor; [split; assumption|constructor].
  - inversion Hs as [|? ? [Ha Hb] Hr]; subst. cbn [fst snd] in *.
    destruct (Z.eqb_spec y y') as [->|_]; constructor; cbn [fst snd]; auto.
Qed.

Lemma ystep_inv f st w : storable f = true -> files_inv f st ->
  in_ity I16 (fst w) -> (1 <= wop_idx (snd w) < 2 ^ 31)%Z ->
  exists st', ystep f st w = Ok st' /\ files_inv f st'.
Proof.
  intros Hs Hinv Hy Hi. destruct w as [y op]. cbn [fst snd] in *. unfold ystep.
  pose proof (storable_spec _ Hs) as Hsp.
  assert (Hrl : (0 <= t_reclen f < 2 ^ 31)%Z).
  { pose proof (sp_rl _ Hsp) as H. pose proof (sp_rl0 _ Hsp). unfold in_ity, ity_min, ity_max in H.
    cbn [ity_signed ity_bits] in H. norm_pows. change (2 ^ 31)%Z with 2147483648%Z. lia. }
  destruct (flookup y st) as [h|] eqn:E.
  - apply flookup_in in E. unfold files_inv in Hinv. rewrite Forall_forall in Hinv.
    destruct (Hinv _ E) as [_ He]. cbn [fst snd] in He.
    destruct (header_roundtrip _ (storable_set_year f y Hs Hy)) as (h' & He' & Hl & _).
    assert (h' = h) by congruence. subst h'.
    rewrite apply_write_noop by assumption. eexists. split; [reflexivity|].
    apply fset_inv; [apply Forall_forall; exact Hinv|exact Hy|exact He].
  - destruct (header_roundtrip _ (storable_set_year f y Hs Hy)) as (h & He & Hl & _).
    rewrite He. cbn [bindR]. rewrite apply_write_noop by assumption. eexists. split; [reflexivity|].
    apply fset_inv; assumption.
Qed.

Lemma yrun_inv f : forall ws st, storable f = true -> files_inv f st -> years_ok ws = true ->
  exists st', yrun f st ws = Ok st' /\ files_inv f st'.
Proof.
  induction ws as [|w ws IH]; intros st Hs Hinv Hok; [exists st; split; [reflexivity|exact Hinv]|].
  unfold years_ok in Hok. cbn [forallb map] in Hok. unfold writes_ok in Hok. cbn [forallb] in Hok.
  rewrite !andb_true_iff in Hok. destruct Hok as [[Hy Hys] [[Ha Hb] Hws]].
  apply in_ityb_spec in Hy. apply Z.leb_le in Ha. apply Z.ltb_lt in Hb.
  destruct (ystep_inv f st w Hs Hinv Hy (conj Ha Hb)) as (st1 & H1 & Hinv1).
  cbn [yrun]. rewrite H1. cbn [bindR]. apply IH; [exact Hs|exact Hinv1|].
  unfold years_ok, writes_ok. rewrite Hys, Hws. reflexivity.
Qed.

Lemma latest_in st : st <> [] -> exists y h, latest st = Some (y, h) /\ In (y, h) st.
Proof.
  induction st as [|[y h] r IH]; [contradiction|]. intros _. cbn [latest].
  destruct r as [|e r'].
  - cbn. exists y, h. split; [reflexivity|left; reflexivity].
  - destruct IH as (y' & h' & -> & Hin); [discriminate|].
    destruct (y <? y')%Z; [exists y', h'; split; [reflexivity|right; exact Hin]|exists y, h; split; [reflexivity|left; reflexivity]].
Qed.

Lemma yrun_nonempty f : forall ws st st', st <> [] -> yrun f st ws = Ok st' -> st' <> [].
Proof.
  assert (Hf : forall y h st, fset y h st <> []).
  { intros y h [|[y' h'] r]; cbn; [discriminate|]. destruct (Z.eqb y y'); discriminate. }
  induction ws as [|[y op] ws IH]; intros st st' Hne H; cbn [yrun] in H; [inversion H; subst; exact Hne|].
  apply bind_ok_h in H as (st1 & H1 & H2). apply (IH st1 st'); [|exact H2].
  unfold ystep in H1. destruct (flookup y st).
  - inversion H1. apply Hf.
  - apply bind_ok_h in H1 as (h & _ & H1). inversion H1. apply Hf.
Qed.

(** create, write into any years at indices >= 1, restart: the latest year file reports the created schema *)
Theorem reload_history_ok f ws : storable f = true -> years_ok ws = true ->
  exists y, reload_history f ws = Ok (set_year f y).
Proof.
  intros Hs Hok. unfold reload_history, run_history.
  destruct (header_roundtrip f Hs) as (h0 & He & Hl & _).
  unfold create. rewrite (storable_check f Hs), He. cbn [bindR].
  assert (Hinv0 : files_inv f [(t_year f, h0)]).
  { constructor; [|constructor]. cbn [fst snd]. split; [exact (sp_year _ (storable_spec _ Hs))|].
    replace (set_year f (t_year f)) with f by (destruct f; reflexivity). exact He. }
  destruct (yrun_inv f ws _ Hs Hinv0 Hok) as (st & Hrun & Hinv). rewrite Hrun. cbn [bindR].
  assert (Hne0 : [(t_year f, h0)] <> []) by discriminate.
  destruct (latest_in st) as (y & h & Hlat & Hin); [apply (yrun_nonempty f ws _ _ Hne0 Hrun)|].
  rewrite Hlat. exists y. unfold files_inv in Hinv. rewrite Forall_forall in Hinv.
  destruct (Hinv _ Hin) as [Hy Hh]. cbn [fst snd] in *.
  destruct (header_roundtrip _ (storable_set_year f y Hs Hy)) as (h' & He' & _ & Hr).
  assert (h' = h) by congruence. subst h'. exact Hr.
Qed.
