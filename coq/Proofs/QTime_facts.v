(** Closed forms of Model/QTime.v for instants inside years 1..9999 (where no int16/int64 wrap
    occurs), built on Base/Civil.v's year bracket.  These turn the Go-level time functions of the query
    path into plain integer arithmetic on nanoseconds. *)
From Coq Require Import ZArith List Bool Lia.
Import ListNotations.
Require Import MS.Base.GoInt MS.Base.Civil MS.Generated.Src_query MS.Model.QTime.
Local Open Scope Z_scope.

Definition sec_lo : Z := -62135596800.    (* 86400 * dby 1 *)
Definition sec_hi : Z := 253402300800.    (* 86400 * dby 10000 *)

Definition saneP (sec ns : Z) : Prop := sec_lo <= sec < sec_hi /\ 0 <= ns < nsPerSec.

Ltac i64_small := unfold in_ity, ity_min, ity_max; cbn [ity_signed ity_bits]; norm_pows; lia.

Lemma dby_1 : dby 1 = -719162. Proof. reflexivity. Qed.
Lemma dby_10000 : dby 10000 = 2932897. Proof. reflexivity. Qed.

Lemma dby_bounds y : 1 <= y <= 10000 -> -719162 <= dby y <= 2932897.
Proof.
  intros H. pose proof (dby_mono_le 1 y ltac:(lia)) as A. pose proof (dby_mono_le y 10000 ltac:(lia)) as B.
  change (dby 1) with (-719162) in A. change (dby 10000) with 2932897 in B. lia.
Qed.

Lemma go_unix_sane sec ns : saneP sec ns -> go_unix sec ns = mkT (sec + unixToInternal) ns.
Proof.
  unfold saneP, sec_lo, sec_hi, go_unix, unixToInternal. unfold nsPerSec. intros [Hs Hn].
  rewrite (Z.div_small ns 1000000000) by lia. rewrite (Z.mod_small ns 1000000000) by lia.
  rewrite Z.add_0_r. rewrite (wrap_small I64 sec) by i64_small.
  rewrite wrap_small by i64_small. reflexivity.
Qed.

Lemma go_days_sane sec ns : saneP sec ns -> go_days (mkT (sec + unixToInternal) ns) = sec / 86400.
Proof.
  unfold saneP, sec_lo, sec_hi, go_days, unixToInternal, internalToAbsolute, absDayOfUnixEpoch. cbn [g_ext].
  intros [Hs _].
  replace (sec + 62135596800 + 9223371966579724800) with (sec + 106751991073094 * 86400) by lia.
  rewrite Z.mod_small by (change (2 ^ 64) with 18446744073709551616; lia).
  rewrite Z.div_add by lia. lia.
Qed.

(** the calendar year of a sane instant *)
Definition yr (sec : Z) : Z := year_of_days (sec / 86400).

Lemma yr_bracket sec : 86400 * dby (yr sec) <= sec < 86400 * dby (yr sec + 1).
Proof.
  unfold yr. pose proof (year_of_days_spec (sec / 86400)) as H.
  Z.div_mod_to_equations. lia.
Qed.

Lemma yr_range sec : sec_lo <= sec < sec_hi -> 1 <= yr sec <= 9999.
Proof.
  unfold sec_lo, sec_hi. intros H. pose proof (yr_bracket sec) as B.
  destruct (Z_lt_le_dec (yr sec) 1) as [L|L].
  - pose proof (dby_mono_le (yr sec + 1) 1 ltac:(lia)) as M. rewrite dby_1 in M. lia.
  - destruct (Z_lt_le_dec 9999 (yr sec)) as [G|G]; [|lia].
    pose proof (dby_mono_le 10000 (yr sec) ltac:(lia)) as M. rewrite dby_10000 in M. lia.
Qed.

Lemma t_year_sane sec ns : saneP sec ns -> t_year (go_unix sec ns) = yr sec.
Proof. intros H. unfold t_year. rewrite (go_unix_sane _ _ H), (go_days_sane _ _ H). reflexivity. Qed.

Lemma t_yday0_sane sec ns : saneP sec ns -> t_yday0 (go_unix sec ns) = sec / 86400 - dby (yr sec).
Proof. intros H. unfold t_yday0, yday_of_days. rewrite (go_unix_sane _ _ H), (go_days_sane _ _ H). reflexivity. Qed.

Lemma go_jan_day_sane y n : 1 <= y <= 10000 -> 0 <= n <= 400 ->
  go_jan_day y n = mkT (86400 * (dby y + n) + unixToInternal) 0.
Proof.
  intros Hy Hn. unfold go_jan_day, unixToInternal. pose proof (dby_bounds y Hy).
  rewrite wrap_small by i64_small. reflexivity.
Qed.

Lemma go_jan1_sane y : 1 <= y <= 10000 -> go_jan1 y = mkT (86400 * dby y + unixToInternal) 0.
Proof. intros Hy. unfold go_jan1. rewrite go_jan_day_sane by lia. now rewrite Z.add_0_r. Qed.

(** nanoseconds from Jan 1 of its year to a sane instant *)
Lemma t_sub_jan1 sec ns : saneP sec ns ->
  t_sub (go_unix sec ns) (go_jan1 (yr sec)) = (sec - 86400 * dby (yr sec)) * nsPerSec + ns
  /\ 0 <= (sec - 86400 * dby (yr sec)) * nsPerSec + ns < 366 * 86400 * nsPerSec.
Proof.
  intros H. pose proof H as [Hs Hn]. pose proof (yr_range sec Hs) as Hy. pose proof (yr_bracket sec) as B.
  rewrite (dby_step (yr sec)) in B. pose proof (days_in_year_range (yr sec)) as D.
  assert (R : 0 <= (sec - 86400 * dby (yr sec)) * nsPerSec + ns < 366 * 86400 * nsPerSec).
  { unfold nsPerSec in *. nia. }
  split; [|exact R].
  rewrite (go_unix_sane _ _ H), go_jan1_sane by lia. unfold t_sub. cbn [g_ext g_ns].
  replace ((sec + unixToInternal - (86400 * dby (yr sec) + unixToInternal)) * nsPerSec + (ns - 0))
    with ((sec - 86400 * dby (yr sec)) * nsPerSec + ns) by lia.
  unfold minDuration, maxDuration. unfold nsPerSec in *.
  replace ((- 2 ^ 63 <=? (sec - 86400 * dby (yr sec)) * 1000000000 + ns)
           && ((sec - 86400 * dby (yr sec)) * 1000000000 + ns <=? 2 ^ 63 - 1)) with true; [reflexivity|].
  symmetry. apply andb_true_iff. rewrite !Z.leb_le. change (2 ^ 63) with 9223372036854775808. lia.
Qed.

(** year length *)
Lemma nanosecondsInYear_sane y : 1 <= y <= 9999 ->
  nanosecondsInYear y = days_in_year y * utils_Day.
Proof.
  intros Hy. unfold nanosecondsInYear. rewrite !go_jan1_sane by lia. unfold t_sub. cbn [g_ext g_ns].
  rewrite dby_step. pose proof (days_in_year_range y) as D. unfold utils_Day, nsPerSec, minDuration, maxDuration.
  replace ((86400 * (dby y + days_in_year y) + unixToInternal - (86400 * dby y + unixToInternal)) * 1000000000 + (0 - 0))
    with (days_in_year y * 86400000000000) by lia.
  replace ((- 2 ^ 63 <=? days_in_year y * 86400000000000) && (days_in_year y * 86400000000000 <=? 2 ^ 63 - 1)) with true;
    [reflexivity|].
  symmetry. apply andb_true_iff. rewrite !Z.leb_le. change (2 ^ 63) with 9223372036854775808. lia.
Qed.

(* ------------------------------------------------------------------ timeframes *)

Definition is_tfb (tf : Z) : bool := existsb (Z.eqb tf) (map snd Timeframes).

(** what the proofs need of a timeframe of utils.Timeframes: whole seconds, divides the day *)
Lemma is_tf_facts tf : is_tfb tf = true ->
  exists m q, tf = nsPerSec * m /\ 0 < m /\ utils_Day = tf * q /\ 0 < q /\ q <= 86400.
Proof.
  unfold is_tfb, Timeframes. cbn [map snd existsb]. rewrite !orb_true_iff, !Z.eqb_eq.
  unfold nsPerSec, utils_Day.
  intros H. repeat (destruct H as [H|H]; [subst tf|]); try discriminate H.
  (* one witness pair per table entry, whatever the order of the table *)
  all: first [ exists 1, 86400; lia | exists 10, 8640; lia | exists 30, 2880; lia | exists 60, 1440; lia
             | exists 300, 288; lia | exists 900, 96; lia | exists 1800, 48; lia | exists 3600, 24; lia
             | exists 7200, 12; lia | exists 14400, 6; lia | exists 86400, 1; lia ].
Qed.
