(** Facts about Model/FStore.v: the fixed-length write path refines the last-writer-wins interval
    map of Spec/IntervalMap.v and the all-time read returns its elements (property C08). *)
From Coq Require Import ZArith List Bool Lia Sorted.
From Coq.Strings Require Import Byte.
Import ListNotations.
Require Import MS.Base.GoInt MS.Base.Res MS.Base.SortedAList MS.Generated.Src_io MS.Generated.Src_fstore
  MS.Model.UTime MS.Model.FStore MS.Spec.IntervalMap MS.Proofs.UTime_facts.
Local Open Scope Z_scope.

Arguments year_of : simpl never.
Arguments jan1 : simpl never.
Arguments TimeToIndex : simpl never.
Arguments IndexToTime : simpl never.
Arguments IndexToOffset : simpl never.
Arguments istart : simpl never.
Arguments nslots : simpl never.
Arguments qof : simpl never.
Arguments valid_time : simpl never.
Arguments kcmp : simpl never.

(** * comparisons are total orders *)
Lemma kcmp_ok : cmp_ok kcmp (fun _ => True).
Proof.
  constructor; intros.
  - apply kcmp_refl.
  - apply kcmp_antisym.
  - eapply kcmp_lt_trans; eassumption.
  - apply kcmp_eq in H2. subst. reflexivity.
Qed.

Lemma zcmp_ok : cmp_ok Z.compare (fun _ => True).
Proof.
  constructor; intros.
  - apply Z.compare_refl.
  - apply Z.compare_antisym.
  - rewrite Z.compare_lt_iff in *. lia.
  - apply Z.compare_eq in H2. subst. reflexivity.
Qed.

Lemma keys_in_true {K V} (s : list (K * V)) : keys_in (fun _ => True) s.
Proof. unfold keys_in. apply Forall_forall. intros; exact I. Qed.

(** * Step A: the command grouping of WriteRecords is harmless (consecutive rows of one year and
    index are merged into one command, the last row's bytes win — which is what writing them one
    by one does) *)
Definition step (tfs recLen : Z) (s : list entry) (r : row) : list entry := apply_cmd s (cmd_of tfs recLen r).

Lemma apply_same_key s c c' :
  c_year c = c_year c' -> c_off c = c_off c' ->
  apply_cmd (apply_cmd s c) c' = apply_cmd s c'.
Proof.
  intros Hy Ho. unfold apply_cmd. rewrite Hy, Ho.
  apply (ins_ins_same kcmp (fun _ => True) kcmp_ok); [exact I|apply keys_in_true].
Qed.

Lemma wr_loop_fold tfs recLen : forall rows y0 prevIndex cc s,
  c_idx cc = prevIndex -> c_off cc = IndexToOffset prevIndex recLen -> c_year cc = y0 ->
  fold_left apply_cmd (wr_loop tfs recLen y0 prevIndex cc rows) s
  = fold_left (step tfs recLen) rows (apply_cmd s cc).
Proof.
  induction rows as [|r rest IH]; intros y0 prevIndex cc s Hi Ho Hy; [reflexivity|].
  cbn [wr_loop] in *.
  destruct ((TimeToIndex tfs (fst r) =? prevIndex) && (year_of (fst r) =? y0)) eqn:E.
  - apply andb_prop in E as [E1 E2]. apply Z.eqb_eq in E1. apply Z.eqb_eq in E2.
    rewrite (IH y0 prevIndex (set_data cc (snd r)) s); [|exact Hi|exact Ho|exact Hy].
    cbn [fold_left]. f_equal. unfold step.
    rewrite apply_same_key.
    + unfold apply_cmd, cmd_of, set_data; cbn. rewrite E1, E2, <- Hy, Ho, Hi. reflexivity.
    + cbn. congruence.
    + cbn. rewrite E1. exact Ho.
  - cbn [fold_left].
    rewrite (IH (year_of (fst r)) (TimeToIndex tfs (fst r)) (cmd_of tfs recLen r) (apply_cmd s cc));
      reflexivity.
Qed.

Lemma write_records_fold tfs recLen rows s :
  fold_left apply_cmd (write_records tfs recLen rows) s = fold_left (step tfs recLen) rows s.
Proof.
  destruct rows as [|r rest]; [reflexivity|]. cbn [write_records].
  rewrite wr_loop_fold; reflexivity.
Qed.

(** * Step B: row-wise application refines insertion into the interval map *)
Definition entry_of (tfs recLen : Z) (r : row) : entry :=
  ((year_of (fst r), IndexToOffset (TimeToIndex tfs (fst r)) recLen), (TimeToIndex tfs (fst r), snd r)).

Definition wf_entry (tfs recLen : Z) (e : entry) : Prop :=
  exists r, valid_time (fst r) = true /\ e = entry_of tfs recLen r.

Lemma step_ins tfs recLen s r :
  step tfs recLen s r = ins kcmp (fst (entry_of tfs recLen r)) (snd (entry_of tfs recLen r)) s.
Proof. reflexivity. Qed.

Lemma IndexToOffset_small idx recLen :
  -1 <= idx <= 4294967296 -> 0 < recLen < 1048576 ->
  IndexToOffset idx recLen = (idx - 1) * recLen + 37024.
Proof.
  intros Hi Hr. unfold IndexToOffset.
  rewrite (wrap_small I64 (idx - 1)) by (unfold in_ity, ity_min, ity_max; cbn; lia).
  rewrite (wrap_small I64 recLen) by (unfold in_ity, ity_min, ity_max; cbn; lia).
  rewrite (wrap_small I64 ((idx - 1) * recLen)) by (unfold in_ity, ity_min, ity_max; cbn; nia).
  apply wrap_small. unfold in_ity, ity_min, ity_max; cbn. nia.
Qed.

Lemma nslots_bound tfs y : valid_tf tfs = true -> 0 <= nslots tfs y <= 31622400.
Proof.
  unfold valid_tf. rewrite !andb_true_iff, !Z.leb_le. intros [[H1 H2] _].
  unfold nslots, day_s in *. pose proof (days_in_year_pos y). split.
  - apply Z.div_pos; lia.
  - apply Z.div_le_upper_bound; nia.
Qed.

Lemma idx_range tfs t : valid_time t = true -> valid_tf tfs = true ->
  0 <= TimeToIndex tfs t <= 31622400 /\
  TimeToIndex tfs t = (if tfs =? day_s then qof tfs t else 1 + qof tfs t).
Proof.
  intros Ht Htf. pose proof (qof_range tfs t Ht Htf). pose proof (nslots_bound tfs (year_of t) Htf).
  rewrite TimeToIndex_qof. split; [|reflexivity]. destruct (tfs =? day_s); lia.
Qed.

Lemma valid_reclen_spec recLen : valid_reclen recLen = true -> 16 <= recLen < 1048576.
Proof. unfold valid_reclen. rewrite andb_true_iff, Z.leb_le, Z.ltb_lt. tauto. Qed.

Lemma stamp_entry_of tfs recLen r : stamp tfs (entry_of tfs recLen r) = (istart tfs (fst r), snd r).
Proof. unfold stamp, entry_of; cbn. rewrite IndexToTime_TimeToIndex. reflexivity. Qed.

(** keys of well-formed entries compare like the interval starts they denote *)
Lemma key_compare tfs recLen r1 r2 :
  valid_tf tfs = true -> valid_reclen recLen = true ->
  valid_time (fst r1) = true -> valid_time (fst r2) = true ->
  (istart tfs (fst r1) ?= istart tfs (fst r2))
  = kcmp (fst (entry_of tfs recLen r1)) (fst (entry_of tfs recLen r2)).
Proof.
  intros Htf Hrl H1 H2. rewrite (istart_compare tfs _ _ H1 H2 Htf).
  apply valid_reclen_spec in Hrl.
  destruct (idx_range tfs (fst r1) H1 Htf) as [B1 E1].
  destruct (idx_range tfs (fst r2) H2 Htf) as [B2 E2].
  unfold kcmp, entry_of; cbn [fst snd].
  destruct (year_of (fst r1) ?= year_of (fst r2)); try reflexivity.
  rewrite !IndexToOffset_small by lia. rewrite E1, E2.
  destruct (tfs =? day_s).
  - destruct (Z.compare_spec (qof tfs (fst r1)) (qof tfs (fst r2))); symmetry;
      [apply Z.compare_eq_iff|apply Z.compare_lt_iff|apply Z.compare_gt_iff]; nia.
  - destruct (Z.compare_spec (qof tfs (fst r1)) (qof tfs (fst r2))); symmetry;
      [apply Z.compare_eq_iff|apply Z.compare_lt_iff|apply Z.compare_gt_iff]; nia.
Qed.

Definition abs (tfs : Z) (s : list entry) : imap := map (stamp tfs) s.

Lemma abs_step tfs recLen s r :
  valid_tf tfs = true -> valid_reclen recLen = true -> valid_time (fst r) = true ->
  Forall (wf_entry tfs recLen) s ->
  abs tfs (step tfs recLen s r) = im_ins (istart tfs (fst r)) (snd r) (abs tfs s).
Proof.
  intros Htf Hrl Hr Hs. rewrite step_ins. unfold abs, im_ins.
  destruct (entry_of tfs recLen r) as [k v] eqn:Ek.
  cbn [fst snd].
  etransitivity.
  { apply (map_ins kcmp Z.compare (stamp tfs) (wf_entry tfs recLen) k v s).
    - intros e [r' [Hv' ->]] _. rewrite <- Ek, !stamp_entry_of. cbn [fst].
      replace k with (fst (entry_of tfs recLen r)) by (rewrite Ek; reflexivity).
      apply key_compare; assumption.
    - exists r. split; [assumption|congruence].
    - assumption. }
  rewrite <- Ek, stamp_entry_of. reflexivity.
Qed.

Lemma wf_step tfs recLen s r :
  valid_time (fst r) = true -> Forall (wf_entry tfs recLen) s -> Forall (wf_entry tfs recLen) (step tfs recLen s r).
Proof.
  intros Hr Hs. rewrite step_ins.
  assert (Hn : wf_entry tfs recLen (entry_of tfs recLen r)) by (exists r; split; [assumption|reflexivity]).
  destruct (entry_of tfs recLen r) as [k v]. cbn [fst snd].
  induction s as [|[k' v'] s' IH]; cbn.
  - constructor; [assumption|constructor].
  - inversion Hs as [|? ? He Hs']; subst. destruct (kcmp k k').
    + constructor; assumption.
    + constructor; assumption.
    + constructor; [assumption|apply IH; assumption].
Qed.

Lemma abs_fold tfs recLen : forall rows s,
  valid_tf tfs = true -> valid_reclen recLen = true -> rows_valid rows = true ->
  Forall (wf_entry tfs recLen) s ->
  Forall (wf_entry tfs recLen) (fold_left (step tfs recLen) rows s)
  /\ abs tfs (fold_left (step tfs recLen) rows s) = lww_request tfs (abs tfs s) rows.
Proof.
  induction rows as [|r rest IH]; intros s Htf Hrl Hv Hs; [split; [assumption|reflexivity]|].
  cbn in Hv. apply andb_prop in Hv as [Hr Hv].
  cbn [fold_left]. unfold lww_request. cbn [fold_left].
  destruct (IH (step tfs recLen s r) Htf Hrl Hv (wf_step tfs recLen s r Hr Hs)) as [W A].
  split; [exact W|]. rewrite A. unfold lww_request. rewrite abs_step by assumption. reflexivity.
Qed.

(** * Step C: the all-time read returns every stored slot, in order *)
Definition eyear (e : entry) : Z := fst (fst e).

Definition year_sorted (s : list entry) : Prop := StronglySorted (fun a b => eyear a <= eyear b) s.

Lemma filter_above y s : Forall (fun e => y < eyear e) s ->
  filter (fun e => eyear e =? y) s = [] /\ filter (fun e => negb (eyear e =? y)) s = s.
Proof.
  induction 1 as [|e s He Hs [IH1 IH2]]; [split; reflexivity|]. cbn.
  destruct (Z.eqb_spec (eyear e) y); [lia|]. cbn. rewrite IH2. split; [assumption|reflexivity].
Qed.

Lemma filter_year_split y : forall s, year_sorted s -> Forall (fun e => y <= eyear e) s ->
  s = filter (fun e => eyear e =? y) s ++ filter (fun e => negb (eyear e =? y)) s.
Proof.
  induction s as [|e s IH]; intros Hs Hge; [reflexivity|].
  inversion Hs as [|? ? Hs' Hall]; subst. inversion Hge as [|? ? He Hge']; subst.
  cbn [filter]. destruct (Z.eqb_spec (eyear e) y) as [E|N]; cbn [negb].
  - cbn. f_equal. apply IH; assumption.
  - assert (Habove : Forall (fun e0 => y < eyear e0) s).
    { rewrite Forall_forall in *. intros x Hx. specialize (Hall x Hx). lia. }
    destruct (filter_above y s Habove) as [H1 H2]. rewrite H1, H2. reflexivity.
Qed.

Lemma year_sorted_filter f s : year_sorted s -> year_sorted (filter f s).
Proof.
  induction s as [|e s IH]; intros Hs; [constructor|].
  inversion Hs as [|? ? Hs' Hall]; subst. cbn. destruct (f e); [|apply IH; exact Hs'].
  constructor; [apply IH; exact Hs'|]. apply Forall_forall. intros x Hx. apply filter_In in Hx as [Hx _].
  rewrite Forall_forall in Hall. auto.
Qed.

Lemma filter_year_other y y' : y' <> y -> forall s : list entry,
  filter (fun e => eyear e =? y') (filter (fun e => negb (eyear e =? y)) s) = filter (fun e => eyear e =? y') s.
Proof.
  intros Hne. induction s as [|e s IH]; [reflexivity|]. cbn.
  destruct (Z.eqb_spec (eyear e) y) as [E1|N1]; cbn.
  - destruct (Z.eqb_spec (eyear e) y'); [lia|]. exact IH.
  - destruct (Z.eqb_spec (eyear e) y'); rewrite IH; reflexivity.
Qed.

Lemma partition_by_year : forall (Y : list Z) (s : list entry),
  StronglySorted Z.lt Y -> year_sorted s -> Forall (fun e => In (eyear e) Y) s ->
  concat (map (fun y => filter (fun e => eyear e =? y) s) Y) = s.
Proof.
  induction Y as [|y Y IH]; intros s HY Hs Hin.
  - destruct s as [|e s]; [reflexivity|]. inversion Hin; subst. contradiction.
  - inversion HY as [|? ? HY' Hlt]; subst. cbn [map concat].
    assert (Hge : Forall (fun e => y <= eyear e) s).
    { rewrite Forall_forall in *. intros e He. specialize (Hin e He). destruct Hin as [<-|Hi]; [lia|].
      specialize (Hlt _ Hi). lia. }
    transitivity (filter (fun e => eyear e =? y) s ++ filter (fun e => negb (eyear e =? y)) s);
      [|symmetry; apply filter_year_split; assumption].
    f_equal.
    set (s2 := filter (fun e => negb (eyear e =? y)) s).
    rewrite <- (IH s2 HY').
    + apply f_equal. apply map_ext_in. intros y' Hy'.
      unfold s2. symmetry. apply filter_year_other.
      rewrite Forall_forall in Hlt. specialize (Hlt _ Hy'). lia.
    + apply year_sorted_filter. assumption.
    + unfold s2. rewrite Forall_forall in *. intros e He. apply filter_In in He as [He Hne].
      specialize (Hin e He). destruct Hin as [E|Hi]; [|assumption].
      rewrite E, Z.eqb_refl in Hne. discriminate.
Qed.

(** insertion sort of the year list *)
Lemma insert_year_In y l x : In x (insert_year y l) <-> x = y \/ In x l.
Proof.
  induction l as [|a l IH]; cbn; [intuition|].
  destruct (y <=? a); cbn; [intuition|]. rewrite IH. intuition.
Qed.

Lemma sort_years_In l x : In x (sort_years l) <-> In x l.
Proof.
  induction l as [|a l IH]; cbn; [tauto|]. rewrite insert_year_In, IH. intuition.
Qed.

Lemma insert_year_sorted y l : ~ In y l -> StronglySorted Z.lt l -> StronglySorted Z.lt (insert_year y l).
Proof.
  induction l as [|a l IH]; intros Hn Hs; cbn.
  - constructor; constructor.
  - inversion Hs as [|? ? Hs' Hall]; subst. destruct (Z.leb_spec y a).
    + constructor; [assumption|]. constructor; [cbn in Hn; lia|].
      rewrite Forall_forall in *. intros x Hx. specialize (Hall x Hx). cbn in Hn. lia.
    + constructor; [apply IH; [cbn in Hn; tauto|assumption]|].
      rewrite Forall_forall in *. intros x Hx. apply insert_year_In in Hx as [->|Hx]; [lia|auto].
Qed.

Lemma sort_years_sorted l : NoDup l -> StronglySorted Z.lt (sort_years l).
Proof.
  induction l as [|a l IH]; intros Hn; cbn; [constructor|].
  inversion Hn; subst. apply insert_year_sorted; [rewrite sort_years_In; assumption|auto].
Qed.

Lemma sorted_lt_filter f (l : list Z) : StronglySorted Z.lt l -> StronglySorted Z.lt (filter f l).
Proof.
  induction l as [|a l IH]; intros Hs; [constructor|].
  inversion Hs as [|? ? Hs' Hall]; subst. cbn. destruct (f a); [|auto].
  constructor; [auto|]. apply Forall_forall. intros x Hx. apply filter_In in Hx as [Hx _].
  rewrite Forall_forall in Hall. auto.
Qed.

Lemma add_year_NoDup ys y : NoDup ys -> NoDup (add_year ys y).
Proof.
  intros Hn. unfold add_year. destruct (existsb (Z.eqb y) ys) eqn:E; [assumption|].
  constructor; [|assumption]. intros Hin.
  assert (existsb (Z.eqb y) ys = true); [|congruence].
  apply existsb_exists. exists y. split; [assumption|apply Z.eqb_refl].
Qed.

Lemma add_year_In ys y x : In x (add_year ys y) <-> x = y \/ In x ys.
Proof.
  unfold add_year. destruct (existsb (Z.eqb y) ys) eqn:E.
  - apply existsb_exists in E as [z [Hz Ez]]. apply Z.eqb_eq in Ez. subst z. intuition. subst. assumption.
  - cbn. intuition.
Qed.

Lemma fold_add_year_NoDup l : forall ys, NoDup ys -> NoDup (fold_left add_year l ys).
Proof. induction l as [|y l IH]; intros ys H; cbn; [assumption|]. apply IH, add_year_NoDup, H. Qed.

Lemma fold_add_year_In l x : forall ys, In x (fold_left add_year l ys) <-> In x l \/ In x ys.
Proof.
  induction l as [|y l IH]; intros ys; cbn; [tauto|]. rewrite IH, add_year_In. intuition.
Qed.

(** the plan of the all-time range covers every slot a well-formed entry can occupy *)
Lemma year_of_0 : year_of 0 = 1970. Proof. reflexivity. Qed.
Lemma jan1_1970 : jan1 1970 = 0. Proof. reflexivity. Qed.

Lemma plan_all_covers tfs recLen (r : row) :
  valid_tf tfs = true -> valid_reclen recLen = true -> valid_time (fst r) = true ->
  TimeToIndex tfs (fst r) <> 0 ->
  exists o len, plan tfs recLen 0 None (year_of (fst r)) = Some (o, len)
    /\ in_plan recLen o len (IndexToOffset (TimeToIndex tfs (fst r)) recLen) = true.
Proof.
  intros Htf Hrl Hv Hnz.
  destruct (year_of_spec (fst r) Hv) as [Hy _].
  destruct (idx_range tfs (fst r) Hv Htf) as [Hb He].
  pose proof (qof_range tfs (fst r) Hv Htf) as Hq.
  pose proof (nslots_bound tfs (year_of (fst r)) Htf) as Hn.
  pose proof (valid_reclen_spec recLen Hrl) as Hr.
  set (y := year_of (fst r)) in *. set (idx := TimeToIndex tfs (fst r)) in *.
  unfold plan. rewrite year_of_0. cbn [end_year]. unfold max_year16.
  replace ((1970 <=? y) && (y <=? 30579)) with true
    by (symmetry; apply andb_true_intro; split; apply Z.leb_le; lia).
  unfold FileSize, TimeToOffset, Headersize.
  assert (Hidx0 : TimeToIndex tfs 0 = if tfs =? day_s then 0 else 1).
  { unfold TimeToIndex. rewrite year_of_0, jan1_1970. cbn. destruct (tfs =? day_s); reflexivity. }
  rewrite Hidx0.
  eexists. eexists. split; [reflexivity|].
  unfold in_plan. rewrite (IndexToOffset_small idx recLen) by lia.
  unfold valid_tf in Htf. rewrite !andb_true_iff, !Z.leb_le in Htf. destruct Htf as [[Ht1 Ht2] _].
  destruct (Z.eqb_spec tfs day_s) as [Ed|Nd].
  - (* daily *)
    destruct (Z.eqb_spec y 1970) as [Ey|Ny].
    + rewrite (IndexToOffset_small 0 recLen) by lia.
      destruct (Z.ltb_spec (37024 + nslots tfs y * recLen - 37024 + recLen)
                           (37024 + nslots tfs y * recLen - ((0 - 1) * recLen + 37024))).
      * repeat (apply andb_true_intro; split); try (apply Z.leb_le; nia).
        apply Z.eqb_eq. replace ((idx - 1) * recLen + 37024 - ((0 - 1) * recLen + 37024)) with (idx * recLen) by lia.
        apply Z.mod_mul. lia.
      * repeat (apply andb_true_intro; split); try (apply Z.leb_le; nia).
        apply Z.eqb_eq. replace ((idx - 1) * recLen + 37024 - ((0 - 1) * recLen + 37024)) with (idx * recLen) by lia.
        apply Z.mod_mul. lia.
    + destruct (Z.ltb_spec (37024 + nslots tfs y * recLen - 37024 + recLen)
                           (37024 + nslots tfs y * recLen - 37024)); [lia|].
      repeat (apply andb_true_intro; split); try (apply Z.leb_le; nia).
      apply Z.eqb_eq. replace ((idx - 1) * recLen + 37024 - 37024) with ((idx - 1) * recLen) by lia.
      apply Z.mod_mul. lia.
  - assert (Hso : (if y =? 1970 then IndexToOffset 1 recLen else 37024) = 37024).
    { destruct (y =? 1970); [|reflexivity]. rewrite IndexToOffset_small by lia. lia. }
    rewrite Hso.
    destruct (Z.ltb_spec (37024 + nslots tfs y * recLen - 37024 + recLen)
                         (37024 + nslots tfs y * recLen - 37024)); [lia|].
    repeat (apply andb_true_intro; split); try (apply Z.leb_le; nia).
    apply Z.eqb_eq. replace ((idx - 1) * recLen + 37024 - 37024) with ((idx - 1) * recLen) by lia.
    apply Z.mod_mul. lia.
Qed.

(** store invariant kept by guarded writes *)
Definition live_entry (tfs recLen : Z) (e : entry) : Prop :=
  exists r, valid_time (fst r) = true /\ TimeToIndex tfs (fst r) <> 0 /\ e = entry_of tfs recLen r.

Lemma live_step tfs recLen s r :
  valid_time (fst r) = true -> TimeToIndex tfs (fst r) <> 0 ->
  Forall (live_entry tfs recLen) s -> Forall (live_entry tfs recLen) (step tfs recLen s r).
Proof.
  intros Hr Hnz Hs. rewrite step_ins.
  assert (Hn : live_entry tfs recLen (entry_of tfs recLen r)) by (exists r; repeat split; assumption).
  destruct (entry_of tfs recLen r) as [k v]. cbn [fst snd].
  induction s as [|[k' v'] s' IH]; cbn.
  - constructor; [assumption|constructor].
  - inversion Hs as [|? ? He Hs']; subst. destruct (kcmp k k').
    + constructor; assumption.
    + constructor; assumption.
    + constructor; [assumption|apply IH; assumption].
Qed.

Lemma live_fold tfs recLen : forall rows s,
  rows_valid rows = true -> no_index0 tfs rows = true ->
  Forall (live_entry tfs recLen) s -> Forall (live_entry tfs recLen) (fold_left (step tfs recLen) rows s).
Proof.
  induction rows as [|r rest IH]; intros s Hv Hz Hs; [assumption|].
  cbn in Hv, Hz. apply andb_prop in Hv as [Hr Hv]. apply andb_prop in Hz as [Hz0 Hz].
  cbn [fold_left]. apply IH; [assumption|assumption|].
  apply live_step; [assumption| |assumption].
  apply negb_true_iff, Z.eqb_neq in Hz0. assumption.
Qed.

Lemma live_wf tfs recLen s : Forall (live_entry tfs recLen) s -> Forall (wf_entry tfs recLen) s.
Proof.
  apply Forall_impl. intros e [r [H1 [_ H2]]]. exists r. split; assumption.
Qed.

Lemma sorted_step tfs recLen s r : sorted kcmp s -> sorted kcmp (step tfs recLen s r).
Proof.
  intros Hs. rewrite step_ins.
  apply (sorted_ins kcmp (fun _ => True) kcmp_ok); [exact I|apply keys_in_true|assumption].
Qed.

Lemma sorted_fold tfs recLen : forall rows s, sorted kcmp s -> sorted kcmp (fold_left (step tfs recLen) rows s).
Proof. induction rows as [|r rest IH]; intros s Hs; [assumption|]. cbn. apply IH, sorted_step, Hs. Qed.

Lemma kcmp_lt_year a b : kcmp a b = Lt -> fst a <= fst b.
Proof.
  unfold kcmp. destruct (Z.compare_spec (fst a) (fst b)); intros; try discriminate; lia.
Qed.

Lemma sorted_year_sorted : forall s, sorted kcmp s -> Forall (fun _ => True) s -> year_sorted s.
Proof.
  intros s Hs _. induction s as [|[k v] s IH]; [constructor|].
  cbn in Hs. destruct Hs as [Hh Hs]. specialize (IH Hs). constructor; [assumption|].
  (* every later year is >= via the head link and sortedness of the tail *)
  destruct s as [|[k' v'] s']; [constructor|].
  inversion IH as [|? ? _ Hall]; subst.
  apply kcmp_lt_year in Hh. constructor; [exact Hh|].
  rewrite Forall_forall in *. intros x Hx. specialize (Hall x Hx). unfold eyear in *. cbn in *. lia.
Qed.

Lemma years_step tfs recLen s r ys :
  Forall (fun e => In (eyear e) ys) s -> In (year_of (fst r)) ys ->
  Forall (fun e => In (eyear e) ys) (step tfs recLen s r).
Proof.
  intros Hs Hr. rewrite step_ins.
  destruct (entry_of tfs recLen r) as [k v] eqn:Ek. cbn [fst snd].
  assert (Hk : In (fst k) ys) by (unfold entry_of in Ek; inversion Ek; subst; exact Hr).
  induction s as [|[k' v'] s' IH]; cbn.
  - constructor; [exact Hk|constructor].
  - inversion Hs as [|? ? He Hs']; subst. destruct (kcmp k k').
    + constructor; [exact Hk|assumption].
    + constructor; [exact Hk|assumption].
    + constructor; [assumption|apply IH; assumption].
Qed.

Lemma years_fold tfs recLen ys : forall rows s,
  Forall (fun e => In (eyear e) ys) s -> (forall r, In r rows -> In (year_of (fst r)) ys) ->
  Forall (fun e => In (eyear e) ys) (fold_left (step tfs recLen) rows s).
Proof.
  induction rows as [|r rest IH]; intros s Hs Hr; [assumption|]. cbn [fold_left].
  apply IH; [apply years_step; [assumption|apply Hr; left; reflexivity]|intros; apply Hr; right; assumption].
Qed.

Lemma years_mono (ys ys' : list Z) (s : list entry) :
  (forall y, In y ys -> In y ys') -> Forall (fun e => In (eyear e) ys) s -> Forall (fun e => In (eyear e) ys') s.
Proof. intros H. apply Forall_impl. intros e; apply H. Qed.

(** reading back *)
Lemma read_all tfs recLen ys s :
  valid_tf tfs = true -> valid_reclen recLen = true ->
  NoDup ys -> sorted kcmp s -> Forall (live_entry tfs recLen) s -> Forall (fun e => In (eyear e) ys) s ->
  concat (file_rows tfs recLen 0 None (mkstore ys s)) = abs tfs s.
Proof.
  intros Htf Hrl Hnd Hso Hlive Hyin. unfold file_rows; cbn [s_data s_years].
  set (Y := filter (fun y => is_some (plan tfs recLen 0 None y)) (sort_years ys)).
  assert (HY : StronglySorted Z.lt Y) by (apply sorted_lt_filter, sort_years_sorted, Hnd).
  assert (HinY : Forall (fun e => In (eyear e) Y) s).
  { rewrite Forall_forall in *. intros e He. unfold Y. apply filter_In. split.
    - apply sort_years_In. apply Hyin, He.
    - destruct (Hlive e He) as [r [Hv [Hnz ->]]].
      destruct (plan_all_covers tfs recLen r Htf Hrl Hv Hnz) as [o [len [Hp _]]].
      unfold eyear, entry_of; cbn. rewrite Hp. reflexivity. }
  assert (Hrows : forall y, In y Y ->
            slot_rows tfs recLen 0 None s y = map (stamp tfs) (filter (fun e => eyear e =? y) s)).
  { intros y Hy. unfold slot_rows.
    destruct (plan tfs recLen 0 None y) as [[o len]|] eqn:Hp.
    - f_equal. apply filter_ext_in. intros e He.
      destruct (Z.eqb_spec (eyear e) y) as [Ey|Ny]; unfold eyear in *.
      + rewrite Forall_forall in Hlive. destruct (Hlive e He) as [r [Hv [Hnz ->]]].
        destruct (plan_all_covers tfs recLen r Htf Hrl Hv Hnz) as [o' [len' [Hp' Hin']]].
        unfold entry_of in Ey |- *; cbn [fst snd] in *. subst y. rewrite Hp in Hp'.
        inversion Hp'; subst o' len'. rewrite Z.eqb_refl, Hin'. cbn.
        apply negb_true_iff, Z.eqb_neq. assumption.
      + destruct (Z.eqb_spec (fst (fst e)) y); [contradiction|reflexivity].
    - unfold Y in Hy. apply filter_In in Hy as [_ Hq]. rewrite Hp in Hq. discriminate. }
  rewrite (map_ext_in _ _ Y Hrows).
  rewrite <- (map_map (fun y => filter (fun e => eyear e =? y) s) (map (stamp tfs))).
  rewrite <- concat_map. unfold abs. f_equal.
  apply partition_by_year; [assumption| |assumption].
  apply sorted_year_sorted; [assumption|]. apply Forall_forall. intros; exact I.
Qed.

(** * the refinement theorem *)
Definition flat (reqs : list (list row)) : list row := concat reqs.

Lemma data_fold tfs recLen : forall reqs st,
  s_data (fold_left (write_fixed tfs recLen) reqs st)
  = fold_left (fun s rows => fold_left (step tfs recLen) rows s) reqs (s_data st).
Proof.
  induction reqs as [|rq rest IH]; intros st; [reflexivity|].
  cbn [fold_left]. rewrite IH.
  cbn [write_fixed s_data]. rewrite write_records_fold. reflexivity.
Qed.

Lemma years_of_fold tfs recLen : forall reqs st x,
  In x (s_years (fold_left (write_fixed tfs recLen) reqs st))
  <-> (exists rows r, In rows reqs /\ In r rows /\ x = year_of (fst r)) \/ In x (s_years st).
Proof.
  induction reqs as [|rq rest IH]; intros st x; cbn [fold_left].
  - split; [intros H; right; exact H|intros [[rows [r [[] _]]]|H]; exact H].
  - rewrite IH. cbn [write_fixed s_years]. rewrite fold_add_year_In, in_map_iff. split.
    + intros [[rows [r [H1 [H2 H3]]]]|[[r [H1 H2]]|H]].
      * left. exists rows, r. repeat split; [right; assumption|assumption|assumption].
      * left. exists rq, r. repeat split; [left; reflexivity|assumption|congruence].
      * right. assumption.
    + intros [[rows [r [[<-|H1] [H2 H3]]]]|H].
      * right. left. exists r. split; [congruence|assumption].
      * left. exists rows, r. repeat split; assumption.
      * right. right. assumption.
Qed.

Lemma years_NoDup tfs recLen : forall reqs st, NoDup (s_years st) ->
  NoDup (s_years (fold_left (write_fixed tfs recLen) reqs st)).
Proof.
  induction reqs as [|rq rest IH]; intros st H; [assumption|]. cbn [fold_left]. apply IH.
  cbn [write_fixed s_years]. apply fold_add_year_NoDup, H.
Qed.

Lemma guard_parts tfs recLen reqs : guard_C08 tfs recLen reqs = true ->
  valid_tf tfs = true /\ valid_reclen recLen = true /\ queryable_tfs tfs = tfs
  /\ forallb (fun rows => rows_valid rows) reqs = true
  /\ forallb (fun rows => no_index0 tfs rows) reqs = true.
Proof.
  unfold guard_C08. rewrite !andb_true_iff. intros [[[H1 H2] H3] H4]. apply Z.eqb_eq in H3.
  repeat split; try assumption;
  rewrite forallb_forall in *; intros x Hx; specialize (H4 x Hx);
  rewrite !andb_true_iff in H4; tauto.
Qed.

(** combined induction over the request list *)
Lemma history_inv tfs recLen : forall reqs s ys,
  valid_tf tfs = true -> valid_reclen recLen = true ->
  forallb (fun rows => rows_valid rows) reqs = true ->
  forallb (fun rows => no_index0 tfs rows) reqs = true ->
  (forall rows r, In rows reqs -> In r rows -> In (year_of (fst r)) ys) ->
  sorted kcmp s -> Forall (live_entry tfs recLen) s -> Forall (fun e => In (eyear e) ys) s ->
  forall s', s' = fold_left (fun s rows => fold_left (step tfs recLen) rows s) reqs s ->
  sorted kcmp s' /\ Forall (live_entry tfs recLen) s' /\ Forall (fun e => In (eyear e) ys) s'
  /\ abs tfs s' = fold_left (lww_request tfs) reqs (abs tfs s).
Proof.
  induction reqs as [|rq rest IH]; intros s ys Htf Hrl Hv Hz Hy Hso Hl Hyi s' ->.
  - cbn. repeat split; assumption.
  - cbn in Hv, Hz. apply andb_prop in Hv as [Hv1 Hv]. apply andb_prop in Hz as [Hz1 Hz].
    cbn [fold_left].
    pose proof (sorted_fold tfs recLen rq s Hso) as Hso1.
    pose proof (live_fold tfs recLen rq s Hv1 Hz1 Hl) as Hl1.
    pose proof (years_fold tfs recLen ys rq s Hyi (fun r Hr => Hy rq r (or_introl eq_refl) Hr)) as Hy1.
    destruct (abs_fold tfs recLen rq s Htf Hrl Hv1 (live_wf _ _ _ Hl)) as [_ Ha1].
    specialize (IH (fold_left (step tfs recLen) rq s) ys Htf Hrl Hv Hz
                   (fun rows r H1 H2 => Hy rows r (or_intror H1) H2) Hso1 Hl1 Hy1 _ eq_refl).
    destruct IH as [A [B [C D]]]. repeat split; try assumption.
    rewrite D, Ha1. reflexivity.
Qed.

Definition has_row (reqs : list (list row)) : Prop := exists rows r, In rows reqs /\ In r rows.

Lemma has_row_cons r rows rest : has_row ((r :: rows) :: rest).
Proof. exists (r :: rows), r. split; left; reflexivity. Qed.

Theorem write_read_lww tfs recLen reqs :
  guard_C08 tfs recLen reqs = true -> has_row reqs ->
  query_bucket_all tfs recLen (fold_left (write_fixed tfs recLen) reqs empty_store) = Ok (lww tfs reqs).
Proof.
  intros Hg Hrow. destruct (guard_parts tfs recLen reqs Hg) as [Htf [Hrl [Hq [Hv Hz]]]].
  unfold query_bucket_all. rewrite Hq, Z.eqb_refl.
  set (st := fold_left (write_fixed tfs recLen) reqs empty_store).
  assert (Hyears : forall x, In x (s_years st) <-> exists rows r, In rows reqs /\ In r rows /\ x = year_of (fst r)).
  { intros x. unfold st. rewrite years_of_fold. cbn. intuition. }
  assert (Hnd : NoDup (s_years st)) by (apply years_NoDup; constructor).
  pose proof (data_fold tfs recLen reqs empty_store) as Hdata. fold st in Hdata. cbn [empty_store s_data] in Hdata.
  destruct (history_inv tfs recLen reqs [] (s_years st) Htf Hrl Hv Hz) with (s' := s_data st)
    as [Hso [Hl [Hyi Ha]]].
  { intros rows r H1 H2. apply Hyears. exists rows, r. repeat split; assumption. }
  { exact I. } { constructor. } { constructor. } { exact Hdata. }
  unfold query_all, query.
  destruct (s_years st) as [|y0 ys0] eqn:Ey.
  - destruct Hrow as [rows [r [H1 H2]]].
    assert (In (year_of (fst r)) []) by (apply Hyears; exists rows, r; repeat split; assumption).
    contradiction.
  - f_equal. rewrite <- Ey in *.
    replace st with (mkstore (s_years st) (s_data st)) by (destruct st; reflexivity).
    rewrite read_all by assumption. rewrite Ha. reflexivity.
Qed.

(** * the specification object is what the property text says *)
Lemma lww_request_sorted tfs : forall rows m, sorted Z.compare m -> sorted Z.compare (lww_request tfs m rows).
Proof.
  induction rows as [|r rest IH]; intros m Hm; [assumption|]. unfold lww_request in *. cbn [fold_left].
  apply IH. apply (sorted_ins Z.compare (fun _ => True) zcmp_ok); [exact I|apply keys_in_true|assumption].
Qed.

Lemma lww_sorted_gen tfs : forall reqs m, sorted Z.compare m -> sorted Z.compare (fold_left (lww_request tfs) reqs m).
Proof. induction reqs as [|rq rest IH]; intros m Hm; [assumption|]. cbn. apply IH, lww_request_sorted, Hm. Qed.

Theorem lww_sorted tfs reqs : sorted Z.compare (lww tfs reqs).
Proof. apply lww_sorted_gen. exact I. Qed.

(** the value of the last write to interval [k] among [rows] *)
Definition last_write (tfs k : Z) (rows : list row) : option (list byte) :=
  fold_left (fun acc r => if istart tfs (fst r) =? k then Some (snd r) else acc) rows None.

Lemma last_write_gen tfs k : forall rows acc,
  fold_left (fun acc r => if istart tfs (fst r) =? k then Some (snd r) else acc) rows acc
  = match last_write tfs k rows with Some v => Some v | None => acc end.
Proof.
  unfold last_write. induction rows as [|r rest IH]; intros acc; [reflexivity|]. cbn [fold_left].
  rewrite IH. rewrite (IH (if istart tfs (fst r) =? k then Some (snd r) else None)).
  destruct (fold_left _ rest None); [reflexivity|]. destruct (istart tfs (fst r) =? k); reflexivity.
Qed.

Lemma lookup_request tfs k : forall rows m,
  im_lookup k (lww_request tfs m rows)
  = match last_write tfs k rows with Some v => Some v | None => im_lookup k m end.
Proof.
  induction rows as [|r rest IH]; intros m; [reflexivity|].
  change (lww_request tfs m (r :: rest)) with (lww_request tfs (im_ins (istart tfs (fst r)) (snd r) m) rest).
  rewrite IH.
  assert (E : last_write tfs k (r :: rest)
              = match last_write tfs k rest with
                | Some v => Some v
                | None => if istart tfs (fst r) =? k then Some (snd r) else None
                end).
  { unfold last_write at 1. cbn [fold_left]. apply last_write_gen. }
  rewrite E. destruct (last_write tfs k rest); [reflexivity|].
  unfold im_lookup, im_ins. destruct (Z.eqb_spec (istart tfs (fst r)) k) as [Ek|N].
  - rewrite Ek. apply (lookup_ins_same Z.compare (fun _ => True) zcmp_ok); [exact I|apply keys_in_true].
  - apply (lookup_ins_other Z.compare (fun _ => True) zcmp_ok); [exact I|exact I|apply keys_in_true|].
    intros Hc. apply Z.compare_eq in Hc. congruence.
Qed.

Lemma lookup_lww_gen tfs k : forall reqs m,
  im_lookup k (fold_left (lww_request tfs) reqs m)
  = match last_write tfs k (flat reqs) with Some v => Some v | None => im_lookup k m end.
Proof.
  induction reqs as [|rq rest IH]; intros m; [reflexivity|]. cbn [fold_left]. rewrite IH, lookup_request.
  assert (E : last_write tfs k (flat (rq :: rest))
              = match last_write tfs k (flat rest) with Some v => Some v | None => last_write tfs k rq end).
  { unfold flat. cbn [concat]. unfold last_write at 1. rewrite fold_left_app. apply last_write_gen. }
  rewrite E. destruct (last_write tfs k (flat rest)); reflexivity.
Qed.

Theorem lww_lookup tfs reqs k : im_lookup k (lww tfs reqs) = last_write tfs k (flat reqs).
Proof. unfold lww. rewrite lookup_lww_gen. destruct (last_write tfs k (flat reqs)); reflexivity. Qed.
