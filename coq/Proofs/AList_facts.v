(** Association lists keyed by byte strings as used by Model/Catalog.v ([aget], [aset], [adel]):
    [bytes_ltb] is a strict total order; lists produced from [] by [aset]/[adel] are strictly
    ascending; two ascending lists with the same lookup function are equal (canonical forms). *)
From Coq Require Import List Bool Arith NArith Lia.
From Coq.Strings Require Import Byte.
Import ListNotations.
Require Import MS.Base.Hex MS.Base.Path MS.Model.Catalog MS.Proofs.Path_facts.

(* ------------------------------------------------------------------ the order *)
Lemma byte_to_N_inj a b : Byte.to_N a = Byte.to_N b -> a = b.
Proof.
  intros H. apply (f_equal Byte.of_N) in H. rewrite !Byte.of_to_N in H. congruence.
Qed.

Lemma bytes_ltb_irrefl a : bytes_ltb a a = false.
Proof. induction a as [|x r IH]; cbn; auto. rewrite N.ltb_irrefl. exact IH. Qed.

Lemma bytes_ltb_trans a : forall b c, bytes_ltb a b = true -> bytes_ltb b c = true -> bytes_ltb a c = true.
Proof.
  induction a as [|x a IH]; intros [|y b] [|z c]; cbn; try discriminate; auto.
  destruct (N.ltb_spec (Byte.to_N x) (Byte.to_N y)), (N.ltb_spec (Byte.to_N y) (Byte.to_N x));
  destruct (N.ltb_spec (Byte.to_N y) (Byte.to_N z)), (N.ltb_spec (Byte.to_N z) (Byte.to_N y));
  destruct (N.ltb_spec (Byte.to_N x) (Byte.to_N z)), (N.ltb_spec (Byte.to_N z) (Byte.to_N x));
  try discriminate; try lia; auto.
  apply IH.
Qed.

Lemma bytes_trichotomy a : forall b, bytes_eqb a b = true \/ bytes_ltb a b = true \/ bytes_ltb b a = true.
Proof.
  induction a as [|x a IH]; intros [|y b]; cbn; auto.
  destruct (N.ltb_spec (Byte.to_N x) (Byte.to_N y)); auto.
  destruct (N.ltb_spec (Byte.to_N y) (Byte.to_N x)); auto.
  assert (x = y) by (apply byte_to_N_inj; lia). subst. rewrite byte_eqb_refl. cbn.
  destruct (IH b) as [H1|[H1|H1]]; auto.
Qed.

Lemma bytes_ltb_neq a b : bytes_ltb a b = true -> bytes_eqb a b = false.
Proof.
  intros H. destruct (bytes_eqb a b) eqn:E; auto. apply bytes_eqb_eq in E. subst.
  rewrite bytes_ltb_irrefl in H. discriminate.
Qed.

Lemma bytes_ltb_asym a b : bytes_ltb a b = true -> bytes_ltb b a = false.
Proof.
  intros H. destruct (bytes_ltb b a) eqn:E; auto.
  pose proof (bytes_ltb_trans _ _ _ H E) as K. rewrite bytes_ltb_irrefl in K. discriminate.
Qed.

Lemma bytes_eqb_sym a b : bytes_eqb a b = bytes_eqb b a.
Proof.
  destruct (bytes_eqb a b) eqn:E.
  - apply bytes_eqb_eq in E. subst. symmetry. apply bytes_eqb_refl.
  - destruct (bytes_eqb b a) eqn:E2; auto. apply bytes_eqb_eq in E2. subst. rewrite bytes_eqb_refl in E. discriminate.
Qed.

(* ------------------------------------------------------------------ ascending lists *)
Section A.
Context {A : Type}.

(** every key of [l] is above [k] *)
Definition above_key (k : name) (l : list (name * A)) : Prop := Forall (fun e => bytes_ltb k (fst e) = true) l.

Fixpoint asc (l : list (name * A)) : Prop :=
  match l with
  | [] => True
  | (k, _) :: r => above_key k r /\ asc r
  end.

Lemma aget_above k (l : list (name * A)) : above_key k l -> aget k l = None.
Proof.
  induction l as [|[k' v] r IH]; intros H; cbn; auto. inversion H; subst. cbn in H2.
  rewrite (bytes_ltb_neq _ _ H2). auto.
Qed.

Lemma above_key_trans k k' (l : list (name * A)) : bytes_ltb k k' = true -> above_key k' l -> above_key k l.
Proof.
  intros H. apply Forall_impl. intros e He. eapply bytes_ltb_trans; eauto.
Qed.

Lemma aget_aset_same k v (l : list (name * A)) : aget k (aset k v l) = Some v.
Proof.
  induction l as [|[k' v'] r IH]; cbn.
  - rewrite bytes_eqb_refl. reflexivity.
  - destruct (bytes_eqb k k') eqn:E; cbn.
    + rewrite bytes_eqb_refl. reflexivity.
    + destruct (bytes_ltb k k'); cbn; [rewrite bytes_eqb_refl; reflexivity|]. rewrite E. exact IH.
Qed.

Lemma aget_aset_other k k' v (l : list (name * A)) : bytes_eqb k k' = false -> aget k (aset k' v l) = aget k l.
Proof.
  intros H. induction l as [|[k2 v2] r IH]; cbn.
  - rewrite H. reflexivity.
  - destruct (bytes_eqb k' k2) eqn:E; cbn.
    + apply bytes_eqb_eq in E. subst. rewrite H. reflexivity.
    + destruct (bytes_ltb k' k2); cbn; [rewrite H; reflexivity|]. destruct (bytes_eqb k k2); auto.
Qed.

Lemma aget_adel_same k (l : list (name * A)) : asc l -> aget k (adel k l) = None.
Proof.
  induction l as [|[k' v'] r IH]; intros H; cbn; auto. destruct H as [H1 H2].
  destruct (bytes_eqb k k') eqn:E; cbn.
  - apply bytes_eqb_eq in E. subst. apply aget_above. exact H1.
  - rewrite E. auto.
Qed.

Lemma aget_adel_other k k' (l : list (name * A)) : bytes_eqb k k' = false -> aget k (adel k' l) = aget k l.
Proof.
  intros H. induction l as [|[k2 v2] r IH]; cbn; auto.
  destruct (bytes_eqb k' k2) eqn:E; cbn.
  - apply bytes_eqb_eq in E. subst. rewrite H. reflexivity.
  - destruct (bytes_eqb k k2); auto.
Qed.

Lemma above_key_aset k0 k v (l : list (name * A)) :
  bytes_ltb k0 k = true -> above_key k0 l -> above_key k0 (aset k v l).
Proof.
  intros H. induction l as [|[k' v'] r IH]; intros Hl; cbn.
  - constructor; auto.
  - inversion Hl; subst. destruct (bytes_eqb k k'); [constructor; auto|].
    destruct (bytes_ltb k k'); constructor; auto; try (apply IH; auto); constructor; auto.
Qed.

Lemma asc_aset k v (l : list (name * A)) : asc l -> asc (aset k v l).
Proof.
  induction l as [|[k' v'] r IH]; intros H; cbn.
  - split; [constructor|exact I].
  - destruct H as [H1 H2]. destruct (bytes_eqb k k') eqn:E.
    + apply bytes_eqb_eq in E. subst. split; auto.
    + destruct (bytes_ltb k k') eqn:L.
      * split; [|split; auto]. constructor; auto. eapply above_key_trans; eauto.
      * split; [|apply IH; auto]. apply above_key_aset; auto.
        destruct (bytes_trichotomy k k') as [T|[T|T]]; congruence.
Qed.

Lemma above_key_adel k0 k (l : list (name * A)) : above_key k0 l -> above_key k0 (adel k l).
Proof.
  induction l as [|[k' v'] r IH]; intros Hl; cbn; auto. inversion Hl; subst.
  destruct (bytes_eqb k k'); auto. constructor; auto. apply IH; auto.
Qed.

Lemma asc_adel k (l : list (name * A)) : asc l -> asc (adel k l).
Proof.
  induction l as [|[k' v'] r IH]; intros H; cbn; auto. destruct H as [H1 H2].
  destruct (bytes_eqb k k'); auto. split; [apply above_key_adel; auto|apply IH; auto].
Qed.

(** canonical forms *)
Lemma asc_ext (l1 : list (name * A)) : forall l2, asc l1 -> asc l2 -> (forall k, aget k l1 = aget k l2) -> l1 = l2.
Proof.
  induction l1 as [|[k1 v1] r1 IH]; intros [|[k2 v2] r2] H1 H2 E; auto.
  - specialize (E k2). cbn in E. rewrite bytes_eqb_refl in E. discriminate.
  - specialize (E k1). cbn in E. rewrite bytes_eqb_refl in E. discriminate.
  - destruct H1 as [A1 S1], H2 as [A2 S2].
    assert (K : k1 = k2).
    { destruct (bytes_trichotomy k1 k2) as [T|[T|T]]; [apply bytes_eqb_eq; auto| |]; exfalso.
      - pose proof (E k1) as E1. cbn in E1. rewrite bytes_eqb_refl, (bytes_ltb_neq _ _ T) in E1.
        rewrite aget_above in E1; [discriminate|]. eapply above_key_trans; eauto.
      - pose proof (E k2) as E1. cbn in E1. rewrite bytes_eqb_refl, (bytes_ltb_neq _ _ T) in E1.
        rewrite aget_above in E1; [discriminate|]. eapply above_key_trans; eauto. }
    subst k2. pose proof (E k1) as E1. cbn in E1. rewrite bytes_eqb_refl in E1. inversion E1; subst v2.
    f_equal. apply IH; auto. intros k. specialize (E k). cbn in E.
    destruct (bytes_eqb k k1) eqn:T; auto.
    apply bytes_eqb_eq in T. subst k. rewrite !aget_above; auto.
Qed.

Lemma aset_aset_same k v v' (l : list (name * A)) : asc l -> aset k v (aset k v' l) = aset k v l.
Proof.
  intros H. apply asc_ext; auto using asc_aset. intros k0.
  destruct (bytes_eqb k0 k) eqn:E.
  - apply bytes_eqb_eq in E. subst. rewrite !aget_aset_same. reflexivity.
  - rewrite !aget_aset_other; auto.
Qed.

Lemma aset_comm k1 k2 v1 v2 (l : list (name * A)) :
  asc l -> bytes_eqb k1 k2 = false -> aset k1 v1 (aset k2 v2 l) = aset k2 v2 (aset k1 v1 l).
Proof.
  intros H N. apply asc_ext; auto using asc_aset. intros k.
  destruct (bytes_eqb k k1) eqn:E1; destruct (bytes_eqb k k2) eqn:E2.
  - apply bytes_eqb_eq in E1, E2. subst. rewrite bytes_eqb_refl in N. discriminate.
  - apply bytes_eqb_eq in E1. subst. rewrite aget_aset_same, aget_aset_other, aget_aset_same; auto.
  - apply bytes_eqb_eq in E2. subst. rewrite aget_aset_other, !aget_aset_same; auto.
  - rewrite !aget_aset_other; auto.
Qed.

Lemma aset_aget_id k v (l : list (name * A)) : asc l -> aget k l = Some v -> aset k v l = l.
Proof.
  intros H G. apply asc_ext; auto using asc_aset. intros k0.
  destruct (bytes_eqb k0 k) eqn:E.
  - apply bytes_eqb_eq in E. subst. rewrite aget_aset_same. auto.
  - rewrite aget_aset_other; auto.
Qed.

Lemma adel_absent k (l : list (name * A)) : aget k l = None -> adel k l = l.
Proof.
  induction l as [|[k' v'] r IH]; cbn; auto. destruct (bytes_eqb k k'); [discriminate|]. intros H. rewrite IH; auto.
Qed.

Lemma aget_In_asc k v (l : list (name * A)) : asc l -> In (k, v) l -> aget k l = Some v.
Proof.
  induction l as [|[k' v'] r IH]; intros H I; [destruct I|]. destruct H as [H1 H2]. cbn.
  destruct I as [I|I].
  - inversion I; subst. rewrite bytes_eqb_refl. reflexivity.
  - assert (L : bytes_ltb k' k = true).
    { unfold above_key in H1. rewrite Forall_forall in H1. apply (H1 _ I). }
    rewrite bytes_eqb_sym, (bytes_ltb_neq _ _ L). auto.
Qed.
End A.
