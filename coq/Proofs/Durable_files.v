(** Proofs/Durable_files.v — the primary files under the events of the protocol.

    - events act on the WAL files and on the primary files independently ([fapply], [wapply]);
    - fixed-length files are last-writer-wins maps: [fx_get], [lastw] ([fixed_replay_idempotent] of
      DESIGN §6 is [lastw_replay_over_partial] below);
    - variable-length files: the invariant [vinv] under which every indirect write succeeds, and what an
      indirect write does to the content of its interval ([content]). *)
From Coq Require Import ZArith NArith List Bool Lia Permutation.
From Coq.Strings Require Import Byte.
Import ListNotations.
Require Import MS.Base.Res MS.Generated.Src_durab MS.Model.Wal MS.Model.Replay.
Local Open Scope Z_scope.

Definition files := list (fid * pfile).

(* ------------------------------------------------------------------ association lists *)

Lemma alookup_aupdate_same {V} k (f : V -> V) l :
  alookup k (aupdate k f l) = option_map f (alookup k l).
Proof.
  induction l as [|[k' v] l IH]; cbn [aupdate alookup option_map]; [reflexivity|].
  destruct (N.eqb_spec k k') as [->|Hne]; cbn [alookup].
  - rewrite N.eqb_refl. reflexivity.
  - destruct (N.eqb_spec k k'); [contradiction|]. exact IH.
Qed.

Lemma alookup_aupdate_other {V} k k' (f : V -> V) l :
  k <> k' -> alookup k (aupdate k' f l) = alookup k l.
Proof.
  intros Hne. induction l as [|[k2 v] l IH]; cbn [aupdate alookup]; [reflexivity|].
  destruct (N.eqb_spec k' k2) as [->|Hne2]; cbn [alookup].
  - destruct (N.eqb_spec k k2); [contradiction|]. reflexivity.
  - destruct (N.eqb_spec k k2); [reflexivity|]. exact IH.
Qed.

Lemma alookup_app_none {V} k (l : list (N * V)) v :
  alookup k l = None -> alookup k (l ++ [(k, v)]) = Some v.
Proof.
  induction l as [|[k' v'] l IH]; cbn [alookup app]; intros H.
  - rewrite N.eqb_refl. reflexivity.
  - destruct (N.eqb k k'); [discriminate|]. apply IH, H.
Qed.

Lemma alookup_app_other {V} k k' (l : list (N * V)) v :
  k <> k' -> alookup k (l ++ [(k', v)]) = alookup k l.
Proof.
  intros Hne. induction l as [|[k2 v2] l IH]; cbn [alookup app].
  - destruct (N.eqb_spec k k'); [contradiction|]. reflexivity.
  - destruct (N.eqb k k2); [reflexivity|]. exact IH.
Qed.

Lemma alookup_ainsert_same {V} k (v : V) l : alookup k (ainsert k v l) = Some v.
Proof.
  unfold ainsert. destruct (alookup k l) eqn:E.
  - rewrite alookup_aupdate_same, E. reflexivity.
  - apply alookup_app_none, E.
Qed.

Lemma alookup_ainsert_other {V} k k' (v : V) l : k <> k' -> alookup k (ainsert k' v l) = alookup k l.
Proof.
  intros Hne. unfold ainsert. destruct (alookup k' l).
  - apply alookup_aupdate_other, Hne.
  - apply alookup_app_other, Hne.
Qed.

(* ------------------------------------------------------------------ events on the files alone *)

Definition fapply (fs : files) (e : event) : files :=
  match e with
  | EFileNew f => ainsert f PNew fs
  | EFileHdr f k => ainsert f (empty_file k Headersize) fs
  | ECreate f k size => ainsert f (empty_file k size) fs
  | EPW f off idx p =>
      aupdate f (fun pf => match pf with PF ws => PF ((off, (idx, p)) :: ws) | other => other end) fs
  | EVData f off len content =>
      aupdate f (fun pf => match pf with
                           | PV s ix eof bl => PV s ix (Z.max eof (off + len)) ((off, (len, content)) :: bl)
                           | other => other end) fs
  | EVIndex f slot i o l =>
      aupdate f (fun pf => match pf with
                           | PV s ix eof bl => PV s ((slot, (i, o, l)) :: ix) eof bl
                           | other => other end) fs
  | EFileDel f => aremove f fs
  | _ => fs
  end.
Definition fapplys (fs : files) (es : list event) : files := fold_left fapply es fs.

Lemma i_files_apply_event im e : i_files (apply_event im e) = fapply (i_files im) e.
Proof. destruct e; reflexivity. Qed.

Lemma i_files_apply_events es : forall im, i_files (apply_events im es) = fapplys (i_files im) es.
Proof.
  induction es as [|e es IH]; intros im; [reflexivity|].
  cbn [apply_events fapplys fold_left]. fold (apply_events (apply_event im e) es).
  rewrite IH, i_files_apply_event. reflexivity.
Qed.

Lemma fapplys_app fs a b : fapplys fs (a ++ b) = fapplys (fapplys fs a) b.
Proof. unfold fapplys. apply fold_left_app. Qed.

Lemma apply_events_app im a b : apply_events im (a ++ b) = apply_events (apply_events im a) b.
Proof. unfold apply_events. apply fold_left_app. Qed.

(** events that do not touch primary files *)
Definition wal_only (e : event) : bool :=
  match e with
  | EFileNew _ | EFileHdr _ _ | ECreate _ _ _ | EPW _ _ _ _ | EVData _ _ _ _ | EVIndex _ _ _ _ _ | EFileDel _ => false
  | _ => true
  end.

Lemma fapply_wal_only fs e : wal_only e = true -> fapply fs e = fs.
Proof. destruct e; cbn; intros; congruence || reflexivity. Qed.

Lemma fapplys_wal_only es : forall fs, forallb wal_only es = true -> fapplys fs es = fs.
Proof.
  induction es as [|e es IH]; intros fs H; [reflexivity|].
  cbn [forallb] in H. apply andb_prop in H as [H1 H2].
  cbn [fapplys fold_left]. rewrite fapply_wal_only by assumption. apply IH, H2.
Qed.

(** events that do not touch WAL files *)
Definition files_only (e : event) : bool :=
  match e with
  | EWalCreate _ | EWalStatus _ _ _ _ | EWalApp _ _ | EWalTrunc _ | EWalUnlink _ | EWalRename _ => false
  | _ => true
  end.

Lemma i_wals_files_only im e : files_only e = true -> i_wals (apply_event im e) = i_wals im.
Proof. destruct e; cbn; intros; congruence || reflexivity. Qed.

Lemma i_wals_files_onlys es : forall im, forallb files_only es = true -> i_wals (apply_events im es) = i_wals im.
Proof.
  induction es as [|e es IH]; intros im H; [reflexivity|].
  cbn [forallb] in H. apply andb_prop in H as [H1 H2].
  cbn [apply_events fold_left]. fold (apply_events (apply_event im e) es).
  rewrite IH by assumption. apply i_wals_files_only, H1.
Qed.

(* ------------------------------------------------------------------ fixed-length files *)

Definition fx_get (fs : files) (f : fid) (off : Z) : option (Z * record) :=
  match alookup f fs with Some (PF ws) => zlookup off ws | _ => None end.

Definition is_pf (fs : files) (f : fid) : Prop := exists ws, alookup f fs = Some (PF ws).
Definition is_pv (fs : files) (f : fid) : Prop := exists s ix eof bl, alookup f fs = Some (PV s ix eof bl).

(** the value the last fixed command of [cs] for slot (f, off) writes *)
Definition hits (c : cmd) (f : fid) (off : Z) : bool :=
  rkind_eqb (c_kind c) KFixed && N.eqb (c_fid c) f && (c_off c =? off).
Definition lastw (cs : list cmd) (f : fid) (off : Z) : option (Z * record) :=
  fold_left (fun acc c => if hits c f off then Some (c_index c, concat (c_data c)) else acc) cs None.

Definition over {A} (a b : option A) : option A := match a with Some v => Some v | None => b end.

Lemma lastw_gen cs f off : forall acc,
  fold_left (fun acc c => if hits c f off then Some (c_index c, concat (c_data c)) else acc) cs acc
  = over (lastw cs f off) acc.
Proof.
  unfold lastw. induction cs as [|c cs IH]; intros acc; cbn [fold_left]; [reflexivity|].
  rewrite IH. rewrite (IH (if hits c f off then _ else None)).
  destruct (fold_left _ cs None); cbn [over]; [reflexivity|]. destruct (hits c f off); reflexivity.
Qed.

Lemma lastw_app a b f off : lastw (a ++ b) f off = over (lastw b f off) (lastw a f off).
Proof. unfold lastw at 1. rewrite fold_left_app. apply lastw_gen. Qed.

Lemma lastw_cons c cs f off :
  lastw (c :: cs) f off = over (lastw cs f off) (if hits c f off then Some (c_index c, concat (c_data c)) else None).
Proof. change (c :: cs) with ([c] ++ cs). rewrite lastw_app. reflexivity. Qed.

Lemma lastw_none_iff cs f off : lastw cs f off = None <-> forall c, In c cs -> hits c f off = false.
Proof.
  induction cs as [|c cs IH].
  - cbn. split; [intros _ ? []|reflexivity].
  - rewrite lastw_cons. split.
    + intros H c' [->|Hin].
      * destruct (lastw cs f off); [discriminate|]. cbn [over] in H. destruct (hits c' f off); [discriminate|reflexivity].
      * destruct (lastw cs f off) eqn:E; [discriminate|]. apply IH; [reflexivity|assumption].
    + intros H. assert (lastw cs f off = None) as -> by (apply IH; intros; apply H; right; assumption).
      cbn [over]. rewrite (H c) by (left; reflexivity). reflexivity.
Qed.

(** effect of one EPW on the view *)
Lemma fx_get_epw fs f off i p f' off' :
  is_pf fs f ->
  fx_get (fapply fs (EPW f off i p)) f' off'
  = if N.eqb f' f && (off' =? off) then Some (i, p) else fx_get fs f' off'.
Proof.
  intros [ws Hws]. unfold fx_get. cbn [fapply].
  destruct (N.eqb_spec f' f) as [->|Hne]; cbn [andb].
  - rewrite alookup_aupdate_same, Hws. cbn [option_map zlookup]. destruct (off' =? off); reflexivity.
  - rewrite alookup_aupdate_other by assumption. reflexivity.
Qed.

Lemma fx_get_epw_notpf fs f off i p f' off' :
  ~ is_pf fs f -> fx_get (fapply fs (EPW f off i p)) f' off' = fx_get fs f' off'.
Proof.
  intros Hn. unfold fx_get. cbn [fapply].
  destruct (N.eqb_spec f' f) as [->|Hne].
  - rewrite alookup_aupdate_same. destruct (alookup f fs) as [[| ws | s ix eof bl]|] eqn:E; cbn [option_map]; try reflexivity.
    exfalso. apply Hn. exists ws. exact E.
  - rewrite alookup_aupdate_other by assumption. reflexivity.
Qed.

(** variable-file events do not change the fixed view, nor which files are fixed *)
Lemma fx_get_vdata fs f off len c f' off' : fx_get (fapply fs (EVData f off len c)) f' off' = fx_get fs f' off'.
Proof.
  unfold fx_get. cbn [fapply]. destruct (N.eqb_spec f' f) as [->|Hne].
  - rewrite alookup_aupdate_same. destruct (alookup f fs) as [[| |]|]; reflexivity.
  - rewrite alookup_aupdate_other by assumption. reflexivity.
Qed.
Lemma fx_get_vindex fs f slot i o l f' off' : fx_get (fapply fs (EVIndex f slot i o l)) f' off' = fx_get fs f' off'.
Proof.
  unfold fx_get. cbn [fapply]. destruct (N.eqb_spec f' f) as [->|Hne].
  - rewrite alookup_aupdate_same. destruct (alookup f fs) as [[| |]|]; reflexivity.
  - rewrite alookup_aupdate_other by assumption. reflexivity.
Qed.

(** the kind of every file is stable under write events *)
Definition fkind (fs : files) (f : fid) : option rkind :=
  match alookup f fs with Some (PF _) => Some KFixed | Some (PV _ _ _ _) => Some KVar | _ => None end.

Definition is_write (e : event) : bool :=
  match e with EPW _ _ _ _ | EVData _ _ _ _ | EVIndex _ _ _ _ _ => true | _ => false end.

Lemma fkind_write fs e f : is_write e = true -> fkind (fapply fs e) f = fkind fs f.
Proof.
  destruct e; cbn [is_write]; try discriminate; intros _; unfold fkind; cbn [fapply];
    (destruct (N.eqb_spec f f0) as [->|Hne];
     [rewrite alookup_aupdate_same; destruct (alookup f0 fs) as [[| |]|]; reflexivity
     |rewrite alookup_aupdate_other by assumption; reflexivity]).
Qed.

Lemma fkind_writes es : forall fs f, forallb is_write es = true -> fkind (fapplys fs es) f = fkind fs f.
Proof.
  induction es as [|e es IH]; intros fs f H; [reflexivity|].
  cbn [forallb] in H. apply andb_prop in H as [H1 H2]. cbn [fapplys fold_left].
  fold (fapplys (fapply fs e) es). rewrite IH by assumption. apply fkind_write, H1.
Qed.

Lemma is_pf_fkind fs f : is_pf fs f <-> fkind fs f = Some KFixed.
Proof.
  unfold is_pf, fkind. destruct (alookup f fs) as [[| ws |]|]; split; intros H; try discriminate;
    try (destruct H; discriminate); eauto.
Qed.
Lemma is_pv_fkind fs f : is_pv fs f <-> fkind fs f = Some KVar.
Proof.
  unfold is_pv, fkind. destruct (alookup f fs) as [[| ws | s ix eof bl]|]; split; intros H; try discriminate;
    try (destruct H as (?&?&?&?&?); discriminate); eauto 6.
Qed.

(* ------------------------------------------------------------------ sort_ticks *)

Lemma ins_rec_perm x l : Permutation (ins_rec x l) (x :: l).
Proof.
  induction l as [|y l IH]; cbn [ins_rec]; [reflexivity|].
  destruct (ticks y <? ticks x); [|reflexivity].
  rewrite IH. apply perm_swap.
Qed.

Lemma sort_ticks_perm l : Permutation (sort_ticks l) l.
Proof.
  unfold sort_ticks. induction l as [|x l IH]; cbn [fold_right]; [reflexivity|].
  rewrite ins_rec_perm. constructor. exact IH.
Qed.

Lemma sort_ticks_in l r : In r (sort_ticks l) <-> In r l.
Proof. split; apply Permutation_in; [|symmetry]; apply sort_ticks_perm. Qed.

(* ------------------------------------------------------------------ variable-length files *)

Definition content_of (ix : list (Z * (Z * Z * Z))) (eof : Z) (bl : list (Z * (Z * list record))) (slot : Z)
  : list record :=
  let '(i, o, l) := slot_triple ix slot in
  if i =? 0 then [] else match read_block bl eof o l with Some c => c | None => [] end.

Definition content (fs : files) (f : fid) (slot : Z) : list record :=
  match alookup f fs with Some (PV s ix eof bl) => content_of ix eof bl slot | _ => [] end.

(** the invariant of a variable-length file under which indirect writes cannot fail *)
Record vinv (s : Z) (ix : list (Z * (Z * Z * Z))) (eof : Z) (bl : list (Z * (Z * list record))) : Prop := {
  v_size : 0 < s <= eof;
  v_zero : forall slot i o l, slot_triple ix slot = (i, o, l) -> i = 0 -> o = 0 /\ l = 0;
  v_read : forall slot i o l, slot_triple ix slot = (i, o, l) -> i <> 0 ->
             0 < l /\ exists c, read_block bl eof o l = Some c;
  v_inj : forall slot slot' i o l i' l', slot_triple ix slot = (i, o, l) -> slot_triple ix slot' = (i', o, l') ->
             i <> 0 -> i' <> 0 -> slot = slot'
}.

Definition files_vinv (fs : files) : Prop :=
  forall f s ix eof bl, alookup f fs = Some (PV s ix eof bl) -> vinv s ix eof bl.

Lemma slot_triple_cons_same ix slot t : slot_triple ((slot, t) :: ix) slot = t.
Proof. unfold slot_triple. cbn [zlookup]. rewrite Z.eqb_refl. reflexivity. Qed.
Lemma slot_triple_cons_other ix slot slot' t : slot' <> slot -> slot_triple ((slot, t) :: ix) slot' = slot_triple ix slot'.
Proof. intros H. unfold slot_triple. cbn [zlookup]. destruct (Z.eqb_spec slot' slot); [contradiction|reflexivity]. Qed.

Lemma read_block_bound bl eof o l c : read_block bl eof o l = Some c -> o + l <= eof.
Proof.
  unfold read_block. destruct (zlookup o bl) as [[l' c']|]; [|discriminate].
  destruct (l' =? l); cbn [andb]; [|discriminate]. destruct (o + l <=? eof) eqn:E; [|discriminate].
  intros _. apply Z.leb_le, E.
Qed.

Lemma read_block_cons_other bl eof eof' o l p b :
  p <> o -> eof <= eof' -> forall c, read_block bl eof o l = Some c -> read_block ((p, b) :: bl) eof' o l = Some c.
Proof.
  intros Hne Hle c. unfold read_block. cbn [zlookup]. destruct (Z.eqb_spec o p); [congruence|].
  destruct (zlookup o bl) as [[l' c']|]; [|discriminate].
  destruct (l' =? l); cbn [andb]; [|discriminate].
  destruct (o + l <=? eof) eqn:E; [|discriminate]. apply Z.leb_le in E.
  assert (o + l <=? eof' = true) as -> by (apply Z.leb_le; lia). tauto.
Qed.

Lemma read_block_cons_same bl eof p len c : p + len <= eof -> read_block ((p, (len, c)) :: bl) eof p len = Some c.
Proof.
  intros H. unfold read_block. cbn [zlookup]. rewrite !Z.eqb_refl. cbn [andb].
  assert (p + len <=? eof = true) as -> by (apply Z.leb_le; lia). reflexivity.
Qed.

(** position chosen by WriteBufferToFileIndirect: over the interval's own block when that block is the
    last thing in the file (continuation write), else at the end of the file *)
Definition wpos (eof o l : Z) : Z := if o + l =? eof then o else eof.

(** An indirect write on a file satisfying the invariant: the new file satisfies it again, the
    interval's content is extended by the command's records, other intervals are untouched. *)
Lemma vinv_indirect s ix eof bl slot idx len (data : list record) i o l :
  vinv s ix eof bl -> idx <> 0 -> 0 < len -> slot_triple ix slot = (i, o, l) ->
  let new := sort_ticks (content_of ix eof bl slot ++ data) in
  let pos := wpos eof o l in
  let ix' := (slot, (idx, pos, len)) :: ix in
  let eof' := Z.max eof (pos + len) in
  let bl' := (pos, (len, new)) :: bl in
  vinv s ix' eof' bl'
  /\ content_of ix' eof' bl' slot = new
  /\ (forall slot', slot' <> slot -> content_of ix' eof' bl' slot' = content_of ix eof bl slot').
Proof.
  intros Hv Hidx Hlen Et. cbn zeta.
  set (new := sort_ticks (content_of ix eof bl slot ++ data)).
  set (pos := wpos eof o l).
  destruct Hv as [Hsz Hz Hr Hi].
  assert (Hpos : pos = eof \/ (pos = o /\ i <> 0 /\ o + l = eof)).
  { unfold pos, wpos. destruct (Z.eqb_spec (o + l) eof) as [E|E]; [|left; reflexivity].
    right. split; [reflexivity|]. split; [|assumption].
    intros ->. destruct (Hz _ _ _ _ Et eq_refl) as [-> ->]. lia. }
  (* no other interval's block starts at [pos] *)
  assert (Hfresh : forall slot' i' o' l', slot' <> slot -> slot_triple ix slot' = (i', o', l') -> i' <> 0 -> o' <> pos).
  { intros slot' i' o' l' Hne Et' Hi'. destruct (Hr _ _ _ _ Et' Hi') as [Hl' [c Hc]].
    apply read_block_bound in Hc. destruct Hpos as [->|(-> & Hi0 & Ho)]; [lia|].
    intros ->. apply Hne. eapply Hi; eassumption. }
  assert (Hself : read_block ((pos, (len, new)) :: bl) (Z.max eof (pos + len)) pos len = Some new)
    by (apply read_block_cons_same; lia).
  split; [|split].
  - constructor.
    + lia.
    + intros slot' i' o' l' Et' Hi'. destruct (Z.eq_dec slot' slot) as [->|Hne].
      * rewrite slot_triple_cons_same in Et'. inversion Et'; subst. contradiction.
      * rewrite slot_triple_cons_other in Et' by assumption. eapply Hz; eassumption.
    + intros slot' i' o' l' Et' Hi'. destruct (Z.eq_dec slot' slot) as [->|Hne].
      * rewrite slot_triple_cons_same in Et'. inversion Et'; subst. split; [assumption|]. eexists. exact Hself.
      * rewrite slot_triple_cons_other in Et' by assumption.
        destruct (Hr _ _ _ _ Et' Hi') as [Hl' [c Hc]]. split; [assumption|]. exists c.
        apply (read_block_cons_other bl eof); [|lia|assumption].
        intros E. eapply Hfresh; [exact Hne|exact Et'|exact Hi'|]. congruence.
    + intros s1 s2 i1 o1 l1 i2 l2 E1 E2 H1 H2.
      destruct (Z.eq_dec s1 slot) as [->|N1]; destruct (Z.eq_dec s2 slot) as [->|N2]; try reflexivity.
      * rewrite slot_triple_cons_same in E1. rewrite slot_triple_cons_other in E2 by assumption.
        inversion E1; subst. exfalso. eapply Hfresh; [exact N2|exact E2|exact H2|reflexivity].
      * rewrite slot_triple_cons_same in E2. rewrite slot_triple_cons_other in E1 by assumption.
        inversion E2; subst. exfalso. eapply Hfresh; [exact N1|exact E1|exact H1|reflexivity].
      * rewrite slot_triple_cons_other in E1, E2 by assumption. eapply Hi; eassumption.
  - unfold content_of. rewrite slot_triple_cons_same.
    destruct (Z.eqb_spec idx 0); [contradiction|]. rewrite Hself. reflexivity.
  - intros slot' Hne. unfold content_of. rewrite slot_triple_cons_other by assumption.
    destruct (slot_triple ix slot') as [[i' o'] l'] eqn:Et'.
    destruct (Z.eqb_spec i' 0); [reflexivity|].
    destruct (Hr _ _ _ _ Et' n) as [Hl' [c Hc]]. rewrite Hc.
    erewrite (read_block_cons_other bl eof); [reflexivity| |lia|exact Hc].
    intros E. eapply Hfresh; [exact Hne|exact Et'|exact n|]. congruence.
Qed.

(** the dangling data block of an APPENDING indirect write (crash before the index write) leaves the
    invariant and every content intact *)
Lemma vinv_dangling_append s ix eof bl len (new : list record) :
  vinv s ix eof bl -> 0 < len ->
  vinv s ix (Z.max eof (eof + len)) ((eof, (len, new)) :: bl)
  /\ forall slot, content_of ix (Z.max eof (eof + len)) ((eof, (len, new)) :: bl) slot = content_of ix eof bl slot.
Proof.
  intros [Hsz Hz Hr Hi] Hlen.
  assert (Hkeep : forall slot i o l, slot_triple ix slot = (i, o, l) -> i <> 0 ->
            forall c, read_block bl eof o l = Some c ->
                      read_block ((eof, (len, new)) :: bl) (Z.max eof (eof + len)) o l = Some c).
  { intros slot i o l Et Hi0 c Hc. apply (read_block_cons_other bl eof); [|lia|assumption].
    destruct (Hr _ _ _ _ Et Hi0) as [Hl _]. apply read_block_bound in Hc. lia. }
  split.
  - constructor; [lia|assumption| |assumption].
    intros slot i o l Et Hi0. destruct (Hr _ _ _ _ Et Hi0) as [Hl [c Hc]]. split; [assumption|].
    exists c. eapply Hkeep; eassumption.
  - intros slot. unfold content_of. destruct (slot_triple ix slot) as [[i o] l] eqn:Et.
    destruct (Z.eqb_spec i 0); [reflexivity|].
    destruct (Hr _ _ _ _ Et n) as [Hl [c Hc]]. rewrite Hc. erewrite Hkeep; [reflexivity|eassumption..].
Qed.
