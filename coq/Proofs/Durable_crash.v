(** Proofs/Durable_crash.v — the conclusion every crash image must satisfy ([CrashOK]) and the three
    ways to establish it: a one-WAL image whose files are clean / partially updated, and an image
    whose WAL is absent or still shorter than a status message. *)
From Coq Require Import ZArith NArith List Bool Lia Permutation.
From Coq.Strings Require Import Byte.
Import ListNotations.
Require Import MS.Base.Res MS.Generated.Src_durab MS.Model.Wal MS.Model.Replay
  MS.Proofs.Durable_wal MS.Proofs.Durable_files MS.Proofs.Durable_exec MS.Proofs.Durable_flush
  MS.Proofs.Durable_recover MS.Proofs.Durable_sem MS.Proofs.Durable_ext.
Local Open Scope Z_scope.

(* ------------------------------------------------------------------ bookkeeping along a trace *)

(** which TGs are committed (records through the checksum are in the log) and which of them are not
    yet covered by a completed checkpoint or a rotation, read off the event trace *)
Record cst := { cs_pending : option tg; cs_all : list tg; cs_cur : list tg }.
Definition cst0 : cst := {| cs_pending := None; cs_all := []; cs_cur := [] |}.

Definition cstep (s : cst) (e : event) : cst :=
  match e with
  | EWalApp _ (RBody id cs) => {| cs_pending := Some (id, cs); cs_all := cs_all s; cs_cur := cs_cur s |}
  | EWalApp _ (RSum true) =>
      match cs_pending s with
      | Some t => {| cs_pending := None; cs_all := cs_all s ++ [t]; cs_cur := cs_cur s ++ [t] |}
      | None => s
      end
  | EWalApp _ (RTxn _ d st) =>
      if (d =? DEST_CHECKPOINT) && (st =? TXN_COMMITCOMPLETE)
      then {| cs_pending := cs_pending s; cs_all := cs_all s; cs_cur := [] |} else s
  | EWalTrunc _ => {| cs_pending := None; cs_all := cs_all s; cs_cur := [] |}
  | _ => s
  end.
Definition cfold (s : cst) (tr : list event) : cst := fold_left cstep tr s.

Lemma cfold_app s a b : cfold s (a ++ b) = cfold (cfold s a) b.
Proof. unfold cfold. apply fold_left_app. Qed.

(** events that are not WAL appends / truncations do not move the bookkeeping *)
Definition quiet (e : event) : bool :=
  match e with EWalApp _ _ | EWalTrunc _ => false | _ => true end.
Lemma cfold_quiet es : forall s, forallb quiet es = true -> cfold s es = s.
Proof.
  induction es as [|e es IH]; intros s H; [reflexivity|].
  cbn [forallb] in H. apply andb_prop in H as [H1 H2]. unfold cfold in *. cbn [fold_left].
  rewrite IH by assumption. destruct e; try discriminate; reflexivity.
Qed.
Lemma is_write_quiet es : forallb is_write es = true -> forallb quiet es = true.
Proof.
  induction es as [|e es IH]; [reflexivity|]. cbn [forallb]. intros H. apply andb_prop in H as [H1 H2].
  rewrite IH by assumption. destruct e; try discriminate; reflexivity.
Qed.
Lemma is_cat_quiet es : forallb is_cat es = true -> forallb quiet es = true.
Proof.
  induction es as [|e es IH]; [reflexivity|]. cbn [forallb]. intros H. apply andb_prop in H as [H1 H2].
  rewrite IH by assumption. destruct e; try discriminate; reflexivity.
Qed.
Lemma is_cat_files_only es : forallb is_cat es = true -> forallb files_only es = true.
Proof.
  induction es as [|e es IH]; [reflexivity|]. cbn [forallb]. intros H. apply andb_prop in H as [H1 H2].
  rewrite IH by assumption. destruct e; try discriminate; reflexivity.
Qed.
Lemma is_write_files_only es : forallb is_write es = true -> forallb files_only es = true.
Proof.
  induction es as [|e es IH]; [reflexivity|]. cbn [forallb]. intros H. apply andb_prop in H as [H1 H2].
  rewrite IH by assumption. destruct e; try discriminate; reflexivity.
Qed.

Section WithClen.
  Variable clen : list record -> Z.
  Hypothesis clen_pos : forall x, 0 < clen x.
  Variable owner2 : Z.       (* instance id of the recovering run *)

  (** Start-up on the image succeeds, leaves only the new instance's WAL, and the primary files hold
      exactly: every committed TG in every fixed slot (last writer wins), every record of every committed
      variable command, and nothing but those when no variable command had to be replayed. *)
  Definition CrashOK (im : img) (c : cst) : Prop :=
    exists evs, recover clen 1%N owner2 im = (evs, StartOk)
      /\ map fst (i_wals (apply_events im evs)) = [1%N]
      /\ Recovered (i_files (apply_events im evs)) (cs_all c) (cs_cur c)
      /\ (no_pnew (i_files im) -> no_pnew (i_files (apply_events im evs)))
      (* recovery = executing the unchecked TGs, in ascending id order, on the crash-time files *)
      /\ i_files (apply_events im evs) = fapplys (i_files im) (fexec clen (i_files im) (cmds_of (cs_cur c)))
      /\ (exists lo, incr_from lo (cs_cur c)).

  Lemma crash_clean im wf fs0 rs owner G cur p :
    one_wal im wf -> wal_shape wf fs0 rs owner cur -> FClean (i_files im) (G ++ cur) ->
    CrashOK im {| cs_pending := p; cs_all := G ++ cur; cs_cur := cur |}.
  Proof.
    intros Hone Hsh Hc. pose proof Hc as [Hv Hok _ _].
    rewrite cmds_of_app in Hok. apply all_ok_app in Hok as [_ Hokc].
    destruct (recover_exact clen clen_pos im wf fs0 rs owner cur owner2 Hone Hsh Hv Hokc) as (evs & Hr & Hf & Hk).
    exists evs. split; [exact Hr|]. split; [exact Hk|]. cbn [cs_all cs_cur]. rewrite Hf.
    split; [|split; [|split]].
    - apply (recovered_clean clen clen_pos). exact Hc.
    - intros Hn. apply no_pnew_writes; [|exact Hn]. apply (fexec_ok clen clen_pos); assumption.
    - reflexivity.
    - destruct Hsh as [_ _ _ (its & lo & _ & Hi & _) _]. exists lo. exact Hi.
  Qed.

  Lemma crash_partial im wf fs0 rs owner G cur t p :
    one_wal im wf -> wal_shape wf fs0 rs owner (cur ++ [t]) -> FPartial (i_files im) (G ++ cur) t ->
    CrashOK im {| cs_pending := p; cs_all := (G ++ cur) ++ [t]; cs_cur := cur ++ [t] |}.
  Proof.
    intros Hone Hsh Hp. pose proof Hp as [Hv Hok _ _ _].
    assert (Hokc : all_ok (i_files im) (cmds_of (cur ++ [t]))).
    { rewrite <- app_assoc, cmds_of_app in Hok. apply all_ok_app in Hok as [_ H]. exact H. }
    destruct (recover_exact clen clen_pos im wf fs0 rs owner _ owner2 Hone Hsh Hv Hokc) as (evs & Hr & Hf & Hk).
    exists evs. split; [exact Hr|]. split; [exact Hk|]. cbn [cs_all cs_cur]. rewrite Hf.
    split; [|split; [|split]].
    - apply (recovered_partial clen clen_pos). exact Hp.
    - intros Hn. apply no_pnew_writes; [|exact Hn]. apply (fexec_ok clen clen_pos); assumption.
    - reflexivity.
    - destruct Hsh as [_ _ _ (its & lo & _ & Hi & _) _]. exists lo. exact Hi.
  Qed.

  (** a WAL file that is still empty (created or truncated, status not yet written) is removed *)
  Lemma crash_tiny im all p :
    i_wals im = [(0%N, {| wf_status := None; wf_recs := [] |})] -> FClean (i_files im) all ->
    CrashOK im {| cs_pending := p; cs_all := all; cs_cur := [] |}.
  Proof.
    intros Hw Hc. unfold CrashOK, recover.
    set (e0 := start_events 1%N owner2). set (im0 := apply_events im e0).
    assert (Hw0 : i_wals im0 = [(0%N, {| wf_status := None; wf_recs := [] |});
                               (1%N, {| wf_status := Some (WFS_OPEN, WRS_NOTREPLAYED, owner2); wf_recs := [] |})]).
    { unfold im0, e0, start_events, status_events, apply_events. cbn [fold_left apply_event upd_wal i_wals i_aside i_files].
      rewrite Hw. reflexivity. }
    assert (Hf0 : i_files im0 = i_files im).
    { unfold im0. rewrite i_files_apply_events. apply fapplys_wal_only. reflexivity. }
    rewrite Hw0. cbn [map fst cleanup N.eqb Pos.eqb]. rewrite Hw0. cbn [alookup N.eqb].
    change (wal_size {| wf_status := None; wf_recs := [] |} <=? walStatusLenBytes) with true. cbn iota.
    eexists. split; [reflexivity|].
    rewrite apply_events_app. fold im0. cbn [apply_events fold_left apply_event i_wals i_files].
    rewrite Hw0. cbn [aremove N.eqb map fst]. split; [reflexivity|]. rewrite Hf0.
    split; [|split; [|split]].
    - cbn [cs_all cs_cur]. pose proof (recovered_clean clen clen_pos (i_files im) all []) as H.
      rewrite app_nil_r in H. specialize (H Hc). cbn in H. exact H.
    - auto.
    - reflexivity.
    - exists 0. exact I.
  Qed.

  (** no WAL file at all (crash before NewWALFile's first call) *)
  Lemma crash_nowal im :
    i_wals im = [] -> i_files im = [] -> CrashOK im cst0.
  Proof.
    intros Hw Hf. unfold CrashOK, recover.
    set (e0 := start_events 1%N owner2). set (im0 := apply_events im e0).
    assert (Hw0 : i_wals im0 = [(1%N, {| wf_status := Some (WFS_OPEN, WRS_NOTREPLAYED, owner2); wf_recs := [] |})]).
    { unfold im0, e0, start_events, status_events, apply_events. cbn [fold_left apply_event upd_wal i_wals i_aside i_files].
      rewrite Hw. reflexivity. }
    assert (Hf0 : i_files im0 = i_files im).
    { unfold im0. rewrite i_files_apply_events. apply fapplys_wal_only. reflexivity. }
    rewrite Hw0. cbn [map fst cleanup N.eqb Pos.eqb].
    eexists. split; [reflexivity|]. rewrite app_nil_r. fold im0. rewrite Hw0, Hf0, Hf.
    split; [reflexivity|]. split; [|split; [intros _ f; discriminate|split; [reflexivity|exists 0; exact I]]].
    constructor.
    - intros f s ix eof bl H. discriminate.
    - reflexivity.
    - intros c r [].
    - reflexivity.
  Qed.
End WithClen.
