(** Proofs about Model/Candle.v, part 1: window arithmetic, the candle map, the per-Accum cache, the
    partition of the input rows into windows, and the sorted output. *)
From Coq Require Import ZArith Bool Lia List Permutation.
Import ListNotations.
Require Import MS.Base.GoInt MS.Base.Res MS.Base.F32 MS.Base.F64 MS.Model.Uda MS.Model.Candle MS.Generated.Src_agg.
Local Open Scope Z_scope.

(** ------------------------------------------------------------------ window arithmetic *)
Lemma time_truncate_idem t d : time_truncate (time_truncate t d) d = time_truncate t d.
Proof.
  unfold time_truncate. destruct (Z.leb_spec d 0) as [H|H]; [reflexivity|].
  replace (t - (t + abs_epoch_ns) mod d + abs_epoch_ns) with (d * ((t + abs_epoch_ns) / d)).
  - rewrite Z.mul_comm, Z_mod_mult. lia.
  - pose proof (Z_div_mod_eq_full (t + abs_epoch_ns) d). lia.
Qed.

Lemma day_pos : 0 < agg_Day.
Proof. reflexivity. Qed.

Lemma day_floor_idem t : (t - t mod agg_Day) - (t - t mod agg_Day) mod agg_Day = t - t mod agg_Day.
Proof.
  replace (t - t mod agg_Day) with (agg_Day * (t / agg_Day)) at 2 by (pose proof (Z_div_mod_eq_full t agg_Day); lia).
  rewrite Z.mul_comm, Z_mod_mult. lia.
Qed.

Lemma truncate_idem cd t : truncate cd (truncate cd t) = truncate cd t.
Proof. unfold truncate. destruct (cd_day cd); [apply day_floor_idem | apply time_truncate_idem]. Qed.

Lemma day_floor_div t : (t - t mod agg_Day) / agg_Day = t / agg_Day.
Proof.
  replace (t - t mod agg_Day) with (t / agg_Day * agg_Day) by (pose proof (Z_div_mod_eq_full t agg_Day); lia).
  apply Z_div_mult. reflexivity.
Qed.

(** C31's [IsWithin t (Truncate t)] for the suffixes in scope *)
Lemma is_within_truncate cd t : is_within cd t (truncate cd t) = true.
Proof.
  unfold is_within, truncate. destruct (cd_day cd).
  - rewrite day_floor_div. apply Z.eqb_refl.
  - apply Z.eqb_refl.
Qed.

Lemma time_truncate_le t d : time_truncate t d <= t.
Proof.
  unfold time_truncate. destruct (Z.leb_spec d 0); [lia|]. pose proof (Z.mod_pos_bound (t + abs_epoch_ns) d). lia.
Qed.

Lemma time_truncate_mono d t t' : t <= t' -> time_truncate t d <= time_truncate t' d.
Proof.
  intros H. unfold time_truncate. destruct (Z.leb_spec d 0) as [Hd|Hd]; [exact H|].
  replace (t - (t + abs_epoch_ns) mod d) with (d * ((t + abs_epoch_ns) / d) - abs_epoch_ns)
    by (pose proof (Z_div_mod_eq_full (t + abs_epoch_ns) d); lia).
  replace (t' - (t' + abs_epoch_ns) mod d) with (d * ((t' + abs_epoch_ns) / d) - abs_epoch_ns)
    by (pose proof (Z_div_mod_eq_full (t' + abs_epoch_ns) d); lia).
  assert ((t + abs_epoch_ns) / d <= (t' + abs_epoch_ns) / d) by (apply Z.div_le_mono; lia). nia.
Qed.

Lemma day_floor_is_truncate t : t - t mod agg_Day = time_truncate t agg_Day.
Proof.
  unfold time_truncate. change (agg_Day <=? 0) with false. cbv iota.
  assert (E : (t + abs_epoch_ns) mod agg_Day = t mod agg_Day).
  { change abs_epoch_ns with (719162 * agg_Day). apply Z_mod_plus_full. }
  rewrite E. reflexivity.
Qed.

(** the effective window length of a candle duration: 24 h for "D", else the duration *)
Definition eff_dur (cd : cdur) : Z := if cd_day cd then agg_Day else cd_dur cd.

Lemma truncate_eff cd t : truncate cd t = time_truncate t (eff_dur cd).
Proof. unfold truncate, eff_dur. destruct (cd_day cd); [apply day_floor_is_truncate | reflexivity]. Qed.

Lemma truncate_le cd t : truncate cd t <= t.
Proof. rewrite truncate_eff. apply time_truncate_le. Qed.

Lemma truncate_mono cd t t' : t <= t' -> truncate cd t <= truncate cd t'.
Proof. intros H. rewrite !truncate_eff. apply time_truncate_mono. exact H. Qed.

(** ------------------------------------------------------------------ the candle map *)
Lemma lookup_upd_same k f d m :
  lookup k (upd k f d m) = Some (f (match lookup k m with Some c => c | None => d end)).
Proof.
  induction m as [|[k' c] r IH]; cbn [upd lookup].
  - rewrite Z.eqb_refl. reflexivity.
  - destruct (Z.eqb_spec k' k) as [E|E]; cbn [lookup].
    + subst. rewrite Z.eqb_refl. reflexivity.
    + destruct (Z.eqb_spec k' k); [contradiction|]. exact IH.
Qed.

Lemma lookup_upd_other k k' f d m : k' <> k -> lookup k' (upd k f d m) = lookup k' m.
Proof.
  intros N. induction m as [|[k0 c] r IH]; cbn [upd lookup].
  - destruct (Z.eqb_spec k k'); [congruence | reflexivity].
  - destruct (Z.eqb_spec k0 k) as [E|E]; cbn [lookup].
    + subst k0. destruct (Z.eqb_spec k k'); [congruence | reflexivity].
    + destruct (Z.eqb_spec k0 k'); [reflexivity | exact IH].
Qed.

Lemma lookup_in_keys k m : lookup k m <> None <-> In k (map fst m).
Proof.
  induction m as [|[k' c] r IH]; cbn [lookup map fst In].
  - split; [congruence | intros []].
  - destruct (Z.eqb_spec k' k) as [E|E].
    + split; [auto | discriminate].
    + rewrite IH. split; [auto | intros [H|H]; [contradiction | exact H]].
Qed.

Lemma upd_keys k f d m :
  map fst (upd k f d m) = if existsb (Z.eqb k) (map fst m) then map fst m else map fst m ++ [k].
Proof.
  induction m as [|[k' c] r IH]; cbn [upd map fst existsb app]; [reflexivity|].
  rewrite (Z.eqb_sym k k'). destruct (Z.eqb_spec k' k) as [E|E]; cbn [map fst orb]; [reflexivity|].
  rewrite IH. destruct (existsb (Z.eqb k) (map fst r)); reflexivity.
Qed.

Lemma existsb_eqb_in k l : existsb (Z.eqb k) l = true <-> In k l.
Proof.
  rewrite existsb_exists. split.
  - intros (x & Hx & E). apply Z.eqb_eq in E. subst. exact Hx.
  - intros H. exists k. split; [exact H | apply Z.eqb_refl].
Qed.

Lemma NoDup_app_snoc (k : Z) l : NoDup l -> ~ In k l -> NoDup (l ++ [k]).
Proof.
  induction l as [|a l IH]; intros N H; cbn [app]; [constructor; [intros []| constructor]|].
  inversion N as [|? ? Ha N']; subst. constructor.
  - intro I. apply in_app_or in I. destruct I as [I|[E|[]]]; [contradiction | subst; apply H; left; reflexivity].
  - apply IH; [exact N' | intro I; apply H; right; exact I].
Qed.

Lemma upd_nodup k f d m : NoDup (map fst m) -> NoDup (map fst (upd k f d m)).
Proof.
  intros N. rewrite upd_keys. destruct (existsb (Z.eqb k) (map fst m)) eqn:E; [exact N|].
  assert (~ In k (map fst m)) by (intro H; apply existsb_eqb_in in H; congruence).
  apply NoDup_app_snoc; assumption.
Qed.

Lemma lookup_in k c m : NoDup (map fst m) -> (lookup k m = Some c <-> In (k, c) m).
Proof.
  induction m as [|[k' c'] r IH]; intros N; cbn [lookup In].
  - split; [discriminate | intros []].
  - inversion N as [|? ? Hn N']; subst. destruct (Z.eqb_spec k' k) as [E|E].
    + subst k'. split.
      * intros H. inversion H. left. reflexivity.
      * intros [H|H]; [inversion H; reflexivity|].
        exfalso. apply Hn. apply (in_map fst) in H. exact H.
    + rewrite (IH N'). split; [auto | intros [H|H]; [inversion H; contradiction | exact H]].
Qed.

(** ------------------------------------------------------------------ the per-Accum candle cache *)
(** entries are keyed by their own start, and keys are window starts *)
Definition wf_map (cd : cdur) (m : cmap) : Prop :=
  forall k c, lookup k m = Some c -> c_start c = k /\ truncate cd k = k.

Lemma set_ohlc_start c o h l cl ot ct : c_start (set_ohlc c o h l cl ot ct) = c_start c.
Proof. reflexivity. Qed.

Lemma add_candle_start cd c r : c_start (add_candle cd c r) = c_start c.
Proof.
  unfold add_candle. destruct (negb (is_within cd (b_t r) (c_start c))); [reflexivity|].
  repeat match goal with |- context [if ?b then _ else _] => destruct b end; reflexivity.
Qed.

Lemma add_bar_start cd c r : c_start (add_bar cd c r) = c_start c.
Proof. unfold add_bar. cbn [c_start]. apply add_candle_start. Qed.

(** the row step without the cache *)
Definition row_step' (cd : cdur) (nacc : nat) (m : cmap) (r : bar) : cmap :=
  let k := truncate cd (b_t r) in upd k (fun c => add_bar cd c r) (new_candle cd nacc k) m.

Lemma get_key_truncate cd m cache t : wf_map cd m -> get_key cd m cache t = truncate cd t.
Proof.
  intros W. unfold get_key. destruct cache as [kc|]; [|reflexivity].
  destruct (lookup kc m) as [c|] eqn:L; [|reflexivity].
  destruct (W kc c L) as [S _]. rewrite S. destruct (Z.eqb_spec kc (truncate cd t)); [assumption | reflexivity].
Qed.

Lemma wf_row_step' cd nacc m r : wf_map cd m -> wf_map cd (row_step' cd nacc m r).
Proof.
  intros W k c. unfold row_step'. set (k0 := truncate cd (b_t r)).
  destruct (Z.eq_dec k k0) as [E|E].
  - subst k. rewrite lookup_upd_same. intros H. inversion H; subst c. rewrite add_bar_start. split.
    + destruct (lookup k0 m) as [c0|] eqn:L; [apply (W k0 c0 L)|].
      cbn [new_candle c_start]. unfold k0. apply truncate_idem.
    + unfold k0. apply truncate_idem.
  - rewrite lookup_upd_other by exact E. apply W.
Qed.

Lemma accum_rows_nocache cd nacc rows : forall m cache, wf_map cd m ->
  fst (fold_left (row_step cd nacc) rows (m, cache)) = fold_left (row_step' cd nacc) rows m.
Proof.
  induction rows as [|r rows IH]; intros m cache W; cbn [fold_left]; [reflexivity|].
  unfold row_step at 2. rewrite (get_key_truncate cd m cache (b_t r) W).
  rewrite IH by (apply (wf_row_step' cd nacc m r W)). reflexivity.
Qed.

Lemma wf_fold cd nacc rows : forall m, wf_map cd m -> wf_map cd (fold_left (row_step' cd nacc) rows m).
Proof. induction rows as [|r rows IH]; intros m W; cbn [fold_left]; [exact W | apply IH, wf_row_step', W]. Qed.

Lemma wf_nil cd : wf_map cd [].
Proof. intros k c H. discriminate H. Qed.

(** several Accum calls on one candler = one call on the concatenated rows *)
Lemma accum_rows_concat cd nacc rowss : forall m, wf_map cd m ->
  fold_left (accum_rows cd nacc) rowss m = fold_left (row_step' cd nacc) (concat rowss) m
  /\ wf_map cd (fold_left (accum_rows cd nacc) rowss m).
Proof.
  induction rowss as [|rows rest IH]; intros m W; cbn [fold_left concat]; [split; [reflexivity | exact W]|].
  unfold accum_rows at 2 4. rewrite (accum_rows_nocache cd nacc rows m None W).
  rewrite fold_left_app. apply IH. apply wf_fold. exact W.
Qed.

(** ------------------------------------------------------------------ partition into windows *)
Definition window_rows (cd : cdur) (w : Z) (rows : list bar) : list bar :=
  filter (fun r => truncate cd (b_t r) =? w) rows.

Lemma fold_lookup cd nacc rows : forall m w,
  lookup w (fold_left (row_step' cd nacc) rows m) =
  match lookup w m with
  | Some c => Some (fold_left (add_bar cd) (window_rows cd w rows) c)
  | None => match window_rows cd w rows with
            | [] => None
            | rs => Some (fold_left (add_bar cd) rs (new_candle cd nacc w))
            end
  end.
Proof.
  induction rows as [|r rows IH]; intros m w; cbn [fold_left window_rows filter].
  - destruct (lookup w m); reflexivity.
  - rewrite IH. fold (window_rows cd w rows). unfold row_step'.
    destruct (Z.eqb_spec (truncate cd (b_t r)) w) as [E|E].
    + rewrite E, lookup_upd_same. destruct (lookup w m) as [c|]; cbn [fold_left]; reflexivity.
    + rewrite lookup_upd_other by congruence. reflexivity.
Qed.

Lemma window_rows_nil_iff cd w rows :
  window_rows cd w rows <> [] <-> exists r, In r rows /\ truncate cd (b_t r) = w.
Proof.
  unfold window_rows. split.
  - intros H. destruct (filter _ rows) as [|r l] eqn:E; [congruence|].
    assert (I : In r (filter (fun r => truncate cd (b_t r) =? w) rows)) by (rewrite E; left; reflexivity).
    apply filter_In in I. destruct I as [I1 I2]. apply Z.eqb_eq in I2. eauto.
  - intros (r & I & E) H. assert (I' : In r (filter (fun r => truncate cd (b_t r) =? w) rows)).
    { apply filter_In. split; [exact I | apply Z.eqb_eq; exact E]. }
    rewrite H in I'. destruct I'.
Qed.

Lemma fold_nodup cd nacc rows : forall m, NoDup (map fst m) -> NoDup (map fst (fold_left (row_step' cd nacc) rows m)).
Proof.
  induction rows as [|r rows IH]; intros m N; cbn [fold_left]; [exact N|]. apply IH. unfold row_step'. apply upd_nodup, N.
Qed.

(** ------------------------------------------------------------------ sorted output *)
Fixpoint incr (l : list Z) : Prop :=
  match l with
  | a :: ((b :: _) as r) => a < b /\ incr r
  | _ => True
  end.

Lemma insert_perm x l : Permutation (insert_by_key x l) (x :: l).
Proof.
  induction l as [|y r IH]; cbn [insert_by_key]; [apply Permutation_refl|].
  destruct (fst x <=? fst y); [apply Permutation_refl|].
  apply Permutation_trans with (y :: x :: r); [apply perm_skip, IH | apply perm_swap].
Qed.

Lemma sort_perm m : Permutation (sort_by_key m) m.
Proof.
  induction m as [|x r IH]; cbn [sort_by_key fold_right]; [apply perm_nil|].
  fold (sort_by_key r). apply Permutation_trans with (x :: sort_by_key r); [apply insert_perm | apply perm_skip, IH].
Qed.

Lemma incr_cons a l : incr l -> (forall b, In b l -> a < b) -> incr (a :: l).
Proof. destruct l as [|b r]; cbn [incr]; [auto|]. intros H F. split; [apply F; left; reflexivity | exact H]. Qed.

Lemma incr_head_lt a l : incr (a :: l) -> forall b, In b l -> a < b.
Proof.
  revert a. induction l as [|b r IH]; intros a H x I; [destruct I|].
  cbn [incr] in H. destruct H as [H1 H2]. destruct I as [E|I]; [subst; exact H1|].
  specialize (IH b H2 x I). lia.
Qed.

Lemma incr_tail a l : incr (a :: l) -> incr l.
Proof. destruct l; cbn [incr]; [auto | intros [_ H]; exact H]. Qed.

Lemma insert_incr x l : incr (map fst l) -> ~ In (fst x) (map fst l) -> incr (map fst (insert_by_key x l)).
Proof.
  induction l as [|y r IH]; intros H N; cbn [insert_by_key map]; [exact I|].
  cbn [map] in H, N. destruct (Z.leb_spec (fst x) (fst y)) as [L|L]; cbn [map].
  - apply incr_cons; [exact H|]. intros b [E|Ib].
    + subst b. assert (fst x <> fst y) by (intro E; apply N; left; symmetry; exact E). lia.
    + pose proof (incr_head_lt _ _ H b Ib). assert (fst x <> fst y) by (intro E; apply N; left; symmetry; exact E). lia.
  - apply incr_cons.
    + apply IH; [apply (incr_tail _ _ H) | intro I0; apply N; right; exact I0].
    + intros b Ib. assert (P : Permutation (map fst (insert_by_key x r)) (fst x :: map fst r)).
      { apply (Permutation_map fst (insert_perm x r)). }
      apply (Permutation_in _ P) in Ib. destruct Ib as [E|Ib]; [subst b; lia | apply (incr_head_lt _ _ H b Ib)].
Qed.

Lemma sort_incr m : NoDup (map fst m) -> incr (map fst (sort_by_key m)).
Proof.
  induction m as [|x r IH]; intros N; cbn [sort_by_key fold_right]; [exact I|].
  fold (sort_by_key r). cbn [map] in N. inversion N as [|? ? Hn N']; subst.
  apply insert_incr; [apply IH, N'|].
  intro H. apply Hn. apply (Permutation_in _ (Permutation_map fst (sort_perm r))). exact H.
Qed.

(** ------------------------------------------------------------------ the partition theorem *)
(** [accum_all]: the candle map after any number of Accum calls on a fresh candler *)
Definition accum_all (cd : cdur) (nacc : nat) (rowss : list (list bar)) : cmap :=
  fold_left (accum_rows cd nacc) rowss [].

Definition window_candle (cd : cdur) (nacc : nat) (w : Z) (rows : list bar) : candle :=
  fold_left (add_bar cd) (window_rows cd w rows) (new_candle cd nacc w).

Theorem accum_partition cd nacc rowss :
  let rows := concat rowss in
  let out := sort_by_key (accum_all cd nacc rowss) in
  incr (map fst out)
  /\ (forall w, In w (map fst out) <-> exists r, In r rows /\ truncate cd (b_t r) = w)
  /\ (forall w c, In (w, c) out -> c = window_candle cd nacc w rows).
Proof.
  cbv zeta. unfold accum_all.
  destruct (accum_rows_concat cd nacc rowss [] (wf_nil cd)) as [E _]. rewrite E.
  set (m := fold_left (row_step' cd nacc) (concat rowss) []).
  assert (N : NoDup (map fst m)) by (apply fold_nodup; constructor).
  assert (L : forall w, lookup w m = match window_rows cd w (concat rowss) with
                                      | [] => None
                                      | rs => Some (fold_left (add_bar cd) rs (new_candle cd nacc w)) end).
  { intros w. unfold m. rewrite fold_lookup. reflexivity. }
  split; [apply sort_incr, N|]. split.
  - intros w. rewrite <- window_rows_nil_iff.
    assert (P : In w (map fst (sort_by_key m)) <-> In w (map fst m)).
    { split; apply Permutation_in; [apply Permutation_map, sort_perm | apply Permutation_sym, Permutation_map, sort_perm]. }
    rewrite P, <- lookup_in_keys, L. destruct (window_rows cd w (concat rowss)); split; congruence.
  - intros w c I. apply (Permutation_in _ (sort_perm m)) in I. apply (lookup_in w c m N) in I.
    rewrite L in I. unfold window_candle. destruct (window_rows cd w (concat rowss)); [discriminate | inversion I; reflexivity].
Qed.

(** run_accum on inputs whose columns extract to [rowss] *)
Lemma run_accum_ok cd nacc inputs rowss : forall m,
  Forall2 (fun i rows => extract i = Ok rows /\ length (in_acc i) = nacc) inputs rowss ->
  run_accum cd m inputs = Ok (fold_left (accum_rows cd nacc) rowss m).
Proof.
  intros m H. revert m. induction H as [|i rows inputs rowss [E L] _ IH]; intros m; cbn [run_accum fold_left]; [reflexivity|].
  unfold accum. rewrite E. cbn [bindR]. rewrite L. apply IH.
Qed.
